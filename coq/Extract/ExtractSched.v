(* Extraction of the thread model of the UCI front end (ExtrOcamlBasic only). *)
From Coq Require Extraction ExtrOcamlBasic.
From Chess Require Import Model.Sched.

Extraction Language OCaml.
Set Extraction KeepSingleton.

Extraction "sched.ml" init step enabled all_cmds out pc exited panicked.
