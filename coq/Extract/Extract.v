(* Extraction of the executable model and specifications to OCaml (ExtrOcamlBasic only:
   bool, option, unit, list, prod, sumbool, sumor and andb/orb are mapped to OCaml's own;
   numbers stay positive/N/Z). Run from the directory that should receive model.ml. *)
From Coq Require Extraction ExtrOcamlBasic.
From Chess Require Import Model.Board Model.Game Model.Attack Model.MoveGen Model.Fen Model.Text Model.Search Model.RefSearch Model.Budget Model.Session.

Extraction Language OCaml.
Set Extraction KeepSingleton.

Extraction "model.ml"
  (* board / game *)
  idx valid_pos all_squares move_eqb state_byte
  mkGame glen gstate_of gget king_pos king_exists set_position push pop push_history update_phase
  is_targeted
  pseudo_moves checked_moves get_moves get_moves_st
  import fen uci from_uci pgn_move get_pgn display utf8 decimal hex_upper
  piece_score key_piece kind_index piece_index material_value
  KEY_BLACK_TO_MOVE KEY_EMPTY_PLACE KEYS_STATE KEYS_PIECE ENDGAME_THRESHOLD
  QUEEN_SCORES ROOK_SCORES BISHOP_SCORES KNIGHT_SCORES PAWN_SCORES KING_SCORES_MIDDLE KING_SCORES_END
  char_of_piece PGN_LETTER glyph all_kinds
  driver root node fresh_state mkS tempty tlen tfind quiescence depth1 history_bonus KILLER_SLOTS HISTORY_SLOTS
  chess_rootref chess_nref root_moves standpat QFUEL
  run_cmd init_session
  go_timer go_time side_budget share Z.add Z.mul Z.div Z.modulo Z.compare.
