(* Extraction of the executable specifications (ExtrOcamlBasic only). *)
From Coq Require Extraction ExtrOcamlBasic.
From Chess Require Import Spec.Rules Spec.FenSpec Spec.HashSpec Spec.EvalSpec Spec.Notation.

Extraction Language OCaml.
Set Extraction KeepSingleton.

Extraction "spec.ml"
  parse render fields14 six_fields sane legal_moves pseudo_legal_moves legal pseudo_legal apply in_check
  checkmate stalemate forced_mate_in keeps_mate perft
  H eval spec_is_endgame mirror_board
  move_text parse_move record_entry is_castling is_en_passant.
