(* Model of move generation: Piece::get_moves and friends (src/chess/piece.rs) and
   Game::get_moves (src/chess/mod.rs). No proofs in this file. *)
From Chess Require Export Model.Attack.

Open Scope Z_scope.

Definition own (g : game) (o : option piece) : bool :=
  match o with Some pc => color_eqb (po pc) (g_player g) | None => false end.

(* one loop of search_deltas!: quiet moves along the ray, a capture of the first enemy piece *)
Fixpoint ray_moves (fuel : nat) (g : game) (self : piece) (p : pos) (d : Z * Z) (x : Z) : list Move :=
  match fuel with
  | O => []
  | S f =>
      match add p (scale x d) with
      | None => []
      | Some np =>
          match gget g np with
          | Some pc =>
              if negb (color_eqb (po pc) (g_player g)) then [Normal self p np (Some pc)] else []
          | None => Normal self p np None :: ray_moves f g self p d (x + 1)
          end
      end
  end.

Definition slider_moves (g : game) (self : piece) (p : pos) (dirs : list (Z * Z)) : list Move :=
  flat_map (fun d => ray_moves 8 g self p d 1) dirs.

(* Piece::get_knight_moves *)
Definition knight_moves (g : game) (self : piece) (p : pos) : list Move :=
  flat_map (fun d =>
              match add p d with
              | Some np =>
                  let place := gget g np in
                  if own g place then [] else [Normal self p np place]
              | None => []
              end) GEN_KNIGHT_DELTAS.

(* Piece::get_king_moves *)
Definition king_steps (g : game) (self : piece) (p : pos) : list Move :=
  let ok := king_pos g (other (g_player g)) in
  flat_map (fun d =>
              match add p d with
              | Some np =>
                  let place := gget g np in
                  if own g place then []
                  else if (Z.abs (fst np - fst ok) <=? 1) && (Z.abs (snd np - snd ok) <=? 1) then []
                  else [Normal self p np place]
              | None => []
              end) GEN_KING_DELTAS.

Definition is_none (o : option piece) : bool := match o with None => true | Some _ => false end.

Definition castling_moves (g : game) : list Move :=
  let st := gstate_of g in
  let c := g_player g in
  let '(ks, qs) := match c with
                   | White => (st_wk st, st_wq st)
                   | Black => (st_bk st, st_bq st)
                   end in
  let row := home_row c in
  let king := (row, 4) in
  (if ks
      && is_none (gget g (row, 5)) && is_none (gget g (row, 6))
      && negb (is_targeted g king c)
      && negb (is_targeted g (row, 5) c) && negb (is_targeted g (row, 6) c)
   then [CastlingShort c] else [])
  ++
  (if qs
      && is_none (gget g (row, 1)) && is_none (gget g (row, 2)) && is_none (gget g (row, 3))
      && negb (is_targeted g king c)
      && negb (is_targeted g (row, 2) c) && negb (is_targeted g (row, 3) c)
   then [CastlingLong c] else []).

Definition king_moves (g : game) (self : piece) (p : pos) : list Move :=
  king_steps g self p ++ castling_moves g.

(* Piece::get_pawn_moves *)
Definition pawn_moves (g : game) (self : piece) (p : pos) : list Move :=
  let o := po self in
  let double :=
    if (fst p =? PAWN_FIRST_ROW o)
       && is_none (gget g (add_unsafe p (PAWN_NORMAL_DELTA o)))
       && is_none (gget g (add_unsafe p (PAWN_FIRST_DELTA o)))
    then [Normal self p (add_unsafe p (PAWN_FIRST_DELTA o)) None] else [] in
  let single :=
    match add p (PAWN_NORMAL_DELTA o) with
    | Some np =>
        if is_none (gget g np) then
          if PAWN_LAST_ROW o =? fst np then
            map (fun k => Promotion (g_player g) k p np None) PROMOTION_KINDS_PUSH
          else [Normal self p np None]
        else []
    | None => []
    end in
  let captures :=
    flat_map (fun d =>
                match add p d with
                | Some np =>
                    let place := gget g np in
                    match place with
                    | Some pc =>
                        if negb (color_eqb (po pc) o) then
                          if PAWN_LAST_ROW o =? fst np then
                            map (fun k => Promotion (g_player g) k p np place) PROMOTION_KINDS_CAPTURE
                          else [Normal self p np place]
                        else []
                    | None => []
                    end
                | None => []
                end) (PAWN_SIDE_DELTAS o) in
  let ep := st_ep (gstate_of g) in
  let en_passant :=
    if (fst p =? PAWN_EP_ROW o) && (ep <? 8) && (Z.abs (ep - snd p) =? 1)
    then [EnPassant (g_player g) (snd p) ep] else [] in
  double ++ single ++ captures ++ en_passant.

(* Piece::get_moves *)
Definition piece_moves (g : game) (self : piece) (p : pos) : list Move :=
  match pk self with
  | Pawn => pawn_moves g self p
  | King => king_moves g self p
  | Knight => knight_moves g self p
  | Rook => slider_moves g self p GEN_ROOK_DIRS
  | Bishop => slider_moves g self p GEN_BISHOP_DIRS
  | Queen => slider_moves g self p GEN_QUEEN_DIRS
  end.

(* the generation loop of Game::get_moves; the buffer keeps at most MOVE_BUFFER_CAP moves *)
Definition pseudo_moves_all (g : game) : list Move :=
  flat_map (fun p =>
              match gget g p with
              | Some pc => if color_eqb (po pc) (g_player g) then piece_moves g pc p else []
              | None => []
              end) all_squares.

Definition pseudo_moves (g : game) : list Move :=
  if king_exists g (g_player g) then firstn (Z.to_nat MOVE_BUFFER_CAP) (pseudo_moves_all g) else [].

(* the shortcut of the filter: a non-king-line Normal move while the king is not in check *)
Definition not_aligned (s k : pos) : bool :=
  let dc := snd s - snd k in
  let dr := fst s - fst k in
  negb (dc =? 0) && negb (dr =? 0) && negb (Z.abs dc =? Z.abs dr).

Definition shortcut (targeted : bool) (kp : pos) (m : Move) : bool :=
  negb targeted && match m with Normal _ s _ _ => not_aligned s kp | _ => false end.

(* the filter loop, threading the game through push / pop exactly as the code does *)
Fixpoint filter_moves (g : game) (player : color) (kp : pos) (targeted : bool) (ms : list Move)
  : list Move * game :=
  match ms with
  | [] => ([], g)
  | m :: rest =>
      if shortcut targeted kp m then
        let '(r, g') := filter_moves g player kp targeted rest in (m :: r, g')
      else
        let g1 := push g m in
        let ok := negb (is_targeted g1 (king_pos g1 player) player) in
        let g2 := pop g1 m in
        let '(r, g') := filter_moves g2 player kp targeted rest in
        (if ok then m :: r else r, g')
  end.

(* Game::get_moves: the list and the game as the call leaves it *)
Definition get_moves_st (g : game) (verify : bool) : list Move * game :=
  let ms := pseudo_moves g in
  if verify && king_exists g (g_player g) then
    let player := g_player g in
    let kp := king_pos g player in
    filter_moves g player kp (is_targeted g kp player) ms
  else (ms, g).

(* the pure reading used by the search model and by the theorems: push does not depend on the
   caches, so the filter may evaluate each move on [push g m] directly (Proofs/PushPop.v shows
   that both readings agree and that the threaded game is [g] again) *)
Definition legal_after (g : game) (m : Move) : bool :=
  let g1 := push g m in negb (is_targeted g1 (king_pos g1 (g_player g)) (g_player g)).

Definition checked_moves (g : game) : list Move :=
  if king_exists g (g_player g) then
    let kp := king_pos g (g_player g) in
    let targeted := is_targeted g kp (g_player g) in
    filter (fun m => shortcut targeted kp m || legal_after g m) (pseudo_moves g)
  else [].

Definition get_moves (g : game) (verify : bool) : list Move :=
  if verify then checked_moves g else pseudo_moves g.
