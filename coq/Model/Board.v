(* Model of the board-level data types: squares, moves, table and key lookups.
   Mirrors src/chess/{position,piece,move_struct,zobrist}.rs. No proofs in this file. *)
From Chess Require Export Base.Types Base.Prelude.
From Chess Require Export Gen.Tables Gen.Keys Gen.Geometry Gen.Letters Gen.Consts.

Open Scope Z_scope.

(* ---- Position ------------------------------------------------------------------- *)

Definition in_range (r c : Z) : bool := (0 <=? r) && (r <? 8) && (0 <=? c) && (c <? 8).
Definition valid_pos (p : pos) : bool := in_range (fst p) (snd p).

(* Position::as_usize *)
Definition idx (p : pos) : Z := fst p * 8 + snd p.

(* Position::add: None when the result leaves the board *)
Definition add (p : pos) (d : Z * Z) : option pos :=
  let r := fst p + fst d in
  let c := snd p + snd d in
  if in_range r c then Some (r, c) else None.

(* Position::add_unsafe: the caller promises the result is on the board *)
Definition add_unsafe (p : pos) (d : Z * Z) : pos := (fst p + fst d, snd p + snd d).

Definition all_squares : list pos :=
  flat_map (fun r => map (fun c => (Z.of_nat r, Z.of_nat c)) (seq 0 8)) (seq 0 8).

(* ---- Moves ---------------------------------------------------------------------- *)

Inductive Move :=
| Normal (p : piece) (s e : pos) (cap : option piece)
| Promotion (o : color) (np : kind) (s e : pos) (cap : option piece)
| CastlingShort (o : color)
| CastlingLong (o : color)
| EnPassant (o : color) (sc ec : Z).

Definition move_eqb (a b : Move) : bool :=
  match a, b with
  | Normal p s e c, Normal p' s' e' c' =>
      piece_eqb p p' && pos_eqb s s' && pos_eqb e e' && opiece_eqb c c'
  | Promotion o k s e c, Promotion o' k' s' e' c' =>
      color_eqb o o' && kind_eqb k k' && pos_eqb s s' && pos_eqb e e' && opiece_eqb c c'
  | CastlingShort o, CastlingShort o' => color_eqb o o'
  | CastlingLong o, CastlingLong o' => color_eqb o o'
  | EnPassant o s e, EnPassant o' s' e' => color_eqb o o' && (s =? s') && (e =? e')
  | _, _ => false
  end.

(* ---- Board ---------------------------------------------------------------------- *)

(* the 64-entry arrays of the implementation are kept as 8 rows of 8 (index row * 8 + col) *)
Definition board := grid (option piece).

Definition bget (b : board) (p : pos) : option piece := grid_get b p None.
Definition bset (b : board) (p : pos) (v : option piece) : board := grid_set b p v.

(* ---- Piece-square tables (Piece::score) ----------------------------------------- *)

Definition kind_index (k : kind) : Z :=
  match find_index (kind_eqb k) kind_order with Some i => Z.of_nat i | None => 0 end.

(* the score tables cut into rows once *)
Definition initial_table_rows : list (grid Z) := map (chunk 8) initial_tables.
Definition endgame_swap_rows : grid Z := chunk 8 endgame_swap_table.

(* the table a piece kind is scored with; [kend] = the endgame table has been installed *)
Definition table_for (kend : bool) (k : kind) : grid Z :=
  if kend && kind_eqb k endgame_swap_kind then endgame_swap_rows
  else znth initial_table_rows (kind_index k) [].

Definition piece_score (kend : bool) (pc : piece) (p : pos) : Z :=
  let row := if color_eqb (po pc) score_flip_color then 7 - fst p else fst p in
  grid_get (table_for kend (pk pc)) (row, snd p) 0 * color_sign (po pc).

(* ---- Zobrist keys (Piece::as_index, Piece::hash, GameState::hash) ---------------- *)

Definition piece_index (pc : piece) : Z :=
  kind_index (pk pc) + if color_eqb (po pc) index_offset_color then index_offset else 0.

(* PIECE[square][piece index], squares cut into rows of 8 *)
Definition keys_piece_rows : list (list (list N)) := chunk 8 (chunk (N.to_nat PIECE_ROW) KEYS_PIECE).

Definition key_piece (p : pos) (pc : piece) : N :=
  znth (grid_get keys_piece_rows p []) (piece_index pc) 0%N.

Definition key_place (p : pos) (o : option piece) : N :=
  match o with Some pc => key_piece p pc | None => KEY_EMPTY_PLACE end.

Definition keys_state_rows : list (list N) := chunk 16 KEYS_STATE.
Definition key_state (byte : Z) : N := znth (znth keys_state_rows (byte / 16) []) (byte mod 16) 0%N.

(* ---- GameState: the en passant file and the four castling rights ----------------
   The implementation packs these into one byte (low nibble = file, 8 = none; bits 4-7 =
   rights). The model keeps the fields apart and [state_byte] gives the packed value, which
   is what selects the key and what the correspondence run compares. *)

Record gstate := mkState { st_ep : Z; st_wk : bool; st_wq : bool; st_bk : bool; st_bq : bool }.

Definition b2z (b : bool) : Z := if b then 1 else 0.

Definition state_byte (s : gstate) : Z :=
  st_ep s + 16 * b2z (st_wk s) + 32 * b2z (st_wq s) + 64 * b2z (st_bk s) + 128 * b2z (st_bq s).

Definition state_default : gstate := mkState 8 false false false false.

Definition set_ep (s : gstate) (v : Z) : gstate := mkState v (st_wk s) (st_wq s) (st_bk s) (st_bq s).
Definition set_wk (s : gstate) (v : bool) : gstate := mkState (st_ep s) v (st_wq s) (st_bk s) (st_bq s).
Definition set_wq (s : gstate) (v : bool) : gstate := mkState (st_ep s) (st_wk s) v (st_bk s) (st_bq s).
Definition set_bk (s : gstate) (v : bool) : gstate := mkState (st_ep s) (st_wk s) (st_wq s) v (st_bq s).
Definition set_bq (s : gstate) (v : bool) : gstate := mkState (st_ep s) (st_wk s) (st_wq s) (st_bk s) v.

Definition clear_rights (s : gstate) (c : color) : gstate :=
  match c with
  | White => set_wq (set_wk s false) false
  | Black => set_bq (set_bk s false) false
  end.

Definition gstate_eqb (a b : gstate) : bool :=
  (st_ep a =? st_ep b) && Bool.eqb (st_wk a) (st_wk b) && Bool.eqb (st_wq a) (st_wq b)
  && Bool.eqb (st_bk a) (st_bk b) && Bool.eqb (st_bq a) (st_bq b).
