(* Model of Game::is_targeted (src/chess/mod.rs). No proofs in this file. *)
From Chess Require Export Model.Game.

Open Scope Z_scope.

Definition scale (x : Z) (d : Z * Z) : Z * Z := (x * fst d, x * snd d).

(* enemy piece of the given kind on p + delta, for one literal delta loop *)
Definition delta_attack (b : board) (p : pos) (player : color) (k : kind) (deltas : list (Z * Z)) : bool :=
  existsb (fun d =>
             match add p d with
             | Some np =>
                 match bget b np with
                 | Some pc => negb (color_eqb (po pc) player) && kind_eqb (pk pc) k
                 | None => false
                 end
             | None => false
             end) deltas.

(* one `for delta in (1..).map(..)` loop of search_enemies_loops!: walk until the board ends
   or a piece is met; [x] is the current multiple, [fuel] bounds the walk (8 is enough) *)
Fixpoint ray_attack (fuel : nat) (b : board) (p : pos) (player : color) (k1 k2 : kind)
         (d : Z * Z) (x : Z) : bool :=
  match fuel with
  | O => false
  | S f =>
      match add p (scale x d) with
      | None => false
      | Some np =>
          match bget b np with
          | Some pc =>
              negb (color_eqb (po pc) player) && (kind_eqb (pk pc) k1 || kind_eqb (pk pc) k2)
          | None => ray_attack f b p player k1 k2 d (x + 1)
          end
      end
  end.

Definition rays_attack (b : board) (p : pos) (player : color) (ks : kind * kind) (dirs : list (Z * Z)) : bool :=
  existsb (fun d => ray_attack 8 b p player (fst ks) (snd ks) d 1) dirs.

(* is `p` (a square of `player`) attacked by a piece of the other colour? *)
Definition board_targeted (b : board) (p : pos) (player : color) : bool :=
  delta_attack b p player TARGET_KIND_1 TARGET_DELTAS_1
  || delta_attack b p player TARGET_KIND_2 TARGET_DELTAS_2
  || delta_attack b p player Pawn (TARGET_PAWN_DELTAS player)
  || rays_attack b p player TARGET_RAY_KINDS_1 TARGET_RAY_DIRS_1
  || rays_attack b p player TARGET_RAY_KINDS_2 TARGET_RAY_DIRS_2.

Definition is_targeted (g : game) (p : pos) (player : color) : bool :=
  board_targeted (g_board g) p player.
