(* Model/Sched.v - labelled transition system for the thread structure of the UCI front end
   (/repo/src/uci.rs AS REPAIRED by F6a/F6b/F6c).  Executable, no proofs, extractable with
   ExtrOcamlBasic (only bool, nat, list, option and the inductives below).

   Threads: the stdin thread (`uci_talk`), one search thread per accepted `go`, one timer
   thread per accepted timed `go`.  One transition per shared-memory action (atomic
   load/store, mutex acquire/release, spawn, join completion, println).

   Slots.  Every `Arc<AtomicBool>` the stdin thread ever creates gets a slot in `gos`:
   slot 0 is the flag created before the main loop (it never has a search or timer
   thread); every `go` that passes the busy check (and the join that follows it) creates a
   new flag `search_is_running = Arc::new(..)` = a new slot appended at the end of `gos`,
   and `cur` is the index of the slot the stdin thread currently refers to.  The "go id"
   used in `EBestmove i`, `LSearch i`, `LTimer i` is this slot index.  A `go` that is then
   refused for want of a game leaves its slot without threads (`sst = SNone`); an
   ACCEPTED go is a slot with `sst <> SNone`.

   Abstractions (all over-approximations of the real behaviours):
   * no clock: a sleeping timer may fire at any step after its spawn;
   * search progress: `LSearch i` in state `SSearching` ends the search.  This single step
     stands for "a poll saw flag i down" as well as "the search finished by itself"
     (depth reached, mate score, single reply); polls that see the flag up do not change
     the state and are not represented (stutter).  So every search may end at any step,
     and it can always end (in particular once its flag is down);
   * `position`: the argument of `CPosition ok` says whether the command leaves
     `current_game = Some _` (`ok = true`) or `None`; a malformed `position` that leaves
     the game untouched is covered by choosing `ok` equal to the current value.  The
     `error: ...` lines of `position` are not output events of the model;
   * thread-local data of the stdin thread (`search_thread`, the identity of the current
     `Arc`) is updated in the same transition as the neighbouring shared action; where a
     local test decides the control flow (`if let Some(thread) = search_thread.take()`)
     the join program point is passed by a step that changes nothing if the handle is
     `None`;
   * unknown words / empty lines are not commands (they change nothing). *)
From Coq Require Import List Arith Bool.
Import ListNotations.

Inductive cmd : Type :=
| CUci | CIsReady | CNewGame
| CPosition (ok : bool)        (* does it leave a game? *)
| CGo (timed : bool)           (* is a timer thread spawned (clock or movetime given, not infinite)? *)
| CStop | CWait | CShow | CQuit.

Inductive event : Type :=
| EBestmove (i : nat) | EReadyOk | EErrorBusy | EErrorNoGame | EInfoTime | EShown | EUciOk.

(* search thread of a slot *)
Inductive sstate : Type :=
| SNone        (* never spawned *)
| SWaitLock    (* spawned, about to `data_mutex.lock()` *)
| SSearching   (* holds the mutex, inside get_best_move_until_stop *)
| SFinished    (* search returned; next: search_is_running.store(false) *)
| SCleared     (* flag cleared; next: *current_game = None *)
| SDropped     (* game dropped; next: println bestmove *)
| SPrinted     (* bestmove printed; next: guard dropped (unlock), thread ends *)
| SDone        (* thread finished, joinable *)
| SPanicked.   (* thread panicked (unwrap of a missing game / poisoned lock) *)

Inductive tstate : Type := TNone | TSleeping | TFired.

Record gorec : Type := mkGo {
  flag : bool;          (* value of this slot's AtomicBool *)
  sst : sstate;
  tst : tstate;
  stopped : bool        (* ghost: a `stop` has stored false into this flag *)
}.

Definition gfresh : gorec := mkGo false SNone TNone false.

Inductive owner : Type := MFree | MMain | MSearch (i : nat).

(* program counter of the stdin thread: the command and the next action inside it *)
Inductive pcT : Type :=
| PIdle                                   (* blocked in stdin().lines(), waiting for input *)
| PUci                                    (* println uciok *)
| PIsReady                                (* println readyok *)
(* ucinewgame *)
| PNgLoad                                 (* search_is_running.load() *)
| PNgStore                                (* flag was up: search_is_running.store(false) *)
| PNgJoin                                 (* thread.join() (either of the two joins) *)
| PNgLock                                 (* data.lock() *)
| PNgClear                                (* cache.clear(); current_game = None *)
| PNgUnlock                               (* guard dropped *)
(* position *)
| PPosLoad (ok : bool) | PPosBusy | PPosJoin (ok : bool) | PPosLock (ok : bool)
| PPosSet (ok : bool) | PPosUnlock
(* go *)
| PGoLoad (timed : bool)                  (* search_is_running.load() *)
| PGoBusy                                 (* println error: search is still running *)
| PGoJoin (timed : bool)                  (* search_thread.take() / join *)
| PGoNew (timed : bool)                   (* search_is_running = Arc::new(false) *)
| PGoLock (timed : bool)                  (* command_go: data_mutex.lock() *)
| PGoCheck (timed : bool)                 (* current_game present?  if not: bail, guard dropped *)
| PGoErr                                  (* println error: No game to play *)
| PGoRaise (timed : bool)                 (* search_is_running.store(true) *)
| PGoInfo                                 (* println info time *)
| PGoTimer                                (* spawn of the timer thread *)
| PGoSpawn                                (* spawn of the search thread *)
| PGoUnlock                               (* guard dropped at the end of command_go *)
(* show *)
| PShowLoad | PShowBusy | PShowJoin | PShowLock | PShowPrint | PShowUnlock
(* stop *)
| PStopStore | PStopJoin
(* wait *)
| PWaitJoin | PWaitStore
(* quit *)
| PQuit.

Record state : Type := mkState {
  pc : pcT;
  cur : nat;                 (* slot of the stdin thread's current Arc<AtomicBool> *)
  gos : list gorec;          (* per slot: flag, search thread, timer thread *)
  mutex : owner;             (* owner of the Mutex<Data> *)
  poisoned : bool;           (* a thread panicked while holding the mutex *)
  game : bool;               (* current_game.is_some() *)
  handle : option nat;       (* search_thread: the slot whose JoinHandle is kept *)
  out : list event;          (* stdout, most recent first *)
  panicked : bool;           (* some thread panicked / the main loop died with an error *)
  exited : bool              (* the process has ended *)
}.

Definition init : state :=
  mkState PIdle 0 [gfresh] MFree false false None [] false false.

(* ---- field updates ---- *)
Definition set_pc (s : state) (p : pcT) : state :=
  mkState p (cur s) (gos s) (mutex s) (poisoned s) (game s) (handle s) (out s) (panicked s) (exited s).
Definition set_cur (s : state) (c : nat) : state :=
  mkState (pc s) c (gos s) (mutex s) (poisoned s) (game s) (handle s) (out s) (panicked s) (exited s).
Definition set_gos (s : state) (g : list gorec) : state :=
  mkState (pc s) (cur s) g (mutex s) (poisoned s) (game s) (handle s) (out s) (panicked s) (exited s).
Definition set_mutex (s : state) (m : owner) : state :=
  mkState (pc s) (cur s) (gos s) m (poisoned s) (game s) (handle s) (out s) (panicked s) (exited s).
Definition set_poisoned (s : state) (b : bool) : state :=
  mkState (pc s) (cur s) (gos s) (mutex s) b (game s) (handle s) (out s) (panicked s) (exited s).
Definition set_game (s : state) (b : bool) : state :=
  mkState (pc s) (cur s) (gos s) (mutex s) (poisoned s) b (handle s) (out s) (panicked s) (exited s).
Definition set_handle (s : state) (h : option nat) : state :=
  mkState (pc s) (cur s) (gos s) (mutex s) (poisoned s) (game s) h (out s) (panicked s) (exited s).
Definition emit (s : state) (e : event) : state :=
  mkState (pc s) (cur s) (gos s) (mutex s) (poisoned s) (game s) (handle s) (e :: out s) (panicked s) (exited s).
Definition set_panicked (s : state) (b : bool) : state :=
  mkState (pc s) (cur s) (gos s) (mutex s) (poisoned s) (game s) (handle s) (out s) b (exited s).
Definition set_exited (s : state) (b : bool) : state :=
  mkState (pc s) (cur s) (gos s) (mutex s) (poisoned s) (game s) (handle s) (out s) (panicked s) b.

(* ---- slots ---- *)
Definition getg (l : list gorec) (i : nat) : gorec := nth i l gfresh.

Fixpoint upd (i : nat) (f : gorec -> gorec) (l : list gorec) : list gorec :=
  match l, i with
  | [], _ => []
  | g :: t, O => f g :: t
  | g :: t, S k => g :: upd k f t
  end.

Definition g_flag (b : bool) (g : gorec) : gorec := mkGo b (sst g) (tst g) (stopped g).
Definition g_sst (x : sstate) (g : gorec) : gorec := mkGo (flag g) x (tst g) (stopped g).
Definition g_tst (x : tstate) (g : gorec) : gorec := mkGo (flag g) (sst g) x (stopped g).
Definition g_stop (g : gorec) : gorec := mkGo false (sst g) (tst g) true.
Definition g_fire (g : gorec) : gorec := mkGo false (sst g) TFired (stopped g).

Definition upd_slot (s : state) (i : nat) (f : gorec -> gorec) : state :=
  set_gos s (upd i f (gos s)).

Definition curflag (s : state) : bool := flag (getg (gos s) (cur s)).

(* ---- the stdin thread ---- *)

(* the main thread dies (panic of an unwrap, or `?` on a missing handle): the process ends *)
Definition main_dies (s : state) : state := set_exited (set_panicked s true) true.

(* data.lock().unwrap() by the stdin thread; blocked while another thread holds the mutex *)
Definition main_lock (s : state) (next : pcT) : option state :=
  match mutex s with
  | MFree => if poisoned s then Some (main_dies s)
             else Some (set_pc (set_mutex s MMain) next)
  | _ => None
  end.

Definition main_unlock (s : state) (next : pcT) : option state :=
  Some (set_pc (set_mutex s MFree) next).

(* `if let Some(thread) = search_thread.take() { thread.join().unwrap() }`:
   without a handle the program point is passed without effect; with a handle the step is
   enabled only once that thread has ended; joining a panicked thread panics *)
Definition main_join (s : state) (next : pcT) : option state :=
  match handle s with
  | None => Some (set_pc s next)
  | Some j =>
      match sst (getg (gos s) j) with
      | SDone => Some (set_pc (set_handle s None) next)
      | SPanicked => Some (main_dies s)
      | _ => None
      end
  end.

Definition main_step (s : state) : option state :=
  match pc s with
  | PIdle => None
  | PUci => Some (set_pc (emit s EUciOk) PIdle)
  | PIsReady => Some (set_pc (emit s EReadyOk) PIdle)
  (* ucinewgame *)
  | PNgLoad =>
      if curflag s then
        match handle s with
        | None => Some (main_dies s)       (* `.context("There should a search thread running")?` *)
        | Some _ => Some (set_pc s PNgStore)
        end
      else Some (set_pc s PNgJoin)
  | PNgStore => Some (set_pc (upd_slot s (cur s) (g_flag false)) PNgJoin)
  | PNgJoin => main_join s PNgLock
  | PNgLock => main_lock s PNgClear
  | PNgClear => Some (set_pc (set_game s false) PNgUnlock)
  | PNgUnlock => main_unlock s PIdle
  (* position *)
  | PPosLoad ok => if curflag s then Some (set_pc s PPosBusy) else Some (set_pc s (PPosJoin ok))
  | PPosBusy => Some (set_pc (emit s EErrorBusy) PIdle)
  | PPosJoin ok => main_join s (PPosLock ok)
  | PPosLock ok => main_lock s (PPosSet ok)
  | PPosSet ok => Some (set_pc (set_game s ok) PPosUnlock)
  | PPosUnlock => main_unlock s PIdle
  (* go *)
  | PGoLoad t => if curflag s then Some (set_pc s PGoBusy) else Some (set_pc s (PGoJoin t))
  | PGoBusy => Some (set_pc (emit s EErrorBusy) PIdle)
  | PGoJoin t => main_join s (PGoNew t)
  | PGoNew t => Some (set_pc (set_cur (set_gos s (gos s ++ [gfresh])) (length (gos s))) (PGoLock t))
  | PGoLock t => main_lock s (PGoCheck t)
  | PGoCheck t => if game s then Some (set_pc s (PGoRaise t))
                  else Some (set_pc (set_mutex s MFree) PGoErr)
  | PGoErr => Some (set_pc (emit s EErrorNoGame) PIdle)
  | PGoRaise t => Some (set_pc (upd_slot s (cur s) (g_flag true)) (if t then PGoInfo else PGoSpawn))
  | PGoInfo => Some (set_pc (emit s EInfoTime) PGoTimer)
  | PGoTimer => Some (set_pc (upd_slot s (cur s) (g_tst TSleeping)) PGoSpawn)
  | PGoSpawn => Some (set_pc (set_handle (upd_slot s (cur s) (g_sst SWaitLock)) (Some (cur s))) PGoUnlock)
  | PGoUnlock => main_unlock s PIdle
  (* show *)
  | PShowLoad => if curflag s then Some (set_pc s PShowBusy) else Some (set_pc s PShowJoin)
  | PShowBusy => Some (set_pc (emit s EErrorBusy) PIdle)
  | PShowJoin => main_join s PShowLock
  | PShowLock => main_lock s PShowPrint
  | PShowPrint => Some (set_pc (emit s (if game s then EShown else EErrorNoGame)) PShowUnlock)
  | PShowUnlock => main_unlock s PIdle
  (* stop *)
  | PStopStore => Some (set_pc (upd_slot s (cur s) g_stop) PStopJoin)
  | PStopJoin => main_join s PIdle
  (* wait: `if let Some(thread) = search_thread { join; search_thread = None; store(false) }` *)
  | PWaitJoin =>
      match handle s with
      | None => Some (set_pc s PIdle)
      | Some _ => main_join s PWaitStore
      end
  | PWaitStore => Some (set_pc (upd_slot s (cur s) (g_flag false)) PIdle)
  (* quit: break 'main_loop, the process ends and all threads vanish *)
  | PQuit => Some (set_exited s true)
  end.

Definition cmd_entry (c : cmd) : pcT :=
  match c with
  | CUci => PUci
  | CIsReady => PIsReady
  | CNewGame => PNgLoad
  | CPosition ok => PPosLoad ok
  | CGo t => PGoLoad t
  | CStop => PStopStore
  | CWait => PWaitJoin
  | CShow => PShowLoad
  | CQuit => PQuit
  end.

(* the environment hands the next command line to the idle stdin thread *)
Definition input_step (s : state) (c : cmd) : option state :=
  match pc s with
  | PIdle => Some (set_pc s (cmd_entry c))
  | _ => None
  end.

(* ---- search thread of slot i ---- *)
Definition search_step (s : state) (i : nat) : option state :=
  match sst (getg (gos s) i) with
  | SWaitLock =>
      match mutex s with
      | MFree =>
          if poisoned s then                      (* lock().unwrap() on a poisoned mutex *)
            Some (set_panicked (upd_slot s i (g_sst SPanicked)) true)
          else if game s then
            Some (set_mutex (upd_slot s i (g_sst SSearching)) (MSearch i))
          else                                    (* current_game.as_mut().unwrap() on None *)
            Some (set_poisoned (set_panicked (upd_slot s i (g_sst SPanicked)) true) true)
      | _ => None
      end
  | SSearching => Some (upd_slot s i (g_sst SFinished))
  | SFinished => Some (upd_slot s i (fun g => g_sst SCleared (g_flag false g)))
  | SCleared => Some (set_game (upd_slot s i (g_sst SDropped)) false)
  | SDropped => Some (emit (upd_slot s i (g_sst SPrinted)) (EBestmove i))
  | SPrinted => Some (set_mutex (upd_slot s i (g_sst SDone)) MFree)
  | SNone | SDone | SPanicked => None
  end.

(* ---- timer thread of slot i ---- *)
Definition timer_step (s : state) (i : nat) : option state :=
  match tst (getg (gos s) i) with
  | TSleeping => Some (upd_slot s i g_fire)
  | _ => None
  end.

(* ---- the transition system ---- *)
Inductive label : Type :=
| LInput (c : cmd) | LMain | LSearch (i : nat) | LTimer (i : nat).

Definition step (s : state) (l : label) : option state :=
  if exited s then None else
  match l with
  | LInput c => input_step s c
  | LMain => main_step s
  | LSearch i => search_step s i
  | LTimer i => timer_step s i
  end.

Definition all_cmds : list cmd :=
  [CUci; CIsReady; CNewGame; CPosition true; CPosition false; CGo true; CGo false;
   CStop; CWait; CShow; CQuit].

Definition candidates (s : state) : list label :=
  map LInput all_cmds ++ LMain ::
  map LSearch (seq 0 (length (gos s))) ++ map LTimer (seq 0 (length (gos s))).

Definition is_some {A : Type} (o : option A) : bool :=
  match o with Some _ => true | None => false end.

Definition enabled (s : state) : list label :=
  filter (fun l => is_some (step s l)) (candidates s).

Fixpoint run_from (s : state) (ls : list label) : option state :=
  match ls with
  | [] => Some s
  | l :: t => match step s l with
              | Some s' => run_from s' t
              | None => None
              end
  end.

Definition run (ls : list label) : option state := run_from init ls.
