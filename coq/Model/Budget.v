(* Model of the thinking-time computation of `command_go` (src/uci.rs). No proofs in this file.

   Rust (after the parsing loop; every clock value is an Option<u64>, a token that does not
   parse as u64 gives None):

     if wtime, btime, winc, binc are all Some:
        white_time = ((wtime as f64 * 0.02) as u64).saturating_add(winc)
                        .saturating_sub(LATENCY_MS_COMPENSATE).min(wtime)      (same for black)
        time = Some(millis(side to move's value))
     if let Some(mt) = move_time { time = Some(millis(mt)) }
     if let Some(time) = time { if !infinite {
        let time = time.saturating_sub(millis(SLEEP_CUT_MS));
        println!("info time {:?}", time.as_millis());  spawn timer sleeping `time` } }

   Numbers are Z; the u64 saturations are explicit (Z.min U64MAX / Z.max 0).  All inputs are meant
   to be in 0..U64MAX (the driver parses them the way `str::parse::<u64>` does). *)
From Coq Require Import ZArith Floats.SpecFloat.
From Chess Require Import Base.SFloat Gen.Consts.

Open Scope Z_scope.

Definition U64MAX : Z := 18446744073709551615.

(* `(t as f64 * FRACTION_OF_TOTAL_TIME) as u64`:
   u64 -> f64 rounds to nearest even, the product is rounded to nearest even,
   f64 -> u64 truncates toward zero and saturates *)
Definition share (t : Z) : Z :=
  f_trunc_sat (f_mul (f_of_Z t) (f_lit FRACTION_MANTISSA FRACTION_EXPONENT)) U64MAX.

(* `share.saturating_add(inc).saturating_sub(LATENCY_MS_COMPENSATE).min(t)` *)
Definition side_budget (t inc : Z) : Z :=
  Z.min t (Z.max 0 (Z.min U64MAX (share t + inc) - LATENCY_MS_COMPENSATE)).

(* the variable `time` (in ms) before the sleep cut: None if there is neither a complete set of
   clock values nor a movetime; movetime overrides the clock budget *)
Definition go_time (wtime btime winc binc : option Z) (white_to_move : bool)
                   (movetime : option Z) : option Z :=
  match movetime with
  | Some mt => Some mt
  | None =>
      match wtime, btime, winc, binc with
      | Some wt, Some bt, Some wi, Some bi =>
          Some (if white_to_move then side_budget wt wi else side_budget bt bi)
      | _, _, _, _ => None
      end
  end.

(* ENTRY POINT: the number printed after `info time` (= the time the timer thread sleeps, ms);
   None when no timer is started (no time, or `infinite`) *)
Definition go_timer (wtime btime winc binc : option Z) (white_to_move : bool)
                    (movetime : option Z) (infinite : bool) : option Z :=
  match go_time wtime btime winc binc white_to_move movetime with
  | Some t => if infinite then None else Some (Z.max 0 (t - SLEEP_CUT_MS))
  | None => None
  end.
