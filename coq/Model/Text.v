(* Model of the text conversions: Move::uci_notation, Move::from_uci_notation,
   Move::pgn_notation (src/chess/move_struct.rs), Game::get_pgn and Display for Game
   (src/chess/mod.rs). No proofs in this file. *)
From Chess Require Export Model.Fen Model.MoveGen.

Open Scope Z_scope.

(* UTF-8 encoding of one scalar value / of a text *)
Definition utf8_char (c : N) : list N :=
  (if c <? 128 then [c]
   else if c <? 2048 then [192 + c / 64; 128 + c mod 64]
   else if c <? 65536 then [224 + c / 4096; 128 + (c / 64) mod 64; 128 + c mod 64]
   else [240 + c / 262144; 128 + (c / 4096) mod 64; 128 + (c / 64) mod 64; 128 + c mod 64])%N.
Definition utf8 (s : text) : list N := flat_map utf8_char s.

Definition file_char (c : Z) : N := (97 + Z.to_N c)%N.   (* col as u8 + b'a' *)
Definition rank_char (r : Z) : N := (49 + Z.to_N r)%N.   (* row as u8 + b'1' *)

Definition square_text (p : pos) : text := [file_char (snd p); rank_char (fst p)].

Definition kind_assoc (k : kind) (l : list (kind * N)) : option N := assoc kind_eqb k l.

(* Move::uci_notation (the promotion arm is unreachable!() for King and Pawn: modelled as
   no letter; generated promotions only use the four listed kinds) *)
Definition uci (m : Move) : text :=
  match m with
  | Normal _ s e _ => square_text s ++ square_text e
  | Promotion _ np s e _ =>
      square_text s ++ square_text e ++ match kind_assoc np UCI_PROMO_LETTER with Some c => [c] | None => [] end
  | CastlingShort o => let r := match o with White => 49%N | Black => 56%N end in [101%N; r; 103%N; r]
  | CastlingLong o => let r := match o with White => 49%N | Black => 56%N end in [101%N; r; 99%N; r]
  | EnPassant o sc ec =>
      let '(sr, er) := match o with White => (53%N, 54%N) | Black => (52%N, 51%N) end in
      [file_char sc; sr; file_char ec; er]
  end.

Definition text_eqb (a b : text) : bool :=
  (Nat.eqb (length a) (length b)) && forallb (fun p => N.eqb (fst p) (snd p)) (combine a b).

(* u8::wrapping_sub(base) as i8 *)
Definition byte_minus (b base : N) : Z :=
  let v := ((b + 256 - base) mod 256)%N in
  if (v <? 128)%N then Z.of_N v else Z.of_N v - 256.

(* Position::new *)
Definition pos_new (r c : Z) : option pos := if in_range r c then Some (r, c) else None.

(* Move::from_uci_notation *)
Definition from_uci (s : text) (g : game) : option Move :=
  if text_eqb s [101; 49; 103; 49]%N && pos_eqb (king_pos g White) (0, 4) then Some (CastlingShort White)
  else if text_eqb s [101; 56; 103; 56]%N && pos_eqb (king_pos g Black) (7, 4) then Some (CastlingShort Black)
  else if text_eqb s [101; 49; 99; 49]%N && pos_eqb (king_pos g White) (0, 4) then Some (CastlingLong White)
  else if text_eqb s [101; 56; 99; 56]%N && pos_eqb (king_pos g Black) (7, 4) then Some (CastlingLong Black)
  else
    match utf8 s with
    | b0 :: b1 :: b2 :: b3 :: _ =>
        let sc := byte_minus b0 97 in
        let sr := byte_minus b1 49 in
        let ec := byte_minus b2 97 in
        let er := byte_minus b3 49 in
        match pos_new sr sc with
        | None => None
        | Some s0 =>
            match pos_new er ec with
            | None => None
            | Some e0 =>
                match nth_error s 4 with
                | Some letter =>
                    match assoc N.eqb letter FROM_UCI_PROMO_LETTER with
                    | Some k => Some (Promotion (g_player g) k s0 e0 (gget g e0))
                    | None => None
                    end
                | None =>
                    match gget g s0 with
                    | Some pc =>
                        let '(r1, r2) := ep_rows (g_player g) in
                        if kind_eqb (pk pc) Pawn && is_none (gget g e0)
                           && (Z.abs (snd s0 - snd e0) =? 1)
                           && (fst s0 =? r1) && (fst e0 =? r2)
                        then Some (EnPassant (g_player g) (snd s0) (snd e0))
                        else Some (Normal pc s0 e0 (gget g e0))
                    | None => None
                    end
                end
            end
        end
    | _ => None
    end.

Definition is_some {A} (o : option A) : bool := match o with Some _ => true | None => false end.

(* Move::pgn_notation *)
Definition pgn_move (m : Move) : text :=
  match m with
  | Normal pc s e cap =>
      PGN_LETTER (pk pc) ++ [file_char (snd s)] ++ (if is_some cap then [120%N] else [])
      ++ [file_char (snd e)] ++ decimal (Z.to_N (fst e + 1))
  | CastlingShort _ => [79; 45; 79]%N
  | CastlingLong _ => [79; 45; 79; 45; 79]%N
  | EnPassant o sc ec =>
      [file_char sc; 120%N; file_char ec; match o with White => 54%N | Black => 51%N end]
  | Promotion _ np _ e cap =>
      (if is_some cap then [120%N] else []) ++ [file_char (snd e)] ++ decimal (Z.to_N (fst e + 1))
      ++ [61%N] ++ match kind_assoc np PGN_PROMO_LETTER with Some c => [c] | None => [] end
  end.

(* Game::get_pgn: "1. a b 2. c d " *)
Fixpoint pgn_aux (ms : list Move) (i : N) : text :=
  match ms with
  | [] => []
  | m :: t =>
      (if N.eqb (i mod 2) 0 then decimal (i / 2 + 1)%N ++ [46%N; 32%N] else [])
      ++ pgn_move m ++ [32%N] ++ pgn_aux t (i + 1)%N
  end.
Definition get_pgn (g : game) : text := pgn_aux (rev (g_moves g)) 0%N.

(* Piece::as_char *)
Definition glyph (pc : piece) : N :=
  match po pc with White => GLYPH_WHITE (pk pc) | Black => GLYPH_BLACK (pk pc) end.

Definition hex_digit (d : N) : N := (if d <? 10 then 48 + d else 55 + d)%N.   (* upper case *)
Fixpoint hex_aux (fuel : nat) (n : N) (acc : text) : text :=
  match fuel with
  | O => acc
  | S f => let acc' := hex_digit (n mod 16) :: acc in
           if (n <? 16)%N then acc' else hex_aux f (n / 16)%N acc'
  end.
Definition hex_upper (n : N) : text := hex_aux 20 n [].

Definition ascii (l : list N) : text := l.

(* impl Display for Game *)
Definition display (g : game) : text :=
  [10%N]
  ++ [72; 97; 115; 104; 58; 32]%N ++ hex_upper (g_hash g) ++ [10%N]          (* "Hash: " *)
  ++ [70; 101; 110; 58; 32]%N ++ fen g ++ [10%N]                              (* "Fen: " *)
  ++ [80; 71; 78; 58; 32]%N ++ get_pgn g ++ [10%N]                            (* "PGN: " *)
  ++ [10%N]
  ++ flat_map (fun i =>
                 decimal (Z.to_N (i + 1)) ++ [32%N]
                 ++ flat_map (fun j => [124%N; match gget g (i, j) with Some pc => glyph pc | None => 32%N end]) cols8
                 ++ [124%N; 10%N]) rows_desc
  ++ [10%N] ++ [32; 32; 32; 97; 32; 98; 32; 99; 32; 100; 32; 101; 32; 102; 32; 103; 32; 104]%N ++ [10%N].
