(* The exhaustive reference search of Spec/Negamax.v instantiated with the chess model
   (used by the correspondence run of C09 and by Proofs). No proofs in this file. *)
From Chess Require Export Model.Search Spec.Negamax.

Open Scope Z_scope.

Definition standpat (g : game) : Z := g_score g * color_sign (g_player g).
Definition side_safe (g : game) : bool :=
  let p := g_player g in king_exists g p && negb (is_targeted g (king_pos g p) p).
Definition side_has_king (g : game) : bool := king_exists g (g_player g).

Definition chess_qref := qref game Move pseudo_moves push standpat is_tactical side_safe side_has_king
                              SCORE_MIN MATE_OFFSET_QUIESCENCE.
Definition chess_nref := nref game Move pseudo_moves checked_moves push standpat is_tactical side_safe
                              side_has_king SCORE_MIN MATE_OFFSET_NODE MATE_OFFSET_DEPTH1 MATE_OFFSET_QUIESCENCE.
Definition chess_rootref := rootref game Move pseudo_moves checked_moves push standpat is_tactical side_safe
                              side_has_king SCORE_MIN MATE_OFFSET_NODE MATE_OFFSET_DEPTH1 MATE_OFFSET_QUIESCENCE.

(* the root's own move list: the checked moves after the repetition filter *)
Definition root_moves (g : game) : list Move := repetition_filter g (checked_moves g).
