(* Model of src/search.rs: move ordering, quiescence, the depth-1 specialisation, the PVS node
   with transposition table / killers / history, the root and the iterative-deepening driver,
   including the verification hook at the node-entry poll (stop after N polls, table-less mode).
   Game values are passed functionally: [push g m] is searched and [g] is used afterwards
   (justified by Proofs/PushPop.v: pop (push g m) m = g). No proofs in this file. *)
From Coq Require Import FSets.FMapPositive.
From Chess Require Export Model.MoveGen Model.Text Base.SFloat.

Open Scope Z_scope.

Inductive ntype := Exact | LowerBound | UpperBound.
Record entry := mkEntry { e_score : Z; e_pv : option Move; e_depth : Z; e_flag : ntype }.

Definition table := PositiveMap.t entry.
Definition tkey (h : N) : positive := N.succ_pos h.
Definition tfind (t : table) (h : N) : option entry := PositiveMap.find (tkey h) t.
Definition tadd (t : table) (h : N) (e : entry) : table := PositiveMap.add (tkey h) e t.
Definition tlen (t : table) : Z := Z.of_nat (PositiveMap.cardinal t).
Definition tempty : table := PositiveMap.empty entry.

(* search state threaded through the node function *)
Record sstate := mkS {
  s_tbl : table;
  s_killers : list (option Move);     (* KILLER_SLOTS entries, indexed by real_depth *)
  s_hist : list Z;                    (* HISTORY_SLOTS u16 counters *)
  s_running : bool;                   (* continue_running *)
  s_polls : Z;                        (* hook: polls so far *)
  s_stop_at : Z;                      (* hook: clear the flag at this poll index; -1 = never *)
  s_stopped : bool;                   (* hook: the flag was cleared by the hook *)
  s_after : Z;                        (* hook: polls after the flag was cleared *)
  s_tableless : bool                  (* hook: empty the table at every poll *)
}.

Definition with_tbl (s : sstate) (t : table) : sstate :=
  mkS t (s_killers s) (s_hist s) (s_running s) (s_polls s) (s_stop_at s) (s_stopped s) (s_after s) (s_tableless s).
Definition with_killers (s : sstate) (k : list (option Move)) : sstate :=
  mkS (s_tbl s) k (s_hist s) (s_running s) (s_polls s) (s_stop_at s) (s_stopped s) (s_after s) (s_tableless s).
Definition with_hist (s : sstate) (h : list Z) : sstate :=
  mkS (s_tbl s) (s_killers s) h (s_running s) (s_polls s) (s_stop_at s) (s_stopped s) (s_after s) (s_tableless s).

Inductive outcome (A : Type) : Type :=
| Done (a : A)
| Aborted (s : sstate)   (* the stop flag was seen; the state at that moment *)
| OutOfFuel.             (* never produced for the fuel used; excluded by the theorems *)
Arguments Done {A} a.
Arguments Aborted {A} s.
Arguments OutOfFuel {A}.

(* verif_hooks::on_poll followed by the flag test *)
Definition poll (s : sstate) : sstate :=
  let index := s_polls s in
  let after := if s_stopped s then s_after s + 1 else s_after s in
  let hit := s_stop_at s =? index in
  mkS (if s_tableless s then tempty else s_tbl s) (s_killers s) (s_hist s)
      (if hit then false else s_running s) (index + 1) (s_stop_at s)
      (if hit then true else s_stopped s) after (s_tableless s).

Definition SCORE_MIN : Z := -32768.
Definition SCORE_MAX : Z := 32767.

(* ---- Move helpers (move_struct.rs) ------------------------------------------------------------ *)

Definition is_tactical (m : Move) : bool :=
  match m with
  | Normal pc _ _ (Some cap) => material_value (pk pc) <=? material_value (pk cap)
  | Normal _ _ _ None => false
  | Promotion _ _ _ _ _ => true
  | EnPassant _ _ _ => true
  | _ => false
  end.

Definition index_history (m : Move) : option Z :=
  match m with
  | Normal pc _ e None => Some (piece_index pc * 64 + idx e)
  | _ => None
  end.

Definition omove_is (o : option Move) (m : Move) : bool :=
  match o with Some x => move_eqb x m | None => false end.

(* move_score *)
Definition move_score (m : Move) (pv killer : option Move) (hist : list Z) : Z :=
  if omove_is pv m then 0
  else if omove_is killer m then 1
  else match m with
       | Promotion _ np _ _ _ => ORDER_PROMOTION_BASE - material_value np
       | EnPassant _ _ _ => ORDER_EN_PASSANT
       | CastlingLong _ => ORDER_CASTLING_LONG
       | CastlingShort _ => ORDER_CASTLING_SHORT
       | Normal pc _ _ (Some cap) => ORDER_CAPTURE_BASE + material_value (pk pc) - material_value (pk cap)
       | Normal _ _ _ None =>
           ORDER_QUIET_BASE - match index_history m with Some i => znth hist i 0 | None => 0 end
       end.

(* sort_by_cached_key: a stable sort; modelled by stable insertion sort on (key, move) *)
Fixpoint insert_by_key (k : Z) (m : Move) (l : list (Z * Move)) : list (Z * Move) :=
  match l with
  | [] => [(k, m)]
  | (k', m') :: t => if k <=? k' then (k, m) :: l else (k', m') :: insert_by_key k m t
  end.
Definition sort_moves (key : Move -> Z) (ms : list Move) : list Move :=
  map snd (fold_right (fun m acc => insert_by_key (key m) m acc) [] ms).

Definition no_move_score (g : game) (offset real : Z) : Z :=
  let player := g_player g in
  if king_exists g player && negb (is_targeted g (king_pos g player) player) then 0
  else SCORE_MIN + offset + real.

(* ---- quiescence_search ------------------------------------------------------------------------ *)

Definition QFUEL : nat := 200.  (* every tactical move lowers (occupied squares + pawns) <= 128: Proofs/BoundsQ.v *)

Fixpoint quiescence (fuel : nat) (g : game) (alpha beta real : Z) : option Z :=
  match fuel with
  | O => None
  | S f =>
      let current := g_score g * color_sign (g_player g) in
      let alpha := Z.max alpha current in
      if beta <=? alpha then Some beta
      else
        let moves := pseudo_moves g in
        match moves with
        | [] => Some (no_move_score g MATE_OFFSET_QUIESCENCE real)
        | _ =>
            (fix loop (ms : list Move) (alpha : Z) : option Z :=
               match ms with
               | [] => Some alpha
               | m :: rest =>
                   if negb (is_tactical m) then loop rest alpha
                   else
                     match quiescence f (push g m) (- beta) (- alpha) (Z.min 255 (real + 1)) with
                     | None => None
                     | Some s =>
                         let score := - s in
                         let alpha := if alpha <? score then score else alpha in
                         if beta <=? alpha then Some beta else loop rest alpha
                     end
               end) moves alpha
        end
  end.

(* ---- get_best_move_score_depth_1 ---------------------------------------------------------------- *)

Fixpoint depth1_loop (g : game) (ms : list Move) (alpha beta real : Z) : option Z :=
  match ms with
  | [] => Some alpha
  | m :: rest =>
      match quiescence QFUEL (push g m) (- beta) (- alpha) (real + 1) with
      | None => None
      | Some s =>
          let score := - s in
          let alpha := if alpha <? score then score else alpha in
          if beta <=? alpha then Some alpha else depth1_loop g rest alpha beta real
      end
  end.

Definition depth1 (g : game) (alpha beta real : Z) : option Z :=
  match pseudo_moves g with
  | [] => Some (no_move_score g MATE_OFFSET_DEPTH1 real)
  | moves => depth1_loop g moves alpha beta real
  end.

Definition lift (o : option Z) : outcome Z := match o with Some z => Done z | None => OutOfFuel end.

(* ---- get_best_move_score ------------------------------------------------------------------------- *)

(* the history bonus: (depth^3 * (1 - h / 10000.0)) as u16, saturating add into the u16 counter *)
Definition history_bonus (remaining h : Z) : Z :=
  let bonus := f_of_Z (remaining ^ HISTORY_BONUS_EXPONENT) in
  let real_bonus := f_mul bonus (f_sub (f_of_Z 1) (f_div (f_of_Z h) (f_of_Z HISTORY_BONUS_DIVISOR))) in
  f_trunc_sat real_bonus 65535.

Definition history_update (hist : list Z) (m : Move) (remaining : Z) : list Z :=
  match index_history m with
  | Some i => let h := znth hist i 0 in zupd hist i (Z.min 65535 (h + history_bonus remaining h))
  | None => hist
  end.

(* the table probe at node entry: Some score = return it at once *)
Definition probe (e : option entry) (remaining alpha beta : Z) : option Z :=
  match e with
  | Some en =>
      if remaining <=? e_depth en then
        match e_flag en with
        | Exact => Some (e_score en)
        | LowerBound => if beta <=? e_score en then Some (e_score en) else None
        | UpperBound => if e_score en <=? alpha then Some (e_score en) else None
        end
      else None
  | None => None
  end.

(* Mate scores count the plies from the root of the search, but the table is shared by nodes at different plies: an
   entry holds them counted from the node that stored it (fix: `score_to_table` / `score_from_table` of search.rs;
   clamped to the score of a mate at the node itself on the way in, plain on the way out) *)
Definition score_to_table (s real : Z) : Z :=
  if SCORE_MAX - TABLE_MATE_MARGIN <? s then Z.min (- (SCORE_MIN + MATE_OFFSET_NODE)) (s + real)
  else if s <? SCORE_MIN + TABLE_MATE_MARGIN then Z.max (SCORE_MIN + MATE_OFFSET_NODE) (s - real)
  else s.
Definition score_from_table (s real : Z) : Z :=
  if SCORE_MAX - TABLE_MATE_MARGIN <? s then s - real
  else if s <? SCORE_MIN + TABLE_MATE_MARGIN then s + real
  else s.
Definition entry_from_table (real : Z) (en : entry) : entry :=
  mkEntry (score_from_table (e_score en) real) (e_pv en) (e_depth en) (e_flag en).

(* the replacement rule of the interior store *)
Definition store_node (t : table) (h : N) (ne : entry) : table :=
  match tfind t h with
  | Some old =>
      if (e_depth old <? e_depth ne)
         || ((e_depth old =? e_depth ne) && match e_flag ne with Exact => true | _ => false end)
      then tadd t h ne else t
  | None => tadd t h ne
  end.

(* state of the move loop of a node *)
Record lstate := mkL { l_alpha : Z; l_best : option Move; l_bscore : Z; l_st : sstate }.

Fixpoint node (rem : nat) (g : game) (st : sstate) (real alpha beta : Z) {struct rem} : outcome Z * sstate :=
  let st := poll st in
  if negb (s_running st) then (Aborted st, st)
  else
    let remaining := Z.of_nat rem in
    let e := option_map (entry_from_table real) (tfind (s_tbl st) (g_hash g)) in
    match probe e remaining alpha beta with
    | Some s => (Done s, st)
    | None =>
        let pv_move := match e with Some en => e_pv en | None => None end in
        match rem with
        | O => (lift (quiescence QFUEL g alpha beta real), st)
        | S O => (lift (depth1 g alpha beta real), st)
        | S (S _ as rem') =>
            match checked_moves g with
            | [] => (Done (no_move_score g MATE_OFFSET_NODE real), st)
            | moves =>
                let sorted := sort_moves (fun m => move_score m pv_move (znth (s_killers st) real None) (s_hist st)) moves in
                let cutoff (l : lstate) (m : Move) : lstate :=
                  let st := l_st l in
                  let st := with_killers st (zupd (s_killers st) real (Some m)) in
                  let st := with_hist st (history_update (s_hist st) m remaining) in
                  mkL (l_alpha l) (l_best l) (l_bscore l) st in
                let res :=
                  (fix loop (ms : list Move) (index : Z) (l : lstate) : outcome lstate :=
                     match ms with
                     | [] => Done l
                     | m :: rest =>
                         let g1 := push g m in
                         let step : outcome lstate :=
                           if index <=? PVS_FULL_WINDOW_LAST_INDEX then
                             match node rem' g1 (l_st l) (real + 1) (- beta) (- l_alpha l) with
                             | (Done s, st1) =>
                                 let score := - s in
                                 let '(bm, bs) := if l_bscore l <? score then (Some m, score) else (l_best l, l_bscore l) in
                                 Done (mkL (Z.max (l_alpha l) score) bm bs st1)
                             | (Aborted sa, _) => Aborted sa
                             | (OutOfFuel, _) => OutOfFuel
                             end
                           else
                             match node rem' g1 (l_st l) (real + 1) (- l_alpha l - 1) (- l_alpha l) with
                             | (Done s, st1) =>
                                 let test := - s in
                                 if l_bscore l <? test then
                                   match node rem' g1 st1 (real + 1) (- beta) (- test) with
                                   | (Done s2, st2) =>
                                       let score := - s2 in
                                       Done (mkL (Z.max (l_alpha l) score) (Some m) score st2)
                                   | (Aborted sa, _) => Aborted sa
                                   | (OutOfFuel, _) => OutOfFuel
                                   end
                                 else Done (mkL (l_alpha l) (l_best l) (l_bscore l) st1)
                             | (Aborted sa, _) => Aborted sa
                             | (OutOfFuel, _) => OutOfFuel
                             end in
                         match step with
                         | Done l' =>
                             if beta <=? l_alpha l' then Done (cutoff l' m)
                             else loop rest (index + 1) l'
                         | Aborted sa => Aborted sa
                         | OutOfFuel => OutOfFuel
                         end
                     end) sorted 0 (mkL alpha None SCORE_MIN st) in
                match res with
                | Done l =>
                    let flag := if l_bscore l <=? alpha then UpperBound
                                else if beta <=? l_bscore l then LowerBound else Exact in
                    let ne := mkEntry (score_to_table (l_bscore l) real) (l_best l) remaining flag in
                    let st' := l_st l in
                    (Done (l_alpha l), with_tbl st' (store_node (s_tbl st') (g_hash g) ne))
                | Aborted sa => (Aborted sa, sa)
                | OutOfFuel => (OutOfFuel, st)
                end
            end
        end
    end.

(* ---- get_best_move_entry (the root) -------------------------------------------------------------- *)

(* Vec::swap_remove at the first index holding x *)
Fixpoint remove_last {A} (l : list A) : list A :=
  match l with [] => [] | [_] => [] | x :: t => x :: remove_last t end.
Fixpoint replace_first (ms : list Move) (x : Move) (lastm : Move) : option (list Move) :=
  match ms with
  | [] => None
  | m :: t =>
      if move_eqb x m then Some (match t with [] => [] | _ => lastm :: remove_last t end)
      else option_map (cons m) (replace_first t x lastm)
  end.
Definition swap_remove_move (ms : list Move) (x : Move) : list Move :=
  match replace_first ms x (last ms x) with Some r => r | None => ms end.

(* [back] undoes the quiet move [forth]: the same piece returns to its square (fix a0a0e3f: the filter fires only
   when the last four plies were two quiet moves and their reversals, i.e. the position of four plies ago is back) *)
Definition is_reversal (forth back : Move) : bool :=
  match forth, back with
  | Normal p1 s1 e1 None, Normal p2 s2 e2 None => piece_eqb p1 p2 && pos_eqb s1 e2 && pos_eqb e1 s2
  | _, _ => false
  end.

Definition repetition_filter (g : game) (ms : list Move) : list Move :=
  match g_moves g with
  | m1 :: m2 :: m3 :: m4 :: m5 :: _ =>
      if move_eqb m1 m5 && is_reversal m4 m2 && is_reversal m5 m3 then swap_remove_move ms m4 else ms
  | _ => ms
  end.

Definition store_root (t : table) (h : N) (ne : entry) : table :=
  match tfind t h with
  | Some old => if e_depth old <=? e_depth ne then tadd t h ne else t
  | None => tadd t h ne
  end.

Record rstate := mkR { r_best : option Move; r_bscore : Z; r_st : sstate }.

(* result: (best move, score, only move) *)
Definition root (g : game) (st : sstate) (depth : nat) : outcome (option Move * Z * bool) * sstate :=
  let moves := checked_moves g in
  match moves with
  | [m] => (Done (Some m, 0, true), st)
  | _ =>
      let st := with_killers st (repeat None (Z.to_nat KILLER_SLOTS)) in
      let moves := repetition_filter g moves in
      let e := tfind (s_tbl st) (g_hash g) in
      match (match e with
             | Some en => if (Z.of_nat depth <=? e_depth en) && match e_flag en with Exact => true | _ => false end
                          then Some en else None
             | None => None end) with
      | Some en => (Done (e_pv en, e_score en, false), st)
      | None =>
          let pv_move := match e with Some en => e_pv en | None => None end in
          let sorted := sort_moves (fun m => move_score m pv_move None (s_hist st)) moves in
          let rem' := pred depth in
          let res :=
            (fix loop (ms : list Move) (index : Z) (r : rstate) : outcome rstate :=
               match ms with
               | [] => Done r
               | m :: rest =>
                   let g1 := push g m in
                   let step : outcome rstate :=
                     if index <=? ROOT_FULL_WINDOW_LAST_INDEX then
                       match node rem' g1 (r_st r) 1 (SCORE_MIN + 1) (- r_bscore r) with
                       | (Done s, st1) =>
                           let score := - s in
                           if r_bscore r <? score then Done (mkR (Some m) score st1)
                           else Done (mkR (r_best r) (r_bscore r) st1)
                       | (Aborted sa, _) => Aborted sa
                       | (OutOfFuel, _) => OutOfFuel
                       end
                     else
                       match node rem' g1 (r_st r) 1 (- r_bscore r - 1) (- r_bscore r) with
                       | (Done s, st1) =>
                           let score := - s in
                           if r_bscore r <? score then
                             match node rem' g1 st1 1 (SCORE_MIN + 1) (- score) with
                             | (Done s2, st2) => Done (mkR (Some m) (- s2) st2)
                             | (Aborted sa, _) => Aborted sa
                             | (OutOfFuel, _) => OutOfFuel
                             end
                           else Done (mkR (r_best r) (r_bscore r) st1)
                       | (Aborted sa, _) => Aborted sa
                       | (OutOfFuel, _) => OutOfFuel
                       end in
                   match step with
                   | Done r' => loop rest (index + 1) r'
                   | Aborted sa => Aborted sa
                   | OutOfFuel => OutOfFuel
                   end
               end) sorted 0 (mkR None (SCORE_MIN + 1) st) in
          match res with
          | Done r =>
              let ne := mkEntry (r_bscore r) (r_best r) (Z.of_nat depth) Exact in
              let st' := r_st r in
              (Done (r_best r, r_bscore r, false),
               match r_best r with
               | Some _ => with_tbl st' (store_root (s_tbl st') (g_hash g) ne)
               | None => st'        (* a root without legal moves is not cached *)
               end)
          | Aborted sa => (Aborted sa, sa)
          | OutOfFuel => (OutOfFuel, st)
          end
      end
  end.

(* ---- get_best_move_until_stop (the driver) --------------------------------------------------------- *)

Definition ztext (z : Z) : text :=
  match z with
  | Zneg p => 45%N :: decimal (Npos p)
  | _ => decimal (Z.to_N z)
  end.

(* "info pv " followed by the walk through cached best moves *)
Fixpoint pv_walk (n : nat) (t : table) (g : game) : text :=
  match n with
  | O => []
  | S n' =>
      match tfind t (g_hash g) with
      | Some en =>
          match e_pv en with
          | Some pv => uci pv ++ [32%N] ++ pv_walk n' t (push g pv)
          | None => []
          end
      | None => []
      end
  end.

Definition info_lines (depth : Z) (score : Z) (t : table) (g : game) : list text :=
  [ [105; 110; 102; 111; 32; 100; 101; 112; 116; 104; 32]%N ++ ztext depth;                       (* info depth *)
    [105; 110; 102; 111; 32; 115; 99; 111; 114; 101; 32; 99; 112; 32]%N ++ ztext score;           (* info score cp *)
    [105; 110; 102; 111; 32; 110; 111; 100; 101; 115; 32]%N ++ ztext (tlen t);                    (* info nodes *)
    [105; 110; 102; 111; 32; 112; 118; 32]%N ++ pv_walk (Z.to_nat depth) t g ].                   (* info pv *)

Record dresult := mkD { d_lines : list text; d_move : option Move; d_st : sstate; d_fuel_ok : bool }.

(* the iteration loop; [n] = iterations still allowed (depth runs up to 255) *)
Fixpoint driver_loop (n : nat) (g : game) (st : sstate) (depth : Z) (max_depth : option Z)
         (found : option Move) (lines : list text) : dresult :=
  match n with
  | O => mkD lines found st true
  | S n' =>
      if 255 <? depth then mkD lines found st true
      else
        match root g st (Z.to_nat depth) with
        | (Done (best, score, only), st1) =>
            let lines := lines ++ info_lines depth score (s_tbl st1) g in
            if (match max_depth with Some d => d <=? depth | None => false end)
               || only || (SCORE_MAX - EXIT_BAND_HIGH <? score) || (score <? SCORE_MIN + EXIT_BAND_LOW)
            then mkD lines best st1 true
            else driver_loop n' g st1 (depth + 1) max_depth best lines
        | (Aborted _, st1) =>
            let found := match found with
                         | Some _ => found
                         | None => match checked_moves g with m :: _ => Some m | [] => None end
                         end in
            mkD lines found st1 true
        | (OutOfFuel, st1) => mkD lines found st1 false
        end
  end.

Definition starting_depth (t : table) (g : game) : Z :=
  match tfind t (g_hash g) with
  | Some en => match e_flag en with Exact => e_depth en | _ => 1 end
  | None => 1
  end.

(* a fresh search state around a table *)
Definition fresh_state (t : table) (stop_at : Z) (tableless : bool) : sstate :=
  mkS t (repeat None (Z.to_nat KILLER_SLOTS)) (repeat 0 (Z.to_nat HISTORY_SLOTS)) true 0 stop_at false 0 tableless.

Definition driver (g : game) (t : table) (max_depth : option Z) (stop_at : Z) (tableless : bool) : dresult :=
  let st := fresh_state t stop_at tableless in
  driver_loop 256 g st (starting_depth t g) max_depth None [].
