(* Model of the self-play loop (src/autoplay.rs): search, play the announced move into the record, stop when the
   engine has no move or the game has reached the length guard. The timer thread of each move is represented by the
   poll index at which the flag is cleared (the hook of Model/Search.v; -1 = never), one per move.
   The function returns the games on which a search was started, in order. No proofs in this file. *)
From Chess Require Export Model.Search.

Open Scope Z_scope.

Fixpoint autoplay (fuel : nat) (g : game) (t : table) (stops : list Z) : list game :=
  match fuel with
  | O => []
  | S f =>
      let r := driver g t None (hd (-1) stops) false in
      match d_move r with
      | None => [g]
      | Some m =>
          let g' := push_history g m in
          if AUTOPLAY_LENGTH_GUARD <=? Z.of_nat (glen g') then [g]
          else g :: autoplay f g' (s_tbl (d_st r)) (tl stops)
      end
  end.
