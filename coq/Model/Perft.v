(* Model of the move-path counter (src/performance_test.rs, `perft(game, depth)`):
     depth 0            -> 1
     depth 1            -> the number of checked moves (the Rust code returns moves.len() without
                           playing them: the depth-1 shortcut)
     depth n + 2        -> the sum, over the checked moves m in generation order, of the count at
                           depth n + 1 after game.push(m); game.pop(m) follows each recursive call.
   The Rust function works on one mutable game: push, recurse, pop. The model is pure: every
   recursive call receives [push g m] and the caller goes on with its own [g]. That the Rust state
   after `pop` is again the state before `push` is the theorem [pop_push] of Proofs/PushPop.v
   ([RepInv g -> gen_ok g m -> pop (push g m) m = g]; every checked move is [gen_ok] by
   Proofs/GenOk.v), so threading the state through push/pop and passing [g] unchanged agree.
   The Rust code fills the move buffer (get_moves with verify = true, i.e. [checked_moves]) before
   it looks at the depth, also at depth 0; generation has no effect on the game, so the model only
   generates where the list is used.
   The count is a `usize` in Rust and an [N] here: the published counts for the depths a `u8` depth
   can reach in practice are far below 2^64, and no wrap is modelled.
   No proofs in this file. *)
From Chess Require Export Model.MoveGen.

Open Scope N_scope.

Fixpoint perft_model (n : nat) (g : game) : N :=
  match n with
  | O => 1
  | S n' =>
      match n' with
      | O => N.of_nat (length (checked_moves g))
      | S _ => fold_left (fun count m => count + perft_model n' (push g m)) (checked_moves g) 0
      end
  end.
