(* The score arithmetic of src/search.rs with CHECKED machine arithmetic.

   Model/Search.v computes scores as unbounded integers.  The Rust code computes them as
   `Score = i16` (depths as `u8`, ordering keys as `u32`, history counters as `u16`): in a build
   with overflow checks an overflowing `-x`, `a + b`, `a - b`, `a * b` panics, in a build without
   them it wraps and the search goes on with a wrong number.  This file repeats quiescence,
   depth1, node, root and the driver loop of Model/Search.v - same structure, same argument order -
   but every fixed-width operation of the source is performed by a primitive that returns [None]
   when the mathematical result does not fit the type; the functions then stop with
   [.. Overflow site].  Proofs/NoOverflow.v shows (1) whenever a checked function returns a
   value, Model/Search.v returns the same value and state, (2) under the hypotheses of
   Proofs/ScoreRange2.v no site is ever reported.  No proofs in this file.

   The move loops are written with the recursive call as an argument (as Proofs/SearchInv1.v does
   for Model/Search.v: node_step / node_loop / node_finish / root_step / root_loop).

   SITES.  Every arithmetic expression of src/search.rs, by line; site number = line * 10 + k,
   k = position of the operation in evaluation order on that line.

   move_score (u32)
     l.50   9 - new_piece.material_value() as u32 + 2      501: sub32 9 mv      502: add32 _ 2
     l.60   1000 + piece.mv as u32 - captured.mv as u32    601: add32 1000 a    602: sub32 _ b
     l.62   10000000 - history[..] as u32                  621: sub32 10000000 h
   quiescence_search (i16; real_depth u8)
     l.69   game.score() * (game.player() as Score)        691: mul16
     l.88   Score::MIN + 3000 + real_depth as Score        881: add16 MIN 3000  882: add16 _ real
     l.98   -beta                                          981: neg16
            -alpha                                         982: neg16
            real_depth.saturating_add(1)                   saturating: Z.min 255 (real + 1), no site
            -quiescence_search(..)                         983: neg16
   get_best_move_score_depth_1
     l.134  Score::MIN + 2000 + real_depth as Score        1341, 1342: add16
     l.140  -beta  -alpha  real_depth + 1  -quiescence(..) 1401: neg16  1402: neg16  1403: add8  1404: neg16
   get_best_move_score
     l.216  Score::MIN + 100 + real_depth as Score         2161, 2162: add16
     l.230-240 (index <= 2)   remaining_depth - 1          2341: sub8
                              real_depth + 1               2351: add8
                              -beta                        2361: neg16
                              -alpha                       2371: neg16
                              -get_best_move_score(..)     2301: neg16
     l.252-262 (null window)  remaining_depth - 1          2561: sub8
                              real_depth + 1               2571: add8
                              -alpha - 1                   2581: neg16  2582: sub16 _ 1
                              -alpha                       2591: neg16
                              -get_best_move_score(..)     2521: neg16
     l.267-277 (re-search)    remaining_depth - 1          2711: sub8
                              real_depth + 1               2721: add8
                              -beta                        2731: neg16
                              -test_score                  2741: neg16
                              -get_best_move_score(..)     2671: neg16
     l.289-291 (remaining_depth as f64).powf(3.0) * (1.0 - history[index] as f64 / 10000.0),
               `as u16` (saturating cast), saturating_add  no site: Model/Search.v history_bonus /
                                                           history_update model the saturation
   get_best_move_entry
     l.345  Score::MIN + 1                                 3451: add16
     l.348-352 move_stack().len() - 1 / - 5 / - 4          usize, guarded by len() >= 5 (a pattern match
                                                           on the move list in the model), no site
     l.373-383 (index <= 2)   depth - 1                    3771: sub8
                              Score::MIN + 1               3791: add16
                              -best_score                  3801: neg16
                              -get_best_move_score(..)     3731: neg16
     l.393-403 (null window)  depth - 1                    3971: sub8
                              -best_score - 1              3991: neg16  3992: sub16 _ 1
                              -best_score                  4001: neg16
                              -get_best_move_score(..)     3931: neg16
     l.408-418 (re-search)    depth - 1                    4121: sub8
                              Score::MIN + 1               4141: add16
                              -score                       4151: neg16
                              -get_best_move_score(..)     4081: neg16
   get_best_move_until_stop
     l.474  starting_depth..=u8::MAX                       an inclusive range: the iterator ends after
                                                           255 without computing 255 + 1, no site
     l.496  0..depth                                       no arithmetic on the bound, no site
     l.514  Score::MAX - 1000                              5141: sub16
     l.515  Score::MIN + 1000                              5151: add16
   Comparisons, `max`, array indexing (`killer_moves[real_depth as usize]`, `history[index]`) and the
   widening casts (`real_depth as Score`, `.. as u32`, `.. as f64`) cannot overflow; the index ranges are
   the subject of Proofs/SearchInv2.v. *)
From Chess Require Export Model.Search.

Open Scope Z_scope.

(* ---- checked primitives ------------------------------------------------------------------------- *)

Definition fits_i16 (z : Z) : bool := (SCORE_MIN <=? z) && (z <=? SCORE_MAX).
Definition fits_u8 (z : Z) : bool := (0 <=? z) && (z <=? 255).
Definition fits_u32 (z : Z) : bool := (0 <=? z) && (z <=? 4294967295).

Definition checked (fits : Z -> bool) (z : Z) : option Z := if fits z then Some z else None.

Definition neg16 (x : Z) : option Z := checked fits_i16 (- x).
Definition add16 (x y : Z) : option Z := checked fits_i16 (x + y).
Definition sub16 (x y : Z) : option Z := checked fits_i16 (x - y).
Definition mul16 (x y : Z) : option Z := checked fits_i16 (x * y).
Definition add8 (x y : Z) : option Z := checked fits_u8 (x + y).
Definition sub8 (x y : Z) : option Z := checked fits_u8 (x - y).
Definition add32 (x y : Z) : option Z := checked fits_u32 (x + y).
Definition sub32 (x y : Z) : option Z := checked fits_u32 (x - y).

(* ---- outcomes with an overflow report ------------------------------------------------------------ *)

(* quiescence / depth1: a score, out of fuel, or an overflow at a site *)
Inductive qoutcome : Type :=
| QDone (z : Z)
| QFuel
| QOverflow (site : Z).

(* node / root: the outcomes of Model/Search.v and an overflow at a site *)
Inductive coutcome (A : Type) : Type :=
| CDone (a : A)
| CAborted (s : sstate)
| COutOfFuel
| COverflow (site : Z).
Arguments CDone {A} a.
Arguments CAborted {A} s.
Arguments COutOfFuel {A}.
Arguments COverflow {A} site.

Definition liftC (q : qoutcome) : coutcome Z :=
  match q with QDone z => CDone z | QFuel => COutOfFuel | QOverflow k => COverflow k end.

Notation "'qdo' x <- o @ site ; k" :=
  (match o with Some x => k | None => QOverflow site end)
  (at level 200, x name, o at level 100, site at level 0, k at level 200, only parsing).
Notation "'cdo' x <- o @ site ; k" :=
  (match o with Some x => k | None => COverflow site end)
  (at level 200, x name, o at level 100, site at level 0, k at level 200, only parsing).

(* ---- move_score (u32) ------------------------------------------------------------------------------- *)

Definition move_scoreC (m : Move) (pv killer : option Move) (hist : list Z) : option Z * Z :=
  if omove_is pv m then (Some 0, 0)
  else if omove_is killer m then (Some 1, 0)
  else match m with
       | Promotion _ np _ _ _ =>
           match sub32 9 (material_value np) with
           | None => (None, 501)
           | Some x => (add32 x 2, 502)
           end
       | EnPassant _ _ _ => (Some ORDER_EN_PASSANT, 0)
       | CastlingLong _ => (Some ORDER_CASTLING_LONG, 0)
       | CastlingShort _ => (Some ORDER_CASTLING_SHORT, 0)
       | Normal pc _ _ (Some cap) =>
           match add32 ORDER_CAPTURE_BASE (material_value (pk pc)) with
           | None => (None, 601)
           | Some x => (sub32 x (material_value (pk cap)), 602)
           end
       | Normal _ _ _ None =>
           (sub32 ORDER_QUIET_BASE (match index_history m with Some i => znth hist i 0 | None => 0 end), 621)
       end.

(* ---- the mate scores -------------------------------------------------------------------------------- *)

(* Score::MIN + offset + real_depth as Score; sites [site], [site + 1] *)
Definition no_move_scoreC (site : Z) (g : game) (offset real : Z) : qoutcome :=
  let player := g_player g in
  if king_exists g player && negb (is_targeted g (king_pos g player) player) then QDone 0
  else
    qdo x <- add16 SCORE_MIN offset @ site;
    qdo y <- add16 x real @ (site + 1);
    QDone y.

(* ---- quiescence_search ------------------------------------------------------------------------------ *)

Definition qloopC (q : game -> Z -> Z -> Z -> qoutcome) (g : game) (beta real : Z)
  : list Move -> Z -> qoutcome :=
  fix loop (ms : list Move) (alpha : Z) : qoutcome :=
    match ms with
    | [] => QDone alpha
    | m :: rest =>
        if negb (is_tactical m) then loop rest alpha
        else
          qdo nb <- neg16 beta @ 981;
          qdo na <- neg16 alpha @ 982;
          match q (push g m) nb na (Z.min 255 (real + 1)) with
          | QDone s =>
              qdo score <- neg16 s @ 983;
              let alpha := if alpha <? score then score else alpha in
              if beta <=? alpha then QDone beta else loop rest alpha
          | QFuel => QFuel
          | QOverflow k => QOverflow k
          end
    end.

Fixpoint quiescenceC (fuel : nat) (g : game) (alpha beta real : Z) : qoutcome :=
  match fuel with
  | O => QFuel
  | S f =>
      qdo current <- mul16 (g_score g) (color_sign (g_player g)) @ 691;
      let alpha := Z.max alpha current in
      if beta <=? alpha then QDone beta
      else
        match pseudo_moves g with
        | [] => no_move_scoreC 881 g MATE_OFFSET_QUIESCENCE real
        | moves => qloopC (quiescenceC f) g beta real moves alpha
        end
  end.

(* ---- get_best_move_score_depth_1 ----------------------------------------------------------------------- *)

Fixpoint depth1_loopC (g : game) (ms : list Move) (alpha beta real : Z) : qoutcome :=
  match ms with
  | [] => QDone alpha
  | m :: rest =>
      qdo nb <- neg16 beta @ 1401;
      qdo na <- neg16 alpha @ 1402;
      qdo r1 <- add8 real 1 @ 1403;
      match quiescenceC QFUEL (push g m) nb na r1 with
      | QDone s =>
          qdo score <- neg16 s @ 1404;
          let alpha := if alpha <? score then score else alpha in
          if beta <=? alpha then QDone alpha else depth1_loopC g rest alpha beta real
      | QFuel => QFuel
      | QOverflow k => QOverflow k
      end
  end.

Definition depth1C (g : game) (alpha beta real : Z) : qoutcome :=
  match pseudo_moves g with
  | [] => no_move_scoreC 1341 g MATE_OFFSET_DEPTH1 real
  | moves => depth1_loopC g moves alpha beta real
  end.

(* ---- get_best_move_score --------------------------------------------------------------------------------- *)

Definition nrecC := game -> sstate -> Z -> Z -> Z -> coutcome Z * sstate.

(* one move of the loop; [remaining] is only used by the checked `remaining_depth - 1`: the recursive
   call [rec] is the node function at the predecessor (Proofs/NoOverflow.v: sub8_pred) *)
Definition node_stepC (rec : nrecC) (g : game) (remaining real beta : Z) (m : Move) (index : Z) (l : lstate)
  : coutcome lstate :=
  let g1 := push g m in
  if index <=? PVS_FULL_WINDOW_LAST_INDEX then
    cdo _r <- sub8 remaining 1 @ 2341;
    cdo r1 <- add8 real 1 @ 2351;
    cdo nb <- neg16 beta @ 2361;
    cdo na <- neg16 (l_alpha l) @ 2371;
    match rec g1 (l_st l) r1 nb na with
    | (CDone s, st1) =>
        cdo score <- neg16 s @ 2301;
        let '(bm, bs) := if l_bscore l <? score then (Some m, score) else (l_best l, l_bscore l) in
        CDone (mkL (Z.max (l_alpha l) score) bm bs st1)
    | (CAborted sa, _) => CAborted sa
    | (COutOfFuel, _) => COutOfFuel
    | (COverflow k, _) => COverflow k
    end
  else
    cdo _r <- sub8 remaining 1 @ 2561;
    cdo r1 <- add8 real 1 @ 2571;
    cdo na0 <- neg16 (l_alpha l) @ 2581;
    cdo na1 <- sub16 na0 1 @ 2582;
    cdo na <- neg16 (l_alpha l) @ 2591;
    match rec g1 (l_st l) r1 na1 na with
    | (CDone s, st1) =>
        cdo test <- neg16 s @ 2521;
        if l_bscore l <? test then
          cdo _r <- sub8 remaining 1 @ 2711;
          cdo r2 <- add8 real 1 @ 2721;
          cdo nb <- neg16 beta @ 2731;
          cdo nt <- neg16 test @ 2741;
          match rec g1 st1 r2 nb nt with
          | (CDone s2, st2) =>
              cdo score <- neg16 s2 @ 2671;
              CDone (mkL (Z.max (l_alpha l) score) (Some m) score st2)
          | (CAborted sa, _) => CAborted sa
          | (COutOfFuel, _) => COutOfFuel
          | (COverflow k, _) => COverflow k
          end
        else CDone (mkL (l_alpha l) (l_best l) (l_bscore l) st1)
    | (CAborted sa, _) => CAborted sa
    | (COutOfFuel, _) => COutOfFuel
    | (COverflow k, _) => COverflow k
    end.

Definition node_cutoffC (real remaining : Z) (l : lstate) (m : Move) : lstate :=
  let st := l_st l in
  let st := with_killers st (zupd (s_killers st) real (Some m)) in
  let st := with_hist st (history_update (s_hist st) m remaining) in
  mkL (l_alpha l) (l_best l) (l_bscore l) st.

Definition node_loopC (rec : nrecC) (g : game) (real beta remaining : Z)
  : list Move -> Z -> lstate -> coutcome lstate :=
  fix loop (ms : list Move) (index : Z) (l : lstate) : coutcome lstate :=
  match ms with
  | [] => CDone l
  | m :: rest =>
      match node_stepC rec g remaining real beta m index l with
      | CDone l' =>
          if beta <=? l_alpha l' then CDone (node_cutoffC real remaining l' m)
          else loop rest (index + 1) l'
      | CAborted sa => CAborted sa
      | COutOfFuel => COutOfFuel
      | COverflow k => COverflow k
      end
  end.

(* score_to_table saturates (saturating_add / saturating_sub, then min / max with the mate bound, which is
   inside i16): no overflow site, the pure function of Model/Search.v is used as it is.
   score_from_table uses the plain `-` / `+` of i16:
     entry.score - real_depth as Score     1961: sub16
     entry.score + real_depth as Score     1962: add16 *)
Definition entry_from_tableC (real : Z) (o : option entry) : option entry + Z :=
  match o with
  | None => inl None
  | Some en =>
      let s := e_score en in
      if SCORE_MAX - TABLE_MATE_MARGIN <? s then
        match sub16 s real with
        | Some x => inl (Some (mkEntry x (e_pv en) (e_depth en) (e_flag en)))
        | None => inr 1961
        end
      else if s <? SCORE_MIN + TABLE_MATE_MARGIN then
        match add16 s real with
        | Some x => inl (Some (mkEntry x (e_pv en) (e_depth en) (e_flag en)))
        | None => inr 1962
        end
      else inl (Some (mkEntry s (e_pv en) (e_depth en) (e_flag en)))
  end.

Definition node_finishC (g : game) (st : sstate) (real remaining alpha beta : Z) (res : coutcome lstate)
  : coutcome Z * sstate :=
  match res with
  | CDone l =>
      let flag := if l_bscore l <=? alpha then UpperBound
                  else if beta <=? l_bscore l then LowerBound else Exact in
      let ne := mkEntry (score_to_table (l_bscore l) real) (l_best l) remaining flag in
      let st' := l_st l in
      (CDone (l_alpha l), with_tbl st' (store_node (s_tbl st') (g_hash g) ne))
  | CAborted sa => (CAborted sa, sa)
  | COutOfFuel => (COutOfFuel, st)
  | COverflow k => (COverflow k, st)
  end.

Fixpoint nodeC (rem : nat) (g : game) (st : sstate) (real alpha beta : Z) {struct rem} : coutcome Z * sstate :=
  let st := poll st in
  if negb (s_running st) then (CAborted st, st)
  else
    let remaining := Z.of_nat rem in
    match entry_from_tableC real (tfind (s_tbl st) (g_hash g)) with
    | inr k => (COverflow k, st)
    | inl e =>
    match probe e remaining alpha beta with
    | Some s => (CDone s, st)
    | None =>
        let pv_move := match e with Some en => e_pv en | None => None end in
        match rem with
        | O => (liftC (quiescenceC QFUEL g alpha beta real), st)
        | S O => (liftC (depth1C g alpha beta real), st)
        | S (S _ as rem') =>
            match checked_moves g with
            | [] => (liftC (no_move_scoreC 2161 g MATE_OFFSET_NODE real), st)
            | moves =>
                let sorted := sort_moves (fun m => move_score m pv_move (znth (s_killers st) real None) (s_hist st)) moves in
                node_finishC g st real remaining alpha beta
                  (node_loopC (nodeC rem') g real beta remaining sorted 0 (mkL alpha None SCORE_MIN st))
            end
        end
    end
    end.

(* ---- get_best_move_entry (the root) ------------------------------------------------------------------------ *)

(* [depth] is the u8 argument; `depth - 1` is computed at every call site *)
Definition root_stepC (g : game) (depth : Z) (m : Move) (index : Z) (r : rstate) : coutcome rstate :=
  let g1 := push g m in
  if index <=? ROOT_FULL_WINDOW_LAST_INDEX then
    cdo d1 <- sub8 depth 1 @ 3771;
    cdo lo <- add16 SCORE_MIN 1 @ 3791;
    cdo nb <- neg16 (r_bscore r) @ 3801;
    match nodeC (Z.to_nat d1) g1 (r_st r) 1 lo nb with
    | (CDone s, st1) =>
        cdo score <- neg16 s @ 3731;
        if r_bscore r <? score then CDone (mkR (Some m) score st1)
        else CDone (mkR (r_best r) (r_bscore r) st1)
    | (CAborted sa, _) => CAborted sa
    | (COutOfFuel, _) => COutOfFuel
    | (COverflow k, _) => COverflow k
    end
  else
    cdo d1 <- sub8 depth 1 @ 3971;
    cdo nb0 <- neg16 (r_bscore r) @ 3991;
    cdo nb1 <- sub16 nb0 1 @ 3992;
    cdo nb <- neg16 (r_bscore r) @ 4001;
    match nodeC (Z.to_nat d1) g1 (r_st r) 1 nb1 nb with
    | (CDone s, st1) =>
        cdo score <- neg16 s @ 3931;
        if r_bscore r <? score then
          cdo d2 <- sub8 depth 1 @ 4121;
          cdo lo <- add16 SCORE_MIN 1 @ 4141;
          cdo ns <- neg16 score @ 4151;
          match nodeC (Z.to_nat d2) g1 st1 1 lo ns with
          | (CDone s2, st2) =>
              cdo score2 <- neg16 s2 @ 4081;
              CDone (mkR (Some m) score2 st2)
          | (CAborted sa, _) => CAborted sa
          | (COutOfFuel, _) => COutOfFuel
          | (COverflow k, _) => COverflow k
          end
        else CDone (mkR (r_best r) (r_bscore r) st1)
    | (CAborted sa, _) => CAborted sa
    | (COutOfFuel, _) => COutOfFuel
    | (COverflow k, _) => COverflow k
    end.

Definition root_loopC (g : game) (depth : Z) : list Move -> Z -> rstate -> coutcome rstate :=
  fix loop (ms : list Move) (index : Z) (r : rstate) : coutcome rstate :=
  match ms with
  | [] => CDone r
  | m :: rest =>
      match root_stepC g depth m index r with
      | CDone r' => loop rest (index + 1) r'
      | CAborted sa => CAborted sa
      | COutOfFuel => COutOfFuel
      | COverflow k => COverflow k
      end
  end.

Definition root_finishC (g : game) (st : sstate) (depth : nat) (res : coutcome rstate)
  : coutcome (option Move * Z * bool) * sstate :=
  match res with
  | CDone r =>
      let ne := mkEntry (r_bscore r) (r_best r) (Z.of_nat depth) Exact in
      let st' := r_st r in
      (CDone (r_best r, r_bscore r, false),
       match r_best r with
       | Some _ => with_tbl st' (store_root (s_tbl st') (g_hash g) ne)
       | None => st'
       end)
  | CAborted sa => (CAborted sa, sa)
  | COutOfFuel => (COutOfFuel, st)
  | COverflow k => (COverflow k, st)
  end.

Definition rootC (g : game) (st : sstate) (depth : nat) : coutcome (option Move * Z * bool) * sstate :=
  let moves := checked_moves g in
  match moves with
  | [m] => (CDone (Some m, 0, true), st)
  | _ =>
      let st := with_killers st (repeat None (Z.to_nat KILLER_SLOTS)) in
      match add16 SCORE_MIN 1 with
      | None => (COverflow 3451, st)
      | Some best0 =>
          let moves := repetition_filter g moves in
          let e := tfind (s_tbl st) (g_hash g) in
          match (match e with
                 | Some en => if (Z.of_nat depth <=? e_depth en) && match e_flag en with Exact => true | _ => false end
                              then Some en else None
                 | None => None end) with
          | Some en => (CDone (e_pv en, e_score en, false), st)
          | None =>
              let pv_move := match e with Some en => e_pv en | None => None end in
              let sorted := sort_moves (fun m => move_score m pv_move None (s_hist st)) moves in
              root_finishC g st depth (root_loopC g (Z.of_nat depth) sorted 0 (mkR None best0 st))
          end
      end
  end.

(* ---- get_best_move_until_stop (the driver) ----------------------------------------------------------------- *)

(* the result of Model/Search.v and the site of an overflow, if any *)
Fixpoint driver_loopC (n : nat) (g : game) (st : sstate) (depth : Z) (max_depth : option Z)
         (found : option Move) (lines : list text) : dresult * option Z :=
  match n with
  | O => (mkD lines found st true, None)
  | S n' =>
      if 255 <? depth then (mkD lines found st true, None)
      else
        match rootC g st (Z.to_nat depth) with
        | (CDone (best, score, only), st1) =>
            let lines := lines ++ info_lines depth score (s_tbl st1) g in
            match sub16 SCORE_MAX EXIT_BAND_HIGH, add16 SCORE_MIN EXIT_BAND_LOW with
            | None, _ => (mkD lines best st1 true, Some 5141)
            | _, None => (mkD lines best st1 true, Some 5151)
            | Some hi, Some lo =>
                if (match max_depth with Some d => d <=? depth | None => false end)
                   || only || (hi <? score) || (score <? lo)
                then (mkD lines best st1 true, None)
                else driver_loopC n' g st1 (depth + 1) max_depth best lines
            end
        | (CAborted _, st1) =>
            let found := match found with
                         | Some _ => found
                         | None => match checked_moves g with m :: _ => Some m | [] => None end
                         end in
            (mkD lines found st1 true, None)
        | (COutOfFuel, st1) => (mkD lines found st1 false, None)
        | (COverflow k, st1) => (mkD lines found st1 true, Some k)
        end
  end.

Definition driverC (g : game) (t : table) (max_depth : option Z) (stop_at : Z) (tableless : bool)
  : dresult * option Z :=
  let st := fresh_state t stop_at tableless in
  driver_loopC 256 g st (starting_depth t g) max_depth None [].
