(* Model of `Game` (src/chess/mod.rs): the concrete record with its caches, set_position,
   push, pop, push_history, update_phase. No proofs in this file. *)
From Chess Require Export Model.Board.

Open Scope Z_scope.

Record game := mkGame {
  g_score   : Z;                    (* score: i16 *)
  g_player  : color;                (* current_player *)
  g_moves   : list Move;            (* move_stack, most recent move first *)
  g_endgame : bool;                 (* phase == Endgame *)
  g_hash    : N;                    (* hash: u64 *)
  g_board   : board;                (* board: [Option<Piece>; 64] *)
  g_pscores : grid Z;               (* past_scores *)
  g_phashes : grid N;               (* past_hashes *)
  g_kend    : bool;                 (* piece_scores[King] points at KING_SCORES_END *)
  g_wking   : pos;                  (* king_positions[0] *)
  g_bking   : pos;                  (* king_positions[1] *)
  g_states  : list gstate           (* state, top of the stack first *)
}.

Definition with_player (g : game) (c : color) : game :=
  mkGame (g_score g) c (g_moves g) (g_endgame g) (g_hash g) (g_board g) (g_pscores g)
         (g_phashes g) (g_kend g) (g_wking g) (g_bking g) (g_states g).
Definition with_moves (g : game) (m : list Move) : game :=
  mkGame (g_score g) (g_player g) m (g_endgame g) (g_hash g) (g_board g) (g_pscores g)
         (g_phashes g) (g_kend g) (g_wking g) (g_bking g) (g_states g).
Definition with_hash (g : game) (h : N) : game :=
  mkGame (g_score g) (g_player g) (g_moves g) (g_endgame g) h (g_board g) (g_pscores g)
         (g_phashes g) (g_kend g) (g_wking g) (g_bking g) (g_states g).
Definition with_states (g : game) (s : list gstate) : game :=
  mkGame (g_score g) (g_player g) (g_moves g) (g_endgame g) (g_hash g) (g_board g) (g_pscores g)
         (g_phashes g) (g_kend g) (g_wking g) (g_bking g) s.
Definition with_phase_end (g : game) : game :=
  mkGame (g_score g) (g_player g) (g_moves g) true (g_hash g) (g_board g) (g_pscores g)
         (g_phashes g) true (g_wking g) (g_bking g) (g_states g).

(* Game::len, Game::state *)
Definition glen (g : game) : nat := length (g_states g).
Definition gstate_of (g : game) : gstate := hd state_default (g_states g).

(* Game::get_position *)
Definition gget (g : game) (p : pos) : option piece := bget (g_board g) p.

(* Game::get_king_position / set_king_position *)
Definition king_pos (g : game) (c : color) : pos :=
  match c with White => g_wking g | Black => g_bking g end.
Definition set_king_pos (g : game) (c : color) (p : pos) : game :=
  match c with
  | White => mkGame (g_score g) (g_player g) (g_moves g) (g_endgame g) (g_hash g) (g_board g)
                    (g_pscores g) (g_phashes g) (g_kend g) p (g_bking g) (g_states g)
  | Black => mkGame (g_score g) (g_player g) (g_moves g) (g_endgame g) (g_hash g) (g_board g)
                    (g_pscores g) (g_phashes g) (g_kend g) (g_wking g) p (g_states g)
  end.

(* Game::set_position *)
Definition set_position (g : game) (p : pos) (np : option piece) : game :=
  let old_h := grid_get (g_phashes g) p 0%N in
  let old_s := grid_get (g_pscores g) p 0 in
  let new_s := match np with Some pc => piece_score (g_kend g) pc p | None => 0 end in
  let new_h := key_place p np in
  mkGame (wrap16 (wrap16 (g_score g - old_s) + new_s)) (g_player g) (g_moves g) (g_endgame g)
         (N.lxor (N.lxor (g_hash g) old_h) new_h)
         (grid_set (g_board g) p np) (grid_set (g_pscores g) p new_s) (grid_set (g_phashes g) p new_h)
         (g_kend g) (g_wking g) (g_bking g) (g_states g).

(* Game::king_exists *)
Definition king_exists (g : game) (c : color) : bool :=
  match gget g (king_pos g c) with
  | Some pc => kind_eqb (pk pc) King
  | None => false
  end.

Definition is_rook_of (o : option piece) (c : color) : bool :=
  match o with Some pc => kind_eqb (pk pc) Rook && color_eqb (po pc) c | None => false end.

(* the two `if captured_piece.is_some_and(rook of colour)` blocks of push *)
Definition revoke_captured (st : gstate) (cap : option piece) (e : pos) : gstate :=
  let st :=
    if is_rook_of cap White then
      if pos_eqb e (0, 0) then set_wq st false
      else if pos_eqb e (0, 7) then set_wk st false else st
    else st in
  if is_rook_of cap Black then
    if pos_eqb e (7, 0) then set_bq st false
    else if pos_eqb e (7, 7) then set_bk st false else st
  else st.

Definition is_enemy_pawn (o : option piece) (owner : color) : bool :=
  match o with
  | Some p => kind_eqb (pk p) Pawn && negb (color_eqb (po p) owner)
  | None => false
  end.

Definition home_row (c : color) : Z := match c with White => 0 | Black => 7 end.

(* rows of an en passant capture: (row of both pawns, row the capturer lands on) *)
Definition ep_rows (c : color) : Z * Z := match c with White => (4, 5) | Black => (3, 2) end.

(* the tail of push: flip the side, replace the state key, push the state *)
Definition push_finish (g : game) (st : gstate) : game :=
  let g := with_player g (other (g_player g)) in
  let h := N.lxor (g_hash g) KEY_BLACK_TO_MOVE in
  let h := N.lxor h (key_state (state_byte (gstate_of g))) in
  let g := with_states g (st :: g_states g) in
  with_hash g (N.lxor h (key_state (state_byte st))).

(* Game::push *)
Definition push (g : game) (m : Move) : game :=
  let st := set_ep (gstate_of g) 8 in
  match m with
  | Normal pc s e cap =>
      let g := set_position g s None in
      let g := set_position g e (Some pc) in
      let '(g, st) :=
        if kind_eqb (pk pc) King then
          (set_king_pos g (g_player g) e, clear_rights st (g_player g))
        else if kind_eqb (pk pc) Rook then
          (g, if pos_eqb s (0, 0) then set_wq st false
              else if pos_eqb s (0, 7) then set_wk st false
              else if pos_eqb s (7, 0) then set_bq st false
              else if pos_eqb s (7, 7) then set_bk st false
              else st)
        else (g, st) in
      let st := revoke_captured st cap e in
      let st :=
        if kind_eqb (pk pc) Pawn && (Z.abs (fst e - fst s) =? 2) then
          let left := if 0 <? snd e then is_enemy_pawn (gget g (fst e, snd e - 1)) (po pc) else false in
          let right := if snd e <? 7 then is_enemy_pawn (gget g (fst e, snd e + 1)) (po pc) else false in
          if left || right then set_ep st (snd s) else st
        else st in
      push_finish g st
  | Promotion o np s e cap =>
      let g := set_position g s None in
      let g := set_position g e (Some (mkPiece np o)) in
      push_finish g (revoke_captured st cap e)
  | EnPassant o sc ec =>
      let '(r1, r2) := ep_rows o in
      let g := set_position g (r1, ec) None in
      let g := set_position g (r1, sc) None in
      let g := set_position g (r2, ec) (Some (mkPiece Pawn o)) in
      push_finish g st
  | CastlingLong o =>
      let row := home_row o in
      let g := set_position g (row, 0) None in
      let g := set_position g (row, 4) None in
      let g := set_position g (row, 3) (Some (mkPiece Rook o)) in
      let g := set_position g (row, 2) (Some (mkPiece King o)) in
      let g := set_king_pos g (g_player g) (row, 2) in
      push_finish g (clear_rights st (g_player g))
  | CastlingShort o =>
      let row := home_row o in
      let g := set_position g (row, 7) None in
      let g := set_position g (row, 4) None in
      let g := set_position g (row, 5) (Some (mkPiece Rook o)) in
      let g := set_position g (row, 6) (Some (mkPiece King o)) in
      let g := set_king_pos g (g_player g) (row, 6) in
      push_finish g (clear_rights st (g_player g))
  end.

(* Game::pop *)
Definition pop (g : game) (m : Move) : game :=
  let h := N.lxor (g_hash g) (key_state (state_byte (gstate_of g))) in
  let g := with_states g (tl (g_states g)) in
  let h := N.lxor h (key_state (state_byte (gstate_of g))) in
  let h := N.lxor h KEY_BLACK_TO_MOVE in
  let g := with_player (with_hash g h) (other (g_player g)) in
  match m with
  | Normal pc s e cap =>
      let g := set_position g s (Some pc) in
      let g := set_position g e cap in
      if kind_eqb (pk pc) King then set_king_pos g (g_player g) s else g
  | Promotion o np s e cap =>
      let g := set_position g s (Some (mkPiece Pawn o)) in
      set_position g e cap
  | EnPassant o sc ec =>
      let '(r1, r2) := ep_rows o in
      let g := set_position g (r2, ec) None in
      let g := set_position g (r1, ec) (Some (mkPiece Pawn (other o))) in
      set_position g (r1, sc) (Some (mkPiece Pawn o))
  | CastlingLong o =>
      let row := home_row o in
      let g := set_position g (row, 3) None in
      let g := set_position g (row, 2) None in
      let g := set_position g (row, 0) (Some (mkPiece Rook o)) in
      let g := set_position g (row, 4) (Some (mkPiece King o)) in
      set_king_pos g o (row, 4)
  | CastlingShort o =>
      let row := home_row o in
      let g := set_position g (row, 5) None in
      let g := set_position g (row, 6) None in
      let g := set_position g (row, 7) (Some (mkPiece Rook o)) in
      let g := set_position g (row, 4) (Some (mkPiece King o)) in
      set_king_pos g o (row, 4)
  end.

(* Game::is_endgame: the sum of |piece-square value| over the board against the threshold *)
Definition total_piece_score (g : game) : Z :=
  fold_left (fun acc p =>
               match gget g p with
               | Some pc => acc + Z.abs (piece_score (g_kend g) pc p)
               | None => acc
               end) all_squares 0.

Definition is_endgame (g : game) : bool := total_piece_score g <? endgame_factor * ENDGAME_THRESHOLD.

(* Game::update_phase (sticky; re-scores both kings when the table is swapped) *)
Definition update_phase (g : game) : game :=
  if negb (g_endgame g) && is_endgame g then
    let g := with_phase_end g in
    let g := set_position g (king_pos g White) (gget g (king_pos g White)) in
    set_position g (king_pos g Black) (gget g (king_pos g Black))
  else g.

(* Game::push_history *)
Definition push_history (g : game) (m : Move) : game :=
  push (update_phase (with_moves g (m :: g_moves g))) m.
