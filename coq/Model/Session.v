(* Sequential model of the command handling of the UCI front end (src/uci.rs): the `Data` record
   (current game, transposition table) and what `position`, `ucinewgame`, `show`/`d`, `go`,
   `isready` and `uci` do to it and print. The thread structure (flag, timer, joins, refusals
   while a search runs) is modelled in Model/Sched.v; here every command runs to completion
   before the next one starts, i.e. a `go` stands for the whole life of its search thread
   (take the lock, get_best_move_until_stop, drop the game, print bestmove).
   The parsing of the `go` arguments into a depth limit / a time budget is not part of this file
   (Model/Budget.v): a `go` carries its depth limit and the poll index at which the flag is
   cleared (the hook of Model/Search.v; -1 = never). No proofs in this file. *)
From Chess Require Export Model.Search.

Open Scope Z_scope.

(* struct Data *)
Record session := mkSession { ss_game : option game; ss_table : table }.

(* uci_talk: current_game: None, cache: empty *)
Definition init_session : session := mkSession None tempty.

(* what the front end prints (error texts are not part of the model, only which error it is) *)
Inductive out :=
| OErrorPosition                 (* error: Invalid position command *)
| OErrorFen (code : N)           (* error: Invalid FEN string ... (code of Model/Fen.v) *)
| OErrorMove (s : text)          (* error: Invalid move: <s> *)
| OErrorTooLong                  (* error: Game became too long, please try again *)
| OErrorNoGameShow               (* error: No game to show, please set a position first *)
| OErrorNoGameGo                 (* error: No game to play, please set a position first *)
| OPanic (code : N)              (* the process would panic (never produced: Proofs/SessionProofs.v) *)
| ODisplay (s : text)            (* println!("{}", game) *)
| OInfo (s : text)               (* an info line of the search *)
| OBestMove (m : option text)    (* bestmove <uci> / bestmove none *)
| OReadyOk                       (* readyok *)
| OIdName | OIdAuthor | OUciOk.  (* the three lines of `uci` *)

(* the literals compared against the tokens *)
Definition KW_STARTPOS : text := [115; 116; 97; 114; 116; 112; 111; 115]%N.   (* "startpos" *)
Definition KW_FEN : text := [102; 101; 110]%N.                               (* "fen" *)
Definition KW_MOVES : text := [109; 111; 118; 101; 115]%N.                   (* "moves" *)

(* Game::default(): "rnbqkbnr/pppppppp/8/8/8/8/PPPPPPPP/RNBQKBNR w KQkq - 0 1" *)
Definition START_FEN_TEXT : text :=
  [114; 110; 98; 113; 107; 98; 110; 114; 47; 112; 112; 112; 112; 112; 112; 112; 112; 47; 56; 47;
   56; 47; 56; 47; 56; 47; 80; 80; 80; 80; 80; 80; 80; 80; 47; 82; 78; 66; 81; 75; 66; 78; 82; 32;
   119; 32; 75; 81; 107; 113; 32; 45; 32; 48; 32; 49]%N.

(* ---- command_position ------------------------------------------------------------------------- *)

(* terms.by_ref().take_while(|t| if t == "moves" { add_moves = true; false } else { true }):
   the tokens before the first "moves", whether "moves" was met, the tokens after it *)
Fixpoint split_moves (ts : list text) : list text * bool * list text :=
  match ts with
  | [] => ([], false, [])
  | t :: rest =>
      if text_eqb t KW_MOVES then ([], true, rest)
      else let '(f, add, ms) := split_moves rest in (t :: f, add, ms)
  end.

(* .flat_map(|term| [term, " "]).collect(): every field followed by one space *)
Definition join_fields (fields : list text) : text := flat_map (fun t => t ++ [32%N]) fields.

(* the first part of the arguments: None = "Invalid position command"; otherwise the result of
   the import, the add_moves flag and the move strings that follow *)
Definition position_base (args : list text) : option (result game * bool * list text) :=
  match args with
  | [] => None
  | t :: rest =>
      if text_eqb t KW_STARTPOS then
        (* the move list is only read when the very next token is "moves" *)
        match rest with
        | t2 :: ms => Some (import START_FEN_TEXT, text_eqb t2 KW_MOVES, ms)
        | [] => Some (import START_FEN_TEXT, false, [])
        end
      else if text_eqb t KW_FEN then
        let '(fields, add, ms) := split_moves rest in
        Some (import (join_fields fields), add, ms)
      else None
  end.

(* one move string of the `moves` loop *)
Inductive step :=
| SPlayed (g' : game)                 (* push_history done, the loop goes on with g' *)
| SStop (og : option game) (o : out). (* bail!: what current_game is now, the error printed *)

Definition move_step (g : game) (s : text) : step :=
  match from_uci s g with
  | None => SStop None (OErrorMove s)
  | Some m =>
      if existsb (move_eqb m) (checked_moves g) then
        let g' := push_history g m in
        if GAME_LENGTH_GUARD <=? Z.of_nat (glen g') then SStop None OErrorTooLong
        else SPlayed g'
      else SStop (Some g) (OErrorMove s)
  end.

(* for move_str in terms.by_ref() { ... } *)
Fixpoint play_moves (g : game) (ms : list text) : option game * list out :=
  match ms with
  | [] => (Some g, [])
  | s :: rest =>
      match move_step g s with
      | SPlayed g' => play_moves g' rest
      | SStop og o => (og, [o])
      end
  end.

Definition position_cmd (s : session) (args : list text) : session * list out :=
  match position_base args with
  | None => (s, [OErrorPosition])
  | Some (r, add, ms) =>
      match r with
      | Ok g0 =>
          let '(og, outs) := if add then play_moves g0 ms else (Some g0, []) in
          (mkSession og (ss_table s), outs)
      | Err c => (mkSession None (ss_table s), [OErrorFen c])
      | Panic c => (mkSession None (ss_table s), [OPanic c])
      end
  end.

(* ---- command_ucinewgame, command_show ----------------------------------------------------------- *)

Definition newgame_cmd (s : session) : session := mkSession None tempty.

Definition show_cmd (s : session) : session * list out :=
  match ss_game s with
  | Some g => (s, [ODisplay (display g)])
  | None => (s, [OErrorNoGameShow])
  end.

(* ---- command_go and the search thread it starts ------------------------------------------------- *)

Definition go_cmd (s : session) (limit : option Z) (stop_at : Z) : session * list out :=
  match ss_game s with
  | None => (s, [OErrorNoGameGo])
  | Some g =>
      let r := driver g (ss_table s) limit stop_at false in
      (mkSession None (s_tbl (d_st r)),
       map OInfo (d_lines r) ++ [OBestMove (option_map uci (d_move r))])
  end.

(* ---- the command loop ------------------------------------------------------------------------------- *)

Inductive cmd :=
| CPosition (args : list text)
| CNewGame
| CShow
| CGo (limit : option Z) (stop_at : Z)
| CIsReady
| CUci.

Definition run_cmd (s : session) (c : cmd) : session * list out :=
  match c with
  | CPosition args => position_cmd s args
  | CNewGame => (newgame_cmd s, [])
  | CShow => show_cmd s
  | CGo limit stop_at => go_cmd s limit stop_at
  | CIsReady => (s, [OReadyOk])
  | CUci => (s, [OIdName; OIdAuthor; OUciOk])
  end.

Fixpoint run_cmds (s : session) (cs : list cmd) : session * list out :=
  match cs with
  | [] => (s, [])
  | c :: rest =>
      let '(s1, o1) := run_cmd s c in
      let '(s2, o2) := run_cmds s1 rest in
      (s2, o1 ++ o2)
  end.
