(* Model of the FEN reader Game::new and the writer Game::fen (src/chess/mod.rs).
   Text is a list of Unicode scalar values. No proofs in this file. *)
From Chess Require Export Model.Game.

Open Scope Z_scope.

Definition text := list N.

(* char::is_ascii_whitespace: space, \t, \n, \x0C, \r *)
Definition is_ws (c : N) : bool :=
  (N.eqb c 32 || N.eqb c 9 || N.eqb c 10 || N.eqb c 12 || N.eqb c 13)%N.

(* str::split_ascii_whitespace *)
Fixpoint split_ws_aux (s : text) (cur : text) : list text :=
  match s with
  | [] => match cur with [] => [] | _ => [rev cur] end
  | c :: t =>
      if is_ws c then
        match cur with [] => split_ws_aux t [] | _ => rev cur :: split_ws_aux t [] end
      else split_ws_aux t (c :: cur)
  end.
Definition split_ws (s : text) : list text := split_ws_aux s [].

Definition is_ascii_alpha (c : N) : bool := ((65 <=? c) && (c <=? 90) || (97 <=? c) && (c <=? 122))%N.
Definition is_ascii_digit (c : N) : bool := ((48 <=? c) && (c <=? 57))%N.
Definition is_ascii_lower (c : N) : bool := ((97 <=? c) && (c <=? 122))%N.
Definition to_ascii_upper (c : N) : N := if is_ascii_lower c then (c - 32)%N else c.
Definition to_ascii_lower (c : N) : N := if ((65 <=? c) && (c <=? 90))%N then (c + 32)%N else c.

(* Piece::from_char_ascii *)
Definition piece_of_char (c : N) : option piece :=
  match assoc N.eqb (to_ascii_upper c) FROM_ASCII_LETTER with
  | Some k => Some (mkPiece k (if is_ascii_lower c then Black else White))
  | None => None
  end.

(* Piece::as_char_ascii *)
Definition char_of_piece (pc : piece) : N :=
  match po pc with
  | White => ASCII_LETTER (pk pc)
  | Black => to_ascii_lower (ASCII_LETTER (pk pc))
  end.

(* error codes (the message text is not part of the model) *)
Definition E_MISSING : N := 1.
Definition E_ROWS : N := 2.
Definition E_COLS : N := 3.
Definition E_PIECE : N := 4.
Definition E_CHAR : N := 5.
Definition E_SIZE : N := 6.
Definition E_PLAYER : N := 7.
Definition E_CASTLING : N := 8.
Definition E_EP : N := 9.
Definition E_KING : N := 10.
Definition E_COUNT : N := 11.
Definition E_COUNTER : N := 12.
Definition E_FIELDS : N := 13.
Definition P_ASSERT : N := 100.

(* the accumulator of the placement loop *)
Record acc := mkAcc {
  a_row : Z; a_col : Z; a_hash : N; a_score : Z; a_board : board;
  a_ps : grid Z; a_ph : grid N; a_wk : option pos; a_bk : option pos }.

Definition acc0 : acc :=
  mkAcc 7 0 0%N 0 (grid_make None) (grid_make 0) (grid_make 0%N) None None.

(* Position::new_assert *)
Definition new_assert (r c : Z) : result pos :=
  if in_range r c then Ok (r, c) else Panic P_ASSERT.

(* the `for i in 0..count` loop writing empty-square keys *)
Fixpoint fill_empty (n : nat) (a : acc) (i : Z) : result acc :=
  match n with
  | O => Ok a
  | S n' =>
      do p <- new_assert (a_row a) (a_col a + i);
      let a' := mkAcc (a_row a) (a_col a) (N.lxor (a_hash a) KEY_EMPTY_PLACE) (a_score a) (a_board a)
                      (a_ps a) (grid_set (a_ph a) p KEY_EMPTY_PLACE) (a_wk a) (a_bk a) in
      fill_empty n' a' (i + 1)
  end.

Definition placement_step (a : acc) (ch : N) : result acc :=
  if N.eqb ch 47 (* '/' *) then
    if negb (a_col a =? 8) then Err E_SIZE
    else if a_row a =? 0 then Err E_ROWS
    else Ok (mkAcc (a_row a - 1) 0 (a_hash a) (a_score a) (a_board a) (a_ps a) (a_ph a) (a_wk a) (a_bk a))
  else if is_ascii_alpha ch then
    if a_col a =? 8 then Err E_COLS
    else match piece_of_char ch with
         | None => Err E_PIECE
         | Some pc =>
             do p <- new_assert (a_row a) (a_col a);
             let wk := if kind_eqb (pk pc) King && color_eqb (po pc) White then Some p else a_wk a in
             let bk := if kind_eqb (pk pc) King && color_eqb (po pc) Black then Some p else a_bk a in
             let s := piece_score false pc p in
             let h := key_piece p pc in
             Ok (mkAcc (a_row a) (a_col a + 1) (N.lxor (a_hash a) h) (wrap16 (a_score a + s))
                       (grid_set (a_board a) p (Some pc)) (grid_set (a_ps a) p s)
                       (grid_set (a_ph a) p h) wk bk)
         end
  else if is_ascii_digit ch then
    let count := Z.of_N (ch - 48) in
    if (count =? 0) || (8 <? a_col a + count) then Err E_COUNT
    else
      do a' <- fill_empty (Z.to_nat count) a 0;
      Ok (mkAcc (a_row a') (a_col a' + count) (a_hash a') (a_score a') (a_board a') (a_ps a')
                (a_ph a') (a_wk a') (a_bk a'))
  else Err E_CHAR.

Fixpoint placement (a : acc) (s : text) : result acc :=
  match s with
  | [] => Ok a
  | ch :: t => do a' <- placement_step a ch; placement a' t
  end.

(* the castling field: distinct letters of KQkq, or a single '-' *)
Fixpoint castling_field (whole : text) (s : text) (st : gstate) : result gstate :=
  match s with
  | [] => Ok st
  | ch :: t =>
      if N.eqb ch 75 && negb (st_wk st) then castling_field whole t (set_wk st true)
      else if N.eqb ch 81 && negb (st_wq st) then castling_field whole t (set_wq st true)
      else if N.eqb ch 107 && negb (st_bk st) then castling_field whole t (set_bk st true)
      else if N.eqb ch 113 && negb (st_bq st) then castling_field whole t (set_bq st true)
      else if N.eqb ch 45 && (match whole with [45%N] => true | _ => false end) then castling_field whole t st
      else Err E_CASTLING
  end.

Definition all_digits (s : text) : bool := forallb is_ascii_digit s.

Definition side_field (s : text) : result color :=
  match s with
  | [119%N] => Ok White
  | [98%N] => Ok Black
  | _ => Err E_PLAYER
  end.

Definition ep_field (s : text) (player : color) (st : gstate) : result gstate :=
  match s with
  | [45%N] => Ok st
  | [f; r] =>
      if ((97 <=? f) && (f <=? 104) && N.eqb r (match player with White => 54 | Black => 51 end))%N
      then Ok (set_ep st (Z.of_N (f - 97)))
      else Err E_EP
  | _ => Err E_EP
  end.

(* optional halfmove clock and fullmove number, nothing after them *)
Definition counter_fields (rest : list text) : result unit :=
  match rest with
  | [] => Ok tt
  | [c1] => if all_digits c1 then Ok tt else Err E_COUNTER
  | [c1; c2] => if all_digits c1 && all_digits c2 then Ok tt else Err E_COUNTER
  | c1 :: c2 :: _ => if all_digits c1 && all_digits c2 then Err E_FIELDS else Err E_COUNTER
  end.

Definition field (l : list text) : result (text * list text) :=
  match l with
  | [] => Err E_MISSING
  | x :: t => Ok (x, t)
  end.

Definition require_king (o : option pos) : result pos :=
  match o with Some p => Ok p | None => Err E_KING end.

(* Game::new *)
Definition import (s : text) : result game :=
  do (pieces, rest) <- field (split_ws s);
  do a <- placement acc0 pieces;
  if negb ((a_row a =? 0) && (a_col a =? 8)) then Err E_SIZE else
  do (side, rest) <- field rest;
  do player <- side_field side;
  let hash := if color_eqb player Black then N.lxor (a_hash a) KEY_BLACK_TO_MOVE else a_hash a in
  do (castling, rest) <- field rest;
  do st <- castling_field castling castling state_default;
  do (ep, rest) <- field rest;
  do st <- ep_field ep player st;
  do _ <- counter_fields rest;
  do wk <- require_king (a_wk a);
  do bk <- require_king (a_bk a);
  let g := mkGame (a_score a) player [] false (N.lxor hash (key_state (state_byte st)))
                  (a_board a) (a_ps a) (a_ph a) false wk bk [st] in
  Ok (update_phase g).

(* ---- Game::fen ------------------------------------------------------------------ *)

Fixpoint fen_row (g : game) (row : Z) (cols : list Z) (empty : N) : text :=
  match cols with
  | [] => if (0 <? empty)%N then decimal empty else []
  | c :: t =>
      match gget g (row, c) with
      | None => fen_row g row t (empty + 1)%N
      | Some pc =>
          (if (0 <? empty)%N then decimal empty else []) ++ char_of_piece pc :: fen_row g row t 0%N
      end
  end.

Definition cols8 : list Z := [0; 1; 2; 3; 4; 5; 6; 7].
Definition rows_desc : list Z := [7; 6; 5; 4; 3; 2; 1; 0].

Definition fen_placement (g : game) : text :=
  flat_map (fun row => fen_row g row cols8 0%N ++ (if 0 <? row then [47%N] else [])) rows_desc.

Definition fen_castling (st : gstate) : text :=
  let s := (if st_wk st then [75%N] else []) ++ (if st_wq st then [81%N] else [])
           ++ (if st_bk st then [107%N] else []) ++ (if st_bq st then [113%N] else []) in
  match s with [] => [45%N] | _ => s end.

Definition fen_ep (g : game) : text :=
  let st := gstate_of g in
  if st_ep st <? 8 then
    [(97 + Z.to_N (st_ep st))%N; match g_player g with White => 54%N | Black => 51%N end]
  else [45%N].

Definition fen (g : game) : text :=
  fen_placement g ++ [32%N] ++ [match g_player g with White => 119%N | Black => 98%N end]
  ++ [32%N] ++ fen_castling (gstate_of g) ++ [32%N] ++ fen_ep g
  ++ [32%N; 48%N; 32%N] ++ decimal (N.of_nat (length (g_moves g)) / 2 + 1)%N.
