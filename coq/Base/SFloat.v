(* binary64 arithmetic as pure Gallina (Coq.Floats.SpecFloat: the specification the primitive
   floats are axiomatised against; no primitive floats and no axioms are used here).
   Only what the engine needs: conversion of an integer, *, /, -, truncation to an integer. *)
From Coq Require Import ZArith Floats.SpecFloat.
Open Scope Z_scope.

Definition prec : Z := 53.
Definition emax : Z := 1024.

(* integer -> f64 (round to nearest even, as `as f64` does) *)
Definition f_of_Z (z : Z) : spec_float :=
  match z with
  | Z0 => S754_zero false
  | Zpos _ => binary_normalize prec emax z 0 false
  | Zneg _ => binary_normalize prec emax z 0 true
  end.

Definition f_mul := SFmul prec emax.
Definition f_div := SFdiv prec emax.
Definition f_sub := SFsub prec emax.

(* f64 from mantissa and exponent (a literal of the source) *)
Definition f_lit (m e : Z) : spec_float := binary_normalize prec emax m e false.

(* `x as uN`: truncation toward zero, saturating at 0 and [max]; NaN -> 0 *)
Definition f_trunc_sat (f : spec_float) (max : Z) : Z :=
  match f with
  | S754_finite false m e =>
      let v := if 0 <=? e then Zpos m * 2 ^ e else Zpos m / 2 ^ (- e) in
      Z.min max v
  | S754_infinity false => max
  | _ => 0
  end.
