(* Small general-purpose definitions used by the model (no proofs about chess here). *)
From Coq Require Export ZArith NArith List Bool.
Export ListNotations.

Arguments N.add : simpl never.
Arguments N.sub : simpl never.
Arguments N.mul : simpl never.
Arguments N.lxor : simpl never.
Arguments Z.add : simpl never.
Arguments Z.sub : simpl never.
Arguments Z.mul : simpl never.

(* list update: out of range leaves the list unchanged *)
Fixpoint upd {A : Type} (l : list A) (n : nat) (v : A) : list A :=
  match l, n with
  | [], _ => []
  | _ :: t, O => v :: t
  | h :: t, S n' => h :: upd t n' v
  end.

(* Z-indexed access without going through nat (negative or too large: default / unchanged) *)
Fixpoint znth {A : Type} (l : list A) (i : Z) (d : A) : A :=
  match l with
  | [] => d
  | x :: t => if (i =? 0)%Z then x else znth t (i - 1)%Z d
  end.

Fixpoint zupd {A : Type} (l : list A) (i : Z) (v : A) : list A :=
  match l with
  | [] => []
  | x :: t => if (i =? 0)%Z then v :: t else x :: zupd t (i - 1)%Z v
  end.

(* an 8x8 grid indexed by (row, col) *)
Definition grid (A : Type) := list (list A).
Definition grid_get {A : Type} (g : grid A) (p : Z * Z) (d : A) : A := znth (znth g (fst p) []) (snd p) d.
Definition grid_set {A : Type} (g : grid A) (p : Z * Z) (v : A) : grid A :=
  zupd g (fst p) (zupd (znth g (fst p) []) (snd p) v).
Definition grid_make {A : Type} (v : A) : grid A := repeat (repeat v 8) 8.

(* cut a list into rows of n elements *)
Fixpoint chunk_aux {A : Type} (fuel : nat) (n : nat) (l : list A) : list (list A) :=
  match fuel with
  | O => []
  | S f => match l with
           | [] => []
           | _ => firstn n l :: chunk_aux f n (skipn n l)
           end
  end.
Definition chunk {A : Type} (n : nat) (l : list A) : list (list A) := chunk_aux (length l) n l.

(* first index of an element satisfying f *)
Fixpoint find_index {A : Type} (f : A -> bool) (l : list A) : option nat :=
  match l with
  | [] => None
  | x :: t => if f x then Some O else option_map S (find_index f t)
  end.

(* i16 / u8 / u16 / u64 wrap-around *)
Definition wrap16 (z : Z) : Z :=
  if ((-32768 <=? z) && (z <=? 32767))%Z then z       (* fast path, same value *)
  else ((z + 32768) mod 65536 - 32768)%Z.
Definition I16_MIN : Z := (-32768)%Z.
Definition I16_MAX : Z := 32767%Z.
Definition U64_MAX : Z := 18446744073709551615%Z.

(* association lists *)
Fixpoint assoc {A B : Type} (eqb : A -> A -> bool) (k : A) (l : list (A * B)) : option B :=
  match l with
  | [] => None
  | (a, b) :: t => if eqb k a then Some b else assoc eqb k t
  end.

(* outcome of operations that can fail in the implementation:
   Err   = an error value is returned (anyhow bail)
   Panic = the implementation would panic (assertion, checked index, unwrap) *)
Inductive result (A : Type) : Type :=
| Ok (a : A)
| Err (code : N)
| Panic (code : N).
Arguments Ok {A} a.
Arguments Err {A} code.
Arguments Panic {A} code.

Definition bind {A B} (r : result A) (f : A -> result B) : result B :=
  match r with Ok a => f a | Err c => Err c | Panic c => Panic c end.

Notation "'do' x <- r ; k" := (bind r (fun x => k)) (at level 200, x pattern, r at level 100, k at level 200).

(* decimal rendering of a natural number as character codes *)
Fixpoint dec_digits (fuel : nat) (n : N) (acc : list N) : list N :=
  match fuel with
  | O => acc
  | S f =>
      let acc' := (48 + n mod 10)%N :: acc in
      if (n <? 10)%N then acc' else dec_digits f (n / 10)%N acc'
  end.
Definition decimal (n : N) : list N := dec_digits 40 n [].
