(* Basic chess types shared by the generated data, the model and the specifications. *)
From Coq Require Import ZArith NArith List Bool.
Import ListNotations.

Inductive color := White | Black.
Inductive kind := Queen | Rook | Bishop | Knight | Pawn | King.
Record piece := mkPiece { pk : kind; po : color }.

(* a square: (row, col), row 0 = first rank, col 0 = a-file *)
Definition pos := (Z * Z)%type.

Definition color_eqb (a b : color) : bool :=
  match a, b with White, White | Black, Black => true | _, _ => false end.

Definition kind_eqb (a b : kind) : bool :=
  match a, b with
  | Queen, Queen | Rook, Rook | Bishop, Bishop | Knight, Knight | Pawn, Pawn | King, King => true
  | _, _ => false
  end.

Definition piece_eqb (a b : piece) : bool := kind_eqb (pk a) (pk b) && color_eqb (po a) (po b).

Definition opiece_eqb (a b : option piece) : bool :=
  match a, b with
  | None, None => true
  | Some x, Some y => piece_eqb x y
  | _, _ => false
  end.

Definition pos_eqb (a b : pos) : bool := (Z.eqb (fst a) (fst b) && Z.eqb (snd a) (snd b))%bool.

Definition other (c : color) : color := match c with White => Black | Black => White end.

Definition all_kinds : list kind := [Queen; Rook; Bishop; Knight; Pawn; King].
Definition all_colors : list color := [White; Black].

Lemma color_eqb_eq a b : color_eqb a b = true <-> a = b.
Proof. destruct a, b; simpl; split; congruence. Qed.

Lemma kind_eqb_eq a b : kind_eqb a b = true <-> a = b.
Proof. destruct a, b; simpl; split; congruence. Qed.

Lemma piece_eqb_eq a b : piece_eqb a b = true <-> a = b.
Proof.
  destruct a as [k c], b as [k' c']; unfold piece_eqb; simpl.
  rewrite andb_true_iff, kind_eqb_eq, color_eqb_eq. split.
  - intros [-> ->]; reflexivity.
  - intros H; inversion H; auto.
Qed.

Lemma opiece_eqb_eq a b : opiece_eqb a b = true <-> a = b.
Proof.
  destruct a, b; simpl; try (split; congruence).
  rewrite piece_eqb_eq. split; congruence.
Qed.

Lemma pos_eqb_eq a b : pos_eqb a b = true <-> a = b.
Proof.
  destruct a, b; unfold pos_eqb; simpl.
  rewrite andb_true_iff, !Z.eqb_eq. split.
  - intros [-> ->]; reflexivity.
  - intros H; inversion H; auto.
Qed.

Lemma color_eqb_refl a : color_eqb a a = true.
Proof. destruct a; reflexivity. Qed.
Lemma kind_eqb_refl a : kind_eqb a a = true.
Proof. destruct a; reflexivity. Qed.
Lemma piece_eqb_refl a : piece_eqb a a = true.
Proof. apply piece_eqb_eq; reflexivity. Qed.
Lemma pos_eqb_refl a : pos_eqb a a = true.
Proof. apply pos_eqb_eq; reflexivity. Qed.
