(* The incrementally maintained hash and score of the engine model agree with the independent
   specifications: g_hash = HashSpec.H (abs g), g_score = wrap16 (EvalSpec.eval ..), and the
   evaluation is antisymmetric under the colour mirror.

   Facts about the generated tables (Gen/Keys.v, Gen/Tables.v) are closed boolean sweeps proved by
   vm_compute, so they are re-checked whenever the tables are regenerated. *)
From Coq Require Import Lia Permutation.
From Chess Require Import Model.Text Proofs.Grid Proofs.Inv Proofs.Abs.
From Chess Require Import Spec.Rules Spec.HashSpec Spec.EvalSpec.
Open Scope Z_scope.

(* ---- the finite domains ------------------------------------------------------------------------ *)

Definition all_pieces : list piece :=
  flat_map (fun k => map (fun c => mkPiece k c) all_colors) all_kinds.

Lemma all_pieces_complete pc : In pc all_pieces.
Proof. destruct pc as [k c]. destruct k, c; unfold all_pieces; simpl; tauto. Qed.

Definition all_bools : list bool := [false; true].

Lemma all_bools_complete b : In b all_bools.
Proof. destruct b; simpl; tauto. Qed.

Definition all_eps : list Z := [0; 1; 2; 3; 4; 5; 6; 7; 8].

Definition all_states : list gstate :=
  flat_map (fun e =>
    flat_map (fun a =>
      flat_map (fun b =>
        flat_map (fun c =>
          map (fun d => mkState e a b c d) all_bools) all_bools) all_bools) all_bools) all_eps.

Lemma all_states_complete s : state_ok s -> In s all_states.
Proof.
  unfold state_ok. destruct s as [e a b c d]. cbn [st_ep]. intros He.
  unfold all_states. apply in_flat_map. exists e. split.
  { assert (e = 0 \/ e = 1 \/ e = 2 \/ e = 3 \/ e = 4 \/ e = 5 \/ e = 6 \/ e = 7 \/ e = 8) as Hd by lia.
    unfold all_eps. repeat (destruct Hd as [->|Hd]; [simpl; tauto|]). subst e. simpl. tauto. }
  apply in_flat_map. exists a. split; [apply all_bools_complete|].
  apply in_flat_map. exists b. split; [apply all_bools_complete|].
  apply in_flat_map. exists c. split; [apply all_bools_complete|].
  apply in_map. apply all_bools_complete.
Qed.

(* the two copies of the basic definitions coincide *)
Lemma squares64_squares : squares64 = squares.
Proof. reflexivity. Qed.

Lemma bget_at b p : bget b p = at_ b p.
Proof. reflexivity. Qed.

Lemma xors_same l : Inv.xors l = HashSpec.xors l.
Proof. reflexivity. Qed.

(* ---- hash: sweeps over the key tables ---------------------------------------------------------- *)

Definition key_piece_sweep : bool :=
  forallb (fun p =>
    forallb (fun pc => N.eqb (key_piece p pc) (spec_square_key p (Some pc))) all_pieces) squares64.

Lemma key_piece_sweep_ok : key_piece_sweep = true.
Proof. vm_compute. reflexivity. Qed.

Lemma key_piece_spec p pc : valid p -> key_piece p pc = spec_square_key p (Some pc).
Proof.
  intros Hv. pose proof key_piece_sweep_ok as H. unfold key_piece_sweep in H.
  rewrite forallb_forall in H. specialize (H p (proj2 (squares64_valid p) Hv)).
  rewrite forallb_forall in H. specialize (H pc (all_pieces_complete pc)).
  now apply N.eqb_eq in H.
Qed.

Lemma key_place_spec p o : valid p -> key_place p o = spec_square_key p o.
Proof.
  intros Hv. destruct o as [pc|].
  - unfold key_place. now apply key_piece_spec.
  - reflexivity.
Qed.

Definition spec_state_key (s : gstate) : N :=
  nth (Z.to_nat (spec_state_byte (abs_rights s) (abs_ep s))) KEYS_STATE 0%N.

Definition key_state_sweep : bool :=
  forallb (fun s => N.eqb (key_state (state_byte s)) (spec_state_key s)) all_states.

Lemma key_state_sweep_ok : key_state_sweep = true.
Proof. vm_compute. reflexivity. Qed.

Lemma key_state_spec s : state_ok s -> key_state (state_byte s) = spec_state_key s.
Proof.
  intros Hs. pose proof key_state_sweep_ok as H. unfold key_state_sweep in H.
  rewrite forallb_forall in H. specialize (H s (all_states_complete s Hs)).
  now apply N.eqb_eq in H.
Qed.

(* the packed byte itself agrees with the specification's byte *)
Definition state_byte_sweep : bool :=
  forallb (fun s => Z.eqb (state_byte s) (spec_state_byte (abs_rights s) (abs_ep s))) all_states.

Lemma state_byte_sweep_ok : state_byte_sweep = true.
Proof. vm_compute. reflexivity. Qed.

Lemma state_byte_spec s : state_ok s -> state_byte s = spec_state_byte (abs_rights s) (abs_ep s).
Proof.
  intros Hs. pose proof state_byte_sweep_ok as H. unfold state_byte_sweep in H.
  rewrite forallb_forall in H. specialize (H s (all_states_complete s Hs)).
  now apply Z.eqb_eq in H.
Qed.

Lemma board_hash_spec b :
  board_hash b = HashSpec.xors (map (fun s => spec_square_key s (at_ b s)) squares).
Proof.
  unfold board_hash, xor_all. rewrite xors_same, <- squares64_squares. f_equal.
  apply map_ext_in. intros p Hp. rewrite bget_at. apply key_place_spec. now apply squares64_valid.
Qed.

Lemma H_abs g :
  H (abs g) = N.lxor (N.lxor (HashSpec.xors (map (fun s => spec_square_key s (at_ (g_board g) s)) squares))
                             (side_key (g_player g)))
                     (spec_state_key (gstate_of g)).
Proof. reflexivity. Qed.

(* 1. the maintained hash is the published hash of the abstract position *)
Theorem hash_is_H : forall g, CacheInv g -> state_ok (gstate_of g) -> g_hash g = H (abs g).
Proof.
  intros g Hc Hs. rewrite H_abs, (ci_hash g Hc), board_hash_spec, (key_state_spec _ Hs). reflexivity.
Qed.
Print Assumptions hash_is_H.

(* 2. transposition: the hash depends on the abstract position only *)
Theorem hash_depends_on_position_only : forall g1 g2,
  CacheInv g1 -> CacheInv g2 -> state_ok (gstate_of g1) -> state_ok (gstate_of g2) ->
  abs g1 = abs g2 -> g_hash g1 = g_hash g2.
Proof.
  intros g1 g2 H1 H2 S1 S2 E. rewrite (hash_is_H g1 H1 S1), (hash_is_H g2 H2 S2), E. reflexivity.
Qed.
Print Assumptions hash_depends_on_position_only.

(* ---- score: sweep over the piece-square tables -------------------------------------------------- *)

Definition piece_score_sweep : bool :=
  forallb (fun e =>
    forallb (fun p =>
      forallb (fun pc => Z.eqb (piece_score e pc p) (spec_value e pc p)) all_pieces) squares64) all_bools.

Lemma piece_score_sweep_ok : piece_score_sweep = true.
Proof. vm_compute. reflexivity. Qed.

Lemma piece_score_spec e pc p : valid p -> piece_score e pc p = spec_value e pc p.
Proof.
  intros Hv. pose proof piece_score_sweep_ok as H. unfold piece_score_sweep in H.
  rewrite forallb_forall in H. specialize (H e (all_bools_complete e)).
  rewrite forallb_forall in H. specialize (H p (proj2 (squares64_valid p) Hv)).
  rewrite forallb_forall in H. specialize (H pc (all_pieces_complete pc)).
  now apply Z.eqb_eq in H.
Qed.

(* the value of one cell under an arbitrary piece valuation *)
Definition cellv (v : piece -> pos -> Z) (o : option piece) (p : pos) : Z :=
  match o with Some pc => v pc p | None => 0 end.

(* the two fold shapes: accumulate-with-match from the left = sum of cell values from the right *)
Lemma fold_cells (v : piece -> pos -> Z) (b : grid (option piece)) l acc :
  fold_left (fun a s => match at_ b s with Some pc => a + v pc s | None => a end) l acc
  = acc + fold_right Z.add 0 (map (fun s => cellv v (at_ b s) s) l).
Proof.
  revert acc. induction l as [|x t IH]; intros acc; cbn [fold_left map fold_right].
  - lia.
  - rewrite IH. unfold cellv at 2. destruct (at_ b x); lia.
Qed.

Lemma eval_sum e b : eval e b = sum_all (fun p => cellv (spec_value e) (at_ b p) p).
Proof. unfold eval, sum_all. rewrite fold_cells, squares64_squares. lia. Qed.

Lemma spec_total_sum e b :
  spec_total e b = sum_all (fun p => cellv (fun pc s => Z.abs (spec_value e pc s)) (at_ b p) p).
Proof.
  unfold spec_total, sum_all.
  rewrite (fold_cells (fun pc s => Z.abs (spec_value e pc s))), squares64_squares. lia.
Qed.

Lemma cell_score_spec e o p : valid p -> cell_score e o p = cellv (spec_value e) o p.
Proof. intros Hv. destruct o as [pc|]; [|reflexivity]. cbn [cell_score cellv]. now apply piece_score_spec. Qed.

(* the model's board sum is the specification's evaluation, for every board *)
Lemma board_sum_eval e b : board_sum e b = eval e b.
Proof.
  rewrite eval_sum. unfold board_sum. apply sum_all_ext. intros p Hv.
  rewrite bget_at. now apply cell_score_spec.
Qed.

(* 3. the maintained score is the evaluation, reduced to i16 *)
Theorem score_is_eval : forall g, CacheInv g -> g_score g = wrap16 (eval (g_kend g) (g_board g)).
Proof.
  intros g Hc. apply cong16_eq.
  - apply (ci_score_rng g Hc).
  - apply wrap16_range.
  - rewrite wrap16_mod, (ci_score g Hc), board_sum_eval. reflexivity.
Qed.
Print Assumptions score_is_eval.

(* 5. no wrap-around when the evaluation fits in an i16 *)
Theorem score_no_wrap : forall g, CacheInv g ->
  in_i16 (eval (g_kend g) (g_board g)) -> g_score g = eval (g_kend g) (g_board g).
Proof. intros g Hc Hr. rewrite (score_is_eval g Hc). now apply wrap16_id. Qed.
Print Assumptions score_no_wrap.

(* ---- the colour mirror -------------------------------------------------------------------------- *)

Definition flip (p : pos) : pos := (7 - fst p, snd p).

Lemma flip_valid p : valid p -> valid (flip p).
Proof. unfold valid, flip. cbn [fst snd]. lia. Qed.

Lemma flip_flip p : flip (flip p) = p.
Proof. destruct p as [r c]. unfold flip. cbn [fst snd]. f_equal. lia. Qed.

Lemma znth_map {A B} (f : A -> B) (l : list A) i d : znth (map f l) i (f d) = f (znth l i d).
Proof.
  revert i. induction l as [|x t IH]; intros i; cbn [map znth]; [reflexivity|].
  destruct (i =? 0); [reflexivity | apply IH].
Qed.

Lemma znth_rev {A} (l : list A) i d :
  0 <= i < Z.of_nat (length l) -> znth (rev l) i d = znth l (Z.of_nat (length l) - 1 - i) d.
Proof.
  intros Hi. rewrite !znth_nth by lia. rewrite rev_nth by lia. f_equal. lia.
Qed.

Lemma at_mirror b p :
  length b = 8%nat -> 0 <= fst p < 8 -> at_ (mirror_board b) p = mirror_piece (at_ b (flip p)).
Proof.
  intros Hl Hr. unfold at_, grid_get, mirror_board, flip. cbn [fst snd].
  rewrite znth_rev by (rewrite map_length, Hl; lia).
  rewrite map_length, Hl.
  change (@nil (option piece)) with (map mirror_piece []) at 1. rewrite znth_map.
  change (@None piece) with (mirror_piece None) at 1. rewrite znth_map.
  replace (Z.of_nat 8 - 1 - fst p) with (7 - fst p) by lia. reflexivity.
Qed.

Lemma at_mirror_rc b r c :
  wf_grid b -> valid (r, c) -> at_ (mirror_board b) (r, c) = mirror_piece (at_ b (7 - r, c)).
Proof. intros [Hl _] [Hr _]. apply (at_mirror b (r, c) Hl Hr). Qed.

Lemma mirror_board_wf b : wf_grid b -> wf_grid (mirror_board b).
Proof.
  intros [Hl Hr]. unfold mirror_board. split.
  - now rewrite rev_length, map_length.
  - apply Forall_rev. apply Forall_map. rewrite Forall_forall in *. intros r Hin.
    rewrite map_length. now apply Hr.
Qed.

Definition mirror_pc (pc : piece) : piece := mkPiece (pk pc) (other (po pc)).

Lemma mirror_piece_some pc : mirror_piece (Some pc) = Some (mirror_pc pc).
Proof. reflexivity. Qed.

Definition mirror_value_sweep : bool :=
  forallb (fun e =>
    forallb (fun p =>
      forallb (fun pc => Z.eqb (spec_value e (mirror_pc pc) (flip p)) (- spec_value e pc p))
              all_pieces) squares64) all_bools.

Lemma mirror_value_sweep_ok : mirror_value_sweep = true.
Proof. vm_compute. reflexivity. Qed.

Lemma spec_value_mirror e pc p :
  valid p -> spec_value e (mirror_pc pc) (flip p) = - spec_value e pc p.
Proof.
  intros Hv. pose proof mirror_value_sweep_ok as H. unfold mirror_value_sweep in H.
  rewrite forallb_forall in H. specialize (H e (all_bools_complete e)).
  rewrite forallb_forall in H. specialize (H p (proj2 (squares64_valid p) Hv)).
  rewrite forallb_forall in H. specialize (H pc (all_pieces_complete pc)).
  now apply Z.eqb_eq in H.
Qed.

Lemma spec_value_mirror_rc e pc r c :
  valid (r, c) -> spec_value e (mkPiece (pk pc) (other (po pc))) (7 - r, c) = - spec_value e pc (r, c).
Proof. intros Hv. apply (spec_value_mirror e pc (r, c) Hv). Qed.

(* the rank flip permutes the 64 squares, so sums over all squares can be re-indexed *)
Lemma flip_perm : Permutation (map flip squares64) squares64.
Proof.
  apply NoDup_Permutation.
  - apply nodup_pos_sound. vm_compute. reflexivity.
  - apply squares64_nodup.
  - intros p. rewrite squares64_valid, in_map_iff. split.
    + intros (q & <- & Hq). apply flip_valid. now apply squares64_valid.
    + intros Hv. exists (flip p). split; [apply flip_flip|].
      apply squares64_valid. now apply flip_valid.
Qed.

Lemma sum_perm l1 l2 : Permutation l1 l2 -> fold_right Z.add 0 l1 = fold_right Z.add 0 l2.
Proof. induction 1; cbn [fold_right]; lia. Qed.

Lemma sum_all_flip f : sum_all (fun p => f (flip p)) = sum_all f.
Proof.
  unfold sum_all. rewrite <- (map_map flip f). apply sum_perm. apply Permutation_map. apply flip_perm.
Qed.

Lemma sum_all_opp f : sum_all (fun p => - f p) = - sum_all f.
Proof.
  unfold sum_all. induction squares64 as [|x t IH]; cbn [map fold_right]; [reflexivity|]. rewrite IH. lia.
Qed.

(* re-indexing a cell sum over the mirrored board *)
Lemma sum_mirror (v w : piece -> pos -> Z) b :
  wf_grid b ->
  (forall pc p, valid p -> v (mirror_pc pc) (flip p) = w pc p) ->
  sum_all (fun p => cellv v (at_ (mirror_board b) p) p) = sum_all (fun p => cellv w (at_ b p) p).
Proof.
  intros [Hl _] Hvw.
  rewrite <- (sum_all_flip (fun p => cellv w (at_ b p) p)).
  apply sum_all_ext. intros p Hv.
  rewrite (at_mirror b p Hl (proj1 Hv)).
  destruct (at_ b (flip p)) as [pc|]; [|reflexivity].
  rewrite mirror_piece_some. cbn [cellv].
  rewrite <- (Hvw pc (flip p) (flip_valid p Hv)). now rewrite flip_flip.
Qed.

(* 4a. the evaluation changes sign under the colour mirror, with either king table *)
Theorem eval_mirror : forall e b, wf_grid b -> eval e (mirror_board b) = - eval e b.
Proof.
  intros e b Hwf. rewrite !eval_sum.
  rewrite (sum_mirror (spec_value e) (fun pc p => - spec_value e pc p) b Hwf).
  - rewrite <- sum_all_opp. apply sum_all_ext. intros p _. destruct (at_ b p); reflexivity.
  - intros pc p Hv. now apply spec_value_mirror.
Qed.
Print Assumptions eval_mirror.

Lemma spec_total_mirror e b : wf_grid b -> spec_total e (mirror_board b) = spec_total e b.
Proof.
  intros Hwf. rewrite !spec_total_sum. apply (sum_mirror _ _ b Hwf).
  intros pc p Hv. rewrite (spec_value_mirror e pc p Hv). apply Z.abs_opp.
Qed.

(* 4b. the phase test does not see the colour mirror *)
Theorem spec_is_endgame_mirror : forall b, wf_grid b -> spec_is_endgame (mirror_board b) = spec_is_endgame b.
Proof. intros b Hwf. unfold spec_is_endgame. now rewrite spec_total_mirror. Qed.
Print Assumptions spec_is_endgame_mirror.

(* the mirror is an involution on well-formed boards *)
Lemma mirror_piece_invol o : mirror_piece (mirror_piece o) = o.
Proof. destruct o as [[k c]|]; [|reflexivity]. destruct c; reflexivity. Qed.

Theorem mirror_board_invol : forall b, wf_grid b -> mirror_board (mirror_board b) = b.
Proof.
  intros b Hwf. apply (grid_ext _ _ None).
  - now apply mirror_board_wf, mirror_board_wf.
  - assumption.
  - intros p Hv. change (at_ (mirror_board (mirror_board b)) p = at_ b p).
    rewrite (at_mirror _ p (proj1 (mirror_board_wf b Hwf)) (proj1 Hv)).
    rewrite (at_mirror b (flip p) (proj1 Hwf) (proj1 (flip_valid p Hv))).
    now rewrite mirror_piece_invol, flip_flip.
Qed.
Print Assumptions mirror_board_invol.

(* the maintained score of a game and of a game on the mirrored board are opposite (mod 2^16) *)
Corollary score_mirror_games : forall g1 g2,
  CacheInv g1 -> CacheInv g2 -> g_kend g1 = g_kend g2 -> g_board g2 = mirror_board (g_board g1) ->
  in_i16 (eval (g_kend g1) (g_board g1)) -> in_i16 (- eval (g_kend g1) (g_board g1)) ->
  g_score g2 = - g_score g1.
Proof.
  intros g1 g2 H1 H2 Ek Eb R1 R2.
  rewrite (score_no_wrap g1 H1 R1).
  rewrite (score_is_eval g2 H2), <- Ek, Eb, (eval_mirror _ _ (ci_board g1 H1)).
  now apply wrap16_id.
Qed.
Print Assumptions score_mirror_games.
