(* C01, the main theorem: the checked move list of the engine model is exactly the set of
   FIDE-legal moves, the unchecked list is the legal moves plus pseudo-legal moves whose only
   fault is that they leave the mover's king attacked.

   Part 1: the legal-play invariant [LegalInv] (representation invariant, both kings on their
     cached squares, the side to move has its king, the side NOT to move is not attacked);
     it holds for every sane imported position and is kept by every checked move, hence it
     holds for every [legal_reachable] game.
   Part 2: for [LegalInv g] and at most MOVE_BUFFER_CAP generated moves:
     checked_sound / checked_complete / C01_checked_exact / C01_checked_nodup /
     C01_unchecked_superset, and C01_reachable for every game reachable by legal play. *)
From Coq Require Import Lia ZifyBool Permutation.
From Chess Require Import Model.Text Spec.Rules Spec.FenSpec Spec.Notation
  Proofs.Grid Proofs.Inv Proofs.Abs Proofs.GenOk Proofs.PushPop Proofs.PushPop2
  Proofs.FenImport1 Proofs.FenImport2 Proofs.Reach Proofs.AttackSpec Proofs.Shortcut
  Proofs.PushApply Proofs.PushApplyGen Proofs.TextProofs Proofs.TextGen
  Proofs.GenSound Proofs.GenComplete Proofs.GenComplete2.
Open Scope Z_scope.

(* ================================================================================================ *)
(* Part 1: the legal-play invariant                                                                  *)
(* ================================================================================================ *)

(* the side that is NOT to move is not attacked *)
Definition NotInCheck (g : game) : Prop :=
  is_targeted g (king_pos g (other (g_player g))) (other (g_player g)) = false.

Definition LegalInv (g : game) : Prop :=
  Good g /\ king_exists g (g_player g) = true /\ NotInCheck g.

Lemma LegalInv_good g : LegalInv g -> Good g.
Proof. intros H; apply H. Qed.
Lemma LegalInv_repinv g : LegalInv g -> RepInv g.
Proof. intros H; apply H. Qed.
Lemma LegalInv_kingsinv g : LegalInv g -> KingsInv g.
Proof. intros H; apply H. Qed.

Lemma LegalInv_kings g : LegalInv g -> king_exists g White = true /\ king_exists g Black = true.
Proof.
  intros ((_ & _ & K2) & K1 & _). destruct (g_player g); cbn [other] in K2; auto.
Qed.

Lemma king_pos_valid g c : RepInv g -> valid (king_pos g c).
Proof. intros [_ HR]. destruct c; [apply (ri_wking g HR) | apply (ri_bking g HR)]. Qed.

(* ---- the rules' [in_check] is the engine's attack test on the cached king square ----------------- *)

Lemma in_check_board p c :
  in_check p c = match king_square (p_board p) c with
                 | Some k => attacked (p_board p) k (other c) | None => false end.
Proof. reflexivity. Qed.

Lemma in_check_targeted g c :
  RepInv g -> bget (g_board g) (king_pos g c) = Some (mkPiece King c) ->
  in_check (abs g) c = is_targeted g (king_pos g c) c.
Proof.
  intros HR Hk. pose proof (king_pos_valid g c HR) as Hv. destruct HR as [_ HRu].
  rewrite in_check_board. cbn [abs p_board].
  rewrite (king_square_at (g_board g) c (king_pos g c) Hv Hk).
  - symmetry. now apply is_targeted_is_attacked.
  - intros q Hq Hkq. symmetry. apply (ri_kings g HRu q c Hq Hkq).
Qed.

Lemma kingsinv_king g c : KingsInv g -> king_exists g c = true ->
  bget (g_board g) (king_pos g c) = Some (mkPiece King c).
Proof. intros [K1 _]. apply K1. Qed.

Lemma in_check_other g :
  Good g -> in_check (abs g) (other (g_player g)) = is_targeted g (king_pos g (other (g_player g))) (other (g_player g)).
Proof.
  intros [HR HK]. apply in_check_targeted; [exact HR|].
  apply kingsinv_king; [exact HK | apply HK].
Qed.

(* ---- (a) a sane imported position ------------------------------------------------------------------ *)

Theorem import_legalinv : forall s g, import s = Ok g -> sane (abs g) = true -> LegalInv g.
Proof.
  intros s g Hi Hs. pose proof (import_good s g Hi Hs) as HG.
  split; [exact HG|]. split.
  - destruct (import_rule_easy s g Hi) as (_ & _ & _ & _ & _ & _ & Hw & Hb).
    rewrite king_exists_eq. destruct (g_player g); cbn [king_pos]; [rewrite Hw | rewrite Hb]; reflexivity.
  - unfold NotInCheck. rewrite <- (in_check_other g HG).
    exact (sane_other_not_in_check (abs g) Hs).
Qed.
Print Assumptions import_legalinv.

(* ---- (b) one checked move --------------------------------------------------------------------------- *)

(* the filter's test, on the board and king squares of the pushed game *)
Lemma push_kings_eq g m c : king_pos (push g m) c = king_pos (push_game g m) c.
Proof. now rewrite push_eq, pf_kings. Qed.

Lemma legal_after_eq g m :
  legal_after g m
  = negb (board_targeted (PushPop.push_board (g_board g) m) (king_pos (push_game g m) (g_player g)) (g_player g)).
Proof.
  unfold legal_after. cbv zeta. unfold is_targeted. now rewrite push_board_eq, push_kings_eq.
Qed.

Lemma pg_kings_core g g' m c : same_core g g' -> king_pos (push_game g' m) c = king_pos (push_game g m) c.
Proof.
  intros (_ & Hp & _ & Hk). rewrite !pg_kings, Hp.
  destruct m; rewrite ?Hk; reflexivity.
Qed.

Lemma legal_after_core g g' m : same_core g g' -> legal_after g' m = legal_after g m.
Proof.
  intros HC. rewrite !legal_after_eq, (pg_kings_core g g' m _ HC).
  destruct HC as (-> & -> & _). reflexivity.
Qed.

(* no generated capture of a king *)
Definition no_king_capture (m : Move) : Prop := forall s e c, captures_on m s e c -> pk c <> King.

(* the king of the side not to move stays where it is when the move does not capture it *)
Lemma push_opp_king_stays g m :
  RepInv g -> gen_ok g m -> no_king_capture m ->
  let O := other (g_player g) in
  bget (g_board g) (king_pos g O) = Some (mkPiece King O) ->
  bget (PushPop.push_board (g_board g) m) (king_pos (push_game g m) O) = Some (mkPiece King O).
Proof.
  intros [C R] G NK O K. pose proof (ci_board _ C) as Hwf. rewrite pg_kings.
  assert (EC : color_eqb (g_player g) O = false) by (apply color_eqb_false, not_eq_sym, PushPop.other_neq).
  assert (HOP : O <> g_player g) by apply PushPop.other_neq.
  set (k := king_pos g O) in *.
  destruct m as [pc s e cap | o np s e cap | o | o | o sc ec]; cbn [gen_ok PushPop.push_board] in *.
  - destruct G as (Vs & Ve & Hse & Hs & He & Hpo & Hcap).
    rewrite EC, andb_false_r. rewrite !bget_bset by (try wf_tac; assumption).
    destruct (pos_eqb e k) eqn:E1; [apply pos_eqb_eq in E1 | apply PushPop.pos_eqb_neq in E1].
    + exfalso. subst e. apply (NK s k (mkPiece King O)); [|reflexivity].
      left. exists pc. congruence.
    + destruct (pos_eqb s k) eqn:E2; [apply pos_eqb_eq in E2 | apply PushPop.pos_eqb_neq in E2].
      * exfalso. subst s. assert (pc = mkPiece King O) by congruence. subst pc. now apply HOP.
      * exact K.
  - destruct G as (Ho & Hpk & Vs & Ve & Hse & _ & Hs & He & Hcap).
    rewrite !bget_bset by (try wf_tac; assumption).
    destruct (pos_eqb e k) eqn:E1; [apply pos_eqb_eq in E1 | apply PushPop.pos_eqb_neq in E1].
    + exfalso. subst e. apply (NK s k (mkPiece King O)); [|reflexivity].
      right. exists o, np. congruence.
    + destruct (pos_eqb s k) eqn:E2; [apply pos_eqb_eq in E2 | apply PushPop.pos_eqb_neq in E2].
      * exfalso. subst s. congruence.
      * exact K.
  - destruct G as (Ho & Hk & H4 & H7 & H5 & H6). subst o. rewrite EC.
    rewrite !bget_bset by (try wf_tac; apply home_row_valid; lia).
    repeat match goal with
           | |- context [pos_eqb ?a ?b] =>
               let E := fresh "E" in
               destruct (pos_eqb a b) eqn:E; [apply pos_eqb_eq in E | apply PushPop.pos_eqb_neq in E]
           end; congruence.
  - destruct G as (Ho & Hk & H4 & H0 & H1 & H2 & H3). subst o. rewrite EC.
    rewrite !bget_bset by (try wf_tac; apply home_row_valid; lia).
    repeat match goal with
           | |- context [pos_eqb ?a ?b] =>
               let E := fresh "E" in
               destruct (pos_eqb a b) eqn:E; [apply pos_eqb_eq in E | apply PushPop.pos_eqb_neq in E]
           end; congruence.
  - destruct G as (Ho & Vs & Ve & Habs & _ & Hs & He & Hn).
    rewrite !bget_bset by (try wf_tac; apply ep_rows_valid; assumption).
    repeat match goal with
           | |- context [pos_eqb ?a ?b] =>
               let E := fresh "E" in
               destruct (pos_eqb a b) eqn:E; [apply pos_eqb_eq in E | apply PushPop.pos_eqb_neq in E]
           end; try congruence; exact K.
Qed.

(* the step in the form that survives a change of the caches: everything it needs from the move *)
Lemma legalinv_push_gen g m :
  LegalInv g -> gen_ok g m -> gen_ok_x g m -> no_king_capture m -> legal_after g m = true ->
  LegalInv (push g m).
Proof.
  intros ((HR & HK) & KP & NC) G X NK LA.
  assert (HG' : Good (push g m)).
  { split; [now apply push_repinv | now apply push_kingsinv]. }
  split; [exact HG'|]. split.
  - rewrite push_player, push_king_exists.
    pose proof (push_opp_king_stays g m HR G NK) as HO. cbv zeta in HO.
    rewrite HO; [reflexivity|].
    apply kingsinv_king; [exact HK | apply HK].
  - unfold NotInCheck. rewrite push_player, PushPop.other_other.
    unfold legal_after in LA. cbv zeta in LA. now apply negb_true_iff in LA.
Qed.

(* a checked move does not capture a king: the side not to move is not attacked *)
Lemma checked_no_king_capture g m :
  RepInv g -> NotInCheck g -> In m (pseudo_moves_all g) -> no_king_capture m.
Proof.
  intros HR NC Hin s e c Hcap Hk.
  destruct (king_capture_targeted g m s e c HR Hin Hcap Hk) as (Hpo & _ & Ht).
  rewrite Hpo in Ht. unfold NotInCheck in NC. congruence.
Qed.

Lemma not_aligned_self s : not_aligned s s = false.
Proof. unfold not_aligned. rewrite Z.sub_diag. reflexivity. Qed.

(* the filter's verdict: after a checked move the mover's king is not attacked *)
Lemma checked_legal_after g m : RepInv g -> In m (checked_moves g) -> legal_after g m = true.
Proof.
  intros HR Hin. destruct (checked_legal g m Hin) as [Hs | Hl]; [|exact Hl].
  pose proof (gen_ok_checked g m HR Hin) as G.
  pose proof (checked_in_all g m Hin) as Hall.
  destruct m as [pc s e cap | | | |]; try (unfold shortcut in Hs; rewrite andb_false_r in Hs; discriminate).
  cbn [gen_ok] in G. destruct G as (Vs & Ve & _ & _ & _ & Hpo & _).
  apply shortcut_legal_after; try assumption.
  - apply (ci_board g (proj1 HR)).
  - now apply king_pos_valid.
  - intros Hk. destruct (gen_king_from g pc s e cap HR Hall Hk) as (E & _).
    unfold shortcut in Hs. rewrite E, not_aligned_self, andb_false_r in Hs. discriminate.
Qed.

Theorem legalinv_push : forall g m, LegalInv g -> In m (checked_moves g) -> LegalInv (push g m).
Proof.
  intros g m HL Hin. pose proof (LegalInv_repinv g HL) as HR.
  apply legalinv_push_gen; try assumption.
  - now apply gen_ok_checked.
  - now apply gen_ok_x_checked.
  - apply (checked_no_king_capture g m HR); [apply HL | now apply checked_in_all].
  - now apply checked_legal_after.
Qed.
Print Assumptions legalinv_push.

Lemma LegalInv_core g g' : same_core g g' -> RepInv g' -> LegalInv g -> LegalInv g'.
Proof.
  intros HC HR' ((HR & HK) & KP & NC). split; [split; [exact HR' | now apply (KingsInv_core g)]|].
  pose proof (same_core_king_exists g g') as HKE.
  destruct HC as (Hb & Hp & Hs & Hk). split.
  - rewrite HKE by (repeat split; assumption). now rewrite Hp.
  - unfold NotInCheck, is_targeted in *. now rewrite Hb, Hp, Hk.
Qed.

Theorem legalinv_push_history : forall g m,
  LegalInv g -> In m (checked_moves g) -> LegalInv (push_history g m).
Proof.
  intros g m HL Hin. pose proof (LegalInv_repinv g HL) as HR.
  unfold push_history. pose proof (push_history_core g m) as HC.
  set (g' := update_phase (with_moves g (m :: g_moves g))) in *.
  assert (HR' : RepInv g') by (apply update_phase_repinv, with_moves_repinv, HR).
  apply legalinv_push_gen.
  - now apply (LegalInv_core g).
  - apply (gen_ok_core g); [exact HC | now apply gen_ok_checked].
  - apply (gen_ok_x_core g); [exact HC | now apply gen_ok_x_checked].
  - apply (checked_no_king_capture g m HR); [apply HL | now apply checked_in_all].
  - rewrite (legal_after_core g g' m HC). now apply checked_legal_after.
Qed.
Print Assumptions legalinv_push_history.

(* ---- (c) every game reachable by legal play --------------------------------------------------------- *)

Theorem legal_reachable_legalinv : forall g, legal_reachable g -> LegalInv g.
Proof.
  induction 1 as [s g Hi Hs | g m _ IH Hin];
    [exact (import_legalinv s g Hi Hs) | exact (legalinv_push_history g m IH Hin)].
Qed.
Print Assumptions legal_reachable_legalinv.

Corollary legal_reachable_kings : forall g,
  legal_reachable g -> king_exists g White = true /\ king_exists g Black = true.
Proof. intros g H. apply LegalInv_kings. now apply legal_reachable_legalinv. Qed.
Print Assumptions legal_reachable_kings.

(* ================================================================================================ *)
(* Part 2: the checked list is exactly the set of legal moves                                        *)
(* ================================================================================================ *)

(* the no-truncation condition: the generated moves fit into the move buffer *)
Definition Fits (g : game) : Prop := (length (pseudo_moves_all g) <= Z.to_nat MOVE_BUFFER_CAP)%nat.

(* for a generated move, "the mover is in check afterwards" (rules) is the complement of the
   filter's test (engine) *)
Lemma in_check_after g m :
  LegalInv g -> In m (pseudo_moves g) ->
  in_check (Rules.apply (abs g) (abs_move m)) (g_player g) = negb (legal_after g m).
Proof.
  intros HL Hin. destruct (LegalInv_kings g HL) as [KW KB].
  pose proof (LegalInv_good g HL) as HG.
  rewrite <- (push_is_apply_pseudo g m (proj1 HG) KW KB Hin).
  destruct (good_push g m HG Hin) as [HR' HK'].
  rewrite (in_check_targeted (push g m) (g_player g) HR').
  - unfold legal_after. cbv zeta. now rewrite negb_involutive.
  - apply kingsinv_king; [exact HK'|]. destruct HK' as [_ K2].
    rewrite push_player, PushPop.other_other in K2. exact K2.
Qed.

(* ---- 2a: every checked move is legal ------------------------------------------------------------------ *)

Theorem checked_sound : forall g m,
  LegalInv g -> In m (checked_moves g) -> legal (abs g) (abs_move m) = true.
Proof.
  intros g m HL Hin. pose proof (LegalInv_repinv g HL) as HR. unfold legal.
  rewrite (gen_sound_checked g m HR Hin). cbn [andb abs p_turn]. fold (abs g).
  rewrite (in_check_after g m HL (checked_in_pseudo g m Hin)), (checked_legal_after g m HR Hin).
  reflexivity.
Qed.
Print Assumptions checked_sound.

(* ---- 2b: every legal move is in the checked list ---------------------------------------------------- *)

Lemma checked_intro g m :
  king_exists g (g_player g) = true -> In m (pseudo_moves g) -> legal_after g m = true ->
  In m (checked_moves g).
Proof.
  intros KP Hin Hl. unfold checked_moves. rewrite KP. cbv zeta. apply filter_In.
  split; [exact Hin|]. rewrite Hl. apply orb_true_r.
Qed.

Theorem checked_complete : forall g sm,
  LegalInv g -> Fits g -> legal (abs g) sm = true ->
  exists m, In m (checked_moves g) /\ abs_move m = sm.
Proof.
  intros g sm HL HF Hl. pose proof HL as ((HR & HK) & KP & NC).
  assert (Hnc : in_check (abs g) (other (g_player g)) = false).
  { rewrite (in_check_other g (conj HR HK)). exact NC. }
  destruct (gen_complete_legal_pseudo g sm HR HK KP HF Hnc Hl) as (m & Hin & E).
  exists m. split; [|exact E]. apply checked_intro; try assumption.
  subst sm. unfold legal in Hl. apply andb_true_iff in Hl. destruct Hl as [_ Hl].
  cbn [abs p_turn] in Hl. fold (abs g) in Hl.
  rewrite (in_check_after g m HL Hin), negb_involutive in Hl. exact Hl.
Qed.
Print Assumptions checked_complete.

(* a generated move is kept by the filter iff it is legal *)
Theorem checked_iff_legal : forall g m,
  LegalInv g -> In m (pseudo_moves g) ->
  (In m (checked_moves g) <-> legal (abs g) (abs_move m) = true).
Proof.
  intros g m HL Hin. split; [now apply checked_sound|]. intros Hl.
  apply checked_intro; [apply HL | exact Hin|].
  unfold legal in Hl. apply andb_true_iff in Hl. destruct Hl as [_ Hl].
  cbn [abs p_turn] in Hl. fold (abs g) in Hl.
  rewrite (in_check_after g m HL Hin), negb_involutive in Hl. exact Hl.
Qed.
Print Assumptions checked_iff_legal.

(* ---- 2c: the two lists of texts are permutations of each other ------------------------------------ *)

Lemma NoDup_map_filter {A B} (f : A -> B) (p : A -> bool) l :
  NoDup (map f l) -> NoDup (map f (filter p l)).
Proof.
  induction l as [|a l IH]; cbn [map filter]; intros H; [constructor|].
  inversion H as [|? ? Hn H']; subst. destruct (p a); cbn [map]; [|now apply IH].
  constructor; [|now apply IH]. intros Hin. apply Hn.
  apply in_map_iff in Hin. destruct Hin as (x & E & Hx). apply filter_In in Hx.
  apply in_map_iff. exists x. split; [exact E | apply Hx].
Qed.

Theorem C01_checked_nodup_rep : forall g, RepInv g -> NoDup (map uci (checked_moves g)).
Proof.
  intros g HR. unfold checked_moves. destruct (king_exists g (g_player g)); [|constructor].
  cbv zeta. apply NoDup_map_filter. apply (gen_nodup_pseudo g HR).
Qed.

Lemma promo_options_nodup : NoDup promo_options.
Proof. unfold promo_options. repeat constructor; cbn [In]; intuition discriminate. Qed.

Lemma candidate_from p a x :
  In x (match color_at (p_board p) a with
        | Some c => if color_eqb c (p_turn p)
                    then flat_map (fun t => map (fun o => mkSMove a t o) promo_options) squares
                    else nil
        | None => nil
        end) -> m_from x = a.
Proof.
  destruct (color_at (p_board p) a) as [c|]; [|contradiction].
  destruct (color_eqb c (p_turn p)); [|contradiction].
  intros H. apply in_flat_map in H. destruct H as (t & _ & H).
  apply in_map_iff in H. destruct H as (o & <- & _). reflexivity.
Qed.

Lemma candidate_nodup p : NoDup (candidate_moves p).
Proof.
  unfold candidate_moves. apply NoDup_flat_map_intro.
  - exact squares64_nodup.
  - intros a _. destruct (color_at (p_board p) a) as [c|]; [|constructor].
    destruct (color_eqb c (p_turn p)); [|constructor].
    apply NoDup_flat_map_intro.
    + exact squares64_nodup.
    + intros t _. apply NoDup_map_inj_in; [|exact promo_options_nodup].
      intros x y _ _ E. now inversion E.
    + intros t t' x _ _ H1 H2. apply in_map_iff in H1, H2.
      destruct H1 as (o1 & <- & _). destruct H2 as (o2 & E & _). now inversion E.
  - intros a a' x _ _ H1 H2. apply candidate_from in H1, H2. congruence.
Qed.

Lemma candidate_intro p a t o :
  valid a -> valid t -> In o promo_options -> color_at (p_board p) a = Some (p_turn p) ->
  In (mkSMove a t o) (candidate_moves p).
Proof.
  intros Ha Ht Ho Hc. unfold candidate_moves. apply in_flat_map. exists a.
  split; [now apply (proj2 (squares64_valid a))|]. rewrite Hc, color_eqb_refl.
  apply in_flat_map. exists t. split; [now apply (proj2 (squares64_valid t))|].
  now apply in_map.
Qed.

Lemma pseudo_legal_from p sm :
  pseudo_legal p sm = true -> color_at (p_board p) (m_from sm) = Some (p_turn p).
Proof.
  unfold pseudo_legal. cbv zeta. intros H. apply andb_true_iff in H. destruct H as [_ H].
  unfold color_at. destruct (at_ (p_board p) (m_from sm)) as [pc|]; [|discriminate].
  apply andb_true_iff in H. destruct H as [H _]. apply andb_true_iff in H. destruct H as [H _].
  apply color_eqb_eq in H. now rewrite H.
Qed.

Lemma smove_ok_promo sm : smove_ok sm -> In (m_promo sm) promo_options.
Proof.
  intros (_ & _ & H). unfold promo_options. destruct (m_promo sm) as [k|]; [|left; reflexivity].
  destruct H as [->|[->|[->| ->]]]; cbn [In]; tauto.
Qed.

Lemma legal_in_legal_moves p sm : smove_ok sm -> legal p sm = true -> In sm (legal_moves p).
Proof.
  intros Hok Hl. unfold legal_moves. apply filter_In. split; [|exact Hl].
  unfold legal in Hl. apply andb_true_iff in Hl. destruct Hl as [Hps _].
  pose proof (smove_ok_promo sm Hok) as Hpr. destruct Hok as (Ha & Ht & _).
  destruct sm as [a t o]. cbn [m_from m_to m_promo] in *.
  apply candidate_intro; try assumption. exact (pseudo_legal_from p _ Hps).
Qed.

Lemma legal_moves_nodup p : NoDup (legal_moves p).
Proof. unfold legal_moves. apply NoDup_filter. apply candidate_nodup. Qed.

Lemma legal_moves_legal p sm : In sm (legal_moves p) -> legal p sm = true.
Proof. unfold legal_moves. intros H. apply filter_In in H. apply H. Qed.

Section Exact.
  Context (g : game) (HL : LegalInv g) (HF : Fits g).

  Let HR : RepInv g := LegalInv_repinv g HL.

  Lemma checked_uci m : In m (checked_moves g) -> uci m = move_text (abs_move m).
  Proof. intros Hin. apply (generated_uci_is_standard g true m HR). exact Hin. Qed.

  Lemma legal_smove_ok sm : legal (abs g) sm = true -> smove_ok sm.
  Proof.
    intros Hl. destruct (checked_complete g sm HL HF Hl) as (m & Hin & <-).
    apply (gen_ok_smove_ok g). now apply gen_ok_checked.
  Qed.

  Lemma legal_texts_nodup : NoDup (map move_text (legal_moves (abs g))).
  Proof.
    apply NoDup_map_inj_in; [|apply legal_moves_nodup].
    intros x y Hx Hy. apply move_text_inj; apply legal_smove_ok; now apply legal_moves_legal.
  Qed.

  Theorem C01_checked_nodup_sec : NoDup (map uci (checked_moves g)).
  Proof. now apply C01_checked_nodup_rep. Qed.

  Lemma checked_texts_incl x :
    In x (map uci (checked_moves g)) <-> In x (map move_text (legal_moves (abs g))).
  Proof.
    split; intros H; apply in_map_iff in H; apply in_map_iff.
    - destruct H as (m & <- & Hin). exists (abs_move m). split; [symmetry; now apply checked_uci|].
      apply legal_in_legal_moves; [|now apply checked_sound].
      apply (gen_ok_smove_ok g). now apply gen_ok_checked.
    - destruct H as (sm & <- & Hin). apply legal_moves_legal in Hin.
      destruct (checked_complete g sm HL HF Hin) as (m & Hm & <-).
      exists m. split; [now apply checked_uci | exact Hm].
  Qed.

  Theorem C01_checked_exact_sec :
    Permutation (map uci (checked_moves g)) (map move_text (legal_moves (abs g))).
  Proof.
    apply NoDup_Permutation;
      [exact C01_checked_nodup_sec | exact legal_texts_nodup | exact checked_texts_incl].
  Qed.

  (* the same on the level of from / to / promotion triples *)
  Theorem C01_checked_exact_moves_sec :
    Permutation (map abs_move (checked_moves g)) (legal_moves (abs g)).
  Proof.
    apply NoDup_Permutation.
    - unfold checked_moves. destruct (king_exists g (g_player g)); [|constructor].
      cbv zeta. apply NoDup_map_filter. apply (gen_nodup_pseudo g HR).
    - apply legal_moves_nodup.
    - intros sm. split; intros H.
      + apply in_map_iff in H. destruct H as (m & <- & Hin).
        apply legal_in_legal_moves; [|now apply checked_sound].
        apply (gen_ok_smove_ok g). now apply gen_ok_checked.
      + apply legal_moves_legal in H. destruct (checked_complete g sm HL HF H) as (m & Hm & <-).
        now apply in_map.
  Qed.
End Exact.

Theorem C01_checked_exact : forall g,
  LegalInv g -> Fits g ->
  Permutation (map uci (checked_moves g)) (map move_text (legal_moves (abs g))).
Proof. exact C01_checked_exact_sec. Qed.
Print Assumptions C01_checked_exact.

Theorem C01_checked_exact_moves : forall g,
  LegalInv g -> Fits g -> Permutation (map abs_move (checked_moves g)) (legal_moves (abs g)).
Proof. exact C01_checked_exact_moves_sec. Qed.
Print Assumptions C01_checked_exact_moves.

Theorem C01_checked_nodup : forall g, LegalInv g -> NoDup (map uci (checked_moves g)).
Proof. intros g HL. apply C01_checked_nodup_rep. now apply LegalInv_repinv. Qed.
Print Assumptions C01_checked_nodup.

(* ---- 2d: the unchecked list ------------------------------------------------------------------------- *)

Theorem C01_unchecked_superset : forall g,
  LegalInv g ->
  incl (checked_moves g) (pseudo_moves g)
  /\ forall m, In m (pseudo_moves g) -> ~ In m (checked_moves g) ->
       pseudo_legal (abs g) (abs_move m) = true
       /\ in_check (Rules.apply (abs g) (abs_move m)) (g_player g) = true.
Proof.
  intros g HL. split; [intros m; apply checked_in_pseudo|].
  intros m Hin Hnot. split; [apply gen_sound_pseudo; [now apply LegalInv_repinv | exact Hin]|].
  rewrite (in_check_after g m HL Hin). apply negb_true_iff.
  destruct (legal_after g m) eqn:E; [|reflexivity].
  exfalso. apply Hnot. apply checked_intro; [apply HL | exact Hin | exact E].
Qed.
Print Assumptions C01_unchecked_superset.

(* ---- 2e: every game reachable by legal play ------------------------------------------------------- *)

Theorem C01_reachable : forall g,
  legal_reachable g -> Fits g ->
  Permutation (map uci (checked_moves g)) (map move_text (legal_moves (abs g)))
  /\ NoDup (map uci (checked_moves g))
  /\ incl (checked_moves g) (pseudo_moves g)
  /\ forall m, In m (pseudo_moves g) -> ~ In m (checked_moves g) ->
       pseudo_legal (abs g) (abs_move m) = true
       /\ in_check (Rules.apply (abs g) (abs_move m)) (g_player g) = true.
Proof.
  intros g Hr HF. pose proof (legal_reachable_legalinv g Hr) as HL.
  split; [now apply C01_checked_exact|]. split; [now apply C01_checked_nodup|].
  now apply C01_unchecked_superset.
Qed.
Print Assumptions C01_reachable.

(* ---- consequences and non-vacuity -------------------------------------------------------------------- *)

(* the engine finds no move exactly when the rules give none (mate or stalemate) *)
Corollary C01_no_moves_iff : forall g,
  LegalInv g -> Fits g -> (checked_moves g = nil <-> legal_moves (abs g) = nil).
Proof.
  intros g HL HF. pose proof (C01_checked_exact g HL HF) as HP. split; intros E.
  - rewrite E in HP. cbn [map] in HP. apply Permutation_nil in HP. now apply map_eq_nil in HP.
  - rewrite E in HP. cbn [map] in HP. apply Permutation_sym, Permutation_nil in HP.
    now apply map_eq_nil in HP.
Qed.
Print Assumptions C01_no_moves_iff.

Corollary C01_count : forall g,
  LegalInv g -> Fits g -> length (checked_moves g) = length (legal_moves (abs g)).
Proof.
  intros g HL HF. pose proof (Permutation_length (C01_checked_exact g HL HF)) as H.
  now rewrite !map_length in H.
Qed.

Lemma Fits_b g : Nat.leb (length (pseudo_moves_all g)) (Z.to_nat MOVE_BUFFER_CAP) = true -> Fits g.
Proof. intros H. now apply Nat.leb_le. Qed.

(* the hypotheses hold for the start position and for Kiwipete, so the theorems are not vacuous *)
Example start_legalinv : LegalInv START /\ Fits START.
Proof. split; [exact (legal_reachable_legalinv _ start_reachable) | apply Fits_b; vm_compute; reflexivity]. Qed.
Example kiwipete_legalinv : LegalInv KIWIPETE /\ Fits KIWIPETE.
Proof. split; [exact (legal_reachable_legalinv _ kiwipete_reachable) | apply Fits_b; vm_compute; reflexivity]. Qed.

Example start_exact :
  Permutation (map uci (checked_moves START)) (map move_text (legal_moves (abs START))).
Proof. apply C01_checked_exact; apply start_legalinv. Qed.
Print Assumptions start_exact.
