(* C05 - sensitivity of the published hash [H] (Spec/HashSpec.v).
   - the 1026 keys of the key file are pairwise distinct and none of them is 0;
   - a position whose board is a well-formed grid and whose en-passant field is a file 0..7 (or
     none) changes its hash when exactly one feature changes: the content of one square, the side
     to move, or the (castling rights, en passant) state;
   - H p = H p' iff the keys of the features in which p and p' differ xor to 0.
   Gen/Keys.v is only ever evaluated by vm_compute on closed boolean statements. *)
From Coq Require Import Lia Permutation.
From Chess Require Import Proofs.Grid Proofs.Inv Proofs.KeysLayout.
From Chess Require Import Gen.Keys Spec.HashSpec.
Import ListNotations.
Open Scope Z_scope.

(* ---- sorted-adjacent check implies NoDup ------------------------------------------------------ *)

Lemma insert_sorted_perm x l : Permutation (x :: l) (insert_sorted x l).
Proof.
  induction l as [|y t IH]; cbn [insert_sorted]; [reflexivity|].
  destruct (x <=? y)%N; [reflexivity|].
  etransitivity; [apply perm_swap | apply perm_skip, IH].
Qed.

Lemma sort_n_perm l : Permutation l (sort_n l).
Proof.
  induction l as [|x t IH]; [reflexivity|].
  change (sort_n (x :: t)) with (insert_sorted x (sort_n t)).
  etransitivity; [apply perm_skip, IH | apply insert_sorted_perm].
Qed.

Lemma strictly_increasing_head l x :
  strictly_increasing (x :: l) = true -> forall y, In y l -> (x < y)%N.
Proof.
  revert x; induction l as [|z t IH]; intros x Hs y Hin; [destruct Hin|].
  cbn [strictly_increasing] in Hs. apply andb_true_iff in Hs. destruct Hs as [Hxz Ht].
  apply N.ltb_lt in Hxz. destruct Hin as [<-|Hin]; [assumption|].
  eapply N.lt_trans; [exact Hxz | apply IH; assumption].
Qed.

Lemma strictly_increasing_tail l x :
  strictly_increasing (x :: l) = true -> strictly_increasing l = true.
Proof.
  destruct l as [|z t]; [reflexivity|]. cbn [strictly_increasing]. intros Hs.
  apply andb_true_iff in Hs. apply Hs.
Qed.

Lemma strictly_increasing_nodup l : strictly_increasing l = true -> NoDup l.
Proof.
  induction l as [|x t IH]; intros Hs; [constructor|].
  constructor; [|apply IH; eapply strictly_increasing_tail; exact Hs].
  intros Hin. apply (N.lt_irrefl x). eapply strictly_increasing_head; eassumption.
Qed.

(* the general lemma: a list whose insertion sort is strictly increasing has no duplicates *)
Lemma sorted_check_nodup l : strictly_increasing (sort_n l) = true -> NoDup l.
Proof.
  intros Hs. eapply Permutation_NoDup; [symmetry; apply sort_n_perm|].
  apply strictly_increasing_nodup, Hs.
Qed.

(* ---- the keys ------------------------------------------------------------------------------------ *)

Theorem keys_nodup : NoDup all_keys.
Proof. apply sorted_check_nodup, all_keys_sorted_distinct. Qed.
Print Assumptions keys_nodup.

(* the keys together with 0: distinctness of this list also says that no key is 0 *)
Definition K0 : list N := 0%N :: all_keys.

Lemma K0_sorted_distinct : strictly_increasing (sort_n K0) = true.
Proof. vm_compute. reflexivity. Qed.

Theorem keys0_nodup : NoDup K0.
Proof. apply sorted_check_nodup, K0_sorted_distinct. Qed.

Lemma K0_length : length K0 = 1027%nat.
Proof. unfold K0. cbn [length]. rewrite all_keys_count. reflexivity. Qed.

Definition key (i : nat) : N := nth i K0 0%N.

Lemma key_inj i j : (i < 1027)%nat -> (j < 1027)%nat -> key i = key j -> i = j.
Proof.
  intros Hi Hj. rewrite <- K0_length in Hi, Hj.
  exact (proj1 (NoDup_nth K0 0%N) keys0_nodup i j Hi Hj).
Qed.
Print Assumptions keys0_nodup.

Lemma key_xor_nonzero i j :
  (i < 1027)%nat -> (j < 1027)%nat -> i <> j -> N.lxor (key i) (key j) <> 0%N.
Proof.
  intros Hi Hj Hij Hx. apply Hij. apply key_inj; [assumption..|]. now apply N.lxor_eq.
Qed.

Lemma keys_state_length : length KEYS_STATE = 256%nat.
Proof. vm_compute. reflexivity. Qed.

Lemma keys_piece_length : length KEYS_PIECE = 768%nat.
Proof. vm_compute. reflexivity. Qed.

Lemma nth_skip3_r (z a b : N) l1 l2 n :
  length l1 = 256%nat -> nth (259 + n) (z :: a :: b :: l1 ++ l2) 0%N = nth n l2 0%N.
Proof.
  intros Hl. change (259 + n)%nat with (S (S (S (256 + n)))). cbn [nth].
  replace (256 + n)%nat with (length l1 + n)%nat by (rewrite Hl; reflexivity).
  apply app_nth2_plus.
Qed.

Lemma nth_skip3_l (z a b : N) l1 l2 n :
  (n < length l1)%nat -> nth (3 + n) (z :: a :: b :: l1 ++ l2) 0%N = nth n l1 0%N.
Proof.
  intros Hl. change (3 + n)%nat with (S (S (S n))). cbn [nth]. now apply app_nth1.
Qed.

Lemma key_0 : key 0 = 0%N.
Proof. reflexivity. Qed.
Lemma key_black : key 1 = KEY_BLACK_TO_MOVE.
Proof. reflexivity. Qed.
Lemma key_empty : key 2 = KEY_EMPTY_PLACE.
Proof. reflexivity. Qed.
Lemma key_state n : (n < 256)%nat -> key (3 + n) = nth n KEYS_STATE 0%N.
Proof.
  intros Hn. unfold key, K0, all_keys. apply nth_skip3_l. now rewrite keys_state_length.
Qed.
Lemma key_piece n : key (259 + n) = nth n KEYS_PIECE 0%N.
Proof. unfold key, K0, all_keys. apply nth_skip3_r. exact keys_state_length. Qed.

Lemma black_key_nonzero : KEY_BLACK_TO_MOVE <> 0%N.
Proof.
  rewrite <- key_black, <- key_0. intros Hk. apply key_inj in Hk; [discriminate | lia | lia].
Qed.

(* ---- positions of the selected keys in K0 --------------------------------------------------------- *)

Definition sqn (s : pos) : nat := Z.to_nat (fst s * 8 + snd s).

Definition idx_sq (s : pos) (o : option piece) : nat :=
  match o with
  | None => 2%nat
  | Some pc => (259 + (sqn s * 12 + spec_piece_index pc))%nat
  end.

Definition idx_side (c : color) : nat := match c with White => 0%nat | Black => 1%nat end.

Definition idx_state (r : rights) (e : option Z) : nat := (3 + Z.to_nat (spec_state_byte r e))%nat.

Definition ep_ok (e : option Z) : Prop := match e with None => True | Some f => 0 <= f < 8 end.

Definition wf_pos (p : position) : Prop := wf_grid (p_board p) /\ ep_ok (p_ep p).

Lemma square_key_idx s o : spec_square_key s o = key (idx_sq s o).
Proof.
  destruct o as [pc|]; unfold spec_square_key, idx_sq; [|reflexivity].
  symmetry. apply key_piece.
Qed.

Lemma side_key_idx c :
  match c with Black => KEY_BLACK_TO_MOVE | White => 0%N end = key (idx_side c).
Proof. destruct c; reflexivity. Qed.

Lemma state_byte_range r e : ep_ok e -> 0 <= spec_state_byte r e < 256.
Proof.
  unfold spec_state_byte, ep_ok. intros He.
  destruct (r_wk r), (r_wq r), (r_bk r), (r_bq r), e; lia.
Qed.

Lemma state_key_idx r e :
  ep_ok e -> nth (Z.to_nat (spec_state_byte r e)) KEYS_STATE 0%N = key (idx_state r e).
Proof.
  intros He. symmetry. apply key_state. pose proof (state_byte_range r e He). lia.
Qed.

Lemma piece_index_lt pc : (spec_piece_index pc < 12)%nat.
Proof. destruct pc as [[] []]; unfold spec_piece_index; cbn [pk po]; lia. Qed.

Lemma piece_index_inj a b : spec_piece_index a = spec_piece_index b -> a = b.
Proof.
  destruct a as [[] []], b as [[] []]; unfold spec_piece_index; cbn [pk po Nat.add];
    intros Hab; try reflexivity; discriminate Hab.
Qed.

Lemma sqn_lt s : valid s -> (sqn s < 64)%nat.
Proof. unfold valid, sqn. intros [Hr Hc]. lia. Qed.

Lemma sqn_inj s t : valid s -> valid t -> sqn s = sqn t -> s = t.
Proof.
  unfold valid, sqn. destruct s as [r c], t as [r' c']. cbn [fst snd]. intros [Hr Hc] [Hr' Hc'] Hs.
  assert (r * 8 + c = r' * 8 + c') as Hz by lia.
  assert (r = r') by lia. assert (c = c') by lia. congruence.
Qed.

(* an index of a square key is 2 (empty) or lies in the 12-key row of the square *)
Lemma idx_sq_range s o :
  idx_sq s o = 2%nat \/ (259 + sqn s * 12 <= idx_sq s o < 259 + sqn s * 12 + 12)%nat.
Proof.
  destruct o as [pc|]; [right | left; reflexivity].
  unfold idx_sq. pose proof (piece_index_lt pc). lia.
Qed.

Lemma idx_sq_lt s o : valid s -> (idx_sq s o < 1027)%nat.
Proof.
  intros Hv. pose proof (sqn_lt s Hv). destruct (idx_sq_range s o) as [Hi|Hi]; lia.
Qed.

Lemma idx_sq_inj s a b : idx_sq s a = idx_sq s b -> a = b.
Proof.
  destruct a as [x|], b as [y|]; unfold idx_sq; intros Hab; try reflexivity; try lia.
  f_equal. apply piece_index_inj. lia.
Qed.

Lemma idx_side_lt c : (idx_side c < 1027)%nat.
Proof. destruct c; cbn; lia. Qed.

Lemma idx_side_other c : idx_side c <> idx_side (other c).
Proof. destruct c; discriminate. Qed.

Lemma idx_state_range r e : ep_ok e -> (3 <= idx_state r e < 259)%nat.
Proof. intros He. unfold idx_state. pose proof (state_byte_range r e He). lia. Qed.

Lemma state_byte_inj r e r' e' :
  ep_ok e -> ep_ok e' -> spec_state_byte r e = spec_state_byte r' e' -> r = r' /\ e = e'.
Proof.
  unfold spec_state_byte, ep_ok. intros He He' Hb.
  destruct r as [a b c d], r' as [a' b' c' d']. cbn [r_wk r_wq r_bk r_bq] in Hb.
  set (x := match e with Some f => f | None => 8 end) in *.
  set (x' := match e' with Some f => f | None => 8 end) in *.
  assert (0 <= x <= 8) as Hx by (subst x; destruct e; lia).
  assert (0 <= x' <= 8) as Hx' by (subst x'; destruct e'; lia).
  assert (d = d') as -> by (destruct a, b, c, d, a', b', c', d'; try reflexivity; exfalso; lia).
  assert (c = c') as -> by (destruct a, b, c, a', b', c', d'; try reflexivity; exfalso; lia).
  assert (b = b') as -> by (destruct a, b, a', b', c', d'; try reflexivity; exfalso; lia).
  assert (a = a') as -> by (destruct a, a', b', c', d'; try reflexivity; exfalso; lia).
  split; [reflexivity|].
  assert (x = x') as Hxx by lia. subst x x'.
  destruct e as [f|], e' as [f'|]; try reflexivity; try (f_equal; lia); exfalso; lia.
Qed.

Lemma idx_state_inj r e r' e' :
  ep_ok e -> ep_ok e' -> idx_state r e = idx_state r' e' -> r = r' /\ e = e'.
Proof.
  intros He He' Hi. apply state_byte_inj; [assumption..|].
  pose proof (state_byte_range r e He). pose proof (state_byte_range r' e' He').
  unfold idx_state in Hi. lia.
Qed.

(* ---- the hash as an xor of three parts ------------------------------------------------------------- *)

Lemma xors_eq : HashSpec.xors = Inv.xors.
Proof. reflexivity. Qed.

Definition board_part (b : grid (option piece)) : N :=
  xor_all (fun s => spec_square_key s (at_ b s)).

Lemma H_parts p :
  H p = N.lxor (N.lxor (board_part (p_board p)) (key (idx_side (p_turn p))))
               (nth (Z.to_nat (spec_state_byte (p_rights p) (p_ep p))) KEYS_STATE 0%N).
Proof.
  unfold H. rewrite side_key_idx, xors_eq. unfold board_part, xor_all, squares64, squares. reflexivity.
Qed.

Lemma board_part_put b s v :
  wf_grid b -> valid s ->
  board_part (put b s v) =
  N.lxor (board_part b) (N.lxor (key (idx_sq s (at_ b s))) (key (idx_sq s v))).
Proof.
  intros Hwf Hv. unfold board_part.
  rewrite (xor_all_update (fun q => spec_square_key q (at_ b q))
                          (fun q => spec_square_key q (at_ (put b s v) q)) s Hv).
  - unfold at_ at 3, put. rewrite grid_get_set_same by assumption.
    rewrite !square_key_idx.
    generalize (xor_all (fun q => key (idx_sq q (at_ b q)))) (key (idx_sq s (at_ b s))) (key (idx_sq s v)).
    intros x y z. xor_solve.
  - intros q Hq. unfold at_, put. rewrite grid_get_set_other by congruence. reflexivity.
Qed.

(* ---- single changes --------------------------------------------------------------------------------- *)

Inductive feature := FSq (s : pos) | FSide | FState.

Inductive change :=
| ChSq (s : pos) (v : option piece)      (* another content (piece or empty) on square s *)
| ChSide                                  (* the other side to move *)
| ChState (r : rights) (e : option Z).    (* another (castling rights, en passant) combination *)

Definition feature_of (c : change) : feature :=
  match c with ChSq s _ => FSq s | ChSide => FSide | ChState _ _ => FState end.

Definition apply_change (p : position) (c : change) : position :=
  match c with
  | ChSq s v => mkPosition (put (p_board p) s v) (p_turn p) (p_rights p) (p_ep p)
  | ChSide => mkPosition (p_board p) (other (p_turn p)) (p_rights p) (p_ep p)
  | ChState r e => mkPosition (p_board p) (p_turn p) r e
  end.

(* the change is a real change of a feature of p and stays within well-formed positions *)
Definition change_ok (p : position) (c : change) : Prop :=
  match c with
  | ChSq s v => valid s /\ v <> at_ (p_board p) s
  | ChSide => True
  | ChState r e => ep_ok e /\ (r, e) <> (p_rights p, p_ep p)
  end.

(* positions in K0 of the key that leaves the hash and of the key that enters it *)
Definition contrib (p : position) (c : change) : nat * nat :=
  match c with
  | ChSq s v => (idx_sq s (at_ (p_board p) s), idx_sq s v)
  | ChSide => (idx_side (p_turn p), idx_side (other (p_turn p)))
  | ChState r e => (idx_state (p_rights p) (p_ep p), idx_state r e)
  end.

Lemma apply_change_wf p c : wf_pos p -> change_ok p c -> wf_pos (apply_change p c).
Proof.
  intros [Hb He] Hc. destruct c as [s v| |r e]; cbn [apply_change change_ok] in *; split; cbn [p_board p_ep];
    try assumption.
  - apply wf_grid_set. assumption.
  - apply Hc.
Qed.

Lemma H_apply_change p c :
  wf_pos p -> change_ok p c ->
  H (apply_change p c) = N.lxor (H p) (N.lxor (key (fst (contrib p c))) (key (snd (contrib p c)))).
Proof.
  intros [Hb He] Hc. rewrite (H_parts p), (H_parts (apply_change p c)).
  destruct c as [s v| |r e]; cbn [apply_change change_ok contrib fst snd p_board p_turn p_rights p_ep] in *.
  - destruct Hc as [Hv _]. rewrite board_part_put by assumption.
    generalize (board_part (p_board p)) (key (idx_sq s (at_ (p_board p) s))) (key (idx_sq s v))
      (key (idx_side (p_turn p))) (nth (Z.to_nat (spec_state_byte (p_rights p) (p_ep p))) KEYS_STATE 0%N).
    intros x1 x2 x3 x4 x5. xor_solve.
  - generalize (board_part (p_board p)) (key (idx_side (p_turn p))) (key (idx_side (other (p_turn p))))
      (nth (Z.to_nat (spec_state_byte (p_rights p) (p_ep p))) KEYS_STATE 0%N).
    intros x1 x2 x3 x4. xor_solve.
  - destruct Hc as [He' _]. rewrite !state_key_idx by assumption.
    generalize (board_part (p_board p)) (key (idx_side (p_turn p)))
      (key (idx_state (p_rights p) (p_ep p))) (key (idx_state r e)).
    intros x1 x2 x3 x4. xor_solve.
Qed.

Lemma contrib_ok p c :
  wf_pos p -> change_ok p c ->
  fst (contrib p c) <> snd (contrib p c) /\
  (fst (contrib p c) < 1027)%nat /\ (snd (contrib p c) < 1027)%nat.
Proof.
  intros [Hb He] Hc. destruct c as [s v| |r e]; cbn [change_ok contrib fst snd] in *.
  - destruct Hc as [Hv Hne]. split; [|split; apply idx_sq_lt; assumption].
    intros Hi. apply Hne. symmetry. eapply idx_sq_inj; exact Hi.
  - split; [apply idx_side_other | split; apply idx_side_lt].
  - destruct Hc as [He' Hne]. split.
    + intros Hi. apply Hne. apply idx_state_inj in Hi; [|assumption..]. destruct Hi as [-> ->]. reflexivity.
    + pose proof (idx_state_range (p_rights p) (p_ep p) He). pose proof (idx_state_range r e He'). lia.
Qed.

Lemma xor_cancel_l a b : N.lxor a b = a -> b = 0%N.
Proof.
  intros Hx. rewrite <- (N.lxor_0_r a) in Hx at 2. apply (f_equal (N.lxor a)) in Hx.
  rewrite <- !N.lxor_assoc, N.lxor_nilpotent, !N.lxor_0_l in Hx. exact Hx.
Qed.

(* C05, one feature: the two hashes differ by the xor of two distinct keys *)
Theorem C05_single_change p c : wf_pos p -> change_ok p c -> H (apply_change p c) <> H p.
Proof.
  intros Hp Hc Heq. rewrite H_apply_change in Heq by assumption.
  apply xor_cancel_l in Heq. destruct (contrib_ok p c Hp Hc) as (Hne & H1 & H2).
  revert Heq. apply key_xor_nonzero; assumption.
Qed.
Print Assumptions C05_single_change.

Theorem H_square p s v :
  wf_pos p -> valid s -> v <> at_ (p_board p) s ->
  H (mkPosition (put (p_board p) s v) (p_turn p) (p_rights p) (p_ep p)) <> H p.
Proof. intros Hp Hv Hne. exact (C05_single_change p (ChSq s v) Hp (conj Hv Hne)). Qed.
Print Assumptions H_square.

Theorem H_side p :
  wf_pos p -> H (mkPosition (p_board p) (other (p_turn p)) (p_rights p) (p_ep p)) <> H p.
Proof. intros Hp. exact (C05_single_change p ChSide Hp I). Qed.
Print Assumptions H_side.

(* the en-passant field plays no role for a square change *)
Theorem H_square_any b t r e s v :
  wf_grid b -> valid s -> v <> at_ b s ->
  H (mkPosition (put b s v) t r e) <> H (mkPosition b t r e).
Proof.
  intros Hb Hv Hne. rewrite !H_parts. cbn [p_board p_turn p_rights p_ep].
  rewrite board_part_put by assumption. intros Heq.
  apply (key_xor_nonzero (idx_sq s (at_ b s)) (idx_sq s v)); try (apply idx_sq_lt; assumption).
  - intros Hi. apply Hne. symmetry. eapply idx_sq_inj; exact Hi.
  - revert Heq.
    generalize (board_part b) (N.lxor (key (idx_sq s (at_ b s))) (key (idx_sq s v))) (key (idx_side t))
      (nth (Z.to_nat (spec_state_byte r e)) KEYS_STATE 0%N).
    intros x1 x2 x3 x4 Heq.
    assert (x2 = N.lxor (N.lxor (N.lxor (N.lxor x1 x2) x3) x4) (N.lxor (N.lxor x1 x3) x4)) as -> by xor_solve.
    rewrite Heq. apply N.lxor_nilpotent.
Qed.
Print Assumptions H_square_any.

(* the board plays no role for the last two: stated for arbitrary boards *)
Theorem H_side_any b t r e : H (mkPosition b (other t) r e) <> H (mkPosition b t r e).
Proof.
  rewrite !H_parts. cbn [p_board p_turn p_rights p_ep]. intros Heq.
  apply (key_xor_nonzero (idx_side t) (idx_side (other t)) (idx_side_lt _) (idx_side_lt _) (idx_side_other t)).
  revert Heq.
  generalize (board_part b) (key (idx_side t)) (key (idx_side (other t)))
    (nth (Z.to_nat (spec_state_byte r e)) KEYS_STATE 0%N).
  intros x1 x2 x3 x4 Heq.
  assert (N.lxor x2 x3 = N.lxor (N.lxor (N.lxor x1 x3) x4) (N.lxor (N.lxor x1 x2) x4)) as -> by xor_solve.
  rewrite Heq. apply N.lxor_nilpotent.
Qed.
Print Assumptions H_side_any.

Theorem H_state b t r e r' e' :
  ep_ok e -> ep_ok e' -> (r, e) <> (r', e') ->
  H (mkPosition b t r e) <> H (mkPosition b t r' e').
Proof.
  intros He He' Hne. rewrite !H_parts. cbn [p_board p_turn p_rights p_ep].
  rewrite !state_key_idx by assumption. intros Heq.
  apply N.lxor_eq_0_iff in Heq.
  assert (N.lxor (key (idx_state r e)) (key (idx_state r' e')) = 0%N) as Hx.
  { rewrite <- Heq. generalize (board_part b) (key (idx_side t)) (key (idx_state r e)) (key (idx_state r' e')).
    intros x1 x2 x3 x4. xor_solve. }
  pose proof (idx_state_range r e He). pose proof (idx_state_range r' e' He').
  revert Hx. apply key_xor_nonzero; [lia | lia |].
  intros Hi. apply Hne. apply idx_state_inj in Hi; [|assumption..]. destruct Hi as [-> ->]. reflexivity.
Qed.
Print Assumptions H_state.

(* the packaged statement *)
Theorem C05_single_feature p :
  wf_grid (p_board p) -> ep_ok (p_ep p) ->
  (forall s v, valid s -> v <> at_ (p_board p) s ->
     H (mkPosition (put (p_board p) s v) (p_turn p) (p_rights p) (p_ep p)) <> H p) /\
  H (mkPosition (p_board p) (other (p_turn p)) (p_rights p) (p_ep p)) <> H p /\
  (forall r e, ep_ok e -> (r, e) <> (p_rights p, p_ep p) ->
     H (mkPosition (p_board p) (p_turn p) r e) <> H p).
Proof.
  intros Hb He. split; [|split].
  - intros s v Hv Hne. apply H_square; [split|..]; assumption.
  - apply H_side. split; assumption.
  - intros r e He' Hne. exact (C05_single_change p (ChState r e) (conj Hb He) (conj He' Hne)).
Qed.
Print Assumptions C05_single_feature.

(* ---- collisions: H p = H p' iff the keys of the differing features cancel ------------------------------ *)

Definition rights_eqb (a b : rights) : bool :=
  Bool.eqb (r_wk a) (r_wk b) && Bool.eqb (r_wq a) (r_wq b) &&
  Bool.eqb (r_bk a) (r_bk b) && Bool.eqb (r_bq a) (r_bq b).

Definition ep_eqb (a b : option Z) : bool :=
  match a, b with
  | None, None => true
  | Some x, Some y => x =? y
  | _, _ => false
  end.

Lemma rights_eqb_eq a b : rights_eqb a b = true <-> a = b.
Proof.
  destruct a as [a1 a2 a3 a4], b as [b1 b2 b3 b4]. unfold rights_eqb. cbn [r_wk r_wq r_bk r_bq].
  rewrite !andb_true_iff, !Bool.eqb_true_iff. split.
  - intros [[[-> ->] ->] ->]. reflexivity.
  - intros Hab. inversion Hab. auto.
Qed.

Lemma ep_eqb_eq a b : ep_eqb a b = true <-> a = b.
Proof.
  destruct a as [x|], b as [y|]; cbn [ep_eqb]; try (split; congruence).
  rewrite Z.eqb_eq. split; congruence.
Qed.

Definition state_key (p : position) : N :=
  nth (Z.to_nat (spec_state_byte (p_rights p) (p_ep p))) KEYS_STATE 0%N.

(* the keys selected by p and by p' for the features in which p and p' differ *)
Definition diff_keys (p p' : position) : list N :=
  flat_map (fun s => [spec_square_key s (at_ (p_board p) s); spec_square_key s (at_ (p_board p') s)])
           (filter (fun s => negb (opiece_eqb (at_ (p_board p) s) (at_ (p_board p') s))) squares)
  ++ (if color_eqb (p_turn p) (p_turn p') then [] else [KEY_BLACK_TO_MOVE])
  ++ (if rights_eqb (p_rights p) (p_rights p') && ep_eqb (p_ep p) (p_ep p') then []
      else [state_key p; state_key p']).

Lemma xors_diff {A} (f g : A -> N) (d : A -> bool) (l : list A) :
  (forall s, d s = false -> f s = g s) ->
  N.lxor (Inv.xors (map f l)) (Inv.xors (map g l)) =
  Inv.xors (flat_map (fun s => [f s; g s]) (filter d l)).
Proof.
  intros Hd. induction l as [|x t IH]; [reflexivity|].
  cbn [map filter]. rewrite !xors_cons. destruct (d x) eqn:Ex.
  - cbn [flat_map app]. rewrite !xors_cons, <- IH.
    generalize (Inv.xors (map f t)) (Inv.xors (map g t)) (f x) (g x). intros x1 x2 x3 x4. xor_solve.
  - rewrite <- IH, (Hd x Ex).
    generalize (Inv.xors (map f t)) (Inv.xors (map g t)) (g x). intros x1 x2 x3. xor_solve.
Qed.

Theorem H_xor_diff p p' : N.lxor (H p) (H p') = xors (diff_keys p p').
Proof.
  unfold diff_keys. rewrite xors_eq, !xors_app.
  rewrite <- (xors_diff (fun s => spec_square_key s (at_ (p_board p) s))
                        (fun s => spec_square_key s (at_ (p_board p') s))).
  2:{ intros s Hs. apply negb_false_iff, opiece_eqb_eq in Hs. now rewrite Hs. }
  assert (Inv.xors (if color_eqb (p_turn p) (p_turn p') then [] else [KEY_BLACK_TO_MOVE]) =
          N.lxor (match p_turn p with Black => KEY_BLACK_TO_MOVE | White => 0%N end)
                 (match p_turn p' with Black => KEY_BLACK_TO_MOVE | White => 0%N end)) as ->.
  { destruct (p_turn p), (p_turn p'); cbn [color_eqb]; rewrite ?xors_cons; unfold Inv.xors; cbn [fold_left];
      generalize KEY_BLACK_TO_MOVE; intros k; xor_solve. }
  assert (Inv.xors (if rights_eqb (p_rights p) (p_rights p') && ep_eqb (p_ep p) (p_ep p') then []
                    else [state_key p; state_key p']) = N.lxor (state_key p) (state_key p')) as ->.
  { destruct (rights_eqb (p_rights p) (p_rights p') && ep_eqb (p_ep p) (p_ep p')) eqn:Es.
    - apply andb_true_iff in Es. destruct Es as [Er Ee]. apply rights_eqb_eq in Er. apply ep_eqb_eq in Ee.
      unfold state_key. rewrite Er, Ee, N.lxor_nilpotent. reflexivity.
    - rewrite !xors_cons. unfold Inv.xors. cbn [fold_left]. now rewrite N.lxor_0_r. }
  unfold H. fold (state_key p) (state_key p'). rewrite xors_eq.
  generalize (Inv.xors (map (fun s => spec_square_key s (at_ (p_board p) s)) squares))
    (Inv.xors (map (fun s => spec_square_key s (at_ (p_board p') s)) squares))
    (match p_turn p with Black => KEY_BLACK_TO_MOVE | White => 0%N end)
    (match p_turn p' with Black => KEY_BLACK_TO_MOVE | White => 0%N end)
    (state_key p) (state_key p').
  intros x1 x2 x3 x4 x5 x6. xor_solve.
Qed.
Print Assumptions H_xor_diff.

Theorem C05_collision_iff p p' : H p = H p' <-> xors (diff_keys p p') = 0%N.
Proof. rewrite <- H_xor_diff. symmetry. apply N.lxor_eq_0_iff. Qed.
Print Assumptions C05_collision_iff.

(* ---- extensional form: two positions that differ in exactly one feature ------------------------------ *)

(* the value of a feature in a position *)
Definition fvalue := (option piece + (color + rights * option Z))%type.

Definition fval (p : position) (f : feature) : fvalue :=
  match f with
  | FSq s => inl (at_ (p_board p) s)
  | FSide => inr (inl (p_turn p))
  | FState => inr (inr (p_rights p, p_ep p))
  end.

Definition fvalid (f : feature) : Prop := match f with FSq s => valid s | _ => True end.

Definition differs (p p' : position) (f : feature) : Prop := fval p f <> fval p' f.

Lemma differs_sq p p' s : differs p p' (FSq s) <-> at_ (p_board p) s <> at_ (p_board p') s.
Proof. unfold differs. cbn [fval]. split; intros Hd He; apply Hd; congruence. Qed.

Lemma differs_side p p' : differs p p' FSide <-> p_turn p <> p_turn p'.
Proof. unfold differs. cbn [fval]. split; intros Hd He; apply Hd; congruence. Qed.

Lemma differs_state p p' :
  differs p p' FState <-> (p_rights p, p_ep p) <> (p_rights p', p_ep p').
Proof. unfold differs. cbn [fval]. split; intros Hd He; apply Hd; congruence. Qed.

Lemma fval_eq_or p p' f : fval p f = fval p' f \/ differs p p' f.
Proof.
  unfold differs. destruct f as [s| |]; cbn [fval].
  - destruct (opiece_eqb (at_ (p_board p) s) (at_ (p_board p') s)) eqn:E.
    + apply opiece_eqb_eq in E. left. congruence.
    + right. intros Hc. injection Hc as Hc. apply opiece_eqb_eq in Hc. congruence.
  - destruct (color_eqb (p_turn p) (p_turn p')) eqn:E.
    + apply color_eqb_eq in E. left. congruence.
    + right. intros Hc. injection Hc as Hc. apply color_eqb_eq in Hc. congruence.
  - destruct (rights_eqb (p_rights p) (p_rights p') && ep_eqb (p_ep p) (p_ep p')) eqn:E.
    + apply andb_true_iff in E. destruct E as [Er Ee]. apply rights_eqb_eq in Er. apply ep_eqb_eq in Ee.
      left. congruence.
    + right. intros Hc. injection Hc as Hr He.
      apply rights_eqb_eq in Hr. apply ep_eqb_eq in He. rewrite Hr, He in E. discriminate.
Qed.

Lemma feature_eq_or (f g : feature) : f = g \/ f <> g.
Proof.
  destruct f as [s| |], g as [t| |]; try (right; discriminate); try (left; reflexivity).
  destruct (pos_eqb s t) eqn:E.
  - apply pos_eqb_eq in E. left. congruence.
  - right. intros Hc. injection Hc as Hc. apply pos_eqb_eq in Hc. congruence.
Qed.

Lemma position_ext p p' :
  wf_grid (p_board p) -> wf_grid (p_board p') ->
  (forall f, fvalid f -> fval p f = fval p' f) -> p = p'.
Proof.
  intros Hb Hb' Hf. destruct p as [b t r e], p' as [b' t' r' e']. cbn [p_board] in Hb, Hb'.
  assert (b = b') as ->.
  { apply (grid_ext b b' None Hb Hb'). intros s Hs. specialize (Hf (FSq s) Hs). cbn [fval p_board] in Hf.
    injection Hf as Hf. exact Hf. }
  pose proof (Hf FSide I) as Ht. pose proof (Hf FState I) as Hs.
  cbn [fval p_turn p_rights p_ep] in Ht, Hs. injection Ht as ->. injection Hs as -> ->. reflexivity.
Qed.

Lemma fval_apply_other p c f : feature_of c <> f -> fval (apply_change p c) f = fval p f.
Proof.
  intros Hne. destruct c as [s v| |r e], f as [t| |]; cbn [apply_change fval p_board p_turn p_rights p_ep];
    try reflexivity; try (exfalso; apply Hne; reflexivity).
  f_equal. unfold at_, put. apply grid_get_set_other. intros ->. apply Hne. reflexivity.
Qed.

(* the change that gives feature f the value it has in p' *)
Definition change_to (p' : position) (f : feature) : change :=
  match f with
  | FSq s => ChSq s (at_ (p_board p') s)
  | FSide => ChSide
  | FState => ChState (p_rights p') (p_ep p')
  end.

Lemma feature_of_change_to p' f : feature_of (change_to p' f) = f.
Proof. destruct f; reflexivity. Qed.

Lemma fval_apply_same p p' f :
  wf_grid (p_board p) -> fvalid f -> differs p p' f ->
  fval (apply_change p (change_to p' f)) f = fval p' f.
Proof.
  intros Hb Hv Hd. destruct f as [s| |]; cbn [change_to apply_change fval p_board p_turn p_rights p_ep].
  - f_equal. unfold at_ at 1, put. apply grid_get_set_same; assumption.
  - apply differs_side in Hd. destruct (p_turn p), (p_turn p'); try reflexivity; exfalso; apply Hd; reflexivity.
  - reflexivity.
Qed.

Lemma change_to_ok p p' f : wf_pos p' -> fvalid f -> differs p p' f -> change_ok p (change_to p' f).
Proof.
  intros [Hb' He'] Hv Hd. destruct f as [s| |]; cbn [change_to change_ok].
  - apply differs_sq in Hd. split; [exact Hv | congruence].
  - exact I.
  - apply differs_state in Hd. split; [exact He' | congruence].
Qed.

Theorem C05_one_feature p p' f :
  wf_pos p -> wf_pos p' -> fvalid f -> differs p p' f ->
  (forall g, fvalid g -> differs p p' g -> g = f) ->
  H p <> H p'.
Proof.
  intros Hp Hp' Hv Hd Honly.
  assert (apply_change p (change_to p' f) = p') as Hq.
  { apply position_ext.
    - apply apply_change_wf; [exact Hp | now apply change_to_ok].
    - apply Hp'.
    - intros g Hg. destruct (feature_eq_or g f) as [->|Hne].
      + apply fval_apply_same; [apply Hp | assumption..].
      + rewrite fval_apply_other by (rewrite feature_of_change_to; congruence).
        destruct (fval_eq_or p p' g) as [He|Hdg]; [exact He|]. exfalso. apply Hne. now apply Honly. }
  rewrite <- Hq. apply not_eq_sym. apply C05_single_change; [exact Hp | now apply change_to_ok].
Qed.
Print Assumptions C05_one_feature.
