(* No move is generated twice.

     gen_nodup       : RepInv g -> NoDup (map abs_move (pseudo_moves_all g))
                       (no two generated moves share the from / to / promotion triple);
     gen_nodup_moves : RepInv g -> NoDup (pseudo_moves_all g);
     move_text_inj   : the standard move text is injective on on-board triples whose promotion
                       piece (if any) is a queen, rook, bishop or knight;
     gen_nodup_uci   : RepInv g -> NoDup (map uci (pseudo_moves_all g));
     and the same three for the truncated buffer [pseudo_moves] (a prefix of the full list).

   Structure: moves generated for different squares start on different squares; for one piece,
   a ray visits strictly increasing multiples of its direction and the target determines the
   direction; the delta lists have no repetition; the four pawn groups have different targets
   (an en passant target is empty, a capture target is occupied: this is where the invariant
   is used); castling targets are two columns away from the king. *)
From Coq Require Import Lia ZifyBool.
From Chess Require Import Model.MoveGen Model.Text Spec.Rules Spec.Notation Proofs.Grid Proofs.Inv
  Proofs.GenOk Proofs.AttackSpec Proofs.Abs Proofs.TextProofs Proofs.GenComplete.
Open Scope Z_scope.

(* ---- lists ------------------------------------------------------------------------------------- *)

Lemma NoDup_app_intro {A} (l1 l2 : list A) :
  NoDup l1 -> NoDup l2 -> (forall x, In x l1 -> In x l2 -> False) -> NoDup (l1 ++ l2).
Proof.
  induction l1 as [|a l1 IH]; intros H1 H2 Hd; cbn [app]; [exact H2|].
  inversion H1 as [|? ? Hn H1']; subst. constructor.
  - rewrite in_app_iff. intros [H|H]; [contradiction|]. apply (Hd a); [left; reflexivity | exact H].
  - apply IH; auto. intros x Hx. apply Hd. right; exact Hx.
Qed.

Lemma NoDup_flat_map_intro {A B} (f : A -> list B) l :
  NoDup l -> (forall a, In a l -> NoDup (f a)) ->
  (forall a a' x, In a l -> In a' l -> In x (f a) -> In x (f a') -> a = a') ->
  NoDup (flat_map f l).
Proof.
  induction l as [|a l IH]; intros Hl Hf Hd; cbn [flat_map]; [constructor|].
  inversion Hl as [|? ? Hn Hl']; subst. apply NoDup_app_intro.
  - apply Hf. left; reflexivity.
  - apply IH; auto.
    + intros a' Ha'. apply Hf. right; exact Ha'.
    + intros a1 a2 x H1 H2. apply Hd; right; assumption.
  - intros x Hx Hy. apply in_flat_map in Hy. destruct Hy as (a' & Ha' & Hy).
    apply Hn. rewrite (Hd a a' x); auto; [left; reflexivity | right; exact Ha'].
Qed.

Lemma NoDup_map_inj_in {A B} (f : A -> B) l :
  (forall x y, In x l -> In y l -> f x = f y -> x = y) -> NoDup l -> NoDup (map f l).
Proof.
  induction l as [|a l IH]; intros Hinj Hl; cbn [map]; [constructor|].
  inversion Hl as [|? ? Hn Hl']; subst. constructor.
  - intros Hin. apply in_map_iff in Hin. destruct Hin as (y & E & Hy).
    apply Hn. rewrite <- (Hinj y a); auto; [right; exact Hy | left; reflexivity].
  - apply IH; auto. intros x y Hx Hy. apply Hinj; right; assumption.
Qed.

Lemma map_flat_map_eq {A B C} (f : B -> C) (h : A -> list B) l :
  map f (flat_map h l) = flat_map (fun x => map f (h x)) l.
Proof. induction l as [|a l IH]; cbn [flat_map map]; [reflexivity|]. now rewrite map_app, IH. Qed.

Lemma NoDup_firstn {A} n (l : list A) : NoDup l -> NoDup (firstn n l).
Proof.
  revert l. induction n as [|n IH]; intros [|a l] H; cbn [firstn]; try constructor.
  - inversion H as [|? ? Hn H']; subst. intros Hin. apply Hn. now apply in_firstn in Hin.
  - inversion H; subst. now apply IH.
Qed.

Lemma firstn_map_eq {A B} (f : A -> B) n l : firstn n (map f l) = map f (firstn n l).
Proof.
  revert l. induction n as [|n IH]; intros [|a l]; cbn [firstn map]; try reflexivity. now rewrite IH.
Qed.

Lemma NoDup_single {A} (x : A) : NoDup [x].
Proof. constructor; [intros [] | constructor]. Qed.

(* ---- NoDup of the generated lists of Gen/Geometry.v ------------------------------------------ *)

Lemma rook_dirs_nodup : NoDup GEN_ROOK_DIRS.
Proof. apply nodup_pos_sound. vm_compute. reflexivity. Qed.
Lemma bishop_dirs_nodup : NoDup GEN_BISHOP_DIRS.
Proof. apply nodup_pos_sound. vm_compute. reflexivity. Qed.
Lemma queen_dirs_nodup : NoDup GEN_QUEEN_DIRS.
Proof. apply nodup_pos_sound. vm_compute. reflexivity. Qed.
Lemma knight_deltas_nodup : NoDup GEN_KNIGHT_DELTAS.
Proof. apply nodup_pos_sound. vm_compute. reflexivity. Qed.
Lemma king_deltas_nodup : NoDup GEN_KING_DELTAS.
Proof. apply nodup_pos_sound. vm_compute. reflexivity. Qed.
Lemma side_deltas_nodup c : NoDup (PAWN_SIDE_DELTAS c).
Proof. apply nodup_pos_sound. destruct c; vm_compute; reflexivity. Qed.

Fixpoint nodup_kind (l : list kind) : bool :=
  match l with
  | [] => true
  | x :: t => negb (existsb (kind_eqb x) t) && nodup_kind t
  end.

Lemma nodup_kind_sound l : nodup_kind l = true -> NoDup l.
Proof.
  induction l as [|x t IH]; cbn [nodup_kind]; intros H; [constructor|].
  apply andb_true_iff in H. destruct H as [H1 H2]. constructor; [|now apply IH].
  intros Hin. apply negb_true_iff in H1.
  assert (existsb (kind_eqb x) t = true) as E; [|congruence].
  apply existsb_exists. exists x. split; [assumption | apply kind_eqb_refl].
Qed.

Lemma promo_push_nodup : NoDup PROMOTION_KINDS_PUSH.
Proof. apply nodup_kind_sound. vm_compute. reflexivity. Qed.
Lemma promo_capture_nodup : NoDup PROMOTION_KINDS_CAPTURE.
Proof. apply nodup_kind_sound. vm_compute. reflexivity. Qed.

(* ---- geometry: a target determines the multiple and the direction ------------------------------ *)

Lemma step_inj_k p d k k' : is_dir d = true -> step p k d = step p k' d -> k = k'.
Proof.
  intros Hd E. apply is_dir_cases in Hd. destruct d as [r c]. unfold step in E.
  cbn [fst snd] in *. injection E as E1 E2.
  destruct Hd as ([-> | [-> | ->]] & [-> | [-> | ->]] & Hz); lia.
Qed.

Lemma step_inj_d p d d' k k' :
  is_dir d = true -> is_dir d' = true -> 1 <= k -> 1 <= k' ->
  step p k d = step p k' d' -> d = d'.
Proof.
  intros Hd Hd' Hk Hk' E. apply is_dir_cases in Hd, Hd'.
  destruct d as [r c], d' as [r' c']. unfold step in E. cbn [fst snd] in *. injection E as E1 E2.
  destruct Hd as ([-> | [-> | ->]] & [-> | [-> | ->]] & Hz);
    destruct Hd' as ([-> | [-> | ->]] & [-> | [-> | ->]] & Hz');
    first [reflexivity | exfalso; lia].
Qed.

Lemma plus_inj p d d' : plus p d = plus p d' -> d = d'.
Proof.
  destruct d as [r c], d' as [r' c']. unfold plus. cbn [fst snd]. intros E. injection E as E1 E2.
  f_equal; lia.
Qed.

(* ---- sliders ------------------------------------------------------------------------------------ *)

Lemma ray_moves_sm g self p d : forall fuel x sm,
  In sm (map abs_move (ray_moves fuel g self p d x)) ->
  exists k, x <= k /\ sm = mkSMove p (step p k d) None.
Proof.
  induction fuel as [|f IH]; intros x sm Hin; cbn [ray_moves] in Hin; [contradiction|].
  destruct (add_cases p (scale x d)) as [[E Hv] | [E Hv]]; rewrite E in Hin; [|contradiction].
  rewrite plus_scale in *.
  destruct (gget g (step p x d)) as [pc|].
  - destruct (negb (color_eqb (po pc) (g_player g))); [|contradiction].
    destruct Hin as [<-|[]]. exists x. split; [lia | reflexivity].
  - destruct Hin as [<-|Hin].
    + exists x. split; [lia | reflexivity].
    + destruct (IH (x + 1) sm Hin) as (k & Hk & ->). exists k. split; [lia | reflexivity].
Qed.

Lemma ray_moves_nodup g self p d :
  is_dir d = true -> forall fuel x, NoDup (map abs_move (ray_moves fuel g self p d x)).
Proof.
  intros Hd. induction fuel as [|f IH]; intros x; cbn [ray_moves]; [constructor|].
  destruct (add_cases p (scale x d)) as [[E Hv] | [E Hv]]; rewrite E; [|constructor].
  rewrite plus_scale in *.
  destruct (gget g (step p x d)) as [pc|].
  - destruct (negb (color_eqb (po pc) (g_player g))); [apply NoDup_single | constructor].
  - cbn [map abs_move]. constructor; [|apply IH].
    intros Hin. apply ray_moves_sm in Hin. destruct Hin as (k & Hk & Ek).
    apply (f_equal m_to) in Ek. cbn [m_to] in Ek. apply step_inj_k in Ek; [lia | exact Hd].
Qed.

Lemma slider_moves_nodup g self p dirs :
  NoDup dirs -> (forall d, In d dirs -> is_dir d = true) ->
  NoDup (map abs_move (slider_moves g self p dirs)).
Proof.
  intros Hnd Hdir. unfold slider_moves. rewrite map_flat_map_eq. apply NoDup_flat_map_intro.
  - exact Hnd.
  - intros d Hd. apply ray_moves_nodup. now apply Hdir.
  - intros d d' sm Hd Hd' H1 H2.
    apply ray_moves_sm in H1, H2. destruct H1 as (k & Hk & ->). destruct H2 as (k' & Hk' & E).
    apply (f_equal m_to) in E. cbn [m_to] in E. apply (step_inj_d p d d' k k'); auto.
Qed.

Lemma rook_dir_ok d : In d GEN_ROOK_DIRS -> is_dir d = true.
Proof. intros H. apply gen_rook_spec in H. now apply rook_dir_is_dir. Qed.
Lemma bishop_dir_ok d : In d GEN_BISHOP_DIRS -> is_dir d = true.
Proof. intros H. apply gen_bishop_spec in H. now apply bishop_dir_is_dir. Qed.
Lemma queen_dir_ok d : In d GEN_QUEEN_DIRS -> is_dir d = true.
Proof. intros H. now apply gen_queen_spec in H. Qed.

(* ---- one step along each delta of a list (knight, king) ----------------------------------------- *)

Definition delta_moves (F : pos -> list Move) (p : pos) (deltas : list (Z * Z)) : list Move :=
  flat_map (fun d => match add p d with Some np => F np | None => [] end) deltas.

Definition at_most_one (p : pos) (F : pos -> list Move) : Prop :=
  forall np, F np = [] \/ exists pc cap, F np = [Normal pc p np cap].

Lemma delta_moves_sm F p deltas sm :
  at_most_one p F -> In sm (map abs_move (delta_moves F p deltas)) ->
  exists d, In d deltas /\ sm = mkSMove p (plus p d) None.
Proof.
  intros HF Hin. unfold delta_moves in Hin. rewrite map_flat_map_eq in Hin.
  apply in_flat_map in Hin. destruct Hin as (d & Hd & Hin). exists d. split; [exact Hd|].
  destruct (add_cases p d) as [[E Hv] | [E Hv]]; rewrite E in Hin; [|contradiction].
  destruct (HF (plus p d)) as [E0 | (pc & cap & E1)].
  - rewrite E0 in Hin. contradiction.
  - rewrite E1 in Hin. destruct Hin as [<-|[]]. reflexivity.
Qed.

Lemma delta_moves_nodup F p deltas :
  at_most_one p F -> NoDup deltas -> NoDup (map abs_move (delta_moves F p deltas)).
Proof.
  intros HF Hnd. unfold delta_moves. rewrite map_flat_map_eq. apply NoDup_flat_map_intro.
  - exact Hnd.
  - intros d Hd. destruct (add p d) as [np|]; [|constructor].
    destruct (HF np) as [-> | (pc & cap & ->)]; [constructor | apply NoDup_single].
  - intros d d' sm Hd Hd' H1 H2.
    assert (X : forall e, In sm (map abs_move match add p e with Some np => F np | None => [] end) ->
                          sm = mkSMove p (plus p e) None).
    { intros e Hin. destruct (add_cases p e) as [[E Hv] | [E Hv]]; rewrite E in Hin; [|contradiction].
      destruct (HF (plus p e)) as [E0 | (pc & cap & E1)].
      - rewrite E0 in Hin. contradiction.
      - rewrite E1 in Hin. destruct Hin as [<-|[]]. reflexivity. }
    apply X in H1, H2. rewrite H1 in H2. apply (f_equal m_to) in H2. cbn [m_to] in H2.
    now apply plus_inj in H2.
Qed.

Definition knight_F (g : game) (self : piece) (p : pos) (np : pos) : list Move :=
  if own g (gget g np) then [] else [Normal self p np (gget g np)].

Definition king_F (g : game) (self : piece) (p : pos) (np : pos) : list Move :=
  if own g (gget g np) then []
  else if (Z.abs (fst np - fst (king_pos g (other (g_player g)))) <=? 1)
          && (Z.abs (snd np - snd (king_pos g (other (g_player g)))) <=? 1) then []
  else [Normal self p np (gget g np)].

Lemma knight_moves_delta g self p :
  knight_moves g self p = delta_moves (knight_F g self p) p GEN_KNIGHT_DELTAS.
Proof. reflexivity. Qed.

Lemma king_steps_delta_eq g self p :
  king_steps g self p = delta_moves (king_F g self p) p GEN_KING_DELTAS.
Proof. reflexivity. Qed.

Lemma knight_F_one g self p : at_most_one p (knight_F g self p).
Proof.
  intros np. unfold knight_F. destruct (own g (gget g np)); [left; reflexivity|].
  right. eexists _, _. reflexivity.
Qed.

Lemma king_F_one g self p : at_most_one p (king_F g self p).
Proof.
  intros np. unfold king_F. destruct (own g (gget g np)); [left; reflexivity|].
  match goal with |- (if ?c then _ else _) = _ \/ _ => destruct c end; [left; reflexivity|].
  right. eexists _, _. reflexivity.
Qed.

(* ---- castling ---------------------------------------------------------------------------------------- *)

Lemma castling_sm g sm :
  In sm (map abs_move (castling_moves g)) ->
  exists col, (col = 6 \/ col = 2)
              /\ sm = mkSMove (home_row (g_player g), 4) (home_row (g_player g), col) None.
Proof.
  intros Hin. apply in_map_iff in Hin. destruct Hin as (m & <- & Hin).
  apply castling_moves_inv in Hin. cbv zeta in Hin.
  destruct Hin as [(-> & _) | (-> & _)]; [exists 6 | exists 2]; split; auto.
Qed.

Lemma castling_nodup g : NoDup (map abs_move (castling_moves g)).
Proof.
  unfold castling_moves. cbv zeta. destruct (g_player g); cbv beta iota;
    repeat match goal with |- context [if ?c then [?m] else []] => destruct c end;
    cbn [app map abs_move]; repeat constructor; cbn [In]; try tauto;
    intros [H|[]]; discriminate.
Qed.

(* ---- pawns --------------------------------------------------------------------------------------------- *)

(* the moves arriving on [np] *)
Definition arrive_list (g : game) (self : piece) (p np : pos) (cap : option piece) (l : list kind)
  : list Move :=
  if PAWN_LAST_ROW (po self) =? fst np
  then map (fun k => Promotion (g_player g) k p np cap) l
  else [Normal self p np cap].

Lemma arrive_list_sm g self p np cap l sm :
  In sm (map abs_move (arrive_list g self p np cap l)) -> m_from sm = p /\ m_to sm = np.
Proof.
  unfold arrive_list. destruct (PAWN_LAST_ROW (po self) =? fst np).
  - rewrite map_map. cbn [abs_move]. intros Hin. apply in_map_iff in Hin.
    destruct Hin as (k & <- & _). split; reflexivity.
  - intros [<-|[]]. split; reflexivity.
Qed.

Lemma arrive_list_nodup g self p np cap l :
  NoDup l -> NoDup (map abs_move (arrive_list g self p np cap l)).
Proof.
  intros Hl. unfold arrive_list. destruct (PAWN_LAST_ROW (po self) =? fst np).
  - rewrite map_map. cbn [abs_move]. apply NoDup_map_inj_in; [|exact Hl].
    intros x y _ _ E. now injection E.
  - apply NoDup_single.
Qed.

Lemma pawn_single_eq g self p :
  pawn_single g self p
  = match add p (PAWN_NORMAL_DELTA (po self)) with
    | Some np => if is_none (gget g np) then arrive_list g self p np None PROMOTION_KINDS_PUSH else []
    | None => []
    end.
Proof. reflexivity. Qed.

Definition capture_F (g : game) (self : piece) (p : pos) (d : Z * Z) : list Move :=
  match add p d with
  | Some np =>
      match gget g np with
      | Some pc =>
          if negb (color_eqb (po pc) (po self))
          then arrive_list g self p np (gget g np) PROMOTION_KINDS_CAPTURE else []
      | None => []
      end
  | None => []
  end.

Lemma pawn_captures_eq g self p :
  pawn_captures g self p = flat_map (capture_F g self p) (PAWN_SIDE_DELTAS (po self)).
Proof. reflexivity. Qed.

Lemma capture_F_sm g self p d sm :
  In sm (map abs_move (capture_F g self p d)) ->
  m_from sm = p /\ m_to sm = plus p d /\ gget g (plus p d) <> None.
Proof.
  unfold capture_F. destruct (add_cases p d) as [[E Hv] | [E Hv]]; rewrite E; [|contradiction].
  destruct (gget g (plus p d)) as [pc|] eqn:Eg; [|contradiction].
  destruct (negb (color_eqb (po pc) (po self))); [|contradiction].
  intros Hin. apply arrive_list_sm in Hin. destruct Hin as [H1 H2].
  split; [exact H1|]. split; [exact H2 | discriminate].
Qed.

Lemma capture_F_nodup g self p d : NoDup (map abs_move (capture_F g self p d)).
Proof.
  unfold capture_F. destruct (add p d) as [np|]; [|constructor].
  destruct (gget g np) as [pc|]; [|constructor].
  destruct (negb (color_eqb (po pc) (po self))); [|constructor].
  apply arrive_list_nodup. exact promo_capture_nodup.
Qed.

Lemma pawn_captures_sm g self p sm :
  In sm (map abs_move (pawn_captures g self p)) ->
  exists d, In d (PAWN_SIDE_DELTAS (po self))
            /\ m_from sm = p /\ m_to sm = plus p d /\ gget g (plus p d) <> None.
Proof.
  rewrite pawn_captures_eq, map_flat_map_eq. intros Hin. apply in_flat_map in Hin.
  destruct Hin as (d & Hd & Hin). exists d. split; [exact Hd|]. now apply (capture_F_sm g self p d sm).
Qed.

Lemma pawn_captures_nodup g self p : NoDup (map abs_move (pawn_captures g self p)).
Proof.
  rewrite pawn_captures_eq, map_flat_map_eq. apply NoDup_flat_map_intro.
  - apply side_deltas_nodup.
  - intros d _. apply capture_F_nodup.
  - intros d d' sm _ _ H1 H2. apply capture_F_sm in H1, H2.
    destruct H1 as (_ & T1 & _). destruct H2 as (_ & T2 & _). rewrite T1 in T2.
    now apply plus_inj in T2.
Qed.

Lemma pawn_single_sm g self p sm :
  In sm (map abs_move (pawn_single g self p)) ->
  m_from sm = p /\ m_to sm = plus p (PAWN_NORMAL_DELTA (po self)).
Proof.
  rewrite pawn_single_eq.
  destruct (add_cases p (PAWN_NORMAL_DELTA (po self))) as [[E Hv] | [E Hv]]; rewrite E; [|contradiction].
  destruct (is_none (gget g (plus p (PAWN_NORMAL_DELTA (po self))))); [|contradiction].
  apply arrive_list_sm.
Qed.

Lemma pawn_single_nodup g self p : NoDup (map abs_move (pawn_single g self p)).
Proof.
  rewrite pawn_single_eq. destruct (add p (PAWN_NORMAL_DELTA (po self))) as [np|]; [|constructor].
  destruct (is_none (gget g np)); [|constructor].
  apply arrive_list_nodup. exact promo_push_nodup.
Qed.

Lemma pawn_double_sm g self p sm :
  In sm (map abs_move (pawn_double g self p)) ->
  m_from sm = p /\ m_to sm = plus p (PAWN_FIRST_DELTA (po self)).
Proof.
  unfold pawn_double.
  match goal with |- In _ (map _ (if ?c then _ else _)) -> _ => destruct c end; [|contradiction].
  intros [<-|[]]. split; reflexivity.
Qed.

Lemma pawn_double_nodup g self p : NoDup (map abs_move (pawn_double g self p)).
Proof.
  unfold pawn_double.
  match goal with |- NoDup (map _ (if ?c then _ else _)) => destruct c end;
    [apply NoDup_single | constructor].
Qed.

Lemma pawn_ep_sm g self p sm :
  In sm (map abs_move (pawn_ep g self p)) ->
  fst p = PAWN_EP_ROW (po self) /\ st_ep (gstate_of g) < 8
  /\ Z.abs (st_ep (gstate_of g) - snd p) = 1
  /\ sm = mkSMove (fst (ep_rows (g_player g)), snd p)
                  (snd (ep_rows (g_player g)), st_ep (gstate_of g)) None.
Proof.
  intros Hin. apply in_map_iff in Hin. destruct Hin as (m & <- & Hin).
  apply pawn_ep_inv in Hin. destruct Hin as (-> & H1 & H2 & H3). now repeat split.
Qed.

Lemma pawn_ep_nodup g self p : NoDup (map abs_move (pawn_ep g self p)).
Proof.
  unfold pawn_ep.
  match goal with |- NoDup (map _ (if ?c then _ else _)) => destruct c end;
    [apply NoDup_single | constructor].
Qed.

Lemma pawn_moves_nodup g self p :
  RuleInv g -> po self = g_player g -> NoDup (map abs_move (pawn_moves g self p)).
Proof.
  intros HR Ho. rewrite pawn_moves_split, !map_app.
  pose proof (pawn_geom (po self)) as (G1 & G2 & G3 & _ & _ & _ & G7 & G8).
  assert (Hside : forall d, In d (PAWN_SIDE_DELTAS (po self)) ->
                            fst d = fst (PAWN_NORMAL_DELTA (po self)) /\ Z.abs (snd d) = 1)
    by (intros d; apply side_delta).
  apply NoDup_app_intro; [apply pawn_double_nodup | |].
  - apply NoDup_app_intro; [apply pawn_single_nodup | |].
    + apply NoDup_app_intro; [apply pawn_captures_nodup | apply pawn_ep_nodup |].
      (* capture / en passant: the same square can be the target, occupied / empty *)
      intros sm H1 H2. apply pawn_captures_sm in H1. destruct H1 as (d & Hd & _ & T & Hocc).
      apply pawn_ep_sm in H2. destruct H2 as (Hrow & Hlt & _ & ->). cbn [m_to] in T.
      destruct (ri_ep g HR Hlt) as [_ Hemp]. apply Hocc. rewrite <- T. exact Hemp.
    + (* single / capture, en passant: different files *)
      intros sm H1 H2. apply pawn_single_sm in H1. destruct H1 as (_ & T1).
      apply in_app_or in H2. destruct H2 as [H2|H2].
      * apply pawn_captures_sm in H2. destruct H2 as (d & Hd & _ & T2 & _).
        destruct (Hside d Hd) as [_ Hc]. rewrite T1 in T2. apply plus_inj in T2. subst d. lia.
      * apply pawn_ep_sm in H2. destruct H2 as (_ & _ & Hc & ->). cbn [m_to] in T1.
        unfold plus in T1. injection T1 as _ T1. lia.
  - (* double / the rest: different rows *)
    intros sm H1 H2. apply pawn_double_sm in H1. destruct H1 as (_ & T1).
    rewrite G3 in T1. unfold plus in T1. cbn [fst snd] in T1.
    apply in_app_or in H2. destruct H2 as [H2|H2]; [|apply in_app_or in H2; destruct H2 as [H2|H2]].
    + apply pawn_single_sm in H2. destruct H2 as (_ & T2). rewrite T1 in T2.
      unfold plus in T2. injection T2 as T2 _. lia.
    + apply pawn_captures_sm in H2. destruct H2 as (d & Hd & _ & T2 & _).
      destruct (Hside d Hd) as [Hr _]. rewrite T1 in T2. unfold plus in T2. injection T2 as T2 _. lia.
    + apply pawn_ep_sm in H2. destruct H2 as (Hrow & _ & _ & ->). cbn [m_to] in T1.
      injection T1 as T1 _. rewrite <- Ho, <- G8, <- Hrow in T1. lia.
Qed.

(* ---- one piece ----------------------------------------------------------------------------------------- *)

Lemma king_moves_nodup g self p : NoDup (map abs_move (king_moves g self p)).
Proof.
  unfold king_moves. rewrite map_app. apply NoDup_app_intro.
  - rewrite king_steps_delta_eq. apply delta_moves_nodup; [apply king_F_one | exact king_deltas_nodup].
  - apply castling_nodup.
  - intros sm H1 H2. rewrite king_steps_delta_eq in H1.
    apply delta_moves_sm in H1; [|apply king_F_one]. destruct H1 as (d & Hd & ->).
    apply castling_sm in H2. destruct H2 as (col & Hcol & E).
    apply gen_king_spec in Hd. apply is_dir_cases in Hd.
    assert (Ef := f_equal m_from E). assert (Et := f_equal m_to E). cbn [m_from m_to] in Ef, Et.
    unfold plus in Et. rewrite Ef in Et. cbn [fst snd] in Et.
    apply (f_equal snd) in Et. cbn [snd] in Et. lia.
Qed.

Lemma piece_moves_nodup g self p :
  RuleInv g -> po self = g_player g -> NoDup (map abs_move (piece_moves g self p)).
Proof.
  intros HR Ho. unfold piece_moves. destruct (pk self).
  - apply slider_moves_nodup; [exact queen_dirs_nodup | exact queen_dir_ok].
  - apply slider_moves_nodup; [exact rook_dirs_nodup | exact rook_dir_ok].
  - apply slider_moves_nodup; [exact bishop_dirs_nodup | exact bishop_dir_ok].
  - rewrite knight_moves_delta.
    apply delta_moves_nodup; [apply knight_F_one | exact knight_deltas_nodup].
  - now apply pawn_moves_nodup.
  - apply king_moves_nodup.
Qed.

(* every move generated for the piece on [p] starts on [p] *)
Lemma piece_moves_from g self p m :
  RuleInv g -> src_ok g self p -> In m (piece_moves g self p) -> m_from (abs_move m) = p.
Proof.
  intros HR Hsrc Hin.
  assert (Hstep : step_shape g self p m -> m_from (abs_move m) = p).
  { intros (np & cap & -> & _). reflexivity. }
  assert (Harr : forall np cap, pawn_arrive g self p np cap m -> m_from (abs_move m) = p).
  { intros np cap [(_ & k & _ & ->) | (_ & ->)]; reflexivity. }
  unfold piece_moves in Hin. destruct (pk self) eqn:Ek.
  - apply Hstep. apply (slider_moves_shape _ _ _ _ _ queen_dir_nz Hin).
  - apply Hstep. apply (slider_moves_shape _ _ _ _ _ rook_dir_nz Hin).
  - apply Hstep. apply (slider_moves_shape _ _ _ _ _ bishop_dir_nz Hin).
  - apply Hstep. now apply knight_moves_shape.
  - apply pawn_moves_inv in Hin. destruct Hin as [H|[H|[H|H]]].
    + destruct H as (-> & _). reflexivity.
    + destruct H as (np & _ & _ & H). now apply (Harr np None).
    + destruct H as (d & np & c & _ & _ & _ & _ & H). now apply (Harr np (Some c)).
    + destruct H as (-> & Hrow & _). cbn [abs_move m_from].
      pose proof (pawn_geom (po self)) as (_ & _ & _ & _ & _ & _ & G7 & _).
      destruct Hsrc as (_ & _ & Ho). rewrite <- Ho, <- G7, <- Hrow. now destruct p.
  - unfold king_moves in Hin. apply in_app_or in Hin. destruct Hin as [Hin|Hin].
    + apply Hstep. now apply king_steps_shape.
    + destruct (king_src g self p HR Hsrc Ek) as [Hkp Hke].
      pose proof (castling_moves_ok g m HR Hke Hin) as Hok.
      apply castling_moves_inv in Hin. cbv zeta in Hin.
      destruct Hin as [(-> & _) | (-> & _)]; cbn [abs_move m_from gen_ok] in *;
        destruct Hok as (_ & Hk & _); congruence.
Qed.

(* ---- the whole list -------------------------------------------------------------------------------------- *)

Theorem gen_nodup : forall g, RepInv g -> NoDup (map abs_move (pseudo_moves_all g)).
Proof.
  intros g [_ HR]. unfold pseudo_moves_all. rewrite map_flat_map_eq.
  apply NoDup_flat_map_intro.
  - rewrite all_squares_eq. exact squares64_nodup.
  - intros p Hp. destruct (gget g p) as [pc|] eqn:Eg; [|constructor].
    destruct (color_eqb (po pc) (g_player g)) eqn:Ec; [|constructor].
    apply color_eqb_eq in Ec. now apply piece_moves_nodup.
  - assert (X : forall p sm, In p all_squares ->
                  In sm (map abs_move match gget g p with
                                      | Some pc => if color_eqb (po pc) (g_player g)
                                                   then piece_moves g pc p else []
                                      | None => []
                                      end) -> m_from sm = p).
    { intros p sm Hp Hin. destruct (gget g p) as [pc|] eqn:Eg; [|contradiction].
      destruct (color_eqb (po pc) (g_player g)) eqn:Ec; [|contradiction].
      apply color_eqb_eq in Ec. apply in_map_iff in Hin. destruct Hin as (m & <- & Hin).
      apply (piece_moves_from g pc p m HR); [|exact Hin].
      split; [now apply all_squares_valid | now split]. }
    intros p p' sm Hp Hp' H1 H2. rewrite <- (X p sm Hp H1). now apply X.
Qed.
Print Assumptions gen_nodup.

Theorem gen_nodup_moves : forall g, RepInv g -> NoDup (pseudo_moves_all g).
Proof. intros g HR. apply (NoDup_map_inv abs_move). now apply gen_nodup. Qed.
Print Assumptions gen_nodup_moves.

(* ---- the standard text is injective on well-formed triples --------------------------------------------- *)

Definition smove_ok (sm : smove) : Prop :=
  valid (m_from sm) /\ valid (m_to sm)
  /\ match m_promo sm with None => True | Some k => promo_kind k end.

Theorem move_text_inj : forall a b, smove_ok a -> smove_ok b -> move_text a = move_text b -> a = b.
Proof.
  intros [[fr fc] [tr tc] pa] [[fr' fc'] [tr' tc'] pb] (Hf & Ht & Hp) (Hf' & Ht' & Hp') E.
  unfold move_text, file_letter, rank_digit in E. cbn [m_from m_to m_promo fst snd app] in E.
  unfold valid in *. cbn [fst snd m_from m_to m_promo] in *.
  injection E as E1 E2 E3 E4 E5.
  assert (fc = fc') by lia. assert (fr = fr') by lia.
  assert (tc = tc') by lia. assert (tr = tr') by lia. subst.
  f_equal.
  destruct pa as [ka|], pb as [kb|]; unfold promo_kind in *.
  - destruct Hp as [->|[->|[->| ->]]], Hp' as [->|[->|[->| ->]]]; try reflexivity; discriminate.
  - destruct Hp as [->|[->|[->| ->]]]; discriminate.
  - destruct Hp' as [->|[->|[->| ->]]]; discriminate.
  - reflexivity.
Qed.
Print Assumptions move_text_inj.

Lemma gen_ok_smove_ok g m : gen_ok g m -> smove_ok (abs_move m).
Proof.
  destruct m as [pc s e cap | o k s e cap | o | o | o sc ec]; cbn [gen_ok abs_move]; unfold smove_ok;
    cbn [m_from m_to m_promo].
  - intros (H1 & H2 & _). auto.
  - intros (_ & Hk & H1 & H2 & _). auto.
  - intros _. destruct o; unfold valid; cbn [fst snd home_row]; repeat split; lia.
  - intros _. destruct o; unfold valid; cbn [fst snd home_row]; repeat split; lia.
  - intros (_ & H1 & H2 & _). destruct o; unfold valid; cbn [fst snd ep_rows]; repeat split; lia.
Qed.

Theorem gen_nodup_uci : forall g, RepInv g -> NoDup (map uci (pseudo_moves_all g)).
Proof.
  intros g HR.
  assert (E : map uci (pseudo_moves_all g) = map move_text (map abs_move (pseudo_moves_all g))).
  { rewrite map_map. apply map_ext_in. intros m Hm. apply (uci_is_standard g). now apply gen_ok_all. }
  rewrite E. apply NoDup_map_inj_in; [|now apply gen_nodup].
  intros x y Hx Hy. apply in_map_iff in Hx, Hy.
  destruct Hx as (m1 & <- & H1). destruct Hy as (m2 & <- & H2).
  apply move_text_inj; apply (gen_ok_smove_ok g); now apply gen_ok_all.
Qed.
Print Assumptions gen_nodup_uci.

(* ---- the truncated buffer is a prefix ------------------------------------------------------------------------ *)

Lemma pseudo_moves_prefix g :
  pseudo_moves g = firstn (Z.to_nat MOVE_BUFFER_CAP) (pseudo_moves_all g) \/ pseudo_moves g = [].
Proof. unfold pseudo_moves. destruct (king_exists g (g_player g)); auto. Qed.

Theorem gen_nodup_pseudo : forall g, RepInv g ->
  NoDup (map abs_move (pseudo_moves g)) /\ NoDup (pseudo_moves g) /\ NoDup (map uci (pseudo_moves g)).
Proof.
  intros g HR. destruct (pseudo_moves_prefix g) as [-> | ->]; [|cbn [map]; repeat split; constructor].
  rewrite <- !firstn_map_eq. repeat split; apply NoDup_firstn.
  - now apply gen_nodup.
  - now apply gen_nodup_moves.
  - now apply gen_nodup_uci.
Qed.
Print Assumptions gen_nodup_pseudo.
