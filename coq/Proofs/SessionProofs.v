(* Theorems about the sequential model of the UCI command handling (Model/Session.v):
   1. `ucinewgame` restores the initial state, so everything that follows is reproduced exactly
      (C19); the output of `go` is a function of (game, table, limit, stop index).
   5. `go` drops the game and keeps the table of the search.
   4. every game left by `position` has fewer than GAME_LENGTH_GUARD states (C15).
   2. every game left by `position` after a sane import was reached by legal play (C12/C02).
   3. a move string of move shape is played iff it is the text of a legal move (C12).
   6. non-vacuity examples, and the invariant of a whole command sequence. *)
From Coq Require Import Lia.
From Chess Require Import Model.Text Model.Search Model.Session Spec.Rules Spec.FenSpec Spec.Notation.
From Chess Require Import Proofs.Grid Proofs.Inv Proofs.Abs Proofs.GenOk Proofs.FenImport1 Proofs.FenImport2 Proofs.Reach
  Proofs.TextProofs Proofs.Bounds Proofs.SearchInv1 Proofs.SearchInv2 Proofs.LegalMoves Proofs.Top.
Import ListNotations.
Open Scope Z_scope.

(* ---- 0. projection lemmas ------------------------------------------------------------------------ *)

Lemma run_cmds_nil s : run_cmds s [] = (s, []).
Proof. reflexivity. Qed.

Lemma run_cmds_cons s c cs :
  run_cmds s (c :: cs) =
  (fst (run_cmds (fst (run_cmd s c)) cs), snd (run_cmd s c) ++ snd (run_cmds (fst (run_cmd s c)) cs)).
Proof.
  cbn [run_cmds]. destruct (run_cmd s c) as [s1 o1]. cbn [fst snd].
  destruct (run_cmds s1 cs) as [s2 o2]. reflexivity.
Qed.

Lemma run_cmds_app s a b :
  run_cmds s (a ++ b) =
  (fst (run_cmds (fst (run_cmds s a)) b), snd (run_cmds s a) ++ snd (run_cmds (fst (run_cmds s a)) b)).
Proof.
  revert s. induction a as [|c a IH]; intros s.
  - cbn [app run_cmds fst snd]. destruct (run_cmds s b); reflexivity.
  - cbn [app]. rewrite !run_cmds_cons, IH. cbn [fst snd]. rewrite app_assoc. reflexivity.
Qed.

(* ---- 1. ucinewgame resets; go is a function --------------------------------------------------------- *)

Lemma newgame_is_init s : newgame_cmd s = init_session.
Proof. reflexivity. Qed.

(* C19: whatever was searched before, after `ucinewgame` every command sequence produces exactly
   the outputs (info lines, best moves, errors) and the final state of a fresh process *)
Theorem newgame_resets s cs :
  snd (run_cmds (newgame_cmd s) cs) = snd (run_cmds init_session cs)
  /\ fst (run_cmds (newgame_cmd s) cs) = fst (run_cmds init_session cs).
Proof. rewrite newgame_is_init. split; reflexivity. Qed.

(* the same inside a run: the outputs after a `ucinewgame` do not depend on the prefix *)
Theorem newgame_resets_run s pre cs :
  run_cmds s (pre ++ CNewGame :: cs) =
  (fst (run_cmds init_session cs), snd (run_cmds s pre) ++ snd (run_cmds init_session cs)).
Proof.
  rewrite run_cmds_app, run_cmds_cons. cbn [run_cmd fst snd app].
  rewrite newgame_is_init. reflexivity.
Qed.

Corollary newgame_resets_two_runs s1 s2 pre1 pre2 cs :
  fst (run_cmds s1 (pre1 ++ CNewGame :: cs)) = fst (run_cmds s2 (pre2 ++ CNewGame :: cs))
  /\ exists tail, snd (run_cmds s1 (pre1 ++ CNewGame :: cs)) = snd (run_cmds s1 pre1) ++ tail
               /\ snd (run_cmds s2 (pre2 ++ CNewGame :: cs)) = snd (run_cmds s2 pre2) ++ tail.
Proof.
  rewrite !newgame_resets_run. cbn [fst snd]. split; [reflexivity|].
  exists (snd (run_cmds init_session cs)). split; reflexivity.
Qed.

(* what `go` prints and leaves depends only on the game, the table, the limit and the stop index *)
Theorem go_is_function s1 s2 limit stop_at :
  ss_game s1 = ss_game s2 -> ss_table s1 = ss_table s2 ->
  go_cmd s1 limit stop_at = go_cmd s2 limit stop_at.
Proof.
  intros Hg Ht. destruct s1 as [g1 t1], s2 as [g2 t2]. cbn [ss_game ss_table] in Hg, Ht.
  subst. reflexivity.
Qed.

Theorem go_output s g limit stop_at :
  ss_game s = Some g ->
  snd (go_cmd s limit stop_at) =
  map OInfo (d_lines (driver g (ss_table s) limit stop_at false))
  ++ [OBestMove (option_map uci (d_move (driver g (ss_table s) limit stop_at false)))].
Proof. intros Hg. unfold go_cmd. rewrite Hg. reflexivity. Qed.

(* ---- 5. go drops the game ------------------------------------------------------------------------------ *)

Theorem go_drops_game s g limit stop_at :
  ss_game s = Some g ->
  ss_game (fst (go_cmd s limit stop_at)) = None
  /\ ss_table (fst (go_cmd s limit stop_at)) = s_tbl (d_st (driver g (ss_table s) limit stop_at false)).
Proof. intros Hg. unfold go_cmd. rewrite Hg. split; reflexivity. Qed.

Theorem go_without_game s limit stop_at :
  ss_game s = None -> go_cmd s limit stop_at = (s, [OErrorNoGameGo]).
Proof. intros Hg. unfold go_cmd. rewrite Hg. reflexivity. Qed.

(* after any `go` the session has no game, whether the go was accepted or refused *)
Corollary go_leaves_no_game s limit stop_at : ss_game (fst (go_cmd s limit stop_at)) = None.
Proof.
  destruct (ss_game s) as [g|] eqn:E.
  - exact (proj1 (go_drops_game s g limit stop_at E)).
  - rewrite (go_without_game s limit stop_at E). exact E.
Qed.

(* so a second `go` without a `position` in between is refused and changes nothing *)
Corollary go_go_refused s l1 a1 l2 a2 :
  run_cmds s [CGo l1 a1; CGo l2 a2] =
  (fst (go_cmd s l1 a1), snd (go_cmd s l1 a1) ++ [OErrorNoGameGo]).
Proof.
  rewrite run_cmds_cons, run_cmds_cons, run_cmds_nil. cbn [run_cmd fst snd].
  rewrite (go_without_game _ l2 a2 (go_leaves_no_game s l1 a1)). cbn [fst snd].
  rewrite app_nil_r. reflexivity.
Qed.

Print Assumptions newgame_resets.
Print Assumptions newgame_resets_run.
Print Assumptions go_is_function.
Print Assumptions go_drops_game.
Print Assumptions go_go_refused.

(* ---- the `moves` loop: what one step can do -------------------------------------------------------------- *)

(* one step in terms of the filter [accept] of Proofs/TextProofs.v *)
Lemma move_step_accept g s :
  move_step g s =
  match accept g s with
  | Some m => if GAME_LENGTH_GUARD <=? Z.of_nat (glen (push_history g m))
              then SStop None OErrorTooLong else SPlayed (push_history g m)
  | None => SStop (match from_uci s g with Some _ => Some g | None => None end) (OErrorMove s)
  end.
Proof.
  unfold move_step, accept. destruct (from_uci s g) as [m|]; [|reflexivity].
  destruct (existsb (move_eqb m) (checked_moves g)); reflexivity.
Qed.

Lemma accept_checked g s m : accept g s = Some m -> In m (checked_moves g).
Proof.
  unfold accept. destruct (from_uci s g) as [m'|]; [|discriminate].
  destruct (existsb (move_eqb m') (checked_moves g)) eqn:E; [|discriminate].
  intros H; injection H as <-. now apply existsb_move_eqb.
Qed.

(* a step that goes on has played a checked move with push_history and stayed below the guard *)
Lemma move_step_played g s g' :
  move_step g s = SPlayed g' ->
  exists m, accept g s = Some m /\ In m (checked_moves g) /\ g' = push_history g m
            /\ Z.of_nat (glen g') < GAME_LENGTH_GUARD.
Proof.
  rewrite move_step_accept. destruct (accept g s) as [m|] eqn:Ea; [|discriminate].
  destruct (GAME_LENGTH_GUARD <=? Z.of_nat (glen (push_history g m))) eqn:El; [discriminate|].
  intros H; injection H as <-. exists m. repeat split; try reflexivity.
  - exact (accept_checked g s m Ea).
  - apply Z.leb_gt in El. exact El.
Qed.

(* a step that stops leaves no game or the game as it was *)
Lemma move_step_stopped g s og o :
  move_step g s = SStop og o -> og = None \/ og = Some g.
Proof.
  rewrite move_step_accept. destruct (accept g s) as [m|].
  - destruct (GAME_LENGTH_GUARD <=? _); [|discriminate]. intros H; injection H as <- _. now left.
  - intros H; injection H as <- _. destruct (from_uci s g); [now right | now left].
Qed.

(* the moves played by the loop, as a relation: [plays g l g'] = the moves [l] (first move first)
   are checked moves of the successive games and lead from g to g' by push_history *)
Inductive plays : game -> list Move -> game -> Prop :=
| plays_nil g : plays g [] g
| plays_cons g m l g' : In m (checked_moves g) -> plays (push_history g m) l g' -> plays g (m :: l) g'.

Lemma plays_legal g l g' : plays g l g' -> legal_reachable g -> legal_reachable g'.
Proof.
  induction 1 as [g | g m l g' Hin _ IH]; intros Hr; [exact Hr|].
  apply IH. now apply lr_hist.
Qed.

Lemma plays_glen g l g' : plays g l g' -> glen g' = (glen g + length l)%nat.
Proof.
  induction 1 as [g | g m l g' Hin _ IH]; [cbn [length]; lia|].
  rewrite IH, glen_push_history. cbn [length]. lia.
Qed.

Lemma plays_fold g l g' : plays g l g' -> g' = fold_left push_history l g.
Proof. induction 1 as [g | g m l g' Hin _ IH]; [reflexivity | exact IH]. Qed.

(* the loop: the game it leaves (if any) is the start game followed by checked moves, one for
   each string consumed, at most one per string, and below the guard if the start game was *)
Lemma play_moves_plays g ms g' :
  fst (play_moves g ms) = Some g' ->
  exists l, plays g l g' /\ (length l <= length ms)%nat
            /\ (Z.of_nat (glen g) < GAME_LENGTH_GUARD -> Z.of_nat (glen g') < GAME_LENGTH_GUARD).
Proof.
  revert g. induction ms as [|s rest IH]; intros g H.
  - cbn [play_moves fst] in H. injection H as <-. exists []. repeat split; [constructor | cbn; lia | tauto].
  - cbn [play_moves] in H. destruct (move_step g s) as [g1|og o] eqn:Es.
    + destruct (move_step_played g s g1 Es) as (m & _ & Hin & -> & Hlen).
      destruct (IH _ H) as (l & Hp & Hl & Hg). exists (m :: l). repeat split.
      * now constructor.
      * cbn [length]. lia.
      * intros _. exact (Hg Hlen).
    + cbn [fst] in H. subst og. destruct (move_step_stopped g s _ o Es) as [E | E]; [discriminate|].
      injection E as <-. exists []. repeat split; [constructor | cbn; lia | tauto].
Qed.

(* the outputs of the loop: nothing, or one error at the end *)
Lemma play_moves_out g ms :
  snd (play_moves g ms) = []
  \/ (exists s, In s ms /\ snd (play_moves g ms) = [OErrorMove s])
  \/ snd (play_moves g ms) = [OErrorTooLong].
Proof.
  revert g. induction ms as [|s rest IH]; intros g; [now left|].
  cbn [play_moves]. destruct (move_step g s) as [g1|og o] eqn:Es.
  - destruct (IH g1) as [H | [(s' & Hin & H) | H]]; [now left | | now right; right].
    right; left. exists s'. split; [now right | exact H].
  - cbn [snd]. revert Es. rewrite move_step_accept. destruct (accept g s) as [m|].
    + destruct (GAME_LENGTH_GUARD <=? _); [|discriminate]. intros H; injection H as _ <-. now right; right.
    + intros H; injection H as _ <-. right; left. exists s. split; [now left | reflexivity].
Qed.

(* the loop ends without an error exactly when every string was played *)
Lemma play_moves_all_played g ms :
  snd (play_moves g ms) = [] ->
  exists g' l, fst (play_moves g ms) = Some g' /\ plays g l g' /\ length l = length ms.
Proof.
  revert g. induction ms as [|s rest IH]; intros g H.
  - exists g, []. repeat split. constructor.
  - cbn [play_moves] in *. destruct (move_step g s) as [g1|og o] eqn:Es; [|discriminate].
    destruct (move_step_played g s g1 Es) as (m & _ & Hin & -> & _).
    destruct (IH _ H) as (g' & l & Hf & Hp & Hl). exists g', (m :: l). repeat split.
    + exact Hf.
    + now constructor.
    + cbn [length]. now rewrite Hl.
Qed.

(* ---- position_base ------------------------------------------------------------------------------------------ *)

Lemma start_fen_text : START_FEN_TEXT = START_FEN.
Proof. vm_compute. reflexivity. Qed.

(* Game::default() does not fail: the unwrap in `startpos` is safe *)
Lemma start_import : import START_FEN_TEXT = Ok START.
Proof. vm_compute. reflexivity. Qed.

Lemma start_sane : sane (abs START) = true.
Proof. vm_compute. reflexivity. Qed.

Lemma position_base_import args r add ms :
  position_base args = Some (r, add, ms) -> exists str, r = import str.
Proof.
  unfold position_base. destruct args as [|t rest]; [discriminate|].
  destruct (text_eqb t KW_STARTPOS).
  - remember (import START_FEN_TEXT) as r0 eqn:Er0.
    destruct rest as [|t2 ms']; intros H; injection H as H1 _ _; exists START_FEN_TEXT; congruence.
  - destruct (text_eqb t KW_FEN); [|discriminate].
    destruct (split_moves rest) as [[fields add'] ms'].
    remember (import (join_fields fields)) as r0 eqn:Er0.
    intros H; injection H as H1 _ _. exists (join_fields fields); congruence.
Qed.

(* the unfolding of position_cmd for the three outcomes of the first part *)
Lemma position_cmd_invalid s args : position_base args = None -> position_cmd s args = (s, [OErrorPosition]).
Proof. intros H. unfold position_cmd. rewrite H. reflexivity. Qed.

Lemma position_cmd_ok s args g0 add ms :
  position_base args = Some (Ok g0, add, ms) ->
  position_cmd s args =
  (mkSession (if add then fst (play_moves g0 ms) else Some g0) (ss_table s),
   if add then snd (play_moves g0 ms) else []).
Proof.
  intros H. unfold position_cmd. rewrite H. destruct add; [|reflexivity].
  destruct (play_moves g0 ms); reflexivity.
Qed.

Lemma position_cmd_err s args c add ms :
  position_base args = Some (Err c, add, ms) ->
  position_cmd s args = (mkSession None (ss_table s), [OErrorFen c]).
Proof. intros H. unfold position_cmd. rewrite H. reflexivity. Qed.

(* the table is never touched by `position` *)
Lemma position_table s args : ss_table (fst (position_cmd s args)) = ss_table s.
Proof.
  unfold position_cmd. destruct (position_base args) as [[[r add] ms]|]; [|reflexivity].
  destruct r as [g0|c|c]; try reflexivity.
  destruct (if add then play_moves g0 ms else (Some g0, [])); reflexivity.
Qed.

(* the FEN reader never panics, so `position` never does *)
Theorem position_no_panic s args c : ~ In (OPanic c) (snd (position_cmd s args)).
Proof.
  destruct (position_base args) as [[[r add] ms]|] eqn:Eb.
  - destruct (position_base_import args r add ms Eb) as [str ->].
    pose proof (import_never_panics str) as Hn.
    destruct (import str) as [g0|c'|c'] eqn:Ei.
    + rewrite (position_cmd_ok s args g0 add ms Eb). cbn [snd]. destruct add; [|intros []].
      destruct (play_moves_out g0 ms) as [H | [(s' & _ & H) | H]]; rewrite H; cbn [In]; intros HI;
        repeat (destruct HI as [HI | HI]; try discriminate); exact HI.
    + rewrite (position_cmd_err s args c' add ms Eb). cbn [snd In]. intros [E|[]]; discriminate.
    + destruct Hn.
  - rewrite (position_cmd_invalid s args Eb). cbn [snd In]. intros [E|[]]; discriminate.
Qed.

(* the game a well-formed `position` leaves: the imported game followed by checked moves *)
Theorem position_game_plays s args g0 add ms g :
  position_base args = Some (Ok g0, add, ms) ->
  ss_game (fst (position_cmd s args)) = Some g ->
  exists l, plays g0 l g /\ (length l <= length ms)%nat /\ (add = false -> l = []).
Proof.
  intros Hb. rewrite (position_cmd_ok s args g0 add ms Hb). cbn [fst ss_game]. destruct add.
  - intros H. destruct (play_moves_plays g0 ms g H) as (l & Hp & Hl & _). exists l. repeat split; try assumption.
    discriminate.
  - intros H; injection H as <-. exists []. repeat split; [constructor | cbn; lia].
Qed.

(* ---- 4. the length guard (C15) -------------------------------------------------------------------------------- *)

Lemma import_glen str g : import str = Ok g -> glen g = 1%nat.
Proof. intros H. destruct (import_rule_easy str g H) as (_ & Hl & _). exact Hl. Qed.

(* every game set by `position` has fewer than GAME_LENGTH_GUARD = 400 states, so at most 399
   states enter a search (which may add at most 256 + 128 more: Proofs/BoundsInst.v) *)
Theorem position_length_guard s args g :
  position_base args <> None ->
  ss_game (fst (position_cmd s args)) = Some g -> Z.of_nat (glen g) < GAME_LENGTH_GUARD.
Proof.
  intros Hn Hg. destruct (position_base args) as [[[r add] ms]|] eqn:Eb; [clear Hn | contradiction].
  destruct (position_base_import args r add ms Eb) as [str ->].
  destruct (import str) as [g0|c|c] eqn:Ei.
  - pose proof (import_glen str g0 Ei) as H1.
    rewrite (position_cmd_ok s args g0 add ms Eb) in Hg. cbn [fst ss_game] in Hg. destruct add.
    + destruct (play_moves_plays g0 ms g Hg) as (_ & _ & _ & Hlen). apply Hlen. rewrite H1. vm_compute. reflexivity.
    + injection Hg as <-. rewrite H1. vm_compute. reflexivity.
  - rewrite (position_cmd_err s args c add ms Eb) in Hg. discriminate.
  - pose proof (import_never_panics str) as Hn. rewrite Ei in Hn. destruct Hn.
Qed.

(* an ill-formed `position` keeps the session, so the bound is an invariant of `position` *)
Theorem position_length_guard_inv s args :
  (forall g, ss_game s = Some g -> Z.of_nat (glen g) < GAME_LENGTH_GUARD) ->
  forall g, ss_game (fst (position_cmd s args)) = Some g -> Z.of_nat (glen g) < GAME_LENGTH_GUARD.
Proof.
  intros Hs g Hg. destruct (position_base args) as [b|] eqn:Eb.
  - apply (position_length_guard s args g); [congruence | exact Hg].
  - rewrite (position_cmd_invalid s args Eb) in Hg. exact (Hs g Hg).
Qed.

(* the exact count: a game that came through the loop with k moves played has k + 1 states *)
Theorem position_length_exact s args g0 add ms g :
  position_base args = Some (Ok g0, add, ms) ->
  ss_game (fst (position_cmd s args)) = Some g ->
  (glen g <= 1 + length ms)%nat /\ Z.of_nat (glen g) <= GAME_LENGTH_GUARD - 1.
Proof.
  intros Hb Hg. destruct (position_game_plays s args g0 add ms g Hb Hg) as (l & Hp & Hl & _).
  destruct (position_base_import args _ add ms Hb) as [str Hi]. symmetry in Hi.
  rewrite (plays_glen g0 l g Hp), (import_glen str g0 Hi). split; [lia|].
  assert (Hn : position_base args <> None) by congruence.
  pose proof (position_length_guard s args g Hn Hg) as H.
  rewrite (plays_glen g0 l g Hp), (import_glen str g0 Hi) in H. lia.
Qed.

Print Assumptions position_no_panic.
Print Assumptions position_length_guard.
Print Assumptions position_length_guard_inv.

(* ---- 2. the game left by `position` was reached by legal play (C12 / C02) ----------------------------------------- *)

Theorem position_game_legal s args g0 add ms g :
  position_base args = Some (Ok g0, add, ms) -> sane (abs g0) = true ->
  ss_game (fst (position_cmd s args)) = Some g -> legal_reachable g.
Proof.
  intros Hb Hs Hg. destruct (position_game_plays s args g0 add ms g Hb Hg) as (l & Hp & _).
  apply (plays_legal g0 l g Hp).
  destruct (position_base_import args _ add ms Hb) as [str Hi]. symmetry in Hi.
  exact (lr_import str g0 Hi Hs).
Qed.

Lemma position_base_startpos rest :
  exists add ms, position_base (KW_STARTPOS :: rest) = Some (Ok START, add, ms).
Proof.
  unfold position_base. change (text_eqb KW_STARTPOS KW_STARTPOS) with true. cbv iota.
  rewrite start_import. destruct rest as [|t2 ms]; eauto.
Qed.

(* `position startpos ...` needs no side condition *)
Theorem position_startpos_legal s rest g :
  ss_game (fst (position_cmd s (KW_STARTPOS :: rest))) = Some g -> legal_reachable g.
Proof.
  destruct (position_base_startpos rest) as (add & ms & Hb). exact (position_game_legal s _ START add ms g Hb start_sane).
Qed.

(* as an invariant: an ill-formed `position` keeps the game it found *)
Definition sane_position (args : list text) : Prop :=
  forall g0 add ms, position_base args = Some (Ok g0, add, ms) -> sane (abs g0) = true.

Theorem position_game_legal_inv s args :
  sane_position args ->
  (forall g, ss_game s = Some g -> legal_reachable g) ->
  forall g, ss_game (fst (position_cmd s args)) = Some g -> legal_reachable g.
Proof.
  intros Hsane Hs g Hg. destruct (position_base args) as [[[r add] ms]|] eqn:Eb.
  - destruct r as [g0|c|c].
    + exact (position_game_legal s args g0 add ms g Eb (Hsane g0 add ms Eb) Hg).
    + rewrite (position_cmd_err s args c add ms Eb) in Hg. discriminate.
    + unfold position_cmd in Hg. rewrite Eb in Hg. discriminate.
  - rewrite (position_cmd_invalid s args Eb) in Hg. exact (Hs g Hg).
Qed.

Print Assumptions position_game_plays.
Print Assumptions position_game_legal.
Print Assumptions position_startpos_legal.
Print Assumptions position_game_legal_inv.

(* ---- 3. which move strings are played (C12) ------------------------------------------------------------------------ *)

(* In a game reached by legal play, for a string of move shape (two squares and an optional
   lower-case promotion letter):
   (a) if it is the text of a legal move, that move is played with push_history (or the guard
       fires: no game, "too long");
   (b) if a move is played, it is a legal move whose text is the string;
   (c) if it is the text of no legal move, "Invalid move" is reported, nothing is played, and
       the game is kept as it was or dropped. *)
Theorem position_accepts_exactly_legal g s :
  legal_reachable g -> parse_move s <> None ->
  (forall m, In m (checked_moves g) -> uci m = s ->
     move_step g s = if GAME_LENGTH_GUARD <=? Z.of_nat (glen (push_history g m))
                     then SStop None OErrorTooLong else SPlayed (push_history g m))
  /\ (forall g', move_step g s = SPlayed g' ->
        exists m, In m (checked_moves g) /\ uci m = s /\ g' = push_history g m)
  /\ ((forall m, In m (checked_moves g) -> uci m <> s) ->
        exists og, move_step g s = SStop og (OErrorMove s) /\ (og = None \/ og = Some g)).
Proof.
  intros Hr Hs. split; [|split].
  - intros m Hin Hu. rewrite move_step_accept.
    rewrite (proj2 (top_accepts_iff_legal g s m Hr Hs) (conj Hin Hu)). reflexivity.
  - intros g' Hp. destruct (move_step_played g s g' Hp) as (m & Ha & Hin & -> & _).
    exists m. destruct (proj1 (top_accepts_iff_legal g s m Hr Hs) Ha) as [_ Hu]. repeat split; assumption.
  - intros Hno. rewrite move_step_accept. destruct (accept g s) as [m|] eqn:Ea.
    + destruct (proj1 (top_accepts_iff_legal g s m Hr Hs) Ea) as [Hin Hu]. exfalso. exact (Hno m Hin Hu).
    + eexists. split; [reflexivity|]. destruct (from_uci s g); [now right | now left].
Qed.

(* below the guard, (a) reads: the text of a legal move is played *)
Corollary position_plays_legal_text g m :
  legal_reachable g -> In m (checked_moves g) -> Z.of_nat (glen g) + 1 < GAME_LENGTH_GUARD ->
  move_step g (uci m) = SPlayed (push_history g m).
Proof.
  intros Hr Hin Hlen.
  assert (Hs : parse_move (uci m) <> None).
  { pose proof (good_repinv g (legal_reachable_good g Hr)) as HR.
    rewrite (parse_move_uci g m (gen_ok_checked g m HR Hin)). discriminate. }
  destruct (position_accepts_exactly_legal g (uci m) Hr Hs) as [Ha _].
  rewrite (Ha m Hin eq_refl), glen_push_history.
  destruct (GAME_LENGTH_GUARD <=? Z.of_nat (S (glen g))) eqn:E; [|reflexivity].
  apply Z.leb_le in E. lia.
Qed.

Print Assumptions position_accepts_exactly_legal.

(* ---- 7. the invariant of a whole command sequence --------------------------------------------------------------------- *)

(* a command sequence is [sane] when every position it imports is sane (Spec/Rules.v: both kings,
   the side not to move not in check, ...); `startpos` always is *)
Definition sane_cmd (c : cmd) : Prop :=
  match c with CPosition args => sane_position args | _ => True end.

Lemma startpos_sane_position rest : sane_position (KW_STARTPOS :: rest).
Proof.
  intros g0 add ms. destruct (position_base_startpos rest) as (a & m & E). rewrite E.
  generalize start_sane. generalize START. intros st Hs H. injection H as -> _ _. exact Hs.
Qed.

Record session_ok (s : session) : Prop := mkSessionOk {
  so_legal : forall g, ss_game s = Some g -> legal_reachable g;
  so_short : forall g, ss_game s = Some g -> Z.of_nat (glen g) < GAME_LENGTH_GUARD;
  so_table : SoundTable (ss_table s)
}.

Lemma init_session_ok : session_ok init_session.
Proof. split; [discriminate | discriminate | exact top_empty_table_sound]. Qed.

Theorem run_cmd_ok s c : sane_cmd c -> session_ok s -> session_ok (fst (run_cmd s c)).
Proof.
  intros Hc [Hl Hs Ht]. destruct c as [args| | |limit stop_at| |]; cbn [run_cmd fst].
  - split.
    + exact (position_game_legal_inv s args Hc Hl).
    + exact (position_length_guard_inv s args Hs).
    + rewrite position_table. exact Ht.
  - exact init_session_ok.
  - assert (E : fst (show_cmd s) = s) by (unfold show_cmd; destruct (ss_game s); reflexivity).
    rewrite E. split; assumption.
  - destruct (ss_game s) as [g|] eqn:Eg.
    + destruct (go_drops_game s g limit stop_at Eg) as [Hn Htb]. split.
      * intros g' Hg'. rewrite Hn in Hg'. discriminate.
      * intros g' Hg'. rewrite Hn in Hg'. discriminate.
      * rewrite Htb. apply top_driver_table; [|exact Ht]. exact (legal_reachable_good g (Hl g eq_refl)).
    + rewrite (go_without_game s limit stop_at Eg). cbn [fst]. split; [| |exact Ht]; intros g' Hg'; congruence.
  - split; assumption.
  - split; assumption.
Qed.

Theorem run_cmds_ok s cs : Forall sane_cmd cs -> session_ok s -> session_ok (fst (run_cmds s cs)).
Proof.
  revert s. induction cs as [|c cs IH]; intros s Hc Hs; [exact Hs|].
  rewrite run_cmds_cons. cbn [fst]. inversion Hc as [|c' cs' Hc1 Hc2]; subst.
  apply IH; [exact Hc2|]. now apply run_cmd_ok.
Qed.

(* every game that enters a search in a sane run of the front end was reached by legal play from
   a sane import and has at most 399 states; the table it is searched with is sound *)
Corollary searched_game_ok pre limit stop_at g :
  Forall sane_cmd pre ->
  ss_game (fst (run_cmds init_session pre)) = Some g ->
  legal_reachable g /\ Z.of_nat (glen g) < GAME_LENGTH_GUARD
  /\ SoundTable (ss_table (fst (run_cmds init_session pre)))
  /\ snd (run_cmds init_session (pre ++ [CGo limit stop_at])) =
     snd (run_cmds init_session pre)
     ++ map OInfo (d_lines (driver g (ss_table (fst (run_cmds init_session pre))) limit stop_at false))
     ++ [OBestMove (option_map uci (d_move (driver g (ss_table (fst (run_cmds init_session pre))) limit stop_at false)))].
Proof.
  intros Hc Hg. destruct (run_cmds_ok init_session pre Hc init_session_ok) as [Hl Hs Ht].
  split; [exact (Hl g Hg)|]. split; [exact (Hs g Hg)|]. split; [exact Ht|].
  rewrite run_cmds_app, run_cmds_cons, run_cmds_nil. cbn [run_cmd fst snd].
  rewrite (go_output _ g limit stop_at Hg), app_nil_r. reflexivity.
Qed.

(* the move announced by `go` is a legal move of the game searched (or the table holds an entry of
   another position with the same hash: the collision witness of Proofs/SearchInv2.v) *)
Theorem go_bestmove_sound s g limit stop_at t :
  session_ok s -> ss_game s = Some g ->
  In (OBestMove (Some t)) (snd (go_cmd s limit stop_at)) ->
  exists m, t = uci m /\ (In m (checked_moves g) \/ collision_witness Good g m).
Proof.
  intros [Hl _ Ht] Hg Hin. rewrite (go_output s g limit stop_at Hg) in Hin.
  apply in_app_or in Hin. destruct Hin as [Hin | [Hin | []]].
  - apply in_map_iff in Hin. destruct Hin as (x & Hx & _). discriminate.
  - destruct (d_move (driver g (ss_table s) limit stop_at false)) as [m|] eqn:Em; [|discriminate].
    cbn [option_map] in Hin. injection Hin as <-. exists m. split; [reflexivity|].
    exact (top_driver_move g (ss_table s) limit stop_at false m (legal_reachable_good g (Hl g Hg)) Ht Em).
Qed.

Print Assumptions run_cmds_ok.
Print Assumptions searched_game_ok.
Print Assumptions go_bestmove_sound.

(* ---- 6. non-vacuity ---------------------------------------------------------------------------------------------------- *)
From Coq Require Import String.
Open Scope string_scope.
Open Scope list_scope.

(* position startpos moves e2e4 e7e5 ; go depth 2 *)
Definition demo_cmds : list cmd :=
  [CPosition [txt "startpos"; txt "moves"; txt "e2e4"; txt "e7e5"]; CGo (Some 2) (-1)].

Example demo_bestmove :
  last (snd (run_cmds init_session demo_cmds)) OUciOk = OBestMove (Some (txt "b1c3"))
  /\ List.length (snd (run_cmds init_session demo_cmds)) = 9%nat
  /\ ss_game (fst (run_cmds init_session demo_cmds)) = None
  /\ ss_table (fst (run_cmds init_session demo_cmds)) <> tempty.
Proof. vm_compute. repeat split. discriminate. Qed.

Example demo_sane : Forall sane_cmd demo_cmds.
Proof. repeat constructor. exact (startpos_sane_position _). Qed.

(* the game before the go: three states *)
Example demo_position :
  option_map glen (ss_game (fst (position_cmd init_session [txt "startpos"; txt "moves"; txt "e2e4"; txt "e7e5"]))) = Some 3%nat
  /\ snd (position_cmd init_session [txt "startpos"; txt "moves"; txt "e2e4"; txt "e7e5"]) = [].
Proof. vm_compute. split; reflexivity. Qed.

(* a second go without position is refused; ucinewgame; the same commands give the same lines *)
Example demo_newgame :
  snd (run_cmds init_session (demo_cmds ++ [CGo (Some 2) (-1)] ++ [CNewGame] ++ demo_cmds)) =
  snd (run_cmds init_session demo_cmds) ++ [OErrorNoGameGo] ++ snd (run_cmds init_session demo_cmds).
Proof. vm_compute. reflexivity. Qed.

(* an illegal move of a piece that is there (black pawn d7-d4) is refused, the moves before it
   stay played (two states), the rest of the line is not read *)
Example demo_illegal_keeps :
  let r := position_cmd init_session [txt "startpos"; txt "moves"; txt "e2e4"; txt "d7d4"; txt "e7e5"] in
  option_map glen (ss_game (fst r)) = Some 2%nat
  /\ option_map (fun g => map uci (g_moves g)) (ss_game (fst r)) = Some [txt "e2e4"]
  /\ snd r = [OErrorMove (txt "d7d4")].
Proof. vm_compute. repeat split. Qed.

(* four characters that are no squares: the game is dropped *)
Example demo_garbage_drops :
  position_cmd init_session [txt "startpos"; txt "moves"; txt "e2e4"; txt "zzzz"; txt "e7e5"]
  = (init_session, [OErrorMove (txt "zzzz")]).
Proof. vm_compute. reflexivity. Qed.

(* well-formed squares but an empty start square (e2 after e2e4): the game is dropped as well *)
Example demo_empty_square_drops :
  position_cmd init_session [txt "startpos"; txt "moves"; txt "e2e4"; txt "e2e5"]
  = (init_session, [OErrorMove (txt "e2e5")]).
Proof. vm_compute. reflexivity. Qed.

(* position fen ... : the fields are joined with single spaces; a bad FEN drops the game *)
Example demo_fen :
  option_map fen (ss_game (fst (position_cmd init_session
     [txt "fen"; txt "4k3/P7/8/8/8/8/8/4K3"; txt "w"; txt "-"; txt "-"; txt "0"; txt "1"; txt "moves"; txt "a7a8q"])))
  = Some (txt "Q3k3/8/8/8/8/8/8/4K3 b - - 0 1")
  /\ position_cmd (mkSession (Some START) tempty) [txt "fen"; txt "4k3/P7/8/8/8/8/8/4K3"; txt "w"]
     = (init_session, [OErrorFen E_MISSING])
  /\ position_cmd (mkSession (Some START) tempty) [txt "fen"] = (init_session, [OErrorFen E_MISSING])
  /\ position_cmd (mkSession (Some START) tempty) [txt "startpo"] = (mkSession (Some START) tempty, [OErrorPosition])
  /\ position_cmd (mkSession (Some START) tempty) [] = (mkSession (Some START) tempty, [OErrorPosition]).
Proof. vm_compute. repeat split. Qed.

(* `position startpos e2e4` (the word "moves" forgotten): accepted without a message, no move played *)
Example demo_moves_forgotten :
  position_cmd init_session [txt "startpos"; txt "e2e4"; txt "moves"; txt "e7e5"] = (mkSession (Some START) tempty, []).
Proof. vm_compute. reflexivity. Qed.

(* Outside move shape the filter is lenient: characters after a promotion letter are ignored and
   the letter may be upper case ("a7a8qq", "a7a8Qxyz" are played as a7a8q), so the premise
   [parse_move s <> None] of position_accepts_exactly_legal cannot be dropped from its part (b). *)
Example demo_trailing_characters :
  let g0 := imported (txt "4k3/P7/8/8/8/8/8/4K3 w - - 0 1") in
  legal_reachable g0
  /\ parse_move (txt "a7a8qq") = None
  /\ (exists m, In m (checked_moves g0) /\ uci m = txt "a7a8q"
               /\ move_step g0 (txt "a7a8qq") = SPlayed (push_history g0 m)
               /\ move_step g0 (txt "a7a8Qxyz") = SPlayed (push_history g0 m)).
Proof.
  split; [|split].
  - apply (lr_import (txt "4k3/P7/8/8/8/8/8/4K3 w - - 0 1")); vm_compute; reflexivity.
  - vm_compute. reflexivity.
  - exists (Promotion White Queen (6, 0) (7, 0) None). split.
    + vm_compute. repeat (first [left; reflexivity | right]).
    + vm_compute. repeat split.
Qed.

Print Assumptions position_length_exact.
Print Assumptions position_plays_legal_text.
Print Assumptions demo_bestmove.
Print Assumptions demo_trailing_characters.
