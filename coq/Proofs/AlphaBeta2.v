(* C09, findings: small abstract trees (game interface of Proofs/AlphaBeta.v, Section AB) on
   which the engine's search and the reference of Spec/Negamax.v disagree.  They show that the
   two tree hypotheses of [root_exact] cannot be dropped, and that the separation condition as
   worded in DESIGN.md (C09, "ScoreSeparated": king-ful stand-pats smaller in absolute value
   than the negated king-less stand-pats) is NOT sufficient: a side that is mated or stalemated
   at a depth-1 node (all its generated moves answered by a king capture in quiescence) is
   scored MIN + 3000 + real by the engine but with the king-less stand-pat by the reference. *)
From Coq Require Import Lia.
From Chess Require Import Model.Search Spec.Negamax Model.RefSearch Proofs.AlphaBeta.

Open Scope Z_scope.

(* move labels: two quiet ones and a tactical one *)
Definition mA : Move := CastlingShort White.
Definition mB : Move := CastlingLong White.
Definition mT : Move := EnPassant White 0 0.

Example labels_tactical : (is_tactical mA, is_tactical mB, is_tactical mT) = (false, false, true).
Proof. reflexivity. Qed.

(* ---- 1. a blocked node: king present, nothing generated ------------------------------------ *)
Module Blocked.
  Definition unchecked (g : nat) : list Move := [].
  Definition play (g : nat) (m : Move) : nat := g.
  Definition standpat (g : nat) : Z := 50.
  Definition safe (g : nat) : bool := true.
  Definition hasking (g : nat) : bool := true.

  (* the reference says 50 (and flags the node); the engine, asked with the window (-100, 100)
     that contains 50, answers 0; asked with (-100, 40) it answers 40 *)
  Example blocked_node_window_dependent :
    qref nat Move unchecked play standpat is_tactical safe hasking SCORE_MIN MATE_OFFSET_QUIESCENCE 1 0%nat 3
      = (50, true) /\
    aq nat unchecked play standpat safe 1 0%nat (-100) 100 3 = Some 0 /\
    aq nat unchecked play standpat safe 1 0%nat (-100) 40 3 = Some 40.
  Proof. vm_compute. repeat split; reflexivity. Qed.
End Blocked.

(* ---- 2. a king-less leaf whose stand-pat is above the king-capture score ---------------------- *)
Module KingLess.
  Definition unchecked (g : nat) : list Move := [].
  Definition play (g : nat) (m : Move) : nat := g.
  Definition standpat (g : nat) : Z := -9500.
  Definition safe (g : nat) : bool := false.
  Definition hasking (g : nat) : bool := false.

  (* reference value -9500, not flagged; the engine returns MIN + 3000 + 3 = -29765 for a window
     that contains -9500, so even bound consistency fails; [qsep] is false on this tree *)
  Example kingless_leaf_window_dependent :
    qref nat Move unchecked play standpat is_tactical safe hasking SCORE_MIN MATE_OFFSET_QUIESCENCE 1 0%nat 3
      = (-9500, false) /\
    aq nat unchecked play standpat safe 1 0%nat (-20000) 0 3 = Some (-29765) /\
    aq nat unchecked play standpat safe 1 0%nat (-20000) (-9600) 3 = Some (-9600) /\
    qsep nat unchecked play standpat 1 0%nat 3 = false.
  Proof. vm_compute. repeat split; reflexivity. Qed.
End KingLess.

(* ---- 3. a mate seen at a depth-1 node: DESIGN's ScoreSeparated holds, the root scores differ -- *)
Module Depth1Mate.
  (* 0 root (two legal moves mA, mB), searched to depth 2
     1 = after mA: depth-1 node, its only generated move leads to
     3 : quiescence node, stand-pat -500, one tactical move (the king capture) leading to
     4 : king-less leaf, stand-pat -9500
     2 = after mB: depth-1 node, its only generated move leads to
     5 : quiet quiescence node, stand-pat 0, one non-tactical move *)
  Definition checked (g : nat) : list Move :=
    match g with 0%nat => [mA; mB] | _ => [] end.
  Definition unchecked (g : nat) : list Move :=
    match g with
    | 1%nat => [mA] | 2%nat => [mA] | 3%nat => [mT] | 5%nat => [mA] | _ => []
    end.
  Definition play (g : nat) (m : Move) : nat :=
    match g with
    | 0%nat => if move_eqb m mA then 1%nat else 2%nat
    | 1%nat => 3%nat
    | 3%nat => 4%nat
    | 2%nat => 5%nat
    | _ => 6%nat
    end.
  Definition standpat (g : nat) : Z :=
    match g with 3%nat => -500 | 4%nat => -9500 | _ => 0 end.
  Definition hasking (g : nat) : bool := match g with 4%nat => false | _ => true end.
  Definition safe (g : nat) : bool := hasking g.
  Definition ghash (g : nat) : N := N.of_nat g.
  Definition gmoves (g : nat) : list Move := [].

  Definition ref :=
    rootref nat Move unchecked checked play standpat is_tactical safe hasking SCORE_MIN
            MATE_OFFSET_NODE MATE_OFFSET_DEPTH1 MATE_OFFSET_QUIESCENCE QFUEL 2 0%nat (checked 0%nat).
  Definition engine :=
    match aroot nat unchecked checked play standpat safe ghash gmoves 0%nat (fresh_state tempty (-1) true) 2 with
    | (Done (_, score, _), _) => Some score
    | _ => None
    end.

  (* reference 9500 without blocked node; engine 32768 - 3000 - 3 = 29765.  The stand-pats of the
     king-ful nodes are 0 and -500, that of the king-less node is -9500. *)
  Example depth1_mate_scores_differ : ref = (9500, false) /\ engine = Some 29765.
  Proof. vm_compute. split; reflexivity. Qed.

  (* and, as it must be, the hypothesis of [aroot_exact] fails on this tree *)
  Example depth1_mate_not_separated :
    roottree nat unchecked checked play standpat safe hasking 2 0%nat (checked 0%nat) = false.
  Proof. vm_compute. reflexivity. Qed.
End Depth1Mate.
