(* The FEN reader [import] (Model/Fen.v) against the FEN grammar [parse] (Spec/FenSpec.v), part 2:
   the reader accepts exactly the texts of the grammar and imports the position they denote. *)
From Coq Require Import Lia.
From Chess Require Import Model.Text Spec.Rules Spec.FenSpec Proofs.Grid Proofs.Inv Proofs.Abs
  Proofs.FenImport1.
Open Scope Z_scope.

(* ---- the two tokenisers ------------------------------------------------------------------------------ *)

Lemma split_ws_aux_eq s : forall cur, split_ws_aux s cur = split_on white_space false s cur.
Proof.
  induction s as [|c t IH]; intros cur; cbn [split_ws_aux split_on]; [reflexivity|].
  change (white_space c) with (is_ws c). destruct (is_ws c).
  - rewrite IH. destruct cur; reflexivity.
  - apply IH.
Qed.

Lemma split_ws_fields s : split_ws s = fields s.
Proof. apply split_ws_aux_eq. Qed.

Lemma split_on_nonempty sep s : forall cur, Forall (fun t => t <> []) (split_on sep false s cur).
Proof.
  assert (Hrev : forall (x : N) c, rev (x :: c) <> []).
  { intros x c. cbn [rev]. intros H. apply app_eq_nil in H. destruct H as [_ H]. discriminate. }
  induction s as [|c t IH]; intros cur; cbn [split_on].
  - destruct cur; constructor; [apply Hrev | constructor].
  - destruct (sep c); [|apply IH].
    apply Forall_app. split; [|apply IH].
    destruct cur; constructor; [apply Hrev | constructor].
Qed.

Lemma fields_nonempty s : Forall (fun t => t <> []) (fields s).
Proof. apply split_on_nonempty. Qed.

(* ranks without the accumulator *)
Fixpoint ranks' (s : stext) : list stext :=
  match s with
  | [] => [[]]
  | c :: t =>
      if N.eqb 47 c then [] :: ranks' t
      else match ranks' t with x :: r => (c :: x) :: r | [] => [[c]] end
  end.

Lemma ranks'_nonempty s : ranks' s <> [].
Proof.
  destruct s as [|c t]; cbn [ranks']; [discriminate|].
  destruct (N.eqb 47 c); [discriminate|]. destruct (ranks' t); discriminate.
Qed.

Lemma split_on_ranks' s : forall cur,
  split_on (N.eqb 47) true s cur = (rev cur ++ hd [] (ranks' s)) :: tl (ranks' s).
Proof.
  induction s as [|c t IH]; intros cur; cbn [split_on ranks'].
  - cbn [hd tl]. now rewrite app_nil_r.
  - destruct (N.eqb 47 c).
    + rewrite IH. cbn [rev app hd tl]. rewrite app_nil_r.
      pose proof (ranks'_nonempty t). destruct (ranks' t); [contradiction | reflexivity].
    + rewrite IH. pose proof (ranks'_nonempty t). destruct (ranks' t) as [|x r]; [contradiction|].
      cbn [hd tl rev]. now rewrite <- app_assoc.
Qed.

Lemma ranks_ranks' s : ranks s = ranks' s.
Proof.
  unfold ranks. rewrite split_on_ranks'. cbn [rev app].
  pose proof (ranks'_nonempty s). destruct (ranks' s); [contradiction | reflexivity].
Qed.

Definition no47 (s : stext) : Prop := Forall (fun c => N.eqb c 47 = false) s.

Lemma ranks'_no47 s : Forall no47 (ranks' s).
Proof.
  induction s as [|c t IH]; cbn [ranks'].
  - repeat constructor.
  - destruct (N.eqb 47 c) eqn:E.
    + constructor; [constructor | exact IH].
    + rewrite N.eqb_sym in E. destruct (ranks' t) as [|x r].
      * repeat constructor. exact E.
      * inversion IH as [|? ? Hx Hr]; subst. constructor; [|exact Hr]. constructor; assumption.
Qed.

Lemma join_ranks' s : join 47%N (ranks' s) = s.
Proof.
  induction s as [|c t IH]; cbn [ranks']; [reflexivity|].
  pose proof (ranks'_nonempty t) as Hne.
  destruct (N.eqb 47 c) eqn:E.
  - apply N.eqb_eq in E. subst c. destruct (ranks' t) as [|y r]; [contradiction|].
    change (join 47%N ([] :: y :: r)) with ([] ++ 47%N :: join 47%N (y :: r)). rewrite IH. reflexivity.
  - destruct (ranks' t) as [|x r]; [contradiction|].
    destruct r as [|y r].
    + cbn [join] in *. now rewrite IH.
    + change (join 47%N ((c :: x) :: y :: r)) with ((c :: x) ++ 47%N :: join 47%N (y :: r)).
      change (join 47%N (x :: y :: r)) with (x ++ 47%N :: join 47%N (y :: r)) in IH.
      cbn [app]. now rewrite IH.
Qed.

(* ---- characters of the placement field ------------------------------------------------------------------- *)

Notation row := (list (option piece)).

(* the squares one character of a rank describes (grammar side) *)
Definition cells_of (c : N) : option row :=
  if ((49 <=? c) && (c <=? 56))%N then Some (repeat None (N.to_nat (c - 48)))
  else match letter_piece c with Some pc => Some [Some pc] | None => None end.

Lemma parse_rank_cons c t :
  parse_rank (c :: t) =
  match parse_rank t with
  | None => None
  | Some rest => match cells_of c with Some cs => Some (cs ++ rest) | None => None end
  end.
Proof.
  cbn [parse_rank]. destruct (parse_rank t); [|reflexivity]. unfold cells_of.
  destruct ((49 <=? c)%N && (c <=? 56)%N); [reflexivity|]. destruct (letter_piece c); reflexivity.
Qed.

(* the same classification as the reader makes it *)
Definition eng_cells (c : N) : option row :=
  if is_ascii_alpha c then
    match piece_of_char c with Some pc => Some [Some pc] | None => None end
  else if is_ascii_digit c then
    let count := Z.of_N (c - 48) in
    if (count =? 0) || (8 <? count) then None else Some (repeat None (Z.to_nat count))
  else None.

Fixpoint row_eqb (a b : row) : bool :=
  match a, b with
  | [], [] => true
  | x :: a', y :: b' => opiece_eqb x y && row_eqb a' b'
  | _, _ => false
  end.

Lemma row_eqb_eq a : forall b, row_eqb a b = true -> a = b.
Proof.
  induction a as [|x a IH]; intros [|y b] H; cbn [row_eqb] in H; try discriminate; [reflexivity|].
  apply andb_true_iff in H. destruct H as [H1 H2]. apply opiece_eqb_eq in H1. apply IH in H2. congruence.
Qed.

Definition orow_eqb (a b : option row) : bool :=
  match a, b with
  | None, None => true
  | Some x, Some y => row_eqb x y
  | _, _ => false
  end.

Lemma eng_cells_small_b :
  forallb (fun n => orow_eqb (eng_cells (N.of_nat n)) (cells_of (N.of_nat n))) (seq 0 128) = true.
Proof. vm_compute. reflexivity. Qed.

Lemma letter_piece_big c : (128 <= c)%N -> letter_piece c = None.
Proof.
  intros H. unfold letter_piece.
  destruct c as [|p]; [reflexivity|].
  do 7 (try (destruct p as [p|p|]; try reflexivity)); exfalso; lia.
Qed.

Lemma eng_cells_eq c : eng_cells c = cells_of c.
Proof.
  destruct (N.ltb c 128) eqn:E.
  - apply N.ltb_lt in E. pose proof eng_cells_small_b as H. rewrite forallb_forall in H.
    specialize (H (N.to_nat c)). rewrite N2Nat.id in H.
    assert (Hin : In (N.to_nat c) (seq 0 128)) by (apply in_seq; lia).
    specialize (H Hin). unfold orow_eqb in H.
    destruct (eng_cells c), (cells_of c); try discriminate; [|reflexivity].
    f_equal. now apply row_eqb_eq.
  - apply N.ltb_ge in E. unfold eng_cells, cells_of.
    replace (is_ascii_alpha c) with false.
    2:{ symmetry. unfold is_ascii_alpha. apply orb_false_iff. split; apply andb_false_iff; right;
        apply N.leb_gt; lia. }
    replace (is_ascii_digit c) with false.
    2:{ symmetry. unfold is_ascii_digit. apply andb_false_iff; right; apply N.leb_gt; lia. }
    replace ((49 <=? c)%N && (c <=? 56)%N) with false.
    2:{ symmetry. apply andb_false_iff; right; apply N.leb_gt; lia. }
    now rewrite letter_piece_big.
Qed.

(* ---- a left-to-right reading of the placement field (pure) ------------------------------------------------ *)

Definition sstate := (list row * row)%type.

Definition scan_step (st : sstate) (ch : N) : option sstate :=
  let (done, cells) := st in
  if N.eqb ch 47 then
    if Nat.eqb (length cells) 8 && Nat.ltb (length done) 7 then Some (done ++ [cells], []) else None
  else match cells_of ch with
       | Some cs => if Nat.leb (length cells + length cs) 8 then Some (done, cells ++ cs) else None
       | None => None
       end.

Fixpoint scan (st : sstate) (s : stext) : option sstate :=
  match s with
  | [] => Some st
  | ch :: t => match scan_step st ch with Some st' => scan st' t | None => None end
  end.

Lemma scan_app s1 : forall st s2,
  scan st (s1 ++ s2) = match scan st s1 with Some st' => scan st' s2 | None => None end.
Proof.
  induction s1 as [|c t IH]; intros st s2; cbn [app scan]; [reflexivity|].
  destruct (scan_step st c); [apply IH | reflexivity].
Qed.

(* inside one rank *)
Lemma scan_rank x : forall done cells, no47 x -> (length cells <= 8)%nat ->
  scan (done, cells) x =
  match parse_rank x with
  | Some cx => if Nat.leb (length cells + length cx) 8 then Some (done, cells ++ cx) else None
  | None => None
  end.
Proof.
  induction x as [|c t IH]; intros done cells Hx Hlen.
  - cbn [scan parse_rank length]. rewrite Nat.add_0_r, app_nil_r.
    replace (Nat.leb (length cells) 8) with true by (symmetry; now apply Nat.leb_le). reflexivity.
  - inversion Hx as [|? ? Hc Ht]; subst.
    rewrite parse_rank_cons. cbn [scan scan_step]. rewrite Hc.
    destruct (cells_of c) as [cs|]; [|destruct (parse_rank t); reflexivity].
    destruct (Nat.leb (length cells + length cs) 8) eqn:E.
    + apply Nat.leb_le in E. rewrite IH by (try assumption; rewrite app_length; lia).
      destruct (parse_rank t) as [ct|]; [|reflexivity].
      rewrite !app_length, Nat.add_assoc, app_assoc. reflexivity.
    + apply Nat.leb_gt in E. destruct (parse_rank t) as [ct|]; [|reflexivity].
      replace (Nat.leb (length cells + length (cs ++ ct)) 8) with false; [reflexivity|].
      symmetry. apply Nat.leb_gt. rewrite app_length. lia.
Qed.

Lemma scan_slash done cells :
  scan_step (done, cells) 47%N =
  if Nat.eqb (length cells) 8 && Nat.ltb (length done) 7 then Some (done ++ [cells], []) else None.
Proof. reflexivity. Qed.

Definition len8 (r : row) : Prop := length r = 8%nat.

(* over the ranks, soundness: a complete reading gives the parsed ranks *)
Lemma scan_ranks_sound rs : forall done done' cells',
  rs <> [] -> Forall no47 rs ->
  scan (done, []) (join 47%N rs) = Some (done', cells') -> length cells' = 8%nat ->
  exists rows, all_some (map parse_rank8 rs) = Some rows
    /\ done' ++ [cells'] = done ++ rows /\ length rows = length rs.
Proof.
  induction rs as [|x rs IH]; intros done done' cells' Hne Hall Hscan Hlen; [contradiction|].
  inversion Hall as [|? ? Hx Hrs]; subst.
  destruct rs as [|y r].
  - cbn [join] in Hscan. rewrite scan_rank in Hscan by (try assumption; cbn; lia).
    destruct (parse_rank x) as [cx|] eqn:Ex; [|discriminate].
    cbn [length Nat.add app] in Hscan. destruct (Nat.leb (length cx) 8); [|discriminate].
    inversion Hscan; subst. exists [cells']. cbn [map all_some]. unfold parse_rank8.
    rewrite Ex, Hlen. cbn. auto.
  - change (join 47%N (x :: y :: r)) with (x ++ 47%N :: join 47%N (y :: r)) in Hscan.
    rewrite scan_app in Hscan. rewrite scan_rank in Hscan by (try assumption; cbn; lia).
    destruct (parse_rank x) as [cx|] eqn:Ex; [|discriminate].
    cbn [length Nat.add app] in Hscan. destruct (Nat.leb (length cx) 8); [|discriminate].
    cbn [scan] in Hscan. rewrite scan_slash in Hscan.
    destruct (Nat.eqb (length cx) 8) eqn:E8; cbn [andb] in Hscan; [|discriminate].
    destruct (Nat.ltb (length done) 7); [|discriminate].
    assert (Hne' : y :: r <> []) by discriminate.
    destruct (IH (done ++ [cx]) done' cells' Hne' Hrs Hscan Hlen) as (rows & Hrows & Happ & Hl).
    exists (cx :: rows). split; [|split].
    + cbn [map all_some] in *. unfold parse_rank8 at 1. rewrite Ex, E8. now rewrite Hrows.
    + rewrite Happ, <- app_assoc. reflexivity.
    + cbn [length] in *. lia.
Qed.

(* completeness: the parsed ranks are read completely *)
Lemma scan_ranks_complete rs : forall done rows,
  rs <> [] -> Forall no47 rs -> (length done + length rs <= 8)%nat ->
  all_some (map parse_rank8 rs) = Some rows ->
  exists done' cells', scan (done, []) (join 47%N rs) = Some (done', cells')
    /\ done' ++ [cells'] = done ++ rows /\ length cells' = 8%nat.
Proof.
  induction rs as [|x rs IH]; intros done rows Hne Hall Hlen Hrows; [contradiction|].
  inversion Hall as [|? ? Hx Hrs]; subst.
  cbn [map all_some] in Hrows. unfold parse_rank8 at 1 in Hrows.
  destruct (parse_rank x) as [cx|] eqn:Ex; [|discriminate].
  destruct (Nat.eqb (length cx) 8) eqn:E8; [|discriminate].
  destruct (all_some (map parse_rank8 rs)) as [rows'|] eqn:Er; [|discriminate].
  inversion Hrows; subst rows. apply Nat.eqb_eq in E8.
  destruct rs as [|y r].
  - cbn [map all_some] in Er. inversion Er; subst rows'.
    exists done, cx. cbn [join]. rewrite scan_rank by (try assumption; cbn; lia).
    rewrite Ex. cbn [length Nat.add app]. rewrite E8. cbn. auto.
  - change (join 47%N (x :: y :: r)) with (x ++ 47%N :: join 47%N (y :: r)).
    rewrite scan_app. rewrite scan_rank by (try assumption; cbn; lia).
    rewrite Ex. cbn [length Nat.add app]. rewrite E8. cbn [Nat.leb scan]. rewrite scan_slash, E8.
    cbn [length] in Hlen.
    replace (Nat.ltb (length done) 7) with true by (symmetry; apply Nat.ltb_lt; lia).
    cbn [Nat.eqb andb].
    assert (Hne' : y :: r <> []) by discriminate.
    assert (Hlen' : (length (done ++ [cx]) + length (y :: r) <= 8)%nat).
    { rewrite app_length. cbn [length]. lia. }
    destruct (IH (done ++ [cx]) rows' Hne' Hrs Hlen' eq_refl) as (done' & cells' & Hs & Happ & Hl).
    exists done', cells'. split; [exact Hs|]. split; [|exact Hl].
    rewrite Happ, <- app_assoc. reflexivity.
Qed.

Lemma all_some_length {A} (l : list (option A)) : forall r, all_some l = Some r -> length r = length l.
Proof.
  induction l as [|[x|] t IH]; intros r H; cbn [all_some] in H; try discriminate.
  - inversion H. reflexivity.
  - destruct (all_some t) as [r'|]; [|discriminate]. inversion H. cbn [length]. now rewrite (IH r').
Qed.

Lemma scan_parse_sound pl done cells :
  scan ([], []) pl = Some (done, cells) -> length done = 7%nat -> length cells = 8%nat ->
  parse_placement pl = Some (rev (done ++ [cells])).
Proof.
  intros Hs Hd Hc. rewrite <- (join_ranks' pl) in Hs.
  destruct (scan_ranks_sound (ranks' pl) [] done cells (ranks'_nonempty pl) (ranks'_no47 pl) Hs Hc)
    as (rows & Hrows & Happ & Hl).
  cbn [app] in Happ. unfold parse_placement. rewrite ranks_ranks'.
  assert (length (ranks' pl) = 8%nat) as E.
  { rewrite <- Hl, <- Happ, app_length, Hd. reflexivity. }
  rewrite E. cbn [Nat.eqb]. rewrite Hrows, Happ. reflexivity.
Qed.

Lemma scan_parse_complete pl b :
  parse_placement pl = Some b ->
  exists done cells, scan ([], []) pl = Some (done, cells) /\ length done = 7%nat
    /\ length cells = 8%nat /\ b = rev (done ++ [cells]).
Proof.
  unfold parse_placement. rewrite ranks_ranks'. intros H.
  destruct (Nat.eqb (length (ranks' pl)) 8) eqn:E; [|discriminate]. apply Nat.eqb_eq in E.
  destruct (all_some (map parse_rank8 (ranks' pl))) as [rows|] eqn:Er; [|discriminate].
  inversion H; subst b.
  destruct (scan_ranks_complete (ranks' pl) [] rows (ranks'_nonempty pl) (ranks'_no47 pl)) as
    (done & cells & Hs & Happ & Hl); [cbn; lia | exact Er |].
  rewrite join_ranks' in Hs. exists done, cells. split; [exact Hs|].
  cbn [app] in Happ. apply all_some_length in Er. rewrite map_length, E in Er.
  assert (length (done ++ [cells]) = 8%nat) as E' by now rewrite Happ.
  rewrite app_length in E'. cbn [length] in E'.
  split; [lia|]. split; [exact Hl|]. now rewrite Happ.
Qed.

(* ---- the reader's placement loop follows [scan] ------------------------------------------------------------ *)

Lemma znth_app_len {A} (l1 : list A) x l2 d : znth (l1 ++ x :: l2) (Z.of_nat (length l1)) d = x.
Proof.
  induction l1 as [|y t IH]; cbn [app length znth].
  - reflexivity.
  - destruct (Z.of_nat (S (length t)) =? 0) eqn:E; [apply Z.eqb_eq in E; lia|].
    replace (Z.of_nat (S (length t)) - 1) with (Z.of_nat (length t)) by lia. exact IH.
Qed.

Lemma zupd_app_len {A} (l1 : list A) x l2 v : zupd (l1 ++ x :: l2) (Z.of_nat (length l1)) v = l1 ++ v :: l2.
Proof.
  induction l1 as [|y t IH]; cbn [app length zupd].
  - reflexivity.
  - destruct (Z.of_nat (S (length t)) =? 0) eqn:E; [apply Z.eqb_eq in E; lia|].
    replace (Z.of_nat (S (length t)) - 1) with (Z.of_nat (length t)) by lia. now rewrite IH.
Qed.

Definition empty_row : row := repeat None 8.

Definition board_of (done : list row) (cells : row) : board :=
  repeat empty_row (7 - length done) ++ (cells ++ repeat None (8 - length cells)) :: rev done.

Record Inv3 (a : acc) (done : list row) (cells : row) : Prop := mkInv3 {
  i3_row : a_row a = 7 - Z.of_nat (length done);
  i3_col : a_col a = Z.of_nat (length cells);
  i3_cells : (length cells <= 8)%nat;
  i3_done : (length done <= 7)%nat;
  i3_board : a_board a = board_of done cells
}.

Lemma acc0_inv3 : Inv3 acc0 [] [].
Proof. constructor; cbn; try lia; reflexivity. Qed.

Lemma board_of_set done cells v :
  (length cells < 8)%nat -> (length done <= 7)%nat ->
  grid_set (board_of done cells) (7 - Z.of_nat (length done), Z.of_nat (length cells)) v
  = board_of done (cells ++ [v]).
Proof.
  intros Hc Hd. unfold grid_set, board_of. cbn [fst snd].
  replace (7 - Z.of_nat (length done)) with (Z.of_nat (length (repeat empty_row (7 - length done))))
    by (rewrite repeat_length; lia).
  rewrite znth_app_len, zupd_app_len. do 2 f_equal.
  replace (8 - length cells)%nat with (S (8 - length (cells ++ [v]))) by (rewrite app_length; cbn [length]; lia).
  cbn [repeat]. rewrite zupd_app_len. now rewrite <- app_assoc.
Qed.

Lemma board_of_fill done cells k :
  (length cells + k <= 8)%nat -> board_of done (cells ++ repeat None k) = board_of done cells.
Proof.
  intros H. unfold board_of. do 2 f_equal. rewrite <- app_assoc. f_equal.
  rewrite app_length, repeat_length. rewrite <- repeat_app. f_equal. lia.
Qed.

Lemma board_of_next done cells :
  length cells = 8%nat -> (length done < 7)%nat -> board_of (done ++ [cells]) [] = board_of done cells.
Proof.
  intros Hc Hd. unfold board_of. rewrite Hc, app_length, rev_app_distr. cbn [length rev app].
  replace (7 - length done)%nat with (S (7 - (length done + 1))) by lia.
  change (8 - 8)%nat with 0%nat. change (8 - 0)%nat with 8%nat. cbn [repeat]. rewrite app_nil_r.
  change (None :: None :: None :: None :: None :: None :: None :: None :: []) with empty_row.
  replace (7 - length done)%nat with (S (7 - (length done + 1))) by lia.
  cbn [repeat]. rewrite (repeat_cons (7 - (length done + 1)) empty_row), <- app_assoc. reflexivity.
Qed.

Lemma fill_empty_simple n : forall a i,
  0 <= a_row a <= 7 -> 0 <= a_col a + i -> a_col a + i + Z.of_nat n <= 8 ->
  exists a', fill_empty n a i = Ok a'
    /\ a_row a' = a_row a /\ a_col a' = a_col a /\ a_board a' = a_board a.
Proof.
  induction n as [|n IH]; intros a i Hr Hc Hle; cbn [fill_empty].
  - exists a. auto.
  - rewrite new_assert_ok by lia. cbn [bind].
    match goal with |- exists a', fill_empty n ?a1 _ = _ /\ _ => destruct (IH a1 (i + 1)) as (a' & E & Er & Ec & Eb) end;
      cbn [a_row a_col]; try lia.
    exists a'. cbn [a_row a_col a_board] in *. auto.
Qed.

Lemma zofnat_eqb8 n : (Z.of_nat n =? 8) = Nat.eqb n 8.
Proof.
  destruct (Nat.eqb n 8) eqn:E.
  - apply Nat.eqb_eq in E. subst. reflexivity.
  - apply Nat.eqb_neq in E. apply Z.eqb_neq. lia.
Qed.

Lemma placement_step_scan a done cells ch :
  Inv3 a done cells ->
  match placement_step a ch with
  | Ok a' => exists done' cells', scan_step (done, cells) ch = Some (done', cells') /\ Inv3 a' done' cells'
  | Err _ => scan_step (done, cells) ch = None
  | Panic _ => False
  end.
Proof.
  intros [Hr Hc Hlc Hld Hb]. unfold placement_step, scan_step.
  destruct (N.eqb ch 47) eqn:E47.
  { rewrite Hc, zofnat_eqb8. destruct (Nat.eqb (length cells) 8) eqn:E8; cbn [negb andb]; [|reflexivity].
    apply Nat.eqb_eq in E8.
    destruct (a_row a =? 0) eqn:E0.
    - apply Z.eqb_eq in E0. replace (Nat.ltb (length done) 7) with false; [reflexivity|].
      symmetry. apply Nat.ltb_ge. lia.
    - apply Z.eqb_neq in E0. assert (length done < 7)%nat as Hd7 by lia.
      replace (Nat.ltb (length done) 7) with true by (symmetry; now apply Nat.ltb_lt).
      exists (done ++ [cells]), []. split; [reflexivity|].
      constructor; cbn [a_row a_col a_board length]; rewrite ?app_length; cbn [length]; try lia.
      rewrite Hb. symmetry. now apply board_of_next. }
  rewrite <- eng_cells_eq. unfold eng_cells.
  destruct (is_ascii_alpha ch).
  { rewrite Hc, zofnat_eqb8. destruct (Nat.eqb (length cells) 8) eqn:E8.
    - apply Nat.eqb_eq in E8. destruct (piece_of_char ch); [|reflexivity].
      rewrite E8. reflexivity.
    - apply Nat.eqb_neq in E8. destruct (piece_of_char ch) as [pc|]; [|reflexivity].
      rewrite new_assert_ok by lia. cbn [bind length].
      replace (Nat.leb (length cells + 1) 8) with true by (symmetry; apply Nat.leb_le; lia).
      exists done, (cells ++ [Some pc]). split; [reflexivity|].
      constructor; cbn [a_row a_col a_board]; rewrite ?app_length; cbn [length]; try lia.
      rewrite Hb, Hr. apply board_of_set; lia. }
  destruct (is_ascii_digit ch); [|reflexivity].
  set (count := Z.of_N (ch - 48)). assert (0 <= count) as Hcnt by (unfold count; lia).
  destruct (count =? 0) eqn:E0; cbn [orb]; [reflexivity|]. apply Z.eqb_neq in E0.
  destruct (8 <? count) eqn:E8.
  { apply Z.ltb_lt in E8. replace (8 <? a_col a + count) with true; [reflexivity|].
    symmetry. apply Z.ltb_lt. lia. }
  apply Z.ltb_ge in E8. rewrite repeat_length.
  destruct (8 <? a_col a + count) eqn:E.
  { apply Z.ltb_lt in E. replace (Nat.leb (length cells + Z.to_nat count) 8) with false; [reflexivity|].
    symmetry. apply Nat.leb_gt. lia. }
  apply Z.ltb_ge in E.
  replace (Nat.leb (length cells + Z.to_nat count) 8) with true by (symmetry; apply Nat.leb_le; lia).
  destruct (fill_empty_simple (Z.to_nat count) a 0) as (a1 & E1 & Er1 & Ec1 & Eb1); try lia.
  rewrite E1. cbn [bind].
  exists done, (cells ++ repeat None (Z.to_nat count)). split; [reflexivity|].
  constructor; cbn [a_row a_col a_board]; rewrite ?app_length, ?repeat_length; try lia.
  rewrite Eb1, Hb. symmetry. apply board_of_fill. lia.
Qed.

Lemma placement_scan s : forall a done cells,
  Inv3 a done cells ->
  match placement a s with
  | Ok a' => exists done' cells', scan (done, cells) s = Some (done', cells') /\ Inv3 a' done' cells'
  | Err _ => scan (done, cells) s = None
  | Panic _ => False
  end.
Proof.
  induction s as [|ch t IH]; intros a done cells Hinv; cbn [placement scan].
  - exists done, cells. auto.
  - pose proof (placement_step_scan a done cells ch Hinv) as H.
    destruct (placement_step a ch) as [a1| |]; cbn [bind]; [|now rewrite H|exact H].
    destruct H as (done1 & cells1 & Hs & Hinv1). rewrite Hs. now apply IH.
Qed.

Lemma board_of_final done cells :
  length done = 7%nat -> length cells = 8%nat -> board_of done cells = rev (done ++ [cells]).
Proof.
  intros Hd Hc. unfold board_of. rewrite Hd, Hc, rev_app_distr. cbn. now rewrite app_nil_r.
Qed.

(* the placement field: reader and grammar agree *)
Lemma placement_sound pl a :
  placement acc0 pl = Ok a -> a_row a = 0 -> a_col a = 8 -> parse_placement pl = Some (a_board a).
Proof.
  intros Hp Hr Hc. pose proof (placement_scan pl acc0 [] [] acc0_inv3) as H. rewrite Hp in H.
  destruct H as (done & cells & Hs & [Hr' Hc' Hlc Hld Hb]).
  assert (length done = 7%nat) by lia. assert (length cells = 8%nat) by lia.
  rewrite Hb, board_of_final by assumption. now apply scan_parse_sound.
Qed.

Lemma placement_complete pl b :
  parse_placement pl = Some b ->
  exists a, placement acc0 pl = Ok a /\ a_row a = 0 /\ a_col a = 8 /\ a_board a = b.
Proof.
  intros Hp. destruct (scan_parse_complete pl b Hp) as (done & cells & Hs & Hd & Hc & ->).
  pose proof (placement_scan pl acc0 [] [] acc0_inv3) as H.
  destruct (placement acc0 pl) as [a| |]; [|congruence|contradiction].
  destruct H as (done' & cells' & Hs' & [Hr' Hc' Hlc Hld Hb]).
  rewrite Hs in Hs'. inversion Hs'; subst done' cells'.
  exists a. split; [reflexivity|]. split; [lia|]. split; [lia|].
  rewrite Hb. now apply board_of_final.
Qed.

(* ---- side to move ------------------------------------------------------------------------------------------ *)

Lemma parse_side_eq s : parse_side s =
  match s with
  | [c] => if N.eqb c 119 then Some White else if N.eqb c 98 then Some Black else None
  | _ => None end.
Proof.
  unfold parse_side. destruct s as [|f [|r t]]; try reflexivity; nbits f.
Qed.

Lemma side_field_parse s :
  side_field s = match parse_side s with Some c => Ok c | None => Err E_PLAYER end.
Proof.
  rewrite side_field_eq, parse_side_eq. destruct s as [|c [|d t]]; try reflexivity.
  destruct (N.eqb c 119); [reflexivity|]. destruct (N.eqb c 98); reflexivity.
Qed.

(* ---- en passant ---------------------------------------------------------------------------------------------- *)

Lemma parse_ep_eq s side : parse_ep s side =
  match s with
  | [f] => if N.eqb f 45 then Some None else None
  | [f; r] => if ((97 <=? f) && (f <=? 104))%N && N.eqb r (match side with White => 54 | Black => 51 end)%N
      then Some (Some (Z.of_N (f - 97))) else None
  | _ => None end.
Proof.
  unfold parse_ep. destruct s as [|f [|r [|x t]]]; try reflexivity; nbits f.
Qed.

Lemma ep_field_parse s side st :
  ep_field s side st =
  match parse_ep s side with
  | Some (Some f) => Ok (set_ep st f)
  | Some None => Ok st
  | None => Err E_EP
  end.
Proof.
  rewrite ep_field_eq, parse_ep_eq. destruct s as [|f [|r [|x t]]]; try reflexivity.
  - destruct (N.eqb f 45); reflexivity.
  - destruct ((97 <=? f)%N && (f <=? 104)%N && N.eqb r (match side with White => 54 | Black => 51 end)%N);
      reflexivity.
Qed.

Lemma parse_ep_range s side f : parse_ep s side = Some (Some f) -> 0 <= f < 8.
Proof.
  rewrite parse_ep_eq. destruct s as [|c [|r [|x t]]]; try discriminate.
  - destruct (N.eqb c 45); discriminate.
  - destruct ((97 <=? c)%N && (c <=? 104)%N) eqn:E; cbn [andb]; [|discriminate].
    destruct (N.eqb r _); [|discriminate]. intros H. inversion H.
    apply andb_true_iff in E. destruct E as [E1 E2]. apply N.leb_le in E1, E2. lia.
Qed.

(* ---- castling rights ------------------------------------------------------------------------------------------ *)

Definition kqkq (c : N) : bool := (N.eqb c 75 || N.eqb c 81 || N.eqb c 107 || N.eqb c 113)%N.

Definition generic_castling (s : stext) : option rights :=
  if forallb kqkq s && nodup_n s
  then Some (mkRights (existsb (N.eqb 75) s) (existsb (N.eqb 81) s)
                      (existsb (N.eqb 107) s) (existsb (N.eqb 113) s))
  else None.

Lemma parse_castling_eq s : parse_castling s =
  match s with
  | [] => None
  | [c] => if N.eqb c 45 then Some (mkRights false false false false) else generic_castling [c]
  | _ => generic_castling s
  end.
Proof.
  unfold parse_castling. destruct s as [|f [|r t]]; try reflexivity; nbits f.
Qed.

Definition is_dash (whole : text) : bool := match whole with [45%N] => true | _ => false end.

Lemma is_dash_eq whole : is_dash whole = match whole with [c] => N.eqb c 45 | _ => false end.
Proof. unfold is_dash. destruct whole as [|f [|r t]]; try reflexivity; nbits f. Qed.

Lemma castling_step whole ch t st :
  is_dash whole = false ->
  castling_field whole (ch :: t) st =
  if N.eqb ch 75 then (if st_wk st then Err E_CASTLING else castling_field whole t (set_wk st true))
  else if N.eqb ch 81 then (if st_wq st then Err E_CASTLING else castling_field whole t (set_wq st true))
  else if N.eqb ch 107 then (if st_bk st then Err E_CASTLING else castling_field whole t (set_bk st true))
  else if N.eqb ch 113 then (if st_bq st then Err E_CASTLING else castling_field whole t (set_bq st true))
  else Err E_CASTLING.
Proof.
  intros Hd. cbn [castling_field]. fold (is_dash whole). rewrite Hd, andb_false_r.
  destruct (N.eqb ch 75) eqn:E1.
  { apply N.eqb_eq in E1. subst ch. destruct (st_wk st); reflexivity. }
  destruct (N.eqb ch 81) eqn:E2.
  { apply N.eqb_eq in E2. subst ch. destruct (st_wq st); reflexivity. }
  destruct (N.eqb ch 107) eqn:E3.
  { apply N.eqb_eq in E3. subst ch. destruct (st_bk st); reflexivity. }
  destruct (N.eqb ch 113) eqn:E4.
  { apply N.eqb_eq in E4. subst ch. destruct (st_bq st); reflexivity. }
  reflexivity.
Qed.

Definition castling_closed (s : text) (st : gstate) : result gstate :=
  if forallb kqkq s && nodup_n s
     && negb (st_wk st && existsb (N.eqb 75) s) && negb (st_wq st && existsb (N.eqb 81) s)
     && negb (st_bk st && existsb (N.eqb 107) s) && negb (st_bq st && existsb (N.eqb 113) s)
  then Ok (mkState (st_ep st) (st_wk st || existsb (N.eqb 75) s) (st_wq st || existsb (N.eqb 81) s)
                   (st_bk st || existsb (N.eqb 107) s) (st_bq st || existsb (N.eqb 113) s))
  else Err E_CASTLING.

Lemma castling_field_closed whole s : is_dash whole = false ->
  forall st, castling_field whole s st = castling_closed s st.
Proof.
  intros Hd. induction s as [|ch t IH]; intros st.
  - unfold castling_closed. cbn [castling_field forallb nodup_n existsb andb negb].
    rewrite !andb_false_r, !orb_false_r. destruct st; reflexivity.
  - rewrite castling_step by assumption. unfold castling_closed.
    cbn [forallb nodup_n existsb]. unfold kqkq at 1.
    destruct (N.eqb ch 75) eqn:E1.
    { apply N.eqb_eq in E1. subst ch. rewrite IH. unfold castling_closed.
      cbn [set_wk st_ep st_wk st_wq st_bk st_bq N.eqb Pos.eqb orb andb].
      destruct (st_wk st), (st_wq st), (st_bk st), (st_bq st), (forallb kqkq t), (nodup_n t),
        (existsb (N.eqb 75) t), (existsb (N.eqb 81) t), (existsb (N.eqb 107) t), (existsb (N.eqb 113) t);
        reflexivity. }
    destruct (N.eqb ch 81) eqn:E2.
    { apply N.eqb_eq in E2. subst ch. rewrite IH. unfold castling_closed.
      cbn [set_wq st_ep st_wk st_wq st_bk st_bq N.eqb Pos.eqb orb andb].
      destruct (st_wk st), (st_wq st), (st_bk st), (st_bq st), (forallb kqkq t), (nodup_n t),
        (existsb (N.eqb 75) t), (existsb (N.eqb 81) t), (existsb (N.eqb 107) t), (existsb (N.eqb 113) t);
        reflexivity. }
    destruct (N.eqb ch 107) eqn:E3.
    { apply N.eqb_eq in E3. subst ch. rewrite IH. unfold castling_closed.
      cbn [set_bk st_ep st_wk st_wq st_bk st_bq N.eqb Pos.eqb orb andb].
      destruct (st_wk st), (st_wq st), (st_bk st), (st_bq st), (forallb kqkq t), (nodup_n t),
        (existsb (N.eqb 75) t), (existsb (N.eqb 81) t), (existsb (N.eqb 107) t), (existsb (N.eqb 113) t);
        reflexivity. }
    destruct (N.eqb ch 113) eqn:E4.
    { apply N.eqb_eq in E4. subst ch. rewrite IH. unfold castling_closed.
      cbn [set_bq st_ep st_wk st_wq st_bk st_bq N.eqb Pos.eqb orb andb].
      destruct (st_wk st), (st_wq st), (st_bk st), (st_bq st), (forallb kqkq t), (nodup_n t),
        (existsb (N.eqb 75) t), (existsb (N.eqb 81) t), (existsb (N.eqb 107) t), (existsb (N.eqb 113) t);
        reflexivity. }
    reflexivity.
Qed.

Definition state_of_rights (r : rights) : gstate := mkState 8 (r_wk r) (r_wq r) (r_bk r) (r_bq r).

Lemma castling_generic whole s : is_dash whole = false ->
  castling_field whole s state_default =
  match generic_castling s with Some r => Ok (state_of_rights r) | None => Err E_CASTLING end.
Proof.
  intros Hd. rewrite castling_field_closed by assumption. unfold castling_closed, generic_castling.
  cbn [state_default st_ep st_wk st_wq st_bk st_bq andb negb orb]. rewrite !andb_true_r.
  destruct (forallb kqkq s && nodup_n s); reflexivity.
Qed.

(* the castling field: reader and grammar agree on every non-empty token *)
Lemma castling_field_parse ca : ca <> [] ->
  castling_field ca ca state_default =
  match parse_castling ca with Some r => Ok (state_of_rights r) | None => Err E_CASTLING end.
Proof.
  intros Hne. rewrite parse_castling_eq.
  destruct ca as [|c [|d t]]; [contradiction| |].
  - destruct (N.eqb c 45) eqn:E.
    + apply N.eqb_eq in E. subst c. reflexivity.
    + apply castling_generic. rewrite is_dash_eq. exact E.
  - apply castling_generic. rewrite is_dash_eq. reflexivity.
Qed.

(* ---- the move counters ------------------------------------------------------------------------------------------ *)

Definition counters_ok (counters : list stext) : bool :=
  match counters with
  | [] => true
  | [h] => is_number h
  | [h; f] => is_number h && is_number f
  | _ => false
  end.

Lemma is_number_digits h : h <> [] -> is_number h = all_digits h.
Proof. destruct h; [contradiction | reflexivity]. Qed.

Lemma counter_fields_ok rest :
  Forall (fun t => t <> []) rest -> (counter_fields rest = Ok tt <-> counters_ok rest = true).
Proof.
  intros Hne. unfold counter_fields, counters_ok.
  destruct rest as [|c1 [|c2 [|c3 t]]].
  - split; reflexivity.
  - inversion Hne as [|? ? H1 _]; subst. rewrite is_number_digits by assumption.
    destruct (all_digits c1); split; congruence.
  - inversion Hne as [|? ? H1 Hr]; subst. inversion Hr as [|? ? H2 _]; subst.
    rewrite !is_number_digits by assumption.
    destruct (all_digits c1 && all_digits c2); split; congruence.
  - destruct (all_digits c1 && all_digits c2); split; discriminate.
Qed.

(* ---- both kings present ------------------------------------------------------------------------------------------ *)

Lemma has_king_iff b q c : has b q King c = true <-> bget b q = Some (mkPiece King c).
Proof. unfold has, at_, bget. apply is_king_cell_true. Qed.

Lemma squares_valid q : In q squares <-> valid q.
Proof. apply squares64_valid. Qed.

Lemma kings_rel_w a : AccInv a 0 8 ->
  (a_wk a <> None <-> existsb (fun q => has (a_board a) q King White) squares = true).
Proof.
  intros Hinv. rewrite existsb_exists. split.
  - intros H. destruct (a_wk a) as [p|] eqn:E; [|contradiction].
    destruct (ai_wk _ _ _ Hinv p E) as [Hv Hb]. exists p. split; [now apply squares_valid|].
    now apply has_king_iff.
  - intros (q & Hq & Hh). apply squares_valid in Hq. apply has_king_iff in Hh.
    exact (ai_wk_ex _ _ _ Hinv q Hq Hh).
Qed.

Lemma kings_rel_b a : AccInv a 0 8 ->
  (a_bk a <> None <-> existsb (fun q => has (a_board a) q King Black) squares = true).
Proof.
  intros Hinv. rewrite existsb_exists. split.
  - intros H. destruct (a_bk a) as [p|] eqn:E; [|contradiction].
    destruct (ai_bk _ _ _ Hinv p E) as [Hv Hb]. exists p. split; [now apply squares_valid|].
    now apply has_king_iff.
  - intros (q & Hq & Hh). apply squares_valid in Hq. apply has_king_iff in Hh.
    exact (ai_bk_ex _ _ _ Hinv q Hq Hh).
Qed.

(* ---- the abstract position of an imported game --------------------------------------------------------------------- *)

Lemma abs_import_game a player st wk bk :
  abs (update_phase (import_game a player st wk bk))
  = mkPosition (a_board a) player (abs_rights st) (abs_ep st).
Proof.
  unfold abs. rewrite update_phase_board, update_phase_player, update_phase_gstate. reflexivity.
Qed.

Lemma abs_state_of r e st :
  st = match e with Some f => set_ep (state_of_rights r) f | None => state_of_rights r end ->
  (forall f, e = Some f -> 0 <= f < 8) ->
  abs_rights st = r /\ abs_ep st = e.
Proof.
  intros -> He. destruct r as [a b c d]. destruct e as [f|].
  - split; [reflexivity|]. unfold abs_ep. cbn [set_ep st_ep].
    specialize (He f eq_refl). replace (f <? 8) with true by (symmetry; apply Z.ltb_lt; lia). reflexivity.
  - split; reflexivity.
Qed.

(* ---- theorem 3: the reader accepts nothing outside the grammar and imports the described position -------------------- *)

Theorem import_sound : forall s g, import s = Ok g -> parse s = Some (abs g).
Proof.
  intros s g H. destruct (import_ok_inv s g H) as [pl side castling ep rest a player st0 st wk bk
    Hsplit Hpl Hrow Hcol Hside Hcast Hep Hcnt Hwk Hbk ->].
  pose proof (import_acc_inv pl a Hpl Hrow Hcol) as Hinv.
  pose proof (fields_nonempty s) as Hne. rewrite <- split_ws_fields, Hsplit in Hne.
  inversion Hne as [|? ? _ Hne1]; subst. inversion Hne1 as [|? ? _ Hne2]; subst.
  inversion Hne2 as [|? ? Hca Hne3]; subst. inversion Hne3 as [|? ? _ Hrest]; subst.
  unfold parse. rewrite <- split_ws_fields, Hsplit.
  rewrite (placement_sound pl a Hpl Hrow Hcol).
  rewrite side_field_parse in Hside. destruct (parse_side side) as [sd|]; [|discriminate].
  inversion Hside; subst sd.
  rewrite castling_field_parse in Hcast by assumption.
  destruct (parse_castling castling) as [r|]; [|discriminate]. inversion Hcast; subst st0.
  rewrite ep_field_parse in Hep. destruct (parse_ep ep player) as [e|] eqn:Ee; [|discriminate].
  fold (counters_ok rest). rewrite (proj1 (counter_fields_ok rest Hrest) Hcnt).
  rewrite (proj1 (kings_rel_w a Hinv)) by congruence.
  rewrite (proj1 (kings_rel_b a Hinv)) by congruence.
  cbn [andb]. rewrite abs_import_game.
  destruct (abs_state_of r e st) as [E1 E2].
  - destruct e; inversion Hep; reflexivity.
  - intros f ->. exact (parse_ep_range ep player f Ee).
  - now rewrite E1, E2.
Qed.
Print Assumptions import_sound.

(* ---- theorem 4: every text of the grammar is accepted, with the position it denotes ---------------------------------- *)

Theorem import_complete : forall s p, parse s = Some p -> exists g, import s = Ok g /\ abs g = p.
Proof.
  intros s p H. unfold parse in H.
  pose proof (fields_nonempty s) as Hne.
  destruct (fields s) as [|pl [|sd [|ca [|ep counters]]]] eqn:Ef; try discriminate.
  inversion Hne as [|? ? _ Hne1]; subst. inversion Hne1 as [|? ? _ Hne2]; subst.
  inversion Hne2 as [|? ? Hca Hne3]; subst. inversion Hne3 as [|? ? _ Hrest]; subst.
  destruct (parse_placement pl) as [b|] eqn:Epl; [|discriminate].
  destruct (parse_side sd) as [side|] eqn:Esd; [|discriminate].
  destruct (parse_castling ca) as [r|] eqn:Eca; [|discriminate].
  destruct (parse_ep ep side) as [e|] eqn:Eep; [|discriminate].
  fold (counters_ok counters) in H.
  destruct (counters_ok counters) eqn:Ecn; cbn [andb] in H; [|discriminate].
  destruct (existsb (fun q => has b q King White) squares) eqn:Ew; cbn [andb] in H; [|discriminate].
  destruct (existsb (fun q => has b q King Black) squares) eqn:Eb; [|discriminate].
  inversion H; subst p.
  destruct (placement_complete pl b Epl) as (a & Hpl & Hrow & Hcol & Hb). subst b.
  pose proof (import_acc_inv pl a Hpl Hrow Hcol) as Hinv.
  apply (kings_rel_w a Hinv) in Ew. apply (kings_rel_b a Hinv) in Eb.
  destruct (a_wk a) as [wk|] eqn:Ewk; [|contradiction].
  destruct (a_bk a) as [bk|] eqn:Ebk; [|contradiction].
  set (st0 := state_of_rights r).
  set (st := match e with Some f => set_ep st0 f | None => st0 end).
  exists (update_phase (import_game a side st wk bk)). split.
  - apply (import_ok_intro s pl sd ca ep counters a side st0 st wk bk); try assumption.
    + now rewrite split_ws_fields.
    + now rewrite side_field_parse, Esd.
    + now rewrite castling_field_parse, Eca by assumption.
    + rewrite ep_field_parse, Eep. destruct e; reflexivity.
    + now apply counter_fields_ok.
  - rewrite abs_import_game. destruct (abs_state_of r e st) as [E1 E2]; [reflexivity| |].
    + intros f ->. exact (parse_ep_range ep side f Eep).
    + now rewrite E1, E2.
Qed.
Print Assumptions import_complete.

(* ---- theorem 5: a sane imported position satisfies the rule invariant ------------------------------------------------- *)

Lemma has_iff b q k c : has b q k c = true <-> bget b q = Some (mkPiece k c).
Proof.
  unfold has, at_, bget. destruct (grid_get b q None) as [[k' c']|]; cbn [pk po]; [|split; discriminate].
  rewrite andb_true_iff, kind_eqb_eq, color_eqb_eq. split.
  - intros [-> ->]. reflexivity.
  - intros H. inversion H. auto.
Qed.

Lemma empty_iff b q : empty b q = true <-> bget b q = None.
Proof. unfold empty, at_, bget. destruct (grid_get b q None); split; congruence. Qed.

Lemma filter_one_unique {A} (f : A -> bool) l x y :
  length (filter f l) = 1%nat -> In x l -> In y l -> f x = true -> f y = true -> x = y.
Proof.
  intros Hlen Hx Hy Hfx Hfy.
  assert (In x (filter f l)) as Ix by (apply filter_In; auto).
  assert (In y (filter f l)) as Iy by (apply filter_In; auto).
  destruct (filter f l) as [|z [|w t]]; cbn [length] in Hlen; try discriminate.
  destruct Ix as [<-|[]]. destruct Iy as [<-|[]]. reflexivity.
Qed.

Lemma count_one_unique b k c p q :
  count b k c = 1%nat -> valid p -> valid q ->
  bget b p = Some (mkPiece k c) -> bget b q = Some (mkPiece k c) -> p = q.
Proof.
  intros Hc Hp Hq Bp Bq. unfold count in Hc.
  apply (filter_one_unique (fun s => has b s k c) squares p q Hc).
  - now apply squares_valid.
  - now apply squares_valid.
  - now apply has_iff.
  - now apply has_iff.
Qed.

(* independent of the reader: the cached king squares hold the kings, the position is sane *)
Lemma sane_rule_inv g :
  g_states g <> [] -> state_ok (gstate_of g) ->
  valid (g_wking g) -> valid (g_bking g) ->
  bget (g_board g) (g_wking g) = Some (mkPiece King White) ->
  bget (g_board g) (g_bking g) = Some (mkPiece King Black) ->
  sane (abs g) = true -> RuleInv g.
Proof.
  intros Hst Hok Hvw Hvb Hbw Hbb Hs.
  unfold sane in Hs. cbv zeta in Hs. cbn [abs p_board p_turn p_rights p_ep abs_rights r_wk r_wq r_bk r_bq] in Hs.
  apply andb_true_iff in Hs. destruct Hs as [Hs Hep].
  apply andb_true_iff in Hs. destruct Hs as [Hs Hbq].
  apply andb_true_iff in Hs. destruct Hs as [Hs Hbk].
  apply andb_true_iff in Hs. destruct Hs as [Hs Hwq].
  apply andb_true_iff in Hs. destruct Hs as [Hs Hwk].
  apply andb_true_iff in Hs. destruct Hs as [Hs _].
  apply andb_true_iff in Hs. destruct Hs as [Hs _].
  apply andb_true_iff in Hs. destruct Hs as [Hcw Hcb].
  apply Nat.eqb_eq in Hcw, Hcb.
  constructor; try assumption.
  - intros p c Hp Hk. destruct c; cbn [king_pos].
    + exact (count_one_unique (g_board g) King White _ _ Hcw Hvw Hp Hbw Hk).
    + exact (count_one_unique (g_board g) King Black _ _ Hcb Hvb Hp Hbb Hk).
  - intros c _. destruct c; cbn [home_row]; split; intros Hflag.
    + rewrite Hflag in Hwk. cbn [negb orb] in Hwk. apply andb_true_iff in Hwk. destruct Hwk as [H1 H2].
      split; now apply has_iff.
    + rewrite Hflag in Hwq. cbn [negb orb] in Hwq. apply andb_true_iff in Hwq. destruct Hwq as [H1 H2].
      split; now apply has_iff.
    + rewrite Hflag in Hbk. cbn [negb orb] in Hbk. apply andb_true_iff in Hbk. destruct Hbk as [H1 H2].
      split; now apply has_iff.
    + rewrite Hflag in Hbq. cbn [negb orb] in Hbq. apply andb_true_iff in Hbq. destruct Hbq as [H1 H2].
      split; now apply has_iff.
  - intros Hlt. unfold abs_ep in Hep.
    replace (st_ep (gstate_of g) <? 8) with true in Hep by (symmetry; now apply Z.ltb_lt).
    apply andb_true_iff in Hep. destruct Hep as [Hep _].
    apply andb_true_iff in Hep. destruct Hep as [Hep He].
    apply andb_true_iff in Hep. destruct Hep as [_ Hp].
    apply has_iff in Hp. apply empty_iff in He.
    destruct (g_player g); cbn [ep_rows fst snd ep_from_rank pawn_dir other] in *; split; assumption.
Qed.

Theorem import_rule_inv : forall s g, import s = Ok g -> sane (abs g) = true -> RuleInv g.
Proof.
  intros s g H Hs.
  destruct (import_rule_easy s g H) as (H1 & _ & _ & H2 & H3 & H4 & H5 & H6).
  now apply sane_rule_inv.
Qed.
Print Assumptions import_rule_inv.

Corollary import_rep_inv : forall s g, import s = Ok g -> sane (abs g) = true -> RepInv g.
Proof.
  intros s g H Hs. split; [exact (import_cache s g H) | exact (import_rule_inv s g H Hs)].
Qed.
Print Assumptions import_rep_inv.

(* ---- corollaries ------------------------------------------------------------------------------------------------------ *)

Corollary import_rejects : forall s, parse s = None -> exists c, import s = Err c.
Proof.
  intros s Hp. pose proof (import_never_panics s) as Hn.
  destruct (import s) as [g|c|c] eqn:E; [|exists c; reflexivity|contradiction].
  apply import_sound in E. congruence.
Qed.

Corollary import_accepts_iff : forall s, (exists g, import s = Ok g) <-> (exists p, parse s = Some p).
Proof.
  intros s. split.
  - intros [g H]. exists (abs g). now apply import_sound.
  - intros [p H]. destruct (import_complete s p H) as (g & Hg & _). now exists g.
Qed.

Lemma update_phase_flags g : g_kend g = g_endgame g -> g_kend (update_phase g) = g_endgame (update_phase g).
Proof.
  intros H. unfold update_phase. destruct (negb (g_endgame g) && is_endgame g); [reflexivity | exact H].
Qed.

Corollary import_phase : forall s g, import s = Ok g -> g_kend g = g_endgame g.
Proof.
  intros s g H. destruct (import_ok_inv s g H) as [pl side castling ep rest a player st0 st wk bk
    Hsplit Hpl Hrow Hcol Hside Hcast Hep Hcnt Hwk Hbk ->].
  apply update_phase_flags. reflexivity.
Qed.
