(* C10, mate in two, table on, repaired model (mate scores recounted in the table): PARTIAL.

   Proved here, all with the table ON (tableless = false):
   1. recount_shift / recount_shift_neg / recount_mid: a mate-range score stored at ply r and read at ply r'
      moves by r' - r, other scores do not move (the algebra of score_to_table / score_from_table).
   2. node_ply_range: for EVERY table in range (RangeTable), every iteration, every window the driver can
      open: a node at ply r returns a value in [min (beta, LO + r), max (alpha, HI - r)] - never below "mated at
      this ply" unless it fails high, never above HI - r unless it is its own alpha - and keeps the table in
      range.  The ply-aware form holds for table hits because of the recount (hit_PC); it is false for the
      unrepaired model (a ply-2 entry 32665 read at ply 4).  root_child_ply_range: no root move ever scores
      above 32667.
   3. C10_mate_in_two_table_on_partial: without a mate in one, from a fresh table, never stopped, limit
      none or >= 5: the iterations 1, 2, 3 complete with scores within [-30768, 30768] (no exit), and leave a
      table whose entries sit under the hash of the root or of a child of the root with scores in that bound.
   MISSING for C10_mate_in_two_table_on: iterations 4 and 5.  Iteration 4 stores mate-range entries (32667
   under a ply-1 position in which the opponent mates at once) that iteration 5 reads at ply 3; iteration 5
   needs, for the positions after a key (and after each reply), the flag-by-flag consistency of their entries
   with the point values -32665 / 32665 through the PVS re-searches, ply-aware lower bounds for all other
   entries (node_ply_range is the range half of that), and a no-collision hypothesis over the positions
   of the depth-4 tree.  Not done in the time available. *)
From Coq Require Import Lia FSets.FMapPositive.
From Chess Require Import Model.Search
  Proofs.Grid Proofs.Inv Proofs.Abs Proofs.GenOk Proofs.PushPop Proofs.PushPop2
  Proofs.Reach Proofs.Bounds Proofs.BoundsQ Proofs.BoundsInst Proofs.SearchInv1 Proofs.SearchInv2 Proofs.Top
  Proofs.ScoreRange1 Proofs.ScoreRange2 Proofs.MateOne Proofs.MateTwo Proofs.MateTwoTable.
Open Scope Z_scope.

Ltac rk :=
  unfold RK, WK, T_BOUND, S_STAR, SCORE_MIN, SCORE_MAX, MATE_OFFSET_NODE, MATE_OFFSET_DEPTH1,
    MATE_OFFSET_QUIESCENCE, BOUND in *; lia.

(* ---- 1. the recount of mate scores ---------------------------------------------------------------------------- *)

(* a mate-range score stored at ply r and read at ply r' moves by r' - r; other scores do not move *)
Lemma recount_shift s r r' :
  0 <= r <= 255 -> 0 <= r' <= 255 -> SCORE_MAX - TABLE_MATE_MARGIN < s <= HI - r ->
  score_from_table (score_to_table s r) r' = s - (r' - r).
Proof.
  intros Hr Hr' Hs. unfold score_from_table, score_to_table, TABLE_MATE_MARGIN, HI, LO in *.
  assert (E1 : (SCORE_MAX - 1000 <? s) = true) by (apply Z.ltb_lt; lia). rewrite E1.
  assert (E2 : Z.min (- (SCORE_MIN + MATE_OFFSET_NODE)) (s + r) = s + r) by rk. rewrite E2.
  assert (E3 : (SCORE_MAX - 1000 <? s + r) = true) by (apply Z.ltb_lt; lia). rewrite E3. lia.
Qed.

Lemma recount_shift_neg s r r' :
  0 <= r <= 255 -> 0 <= r' <= 255 -> LO + r <= s < SCORE_MIN + TABLE_MATE_MARGIN ->
  score_from_table (score_to_table s r) r' = s + (r' - r).
Proof.
  intros Hr Hr' Hs. unfold score_from_table, score_to_table, TABLE_MATE_MARGIN, HI, LO in *.
  assert (E1 : (SCORE_MAX - 1000 <? s) = false) by (apply Z.ltb_ge; rk). rewrite E1.
  assert (E1' : (s <? SCORE_MIN + 1000) = true) by (apply Z.ltb_lt; lia). rewrite E1'.
  assert (E2 : Z.max (SCORE_MIN + MATE_OFFSET_NODE) (s - r) = s - r) by rk. rewrite E2.
  assert (E3 : (SCORE_MAX - 1000 <? s - r) = false) by (apply Z.ltb_ge; rk). rewrite E3.
  assert (E4 : (s - r <? SCORE_MIN + 1000) = true) by (apply Z.ltb_lt; lia). rewrite E4. lia.
Qed.

Lemma recount_mid s r r' :
  SCORE_MIN + TABLE_MATE_MARGIN <= s <= SCORE_MAX - TABLE_MATE_MARGIN ->
  score_from_table (score_to_table s r) r' = s.
Proof.
  intros Hs. unfold score_from_table, score_to_table, TABLE_MATE_MARGIN in *.
  assert (E1 : (SCORE_MAX - 1000 <? s) = false) by (apply Z.ltb_ge; lia).
  assert (E2 : (s <? SCORE_MIN + 1000) = false) by (apply Z.ltb_ge; lia).
  rewrite E1, E2, E1, E2. reflexivity.
Qed.

(* ---- 2. ply-aware ranges, table on, every iteration --------------------------------------------------------------

   With the table on and for every table in range (RangeTable), a node at ply r returns a value that is
   - at least min (beta, LO + r): never below "mated at this ply" unless it is a fail-high bound,
   - at most max (alpha, HI - r): never above "mate delivered r plies ago"... i.e. HI - r, unless it is its alpha.
   The ply-independent statement of ScoreRange2.node_range (InR) is the case r = 0 of the bounds; the recount
   of the table makes the ply-aware form hold for table hits as well (a stored mate score is "mate in k from
   the node", at most HI, and is read k plies... r plies further from the root). *)
Definition PLo (r : Z) : Z := LO + r.
Definition PHi (r : Z) : Z := HI - r.
Definition PC (r a b s : Z) : Prop := Z.min b (PLo r) <= s <= Z.max a (PHi r).

Ltac pc := unfold PC, PLo, PHi, FH, T_BOUND in *; rng.

Lemma hit_PC e r a b : InR e -> 1 <= r <= 255 -> PC r a b (score_from_table e r).
Proof.
  intros He Hr. unfold score_from_table, TABLE_MATE_MARGIN.
  destruct (SCORE_MAX - 1000 <? e) eqn:E1; [apply Z.ltb_lt in E1; pc|]. apply Z.ltb_ge in E1.
  destruct (e <? SCORE_MIN + 1000) eqn:E2; [apply Z.ltb_lt in E2; pc | apply Z.ltb_ge in E2; pc].
Qed.

Definition nresC (r a b : Z) (x : outcome Z * sstate) : Prop :=
  match x with
  | (Done s, st') => InR s /\ RT st' /\ PC r a b s
  | (Aborted sa, st') => st' = sa /\ RT sa
  | (OutOfFuel, st') => RT st'
  end.

Section NodeLoopP.
  Variable rec : nrec.
  Variable g : game.
  Variables real alpha0 beta : Z.
  Hypothesis Hreal : 1 <= real <= 254.
  Hypothesis Hbeta : LO <= beta.
  Hypothesis rec_ok : forall m st a b,
    In m (checked_moves g) -> RT st -> Win a b -> nresC (real + 1) a b (rec (push g m) st (real + 1) a b).

  Definition LPreP (l : lstate) : Prop := l_alpha l <= Z.max alpha0 (PHi real).
  Definition LPostP (l : lstate) : Prop := Z.min beta (PLo real) <= l_alpha l <= Z.max alpha0 (PHi real).

  Definition lresP (o : outcome lstate) : Prop :=
    match o with Done l => LPost l /\ LPostP l | Aborted sa => RT sa | OutOfFuel => True end.

  Ltac postp :=
    cbv beta iota zeta; cbn [lresP]; unfold LPost, LPostP, LPreP in *;
    cbn [l_st l_alpha l_bscore l_best];
    split; [split; [assumption|]; repeat (split; [rng|]); first [discriminate | assumption] | pc].

  Lemma node_step_P m index l :
    In m (checked_moves g) -> (index = 0 /\ LPre l /\ LPreP l) \/ (LPost l /\ LPostP l) ->
    lresP (node_step rec g real beta m index l).
  Proof.
    intros Hm H. unfold node_step.
    destruct H as [[-> ((HT & Ha & Hs) & HP)] | ((HT & Ha & Hs & Hbm) & HP)].
    - change (0 <=? PVS_FULL_WINDOW_LAST_INDEX) with true. cbv iota.
      pose proof (rec_ok m (l_st l) (- beta) (- l_alpha l) Hm HT ltac:(rng)) as H1.
      destruct (rec (push g m) (l_st l) (real + 1) (- beta) (- l_alpha l)) as [[s|sa|] st1];
        cbn [nresC] in H1; cbn [lresP].
      + destruct H1 as (Hr & HT1 & Hc). rewrite Hs.
        assert (E : (SCORE_MIN <? - s) = true) by (apply Z.ltb_lt; rng). rewrite E. postp.
      + apply H1.
      + exact I.
    - destruct (index <=? PVS_FULL_WINDOW_LAST_INDEX).
      + pose proof (rec_ok m (l_st l) (- beta) (- l_alpha l) Hm HT ltac:(rng)) as H1.
        destruct (rec (push g m) (l_st l) (real + 1) (- beta) (- l_alpha l)) as [[s|sa|] st1];
          cbn [nresC] in H1; cbn [lresP].
        * destruct H1 as (Hr & HT1 & Hc). destruct (l_bscore l <? - s); postp.
        * apply H1.
        * exact I.
      + pose proof (rec_ok m (l_st l) (- l_alpha l - 1) (- l_alpha l) Hm HT ltac:(rng)) as H1.
        destruct (rec (push g m) (l_st l) (real + 1) (- l_alpha l - 1) (- l_alpha l)) as [[s|sa|] st1];
          cbn [nresC] in H1; cbn [lresP].
        * destruct H1 as (Hr & HT1 & Hc). destruct (l_bscore l <? - s).
          -- pose proof (rec_ok m st1 (- beta) (- - s) Hm HT1 ltac:(rng)) as H2.
             destruct (rec (push g m) st1 (real + 1) (- beta) (- - s)) as [[s2|sa2|] st2];
               cbn [nresC] in H2; cbn [lresP].
             ++ destruct H2 as (Hr2 & HT2 & Hc2). postp.
             ++ apply H2.
             ++ exact I.
          -- postp.
        * apply H1.
        * exact I.
  Qed.

  Lemma node_loop_P remaining : forall ms index l,
    incl ms (checked_moves g) ->
    (index = 0 /\ LPre l /\ LPreP l /\ ms <> []) \/ (LPost l /\ LPostP l) ->
    lresP (node_loop rec g real beta remaining ms index l).
  Proof.
    induction ms as [|m rest IH]; intros index l Hincl H.
    - rewrite node_loop_nil. cbn [lresP]. destruct H as [(_ & _ & _ & Hne)|H]; [congruence | exact H].
    - rewrite node_loop_cons.
      assert (Hm : In m (checked_moves g)) by (apply Hincl; now left).
      assert (Hstep : lresP (node_step rec g real beta m index l)).
      { apply node_step_P; [exact Hm|]. destruct H as [(H1 & H2 & H3 & _)|H]; [left; split; [exact H1 | split; [exact H2 | exact H3]] | now right]. }
      destruct (node_step rec g real beta m index l) as [l'|sa|]; cbn [lresP] in Hstep.
      + destruct (beta <=? l_alpha l').
        * cbn [lresP]. unfold node_cutoff, LPost, LPostP in *. cbn [l_st l_alpha l_bscore l_best]. exact Hstep.
        * apply IH; [intros x Hx; apply Hincl; now right | now right].
      + exact Hstep.
      + exact I.
  Qed.
End NodeLoopP.

Theorem node_ply_range : forall rem g st real a b,
  ArgsOK rem real -> GB g -> RT st -> Win a b -> nresC real a b (node rem g st real a b).
Proof.
  induction rem as [|rem IH]; intros g st real a b HA Hg HT Hw; rewrite node_unfold;
    pose proof (RT_poll st HT) as HTp;
    (destruct (s_running (poll st)); cbn [negb]; [|cbn [nresC]; split; [reflexivity | exact HTp]]);
    unfold node_body;
    pose proof (ArgsOK_range _ _ HA) as HAr; pose proof HA as [HA1 HA2];
    (destruct (probe (node_entry g (poll st) real) _ a b) as [sp|] eqn:Ep;
     [apply probe_some in Ep; destruct Ep as (en & Ef & ->); cbn [nresC];
      apply node_entry_some in Ef; destruct Ef as (en0 & Ef & ->); cbn [entry_from_table e_score];
      split; [apply score_from_table_InR; [exact (proj1 (HTp _ _ Ef)) | lia]|];
      split; [exact HTp | apply hit_PC; [exact (proj1 (HTp _ _ Ef)) | lia]] |]).
  - destruct (quiescence QFUEL g a b real) as [s|] eqn:Eq; cbn [lift nresC]; [|exact HTp].
    split; [apply (quiescence_range QFUEL g a b real s); try assumption; lia|].
    split; [exact HTp|]. pose proof (quiescence_FH QFUEL g a b real s Hg ltac:(lia) Eq). pc.
  - destruct rem as [|r].
    + destruct (depth1 g a b real) as [s|] eqn:Eq; cbn [lift nresC]; [|exact HTp].
      split; [apply (depth1_range g a b real s); try assumption; lia|].
      split; [exact HTp|]. pose proof (depth1_FH g a b real s Hg ltac:(lia) Eq). pc.
    + rewrite node_deep_eq. destruct (checked_moves g) as [|m0 ms0] eqn:Ecm.
      * cbn [nresC]. split; [apply no_move_score_range; [unfold MATE_OFFSET_NODE, MATE_OFFSET_QUIESCENCE; lia | lia]|].
        split; [exact HTp|]. unfold no_move_score. destruct (king_exists g (g_player g) && _); pc.
      * assert (Hincl : incl (node_sorted g (poll st) real) (checked_moves g)).
        { intros x Hx. unfold node_sorted, node_sorted_of in Hx. apply sort_moves_in in Hx. exact Hx. }
        assert (Hne : node_sorted g (poll st) real <> []).
        { intros E. unfold node_sorted, node_sorted_of in E. apply sort_moves_nil in E. congruence. }
        assert (Hrec : forall m st' a' b', In m (checked_moves g) -> RT st' -> Win a' b' ->
                         nresC (real + 1) a' b' (node (S r) (push g m) st' (real + 1) a' b')).
        { intros m st' a' b' Hm HT' Hw'. apply IH; try assumption.
          - apply ArgsOK_step. exact HA.
          - now apply GB_push_checked. }
        pose proof (node_loop_P (node (S r)) g real a b ltac:(lia) (proj2 Hw) Hrec (Z.of_nat (S (S r)))
                      (node_sorted g (poll st) real) 0 (mkL a None SCORE_MIN (poll st)) Hincl) as HL.
        assert (Hpre : (0 = 0 /\ LPre (mkL a None SCORE_MIN (poll st)) /\
                        LPreP real a (mkL a None SCORE_MIN (poll st)) /\ node_sorted g (poll st) real <> [])
                       \/ (LPost (mkL a None SCORE_MIN (poll st)) /\ LPostP real a b (mkL a None SCORE_MIN (poll st)))).
        { left. split; [reflexivity|]. split; [|split; [|exact Hne]].
          - unfold LPre. cbn [l_st l_alpha l_bscore]. split; [exact HTp|]. split; [exact (proj1 Hw) | reflexivity].
          - unfold LPreP. cbn [l_alpha]. lia. }
        specialize (HL Hpre).
        destruct (node_loop _ _ _ _ _ _ _ _) as [l|sa|]; cbn [lresP] in HL; cbn [node_finish nresC].
        -- destruct HL as ((HTl & Hal & Hbl & Hbest) & HP).
           split; [exact Hal|]. split; [|exact HP]. unfold RT. cbn [with_tbl s_tbl].
           apply TableAll_store_node; [exact HTl|].
           unfold entry_ok. cbn [e_score e_pv e_depth].
           split; [apply score_to_table_InR; [exact Hbl | lia]|]. split; [exact Hbest|]. lia.
        -- split; [reflexivity | exact HL].
        -- exact HTp.
Qed.

(* at the children of the root: no child returns less than "mated at ply 1" = LO + 1 unless it fails high, so
   no root move scores above HI - 1 = 32667 (the score of a mate in one) *)
Corollary root_child_ply_range rem' g m st a b s st' :
  ArgsOK rem' 1 -> GB g -> In m (checked_moves g) -> RT st -> Win a b ->
  node rem' (push g m) st 1 a b = (Done s, st') ->
  Z.min b (LO + 1) <= s <= Z.max a (HI - 1).
Proof.
  intros HA Hg Hm HT Hw E.
  pose proof (node_ply_range rem' (push g m) st 1 a b HA (GB_push_checked g m Hg Hm) HT Hw) as H.
  rewrite E in H. destruct H as (_ & _ & H). exact H.
Qed.

(* ---- 3. table on: the iterations 1..3 of a position without a mate in one ------------------------------------------

   With the table on, from a fresh table, never stopped: the first three iterations complete with scores
   within [-30768, 30768], outside the exit bands; after them the table holds entries under the hash of the root
   or of a child of the root only, with scores within the same bound.  (Iterations 1 and 2: Proofs/MateOne.v;
   iteration 3: every child is searched by a node of remaining depth 2 over depth-1 searches.) *)
Section FirstThree.
  Variable g : game.
  Hypothesis Hg : GB g.
  Hypothesis Hnm : NoMateInOne g.

  Lemma nomate_facts m :
    In m (checked_moves g) ->
    ~ mates g m /\ (checked_moves (push g m) = [] -> in_check_model (push g m) = false).
  Proof.
    intros Hm. split.
    - now apply (proj1 (NoMateInOne_iff g) Hnm).
    - intros Hd. pose proof (Hnm m Hm) as H. rewrite (mated_b_dead _ Hd) in H.
      rewrite in_check_model_safe. exact H.
  Qed.

  Lemma root_loop3_nomate : forall ms index r,
    incl ms (checked_moves g) -> NS (r_st r) ->
    (index = 0 /\ PhA0 g r /\ ms <> []) \/ PhA1 g r ->
    exists r', root_loop g 2 ms index r = Done r' /\ NS (r_st r') /\ PhA1 g r'.
  Proof.
    induction ms as [|m rest IH]; intros index r Hincl Hns H.
    - rewrite root_loop_nil. exists r. split; [reflexivity|]. split; [exact Hns|].
      destruct H as [(_ & _ & Hne) | H]; [congruence | exact H].
    - rewrite root_loop_cons.
      assert (Hm : In m (checked_moves g)) by (apply Hincl; now left).
      destruct (nomate_facts m Hm) as [Hn Hd].
      destruct (step_other_T g Hg m index r Hm Hn Hd Hns) as (r1 & E1 & Hns1 & HA1).
      { destruct H as [(H1 & H2 & _) | H]; [left; split; assumption | right; exact H]. }
      rewrite E1. apply IH; [intros x Hx; apply Hincl; now right | exact Hns1 | right; exact HA1].
  Qed.

  Lemma root_3_nomate st :
    NS st -> IterT g 2 (s_tbl st) -> (2 <= length (checked_moves g))%nat ->
    repetition_filter g (checked_moves g) <> [] ->
    exists bm sc st', root g st 3 = (Done (Some bm, sc, false), st') /\ RK T_BOUND sc /\ NS st' /\
                      TH g T_BOUND (s_tbl st').
  Proof.
    intros Hns HI Hlen Hflt.
    destruct (root_loop3_nomate (root_sorted g (root_clear st)) 0 (mkR None (SCORE_MIN + 1) (root_clear st))
                (root_sorted_incl' g (root_clear st)) Hns) as (r' & El & Hns' & (HT & Hs & Hb)).
    { left. split; [reflexivity|]. split; [|now apply root_sorted_nonempty].
      split; [exact (IterT_TH g _ _ HI) | reflexivity]. }
    assert (Hhit : root_hit (tfind (s_tbl st) (g_hash g)) 3 = None).
    { apply (root_hit_shallow g (s_tbl st) 3 2); [|lia]. intros en Hf. exact (proj1 (proj2 (HI _ _ Hf))). }
    rewrite (root_via_loop g st 3 r' Hlen Hhit El). cbn [root_finish].
    destruct (r_best r') as [bm|] eqn:Eb; [|congruence].
    exists bm, (r_bscore r'). eexists. split; [reflexivity|]. split; [exact Hs|]. split; [exact Hns'|].
    cbn [with_tbl s_tbl]. apply TableAll_store_root; [exact HT|].
    cbn [e_score]. split; [left; reflexivity | exact Hs].
  Qed.
End FirstThree.

Theorem C10_mate_in_two_table_on_partial g limit stop_at :
  GB g -> NoMateInOne g -> Limit5OK limit -> stop_at < 0 ->
  (2 <= length (checked_moves g))%nat -> repetition_filter g (checked_moves g) <> [] ->
  let st0 := fresh_state tempty stop_at false in
  exists b1 s1 st1 b2 s2 st2 b3 s3 st3 n,
    driver_iterations g tempty limit stop_at false =
      mkIt 1 st0 (IDone (Some b1) s1 false) :: mkIt 2 st1 (IDone (Some b2) s2 false) ::
      mkIt 3 st2 (IDone (Some b3) s3 false) :: driver_trace n g st3 4 limit /\
    RK T_BOUND s1 /\ RK T_BOUND s2 /\ RK T_BOUND s3 /\ NS st3 /\ TH g T_BOUND (s_tbl st3).
Proof.
  intros Hg Hnm HL Hstop Hlen Hflt st0.
  unfold driver_iterations. rewrite starting_depth_fresh. fold st0.
  change 256%nat with (S (S (S 253))).
  destruct (root_low g Hg 1 st0 ltac:(lia) (fresh_NS tempty stop_at Hstop) (TableAll_empty _) Hlen Hflt)
    as (b1 & s1 & st1 & E1 & Hs1 & Hns1 & HI1).
  destruct (root_low g Hg 2 st1 ltac:(lia) Hns1 HI1 Hlen Hflt) as (b2 & s2 & st2 & E2 & Hs2 & Hns2 & HI2).
  destruct (root_3_nomate g Hg Hnm st2 Hns2 HI2 Hlen Hflt) as (b3 & s3 & st3 & E3 & Hs3 & Hns3 & HT3).
  exists b1, s1, st1, b2, s2, st2, b3, s3, st3, 253%nat.
  assert (X : forall s d, d <= 4 -> RK T_BOUND s -> exit_test limit d false s = false).
  { intros s d Hd Hs. apply exit_test_low5; [exact HL | exact Hd | exact Hs]. }
  rewrite (driver_trace_step _ g st0 1 limit _ _ _ _ ltac:(lia) E1), (X s1 1 ltac:(lia) Hs1).
  change (1 + 1) with 2.
  rewrite (driver_trace_step _ g st1 2 limit _ _ _ _ ltac:(lia) E2), (X s2 2 ltac:(lia) Hs2).
  change (2 + 1) with 3.
  rewrite (driver_trace_step _ g st2 3 limit _ _ _ _ ltac:(lia) E3), (X s3 3 ltac:(lia) Hs3).
  change (3 + 1) with 4.
  split; [reflexivity|]. split; [exact Hs1|]. split; [exact Hs2|]. split; [exact Hs3|]. split; [exact Hns3 | exact HT3].
Qed.

(* ---- 4. instances --------------------------------------------------------------------------------------------------- *)

Example pawn_m2_first_three limit :
  Limit5OK limit ->
  exists b1 s1 st1 b2 s2 st2 b3 s3 st3 n,
    driver_iterations PAWN_M2 tempty limit (-1) false =
      mkIt 1 (fresh_state tempty (-1) false) (IDone (Some b1) s1 false) :: mkIt 2 st1 (IDone (Some b2) s2 false) ::
      mkIt 3 st2 (IDone (Some b3) s3 false) :: driver_trace n PAWN_M2 st3 4 limit /\
    RK T_BOUND s1 /\ RK T_BOUND s2 /\ RK T_BOUND s3.
Proof.
  intros HL. destruct pawn_m2_hyps as (_ & H1 & _).
  destruct (C10_mate_in_two_table_on_partial PAWN_M2 limit (-1) pawn_m2_good (no_mate_in_one_b_ok _ H1) HL
              ltac:(lia)) as (b1 & s1 & st1 & b2 & s2 & st2 & b3 & s3 & st3 & n & E & R1 & R2 & R3 & _).
  - vm_compute. lia.
  - vm_compute. discriminate.
  - exists b1, s1, st1, b2, s2, st2, b3, s3, st3, n. repeat split; try exact E; apply R1 || apply R2 || apply R3.
Qed.

Example missed_key_first_three limit :
  Limit5OK limit ->
  exists b1 s1 st1 b2 s2 st2 b3 s3 st3 n,
    driver_iterations MISSED_KEY tempty limit (-1) false =
      mkIt 1 (fresh_state tempty (-1) false) (IDone (Some b1) s1 false) :: mkIt 2 st1 (IDone (Some b2) s2 false) ::
      mkIt 3 st2 (IDone (Some b3) s3 false) :: driver_trace n MISSED_KEY st3 4 limit /\
    RK T_BOUND s1 /\ RK T_BOUND s2 /\ RK T_BOUND s3.
Proof.
  intros HL. destruct missed_key_mechanism as (_ & H1 & _).
  destruct (C10_mate_in_two_table_on_partial MISSED_KEY limit (-1) missed_key_good (no_mate_in_one_b_ok _ H1) HL
              ltac:(lia)) as (b1 & s1 & st1 & b2 & s2 & st2 & b3 & s3 & st3 & n & E & R1 & R2 & R3 & _).
  - vm_compute. lia.
  - vm_compute. discriminate.
  - exists b1, s1, st1, b2, s2, st2, b3, s3, st3, n. repeat split; try exact E; apply R1 || apply R2 || apply R3.
Qed.

Print Assumptions node_ply_range.
Print Assumptions root_child_ply_range.
Print Assumptions C10_mate_in_two_table_on_partial.
Print Assumptions pawn_m2_first_three.
Print Assumptions missed_key_first_three.
