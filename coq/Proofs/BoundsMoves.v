(* C15, part C: a material-based bound on the number of pseudo-legal moves (the untruncated
   list pseudo_moves_all): per piece of the side to move at most
     queen 27, rook 14, bishop 13, knight 8, pawn 12, king 8 + 2 castling moves.
   The slider constants are exact (geometry checked on the 64 squares by computation).
   Consequence: the 256-entry buffer is never overfull for the initial material (and for any
   material whose weighted sum is <= 256); the statement for all reachable material is open,
   and for arbitrary FEN-accepted material it is false (witness below). *)
From Coq Require Import Lia.
From Chess Require Import Model.Search Model.Fen Proofs.Grid Proofs.Inv Proofs.Bounds Proofs.Abs.
Open Scope Z_scope.

(* ---- list helpers ----------------------------------------------------------------------------------- *)

Lemma list_sum_cons x l : list_sum (x :: l) = (x + list_sum l)%nat.
Proof. reflexivity. Qed.

Lemma flat_map_len_le {A B} (f : A -> list B) (h : A -> nat) (l : list A) :
  (forall x, In x l -> (length (f x) <= h x)%nat) ->
  (length (flat_map f l) <= list_sum (map h l))%nat.
Proof.
  induction l as [|x t IH]; intros H; cbn [flat_map map length]; [cbn; lia|].
  rewrite app_length, list_sum_cons. pose proof (H x (or_introl eq_refl)).
  assert ((length (flat_map f t) <= list_sum (map h t))%nat) by (apply IH; intros y Hy; apply H; now right).
  lia.
Qed.

Lemma flat_map_len_const {A B} (f : A -> list B) (c : nat) (l : list A) :
  (forall x, (length (f x) <= c)%nat) -> (length (flat_map f l) <= c * length l)%nat.
Proof.
  intros H. induction l as [|x t IH]; cbn [flat_map length]; [lia|].
  rewrite app_length. specialize (H x). lia.
Qed.

(* ---- rays: the number of board squares ahead ------------------------------------------------------------ *)

Fixpoint room (fuel : nat) (p : pos) (d : Z * Z) (x : Z) : nat :=
  match fuel with
  | O => O
  | S f => match add p (scale x d) with
           | None => O
           | Some _ => S (room f p d (x + 1))
           end
  end.

Lemma ray_moves_len fuel g self p d x : (length (ray_moves fuel g self p d x) <= room fuel p d x)%nat.
Proof.
  revert x. induction fuel as [|f IH]; intros x; cbn [ray_moves room]; [cbn; lia|].
  destruct (add p (scale x d)) as [np|]; [|cbn; lia].
  destruct (gget g np) as [pc|].
  - destruct (negb (color_eqb (po pc) (g_player g))); cbn [length]; lia.
  - cbn [length]. specialize (IH (x + 1)). lia.
Qed.

(* never more than 7 squares on one ray from a board square (any direction of the three lists) *)
Lemma room_le_7 :
  forallb (fun p => forallb (fun d => Nat.leb (room 8 p d 1) 7) GEN_QUEEN_DIRS) squares64 = true.
Proof. vm_compute. reflexivity. Qed.

Theorem ray_moves_le_7 g self p d :
  valid p -> In d GEN_QUEEN_DIRS -> (length (ray_moves 8 g self p d 1) <= 7)%nat.
Proof.
  intros Hv Hd. etransitivity; [apply ray_moves_len|].
  pose proof room_le_7 as H. rewrite forallb_forall in H.
  specialize (H p (proj2 (squares64_valid p) Hv)). rewrite forallb_forall in H.
  apply Nat.leb_le. now apply H.
Qed.

Definition slider_room (dirs : list (Z * Z)) (p : pos) : nat :=
  list_sum (map (fun d => room 8 p d 1) dirs).

Lemma slider_moves_len g self p dirs : (length (slider_moves g self p dirs) <= slider_room dirs p)%nat.
Proof.
  unfold slider_moves, slider_room. apply flat_map_len_le. intros d _. apply ray_moves_len.
Qed.

Lemma slider_room_table :
  forallb (fun p => Nat.leb (slider_room GEN_ROOK_DIRS p) 14
                    && Nat.leb (slider_room GEN_BISHOP_DIRS p) 13
                    && Nat.leb (slider_room GEN_QUEEN_DIRS p) 27) squares64 = true.
Proof. vm_compute. reflexivity. Qed.

(* the constants are attained: 14 everywhere for the rook, 13 and 27 in the centre *)
Lemma slider_room_exact :
  slider_room GEN_ROOK_DIRS (0, 0) = 14%nat /\ slider_room GEN_BISHOP_DIRS (3, 3) = 13%nat
  /\ slider_room GEN_QUEEN_DIRS (3, 3) = 27%nat.
Proof. repeat split. Qed.

Lemma slider_room_valid p :
  valid p ->
  (slider_room GEN_ROOK_DIRS p <= 14 /\ slider_room GEN_BISHOP_DIRS p <= 13
   /\ slider_room GEN_QUEEN_DIRS p <= 27)%nat.
Proof.
  intros Hv. pose proof slider_room_table as H. rewrite forallb_forall in H.
  specialize (H p (proj2 (squares64_valid p) Hv)).
  apply andb_true_iff in H. destruct H as [H H3]. apply andb_true_iff in H. destruct H as [H1 H2].
  apply Nat.leb_le in H1, H2, H3. auto.
Qed.

Theorem rook_moves_len g self p : valid p -> (length (slider_moves g self p GEN_ROOK_DIRS) <= 14)%nat.
Proof. intros Hv. etransitivity; [apply slider_moves_len | apply (slider_room_valid p Hv)]. Qed.

Theorem bishop_moves_len g self p : valid p -> (length (slider_moves g self p GEN_BISHOP_DIRS) <= 13)%nat.
Proof. intros Hv. etransitivity; [apply slider_moves_len | apply (slider_room_valid p Hv)]. Qed.

Theorem queen_moves_len g self p : valid p -> (length (slider_moves g self p GEN_QUEEN_DIRS) <= 27)%nat.
Proof. intros Hv. etransitivity; [apply slider_moves_len | apply (slider_room_valid p Hv)]. Qed.

(* ---- knight and king ------------------------------------------------------------------------------------ *)

Theorem knight_moves_len g self p : (length (knight_moves g self p) <= 8)%nat.
Proof.
  unfold knight_moves.
  change 8%nat with (1 * length GEN_KNIGHT_DELTAS)%nat. apply flat_map_len_const.
  intros d. destruct (add p d) as [np|]; [|cbn; lia]. destruct (own g (gget g np)); cbn; lia.
Qed.

Lemma king_steps_len g self p : (length (king_steps g self p) <= 8)%nat.
Proof.
  unfold king_steps.
  change 8%nat with (1 * length GEN_KING_DELTAS)%nat. apply flat_map_len_const.
  intros d. destruct (add p d) as [np|]; [|cbn; lia]. destruct (own g (gget g np)); [cbn; lia|].
  destruct (_ && _); cbn; lia.
Qed.

Lemma castling_moves_len g : (length (castling_moves g) <= 2)%nat.
Proof.
  unfold castling_moves. destruct (g_player g); cbv zeta beta iota;
    rewrite app_length;
    match goal with |- (length (if ?a then _ else _) + length (if ?b then _ else _) <= 2)%nat =>
      destruct a, b; cbn [length]; lia end.
Qed.

Theorem king_moves_len g self p : (length (king_moves g self p) <= 10)%nat.
Proof.
  unfold king_moves. rewrite app_length.
  pose proof (king_steps_len g self p). pose proof (castling_moves_len g). lia.
Qed.

(* ---- pawn: 12 = 4 push promotions + 2 * 4 capture promotions ---------------------------------------------- *)

Lemma add_eq p d np : add p d = Some np -> np = (fst p + fst d, snd p + snd d).
Proof. unfold add. destruct (in_range _ _); [|discriminate]. congruence. Qed.

Ltac destruct_if :=
  match goal with |- context [if ?c then _ else _] => destruct c end.

Ltac fin := repeat destruct_if; rewrite ?map_length; cbn; lia.

Theorem pawn_moves_len g self p : (length (pawn_moves g self p) <= 12)%nat.
Proof.
  unfold pawn_moves. cbv zeta. rewrite !app_length.
  set (o := po self).
  match goal with |- (length ?d + (length ?s + (length ?c + length ?e)) <= 12)%nat =>
    set (D := d); set (S := s); set (C := c); set (E := e) end.
  assert (HD : (length D <= if (fst p =? PAWN_FIRST_ROW o)%Z then 1 else 0)%nat).
  { subst D. clearbody S C E. destruct (fst p =? PAWN_FIRST_ROW o); [|cbn; lia].
    cbn [andb]. destruct_if; cbn; lia. }
  assert (HE : (length E <= if (fst p =? PAWN_EP_ROW o)%Z then 1 else 0)%nat).
  { subst E. clearbody D S C. destruct (fst p =? PAWN_EP_ROW o); [|cbn; lia].
    cbn [andb]. destruct_if; cbn; lia. }
  assert (HS : (length S <= if (PAWN_LAST_ROW o =? fst p + fst (PAWN_NORMAL_DELTA o))%Z then 4 else 1)%nat).
  { subst S. clearbody D C E. destruct (add p (PAWN_NORMAL_DELTA o)) as [np|] eqn:Ea.
    - apply add_eq in Ea. subst np. cbn [fst].
      fin.
    - fin. }
  assert (HC : (length C <= 2 * if (PAWN_LAST_ROW o =? fst p + fst (PAWN_NORMAL_DELTA o))%Z then 4 else 1)%nat).
  { subst C. clearbody D S E.
    assert (Hone : forall d, fst d = fst (PAWN_NORMAL_DELTA o) ->
      (length (match add p d with
               | Some np =>
                   match gget g np with
                   | Some pc =>
                       if negb (color_eqb (po pc) o) then
                         if (PAWN_LAST_ROW o =? fst np)%Z then
                           map (fun k => Promotion (g_player g) k p np (gget g np)) PROMOTION_KINDS_CAPTURE
                         else [Normal self p np (gget g np)]
                       else []
                   | None => []
                   end
               | None => []
               end) <= if (PAWN_LAST_ROW o =? fst p + fst (PAWN_NORMAL_DELTA o))%Z then 4 else 1)%nat).
    { intros d Hd. destruct (add p d) as [np|] eqn:Ea; [|fin].
      apply add_eq in Ea. subst np. cbn [fst]. rewrite Hd.
      destruct (gget g _) as [pc|]; [|fin].
      fin. }
    destruct o; cbn [PAWN_SIDE_DELTAS flat_map]; rewrite app_nil_r, app_length.
    - pose proof (Hone (1, 1) eq_refl). pose proof (Hone (1, -1) eq_refl). cbv zeta in *. lia.
    - pose proof (Hone (-1, 1) eq_refl). pose proof (Hone (-1, -1) eq_refl). cbv zeta in *. lia. }
  clearbody D S C E.
  destruct o; cbn [PAWN_FIRST_ROW PAWN_EP_ROW PAWN_LAST_ROW PAWN_NORMAL_DELTA fst] in *.
  - destruct (fst p =? 1) eqn:E1; destruct (fst p =? 4) eqn:E4; destruct (7 =? fst p + 1) eqn:E7;
      rewrite ?Z.eqb_eq, ?Z.eqb_neq in *; lia.
  - destruct (fst p =? 6) eqn:E1; destruct (fst p =? 3) eqn:E4; destruct (0 =? fst p + -1) eqn:E7;
      rewrite ?Z.eqb_eq, ?Z.eqb_neq in *; lia.
Qed.

(* ---- one piece, all pieces -------------------------------------------------------------------------------- *)

Definition kind_cap (k : kind) : nat :=
  match k with Queen => 27 | Rook => 14 | Bishop => 13 | Knight => 8 | Pawn => 12 | King => 10 end.

Theorem piece_moves_len g self p : valid p -> (length (piece_moves g self p) <= kind_cap (pk self))%nat.
Proof.
  intros Hv. unfold piece_moves. destruct (pk self); cbn [kind_cap].
  - now apply queen_moves_len.
  - now apply rook_moves_len.
  - now apply bishop_moves_len.
  - apply knight_moves_len.
  - apply pawn_moves_len.
  - apply king_moves_len.
Qed.

Definition own_cap (g : game) (p : pos) : nat :=
  match gget g p with
  | Some pc => if color_eqb (po pc) (g_player g) then kind_cap (pk pc) else 0
  | None => 0
  end.

Lemma bd_all_squares_eq : all_squares = squares64.
Proof. vm_compute. reflexivity. Qed.

Lemma pseudo_moves_all_len_sum g : (length (pseudo_moves_all g) <= list_sum (map (own_cap g) all_squares))%nat.
Proof.
  unfold pseudo_moves_all. apply flat_map_len_le. intros p Hp.
  rewrite bd_all_squares_eq in Hp. apply squares64_valid in Hp. unfold own_cap.
  destruct (gget g p) as [pc|]; [|cbn; lia].
  destruct (color_eqb (po pc) (g_player g)); [now apply piece_moves_len | cbn; lia].
Qed.

(* number of pieces of kind k that the side to move has on the board *)
Definition count_kind (g : game) (k : kind) : nat :=
  length (filter (fun p => opiece_eqb (gget g p) (Some (mkPiece k (g_player g)))) all_squares).

Definition material_cap (g : game) : nat :=
  27 * count_kind g Queen + 14 * count_kind g Rook + 13 * count_kind g Bishop
  + 8 * count_kind g Knight + 12 * count_kind g Pawn + 10 * count_kind g King.

Lemma own_cap_sum g l :
  list_sum (map (own_cap g) l) =
    (27 * length (filter (fun p => opiece_eqb (gget g p) (Some (mkPiece Queen (g_player g)))) l)
     + 14 * length (filter (fun p => opiece_eqb (gget g p) (Some (mkPiece Rook (g_player g)))) l)
     + 13 * length (filter (fun p => opiece_eqb (gget g p) (Some (mkPiece Bishop (g_player g)))) l)
     + 8 * length (filter (fun p => opiece_eqb (gget g p) (Some (mkPiece Knight (g_player g)))) l)
     + 12 * length (filter (fun p => opiece_eqb (gget g p) (Some (mkPiece Pawn (g_player g)))) l)
     + 10 * length (filter (fun p => opiece_eqb (gget g p) (Some (mkPiece King (g_player g)))) l))%nat.
Proof.
  induction l as [|p t IH]; [reflexivity|].
  cbn [map filter]. rewrite list_sum_cons, IH. unfold own_cap.
  destruct (gget g p) as [[k c]|]; [|cbn [opiece_eqb]; lia].
  destruct k, c, (g_player g); cbn [opiece_eqb piece_eqb kind_eqb color_eqb pk po andb kind_cap length]; lia.
Qed.

(* C15_moves_fit_partial, general form *)
Theorem pseudo_moves_all_material g : (length (pseudo_moves_all g) <= material_cap g)%nat.
Proof.
  etransitivity; [apply pseudo_moves_all_len_sum|]. rewrite own_cap_sum. unfold material_cap, count_kind. lia.
Qed.

Corollary C15_moves_fit_partial g :
  (material_cap g <= 256)%nat -> (length (pseudo_moves_all g) <= Z.to_nat MOVE_BUFFER_CAP)%nat.
Proof. intros H. pose proof (pseudo_moves_all_material g). unfold MOVE_BUFFER_CAP. lia. Qed.

(* instance: at most the initial material of the side to move (203 <= 256) *)
Corollary C15_moves_fit_initial_partial g :
  (count_kind g Queen <= 1 -> count_kind g Rook <= 2 -> count_kind g Bishop <= 2 ->
   count_kind g Knight <= 2 -> count_kind g Pawn <= 8 -> count_kind g King <= 1 ->
   length (pseudo_moves_all g) <= 203)%nat.
Proof. intros. pose proof (pseudo_moves_all_material g). unfold material_cap in *. lia. Qed.

(* each promotion to a queen replaces a pawn (+27 - 12): up to three promoted queens still fit *)
Corollary C15_moves_fit_promoted_partial g q :
  (q <= 3 -> count_kind g Queen <= 1 + q -> count_kind g Rook <= 2 -> count_kind g Bishop <= 2 ->
   count_kind g Knight <= 2 -> count_kind g Pawn <= 8 - q -> count_kind g King <= 1 ->
   length (pseudo_moves_all g) <= 256)%nat.
Proof. intros. pose proof (pseudo_moves_all_material g). unfold material_cap in *. lia. Qed.

(* then nothing is cut off by the buffer *)
Corollary pseudo_moves_complete_partial g :
  king_exists g (g_player g) = true -> (material_cap g <= 256)%nat -> pseudo_moves g = pseudo_moves_all g.
Proof. intros Hk H. apply pseudo_moves_untruncated; [assumption | now apply C15_moves_fit_partial]. Qed.

(* the start position, through the theorem (not by counting its 20 moves) *)
Example start_material : material_cap START = 203%nat.
Proof. vm_compute. reflexivity. Qed.

Example start_moves_fit : (length (pseudo_moves_all START) <= 203)%nat.
Proof. rewrite <- start_material. apply pseudo_moves_all_material. Qed.

(* ---- the general statement is false for FEN-accepted material ---------------------------------------------
   The FEN reader accepts this position (23 white queens); it has 258 pseudo-legal moves, two more
   than the buffer holds, so two moves are dropped (pseudo_moves keeps 256 of them). Hence only the
   material-restricted statements above are provable; for positions reachable from the initial
   position the bound (218 is the known maximum of legal moves) stays open. *)
From Coq Require Import String.
Definition CROWD_FEN : list N := txt "1QQQ1QQk/Q6Q/2Q4Q/1Q2Q2Q/1Q5Q/Q6Q/Q4QQ1/KQQQ3Q w - -"%string.

Example C15_refuted_buffer :
  match import CROWD_FEN with
  | Ok g => (List.length (pseudo_moves_all g), List.length (pseudo_moves g), material_cap g)
  | _ => (O, O, O)
  end = (258%nat, 256%nat, 631%nat).
Proof. vm_compute. reflexivity. Qed.

Print Assumptions ray_moves_le_7.
Print Assumptions queen_moves_len.
Print Assumptions pawn_moves_len.
Print Assumptions piece_moves_len.
Print Assumptions pseudo_moves_all_material.
Print Assumptions C15_moves_fit_partial.
Print Assumptions C15_moves_fit_initial_partial.
Print Assumptions C15_moves_fit_promoted_partial.
Print Assumptions pseudo_moves_complete_partial.
