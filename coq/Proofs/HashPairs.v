(* C05, two features (slow file: one vm_compute of about half a minute; build with
   `ulimit -s unlimited`).
   All 526851 pairwise xors of the list K0 = 0 :: all_keys (the 1026 keys and 0) are pairwise
   distinct. Hence: the 525825 pairwise xors of the keys are pairwise distinct, no xor of two keys
   is a key, no three and no four distinct keys xor to 0 - and two positions that differ in exactly
   two features (two squares, a square and the side, ...) never have the same hash. *)
From Coq Require Import Lia Permutation Orders Mergesort.
From Chess Require Import Proofs.Grid Proofs.Inv Proofs.KeysLayout.
From Chess Require Import Gen.Keys Spec.HashSpec Proofs.HashSens.
Import ListNotations.
Open Scope Z_scope.

Module NOrder <: TotalLeBool.
  Definition t := N.
  Definition leb := N.leb.
  Theorem leb_total : forall a1 a2, leb a1 a2 = true \/ leb a2 a1 = true.
  Proof. intros a b. unfold leb. rewrite !N.leb_le. destruct (N.le_ge_cases a b); auto. Qed.
End NOrder.
Module NSort := Sort NOrder.

(* x_i xor x_j for all i < j *)
Fixpoint pair_xors (l : list N) : list N :=
  match l with
  | [] => []
  | x :: t => map (N.lxor x) t ++ pair_xors t
  end.

(* the boolean statement; evaluated once, by the kernel, at Qed *)
Lemma pair_xors_check : strictly_increasing (NSort.sort (pair_xors K0)) = true.
Proof. vm_cast_no_check (@eq_refl bool true). Qed.

Lemma pair_xors_count : N.of_nat (length (pair_xors K0)) = 526851%N.
Proof. vm_cast_no_check (@eq_refl N 526851%N). Qed.

Lemma pair_xors_K0_nodup : NoDup (pair_xors K0).
Proof.
  eapply Permutation_NoDup; [symmetry; apply NSort.Permuted_sort|].
  apply strictly_increasing_nodup, pair_xors_check.
Qed.
Print Assumptions pair_xors_check.

(* ---- from the list statement to indices -------------------------------------------------------------- *)

Lemma nodup_app_disj {A} (l1 l2 : list A) a : NoDup (l1 ++ l2) -> In a l1 -> In a l2 -> False.
Proof.
  induction l1 as [|x t IH]; intros Hnd H1 H2; [destruct H1|].
  cbn [app] in Hnd. inversion Hnd as [|y u Hnotin Hnd']; subst.
  destruct H1 as [->|H1].
  - apply Hnotin. apply in_or_app. right. exact H2.
  - apply IH; assumption.
Qed.

Lemma nodup_app_l {A} (l1 l2 : list A) : NoDup (l1 ++ l2) -> NoDup l1.
Proof.
  induction l1 as [|x t IH]; intros Hnd; [constructor|].
  cbn [app] in Hnd. inversion Hnd as [|y u Hnotin Hnd']; subst.
  constructor; [|apply IH; exact Hnd'].
  intros Hin. apply Hnotin. apply in_or_app. left. exact Hin.
Qed.

Lemma nodup_app_r {A} (l1 l2 : list A) : NoDup (l1 ++ l2) -> NoDup l2.
Proof.
  induction l1 as [|x t IH]; intros Hnd; [exact Hnd|].
  cbn [app] in Hnd. inversion Hnd; subst. apply IH. assumption.
Qed.

Lemma pair_xors_in l i j :
  (i < j < length l)%nat -> In (N.lxor (nth i l 0%N) (nth j l 0%N)) (pair_xors l).
Proof.
  revert i j; induction l as [|x t IH]; intros i j Hij; cbn [length] in Hij; [lia|].
  cbn [pair_xors]. apply in_or_app. destruct j as [|j]; [lia|]. destruct i as [|i]; cbn [nth].
  - left. apply in_map. apply nth_In. lia.
  - right. apply IH. lia.
Qed.

Lemma pair_xors_inj l :
  NoDup (pair_xors l) ->
  forall i j k m, (i < j < length l)%nat -> (k < m < length l)%nat ->
  N.lxor (nth i l 0%N) (nth j l 0%N) = N.lxor (nth k l 0%N) (nth m l 0%N) -> i = k /\ j = m.
Proof.
  induction l as [|x t IH]; intros Hnd i j k m Hij Hkm Heq; cbn [length] in Hij, Hkm; [lia|].
  cbn [pair_xors] in Hnd.
  destruct j as [|j]; [lia|]. destruct m as [|m]; [lia|].
  destruct i as [|i], k as [|k]; cbn [nth] in Heq.
  - split; [reflexivity|]. f_equal.
    apply nodup_app_l in Hnd.
    apply (proj1 (NoDup_nth (map (N.lxor x) t) (N.lxor x 0%N)) Hnd); rewrite ?map_length; try lia.
    rewrite !map_nth. exact Heq.
  - exfalso. apply (nodup_app_disj _ _ (N.lxor x (nth j t 0%N)) Hnd).
    + apply in_map. apply nth_In. lia.
    + rewrite Heq. apply pair_xors_in. lia.
  - exfalso. apply (nodup_app_disj _ _ (N.lxor x (nth m t 0%N)) Hnd).
    + apply in_map. apply nth_In. lia.
    + rewrite <- Heq. apply pair_xors_in. lia.
  - apply nodup_app_r in Hnd. destruct (IH Hnd i j k m) as [-> ->]; [lia | lia | exact Heq | split; reflexivity].
Qed.

(* the 525825 pairwise xors of the 1026 keys are pairwise distinct *)
Theorem pair_xors_distinct : NoDup (pair_xors all_keys).
Proof. exact (nodup_app_r _ _ pair_xors_K0_nodup). Qed.
Print Assumptions pair_xors_distinct.

(* indices into K0 (index 0 is the number 0, index i+1 is key i of all_keys): two unordered pairs
   of distinct indices with the same xor are the same pair *)
Theorem key_pair_xor_inj i j k m :
  (i < 1027)%nat -> (j < 1027)%nat -> (k < 1027)%nat -> (m < 1027)%nat -> i <> j -> k <> m ->
  N.lxor (key i) (key j) = N.lxor (key k) (key m) ->
  (i = k /\ j = m) \/ (i = m /\ j = k).
Proof.
  intros Hi Hj Hk Hm Hij Hkm Heq. unfold key in Heq.
  pose proof (pair_xors_inj K0 pair_xors_K0_nodup) as Hinj. rewrite K0_length in Hinj.
  destruct (Nat.lt_ge_cases i j) as [L1|L1], (Nat.lt_ge_cases k m) as [L2|L2].
  - left. apply Hinj; [lia | lia | exact Heq].
  - right. apply Hinj; [lia | lia |]. rewrite Heq. apply N.lxor_comm.
  - right. apply and_comm. apply Hinj; [lia | lia |]. rewrite <- Heq. apply N.lxor_comm.
  - left. apply and_comm. apply Hinj; [lia | lia |].
    rewrite (N.lxor_comm (nth j K0 0%N)), (N.lxor_comm (nth m K0 0%N)). exact Heq.
Qed.
Print Assumptions key_pair_xor_inj.

(* consequences in terms of keys *)
Corollary no_three_keys_cancel i j k :
  (0 < i < 1027)%nat -> (0 < j < 1027)%nat -> (0 < k < 1027)%nat -> i <> j ->
  N.lxor (key i) (key j) <> key k.
Proof.
  intros Hi Hj Hk Hij Heq.
  assert (N.lxor (key i) (key j) = N.lxor (key 0) (key k)) as Heq'.
  { rewrite key_0, N.lxor_0_l. exact Heq. }
  apply key_pair_xor_inj in Heq'; lia.
Qed.
Print Assumptions no_three_keys_cancel.

Corollary no_four_keys_cancel i j k m :
  (i < 1027)%nat -> (j < 1027)%nat -> (k < 1027)%nat -> (m < 1027)%nat ->
  i <> j -> i <> k -> i <> m -> j <> k -> j <> m -> k <> m ->
  N.lxor (N.lxor (key i) (key j)) (N.lxor (key k) (key m)) <> 0%N.
Proof.
  intros Hi Hj Hk Hm H1 H2 H3 H4 H5 H6 Heq. apply N.lxor_eq in Heq.
  apply key_pair_xor_inj in Heq; lia.
Qed.
Print Assumptions no_four_keys_cancel.

(* ---- two changes ---------------------------------------------------------------------------------- *)

Lemma contrib_apply_other p c1 c2 :
  feature_of c1 <> feature_of c2 -> contrib (apply_change p c1) c2 = contrib p c2.
Proof.
  intros Hne. pose proof (fval_apply_other p c1 (feature_of c2) Hne) as Hf.
  destruct c2 as [s v| |r e]; cbn [feature_of fval contrib] in *.
  - injection Hf as Hf. rewrite Hf. reflexivity.
  - injection Hf as Hf. rewrite Hf. reflexivity.
  - injection Hf as Hr He. rewrite Hr, He. reflexivity.
Qed.

Lemma change_ok_apply_other p c1 c2 :
  feature_of c1 <> feature_of c2 -> change_ok p c2 -> change_ok (apply_change p c1) c2.
Proof.
  intros Hne Hok. pose proof (fval_apply_other p c1 (feature_of c2) Hne) as Hf.
  destruct c2 as [s v| |r e]; cbn [feature_of fval change_ok] in *.
  - injection Hf as Hf. rewrite Hf. exact Hok.
  - exact I.
  - injection Hf as Hr He. rewrite Hr, He. exact Hok.
Qed.

(* the index pairs of changes of two different features are different unordered pairs *)
Lemma contrib_disjoint p c1 c2 :
  wf_pos p -> change_ok p c1 -> change_ok p c2 -> feature_of c1 <> feature_of c2 ->
  ~ ((fst (contrib p c1) = fst (contrib p c2) /\ snd (contrib p c1) = snd (contrib p c2)) \/
     (fst (contrib p c1) = snd (contrib p c2) /\ snd (contrib p c1) = fst (contrib p c2))).
Proof.
  intros Hp Hc1 Hc2 Hne.
  destruct (contrib_ok p c1 Hp Hc1) as (Hd1 & _). destruct (contrib_ok p c2 Hp Hc2) as (Hd2 & _).
  destruct Hp as [Hb He].
  destruct c1 as [s1 v1| |r1 e1], c2 as [s2 v2| |r2 e2];
    cbn [contrib fst snd feature_of change_ok] in *; try (exfalso; apply Hne; reflexivity).
  - assert (sqn s1 <> sqn s2) as Hs.
    { intros Hs. apply Hne. f_equal. apply sqn_inj; [apply Hc1 | apply Hc2 | exact Hs]. }
    pose proof (idx_sq_range s1 (at_ (p_board p) s1)). pose proof (idx_sq_range s1 v1).
    pose proof (idx_sq_range s2 (at_ (p_board p) s2)). pose proof (idx_sq_range s2 v2). lia.
  - pose proof (idx_sq_range s1 (at_ (p_board p) s1)). pose proof (idx_sq_range s1 v1).
    destruct (p_turn p); cbn [idx_side other]; lia.
  - pose proof (idx_sq_range s1 (at_ (p_board p) s1)). pose proof (idx_sq_range s1 v1).
    pose proof (idx_state_range (p_rights p) (p_ep p) He). pose proof (idx_state_range r2 e2 (proj1 Hc2)). lia.
  - pose proof (idx_sq_range s2 (at_ (p_board p) s2)). pose proof (idx_sq_range s2 v2).
    destruct (p_turn p); cbn [idx_side other]; lia.
  - pose proof (idx_state_range (p_rights p) (p_ep p) He). pose proof (idx_state_range r2 e2 (proj1 Hc2)).
    destruct (p_turn p); cbn [idx_side other]; lia.
  - pose proof (idx_sq_range s2 (at_ (p_board p) s2)). pose proof (idx_sq_range s2 v2).
    pose proof (idx_state_range (p_rights p) (p_ep p) He). pose proof (idx_state_range r1 e1 (proj1 Hc1)). lia.
  - pose proof (idx_state_range (p_rights p) (p_ep p) He). pose proof (idx_state_range r1 e1 (proj1 Hc1)).
    destruct (p_turn p); cbn [idx_side other]; lia.
Qed.

(* C05, two features: changing two different features of a position changes its hash *)
Theorem C05_two_changes p c1 c2 :
  wf_pos p -> change_ok p c1 -> change_ok p c2 -> feature_of c1 <> feature_of c2 ->
  H (apply_change (apply_change p c1) c2) <> H p.
Proof.
  intros Hp Hc1 Hc2 Hne Heq.
  rewrite H_apply_change in Heq;
    [| apply apply_change_wf; assumption | apply change_ok_apply_other; assumption].
  rewrite contrib_apply_other in Heq by assumption.
  rewrite H_apply_change in Heq by assumption.
  destruct (contrib_ok p c1 Hp Hc1) as (Hd1 & Ha1 & Hb1).
  destruct (contrib_ok p c2 Hp Hc2) as (Hd2 & Ha2 & Hb2).
  apply (contrib_disjoint p c1 c2 Hp Hc1 Hc2 Hne).
  apply key_pair_xor_inj; try assumption.
  rewrite N.lxor_assoc in Heq. apply xor_cancel_l in Heq. apply N.lxor_eq. exact Heq.
Qed.
Print Assumptions C05_two_changes.

(* the instance asked for: two single-square changes on different squares *)
Theorem C05_two_squares p s1 v1 s2 v2 :
  wf_grid (p_board p) -> ep_ok (p_ep p) -> valid s1 -> valid s2 -> s1 <> s2 ->
  v1 <> at_ (p_board p) s1 -> v2 <> at_ (p_board p) s2 ->
  H (mkPosition (put (put (p_board p) s1 v1) s2 v2) (p_turn p) (p_rights p) (p_ep p)) <> H p.
Proof.
  intros Hb He Hv1 Hv2 Hs Hn1 Hn2.
  apply (C05_two_changes p (ChSq s1 v1) (ChSq s2 v2) (conj Hb He) (conj Hv1 Hn1) (conj Hv2 Hn2)).
  cbn [feature_of]. congruence.
Qed.
Print Assumptions C05_two_squares.

(* extensional form: two well-formed positions that differ in exactly the two features f1, f2 *)
Theorem C05_two_features p p' f1 f2 :
  wf_pos p -> wf_pos p' -> fvalid f1 -> fvalid f2 -> f1 <> f2 ->
  differs p p' f1 -> differs p p' f2 ->
  (forall g, fvalid g -> differs p p' g -> g = f1 \/ g = f2) ->
  H p <> H p'.
Proof.
  intros Hp Hp' Hv1 Hv2 Hne Hd1 Hd2 Honly.
  pose proof (change_to_ok p p' f1 Hp' Hv1 Hd1) as Hc1.
  pose proof (change_to_ok p p' f2 Hp' Hv2 Hd2) as Hc2.
  assert (feature_of (change_to p' f1) <> feature_of (change_to p' f2)) as Hfne
    by (rewrite !feature_of_change_to; exact Hne).
  assert (differs (apply_change p (change_to p' f1)) p' f2) as Hd2'.
  { unfold differs. rewrite fval_apply_other by (rewrite feature_of_change_to; exact Hne). exact Hd2. }
  assert (apply_change (apply_change p (change_to p' f1)) (change_to p' f2) = p') as Hq.
  { apply position_ext.
    - apply apply_change_wf; [apply apply_change_wf; assumption | apply change_ok_apply_other; assumption].
    - apply Hp'.
    - intros g Hg. destruct (feature_eq_or g f2) as [->|Hn2].
      + apply fval_apply_same; [apply apply_change_wf; assumption | assumption..].
      + rewrite fval_apply_other by (rewrite feature_of_change_to; congruence).
        destruct (feature_eq_or g f1) as [->|Hn1].
        * apply fval_apply_same; [apply Hp | assumption..].
        * rewrite fval_apply_other by (rewrite feature_of_change_to; congruence).
          destruct (fval_eq_or p p' g) as [Heq|Hdg]; [exact Heq|]. exfalso.
          destruct (Honly g Hg Hdg); contradiction. }
  rewrite <- Hq. apply not_eq_sym. apply C05_two_changes; assumption.
Qed.
Print Assumptions C05_two_features.

(* one or two differing features *)
Theorem C05_upto_two_features p p' f1 f2 :
  wf_pos p -> wf_pos p' -> fvalid f1 -> fvalid f2 ->
  differs p p' f1 ->
  (forall g, fvalid g -> differs p p' g -> g = f1 \/ g = f2) ->
  H p <> H p'.
Proof.
  intros Hp Hp' Hv1 Hv2 Hd1 Honly.
  destruct (feature_eq_or f1 f2) as [<-|Hne].
  - apply (C05_one_feature p p' f1); try assumption.
    intros g Hg Hdg. destruct (Honly g Hg Hdg); assumption.
  - destruct (fval_eq_or p p' f2) as [Heq|Hd2].
    + apply (C05_one_feature p p' f1); try assumption.
      intros g Hg Hdg. destruct (Honly g Hg Hdg) as [->| ->]; [reflexivity|]. exfalso. exact (Hdg Heq).
    + apply (C05_two_features p p' f1 f2); assumption.
Qed.
Print Assumptions C05_upto_two_features.
