(* C15, part D: the search never runs out of quiescence fuel when the potential of the root
   game is below QFUEL: node, root and the driver never produce OutOfFuel (d_fuel_ok = true).
   mu does not grow along generated moves (Proofs/BoundsQ.v), so every quiescence call of the
   whole search starts with mu < QFUEL. For standard material mu <= 32 + 16 = 48 < 64. *)
From Coq Require Import Lia.
From Chess Require Import Model.Search Proofs.Grid Proofs.Inv Proofs.Bounds Proofs.BoundsQ.
Open Scope Z_scope.

(* ---- the move loop of node as top-level functions (same terms, equations by computation) -------------- *)

Definition ncutoff (real remaining : Z) (l : lstate) (m : Move) : lstate :=
  let st := l_st l in
  let st := with_killers st (zupd (s_killers st) real (Some m)) in
  let st := with_hist st (history_update (s_hist st) m remaining) in
  mkL (l_alpha l) (l_best l) (l_bscore l) st.

Definition nstep (nd : game -> sstate -> Z -> Z -> Z -> outcome Z * sstate) (g : game)
           (real beta : Z) (m : Move) (index : Z) (l : lstate) : outcome lstate :=
  let g1 := push g m in
  if index <=? PVS_FULL_WINDOW_LAST_INDEX then
    match nd g1 (l_st l) (real + 1) (- beta) (- l_alpha l) with
    | (Done s, st1) =>
        let score := - s in
        let '(bm, bs) := if l_bscore l <? score then (Some m, score) else (l_best l, l_bscore l) in
        Done (mkL (Z.max (l_alpha l) score) bm bs st1)
    | (Aborted sa, _) => Aborted sa
    | (OutOfFuel, _) => OutOfFuel
    end
  else
    match nd g1 (l_st l) (real + 1) (- l_alpha l - 1) (- l_alpha l) with
    | (Done s, st1) =>
        let test := - s in
        if l_bscore l <? test then
          match nd g1 st1 (real + 1) (- beta) (- test) with
          | (Done s2, st2) =>
              let score := - s2 in
              Done (mkL (Z.max (l_alpha l) score) (Some m) score st2)
          | (Aborted sa, _) => Aborted sa
          | (OutOfFuel, _) => OutOfFuel
          end
        else Done (mkL (l_alpha l) (l_best l) (l_bscore l) st1)
    | (Aborted sa, _) => Aborted sa
    | (OutOfFuel, _) => OutOfFuel
    end.

Definition nloop (nd : game -> sstate -> Z -> Z -> Z -> outcome Z * sstate) (g : game)
           (real beta remaining : Z) : list Move -> Z -> lstate -> outcome lstate :=
  fix loop (ms : list Move) (index : Z) (l : lstate) : outcome lstate :=
    match ms with
    | [] => Done l
    | m :: rest =>
        match nstep nd g real beta m index l with
        | Done l' =>
            if beta <=? l_alpha l' then Done (ncutoff real remaining l' m)
            else loop rest (index + 1) l'
        | Aborted sa => Aborted sa
        | OutOfFuel => OutOfFuel
        end
    end.

Definition nfinish (g : game) (st : sstate) (real alpha beta remaining : Z) (res : outcome lstate) : outcome Z * sstate :=
  match res with
  | Done l =>
      let flag := if l_bscore l <=? alpha then UpperBound
                  else if beta <=? l_bscore l then LowerBound else Exact in
      let ne := mkEntry (score_to_table (l_bscore l) real) (l_best l) remaining flag in
      let st' := l_st l in
      (Done (l_alpha l), with_tbl st' (store_node (s_tbl st') (g_hash g) ne))
  | Aborted sa => (Aborted sa, sa)
  | OutOfFuel => (OutOfFuel, st)
  end.

Lemma node_SS r g st0 real alpha beta :
  node (S (S r)) g st0 real alpha beta =
    let st := poll st0 in
    if negb (s_running st) then (Aborted st, st)
    else
      let remaining := Z.of_nat (S (S r)) in
      let e := option_map (entry_from_table real) (tfind (s_tbl st) (g_hash g)) in
      match probe e remaining alpha beta with
      | Some s => (Done s, st)
      | None =>
          let pv_move := match e with Some en => e_pv en | None => None end in
          match checked_moves g with
          | [] => (Done (no_move_score g MATE_OFFSET_NODE real), st)
          | m0 :: ms0 =>
              let sorted := sort_moves (fun m => move_score m pv_move (znth (s_killers st) real None) (s_hist st)) (m0 :: ms0) in
              nfinish g st real alpha beta remaining
                (nloop (node (S r)) g real beta remaining sorted 0 (mkL alpha None SCORE_MIN st))
          end
      end.
Proof. reflexivity. Qed.

Lemma node_0 g st0 real alpha beta :
  node 0 g st0 real alpha beta =
    let st := poll st0 in
    if negb (s_running st) then (Aborted st, st)
    else match probe (option_map (entry_from_table real) (tfind (s_tbl st) (g_hash g))) 0 alpha beta with
         | Some s => (Done s, st)
         | None => (lift (quiescence QFUEL g alpha beta real), st)
         end.
Proof. reflexivity. Qed.

Lemma node_1 g st0 real alpha beta :
  node 1 g st0 real alpha beta =
    let st := poll st0 in
    if negb (s_running st) then (Aborted st, st)
    else match probe (option_map (entry_from_table real) (tfind (s_tbl st) (g_hash g))) 1 alpha beta with
         | Some s => (Done s, st)
         | None => (lift (depth1 g alpha beta real), st)
         end.
Proof. reflexivity. Qed.

Lemma nloop_cons nd g real beta remaining m rest index l :
  nloop nd g real beta remaining (m :: rest) index l =
    match nstep nd g real beta m index l with
    | Done l' =>
        if beta <=? l_alpha l' then Done (ncutoff real remaining l' m)
        else nloop nd g real beta remaining rest (index + 1) l'
    | Aborted sa => Aborted sa
    | OutOfFuel => OutOfFuel
    end.
Proof. reflexivity. Qed.

(* ---- the move loop of root --------------------------------------------------------------------------------- *)

Definition rstep (nd : game -> sstate -> Z -> Z -> Z -> outcome Z * sstate) (g : game)
           (m : Move) (index : Z) (r : rstate) : outcome rstate :=
  let g1 := push g m in
  if index <=? ROOT_FULL_WINDOW_LAST_INDEX then
    match nd g1 (r_st r) 1 (SCORE_MIN + 1) (- r_bscore r) with
    | (Done s, st1) =>
        let score := - s in
        if r_bscore r <? score then Done (mkR (Some m) score st1)
        else Done (mkR (r_best r) (r_bscore r) st1)
    | (Aborted sa, _) => Aborted sa
    | (OutOfFuel, _) => OutOfFuel
    end
  else
    match nd g1 (r_st r) 1 (- r_bscore r - 1) (- r_bscore r) with
    | (Done s, st1) =>
        let score := - s in
        if r_bscore r <? score then
          match nd g1 st1 1 (SCORE_MIN + 1) (- score) with
          | (Done s2, st2) => Done (mkR (Some m) (- s2) st2)
          | (Aborted sa, _) => Aborted sa
          | (OutOfFuel, _) => OutOfFuel
          end
        else Done (mkR (r_best r) (r_bscore r) st1)
    | (Aborted sa, _) => Aborted sa
    | (OutOfFuel, _) => OutOfFuel
    end.

Definition rloop (nd : game -> sstate -> Z -> Z -> Z -> outcome Z * sstate) (g : game)
  : list Move -> Z -> rstate -> outcome rstate :=
  fix loop (ms : list Move) (index : Z) (r : rstate) : outcome rstate :=
    match ms with
    | [] => Done r
    | m :: rest =>
        match rstep nd g m index r with
        | Done r' => loop rest (index + 1) r'
        | Aborted sa => Aborted sa
        | OutOfFuel => OutOfFuel
        end
    end.

Lemma rloop_cons nd g m rest index r :
  rloop nd g (m :: rest) index r =
    match rstep nd g m index r with
    | Done r' => rloop nd g rest (index + 1) r'
    | Aborted sa => Aborted sa
    | OutOfFuel => OutOfFuel
    end.
Proof. reflexivity. Qed.

(* everything root does when there is not exactly one legal move *)
Definition root_body (g : game) (st0 : sstate) (depth : nat)
  : outcome (option Move * Z * bool) * sstate :=
  let st := with_killers st0 (repeat None (Z.to_nat KILLER_SLOTS)) in
  let moves := repetition_filter g (checked_moves g) in
  let e := tfind (s_tbl st) (g_hash g) in
  match (match e with
         | Some en => if (Z.of_nat depth <=? e_depth en) && match e_flag en with Exact => true | _ => false end
                      then Some en else None
         | None => None end) with
  | Some en => (Done (e_pv en, e_score en, false), st)
  | None =>
      let pv_move := match e with Some en => e_pv en | None => None end in
      let sorted := sort_moves (fun m => move_score m pv_move None (s_hist st)) moves in
      match rloop (node (pred depth)) g sorted 0 (mkR None (SCORE_MIN + 1) st) with
      | Done r =>
          let ne := mkEntry (r_bscore r) (r_best r) (Z.of_nat depth) Exact in
          let st' := r_st r in
          (Done (r_best r, r_bscore r, false),
           match r_best r with
           | Some _ => with_tbl st' (store_root (s_tbl st') (g_hash g) ne)
           | None => st'
           end)
      | Aborted sa => (Aborted sa, sa)
      | OutOfFuel => (OutOfFuel, st)
      end
  end.

Lemma root_eq g st depth :
  root g st depth =
    match checked_moves g with
    | [m] => (Done (Some m, 0, true), st)
    | _ => root_body g st depth
    end.
Proof. reflexivity. Qed.

(* ---- list facts: sorting and the repetition filter only rearrange / remove --------------------------------- *)

Lemma insert_by_key_in k m l x : In x (insert_by_key k m l) -> x = (k, m) \/ In x l.
Proof.
  induction l as [|[k' m'] t IH]; cbn [insert_by_key].
  - intros [H|[]]; auto.
  - destruct (k <=? k'); cbn [In].
    + intros [H|H]; auto.
    + intros [H|H]; [auto|]. destruct (IH H); auto.
Qed.

Lemma sort_moves_in key ms m : In m (sort_moves key ms) -> In m ms.
Proof.
  unfold sort_moves. intros H. apply in_map_iff in H. destruct H as ([k m'] & Hs & Hin).
  cbn [snd] in Hs. subst m'. revert Hin. induction ms as [|a t IH]; cbn [fold_right]; [intros []|].
  intros H. apply insert_by_key_in in H. destruct H as [H|H]; [left; congruence | right; now apply IH].
Qed.

Lemma remove_last_in {A} (l : list A) x : In x (remove_last l) -> In x l.
Proof.
  induction l as [|a t IH]; cbn [remove_last]; [tauto|].
  destruct t as [|b u]; [intros []|]. intros [H|H]; [now left | right; now apply IH].
Qed.

Lemma last_in {A} (l : list A) d : l <> [] -> In (last l d) l.
Proof.
  induction l as [|a t IH]; [congruence|]. intros _. destruct t as [|b u]; [now left|].
  right. apply IH. congruence.
Qed.

Lemma replace_first_in ms x lastm r m :
  replace_first ms x lastm = Some r -> In m r -> In m ms \/ m = lastm.
Proof.
  revert r. induction ms as [|a t IH]; intros r; cbn [replace_first]; [discriminate|].
  destruct (move_eqb x a).
  - intros H. injection H as <-. destruct t as [|b u]; [intros []|].
    intros [H|H]; [auto|]. left. right. now apply remove_last_in.
  - destruct (replace_first t x lastm) as [r'|]; [|discriminate]. cbn [option_map].
    intros H. injection H as <-. intros [H|H]; [left; now left|].
    destruct (IH r' eq_refl H); [left; now right | now right].
Qed.

Lemma swap_remove_move_in ms x m : In m (swap_remove_move ms x) -> In m ms.
Proof.
  unfold swap_remove_move. destruct (replace_first ms x (last ms x)) as [r|] eqn:E; [|tauto].
  intros H. destruct (replace_first_in _ _ _ _ _ E H) as [H'| ->]; [assumption|].
  apply last_in. intros ->. discriminate.
Qed.

Lemma repetition_filter_in g ms m : In m (repetition_filter g ms) -> In m ms.
Proof.
  unfold repetition_filter.
  destruct (g_moves g) as [|m1 [|m2 [|m3 [|m4 [|m5 t]]]]]; try tauto.
  destruct (move_eqb m1 m5 && is_reversal m4 m2 && is_reversal m5 m3); [apply swap_remove_move_in | tauto].
Qed.

(* ---- no OutOfFuel ------------------------------------------------------------------------------------------- *)

Definition fuel_ok {A} (o : outcome A) : Prop := match o with OutOfFuel => False | _ => True end.

Lemma lift_fuel_ok o : (exists z, o = Some z) -> fuel_ok (lift o).
Proof. intros [z ->]. exact I. Qed.

Section NodeFuel.

Variable nd : game -> sstate -> Z -> Z -> Z -> outcome Z * sstate.
Variable g : game.
Variable ok_moves : list Move.
Hypothesis nd_ok : forall m, In m ok_moves -> forall st r a b, fuel_ok (fst (nd (push g m) st r a b)).

Lemma nstep_fuel_ok real beta m index l : In m ok_moves -> fuel_ok (nstep nd g real beta m index l).
Proof.
  intros Hin. unfold nstep. cbv zeta.
  destruct (index <=? PVS_FULL_WINDOW_LAST_INDEX).
  - pose proof (nd_ok m Hin (l_st l) (real + 1) (- beta) (- l_alpha l)) as H.
    destruct (nd (push g m) (l_st l) (real + 1) (- beta) (- l_alpha l)) as [[s|sa|] st1]; cbn [fst] in H;
      [|exact I|contradiction].
    destruct (l_bscore l <? - s); exact I.
  - pose proof (nd_ok m Hin (l_st l) (real + 1) (- l_alpha l - 1) (- l_alpha l)) as H.
    destruct (nd (push g m) (l_st l) (real + 1) (- l_alpha l - 1) (- l_alpha l)) as [[s|sa|] st1];
      cbn [fst] in H; [|exact I|contradiction].
    destruct (l_bscore l <? - s); [|exact I].
    pose proof (nd_ok m Hin st1 (real + 1) (- beta) (- - s)) as H2.
    destruct (nd (push g m) st1 (real + 1) (- beta) (- - s)) as [[s2|sa|] st2]; cbn [fst] in H2;
      [exact I|exact I|contradiction].
Qed.

Lemma nloop_fuel_ok real beta remaining ms :
  incl ms ok_moves -> forall index l, fuel_ok (nloop nd g real beta remaining ms index l).
Proof.
  induction ms as [|m rest IH]; intros Hincl index l; [exact I|].
  rewrite nloop_cons.
  pose proof (nstep_fuel_ok real beta m index l (Hincl m (or_introl eq_refl))) as H.
  destruct (nstep nd g real beta m index l) as [l'|sa|]; [|exact I|contradiction].
  destruct (beta <=? l_alpha l'); [exact I|]. apply IH. intros x Hx. apply Hincl. now right.
Qed.

Lemma rstep_fuel_ok m index r : In m ok_moves -> fuel_ok (rstep nd g m index r).
Proof.
  intros Hin. unfold rstep. cbv zeta.
  destruct (index <=? ROOT_FULL_WINDOW_LAST_INDEX).
  - pose proof (nd_ok m Hin (r_st r) 1 (SCORE_MIN + 1) (- r_bscore r)) as H.
    destruct (nd (push g m) (r_st r) 1 (SCORE_MIN + 1) (- r_bscore r)) as [[s|sa|] st1]; cbn [fst] in H;
      [|exact I|contradiction].
    destruct (r_bscore r <? - s); exact I.
  - pose proof (nd_ok m Hin (r_st r) 1 (- r_bscore r - 1) (- r_bscore r)) as H.
    destruct (nd (push g m) (r_st r) 1 (- r_bscore r - 1) (- r_bscore r)) as [[s|sa|] st1];
      cbn [fst] in H; [|exact I|contradiction].
    destruct (r_bscore r <? - s); [|exact I].
    pose proof (nd_ok m Hin st1 1 (SCORE_MIN + 1) (- - s)) as H2.
    destruct (nd (push g m) st1 1 (SCORE_MIN + 1) (- - s)) as [[s2|sa|] st2]; cbn [fst] in H2;
      [exact I|exact I|contradiction].
Qed.

Lemma rloop_fuel_ok ms : incl ms ok_moves -> forall index r, fuel_ok (rloop nd g ms index r).
Proof.
  induction ms as [|m rest IH]; intros Hincl index r; [exact I|].
  rewrite rloop_cons.
  pose proof (rstep_fuel_ok m index r (Hincl m (or_introl eq_refl))) as H.
  destruct (rstep nd g m index r) as [r'|sa|]; [|exact I|contradiction].
  apply IH. intros x Hx. apply Hincl. now right.
Qed.

End NodeFuel.

Section SearchFuel.

(* the invariant carried along the search, as in Proofs/BoundsQ.v (instantiated in
   Proofs/BoundsInst.v with RepInv g /\ KingsInv g) *)
Variable Good : game -> Prop.
Hypothesis Good_rep : forall g, Good g -> RepInv g.
Hypothesis Hgen : forall g m, RepInv g -> In m (pseudo_moves g) -> gen_ok g m.
Hypothesis Hpush : forall g m, Good g -> In m (pseudo_moves g) -> Good (push g m).

Let step := good_step Good Good_rep Hgen Hpush.

Theorem node_fuel_ok : forall rem g st real alpha beta,
  Good g -> (mu g < QFUEL)%nat -> fuel_ok (fst (node rem g st real alpha beta)).
Proof.
  assert (H01 : forall rem, (rem <= 1)%nat -> forall g st real alpha beta,
             Good g -> (mu g < QFUEL)%nat -> fuel_ok (fst (node rem g st real alpha beta))).
  { intros rem Hrem g st real alpha beta Hg Hmu.
    destruct rem as [|[|r]]; [rewrite node_0 | rewrite node_1 | lia]; cbv zeta;
      (destruct (negb (s_running (poll st))); [exact I|]);
      match goal with |- context [probe ?e ?r ?a ?b] => destruct (probe e r a b) end; try exact I;
      cbn [fst]; apply lift_fuel_ok.
    - now apply (quiescence_total Good Good_rep Hgen Hpush).
    - now apply (depth1_total Good Good_rep Hgen Hpush). }
  induction rem as [|rem IH]; intros g st real alpha beta Hg Hmu; [apply H01; auto|].
  destruct rem as [|r]; [apply H01; auto|].
  rewrite node_SS. cbv zeta.
  destruct (negb (s_running (poll st))); [exact I|].
  match goal with |- context [probe ?e ?r ?a ?b] => destruct (probe e r a b) end; [exact I|].
  destruct (checked_moves g) as [|m0 ms0] eqn:Ecm; [exact I|].
  match goal with |- context [nloop ?nd ?g ?real ?beta ?rm ?ms ?i ?l] =>
    pose proof (nloop_fuel_ok nd g (checked_moves g)) as Hl;
    specialize (fun H => Hl H real beta rm ms);
    set (res := nloop nd g real beta rm ms i l) in * end.
  assert (Hres : fuel_ok res).
  { apply Hl.
    - intros m Hin st' r' a b.
      destruct (step g m Hg (checked_moves_incl g m Hin)) as (Hg' & Hle & _).
      apply IH; [assumption | lia].
    - intros m Hin. apply sort_moves_in in Hin. now rewrite Ecm. }
  unfold nfinish. destruct res; [exact I | exact I | contradiction].
Qed.

Theorem root_fuel_ok g st depth :
  Good g -> (mu g < QFUEL)%nat -> fuel_ok (fst (root g st depth)).
Proof.
  intros Hg Hmu. rewrite root_eq.
  assert (Hb : fuel_ok (fst (root_body g st depth))).
  { unfold root_body. cbv zeta.
    match goal with |- context [match ?x with Some en => (Done (e_pv en, e_score en, false), _) | None => _ end] =>
      destruct x end; [exact I|].
    match goal with |- context [rloop ?nd ?g ?ms ?i ?r] =>
      pose proof (rloop_fuel_ok nd g (checked_moves g)) as Hl;
      specialize (fun H => Hl H ms);
      set (res := rloop nd g ms i r) in * end.
    assert (Hres : fuel_ok res).
    { apply Hl.
      - intros m Hin st' r' a b.
        destruct (step g m Hg (checked_moves_incl g m Hin)) as (Hg' & Hle & _).
        apply node_fuel_ok; [assumption | lia].
      - intros m Hin. apply sort_moves_in in Hin. now apply repetition_filter_in in Hin. }
    destruct res; [exact I | exact I | contradiction]. }
  destruct (checked_moves g) as [|m [|m' t]]; [exact Hb | exact I | exact Hb].
Qed.

Theorem driver_loop_fuel_ok n g st depth max_depth found lines :
  Good g -> (mu g < QFUEL)%nat ->
  d_fuel_ok (driver_loop n g st depth max_depth found lines) = true.
Proof.
  intros Hg Hmu. revert st depth found lines.
  induction n as [|n IH]; intros st depth found lines; cbn [driver_loop]; [reflexivity|].
  destruct (255 <? depth); [reflexivity|].
  pose proof (root_fuel_ok g st (Z.to_nat depth) Hg Hmu) as H.
  destruct (root g st (Z.to_nat depth)) as [[[[best score] only]|sa|] st1]; cbn [fst] in H;
    [|reflexivity|contradiction].
  destruct (_ || _); [reflexivity | apply IH].
Qed.

(* the driver never reports exhausted fuel when the potential of the root game is below QFUEL *)
Theorem driver_fuel_ok g t max_depth stop_at tableless :
  Good g -> (mu g < QFUEL)%nat -> d_fuel_ok (driver g t max_depth stop_at tableless) = true.
Proof. intros Hg Hmu. unfold driver. now apply driver_loop_fuel_ok. Qed.

End SearchFuel.

Print Assumptions node_fuel_ok.
Print Assumptions root_fuel_ok.
Print Assumptions driver_fuel_ok.
