(* Lemmas about the list/grid primitives of Base/Prelude.v (znth, zupd, grid_get, grid_set) and
   about the 64 squares. Everything else in Proofs/ builds on this file. *)
From Coq Require Import Lia.
From Chess Require Import Base.Types Base.Prelude.
Open Scope Z_scope.

(* ---- znth / zupd -------------------------------------------------------------------------- *)

Lemma zupd_length {A} (l : list A) i v : length (zupd l i v) = length l.
Proof.
  revert i; induction l as [|x t IH]; intros i; cbn [zupd]; [reflexivity|].
  destruct (i =? 0); cbn [length]; [reflexivity | now rewrite IH].
Qed.

Lemma znth_zupd_same {A} (l : list A) i v d :
  0 <= i < Z.of_nat (length l) -> znth (zupd l i v) i d = v.
Proof.
  revert i; induction l as [|x t IH]; intros i Hi; cbn [length] in Hi; [lia|].
  cbn [zupd]. destruct (i =? 0) eqn:E; cbn [znth]; rewrite E; [reflexivity|].
  apply IH. apply Z.eqb_neq in E. lia.
Qed.

Lemma znth_zupd_other {A} (l : list A) i j v d :
  i <> j -> znth (zupd l i v) j d = znth l j d.
Proof.
  revert i j; induction l as [|x t IH]; intros i j Hij; cbn [zupd]; [reflexivity|].
  destruct (i =? 0) eqn:E; cbn [znth].
  - apply Z.eqb_eq in E. destruct (j =? 0) eqn:F; [apply Z.eqb_eq in F; lia | reflexivity].
  - destruct (j =? 0); [reflexivity|]. apply IH. lia.
Qed.

Lemma zupd_zupd_same {A} (l : list A) i a b : zupd (zupd l i a) i b = zupd l i b.
Proof.
  revert i; induction l as [|x t IH]; intros i; cbn [zupd]; [reflexivity|].
  destruct (i =? 0) eqn:E; cbn [zupd]; rewrite E; [reflexivity | now rewrite IH].
Qed.

Lemma zupd_znth_id {A} (l : list A) i d : zupd l i (znth l i d) = l.
Proof.
  revert i; induction l as [|x t IH]; intros i; cbn [zupd znth]; [reflexivity|].
  destruct (i =? 0); [reflexivity | now rewrite IH].
Qed.

Lemma zupd_comm {A} (l : list A) i j a b :
  i <> j -> zupd (zupd l i a) j b = zupd (zupd l j b) i a.
Proof.
  revert i j; induction l as [|x t IH]; intros i j Hij; cbn [zupd]; [reflexivity|].
  destruct (i =? 0) eqn:E; destruct (j =? 0) eqn:F; cbn [zupd]; rewrite ?E, ?F; try reflexivity.
  - apply Z.eqb_eq in E, F. lia.
  - rewrite IH by lia. reflexivity.
Qed.

Lemma znth_nth {A} (l : list A) i d : 0 <= i -> znth l i d = nth (Z.to_nat i) l d.
Proof.
  revert i; induction l as [|x t IH]; intros i Hi; cbn [znth].
  - destruct (Z.to_nat i); reflexivity.
  - destruct (i =? 0) eqn:E.
    + apply Z.eqb_eq in E. subst. reflexivity.
    + apply Z.eqb_neq in E. rewrite IH by lia.
      replace (Z.to_nat i) with (S (Z.to_nat (i - 1))) by lia. reflexivity.
Qed.

Lemma znth_ext {A} (l1 l2 : list A) d :
  length l1 = length l2 ->
  (forall i, 0 <= i < Z.of_nat (length l1) -> znth l1 i d = znth l2 i d) -> l1 = l2.
Proof.
  revert l2; induction l1 as [|x t IH]; intros [|y u] Hlen H; cbn [length] in *; try discriminate; [reflexivity|].
  f_equal.
  - specialize (H 0). cbn [znth] in H. cbn in H. apply H. lia.
  - apply IH; [lia|]. intros i Hi. specialize (H (i + 1)). cbn [znth] in H.
    destruct (i + 1 =? 0) eqn:E; [apply Z.eqb_eq in E; lia|].
    replace (i + 1 - 1) with i in H by lia. apply H. lia.
Qed.

(* ---- squares and well-formed grids ---------------------------------------------------------- *)

Definition valid (p : pos) : Prop := 0 <= fst p < 8 /\ 0 <= snd p < 8.

Definition wf_grid {A} (g : grid A) : Prop :=
  length g = 8%nat /\ Forall (fun r => length r = 8%nat) g.

Lemma wf_row {A} (g : grid A) i : wf_grid g -> 0 <= i < 8 -> length (znth g i []) = 8%nat.
Proof.
  intros [Hl Hr] Hi. rewrite znth_nth by lia.
  rewrite Forall_forall in Hr. apply Hr. apply nth_In. lia.
Qed.

Lemma grid_make_wf {A} (v : A) : wf_grid (grid_make v).
Proof. split; [reflexivity|]. unfold grid_make. cbn. repeat constructor. Qed.

Lemma wf_grid_set {A} (g : grid A) p v : wf_grid g -> wf_grid (grid_set g p v).
Proof.
  intros [Hl Hr]. unfold grid_set. split; [now rewrite zupd_length|].
  destruct (Z_lt_ge_dec (fst p) 0) as [Hn|Hn].
  - (* out of range: unchanged rows or replaced by a same-length row *)
    rewrite Forall_forall in *. intros r Hin.
    assert (Hz : forall (l : list (list A)) i w, i < 0 -> zupd l i w = l).
    { induction l as [|x t IH]; intros i w Hi; cbn [zupd]; [reflexivity|].
      destruct (i =? 0) eqn:E; [apply Z.eqb_eq in E; lia|]. rewrite IH by lia. reflexivity. }
    rewrite Hz in Hin by assumption. now apply Hr.
  - destruct (Z_lt_ge_dec (fst p) 8) as [Hu|Hu].
    + rewrite Forall_forall in *. intros r Hin.
      destruct (In_nth _ _ [] Hin) as (n & Hn' & Hnth). rewrite zupd_length in Hn'.
      destruct (Z.eq_dec (Z.of_nat n) (fst p)) as [E|E].
      * rewrite <- Hnth, <- (Nat2Z.id n), <- znth_nth by lia. rewrite E.
        rewrite znth_zupd_same by lia. rewrite zupd_length. apply Hr.
        rewrite znth_nth by lia. apply nth_In. lia.
      * rewrite <- Hnth, <- (Nat2Z.id n), <- znth_nth by lia.
        rewrite znth_zupd_other by lia. apply Hr. rewrite znth_nth by lia. apply nth_In. lia.
    + assert (Hz : forall (l : list (list A)) i w, Z.of_nat (length l) <= i -> zupd l i w = l).
      { induction l as [|x t IH]; intros i w Hi; cbn [zupd]; [reflexivity|]. cbn [length] in Hi.
        destruct (i =? 0) eqn:E; [apply Z.eqb_eq in E; lia|]. rewrite IH by lia. reflexivity. }
      rewrite Hz by lia. assumption.
Qed.

Lemma grid_get_set_same {A} (g : grid A) p v d :
  wf_grid g -> valid p -> grid_get (grid_set g p v) p d = v.
Proof.
  intros Hwf [Hr Hc]. unfold grid_get, grid_set.
  rewrite znth_zupd_same by (destruct Hwf as [-> _]; lia).
  apply znth_zupd_same. rewrite (wf_row g (fst p) Hwf Hr). lia.
Qed.

Lemma grid_get_set_other {A} (g : grid A) p q v d :
  p <> q -> grid_get (grid_set g p v) q d = grid_get g q d.
Proof.
  intros Hpq. unfold grid_get, grid_set.
  destruct (Z.eq_dec (fst p) (fst q)) as [E|E].
  - destruct (Z_lt_ge_dec (fst p) 0) as [Hn|Hn].
    + assert (Hz : forall (l : list (list A)) i w, i < 0 -> zupd l i w = l).
      { induction l as [|x t IH]; intros i w Hi; cbn [zupd]; [reflexivity|].
        destruct (i =? 0) eqn:F; [apply Z.eqb_eq in F; lia|]. rewrite IH by lia. reflexivity. }
      rewrite Hz by assumption. reflexivity.
    + destruct (Z_lt_ge_dec (fst p) (Z.of_nat (length g))) as [Hu|Hu].
      * rewrite <- E. rewrite znth_zupd_same by lia.
        apply znth_zupd_other. intros F. apply Hpq. destruct p, q; cbn in *; congruence.
      * assert (Hz : forall (l : list (list A)) i w, Z.of_nat (length l) <= i -> zupd l i w = l).
        { induction l as [|x t IH]; intros i w Hi; cbn [zupd]; [reflexivity|]. cbn [length] in Hi.
          destruct (i =? 0) eqn:F; [apply Z.eqb_eq in F; lia|]. rewrite IH by lia. reflexivity. }
        rewrite Hz by lia. reflexivity.
  - rewrite znth_zupd_other by assumption. reflexivity.
Qed.

Lemma grid_set_set_same {A} (g : grid A) p a b :
  wf_grid g -> valid p -> grid_set (grid_set g p a) p b = grid_set g p b.
Proof.
  intros Hwf [Hr Hc]. unfold grid_set.
  rewrite znth_zupd_same by (destruct Hwf as [-> _]; lia).
  rewrite zupd_zupd_same, zupd_zupd_same. reflexivity.
Qed.

Lemma grid_set_get_id {A} (g : grid A) p d : grid_set g p (grid_get g p d) = g.
Proof. unfold grid_set, grid_get. rewrite zupd_znth_id, zupd_znth_id. reflexivity. Qed.

Lemma grid_set_comm {A} (g : grid A) p q a b :
  wf_grid g -> valid p -> valid q -> p <> q ->
  grid_set (grid_set g p a) q b = grid_set (grid_set g q b) p a.
Proof.
  intros Hwf [Hpr Hpc] [Hqr Hqc] Hpq. unfold grid_set.
  destruct Hwf as [Hl Hrows].
  destruct (Z.eq_dec (fst p) (fst q)) as [E|E].
  - rewrite <- E. rewrite !znth_zupd_same by lia. rewrite !zupd_zupd_same.
    f_equal. apply zupd_comm. intros F. apply Hpq. destruct p, q; cbn in *; congruence.
  - rewrite (znth_zupd_other g (fst p) (fst q)) by assumption.
    rewrite (znth_zupd_other g (fst q) (fst p)) by (intros F; apply E; symmetry; exact F).
    apply zupd_comm. assumption.
Qed.

Lemma grid_ext {A} (g1 g2 : grid A) d :
  wf_grid g1 -> wf_grid g2 ->
  (forall p, valid p -> grid_get g1 p d = grid_get g2 p d) -> g1 = g2.
Proof.
  intros H1 H2 H. apply (znth_ext g1 g2 []); [destruct H1 as [-> _], H2 as [-> _]; reflexivity|].
  intros i Hi. destruct H1 as [Hl1 Hr1]. rewrite Hl1 in Hi.
  apply (znth_ext _ _ d).
  - rewrite (wf_row g1 i (conj Hl1 Hr1)) by lia. rewrite (wf_row g2 i H2) by lia. reflexivity.
  - intros j Hj. rewrite (wf_row g1 i (conj Hl1 Hr1)) in Hj by lia.
    apply (H (i, j)). split; cbn; lia.
Qed.

(* ---- the list of all squares ----------------------------------------------------------------- *)

Definition squares64 : list pos :=
  flat_map (fun r => map (fun c => (r, c)) [0; 1; 2; 3; 4; 5; 6; 7]) [0; 1; 2; 3; 4; 5; 6; 7].

Lemma squares64_valid p : In p squares64 <-> valid p.
Proof.
  unfold valid. split.
  - intros H. unfold squares64 in H. apply in_flat_map in H. destruct H as (r & Hr & Hp).
    apply in_map_iff in Hp. destruct Hp as (c & <- & Hc). cbn [fst snd].
    cbn in Hr, Hc. intuition lia.
  - destruct p as [r c]. cbn [fst snd]. intros [Hr Hc].
    unfold squares64. apply in_flat_map. exists r. split.
    + assert (r = 0 \/ r = 1 \/ r = 2 \/ r = 3 \/ r = 4 \/ r = 5 \/ r = 6 \/ r = 7) as Hd by lia.
      cbn. intuition.
    + apply in_map.
      assert (c = 0 \/ c = 1 \/ c = 2 \/ c = 3 \/ c = 4 \/ c = 5 \/ c = 6 \/ c = 7) as Hd by lia.
      cbn. intuition.
Qed.

Fixpoint nodup_pos (l : list pos) : bool :=
  match l with
  | [] => true
  | x :: t => negb (existsb (pos_eqb x) t) && nodup_pos t
  end.

Lemma nodup_pos_sound l : nodup_pos l = true -> NoDup l.
Proof.
  induction l as [|x t IH]; cbn [nodup_pos]; intros H; [constructor|].
  apply andb_true_iff in H. destruct H as [H1 H2]. constructor; [|now apply IH].
  intros Hin. apply negb_true_iff in H1.
  assert (existsb (pos_eqb x) t = true) as E; [|congruence].
  apply existsb_exists. exists x. split; [assumption | apply pos_eqb_refl].
Qed.

Lemma squares64_nodup : NoDup squares64.
Proof. apply nodup_pos_sound. vm_compute. reflexivity. Qed.

Lemma squares64_length : length squares64 = 64%nat.
Proof. reflexivity. Qed.

(* folding a commutative-monoid style update over a NoDup list: changing the function at one
   point changes the fold by that point's contribution *)
Lemma map_ext_except {A B} (f g : A -> B) (l : list A) x :
  ~ In x l -> (forall y, y <> x -> f y = g y) -> map f l = map g l.
Proof.
  intros Hn H. apply map_ext_in. intros y Hy. apply H. intros ->. contradiction.
Qed.

Lemma in_split_nodup {A} (x : A) l :
  In x l -> NoDup l -> exists l1 l2, l = l1 ++ x :: l2 /\ ~ In x l1 /\ ~ In x l2.
Proof.
  intros Hin Hnd. destruct (in_split x l Hin) as (l1 & l2 & ->).
  exists l1, l2. split; [reflexivity|].
  apply NoDup_remove_2 in Hnd. split; intros H; apply Hnd; apply in_or_app; auto.
Qed.
