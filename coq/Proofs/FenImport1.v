(* The FEN reader [import] (Model/Fen.v), part 1: it never panics, and what it returns satisfies
   the cache invariant and the easy parts of the rule invariant.

   The placement loop is followed with the invariant [AccInv a r c]: the squares of the rows above
   [r] and of row [r] left of column [c] ("written") hold in a_ps / a_ph the cache values of
   a_board; all other squares are empty with cached score 0 and cached key 0 (not the
   empty-square key, which is only written when a digit is processed); a_hash is the xor of the
   cached keys and a_score the wrapped sum of the cached scores. *)
From Coq Require Import Lia.
From Chess Require Import Model.Text Proofs.Grid Proofs.Inv.
Open Scope Z_scope.

(* ---- small helpers --------------------------------------------------------------------------------- *)

Lemma new_assert_ok r c : 0 <= r <= 7 -> 0 <= c <= 7 -> new_assert r c = Ok (r, c).
Proof.
  intros Hr Hc. unfold new_assert, in_range.
  replace (0 <=? r) with true by (symmetry; apply Z.leb_le; lia).
  replace (r <? 8) with true by (symmetry; apply Z.ltb_lt; lia).
  replace (0 <=? c) with true by (symmetry; apply Z.leb_le; lia).
  replace (c <? 8) with true by (symmetry; apply Z.ltb_lt; lia).
  reflexivity.
Qed.

Lemma pos_eq_dec (p q : pos) : {p = q} + {p <> q}.
Proof.
  destruct p as [a b], q as [c d].
  destruct (Z.eq_dec a c); [|right; congruence]. destruct (Z.eq_dec b d); [|right; congruence].
  left; congruence.
Qed.

Definition is_king_cell (v : option piece) (c : color) : bool :=
  match v with Some pc => kind_eqb (pk pc) King && color_eqb (po pc) c | None => false end.

Lemma is_king_cell_true v c : is_king_cell v c = true <-> v = Some (mkPiece King c).
Proof.
  unfold is_king_cell. destruct v as [[k o]|]; cbn [pk po]; [|split; discriminate].
  rewrite andb_true_iff, kind_eqb_eq, color_eqb_eq. split.
  - intros [-> ->]. reflexivity.
  - intros H. inversion H. auto.
Qed.

(* ---- the loop invariant ---------------------------------------------------------------------------- *)

Definition written (r c : Z) (p : pos) : Prop := r < fst p \/ (fst p = r /\ snd p < c).

Record AccInv (a : acc) (r c : Z) : Prop := mkAccInv {
  ai_row : 0 <= r <= 7;
  ai_col : 0 <= c <= 8;
  ai_board : wf_grid (a_board a);
  ai_ps_wf : wf_grid (a_ps a);
  ai_ph_wf : wf_grid (a_ph a);
  ai_w : forall p, valid p -> written r c p ->
      grid_get (a_ph a) p 0%N = key_place p (bget (a_board a) p)
      /\ grid_get (a_ps a) p 0 = cell_score false (bget (a_board a) p) p;
  ai_u : forall p, valid p -> ~ written r c p ->
      bget (a_board a) p = None /\ grid_get (a_ph a) p 0%N = 0%N /\ grid_get (a_ps a) p 0 = 0;
  ai_hash : a_hash a = xor_all (fun p => grid_get (a_ph a) p 0%N);
  ai_rng : in_i16 (a_score a);
  ai_score : a_score a mod 65536 = sum_all (fun p => grid_get (a_ps a) p 0) mod 65536;
  ai_wk : forall p, a_wk a = Some p -> valid p /\ bget (a_board a) p = Some (mkPiece King White);
  ai_bk : forall p, a_bk a = Some p -> valid p /\ bget (a_board a) p = Some (mkPiece King Black);
  ai_wk_ex : forall p, valid p -> bget (a_board a) p = Some (mkPiece King White) -> a_wk a <> None;
  ai_bk_ex : forall p, valid p -> bget (a_board a) p = Some (mkPiece King Black) -> a_bk a <> None
}.

Lemma grid_make_get {A} (v d : A) p : valid p -> grid_get (grid_make v) p d = v.
Proof.
  intros [Hr Hc]. destruct p as [r c]. cbn [fst snd] in *.
  assert (r = 0 \/ r = 1 \/ r = 2 \/ r = 3 \/ r = 4 \/ r = 5 \/ r = 6 \/ r = 7) as Hr' by lia.
  assert (c = 0 \/ c = 1 \/ c = 2 \/ c = 3 \/ c = 4 \/ c = 5 \/ c = 6 \/ c = 7) as Hc' by lia.
  repeat (destruct Hr' as [->|Hr']); try subst r;
    repeat (destruct Hc' as [->|Hc']); try subst c; reflexivity.
Qed.

Lemma xor_all_zero : xor_all (fun _ => 0%N) = 0%N.
Proof. reflexivity. Qed.
Lemma sum_all_zero : sum_all (fun _ => 0) = 0.
Proof. reflexivity. Qed.

Lemma acc0_inv : AccInv acc0 7 0.
Proof.
  constructor; cbn [acc0 a_board a_ps a_ph a_hash a_score a_wk a_bk]; try apply grid_make_wf; try lia.
  - intros p Hv [H|[_ H]]; destruct Hv; lia.
  - intros p Hv _. unfold bget. rewrite !grid_make_get by assumption. auto.
  - rewrite (xor_all_ext _ (fun _ => 0%N)); [reflexivity|].
    intros p Hp. now apply grid_make_get.
  - unfold in_i16; lia.
  - rewrite (sum_all_ext _ (fun _ => 0)); [reflexivity|].
    intros p Hp. now apply grid_make_get.
  - discriminate.
  - discriminate.
  - intros p Hv. unfold bget. rewrite grid_make_get by assumption. discriminate.
  - intros p Hv. unfold bget. rewrite grid_make_get by assumption. discriminate.
Qed.

(* writing the next square (r, c): the generic step, used for letters and for each empty square *)
Lemma acc_write a a' r c v :
  AccInv a r c -> c < 8 ->
  a_board a' = grid_set (a_board a) (r, c) v ->
  a_ph a' = grid_set (a_ph a) (r, c) (key_place (r, c) v) ->
  a_ps a' = grid_set (a_ps a) (r, c) (cell_score false v (r, c)) ->
  a_hash a' = N.lxor (a_hash a) (key_place (r, c) v) ->
  in_i16 (a_score a') ->
  a_score a' mod 65536 = (a_score a + cell_score false v (r, c)) mod 65536 ->
  a_wk a' = (if is_king_cell v White then Some (r, c) else a_wk a) ->
  a_bk a' = (if is_king_cell v Black then Some (r, c) else a_bk a) ->
  AccInv a' r (c + 1).
Proof.
  intros [Hr Hc Hb Hps Hph Hw Hu Hh Hrng Hs Hwk Hbk Hwe Hbe] Hc8 Eb Eph Eps Eh Hrng' Es Ewk Ebk.
  set (p := (r, c)) in *.
  assert (Hvp : valid p) by (split; cbn; lia).
  assert (Hup : ~ written r c p) by (intros [H|[_ H]]; cbn in H; lia).
  destruct (Hu p Hvp Hup) as (Hbp & Hphp & Hpsp).
  assert (Hother : forall q, valid q -> q <> p -> (written r (c + 1) q <-> written r c q)).
  { intros q Hq Hne. unfold written. split; intros [H|[H1 H2]]; auto; right; split; auto; try lia.
    destruct (Z.eq_dec (snd q) c) as [E|E]; [|lia].
    exfalso. apply Hne. destruct q; cbn in *; subst; reflexivity. }
  assert (Hbq : forall q, q <> p -> bget (a_board a') q = bget (a_board a) q).
  { intros q Hne. rewrite Eb. apply bget_bset_other. congruence. }
  assert (Hbp' : bget (a_board a') p = v).
  { rewrite Eb. now apply bget_bset_same. }
  constructor; try assumption; try lia.
  - rewrite Eb. now apply wf_grid_set.
  - rewrite Eps. now apply wf_grid_set.
  - rewrite Eph. now apply wf_grid_set.
  - intros q Hq Hwq. destruct (pos_eq_dec q p) as [->|Hne].
    + rewrite Hbp', Eph, Eps. rewrite !grid_get_set_same by assumption. auto.
    + rewrite Hbq, Eph, Eps by assumption. rewrite !grid_get_set_other by congruence.
      apply Hw; [assumption|]. now apply Hother.
  - intros q Hq Hnw. assert (q <> p) as Hne.
    { intros ->. apply Hnw. right. cbn. split; [reflexivity | lia]. }
    rewrite Hbq, Eph, Eps by assumption. rewrite !grid_get_set_other by congruence.
    apply Hu; [assumption|]. intros H. apply Hnw. now apply Hother.
  - rewrite Eh, Hh, Eph.
    rewrite (xor_all_update (fun q => grid_get (a_ph a) q 0%N)
               (fun q => grid_get (grid_set (a_ph a) p (key_place p v)) q 0%N) p Hvp).
    + rewrite Hphp, grid_get_set_same by assumption. now rewrite N.lxor_0_r.
    + intros q Hne. apply grid_get_set_other. congruence.
  - rewrite Es, Eps.
    rewrite (sum_all_update (fun q => grid_get (a_ps a) q 0)
               (fun q => grid_get (grid_set (a_ps a) p (cell_score false v p)) q 0) p Hvp).
    + rewrite Hpsp, grid_get_set_same by assumption.
      rewrite Z.sub_0_r. rewrite <- Zplus_mod_idemp_l, Hs, Zplus_mod_idemp_l. reflexivity.
    + intros q Hne. apply grid_get_set_other. congruence.
  - intros q Hq. rewrite Ewk in Hq. destruct (is_king_cell v White) eqn:E.
    + inversion Hq; subst q. split; [assumption|]. rewrite Hbp'. now apply is_king_cell_true.
    + destruct (Hwk q Hq) as [Hvq Hbq']. split; [assumption|].
      rewrite Hbq; [assumption|]. intros ->. congruence.
  - intros q Hq. rewrite Ebk in Hq. destruct (is_king_cell v Black) eqn:E.
    + inversion Hq; subst q. split; [assumption|]. rewrite Hbp'. now apply is_king_cell_true.
    + destruct (Hbk q Hq) as [Hvq Hbq']. split; [assumption|].
      rewrite Hbq; [assumption|]. intros ->. congruence.
  - intros q Hq Hk. rewrite Ewk. destruct (pos_eq_dec q p) as [->|Hne].
    + rewrite Hbp' in Hk. apply is_king_cell_true in Hk. rewrite Hk. discriminate.
    + destruct (is_king_cell v White); [discriminate|]. apply (Hwe q Hq). now rewrite <- Hbq.
  - intros q Hq Hk. rewrite Ebk. destruct (pos_eq_dec q p) as [->|Hne].
    + rewrite Hbp' in Hk. apply is_king_cell_true in Hk. rewrite Hk. discriminate.
    + destruct (is_king_cell v Black); [discriminate|]. apply (Hbe q Hq). now rewrite <- Hbq.
Qed.

(* ---- the loop over empty squares --------------------------------------------------------------------- *)

Lemma fill_empty_inv n : forall a i,
  AccInv a (a_row a) (a_col a + i) -> a_col a + i + Z.of_nat n <= 8 ->
  exists a', fill_empty n a i = Ok a'
    /\ a_row a' = a_row a /\ a_col a' = a_col a /\ a_board a' = a_board a
    /\ a_wk a' = a_wk a /\ a_bk a' = a_bk a
    /\ AccInv a' (a_row a) (a_col a + i + Z.of_nat n).
Proof.
  induction n as [|n IH]; intros a i Hinv Hle.
  - exists a. cbn [fill_empty]. do 6 (split; [reflexivity|]).
    replace (a_col a + i + Z.of_nat 0) with (a_col a + i) by lia. assumption.
  - cbn [fill_empty].
    pose proof (ai_row _ _ _ Hinv) as Hr. pose proof (ai_col _ _ _ Hinv) as Hc.
    rewrite new_assert_ok by lia. cbn [bind].
    set (p := (a_row a, a_col a + i)).
    set (a1 := mkAcc (a_row a) (a_col a) (N.lxor (a_hash a) KEY_EMPTY_PLACE) (a_score a) (a_board a)
                     (a_ps a) (grid_set (a_ph a) p KEY_EMPTY_PLACE) (a_wk a) (a_bk a)).
    assert (Hvp : valid p) by (split; cbn; lia).
    assert (Hup : ~ written (a_row a) (a_col a + i) p) by (intros [H|[_ H]]; cbn in H; lia).
    destruct (ai_u _ _ _ Hinv p Hvp Hup) as (Hbp & Hphp & Hpsp).
    assert (H1 : AccInv a1 (a_row a1) (a_col a1 + (i + 1))).
    { cbn [a1 a_row a_col]. replace (a_col a + (i + 1)) with (a_col a + i + 1) by lia.
      apply (acc_write a a1 (a_row a) (a_col a + i) None Hinv); cbn [a1 a_board a_ph a_ps a_hash a_score a_wk a_bk
                                                                      is_king_cell key_place cell_score]; try reflexivity.
      - lia.
      - fold p. symmetry. etransitivity; [|apply (grid_set_get_id (a_board a) p None)].
        unfold bget in Hbp. now rewrite Hbp.
      - fold p. symmetry. etransitivity; [|apply (grid_set_get_id (a_ps a) p 0)].
        now rewrite Hpsp.
      - apply (ai_rng _ _ _ Hinv).
      - now rewrite Z.add_0_r. }
    destruct (IH a1 (i + 1) H1) as (a' & E & Er & Ec & Eb & Ew & Ek & Hinv').
    { cbn [a1 a_col]. lia. }
    exists a'. split; [exact E|]. cbn [a1 a_row a_col a_board a_wk a_bk] in *.
    do 5 (split; [assumption|]).
    replace (a_col a + i + Z.of_nat (S n)) with (a_col a + (i + 1) + Z.of_nat n) by lia. assumption.
Qed.

(* ---- one character ---------------------------------------------------------------------------------- *)

Definition AccOk (a : acc) : Prop := AccInv a (a_row a) (a_col a).

Lemma placement_step_inv a ch :
  AccOk a ->
  match placement_step a ch with
  | Ok a' => AccOk a'
  | Err _ => True
  | Panic _ => False
  end.
Proof.
  intros Hinv. unfold AccOk in *.
  pose proof (ai_row _ _ _ Hinv) as Hr. pose proof (ai_col _ _ _ Hinv) as Hc.
  unfold placement_step.
  destruct (N.eqb ch 47).
  { destruct (a_col a =? 8) eqn:E8; cbn [negb]; [|exact I].
    destruct (a_row a =? 0) eqn:E0; [exact I|].
    apply Z.eqb_eq in E8. apply Z.eqb_neq in E0.
    cbn [a_row a_col].
    destruct Hinv as [_ _ Hb Hps Hph Hw Hu Hh Hrng Hs Hwk Hbk Hwe Hbe].
    constructor; cbn [a_board a_ps a_ph a_hash a_score a_wk a_bk]; try assumption; try lia.
    - intros p Hv Hwr. apply Hw; [assumption|]. rewrite E8. destruct Hv.
      unfold written in *. lia.
    - intros p Hv Hnw. apply Hu; [assumption|]. rewrite E8. destruct Hv.
      unfold written in *. lia. }
  destruct (is_ascii_alpha ch).
  { destruct (a_col a =? 8) eqn:E8; [exact I|]. apply Z.eqb_neq in E8.
    destruct (piece_of_char ch) as [pc|]; [|exact I].
    rewrite new_assert_ok by lia. cbn [bind].
    cbn [a_row a_col].
    eapply (acc_write a _ (a_row a) (a_col a) (Some pc) Hinv);
      cbn [a_board a_ph a_ps a_hash a_score a_wk a_bk is_king_cell key_place cell_score]; try reflexivity.
    - lia.
    - apply wrap16_range.
    - apply wrap16_mod. }
  destruct (is_ascii_digit ch); [|exact I].
  set (count := Z.of_N (ch - 48)).
  destruct ((count =? 0) || (8 <? a_col a + count)) eqn:E; [exact I|].
  apply orb_false_iff in E. destruct E as [E0 E8]. apply Z.eqb_neq in E0. apply Z.ltb_ge in E8.
  assert (0 <= count) by (unfold count; lia).
  destruct (fill_empty_inv (Z.to_nat count) a 0) as (a' & E & Er & Ec & Eb & Ew & Ek & Hinv').
  { now rewrite Z.add_0_r. }
  { lia. }
  rewrite E. cbn [bind a_row a_col].
  rewrite Er, Ec. rewrite Z.add_0_r, Z2Nat.id in Hinv' by lia.
  destruct Hinv' as [? ? Hb Hps Hph Hw Hu Hh Hrng Hs Hwk Hbk Hwe Hbe].
  constructor; cbn [a_board a_ps a_ph a_hash a_score a_wk a_bk]; assumption.
Qed.

Lemma placement_inv s : forall a,
  AccOk a ->
  match placement a s with
  | Ok a' => AccOk a'
  | Err _ => True
  | Panic _ => False
  end.
Proof.
  induction s as [|ch t IH]; intros a Hinv; cbn [placement]; [assumption|].
  pose proof (placement_step_inv a ch Hinv) as H.
  destruct (placement_step a ch) as [a1| |]; cbn [bind]; [|exact I|exact H].
  now apply IH.
Qed.

(* ---- the remaining fields never panic ------------------------------------------------------------------ *)

Lemma castling_field_no_panic whole s : forall st c, castling_field whole s st <> Panic c.
Proof.
  induction s as [|ch t IH]; intros st c; cbn [castling_field]; [discriminate|].
  repeat match goal with |- (if ?b then _ else _) <> _ => destruct b end; try apply IH; discriminate.
Qed.

Lemma castling_field_ep whole s : forall st st', castling_field whole s st = Ok st' -> st_ep st' = st_ep st.
Proof.
  induction s as [|ch t IH]; intros st st'; cbn [castling_field].
  - intros H. inversion H. reflexivity.
  - repeat match goal with |- (if ?b then _ else _) = _ -> _ => destruct b end;
      try discriminate; intros H; apply IH in H; rewrite H; reflexivity.
Qed.

(* matches on character literals are turned into N.eqb tests: destruct the number bit by bit *)
Ltac nbits f := destruct f as [|f]; [try reflexivity | do 7 (try (destruct f as [f|f|]; try reflexivity))].

Lemma ep_field_eq s player st : ep_field s player st =
  match s with
  | [f] => if N.eqb f 45 then Ok st else Err E_EP
  | [f; r] => if ((97 <=? f) && (f <=? 104) && N.eqb r (match player with White => 54 | Black => 51 end))%N
      then Ok (set_ep st (Z.of_N (f - 97))) else Err E_EP
  | _ => Err E_EP end.
Proof.
  unfold ep_field. destruct s as [|f [|r [|x t]]]; try reflexivity; nbits f.
Qed.

Lemma side_field_eq s : side_field s =
  match s with
  | [c] => if N.eqb c 119 then Ok White else if N.eqb c 98 then Ok Black else Err E_PLAYER
  | _ => Err E_PLAYER end.
Proof.
  unfold side_field. destruct s as [|f [|r t]]; try reflexivity; nbits f.
Qed.

Lemma ep_field_cases s player st :
  match ep_field s player st with
  | Ok st' => (st' = st \/ exists f, 0 <= f < 8 /\ st' = set_ep st f)
  | Err _ => True
  | Panic _ => False
  end.
Proof.
  rewrite ep_field_eq.
  destruct s as [|f [|r [|x t]]]; try exact I.
  - destruct (N.eqb f 45); [left; reflexivity | exact I].
  - destruct ((97 <=? f)%N && (f <=? 104)%N && N.eqb r (match player with White => 54 | Black => 51 end)%N) eqn:E;
      [|exact I].
    right. exists (Z.of_N (f - 97)). split; [|reflexivity].
    apply andb_true_iff in E. destruct E as [E _]. apply andb_true_iff in E. destruct E as [E1 E2].
    apply N.leb_le in E1, E2. lia.
Qed.

Lemma side_field_no_panic s c : side_field s <> Panic c.
Proof.
  rewrite side_field_eq. destruct s as [|x [|y t]]; try discriminate.
  destruct (N.eqb x 119); [discriminate|]. destruct (N.eqb x 98); discriminate.
Qed.

Lemma counter_fields_no_panic l c : counter_fields l <> Panic c.
Proof.
  unfold counter_fields. destruct l as [|c1 [|c2 [|c3 t]]]; try discriminate;
    repeat match goal with |- (if ?b then _ else _) <> _ => destruct b end; discriminate.
Qed.

(* ---- update_phase: the fields it leaves alone ----------------------------------------------------------- *)

Lemma set_position_self_board g p : g_board (set_position g p (gget g p)) = g_board g.
Proof. rewrite set_position_board. unfold gget, bget, bset. apply grid_set_get_id. Qed.

Lemma update_phase_board g : g_board (update_phase g) = g_board g.
Proof.
  unfold update_phase. destruct (negb (g_endgame g) && is_endgame g); [|reflexivity].
  cbv zeta. rewrite !set_position_self_board. reflexivity.
Qed.
Lemma update_phase_player g : g_player (update_phase g) = g_player g.
Proof. unfold update_phase. destruct (negb (g_endgame g) && is_endgame g); reflexivity. Qed.
Lemma update_phase_states g : g_states (update_phase g) = g_states g.
Proof. unfold update_phase. destruct (negb (g_endgame g) && is_endgame g); reflexivity. Qed.
Lemma update_phase_gstate g : gstate_of (update_phase g) = gstate_of g.
Proof. unfold gstate_of. now rewrite update_phase_states. Qed.
Lemma update_phase_wking g : g_wking (update_phase g) = g_wking g.
Proof. unfold update_phase. destruct (negb (g_endgame g) && is_endgame g); reflexivity. Qed.
Lemma update_phase_bking g : g_bking (update_phase g) = g_bking g.
Proof. unfold update_phase. destruct (negb (g_endgame g) && is_endgame g); reflexivity. Qed.
Lemma update_phase_moves g : g_moves (update_phase g) = g_moves g.
Proof. unfold update_phase. destruct (negb (g_endgame g) && is_endgame g); reflexivity. Qed.
Lemma update_phase_king_pos g c : king_pos (update_phase g) c = king_pos g c.
Proof. destruct c; cbn [king_pos]; [apply update_phase_wking | apply update_phase_bking]. Qed.

(* ---- import: decomposition ----------------------------------------------------------------------------- *)

Definition import_game (a : acc) (player : color) (st : gstate) (wk bk : pos) : game :=
  mkGame (a_score a) player [] false
         (N.lxor (if color_eqb player Black then N.lxor (a_hash a) KEY_BLACK_TO_MOVE else a_hash a)
                 (key_state (state_byte st)))
         (a_board a) (a_ps a) (a_ph a) false wk bk [st].

Inductive ImportOk (s : text) (g : game) : Prop :=
| mkImportOk (pieces side castling ep : text) (rest : list text) (a : acc) (player : color)
    (st0 st : gstate) (wk bk : pos)
    (io_split : split_ws s = pieces :: side :: castling :: ep :: rest)
    (io_placement : placement acc0 pieces = Ok a)
    (io_row : a_row a = 0)
    (io_col : a_col a = 8)
    (io_side_ok : side_field side = Ok player)
    (io_castling_ok : castling_field castling castling state_default = Ok st0)
    (io_ep_ok : ep_field ep player st0 = Ok st)
    (io_counters : counter_fields rest = Ok tt)
    (io_wking : a_wk a = Some wk)
    (io_bking : a_bk a = Some bk)
    (io_game : g = update_phase (import_game a player st wk bk)).

Lemma import_ok_inv s g : import s = Ok g -> ImportOk s g.
Proof.
  unfold import. intros H.
  destruct (split_ws s) as [|pieces l] eqn:Es; cbn [field bind] in H; [discriminate|].
  destruct (placement acc0 pieces) as [a| |] eqn:Ep; cbn [bind] in H; try discriminate.
  destruct ((a_row a =? 0) && (a_col a =? 8)) eqn:Erc; cbn [negb] in H; [|discriminate].
  apply andb_true_iff in Erc. destruct Erc as [Er Ec]. apply Z.eqb_eq in Er, Ec.
  destruct l as [|side l]; cbn [field bind] in H; [discriminate|].
  destruct (side_field side) as [player| |] eqn:Esd; cbn [bind] in H; try discriminate.
  destruct l as [|castling l]; cbn [field bind] in H; [discriminate|].
  destruct (castling_field castling castling state_default) as [st0| |] eqn:Ecs; cbn [bind] in H; try discriminate.
  destruct l as [|ep l]; cbn [field bind] in H; [discriminate|].
  destruct (ep_field ep player st0) as [st| |] eqn:Eep; cbn [bind] in H; try discriminate.
  destruct (counter_fields l) as [[]| |] eqn:Ecn; cbn [bind] in H; try discriminate.
  destruct (a_wk a) as [wk|] eqn:Ewk; cbn [require_king bind] in H; [|discriminate].
  destruct (a_bk a) as [bk|] eqn:Ebk; cbn [require_king bind] in H; [|discriminate].
  injection H as Hg. subst g.
  exact (mkImportOk s _ pieces side castling ep l a player st0 st wk bk
           Es Ep Er Ec Esd Ecs Eep Ecn Ewk Ebk eq_refl).
Qed.

Lemma import_ok_intro s pieces side castling ep rest a player st0 st wk bk :
  split_ws s = pieces :: side :: castling :: ep :: rest ->
  placement acc0 pieces = Ok a -> a_row a = 0 -> a_col a = 8 ->
  side_field side = Ok player ->
  castling_field castling castling state_default = Ok st0 ->
  ep_field ep player st0 = Ok st ->
  counter_fields rest = Ok tt ->
  a_wk a = Some wk -> a_bk a = Some bk ->
  import s = Ok (update_phase (import_game a player st wk bk)).
Proof.
  intros Es Ep Er Ec Esd Ecs Eep Ecn Ewk Ebk.
  unfold import. rewrite Es. cbn [field bind]. rewrite Ep. cbn [bind].
  rewrite Er, Ec. cbn [Z.eqb andb negb]. rewrite Esd. cbn [bind]. rewrite Ecs. cbn [bind].
  rewrite Eep. cbn [bind]. rewrite Ecn. cbn [bind]. rewrite Ewk, Ebk. cbn [require_king bind].
  reflexivity.
Qed.

(* ---- theorem 1: the reader returns Ok or Err on every text ------------------------------------------- *)

Theorem import_never_panics : forall s, match import s with Panic _ => False | _ => True end.
Proof.
  intros s. unfold import.
  destruct (split_ws s) as [|pieces l]; cbn [field bind]; [exact I|].
  pose proof (placement_inv pieces acc0 acc0_inv) as Hp.
  destruct (placement acc0 pieces) as [a| |]; cbn [bind]; [|exact I|exact Hp].
  destruct (negb ((a_row a =? 0) && (a_col a =? 8))); [exact I|].
  destruct l as [|side l]; cbn [field bind]; [exact I|].
  pose proof (side_field_no_panic side) as Hs.
  destruct (side_field side) as [player| |c]; cbn [bind]; [|exact I|exact (Hs c eq_refl)].
  destruct l as [|castling l]; cbn [field bind]; [exact I|].
  pose proof (castling_field_no_panic castling castling state_default) as Hc.
  destruct (castling_field castling castling state_default) as [st0| |c]; cbn [bind]; [|exact I|exact (Hc c eq_refl)].
  destruct l as [|ep l]; cbn [field bind]; [exact I|].
  pose proof (ep_field_cases ep player st0) as He.
  destruct (ep_field ep player st0) as [st| |c]; cbn [bind]; [|exact I|exact He].
  pose proof (counter_fields_no_panic l) as Hn.
  destruct (counter_fields l) as [[]| |c]; cbn [bind]; [|exact I|exact (Hn c eq_refl)].
  destruct (a_wk a); cbn [require_king bind]; [|exact I].
  destruct (a_bk a); cbn [require_king bind]; exact I.
Qed.
Print Assumptions import_never_panics.

(* ---- the cache invariant with a per-square choice of the king table -------------------------------------
   While update_phase runs, the king table flag is already set but only some squares have been
   re-scored. [CacheInvK k g]: as CacheInv, the square p being scored with table flag [k p]. *)

Definition kscore (k : pos -> bool) (b : board) (p : pos) : Z := cell_score (k p) (bget b p) p.

Record CacheInvK (k : pos -> bool) (g : game) : Prop := mkCacheInvK {
  ck_board : wf_grid (g_board g);
  ck_ps_wf : wf_grid (g_pscores g);
  ck_ph_wf : wf_grid (g_phashes g);
  ck_ph : forall p, valid p -> grid_get (g_phashes g) p 0%N = key_place p (bget (g_board g) p);
  ck_ps : forall p, valid p -> grid_get (g_pscores g) p 0 = kscore k (g_board g) p;
  ck_hash : g_hash g = N.lxor (N.lxor (board_hash (g_board g)) (side_key (g_player g)))
                              (key_state (state_byte (gstate_of g)));
  ck_score_rng : in_i16 (g_score g);
  ck_score : g_score g mod 65536 = sum_all (kscore k (g_board g)) mod 65536
}.

Lemma cacheK_of_cache g : CacheInv g -> CacheInvK (fun _ => g_kend g) g.
Proof. intros [Hb Hps Hph Hphv Hpsv Hh Hr Hs]. constructor; assumption. Qed.

Lemma cache_of_cacheK k g :
  CacheInvK k g ->
  (forall q, valid q -> kscore k (g_board g) q = cell_score (g_kend g) (bget (g_board g) q) q) ->
  CacheInv g.
Proof.
  intros [Hb Hps Hph Hphv Hpsv Hh Hr Hs] Hk. constructor; try assumption.
  - intros p Hp. rewrite Hpsv by assumption. now apply Hk.
  - rewrite Hs. unfold board_sum. f_equal. now apply sum_all_ext.
Qed.

Lemma set_position_cacheK k g p v :
  CacheInvK k g -> valid p ->
  CacheInvK (fun q => if pos_eqb q p then g_kend g else k q) (set_position g p v).
Proof.
  intros [Hb Hps Hph Hphv Hpsv Hh Hr Hs] Hv.
  set (k' := fun q => if pos_eqb q p then g_kend g else k q).
  assert (Hk'p : k' p = g_kend g) by (unfold k'; now rewrite pos_eqb_refl).
  assert (Hk'q : forall q, q <> p -> k' q = k q).
  { intros q Hq. unfold k'. destruct (pos_eqb q p) eqn:E; [|reflexivity].
    apply pos_eqb_eq in E. contradiction. }
  constructor;
    rewrite ?set_position_board, ?set_position_hash, ?set_position_score, ?set_position_ps,
      ?set_position_ph, ?set_position_kend, ?set_position_player, ?set_position_gstate.
  - now apply wf_grid_set.
  - now apply wf_grid_set.
  - now apply wf_grid_set.
  - intros q Hq. destruct (pos_eq_dec p q) as [<-|Hne].
    + rewrite grid_get_set_same by assumption. now rewrite bget_bset_same.
    + rewrite grid_get_set_other by assumption.
      rewrite bget_bset_other by assumption. now apply Hphv.
  - intros q Hq. unfold kscore. destruct (pos_eq_dec p q) as [<-|Hne].
    + rewrite grid_get_set_same by assumption.
      rewrite bget_bset_same by assumption. now rewrite Hk'p.
    + rewrite grid_get_set_other by assumption.
      rewrite bget_bset_other by assumption. rewrite Hk'q by congruence. now apply Hpsv.
  - rewrite board_hash_set by assumption.
    rewrite Hphv by assumption. rewrite Hh.
    set (B := board_hash (g_board g)). set (S := side_key (g_player g)).
    set (K := key_state (state_byte (gstate_of g))).
    set (o := key_place p (bget (g_board g) p)). set (n := key_place p v).
    clearbody B S K o n. xor_solve.
  - apply wrap16_range.
  - rewrite (sum_all_update (kscore k (g_board g)) (kscore k' (bset (g_board g) p v)) p Hv).
    + rewrite Hpsv by assumption. rewrite wrap16_mod.
      rewrite <- Zplus_mod_idemp_l, wrap16_mod, Zplus_mod_idemp_l.
      replace (kscore k' (bset (g_board g) p v) p) with (cell_score (g_kend g) v p)
        by (unfold kscore; now rewrite bget_bset_same, Hk'p).
      set (n := cell_score (g_kend g) v p). set (o := kscore k (g_board g) p).
      rewrite <- Zplus_mod_idemp_l, <- Zminus_mod_idemp_l, Hs, Zminus_mod_idemp_l, Zplus_mod_idemp_l.
      reflexivity.
    + intros q Hq. unfold kscore. rewrite bget_bset_other by congruence. now rewrite Hk'q.
Qed.

Lemma endgame_swap_kind_king : endgame_swap_kind = King.
Proof. reflexivity. Qed.

Lemma piece_score_not_king k1 k2 pc p : pk pc <> King -> piece_score k1 pc p = piece_score k2 pc p.
Proof.
  intros H. unfold piece_score, table_for. rewrite endgame_swap_kind_king.
  destruct (kind_eqb (pk pc) King) eqn:E; [apply kind_eqb_eq in E; contradiction|].
  now rewrite !andb_false_r.
Qed.

(* update_phase keeps the cache invariant when the only kings on the board are the two cached ones *)
Lemma update_phase_cache g :
  CacheInv g -> valid (g_wking g) -> valid (g_bking g) ->
  (forall p c, valid p -> bget (g_board g) p = Some (mkPiece King c) -> king_pos g c = p) ->
  CacheInv (update_phase g).
Proof.
  intros Hc Hw Hb Hk. unfold update_phase.
  destruct (negb (g_endgame g) && is_endgame g); [|assumption]. cbv zeta.
  set (g1 := with_phase_end g).
  assert (H1 : CacheInvK (fun _ => g_kend g) g1).
  { destruct Hc as [Hb' Hps Hph Hphv Hpsv Hh Hr Hs]. constructor; assumption. }
  set (g2 := set_position g1 (king_pos g1 White) (gget g1 (king_pos g1 White))).
  assert (H2 := set_position_cacheK _ g1 (king_pos g1 White) (gget g1 (king_pos g1 White)) H1 Hw).
  fold g2 in H2.
  assert (H3 := set_position_cacheK _ g2 (king_pos g2 Black) (gget g2 (king_pos g2 Black)) H2 Hb).
  apply (cache_of_cacheK _ _ H3).
  intros q Hq. rewrite !set_position_kend. unfold kscore.
  assert (Eb : g_board (set_position g2 (king_pos g2 Black) (gget g2 (king_pos g2 Black))) = g_board g).
  { rewrite set_position_self_board. unfold g2. now rewrite set_position_self_board. }
  rewrite Eb. change (g_kend g1) with true. change (g_kend g2) with true.
  change (king_pos g2 Black) with (g_bking g). change (king_pos g1 White) with (g_wking g).
  destruct (pos_eqb q (g_bking g)) eqn:E1; [reflexivity|].
  destruct (pos_eqb q (g_wking g)) eqn:E2; [reflexivity|].
  destruct (bget (g_board g) q) as [pc|] eqn:Eq; [|reflexivity]. cbn [cell_score].
  apply piece_score_not_king. intros Hking.
  destruct pc as [kd c]. cbn [pk] in Hking. subst kd.
  specialize (Hk q c Hq Eq).
  destruct c; cbn [king_pos] in Hk; subst q; rewrite pos_eqb_refl in *; discriminate.
Qed.

(* ---- three kings are never an endgame ----------------------------------------------------------------- *)

Definition contrib (g : game) (p : pos) : Z :=
  match gget g p with Some pc => Z.abs (piece_score (g_kend g) pc p) | None => 0 end.

Lemma all_squares_eq : all_squares = squares64.
Proof. reflexivity. Qed.

Lemma total_piece_score_sum g : total_piece_score g = sum_all (contrib g).
Proof.
  unfold total_piece_score, sum_all. rewrite all_squares_eq.
  assert (H : forall l a,
    fold_left (fun acc p => match gget g p with
                            | Some pc => acc + Z.abs (piece_score (g_kend g) pc p)
                            | None => acc end) l a
    = a + fold_right Z.add 0 (map (contrib g) l)).
  { induction l as [|x t IH]; intros a; cbn [fold_left map fold_right]; [lia|].
    rewrite IH. unfold contrib. destruct (gget g x); lia. }
  rewrite H. lia.
Qed.

Lemma sum_nonneg l : (forall x, In x l -> 0 <= x) -> 0 <= fold_right Z.add 0 l.
Proof.
  induction l as [|x t IH]; intros H; cbn [fold_right]; [lia|].
  assert (0 <= x) by (apply H; left; reflexivity).
  assert (0 <= fold_right Z.add 0 t) by (apply IH; intros y Hy; apply H; right; exact Hy). lia.
Qed.

Lemma sum_all_nonneg f : (forall q, 0 <= f q) -> 0 <= sum_all f.
Proof.
  intros H. unfold sum_all. apply sum_nonneg. intros x Hx.
  apply in_map_iff in Hx. destruct Hx as (q & <- & _). apply H.
Qed.

Definition zero_at (f : pos -> Z) (p : pos) : pos -> Z := fun q => if pos_eqb q p then 0 else f q.

Lemma sum_all_split f p : valid p -> sum_all f = f p + sum_all (zero_at f p).
Proof.
  intros Hv. rewrite (sum_all_update f (zero_at f p) p Hv).
  - unfold zero_at. rewrite pos_eqb_refl. lia.
  - intros q Hq. unfold zero_at. destruct (pos_eqb q p) eqn:E; [|reflexivity].
    apply pos_eqb_eq in E. contradiction.
Qed.

Lemma zero_at_other f p q : q <> p -> zero_at f p q = f q.
Proof.
  intros H. unfold zero_at. destruct (pos_eqb q p) eqn:E; [|reflexivity].
  apply pos_eqb_eq in E. contradiction.
Qed.

Lemma zero_at_nonneg f p : (forall q, 0 <= f q) -> forall q, 0 <= zero_at f p q.
Proof. intros H q. unfold zero_at. destruct (pos_eqb q p); [lia | apply H]. Qed.

Lemma sum_all_three f p1 p2 p3 :
  (forall q, 0 <= f q) -> valid p1 -> valid p2 -> valid p3 -> p1 <> p2 -> p1 <> p3 -> p2 <> p3 ->
  f p1 + f p2 + f p3 <= sum_all f.
Proof.
  intros Hf H1 H2 H3 N12 N13 N23.
  rewrite (sum_all_split f p1 H1).
  rewrite (sum_all_split (zero_at f p1) p2 H2).
  rewrite (sum_all_split (zero_at (zero_at f p1) p2) p3 H3).
  rewrite !zero_at_other by congruence.
  assert (0 <= sum_all (zero_at (zero_at (zero_at f p1) p2) p3)).
  { apply sum_all_nonneg. repeat apply zero_at_nonneg. exact Hf. }
  lia.
Qed.

Lemma king_score_min_b :
  forallb (fun p => forallb (fun c => forallb (fun k =>
     19950 <=? Z.abs (piece_score k (mkPiece King c) p)) [false; true]) [White; Black]) squares64 = true.
Proof. vm_compute. reflexivity. Qed.

Lemma king_score_min k c p : valid p -> 19950 <= Z.abs (piece_score k (mkPiece King c) p).
Proof.
  intros Hv. pose proof king_score_min_b as H. rewrite forallb_forall in H.
  specialize (H p (proj2 (squares64_valid p) Hv)). rewrite forallb_forall in H.
  assert (Hc : In c [White; Black]) by (destruct c; cbn; auto).
  specialize (H c Hc). rewrite forallb_forall in H.
  assert (Hk : In k [false; true]) by (destruct k; cbn; auto).
  specialize (H k Hk). now apply Z.leb_le in H.
Qed.

Lemma contrib_nonneg g q : 0 <= contrib g q.
Proof. unfold contrib. destruct (gget g q); lia. Qed.

Lemma three_kings_no_endgame g p1 p2 p3 c1 c2 c3 :
  valid p1 -> valid p2 -> valid p3 -> p1 <> p2 -> p1 <> p3 -> p2 <> p3 ->
  bget (g_board g) p1 = Some (mkPiece King c1) ->
  bget (g_board g) p2 = Some (mkPiece King c2) ->
  bget (g_board g) p3 = Some (mkPiece King c3) ->
  is_endgame g = false.
Proof.
  intros H1 H2 H3 N12 N13 N23 K1 K2 K3.
  unfold is_endgame. apply Z.ltb_ge. rewrite total_piece_score_sum.
  pose proof (sum_all_three (contrib g) p1 p2 p3 (contrib_nonneg g) H1 H2 H3 N12 N13 N23) as H.
  unfold contrib at 1 2 3 in H. unfold gget in H. rewrite K1, K2, K3 in H.
  pose proof (king_score_min (g_kend g) c1 p1 H1). pose proof (king_score_min (g_kend g) c2 p2 H2).
  pose proof (king_score_min (g_kend g) c3 p3 H3).
  change (endgame_factor * ENDGAME_THRESHOLD) with 43000. lia.
Qed.

(* ---- theorem 2: the imported game satisfies the cache invariant ------------------------------------------ *)

Lemma written_all p : valid p -> written 0 8 p.
Proof. intros [Hr Hc]. unfold written. lia. Qed.

Lemma import_game_cache a player st wk bk :
  AccInv a 0 8 -> CacheInv (import_game a player st wk bk).
Proof.
  intros [_ _ Hb Hps Hph Hw Hu Hh Hrng Hs Hwk Hbk Hwe Hbe].
  constructor; cbn [import_game g_board g_pscores g_phashes g_hash g_score g_kend g_player]; try assumption.
  - intros p Hp. apply (Hw p Hp (written_all p Hp)).
  - intros p Hp. apply (Hw p Hp (written_all p Hp)).
  - change (gstate_of (import_game a player st wk bk)) with st. f_equal.
    assert (E : board_hash (a_board a) = a_hash a).
    { rewrite Hh. unfold board_hash. apply xor_all_ext. intros p Hp.
      symmetry. apply (Hw p Hp (written_all p Hp)). }
    rewrite E. destruct player; cbn [color_eqb side_key]; [now rewrite N.lxor_0_r | reflexivity].
  - rewrite Hs. unfold board_sum. f_equal. apply sum_all_ext. intros p Hp.
    apply (Hw p Hp (written_all p Hp)).
Qed.

Lemma placement_acc0_inv pieces a : placement acc0 pieces = Ok a -> AccOk a.
Proof.
  intros H. pose proof (placement_inv pieces acc0 acc0_inv) as Hp. rewrite H in Hp. exact Hp.
Qed.

Lemma import_game_kings a player st wk bk :
  AccInv a 0 8 -> a_wk a = Some wk -> a_bk a = Some bk ->
  let g := import_game a player st wk bk in
  is_endgame g = true ->
  forall p c, valid p -> bget (g_board g) p = Some (mkPiece King c) -> king_pos g c = p.
Proof.
  intros Hinv Ewk Ebk g Hend p c Hp Hk.
  destruct (ai_wk _ _ _ Hinv wk Ewk) as [Hvw Hbw]. destruct (ai_bk _ _ _ Hinv bk Ebk) as [Hvb Hbb].
  destruct (pos_eq_dec (king_pos g c) p) as [E|Hne]; [exact E|exfalso].
  assert (wk <> bk) as Nwb by (intros ->; congruence).
  assert (p <> wk) as Npw.
  { intros ->. destruct c; [apply Hne; reflexivity|]. cbn [g import_game g_board] in Hk. congruence. }
  assert (p <> bk) as Npb.
  { intros ->. destruct c; [|apply Hne; reflexivity]. cbn [g import_game g_board] in Hk. congruence. }
  pose proof (three_kings_no_endgame g p wk bk c White Black Hp Hvw Hvb Npw Npb Nwb Hk Hbw Hbb). congruence.
Qed.

Lemma import_game_update_cache a player st wk bk :
  AccInv a 0 8 -> a_wk a = Some wk -> a_bk a = Some bk ->
  CacheInv (update_phase (import_game a player st wk bk)).
Proof.
  intros Hinv Ewk Ebk. set (g := import_game a player st wk bk).
  pose proof (import_game_cache a player st wk bk Hinv) as Hc. fold g in Hc.
  destruct (is_endgame g) eqn:Eend.
  - destruct (ai_wk _ _ _ Hinv wk Ewk) as [Hvw _]. destruct (ai_bk _ _ _ Hinv bk Ebk) as [Hvb _].
    apply update_phase_cache; try assumption.
    exact (import_game_kings a player st wk bk Hinv Ewk Ebk Eend).
  - unfold update_phase. rewrite Eend, andb_false_r. assumption.
Qed.

Lemma import_acc_inv :
  forall pieces a, placement acc0 pieces = Ok a -> a_row a = 0 -> a_col a = 8 -> AccInv a 0 8.
Proof.
  intros pieces a Hp Er Ec. pose proof (placement_acc0_inv pieces a Hp) as H.
  unfold AccOk in H. now rewrite Er, Ec in H.
Qed.

Theorem import_cache : forall s g, import s = Ok g -> CacheInv g.
Proof.
  intros s g H. destruct (import_ok_inv s g H) as [pieces side castling ep rest a player st0 st wk bk
    Hsplit Hpl Hrow Hcol Hside Hcast Hep Hcnt Hwk Hbk ->].
  apply import_game_update_cache; try assumption.
  exact (import_acc_inv pieces a Hpl Hrow Hcol).
Qed.
Print Assumptions import_cache.

(* ---- the easy parts of the rule invariant --------------------------------------------------------------- *)

Lemma import_state_ok castling ep player st0 st :
  castling_field castling castling state_default = Ok st0 -> ep_field ep player st0 = Ok st ->
  state_ok st.
Proof.
  intros Hc He. apply castling_field_ep in Hc. cbn [state_default st_ep] in Hc.
  pose proof (ep_field_cases ep player st0) as H. rewrite He in H. unfold state_ok.
  destruct H as [->|(f & Hf & ->)]; [lia|]. cbn [set_ep st_ep]. lia.
Qed.

Theorem import_rule_easy : forall s g, import s = Ok g ->
  g_states g <> [] /\ length (g_states g) = 1%nat /\ g_moves g = []
  /\ state_ok (gstate_of g)
  /\ valid (g_wking g) /\ valid (g_bking g)
  /\ bget (g_board g) (g_wking g) = Some (mkPiece King White)
  /\ bget (g_board g) (g_bking g) = Some (mkPiece King Black).
Proof.
  intros s g H. destruct (import_ok_inv s g H) as [pieces side castling ep rest a player st0 st wk bk
    Hsplit Hpl Hrow Hcol Hside Hcast Hep Hcnt Hwk Hbk ->].
  pose proof (import_acc_inv pieces a Hpl Hrow Hcol) as Hinv.
  destruct (ai_wk _ _ _ Hinv wk Hwk) as [Hvw Hbw]. destruct (ai_bk _ _ _ Hinv bk Hbk) as [Hvb Hbb].
  rewrite update_phase_states, update_phase_gstate, update_phase_moves, update_phase_wking,
    update_phase_bking, update_phase_board.
  cbn [import_game g_states g_moves g_wking g_bking g_board length].
  change (gstate_of (import_game a player st wk bk)) with st.
  repeat split; try assumption; try discriminate; try apply Hvw; try apply Hvb.
  - exact (proj1 (import_state_ok castling ep player st0 st Hcast Hep)).
  - exact (proj2 (import_state_ok castling ep player st0 st Hcast Hep)).
Qed.
Print Assumptions import_rule_easy.
