(* C11, the "and legal moves" clause: the game obtained by importing the exported text has the same legal moves as the
   game that was exported. Composition of the round trip (TopCore.v: same position, same hash) with the exactness of
   the checked move list (LegalMoves.v: the checked list is, as UCI texts, a permutation of the rules' legal moves of the
   position). Two hypotheses stay explicit, hence `_partial`:
     - sane (abs g): the exported position is sane (proved for imports, not yet as an invariant of legal play:
       "no pawn on a back rank" and the en-passant clause of Rules.sane are not carried by LegalInv);
     - Fits g': the re-imported game's untruncated list fits the buffer (Fits is stated on the concrete game; that it is
       a function of abs g is not proved).
   Both are computable and hold on the examples below. *)
From Coq Require Import Lia List Permutation.
From Chess Require Import Model.Text Spec.Rules Spec.FenSpec Spec.HashSpec Spec.EvalSpec Spec.Notation.
From Chess Require Import Proofs.Grid Proofs.Inv Proofs.Abs Proofs.GenOk Proofs.PushPop Proofs.PushPop2 Proofs.Reach
  Proofs.TextProofs Proofs.TextGen Proofs.TopCore Proofs.LegalMoves.
Import ListNotations.
Open Scope Z_scope.

(* the re-imported game is itself the start of legal play *)
Lemma reimport_legal_reachable g g' :
  legal_reachable g -> sane (abs g) = true -> import (fen g) = Ok g' ->
  legal_reachable g' /\ abs g' = abs g /\ g_hash g' = g_hash g.
Proof.
  intros Hr Hs Hi. destruct (top_fen_roundtrip_legal g Hr) as (g2 & Hi2 & Ha & Hh).
  rewrite Hi in Hi2. injection Hi2 as <-.
  split; [|split; [exact Ha | exact Hh]].
  apply (lr_import (fen g) g' Hi). rewrite Ha. exact Hs.
Qed.

Theorem fen_roundtrip_moves g g' :
  legal_reachable g -> Fits g -> sane (abs g) = true -> import (fen g) = Ok g' -> Fits g' ->
  abs g' = abs g /\ g_hash g' = g_hash g
  /\ Permutation (map uci (checked_moves g')) (map uci (checked_moves g)).
Proof.
  intros Hr HF Hs Hi HF'.
  destruct (reimport_legal_reachable g g' Hr Hs Hi) as (Hr' & Ha & Hh).
  split; [exact Ha|]. split; [exact Hh|].
  pose proof (C01_checked_exact g (legal_reachable_legalinv g Hr) HF) as P.
  pose proof (C01_checked_exact g' (legal_reachable_legalinv g' Hr') HF') as P'.
  rewrite Ha in P'. exact (Permutation_trans P' (Permutation_sym P)).
Qed.
Print Assumptions fen_roundtrip_moves.

(* without the buffer premise on the re-imported game: re-import adds no move and repeats none (soundness of the checked
   list on g' needs no Fits; completeness is only used on g) *)
Theorem fen_roundtrip_moves_incl g g' :
  legal_reachable g -> Fits g -> sane (abs g) = true -> import (fen g) = Ok g' ->
  incl (map uci (checked_moves g')) (map uci (checked_moves g)) /\ NoDup (map uci (checked_moves g')).
Proof.
  intros Hr HF Hs Hi.
  destruct (reimport_legal_reachable g g' Hr Hs Hi) as (Hr' & Ha & _).
  pose proof (legal_reachable_legalinv g Hr) as HL. pose proof (legal_reachable_legalinv g' Hr') as HL'.
  split; [|now apply C01_checked_nodup].
  intros x Hx. apply in_map_iff in Hx. destruct Hx as (m & <- & Hin).
  pose proof (checked_sound g' m HL' Hin) as Hl. rewrite Ha in Hl.
  destruct (checked_complete g (abs_move m) HL HF Hl) as (m0 & Hin0 & Hm0).
  apply in_map_iff. exists m0. split; [|exact Hin0].
  rewrite (generated_uci_is_standard g true m0 (LegalInv_repinv g HL) Hin0).
  rewrite (generated_uci_is_standard g' true m (LegalInv_repinv g' HL') Hin).
  now rewrite Hm0.
Qed.
Print Assumptions fen_roundtrip_moves_incl.

(* the exported text always re-imports (no hypothesis beyond legal play), so the theorem's import premise is met *)
Lemma fen_reimports g : legal_reachable g -> exists g', import (fen g) = Ok g'.
Proof. intros Hr. destruct (top_fen_roundtrip_legal g Hr) as (g' & Hi & _). now exists g'. Qed.

(* non-vacuity: every premise holds for the start position and for Kiwipete *)
Definition premises_b (g : game) : bool :=
  sane (abs g)
  && match import (fen g) with
     | Ok g' => Nat.leb (length (pseudo_moves_all g')) (Z.to_nat MOVE_BUFFER_CAP)
     | _ => false
     end.

Lemma premises_b_ok g :
  premises_b g = true -> sane (abs g) = true /\ exists g', import (fen g) = Ok g' /\ Fits g'.
Proof.
  unfold premises_b. intros H. apply Bool.andb_true_iff in H. destruct H as [Hs H]. split; [exact Hs|].
  destruct (import (fen g)) as [g' | c | c]; try discriminate. exists g'. split; [reflexivity | now apply Fits_b].
Qed.

Example start_premises : premises_b START = true.
Proof. vm_compute. reflexivity. Qed.
Example kiwipete_premises : premises_b KIWIPETE = true.
Proof. vm_compute. reflexivity. Qed.
