(* C11, the "and legal moves" clause: the game obtained by importing the exported text has the same legal moves as the
   game that was exported. Composition of the round trip (TopCore.v: same position, same hash) with the exactness of
   the checked move list (LegalMoves.v: the checked list is, as UCI texts, a permutation of the rules' legal moves of the
   position).
   First part: under the premise sane (abs g) the re-imported game is a legal_reachable game (lr_import).
   Second part: no sanity premise - the invariant of legal play (LegalInv) is carried over the round trip directly
   (reimport_legalinv), which is all the move theorems need. The premise left is Fits g' (the re-imported game's
   untruncated list fits the buffer: Fits is stated on the concrete game; that it is a function of abs g is not
   proved); without it the inclusion half still holds. All premises are computable and hold on the examples below. *)
From Coq Require Import Lia List Permutation.
From Chess Require Import Model.Text Spec.Rules Spec.FenSpec Spec.HashSpec Spec.EvalSpec Spec.Notation.
From Chess Require Import Proofs.FenImport1 Proofs.FenImport2 Proofs.Grid Proofs.Inv Proofs.Abs Proofs.GenOk Proofs.PushPop Proofs.PushPop2 Proofs.Reach
  Proofs.TextProofs Proofs.TextGen Proofs.TopCore Proofs.LegalMoves.
Import ListNotations.
Open Scope Z_scope.

(* the re-imported game is itself the start of legal play *)
Lemma reimport_legal_reachable g g' :
  legal_reachable g -> sane (abs g) = true -> import (fen g) = Ok g' ->
  legal_reachable g' /\ abs g' = abs g /\ g_hash g' = g_hash g.
Proof.
  intros Hr Hs Hi. destruct (top_fen_roundtrip_legal g Hr) as (g2 & Hi2 & Ha & Hh).
  rewrite Hi in Hi2. injection Hi2 as <-.
  split; [|split; [exact Ha | exact Hh]].
  apply (lr_import (fen g) g' Hi). rewrite Ha. exact Hs.
Qed.

Theorem fen_roundtrip_moves g g' :
  legal_reachable g -> Fits g -> sane (abs g) = true -> import (fen g) = Ok g' -> Fits g' ->
  abs g' = abs g /\ g_hash g' = g_hash g
  /\ Permutation (map uci (checked_moves g')) (map uci (checked_moves g)).
Proof.
  intros Hr HF Hs Hi HF'.
  destruct (reimport_legal_reachable g g' Hr Hs Hi) as (Hr' & Ha & Hh).
  split; [exact Ha|]. split; [exact Hh|].
  pose proof (C01_checked_exact g (legal_reachable_legalinv g Hr) HF) as P.
  pose proof (C01_checked_exact g' (legal_reachable_legalinv g' Hr') HF') as P'.
  rewrite Ha in P'. exact (Permutation_trans P' (Permutation_sym P)).
Qed.
Print Assumptions fen_roundtrip_moves.

(* without the buffer premise on the re-imported game: re-import adds no move and repeats none (soundness of the checked
   list on g' needs no Fits; completeness is only used on g) *)
Theorem fen_roundtrip_moves_incl g g' :
  legal_reachable g -> Fits g -> sane (abs g) = true -> import (fen g) = Ok g' ->
  incl (map uci (checked_moves g')) (map uci (checked_moves g)) /\ NoDup (map uci (checked_moves g')).
Proof.
  intros Hr HF Hs Hi.
  destruct (reimport_legal_reachable g g' Hr Hs Hi) as (Hr' & Ha & _).
  pose proof (legal_reachable_legalinv g Hr) as HL. pose proof (legal_reachable_legalinv g' Hr') as HL'.
  split; [|now apply C01_checked_nodup].
  intros x Hx. apply in_map_iff in Hx. destruct Hx as (m & <- & Hin).
  pose proof (checked_sound g' m HL' Hin) as Hl. rewrite Ha in Hl.
  destruct (checked_complete g (abs_move m) HL HF Hl) as (m0 & Hin0 & Hm0).
  apply in_map_iff. exists m0. split; [|exact Hin0].
  rewrite (generated_uci_is_standard g true m0 (LegalInv_repinv g HL) Hin0).
  rewrite (generated_uci_is_standard g' true m (LegalInv_repinv g' HL') Hin).
  now rewrite Hm0.
Qed.
Print Assumptions fen_roundtrip_moves_incl.

(* ---- without the sanity premise: the invariant of legal play itself is carried over the round trip ------------------- *)

Lemma abs_eq_parts g g' :
  abs g' = abs g ->
  g_board g' = g_board g /\ g_player g' = g_player g
  /\ st_wk (gstate_of g') = st_wk (gstate_of g) /\ st_wq (gstate_of g') = st_wq (gstate_of g)
  /\ st_bk (gstate_of g') = st_bk (gstate_of g) /\ st_bq (gstate_of g') = st_bq (gstate_of g)
  /\ abs_ep (gstate_of g') = abs_ep (gstate_of g).
Proof.
  unfold abs, abs_rights. intros H. injection H as Hb Hp Hwk Hwq Hbk Hbq He. repeat split; assumption.
Qed.

Theorem reimport_legalinv g g' :
  legal_reachable g -> import (fen g) = Ok g' ->
  LegalInv g' /\ abs g' = abs g /\ g_hash g' = g_hash g.
Proof.
  intros Hr Hi. destruct (top_fen_roundtrip_legal g Hr) as (g2 & Hi2 & Ha & Hh).
  rewrite Hi in Hi2. injection Hi2 as <-.
  split; [|split; [exact Ha | exact Hh]].
  pose proof (legal_reachable_legalinv g Hr) as HL.
  pose proof HL as ((HR & HK) & KP & NC). pose proof HR as [_ HRule].
  destruct (LegalInv_kings g HL) as [KW KB].
  destruct (import_rule_easy _ g' Hi) as (H1 & _ & _ & H2 & H3 & H4 & H5 & H6).
  destruct (abs_eq_parts g g' Ha) as (Eb & Ep & Ewk & Ewq & Ebk & Ebq & Eep).
  (* the cached king squares agree *)
  assert (EK : forall c, king_pos g' c = king_pos g c).
  { intros c. symmetry. destruct c; cbn [king_pos].
    - apply (ri_kings g HRule (g_wking g') White H3). rewrite <- Eb. exact H5.
    - apply (ri_kings g HRule (g_bking g') Black H4). rewrite <- Eb. exact H6. }
  assert (EKE : forall c, king_exists g' c = king_exists g c).
  { intros c. rewrite !king_exists_eq. now rewrite EK, Eb. }
  assert (HRule' : RuleInv g').
  { constructor; try assumption.
    - intros p c Hp Hk. rewrite EK. rewrite Eb in Hk. exact (ri_kings g HRule p c Hp Hk).
    - intros c Hc. rewrite EKE in Hc. pose proof (ri_castle g HRule c Hc) as HC.
      rewrite Eb. destruct c; [rewrite Ewk, Ewq | rewrite Ebk, Ebq]; exact HC.
    - intros Hlt. unfold abs_ep in Eep.
      replace (st_ep (gstate_of g') <? 8) with true in Eep by (symmetry; now apply Z.ltb_lt).
      destruct (st_ep (gstate_of g) <? 8) eqn:E; [|discriminate]. injection Eep as Eep.
      apply Z.ltb_lt in E. rewrite Eb, Ep, Eep. exact (ri_ep g HRule E). }
  assert (HG' : Good g').
  { split; [split; [exact (import_cache _ g' Hi) | exact HRule']|]. apply KingsInv_intro; assumption. }
  split; [exact HG'|]. split.
  - rewrite EKE, Ep. exact KP.
  - unfold NotInCheck. rewrite <- (in_check_other g' HG'), Ha, Ep, (in_check_other g (conj HR HK)). exact NC.
Qed.
Print Assumptions reimport_legalinv.

(* the "and legal moves" clause with the buffer bounds as the only premises *)
Theorem fen_roundtrip_moves_fits g g' :
  legal_reachable g -> Fits g -> import (fen g) = Ok g' -> Fits g' ->
  Permutation (map uci (checked_moves g')) (map uci (checked_moves g)).
Proof.
  intros Hr HF Hi HF'. destruct (reimport_legalinv g g' Hr Hi) as (HL' & Ha & _).
  pose proof (C01_checked_exact g (legal_reachable_legalinv g Hr) HF) as P.
  pose proof (C01_checked_exact g' HL' HF') as P'.
  rewrite Ha in P'. exact (Permutation_trans P' (Permutation_sym P)).
Qed.
Print Assumptions fen_roundtrip_moves_fits.

(* and the inclusion half with the bound on the exported game only *)
Theorem fen_roundtrip_moves_incl_fits g g' :
  legal_reachable g -> Fits g -> import (fen g) = Ok g' ->
  incl (map uci (checked_moves g')) (map uci (checked_moves g)) /\ NoDup (map uci (checked_moves g')).
Proof.
  intros Hr HF Hi. destruct (reimport_legalinv g g' Hr Hi) as (HL' & Ha & _).
  pose proof (legal_reachable_legalinv g Hr) as HL.
  split; [|now apply C01_checked_nodup].
  intros x Hx. apply in_map_iff in Hx. destruct Hx as (m & <- & Hin).
  pose proof (checked_sound g' m HL' Hin) as Hl. rewrite Ha in Hl.
  destruct (checked_complete g (abs_move m) HL HF Hl) as (m0 & Hin0 & Hm0).
  apply in_map_iff. exists m0. split; [|exact Hin0].
  rewrite (generated_uci_is_standard g true m0 (LegalInv_repinv g HL) Hin0).
  rewrite (generated_uci_is_standard g' true m (LegalInv_repinv g' HL') Hin).
  now rewrite Hm0.
Qed.
Print Assumptions fen_roundtrip_moves_incl_fits.

(* the exported text always re-imports (no hypothesis beyond legal play), so the theorem's import premise is met *)
Lemma fen_reimports g : legal_reachable g -> exists g', import (fen g) = Ok g'.
Proof. intros Hr. destruct (top_fen_roundtrip_legal g Hr) as (g' & Hi & _). now exists g'. Qed.

(* non-vacuity: every premise holds for the start position and for Kiwipete *)
Definition premises_b (g : game) : bool :=
  sane (abs g)
  && match import (fen g) with
     | Ok g' => Nat.leb (length (pseudo_moves_all g')) (Z.to_nat MOVE_BUFFER_CAP)
     | _ => false
     end.

Lemma premises_b_ok g :
  premises_b g = true -> sane (abs g) = true /\ exists g', import (fen g) = Ok g' /\ Fits g'.
Proof.
  unfold premises_b. intros H. apply Bool.andb_true_iff in H. destruct H as [Hs H]. split; [exact Hs|].
  destruct (import (fen g)) as [g' | c | c]; try discriminate. exists g'. split; [reflexivity | now apply Fits_b].
Qed.

Example start_premises : premises_b START = true.
Proof. vm_compute. reflexivity. Qed.
Example kiwipete_premises : premises_b KIWIPETE = true.
Proof. vm_compute. reflexivity. Qed.
