(* C02: playing a move in the engine model produces the position the rules prescribe.
   abs (push g m) = Rules.apply (abs g) (abs_move m), component by component (board, side to
   move, castling rights, recorded en passant file), and the lifting to move sequences. *)
From Coq Require Import Lia String.
From Chess Require Import Model.Text Spec.Rules Proofs.Grid Proofs.Inv Proofs.Abs.
Open Scope Z_scope.
Open Scope bool_scope.

(* ---- small tools ------------------------------------------------------------------------------- *)

Lemma pos_eqb_neq a b : pos_eqb a b = false -> a <> b.
Proof. intros H ->. rewrite pos_eqb_refl in H. discriminate. Qed.

Ltac pos_cases :=
  repeat match goal with
  | |- context [pos_eqb ?a ?b] =>
      let E := fresh "E" in destruct (pos_eqb a b) eqn:E;
      [apply pos_eqb_eq in E | apply pos_eqb_neq in E]
  end.

Lemma gget_gset (b : board) p q v :
  wf_grid b -> valid p ->
  grid_get (grid_set b p v) q None = if pos_eqb p q then v else grid_get b q None.
Proof.
  intros Hwf Hv. destruct (pos_eqb p q) eqn:E.
  - apply pos_eqb_eq in E. subst q. now apply grid_get_set_same.
  - apply grid_get_set_other. now apply pos_eqb_neq.
Qed.

Ltac side :=
  first [ assumption
        | solve [repeat apply wf_grid_set; assumption]
        | solve [split; cbn [fst snd]; lia] ].

(* reading outside the board gives the default *)
Lemma znth_neg {A} (l : list A) i d : i < 0 -> znth l i d = d.
Proof.
  revert i; induction l as [|x t IH]; intros i Hi; cbn [znth]; [reflexivity|].
  destruct (i =? 0) eqn:E; [apply Z.eqb_eq in E; lia|]. apply IH. lia.
Qed.

Lemma znth_big {A} (l : list A) i d : Z.of_nat (length l) <= i -> znth l i d = d.
Proof.
  revert i; induction l as [|x t IH]; intros i Hi; cbn [znth]; [reflexivity|]. cbn [length] in Hi.
  destruct (i =? 0) eqn:E; [apply Z.eqb_eq in E; lia|]. apply IH. lia.
Qed.

Lemma at_off_left (b : board) r c : c < 0 -> at_ b (r, c) = None.
Proof. intros H. unfold at_, grid_get. cbn [fst snd]. now apply znth_neg. Qed.

Lemma at_off_right (b : board) r c : wf_grid b -> 0 <= r < 8 -> 8 <= c -> at_ b (r, c) = None.
Proof.
  intros Hwf Hr H. unfold at_, grid_get. cbn [fst snd]. apply znth_big.
  rewrite (wf_row b r Hwf Hr). lia.
Qed.

Lemma at_minus_one (b : board) r : at_ b (r, -1) = None.
Proof. apply at_off_left. lia. Qed.

Lemma at_eight (b : board) r : wf_grid b -> 0 <= r < 8 -> at_ b (r, 8) = None.
Proof. intros. apply at_off_right; auto. lia. Qed.

Lemma position_ext p q :
  p_board p = p_board q -> p_turn p = p_turn q -> p_rights p = p_rights q -> p_ep p = p_ep q -> p = q.
Proof. destruct p, q. cbn. intros -> -> -> ->. reflexivity. Qed.

(* ---- what push does to the board, the side and the state ------------------------------------------- *)

Definition rook_chain (s : pos) (st : gstate) : gstate :=
  if pos_eqb s (0, 0) then set_wq st false
  else if pos_eqb s (0, 7) then set_wk st false
  else if pos_eqb s (7, 0) then set_bq st false
  else if pos_eqb s (7, 7) then set_bk st false
  else st.

Definition normal_mid (pc : piece) (s : pos) (player : color) (st : gstate) : gstate :=
  if kind_eqb (pk pc) King then clear_rights st player
  else if kind_eqb (pk pc) Rook then rook_chain s st else st.

Definition normal_ep (b' : board) (pc : piece) (s e : pos) (st : gstate) : gstate :=
  if kind_eqb (pk pc) Pawn && (Z.abs (fst e - fst s) =? 2) then
    let left := if 0 <? snd e then is_enemy_pawn (bget b' (fst e, snd e - 1)) (po pc) else false in
    let right := if snd e <? 7 then is_enemy_pawn (bget b' (fst e, snd e + 1)) (po pc) else false in
    if left || right then set_ep st (snd s) else st
  else st.

Definition push_board (b : board) (m : Move) : board :=
  match m with
  | Normal pc s e _ => bset (bset b s None) e (Some pc)
  | Promotion o np s e _ => bset (bset b s None) e (Some (mkPiece np o))
  | EnPassant o sc ec =>
      bset (bset (bset b (fst (ep_rows o), ec) None) (fst (ep_rows o), sc) None)
           (snd (ep_rows o), ec) (Some (mkPiece Pawn o))
  | CastlingLong o =>
      bset (bset (bset (bset b (home_row o, 0) None) (home_row o, 4) None)
                 (home_row o, 3) (Some (mkPiece Rook o))) (home_row o, 2) (Some (mkPiece King o))
  | CastlingShort o =>
      bset (bset (bset (bset b (home_row o, 7) None) (home_row o, 4) None)
                 (home_row o, 5) (Some (mkPiece Rook o))) (home_row o, 6) (Some (mkPiece King o))
  end.

Definition push_state (g : game) (m : Move) : gstate :=
  let st := set_ep (gstate_of g) 8 in
  match m with
  | Normal pc s e cap =>
      normal_ep (push_board (g_board g) m) pc s e
                (revoke_captured (normal_mid pc s (g_player g) st) cap e)
  | Promotion _ _ _ e cap => revoke_captured st cap e
  | EnPassant _ _ _ => st
  | CastlingLong _ | CastlingShort _ => clear_rights st (g_player g)
  end.

Lemma push_board_eq g m : g_board (push g m) = push_board (g_board g) m.
Proof.
  destruct g as [sc pl ms eg h b ps ph ke wk bk sts].
  destruct m as [pc s e cap|o np s e cap|o|o|o sc' ec]; try reflexivity.
  - unfold push. destruct (kind_eqb (pk pc) King); [destruct pl; reflexivity|].
    destruct (kind_eqb (pk pc) Rook); reflexivity.
  - destruct pl; reflexivity.
  - destruct pl; reflexivity.
  - destruct o; reflexivity.
Qed.

Lemma push_player g m : g_player (push g m) = other (g_player g).
Proof.
  destruct g as [sc pl ms eg h b ps ph ke wk bk sts].
  destruct m as [pc s e cap|o np s e cap|o|o|o sc' ec]; try reflexivity.
  - unfold push. destruct (kind_eqb (pk pc) King); [destruct pl; reflexivity|].
    destruct (kind_eqb (pk pc) Rook); reflexivity.
  - destruct pl; reflexivity.
  - destruct pl; reflexivity.
  - destruct o; reflexivity.
Qed.

Lemma push_gstate g m : gstate_of (push g m) = push_state g m.
Proof.
  destruct g as [sc pl ms eg h b ps ph ke wk bk sts].
  destruct m as [pc s e cap|o np s e cap|o|o|o sc' ec]; try reflexivity.
  - unfold push, push_state, normal_mid, normal_ep, rook_chain.
    destruct (kind_eqb (pk pc) King); [destruct pl; reflexivity|].
    destruct (kind_eqb (pk pc) Rook); reflexivity.
  - destruct pl; reflexivity.
  - destruct pl; reflexivity.
  - destruct o; reflexivity.
Qed.

(* ---- additional facts about generated moves that gen_ok does not contain ------------------------------ *)

Definition Extra (g : game) (m : Move) : Prop :=
  match m with
  | Normal pc s e cap =>
      (* a Normal king move is a king step *)
      (pk pc = King -> Z.abs (snd e - snd s) <= 1)
      (* a Normal pawn move to an empty square stays on its file *)
      /\ (pk pc = Pawn -> cap = None -> snd e = snd s)
  | Promotion o k s e cap =>
      (* a promoting pawn advances one row *)
      Z.abs (fst e - fst s) = 1
  | _ => True
  end.

(* ---- the special-move tests of the specification on engine moves ---------------------------------------- *)

Lemma has_some (b : board) p pc k c :
  at_ b p = Some pc -> has b p k c = kind_eqb (pk pc) k && color_eqb (po pc) c.
Proof. intros H. unfold has. now rewrite H. Qed.

Lemma has_true (b : board) p k c : has b p k c = true -> at_ b p = Some (mkPiece k c).
Proof.
  unfold has. destruct (at_ b p) as [[k' c']|]; [|discriminate]. cbn [pk po].
  intros H. apply andb_true_iff in H. destruct H as [H1 H2].
  apply kind_eqb_eq in H1. apply color_eqb_eq in H2. now subst.
Qed.

Lemma has_piece (b : board) p k c : at_ b p = Some (mkPiece k c) -> has b p k c = true.
Proof. intros H. rewrite (has_some _ _ _ _ _ H). cbn [pk po]. now rewrite kind_eqb_refl, color_eqb_refl. Qed.

Lemma normal_not_castling g pc s e :
  bget (g_board g) s = Some pc -> (pk pc = King -> Z.abs (snd e - snd s) <= 1) ->
  is_castling (abs g) (mkSMove s e None) = None.
Proof.
  intros Hs Hk. unfold is_castling. cbn [abs p_board p_turn m_from m_to].
  destruct (has (g_board g) s King (g_player g) && pos_eqb s (back_rank (g_player g), 4)) eqn:H; [|reflexivity].
  apply andb_true_iff in H. destruct H as [H1 H2].
  apply has_true in H1. unfold at_ in H1. unfold bget in Hs. rewrite Hs in H1. injection H1 as ->.
  apply pos_eqb_eq in H2. subst s. specialize (Hk eq_refl). cbn [snd] in Hk.
  pos_cases; subst; cbn [snd] in Hk; try lia. reflexivity.
Qed.

Lemma normal_not_ep g pc s e cap :
  bget (g_board g) s = Some pc -> bget (g_board g) e = cap ->
  (pk pc = Pawn -> cap = None -> snd e = snd s) ->
  is_en_passant (abs g) (mkSMove s e None) = false.
Proof.
  intros Hs He Hp. destruct (is_en_passant (abs g) (mkSMove s e None)) eqn:H; [exfalso|reflexivity].
  unfold is_en_passant in H. cbn [abs p_board p_turn p_ep m_from m_to] in H.
  repeat (apply andb_true_iff in H; destruct H as [H ?]).
  apply has_true in H. unfold at_ in H. unfold bget in Hs. rewrite Hs in H. injection H as ->.
  assert (cap = None) as Hc.
  { unfold empty, at_ in *. unfold bget in He. rewrite He in *. destruct cap; [discriminate|reflexivity]. }
  specialize (Hp eq_refl Hc). rewrite Hp in *.
  match goal with X : (Z.abs _ =? 1) = true |- _ => apply Z.eqb_eq in X; lia end.
Qed.

Lemma apply_board_plain p m :
  is_castling p m = None -> is_en_passant p m = false ->
  p_board (Rules.apply p m)
  = put (put (p_board p) (m_from m) None) (m_to m)
        (match m_promo m, at_ (p_board p) (m_from m) with
         | Some k, Some _ => Some (mkPiece k (p_turn p))
         | _, _ => at_ (p_board p) (m_from m)
         end).
Proof. intros H1 H2. unfold Rules.apply. cbn [p_board]. rewrite H1, H2. reflexivity. Qed.

Lemma apply_board_gen p m :
  p_board (Rules.apply p m)
  = let a := m_from m in
    let t := m_to m in
    let placed := match m_promo m, at_ (p_board p) a with
                  | Some k, Some _ => Some (mkPiece k (p_turn p))
                  | _, _ => at_ (p_board p) a
                  end in
    let b1 := put (put (p_board p) a None) t placed in
    let b2 := match is_castling p m with
              | Some true => put (put b1 (fst a, 7) None) (fst a, 5) (Some (mkPiece Rook (p_turn p)))
              | Some false => put (put b1 (fst a, 0) None) (fst a, 3) (Some (mkPiece Rook (p_turn p)))
              | None => b1
              end in
    if is_en_passant p m then put b2 (fst a, snd t) None else b2.
Proof. reflexivity. Qed.

Lemma apply_turn p m : p_turn (Rules.apply p m) = other (p_turn p).
Proof. reflexivity. Qed.

Lemma apply_rights p m : p_rights (Rules.apply p m) = rights_after (p_rights p) m.
Proof. reflexivity. Qed.

Lemma apply_ep p m :
  p_ep (Rules.apply p m)
  = if (has (p_board p) (m_from m) Pawn (p_turn p) && (Z.abs (fst (m_to m) - fst (m_from m)) =? 2))
       && (has (p_board (Rules.apply p m)) (fst (m_to m), snd (m_to m) - 1) Pawn (other (p_turn p))
           || has (p_board (Rules.apply p m)) (fst (m_to m), snd (m_to m) + 1) Pawn (other (p_turn p)))
    then Some (snd (m_from m)) else None.
Proof. reflexivity. Qed.

(* ---- part 1: the board and the side to move ---------------------------------------------------------------- *)

Lemma valid_home o f : 0 <= f < 8 -> valid (home_row o, f).
Proof. intros H. destruct o; split; cbn [fst snd home_row]; lia. Qed.

Theorem push_board_is_apply g m :
  RepInv g -> gen_ok g m -> Extra g m ->
  g_board (push g m) = p_board (Rules.apply (abs g) (abs_move m)).
Proof.
  intros [CI RI] Hgen Hex. pose proof (ci_board g CI) as Hwf.
  rewrite push_board_eq.
  destruct m as [pc s e cap|o np s e cap|o|o|o sc ec]; cbn [abs_move push_board].
  - (* Normal *)
    destruct Hgen as (Vs & Ve & Hse & Hs & He & Hpo & Hcap). destruct Hex as [Hx1 Hx2].
    rewrite apply_board_plain;
      [ | apply (normal_not_castling g pc s e); assumption
        | apply (normal_not_ep g pc s e cap); assumption ].
    cbn [abs p_board m_from m_to m_promo]. unfold at_. unfold bget in Hs. rewrite Hs. reflexivity.
  - (* Promotion *)
    destruct Hgen as (Ho & Hk & Vs & Ve & Hse & Hrow & Hs & He & Hcap).
    assert (is_castling (abs g) (mkSMove s e (Some np)) = None) as H1.
    { unfold is_castling. cbn [abs p_board p_turn m_from m_to].
      rewrite (has_some _ _ _ _ _ Hs). reflexivity. }
    assert (is_en_passant (abs g) (mkSMove s e (Some np)) = false) as H2.
    { unfold is_en_passant. cbn [abs p_board p_turn p_ep m_from m_to]. rewrite <- Ho.
      replace (fst e =? ep_from_rank o + pawn_dir o) with false.
      - now rewrite andb_false_r.
      - symmetry. apply Z.eqb_neq. rewrite Hrow. destruct o; cbn; lia. }
    rewrite apply_board_plain by assumption.
    cbn [abs p_board p_turn m_from m_to m_promo]. unfold at_. unfold bget in Hs. rewrite Hs, Ho. reflexivity.
  - (* CastlingShort *)
    destruct Hgen as (Ho & Hkp & Hk & Hr & H5 & H6).
    assert (is_castling (abs g) (mkSMove (home_row o, 4) (home_row o, 6) None) = Some true) as H1.
    { unfold is_castling. cbn [abs p_board p_turn m_from m_to]. rewrite <- Ho.
      rewrite (has_piece _ _ _ _ Hk). change (back_rank o) with (home_row o).
      now rewrite !pos_eqb_refl. }
    assert (is_en_passant (abs g) (mkSMove (home_row o, 4) (home_row o, 6) None) = false) as H2.
    { unfold is_en_passant. cbn [abs p_board p_turn p_ep m_from m_to].
      rewrite (has_some _ _ _ _ _ Hk). reflexivity. }
    rewrite apply_board_gen, H1, H2. cbv zeta.
    cbn [abs p_board p_turn m_from m_to m_promo fst snd]. unfold at_. unfold bget in Hk. rewrite Hk, <- Ho.
    unfold put, bset.
    apply (grid_ext _ _ None); [side | side |].
    intros p Hp. rewrite !gget_gset by (first [side | apply valid_home; lia]).
    destruct o; cbn [home_row]; pos_cases; subst; try reflexivity; congruence.
  - (* CastlingLong *)
    destruct Hgen as (Ho & Hkp & Hk & Hr & H1' & H2' & H3').
    assert (is_castling (abs g) (mkSMove (home_row o, 4) (home_row o, 2) None) = Some false) as H1.
    { unfold is_castling. cbn [abs p_board p_turn m_from m_to]. rewrite <- Ho.
      rewrite (has_piece _ _ _ _ Hk). change (back_rank o) with (home_row o).
      rewrite !pos_eqb_refl. cbn [andb].
      replace (pos_eqb (home_row o, 2) (home_row o, 6)) with false; [reflexivity|].
      destruct o; reflexivity. }
    assert (is_en_passant (abs g) (mkSMove (home_row o, 4) (home_row o, 2) None) = false) as H2.
    { unfold is_en_passant. cbn [abs p_board p_turn p_ep m_from m_to].
      rewrite (has_some _ _ _ _ _ Hk). reflexivity. }
    rewrite apply_board_gen, H1, H2. cbv zeta.
    cbn [abs p_board p_turn m_from m_to m_promo fst snd]. unfold at_. unfold bget in Hk. rewrite Hk, <- Ho.
    unfold put, bset.
    apply (grid_ext _ _ None); [side | side |].
    intros p Hp. rewrite !gget_gset by (first [side | apply valid_home; lia]).
    destruct o; cbn [home_row]; pos_cases; subst; try reflexivity; congruence.
  - (* EnPassant *)
    destruct Hgen as (Ho & Hsc & Hec & Habs & Hep & Hs & Hv & Ht).
    assert (is_castling (abs g) (mkSMove (fst (ep_rows o), sc) (snd (ep_rows o), ec) None) = None) as H1.
    { unfold is_castling. cbn [abs p_board p_turn m_from m_to].
      rewrite (has_some _ _ _ _ _ Hs). reflexivity. }
    assert (is_en_passant (abs g) (mkSMove (fst (ep_rows o), sc) (snd (ep_rows o), ec) None) = true) as H2.
    { unfold is_en_passant. cbn [abs p_board p_turn p_ep m_from m_to fst snd]. rewrite <- Ho.
      rewrite (has_piece _ _ _ _ Hs), (has_piece _ _ _ _ Hv).
      unfold empty, at_. unfold bget in Ht. rewrite Ht.
      unfold abs_ep. rewrite Hep.
      replace (ec <? 8) with true by (symmetry; apply Z.ltb_lt; lia).
      rewrite Z.eqb_refl.
      replace (Z.abs (ec - sc) =? 1) with true by (symmetry; apply Z.eqb_eq; lia).
      destruct o; reflexivity. }
    rewrite apply_board_gen, H1, H2. cbv zeta.
    cbn [abs p_board p_turn m_from m_to m_promo fst snd]. unfold at_. unfold bget in Hs. rewrite Hs.
    unfold put, bset. clear H1 H2 Hs Hv Ht.
    destruct o; cbn [ep_rows fst snd];
      (apply (grid_ext _ _ None); [side | side |]);
      intros p Hp; rewrite !gget_gset by side;
      pos_cases; subst; try reflexivity; congruence.
Qed.

Theorem push_turn_is_apply g m : g_player (push g m) = p_turn (Rules.apply (abs g) (abs_move m)).
Proof. rewrite push_player. reflexivity. Qed.

(* ---- part 2: the castling rights ---------------------------------------------------------------------------- *)

(* one right, by colour and wing, on both sides of the abstraction *)
Definition rt (c : color) (ks : bool) (st : gstate) : bool :=
  match c, ks with
  | White, true => st_wk st | White, false => st_wq st
  | Black, true => st_bk st | Black, false => st_bq st
  end.

Definition khome (c : color) : pos := (home_row c, 4).
Definition corner (c : color) (ks : bool) : pos := (home_row c, if ks then 7 else 0).

Lemma valid_khome c : valid (khome c).
Proof. destruct c; split; cbn; lia. Qed.

Lemma right_of_abs c ks st : right_of (abs_rights st) c ks = rt c ks st.
Proof. destruct c, ks; reflexivity. Qed.

Lemma rights_ext r1 r2 : (forall c ks, right_of r1 c ks = right_of r2 c ks) -> r1 = r2.
Proof.
  destruct r1, r2. intros H.
  pose proof (H White true) as H1. pose proof (H White false) as H2.
  pose proof (H Black true) as H3. pose proof (H Black false) as H4.
  cbn in H1, H2, H3, H4. now subst.
Qed.

Lemma right_of_after r m c ks :
  right_of (rights_after r m) c ks
  = right_of r c ks && negb (pos_eqb (m_from m) (khome c)) && negb (touches m (corner c ks)).
Proof. destruct c, ks; reflexivity. Qed.

Lemma rt_set_ep c ks st v : rt c ks (set_ep st v) = rt c ks st.
Proof. destruct c, ks; reflexivity. Qed.

Lemma rt_clear c ks st p : rt c ks (clear_rights st p) = rt c ks st && negb (color_eqb p c).
Proof. destruct c, ks, p; cbn; now rewrite ?andb_true_r, ?andb_false_r. Qed.

Lemma rt_chain c ks st s : rt c ks (rook_chain s st) = rt c ks st && negb (pos_eqb s (corner c ks)).
Proof.
  unfold rook_chain.
  destruct c, ks; unfold corner, home_row; cbv iota; pos_cases; cbn; rewrite ?andb_true_r, ?andb_false_r;
    try reflexivity; exfalso; congruence.
Qed.

Lemma rt_revoke c ks st cap e :
  rt c ks (revoke_captured st cap e) = rt c ks st && negb (is_rook_of cap c && pos_eqb e (corner c ks)).
Proof.
  unfold revoke_captured.
  destruct c, ks; destruct (is_rook_of cap White), (is_rook_of cap Black);
    unfold corner, home_row; cbv iota; pos_cases; cbn; cbn [negb andb]; rewrite ?andb_true_r, ?andb_false_r;
    try reflexivity; exfalso; congruence.
Qed.

Lemma rt_mid c ks pc s pl st :
  rt c ks (normal_mid pc s pl st)
  = rt c ks st && negb (kind_eqb (pk pc) King && color_eqb pl c)
    && negb (negb (kind_eqb (pk pc) King) && kind_eqb (pk pc) Rook && pos_eqb s (corner c ks)).
Proof.
  unfold normal_mid. destruct (kind_eqb (pk pc) King).
  - rewrite rt_clear. cbn [andb negb]. now rewrite andb_true_r.
  - destruct (kind_eqb (pk pc) Rook).
    + rewrite rt_chain. cbn [andb negb]. now rewrite andb_true_r.
    + cbn [andb negb]. now rewrite !andb_true_r.
Qed.

Lemma rt_normal_ep c ks b' pc s e st : rt c ks (normal_ep b' pc s e st) = rt c ks st.
Proof.
  unfold normal_ep. destruct (kind_eqb (pk pc) Pawn && (Z.abs (fst e - fst s) =? 2)); [|reflexivity].
  cbv zeta. match goal with |- context [if ?x then set_ep _ _ else _] => destruct x end;
    [apply rt_set_ep | reflexivity].
Qed.

(* ri_castle in the uniform form *)
Definition CastleInv (g : game) : Prop :=
  forall c ks, rt c ks (gstate_of g) = true ->
    bget (g_board g) (khome c) = Some (mkPiece King c)
    /\ bget (g_board g) (corner c ks) = Some (mkPiece Rook c).

Lemma castle_inv g :
  RuleInv g -> king_exists g White = true -> king_exists g Black = true -> CastleInv g.
Proof.
  intros RI KW KB c ks R.
  destruct c.
  - destruct (ri_castle g RI White KW) as [H1 H2]. destruct ks; [apply H1 | apply H2]; exact R.
  - destruct (ri_castle g RI Black KB) as [H1 H2]. destruct ks; [apply H1 | apply H2]; exact R.
Qed.

Lemma rt_normal g pc s e cap c ks :
  CastleInv g ->
  (forall p c, valid p -> bget (g_board g) p = Some (mkPiece King c) -> king_pos g c = p) ->
  valid s -> bget (g_board g) s = Some pc -> bget (g_board g) e = cap -> po pc = g_player g ->
  rt c ks (revoke_captured (normal_mid pc s (g_player g) (set_ep (gstate_of g) 8)) cap e)
  = rt c ks (gstate_of g) && negb (pos_eqb s (khome c))
    && negb (pos_eqb s (corner c ks) || pos_eqb e (corner c ks)).
Proof.
  intros HC HK Vs Hs He Hpo.
  rewrite rt_revoke, rt_mid, rt_set_ep.
  destruct (rt c ks (gstate_of g)) eqn:R; [|reflexivity].
  destruct (HC c ks R) as [Hk Hr]. cbn [andb].
  destruct (pos_eqb s (khome c)) eqn:E1.
  { apply pos_eqb_eq in E1. subst s. rewrite Hk in Hs. injection Hs as <-.
    cbn [pk po] in *. rewrite <- Hpo, color_eqb_refl. reflexivity. }
  destruct (pos_eqb s (corner c ks)) eqn:E2.
  { apply pos_eqb_eq in E2. subst s. rewrite Hr in Hs. injection Hs as <-.
    cbn [pk po kind_eqb negb andb orb]. reflexivity. }
  destruct (pos_eqb e (corner c ks)) eqn:E3.
  { apply pos_eqb_eq in E3. subst e. rewrite Hr in He. subst cap.
    unfold is_rook_of. cbn [pk po]. rewrite kind_eqb_refl, color_eqb_refl.
    cbn [andb negb orb]. now rewrite andb_false_r. }
  rewrite !andb_false_r. cbn [negb andb orb]. rewrite !andb_true_r.
  destruct (kind_eqb (pk pc) King) eqn:K; [|reflexivity].
  destruct (color_eqb (g_player g) c) eqn:C; [exfalso|reflexivity].
  apply kind_eqb_eq in K. apply color_eqb_eq in C.
  assert (pc = mkPiece King c) as -> by (destruct pc as [k' c']; cbn [pk po] in *; congruence).
  pose proof (HK s c Vs Hs) as P1. pose proof (HK (khome c) c (valid_khome c) Hk) as P2.
  rewrite P1 in P2. rewrite P2, pos_eqb_refl in E1. discriminate.
Qed.

Theorem push_rights_is_apply g m :
  RepInv g -> king_exists g White = true -> king_exists g Black = true -> gen_ok g m ->
  abs_rights (gstate_of (push g m)) = p_rights (Rules.apply (abs g) (abs_move m)).
Proof.
  intros [CI RI] KW KB Hgen.
  pose proof (castle_inv g RI KW KB) as HC.
  rewrite apply_rights, push_gstate. apply rights_ext. intros c ks.
  rewrite right_of_abs, right_of_after. cbn [abs p_rights]. rewrite right_of_abs. unfold touches.
  destruct m as [pc s e cap|o np s e cap|o|o|o sc ec]; cbn [abs_move push_state m_from m_to].
  - (* Normal *)
    destruct Hgen as (Vs & Ve & Hse & Hs & He & Hpo & Hcap).
    rewrite rt_normal_ep. apply rt_normal; auto. apply (ri_kings g RI).
  - (* Promotion *)
    destruct Hgen as (Ho & Hk & Vs & Ve & Hse & Hrow & Hs & He & Hcap).
    rewrite rt_revoke, rt_set_ep.
    destruct (rt c ks (gstate_of g)) eqn:R; [|reflexivity].
    destruct (HC c ks R) as [Hkg Hr]. cbn [andb].
    destruct (pos_eqb s (khome c)) eqn:E1.
    { apply pos_eqb_eq in E1. subst s. rewrite Hkg in Hs. discriminate. }
    destruct (pos_eqb s (corner c ks)) eqn:E2.
    { apply pos_eqb_eq in E2. subst s. rewrite Hr in Hs. discriminate. }
    destruct (pos_eqb e (corner c ks)) eqn:E3.
    { apply pos_eqb_eq in E3. subst e. rewrite Hr in He. subst cap.
      unfold is_rook_of. cbn [pk po]. now rewrite kind_eqb_refl, color_eqb_refl. }
    now rewrite andb_false_r.
  - (* CastlingShort *)
    destruct Hgen as (Ho & _). rewrite rt_clear, rt_set_ep, <- Ho.
    destruct (rt c ks (gstate_of g)); [|reflexivity].
    destruct o, c, ks; reflexivity.
  - (* CastlingLong *)
    destruct Hgen as (Ho & _). rewrite rt_clear, rt_set_ep, <- Ho.
    destruct (rt c ks (gstate_of g)); [|reflexivity].
    destruct o, c, ks; reflexivity.
  - (* EnPassant *)
    rewrite rt_set_ep.
    destruct (rt c ks (gstate_of g)); [|reflexivity].
    destruct o, c, ks; reflexivity.
Qed.

(* ---- part 3: the recorded en passant file ----------------------------------------------------------------------- *)

Lemma st_ep_clear st p : st_ep (clear_rights st p) = st_ep st.
Proof. destruct p; reflexivity. Qed.

Lemma st_ep_chain s st : st_ep (rook_chain s st) = st_ep st.
Proof. unfold rook_chain. pos_cases; reflexivity. Qed.

Lemma st_ep_mid pc s pl st : st_ep (normal_mid pc s pl st) = st_ep st.
Proof.
  unfold normal_mid. destruct (kind_eqb (pk pc) King); [apply st_ep_clear|].
  destruct (kind_eqb (pk pc) Rook); [apply st_ep_chain | reflexivity].
Qed.

Lemma st_ep_revoke st cap e : st_ep (revoke_captured st cap e) = st_ep st.
Proof.
  unfold revoke_captured. destruct (is_rook_of cap White), (is_rook_of cap Black); pos_cases; reflexivity.
Qed.

Lemma abs_ep_none st : st_ep st = 8 -> abs_ep st = None.
Proof. intros H. unfold abs_ep. rewrite H. reflexivity. Qed.

Lemma enemy_pawn_has (b : board) p c : is_enemy_pawn (bget b p) c = has b p Pawn (other c).
Proof.
  unfold is_enemy_pawn, has, at_, bget. destruct (grid_get b p None) as [[k c']|]; [|reflexivity].
  cbn [pk po]. destruct c', c; reflexivity.
Qed.

Lemma left_has (b : board) e c :
  (if 0 <? snd e then is_enemy_pawn (bget b (fst e, snd e - 1)) c else false)
  = has b (fst e, snd e - 1) Pawn (other c).
Proof.
  destruct (0 <? snd e) eqn:L; [apply enemy_pawn_has|].
  apply Z.ltb_ge in L. unfold has. rewrite at_off_left by lia. reflexivity.
Qed.

Lemma right_has (b : board) e c :
  wf_grid b -> valid e ->
  (if snd e <? 7 then is_enemy_pawn (bget b (fst e, snd e + 1)) c else false)
  = has b (fst e, snd e + 1) Pawn (other c).
Proof.
  intros Hwf [Hr Hc]. destruct (snd e <? 7) eqn:L; [apply enemy_pawn_has|].
  apply Z.ltb_ge in L. unfold has. rewrite at_off_right by (auto; lia). reflexivity.
Qed.

Theorem push_ep_is_apply g m :
  RepInv g -> gen_ok g m -> Extra g m ->
  abs_ep (gstate_of (push g m)) = p_ep (Rules.apply (abs g) (abs_move m)).
Proof.
  intros HR Hgen Hex. rewrite apply_ep, <- (push_board_is_apply g m HR Hgen Hex), push_board_eq, push_gstate.
  destruct HR as [CI RI]. pose proof (ci_board g CI) as Hwf.
  destruct m as [pc s e cap|o np s e cap|o|o|o sc ec];
    cbn [abs_move push_state m_from m_to abs p_board p_turn fst snd].
  - (* Normal *)
    destruct Hgen as (Vs & Ve & Hse & Hs & He & Hpo & Hcap).
    set (b' := push_board (g_board g) (Normal pc s e cap)).
    assert (wf_grid b') as Hwf' by (unfold b', push_board, bset; side).
    set (st1 := revoke_captured (normal_mid pc s (g_player g) (set_ep (gstate_of g) 8)) cap e).
    assert (st_ep st1 = 8) as H8 by (unfold st1; rewrite st_ep_revoke, st_ep_mid; reflexivity).
    rewrite (has_some _ _ _ _ _ Hs), Hpo, color_eqb_refl, andb_true_r.
    unfold normal_ep.
    destruct (kind_eqb (pk pc) Pawn && (Z.abs (fst e - fst s) =? 2)); cbn [andb]; [|now apply abs_ep_none].
    cbv zeta. rewrite left_has, (right_has b' e (po pc) Hwf' Ve), Hpo.
    destruct (has b' (fst e, snd e - 1) Pawn (other (g_player g))
              || has b' (fst e, snd e + 1) Pawn (other (g_player g))); [|now apply abs_ep_none].
    unfold abs_ep. cbn [set_ep st_ep]. destruct Vs as [_ Vc].
    replace (snd s <? 8) with true by (symmetry; apply Z.ltb_lt; lia). reflexivity.
  - (* Promotion *)
    destruct Hgen as (Ho & Hk & Vs & Ve & Hse & Hrow & Hs & He & Hcap). cbn in Hex.
    rewrite abs_ep_none by (rewrite st_ep_revoke; reflexivity).
    replace (Z.abs (fst e - fst s) =? 2) with false by (symmetry; apply Z.eqb_neq; lia).
    now rewrite andb_false_r.
  - (* CastlingShort *)
    destruct Hgen as (Ho & Hkp & Hk & _).
    rewrite abs_ep_none by (rewrite st_ep_clear; reflexivity).
    rewrite (has_some _ _ _ _ _ Hk). reflexivity.
  - (* CastlingLong *)
    destruct Hgen as (Ho & Hkp & Hk & _).
    rewrite abs_ep_none by (rewrite st_ep_clear; reflexivity).
    rewrite (has_some _ _ _ _ _ Hk). reflexivity.
  - (* EnPassant *)
    rewrite abs_ep_none by reflexivity.
    replace (Z.abs (snd (ep_rows o) - fst (ep_rows o)) =? 2) with false by (destruct o; reflexivity).
    now rewrite andb_false_r.
Qed.

(* ---- the main theorem --------------------------------------------------------------------------------------------- *)

Theorem push_is_apply g m :
  RepInv g -> king_exists g White = true -> king_exists g Black = true ->
  gen_ok g m -> Extra g m ->
  abs (push g m) = Rules.apply (abs g) (abs_move m).
Proof.
  intros HR KW KB Hgen Hex. apply position_ext.
  - apply push_board_is_apply; assumption.
  - apply push_turn_is_apply.
  - apply push_rights_is_apply; assumption.
  - apply push_ep_is_apply; assumption.
Qed.
Print Assumptions push_is_apply.

(* ---- move sequences ------------------------------------------------------------------------------------------------- *)

Inductive playable : game -> list Move -> Prop :=
| playable_nil g : playable g []
| playable_cons g m ms :
    RepInv g -> king_exists g White = true -> king_exists g Black = true ->
    gen_ok g m -> Extra g m -> playable (push g m) ms -> playable g (m :: ms).

Theorem push_sequence g ms :
  playable g ms ->
  abs (fold_left push ms g) = fold_left Rules.apply (map abs_move ms) (abs g).
Proof.
  intros H. induction H as [g | g m ms HR KW KB Hgen Hex Hp IH]; [reflexivity|].
  cbn [fold_left map]. rewrite IH. f_equal. now apply push_is_apply.
Qed.
Print Assumptions push_sequence.

(* ---- concrete checks ---------------------------------------------------------------------------------------------------
   The equality on every pseudo-legal move of two positions that exercise castling, en passant,
   promotion (also capturing a rook on its corner) and double pawn steps. *)

Definition push_apply_all (g : game) : Prop :=
  map (fun m => abs (push g m)) (pseudo_moves g)
  = map (fun m => Rules.apply (abs g) (abs_move m)) (pseudo_moves g).

Example push_apply_kiwipete : push_apply_all KIWIPETE.
Proof. vm_compute. reflexivity. Qed.

Definition SPECIALS : game :=
  imported (txt "r3k2r/1P6/8/2pP4/8/8/4P3/R3K2R w KQkq c6 0 1"%string).

Example push_apply_specials :
  forallb (fun m => existsb (move_eqb m) (pseudo_moves SPECIALS))
          [EnPassant White 3 2; CastlingShort White; CastlingLong White;
           Promotion White Queen (6, 1) (7, 0) (Some (mkPiece Rook Black));
           Normal (mkPiece Pawn White) (1, 4) (3, 4) None] = true
  /\ push_apply_all SPECIALS.
Proof. vm_compute. split; reflexivity. Qed.

(* The two king premises of push_is_apply cannot be dropped: once a king has been captured
   (possible only below a pseudo-legal move inside the search; the engine generates no moves
   for the king-less side) the engine keeps the castling right of the captured king, while the
   specification revokes it when the capturing piece leaves the king's home square. *)
Definition KINGLESS : game :=
  push (push (imported (txt "r3k2r/8/8/8/8/8/8/4Q2K w kq - 0 1"%string))
             (Normal (mkPiece Queen White) (0, 4) (7, 4) (Some (mkPiece King Black))))
       (Normal (mkPiece Rook Black) (7, 0) (6, 0) None).

Example king_premise_needed :
  let m := Normal (mkPiece Queen White) (7, 4) (6, 4) None in
  king_exists KINGLESS Black = false
  /\ r_bk (p_rights (abs (push KINGLESS m))) = true
  /\ r_bk (p_rights (Rules.apply (abs KINGLESS) (abs_move m))) = false.
Proof. vm_compute. repeat split; reflexivity. Qed.
