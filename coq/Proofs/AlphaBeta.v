(* C09: the optimised search (fail-hard quiescence, the depth-1 loop, the PVS node with killers,
   history, table stores and the node-entry poll, the root) run in table-less mode returns the
   value of the exhaustive reference search of Spec/Negamax.v.

   Organisation.  The search functions of Model/Search.v are re-stated over an abstract game
   interface (Section AB: the game type, the two move generators, [play], the stand-pat, the two
   king tests, the hash and the move log are variables; moves and the search state stay the
   concrete ones).  The concrete functions are instances of the abstract ones BY CONVERSION
   (lemmas [quiescence_is_aq], [depth1_is_ad1], [node_is_anode], [root_is_aroot], all proved by
   [reflexivity]), so nothing about chess is ever unfolded, and small abstract trees can be
   used for counterexamples.  *)
From Coq Require Import Lia Permutation FSets.FMapPositive Wf_nat.
From Chess Require Import Model.Search Spec.Negamax Model.RefSearch.

Open Scope Z_scope.

(* ------------------------------------------------------------------------------------------ *)
(* 1. sort_moves is a permutation; maxl is order independent                                     *)
(* ------------------------------------------------------------------------------------------ *)

Lemma insert_by_key_perm : forall k m l, Permutation (insert_by_key k m l) ((k, m) :: l).
Proof.
  intros k m l. induction l as [|[k' m'] t IH]; cbn [insert_by_key].
  - apply Permutation_refl.
  - destruct (k <=? k').
    + apply Permutation_refl.
    + eapply Permutation_trans; [apply perm_skip, IH | apply perm_swap].
Qed.

Lemma sort_moves_perm : forall (key : Move -> Z) ms, Permutation (sort_moves key ms) ms.
Proof.
  intros key ms. unfold sort_moves. induction ms as [|m t IH]; cbn [fold_right map].
  - apply Permutation_refl.
  - eapply Permutation_trans.
    + apply Permutation_map. apply insert_by_key_perm.
    + cbn [map snd]. apply perm_skip. exact IH.
Qed.

Lemma maxl_cons : forall x l d, maxl (x :: l) d = maxl l (Z.max d x).
Proof. reflexivity. Qed.

Lemma maxl_nil : forall d, maxl [] d = d.
Proof. reflexivity. Qed.

Lemma maxl_max : forall l a b, maxl l (Z.max a b) = Z.max a (maxl l b).
Proof.
  induction l as [|x l IH]; intros a b.
  - reflexivity.
  - rewrite !maxl_cons. rewrite <- Z.max_assoc. apply IH.
Qed.

Lemma maxl_ge : forall l d, d <= maxl l d.
Proof.
  induction l as [|x l IH]; intros d.
  - rewrite maxl_nil. lia.
  - rewrite maxl_cons. specialize (IH (Z.max d x)). lia.
Qed.

Lemma maxl_perm : forall l l', Permutation l l' -> forall d, maxl l d = maxl l' d.
Proof.
  induction 1; intros d.
  - reflexivity.
  - rewrite !maxl_cons. apply IHPermutation.
  - rewrite !maxl_cons. f_equal. lia.
  - rewrite IHPermutation1. apply IHPermutation2.
Qed.

(* the reference's "first move is the base" form is a plain maximum *)
Lemma maxl_base : forall x l a, maxl (x :: l) a = Z.max a (maxl l x).
Proof. intros. rewrite maxl_cons. apply maxl_max. Qed.

(* ------------------------------------------------------------------------------------------ *)
(* 2. The search over an abstract game interface                                                 *)
(* ------------------------------------------------------------------------------------------ *)

Section AB.
  Variable G : Type.
  Variable unchecked checked : G -> list Move.
  Variable play : G -> Move -> G.
  Variable standpat : G -> Z.
  Variable safe hasking : G -> bool.
  Variable ghash : G -> N.
  Variable gmoves : G -> list Move.

  Definition anms (g : G) (offset real : Z) : Z :=
    if safe g then 0 else SCORE_MIN + offset + real.

  Definition qloop (rec : G -> Z -> Z -> Z -> option Z) (g : G) (beta real : Z) :=
    fix loop (ms : list Move) (alpha : Z) : option Z :=
      match ms with
      | [] => Some alpha
      | m :: rest =>
          if negb (is_tactical m) then loop rest alpha
          else
            match rec (play g m) (- beta) (- alpha) (Z.min 255 (real + 1)) with
            | None => None
            | Some s =>
                let score := - s in
                let alpha := if alpha <? score then score else alpha in
                if beta <=? alpha then Some beta else loop rest alpha
            end
      end.

  Fixpoint aq (fuel : nat) (g : G) (alpha beta real : Z) : option Z :=
    match fuel with
    | O => None
    | S f =>
        let current := standpat g in
        let alpha := Z.max alpha current in
        if beta <=? alpha then Some beta
        else
          let moves := unchecked g in
          match moves with
          | [] => Some (anms g MATE_OFFSET_QUIESCENCE real)
          | _ => qloop (aq f) g beta real moves alpha
          end
    end.

  Fixpoint ad1_loop (g : G) (ms : list Move) (alpha beta real : Z) : option Z :=
    match ms with
    | [] => Some alpha
    | m :: rest =>
        match aq QFUEL (play g m) (- beta) (- alpha) (real + 1) with
        | None => None
        | Some s =>
            let score := - s in
            let alpha := if alpha <? score then score else alpha in
            if beta <=? alpha then Some alpha else ad1_loop g rest alpha beta real
        end
    end.

  Definition ad1 (g : G) (alpha beta real : Z) : option Z :=
    match unchecked g with
    | [] => Some (anms g MATE_OFFSET_DEPTH1 real)
    | moves => ad1_loop g moves alpha beta real
    end.

  Definition acut (real remaining : Z) (l : lstate) (m : Move) : lstate :=
    let st := l_st l in
    let st := with_killers st (zupd (s_killers st) real (Some m)) in
    let st := with_hist st (history_update (s_hist st) m remaining) in
    mkL (l_alpha l) (l_best l) (l_bscore l) st.

  Definition nstep (rec : G -> sstate -> Z -> Z -> Z -> outcome Z * sstate)
             (g : G) (real beta : Z) (m : Move) (index : Z) (l : lstate) : outcome lstate :=
    let g1 := play g m in
    if index <=? PVS_FULL_WINDOW_LAST_INDEX then
      match rec g1 (l_st l) (real + 1) (- beta) (- l_alpha l) with
      | (Done s, st1) =>
          let score := - s in
          let '(bm, bs) := if l_bscore l <? score then (Some m, score) else (l_best l, l_bscore l) in
          Done (mkL (Z.max (l_alpha l) score) bm bs st1)
      | (Aborted sa, _) => Aborted sa
      | (OutOfFuel, _) => OutOfFuel
      end
    else
      match rec g1 (l_st l) (real + 1) (- l_alpha l - 1) (- l_alpha l) with
      | (Done s, st1) =>
          let test := - s in
          if l_bscore l <? test then
            match rec g1 st1 (real + 1) (- beta) (- test) with
            | (Done s2, st2) =>
                let score := - s2 in
                Done (mkL (Z.max (l_alpha l) score) (Some m) score st2)
            | (Aborted sa, _) => Aborted sa
            | (OutOfFuel, _) => OutOfFuel
            end
          else Done (mkL (l_alpha l) (l_best l) (l_bscore l) st1)
      | (Aborted sa, _) => Aborted sa
      | (OutOfFuel, _) => OutOfFuel
      end.

  Definition nloop (rec : G -> sstate -> Z -> Z -> Z -> outcome Z * sstate)
             (g : G) (real beta remaining : Z) :=
    fix loop (ms : list Move) (index : Z) (l : lstate) : outcome lstate :=
      match ms with
      | [] => Done l
      | m :: rest =>
          match nstep rec g real beta m index l with
          | Done l' =>
              if beta <=? l_alpha l' then Done (acut real remaining l' m)
              else loop rest (index + 1) l'
          | Aborted sa => Aborted sa
          | OutOfFuel => OutOfFuel
          end
      end.

  Fixpoint anode (rem : nat) (g : G) (st : sstate) (real alpha beta : Z) {struct rem}
    : outcome Z * sstate :=
    let st := poll st in
    if negb (s_running st) then (Aborted st, st)
    else
      let remaining := Z.of_nat rem in
      let e := option_map (entry_from_table real) (tfind (s_tbl st) (ghash g)) in
      match probe e remaining alpha beta with
      | Some s => (Done s, st)
      | None =>
          let pv_move := match e with Some en => e_pv en | None => None end in
          match rem with
          | O => (lift (aq QFUEL g alpha beta real), st)
          | S O => (lift (ad1 g alpha beta real), st)
          | S (S _ as rem') =>
              match checked g with
              | [] => (Done (anms g MATE_OFFSET_NODE real), st)
              | moves =>
                  let sorted := sort_moves (fun m => move_score m pv_move (znth (s_killers st) real None) (s_hist st)) moves in
                  let res := nloop (anode rem') g real beta remaining sorted 0 (mkL alpha None SCORE_MIN st) in
                  match res with
                  | Done l =>
                      let flag := if l_bscore l <=? alpha then UpperBound
                                  else if beta <=? l_bscore l then LowerBound else Exact in
                      let ne := mkEntry (score_to_table (l_bscore l) real) (l_best l) remaining flag in
                      let st' := l_st l in
                      (Done (l_alpha l), with_tbl st' (store_node (s_tbl st') (ghash g) ne))
                  | Aborted sa => (Aborted sa, sa)
                  | OutOfFuel => (OutOfFuel, st)
                  end
              end
          end
      end.

  Definition arep_filter (g : G) (ms : list Move) : list Move :=
    match gmoves g with
    | m1 :: m2 :: m3 :: m4 :: m5 :: _ =>
        if move_eqb m1 m5 && is_reversal m4 m2 && is_reversal m5 m3 then swap_remove_move ms m4 else ms
    | _ => ms
    end.

  Definition rstep (rec : G -> sstate -> Z -> Z -> Z -> outcome Z * sstate)
             (g : G) (m : Move) (index : Z) (r : rstate) : outcome rstate :=
    let g1 := play g m in
    if index <=? ROOT_FULL_WINDOW_LAST_INDEX then
      match rec g1 (r_st r) 1 (SCORE_MIN + 1) (- r_bscore r) with
      | (Done s, st1) =>
          let score := - s in
          if r_bscore r <? score then Done (mkR (Some m) score st1)
          else Done (mkR (r_best r) (r_bscore r) st1)
      | (Aborted sa, _) => Aborted sa
      | (OutOfFuel, _) => OutOfFuel
      end
    else
      match rec g1 (r_st r) 1 (- r_bscore r - 1) (- r_bscore r) with
      | (Done s, st1) =>
          let score := - s in
          if r_bscore r <? score then
            match rec g1 st1 1 (SCORE_MIN + 1) (- score) with
            | (Done s2, st2) => Done (mkR (Some m) (- s2) st2)
            | (Aborted sa, _) => Aborted sa
            | (OutOfFuel, _) => OutOfFuel
            end
          else Done (mkR (r_best r) (r_bscore r) st1)
      | (Aborted sa, _) => Aborted sa
      | (OutOfFuel, _) => OutOfFuel
      end.

  Definition rloop (rec : G -> sstate -> Z -> Z -> Z -> outcome Z * sstate) (g : G) :=
    fix loop (ms : list Move) (index : Z) (r : rstate) : outcome rstate :=
      match ms with
      | [] => Done r
      | m :: rest =>
          match rstep rec g m index r with
          | Done r' => loop rest (index + 1) r'
          | Aborted sa => Aborted sa
          | OutOfFuel => OutOfFuel
          end
      end.

  Definition root_entry (st : sstate) (g : G) (depth : nat) : option entry :=
    match tfind (s_tbl st) (ghash g) with
    | Some en => if (Z.of_nat depth <=? e_depth en) && match e_flag en with Exact => true | _ => false end
                 then Some en else None
    | None => None
    end.

  Definition aroot (g : G) (st : sstate) (depth : nat) : outcome (option Move * Z * bool) * sstate :=
    let moves := checked g in
    match moves with
    | [m] => (Done (Some m, 0, true), st)
    | _ =>
        let st := with_killers st (repeat None (Z.to_nat KILLER_SLOTS)) in
        let moves := arep_filter g moves in
        let e := tfind (s_tbl st) (ghash g) in
        match root_entry st g depth with
        | Some en => (Done (e_pv en, e_score en, false), st)
        | None =>
            let pv_move := match e with Some en => e_pv en | None => None end in
            let sorted := sort_moves (fun m => move_score m pv_move None (s_hist st)) moves in
            let rem' := pred depth in
            let res := rloop (anode rem') g sorted 0 (mkR None (SCORE_MIN + 1) st) in
            match res with
            | Done r =>
                let ne := mkEntry (r_bscore r) (r_best r) (Z.of_nat depth) Exact in
                let st' := r_st r in
                (Done (r_best r, r_bscore r, false),
                 match r_best r with
                 | Some _ => with_tbl st' (store_root (s_tbl st') (ghash g) ne)
                 | None => st'
                 end)
            | Aborted sa => (Aborted sa, sa)
            | OutOfFuel => (OutOfFuel, st)
            end
        end
    end.
End AB.

(* The model's functions are these, instantiated (checked by conversion only; the fuel constant
   is kept folded so that the conversion test does not unroll the quiescence fixpoint). *)
Lemma quiescence_is_aq : forall fuel g alpha beta real,
  quiescence fuel g alpha beta real
  = aq game pseudo_moves push standpat side_safe fuel g alpha beta real.
Proof. reflexivity. Qed.

Strategy opaque [QFUEL].
Lemma depth1_is_ad1 : forall g alpha beta real,
  depth1 g alpha beta real = ad1 game pseudo_moves push standpat side_safe g alpha beta real.
Proof. reflexivity. Qed.

Lemma node_is_anode : forall rem g st real alpha beta,
  node rem g st real alpha beta
  = anode game pseudo_moves checked_moves push standpat side_safe g_hash rem g st real alpha beta.
Proof. reflexivity. Qed.

Lemma root_is_aroot : forall g st depth,
  root g st depth
  = aroot game pseudo_moves checked_moves push standpat side_safe g_hash g_moves g st depth.
Proof. reflexivity. Qed.

(* ------------------------------------------------------------------------------------------ *)
(* 3. Bound consistency                                                                          *)
(* ------------------------------------------------------------------------------------------ *)

(* [r] is a result for window (alpha, beta) consistent with the true value [v]:
   v <= alpha -> v <= r <= alpha;  v >= beta -> beta <= r <= v;  alpha < v < beta -> r = v
   (for alpha <= beta; the two-sided form below also makes sense for empty/inverted windows,
   which the re-search of the PVS loop can produce). *)
Definition SpecR (alpha beta v r : Z) : Prop := Z.min beta v <= r <= Z.max alpha v.

Lemma SpecR_exact : forall alpha beta v r, SpecR alpha beta v r -> alpha < v < beta -> r = v.
Proof. unfold SpecR; intros; lia. Qed.
Lemma SpecR_low : forall alpha beta v r, SpecR alpha beta v r -> alpha <= beta -> v <= alpha -> v <= r <= alpha.
Proof. unfold SpecR; intros; lia. Qed.
Lemma SpecR_high : forall alpha beta v r, SpecR alpha beta v r -> alpha <= beta -> beta <= v -> beta <= r <= v.
Proof. unfold SpecR; intros; lia. Qed.
Lemma SpecR_refl : forall alpha beta v, SpecR alpha beta v v.
Proof. unfold SpecR; intros; lia. Qed.

Section ABProofs.
  Variable G : Type.
  Variable unchecked checked : G -> list Move.
  Variable play : G -> Move -> G.
  Variable standpat : G -> Z.
  Variable safe hasking : G -> bool.
  Variable ghash : G -> N.
  Variable gmoves : G -> list Move.
  Hypothesis safe_hasking : forall g, safe g = true -> hasking g = true.

  Let QR := qref G Move unchecked play standpat is_tactical safe hasking SCORE_MIN MATE_OFFSET_QUIESCENCE.
  Let D1R := d1ref G Move unchecked play standpat is_tactical safe hasking SCORE_MIN
                   MATE_OFFSET_DEPTH1 MATE_OFFSET_QUIESCENCE.
  Let NR := nref G Move unchecked checked play standpat is_tactical safe hasking SCORE_MIN
                 MATE_OFFSET_NODE MATE_OFFSET_DEPTH1 MATE_OFFSET_QUIESCENCE.
  Let RR := rootref G Move unchecked checked play standpat is_tactical safe hasking SCORE_MIN
                 MATE_OFFSET_NODE MATE_OFFSET_DEPTH1 MATE_OFFSET_QUIESCENCE.
  Let AQ := aq G unchecked play standpat safe.
  Let AD1 := ad1 G unchecked play standpat safe.
  Let AN := anode G unchecked checked play standpat safe ghash.
  Let AR := aroot G unchecked checked play standpat safe ghash gmoves.

  (* ---- the separation condition on the quiescence tree: at a leaf without generated move
          (a king-less node when no blocked node is reported) the stand-pat does not exceed
          the king-capture score ---- *)
  Fixpoint qsep (fuel : nat) (g : G) (real : Z) : bool :=
    match fuel with
    | O => true
    | S f =>
        match unchecked g with
        | [] => standpat g <=? SCORE_MIN + MATE_OFFSET_QUIESCENCE + real
        | ms => forallb (fun m => qsep f (play g m) (Z.min 255 (real + 1))) (filter is_tactical ms)
        end
    end.

  Definition qchildren (f : nat) (g : G) (real : Z) (ms : list Move) : list Z :=
    map (fun m => - fst (QR f (play g m) (Z.min 255 (real + 1)))) (filter is_tactical ms).

  Lemma qref_fst_nonleaf : forall f g real,
    unchecked g <> [] ->
    fst (QR (S f) g real) = maxl (qchildren f g real (unchecked g)) (standpat g).
  Proof.
    intros f g real Hne. unfold QR, qchildren. cbn [qref].
    destruct (unchecked g) as [|m ms] eqn:E; [congruence|].
    cbn [fst]. rewrite map_map. reflexivity.
  Qed.

  Lemma qref_snd_nonleaf : forall f g real m,
    unchecked g <> [] -> snd (QR (S f) g real) = false ->
    In m (filter is_tactical (unchecked g)) ->
    snd (QR f (play g m) (Z.min 255 (real + 1))) = false.
  Proof.
    intros f g real m Hne Hs Hin. unfold QR in *. cbn [qref] in Hs.
    destruct (unchecked g) as [|m0 ms] eqn:E; [congruence|].
    cbn [snd] in Hs.
    destruct (snd (qref G Move unchecked play standpat is_tactical safe hasking SCORE_MIN
                        MATE_OFFSET_QUIESCENCE f (play g m) (Z.min 255 (real + 1)))) eqn:E2; [|reflexivity].
    assert (X : existsb snd (map (fun m1 => qref G Move unchecked play standpat is_tactical safe hasking SCORE_MIN
                        MATE_OFFSET_QUIESCENCE f (play g m1) (Z.min 255 (real + 1))) (filter is_tactical (m0 :: ms))) = true).
    { apply existsb_exists. eexists. split; [apply in_map; exact Hin|exact E2]. }
    congruence.
  Qed.

  Lemma qsep_nonleaf : forall f g real m,
    unchecked g <> [] -> qsep (S f) g real = true ->
    In m (filter is_tactical (unchecked g)) ->
    qsep f (play g m) (Z.min 255 (real + 1)) = true.
  Proof.
    intros f g real m Hne Hs Hin. cbn [qsep] in Hs.
    destruct (unchecked g) as [|m0 ms] eqn:E; [congruence|].
    rewrite forallb_forall in Hs. apply Hs. exact Hin.
  Qed.

  Definition QOK (f : nat) : Prop :=
    forall g real alpha beta,
      snd (QR f g real) = false -> qsep f g real = true ->
      exists r, AQ f g alpha beta real = Some r /\ SpecR alpha beta (fst (QR f g real)) r.

  Lemma qloop_spec : forall f g beta real, QOK f ->
    forall ms a, a < beta ->
      (forall m, In m (filter is_tactical ms) ->
                 snd (QR f (play g m) (Z.min 255 (real + 1))) = false /\
                 qsep f (play g m) (Z.min 255 (real + 1)) = true) ->
      qloop G play (AQ f) g beta real ms a = Some (Z.min beta (maxl (qchildren f g real ms) a)).
  Proof.
    intros f g beta real IH. induction ms as [|m rest IHms]; intros a Hab Hch.
    - cbn [qloop]. unfold qchildren. cbn [filter map]. rewrite maxl_nil. f_equal. lia.
    - cbn [qloop]. unfold qchildren in *. cbn [filter] in *.
      destruct (is_tactical m) eqn:Et; cbn [negb].
      + cbn [map]. rewrite maxl_cons.
        destruct (Hch m (or_introl eq_refl)) as [Hs Hq].
        destruct (IH (play g m) (Z.min 255 (real + 1)) (- beta) (- a) Hs Hq) as [s [Es Sp]].
        rewrite Es. cbv zeta.
        set (t := - fst (QR f (play g m) (Z.min 255 (real + 1)))) in *.
        unfold SpecR in Sp.
        pose proof (maxl_ge (map (fun m0 => - fst (QR f (play g m0) (Z.min 255 (real + 1)))) (filter is_tactical rest)) (Z.max a t)) as Hge.
        assert (Ea' : (if a <? - s then - s else a) = Z.max a (- s)) by (destruct (Z.ltb_spec a (- s)); lia).
        rewrite Ea'.
        destruct (Z.leb_spec beta (Z.max a (- s))) as [Hb|Hb].
        * f_equal. lia.
        * assert (Ea : Z.max a (- s) = Z.max a t) by lia.
          rewrite IHms; [rewrite Ea; reflexivity | lia | intros; apply Hch; right; assumption].
      + apply IHms; assumption.
  Qed.

  Theorem aq_spec : forall f, QOK f.
  Proof.
    induction f as [|f IH]; intros g real alpha beta Hs Hq.
    - unfold QR in Hs. cbn in Hs. discriminate.
    - unfold AQ. cbn [aq]. fold AQ.
      destruct (unchecked g) as [|m0 ms] eqn:E.
      + (* leaf *)
        unfold QR in *. cbn [qref qsep] in *. rewrite E in *. cbn [fst snd] in *.
        assert (Hsafe : safe g = false).
        { destruct (safe g) eqn:S1; [|reflexivity]. apply safe_hasking in S1. congruence. }
        rewrite Hsafe. unfold anms. rewrite Hsafe.
        apply Z.leb_le in Hq.
        destruct (Z.leb_spec beta (Z.max alpha (standpat g))); eexists; (split; [reflexivity|]); unfold SpecR; lia.
      + assert (Hne : unchecked g <> []) by congruence.
        rewrite (qref_fst_nonleaf f g real Hne).
        pose proof (maxl_ge (qchildren f g real (unchecked g)) (standpat g)) as Hge.
        destruct (Z.leb_spec beta (Z.max alpha (standpat g))).
        * eexists; split; [reflexivity|]. unfold SpecR. lia.
        * rewrite <- E. rewrite (qloop_spec f g beta real IH); [| lia |].
          -- eexists; split; [reflexivity|]. rewrite maxl_max. unfold SpecR. lia.
          -- intros m Hin. split; [eapply qref_snd_nonleaf | eapply qsep_nonleaf]; eassumption.
  Qed.
  (* ---- arithmetic of one move of a loop: [a] the running alpha, [t] the true score of the
          move, [score] what the child search reported ---- *)
  Lemma child_score : forall a beta vc s,
    SpecR (- beta) (- a) vc s -> Z.min beta (- vc) <= - s <= Z.max a (- vc).
  Proof. unfold SpecR; intros; lia. Qed.

  Lemma maxl_mono : forall l a b, a <= b -> maxl l a <= maxl l b.
  Proof.
    induction l as [|x l IH]; intros a b Hab.
    - rewrite !maxl_nil. exact Hab.
    - rewrite !maxl_cons. apply IH. lia.
  Qed.

  (* ---- depth 1 ---- *)
  Definition d1sep (g : G) (real : Z) : bool :=
    forallb (fun m => qsep QFUEL (play g m) (real + 1)) (unchecked g).

  Definition d1children (g : G) (real : Z) (ms : list Move) : list Z :=
    map (fun m => - fst (QR QFUEL (play g m) (real + 1))) ms.

  Lemma ad1_loop_spec : forall g beta real ms a,
    (forall m, In m ms -> snd (QR QFUEL (play g m) (real + 1)) = false /\
                          qsep QFUEL (play g m) (real + 1) = true) ->
    exists r, ad1_loop G unchecked play standpat safe g ms a beta real = Some r /\
              a <= r /\ Z.min beta (maxl (d1children g real ms) a) <= r <= maxl (d1children g real ms) a.
  Proof.
    intros g beta real. induction ms as [|m rest IH]; intros a Hch.
    - cbn [ad1_loop]. unfold d1children. cbn [map]. rewrite maxl_nil.
      eexists; split; [reflexivity|]. lia.
    - cbn [ad1_loop]. unfold d1children in *. cbn [map]. rewrite maxl_cons.
      destruct (Hch m (or_introl eq_refl)) as [Hs Hq].
      destruct (aq_spec QFUEL (play g m) (real + 1) (- beta) (- a) Hs Hq) as [s [Es Sp]].
      fold AQ. rewrite Es. cbv zeta.
      apply child_score in Sp.
      set (t := - fst (QR QFUEL (play g m) (real + 1))) in *.
      set (ts := map (fun m0 => - fst (QR QFUEL (play g m0) (real + 1))) rest) in *.
      assert (Ea' : (if a <? - s then - s else a) = Z.max a (- s)) by (destruct (Z.ltb_spec a (- s)); lia).
      rewrite Ea'.
      pose proof (maxl_ge ts (Z.max a t)) as Hge.
      destruct (Z.leb_spec beta (Z.max a (- s))) as [Hb|Hb].
      + eexists; split; [reflexivity|]. lia.
      + assert (Ea : Z.max a (- s) = Z.max a t) by lia.
        destruct (IH (Z.max a (- s))) as [r [Er Hr]]; [intros; apply Hch; right; assumption|].
        exists r. split; [exact Er|]. rewrite Ea in Hr. lia.
  Qed.

  Lemma d1ref_leaf : forall fuel g real, unchecked g = [] ->
    D1R fuel g real = (anms G safe g MATE_OFFSET_DEPTH1 real, false).
  Proof. intros fuel g real E. unfold D1R, d1ref, anms. rewrite E. reflexivity. Qed.

  Lemma d1ref_fst : forall fuel g real m ms, unchecked g = m :: ms ->
    forall a, Z.max a (fst (D1R fuel g real))
              = maxl (map (fun m => - fst (QR fuel (play g m) (real + 1))) (m :: ms)) a.
  Proof.
    intros fuel g real m ms E a. unfold D1R, d1ref. rewrite E. cbn [fst map hd tl].
    rewrite maxl_base. rewrite map_map. reflexivity.
  Qed.

  Lemma existsb_snd_false : forall (A : Type) (f : A -> Z * bool) l x,
    existsb snd (map f l) = false -> In x l -> snd (f x) = false.
  Proof.
    intros A f l x H Hin. destruct (snd (f x)) eqn:E; [|reflexivity].
    assert (X : existsb snd (map f l) = true).
    { apply existsb_exists. exists (f x). split; [apply in_map; exact Hin | exact E]. }
    congruence.
  Qed.

  Lemma d1ref_snd : forall fuel g real m, snd (D1R fuel g real) = false -> In m (unchecked g) ->
    snd (QR fuel (play g m) (real + 1)) = false.
  Proof.
    intros fuel g real m Hs Hin. unfold D1R, d1ref in Hs.
    destruct (unchecked g) as [|m0 ms] eqn:E; [destruct Hin|].
    cbn [snd] in Hs. unfold QR.
    apply (existsb_snd_false _ (fun m1 => qref G Move unchecked play standpat is_tactical safe hasking SCORE_MIN
                        MATE_OFFSET_QUIESCENCE fuel (play g m1) (real + 1)) (m0 :: ms)); assumption.
  Qed.

  Theorem ad1_spec : forall g real alpha beta,
    snd (D1R QFUEL g real) = false -> d1sep g real = true ->
    exists r, AD1 g alpha beta real = Some r /\ SpecR alpha beta (fst (D1R QFUEL g real)) r.
  Proof.
    intros g real alpha beta Hs Hq. unfold AD1, ad1.
    destruct (unchecked g) as [|m ms] eqn:E.
    - rewrite (d1ref_leaf _ _ _ E). cbn [fst]. eexists; split; [reflexivity|apply SpecR_refl].
    - destruct (ad1_loop_spec g beta real (m :: ms) alpha) as [r [Er Hr]].
      + intros m1 Hin. rewrite <- E in Hin. split.
        * eapply d1ref_snd; eassumption.
        * unfold d1sep in Hq. rewrite forallb_forall in Hq. apply Hq. exact Hin.
      + exists r. split; [exact Er|]. unfold d1children in Hr.
        rewrite <- (d1ref_fst QFUEL g real m ms E alpha) in Hr. unfold SpecR. lia.
  Qed.
  (* ---- the search state: table-less, never stopped ---- *)
  Definition OKst (st : sstate) : Prop :=
    s_tableless st = true /\ s_running st = true /\ s_stop_at st = -1 /\ 0 <= s_polls st.

  Lemma poll_ok : forall st, OKst st ->
    OKst (poll st) /\ s_running (poll st) = true /\ s_tbl (poll st) = tempty.
  Proof.
    intros [t k h r p sa sd af tl]. unfold OKst, poll. cbn [s_tableless s_running s_stop_at s_polls s_tbl s_stopped s_after s_killers s_hist].
    intros [-> [-> [-> Hp]]].
    destruct (Z.eqb_spec (-1) p) as [E|E]; [lia|].
    repeat split; lia.
  Qed.

  Lemma with_killers_ok : forall st k, OKst st -> OKst (with_killers st k).
  Proof. intros st k H. exact H. Qed.
  Lemma with_hist_ok : forall st h, OKst st -> OKst (with_hist st h).
  Proof. intros st h H. exact H. Qed.
  Lemma with_tbl_ok : forall st t, OKst st -> OKst (with_tbl st t).
  Proof. intros st t H. exact H. Qed.

  Lemma tfind_empty : forall h, tfind tempty h = None.
  Proof. intros h. unfold tfind, tempty. apply PositiveMap.gempty. Qed.

  (* ---- the tree condition below a node: separation at the quiescence leaves, and child
          values of interior nodes not above -MIN (always true for i16 scores) ---- *)
  Fixpoint ntree (rem : nat) (g : G) (real : Z) : bool :=
    match rem with
    | O => qsep QFUEL g real
    | S O => d1sep g real
    | S (S _ as rem') =>
        forallb (fun m => (fst (NR QFUEL rem' (play g m) (real + 1)) <=? - SCORE_MIN)
                          && ntree rem' (play g m) (real + 1)) (checked g)
    end.

  Definition nchildren (rem' : nat) (g : G) (real : Z) (ms : list Move) : list Z :=
    map (fun m => - fst (NR QFUEL rem' (play g m) (real + 1))) ms.

  Lemma nref_leaf : forall n g real, checked g = [] ->
    NR QFUEL (S (S n)) g real = (anms G safe g MATE_OFFSET_NODE real, false).
  Proof. intros n g real E. unfold NR, anms. cbn [nref]. rewrite E. reflexivity. Qed.

  Lemma nref_fst : forall n g real m ms, checked g = m :: ms ->
    forall a, Z.max a (fst (NR QFUEL (S (S n)) g real)) = maxl (nchildren (S n) g real (m :: ms)) a.
  Proof.
    intros n g real m ms E a. unfold NR, nchildren. cbn [nref]. rewrite E. cbn [fst map hd tl].
    rewrite maxl_base. rewrite map_map. reflexivity.
  Qed.

  Lemma nref_snd : forall n g real m, snd (NR QFUEL (S (S n)) g real) = false -> In m (checked g) ->
    snd (NR QFUEL (S n) (play g m) (real + 1)) = false.
  Proof.
    intros n g real m Hs Hin. unfold NR in *. cbn [nref] in Hs.
    destruct (checked g) as [|m0 ms] eqn:E; [destruct Hin|].
    cbn [snd] in Hs.
    apply (existsb_snd_false _ (fun m1 => nref G Move unchecked checked play standpat is_tactical safe hasking SCORE_MIN
                 MATE_OFFSET_NODE MATE_OFFSET_DEPTH1 MATE_OFFSET_QUIESCENCE QFUEL (S n) (play g m1) (real + 1)) (m0 :: ms)); assumption.
  Qed.

  Lemma ntree_child : forall n g real m, ntree (S (S n)) g real = true -> In m (checked g) ->
    fst (NR QFUEL (S n) (play g m) (real + 1)) <= - SCORE_MIN /\ ntree (S n) (play g m) (real + 1) = true.
  Proof.
    intros n g real m Ht Hin. cbn [ntree] in Ht. rewrite forallb_forall in Ht.
    specialize (Ht m Hin). apply andb_true_iff in Ht. destruct Ht as [H1 H2].
    apply Z.leb_le in H1. split; assumption.
  Qed.

  Definition NOK (rem : nat) : Prop :=
    forall g st real alpha beta,
      OKst st -> SCORE_MIN <= alpha -> beta <= - SCORE_MIN ->
      snd (NR QFUEL rem g real) = false -> ntree rem g real = true ->
      exists r st', AN rem g st real alpha beta = (Done r, st') /\ OKst st' /\
                    SpecR alpha beta (fst (NR QFUEL rem g real)) r.

  (* one move of the PVS loop *)
  Lemma nstep_spec : forall rem' g real beta m index l, NOK rem' ->
    OKst (l_st l) -> l_bscore l <= l_alpha l -> SCORE_MIN <= l_alpha l -> beta <= - SCORE_MIN ->
    (PVS_FULL_WINDOW_LAST_INDEX < index -> l_alpha l < beta) ->
    snd (NR QFUEL rem' (play g m) (real + 1)) = false ->
    ntree rem' (play g m) (real + 1) = true ->
    fst (NR QFUEL rem' (play g m) (real + 1)) <= - SCORE_MIN ->
    exists l', nstep G play (AN rem') g real beta m index l = Done l' /\ OKst (l_st l') /\
       l_bscore l' <= l_alpha l' /\
       Z.max (l_alpha l) (Z.min beta (- fst (NR QFUEL rem' (play g m) (real + 1)))) <= l_alpha l'
         <= Z.max (l_alpha l) (- fst (NR QFUEL rem' (play g m) (real + 1))).
  Proof.
    intros rem' g real beta m index l IH Hst Hbs Hlo Hhi Hidx Hs Ht Hv.
    unfold nstep. cbv zeta.
    set (vc := fst (NR QFUEL rem' (play g m) (real + 1))) in *.
    destruct (Z.leb_spec index PVS_FULL_WINDOW_LAST_INDEX) as [Hi|Hi].
    - destruct (IH (play g m) (l_st l) (real + 1) (- beta) (- l_alpha l) Hst ltac:(lia) ltac:(lia) Hs Ht)
        as [s [st1 [E [Hst1 Sp]]]].
      rewrite E. fold vc in Sp. unfold SpecR in Sp.
      destruct (Z.ltb_spec (l_bscore l) (- s)); eexists; (split; [reflexivity|]);
        cbn [l_st l_alpha l_bscore]; (split; [exact Hst1|]); lia.
    - specialize (Hidx Hi).
      destruct (IH (play g m) (l_st l) (real + 1) (- l_alpha l - 1) (- l_alpha l) Hst ltac:(lia) ltac:(lia) Hs Ht)
        as [s [st1 [E [Hst1 Sp]]]].
      rewrite E. fold vc in Sp. unfold SpecR in Sp.
      destruct (Z.ltb_spec (l_bscore l) (- s)) as [Hlt|Hge].
      + destruct (IH (play g m) st1 (real + 1) (- beta) (- - s) Hst1 ltac:(lia) ltac:(lia) Hs Ht)
          as [s2 [st2 [E2 [Hst2 Sp2]]]].
        rewrite E2. fold vc in Sp2. unfold SpecR in Sp2.
        eexists; split; [reflexivity|]. cbn [l_st l_alpha l_bscore]. split; [exact Hst2|]. lia.
      + eexists; split; [reflexivity|]. cbn [l_st l_alpha l_bscore]. split; [exact Hst1|]. lia.
  Qed.

  Lemma acut_alpha : forall real remaining l m, l_alpha (acut real remaining l m) = l_alpha l.
  Proof. reflexivity. Qed.
  Lemma acut_ok : forall real remaining l m, OKst (l_st l) -> OKst (l_st (acut real remaining l m)).
  Proof. intros real remaining l m H. exact H. Qed.

  Lemma nloop_spec : forall rem' g real beta remaining, NOK rem' -> beta <= - SCORE_MIN ->
    forall ms index l,
    OKst (l_st l) -> l_bscore l <= l_alpha l -> SCORE_MIN <= l_alpha l ->
    (PVS_FULL_WINDOW_LAST_INDEX < index -> l_alpha l < beta) ->
    (forall m, In m ms ->
       snd (NR QFUEL rem' (play g m) (real + 1)) = false /\
       ntree rem' (play g m) (real + 1) = true /\
       fst (NR QFUEL rem' (play g m) (real + 1)) <= - SCORE_MIN) ->
    exists l', nloop G play (AN rem') g real beta remaining ms index l = Done l' /\ OKst (l_st l') /\
       l_alpha l <= l_alpha l' /\
       Z.min beta (maxl (nchildren rem' g real ms) (l_alpha l)) <= l_alpha l'
         <= maxl (nchildren rem' g real ms) (l_alpha l).
  Proof.
    intros rem' g real beta remaining IH Hhi. induction ms as [|m rest IHms]; intros index l Hst Hbs Hlo Hidx Hch.
    - cbn [nloop]. unfold nchildren. cbn [map]. rewrite maxl_nil.
      eexists; split; [reflexivity|]. split; [exact Hst|]. lia.
    - cbn [nloop]. unfold nchildren in *. cbn [map]. rewrite maxl_cons.
      destruct (Hch m (or_introl eq_refl)) as [Hs [Ht Hv]].
      destruct (nstep_spec rem' g real beta m index l IH Hst Hbs Hlo Hhi Hidx Hs Ht Hv)
        as [l1 [E1 [Hst1 [Hbs1 Hb1]]]].
      rewrite E1.
      set (t := - fst (NR QFUEL rem' (play g m) (real + 1))) in *.
      set (ts := map (fun m0 => - fst (NR QFUEL rem' (play g m0) (real + 1))) rest) in *.
      pose proof (maxl_ge ts (Z.max (l_alpha l) t)) as Hge.
      destruct (Z.leb_spec beta (l_alpha l1)) as [Hb|Hb].
      + eexists; split; [reflexivity|]. rewrite acut_alpha. split; [apply acut_ok; exact Hst1|]. lia.
      + assert (Ea : l_alpha l1 = Z.max (l_alpha l) t) by lia.
        destruct (IHms (index + 1) l1 Hst1 Hbs1 ltac:(lia) ltac:(intros; lia)) as [l' [E' [Hst' Hr]]].
        { intros; apply Hch; right; assumption. }
        exists l'. split; [exact E'|]. split; [exact Hst'|]. rewrite Ea in Hr. lia.
  Qed.

  (* unfolding the node function for a table-less, running state *)
  Lemma anode_0 : forall g st real alpha beta, OKst st ->
    AN 0 g st real alpha beta = (lift (AQ QFUEL g alpha beta real), poll st).
  Proof.
    intros g st real alpha beta H. destruct (poll_ok st H) as [_ [Hr Ht]].
    unfold AN. cbn [anode]. cbv zeta. rewrite Hr, Ht, tfind_empty. reflexivity.
  Qed.

  Lemma anode_1 : forall g st real alpha beta, OKst st ->
    AN 1 g st real alpha beta = (lift (AD1 g alpha beta real), poll st).
  Proof.
    intros g st real alpha beta H. destruct (poll_ok st H) as [_ [Hr Ht]].
    unfold AN. cbn [anode]. cbv zeta. rewrite Hr, Ht, tfind_empty. reflexivity.
  Qed.

  Lemma anode_SS : forall n g st real alpha beta, OKst st ->
    AN (S (S n)) g st real alpha beta =
    match checked g with
    | [] => (Done (anms G safe g MATE_OFFSET_NODE real), poll st)
    | moves =>
        match nloop G play (AN (S n)) g real beta (Z.of_nat (S (S n)))
                (sort_moves (fun m => move_score m None (znth (s_killers (poll st)) real None) (s_hist (poll st))) moves)
                0 (mkL alpha None SCORE_MIN (poll st)) with
        | Done l =>
            (Done (l_alpha l),
             with_tbl (l_st l) (store_node (s_tbl (l_st l)) (ghash g)
               (mkEntry (score_to_table (l_bscore l) real) (l_best l) (Z.of_nat (S (S n)))
                  (if l_bscore l <=? alpha then UpperBound
                   else if beta <=? l_bscore l then LowerBound else Exact))))
        | Aborted sa => (Aborted sa, sa)
        | OutOfFuel => (OutOfFuel, poll st)
        end
    end.
  Proof.
    intros n g st real alpha beta H. destruct (poll_ok st H) as [_ [Hr Ht]].
    unfold AN. cbn [anode]. cbv zeta. rewrite Hr, Ht, tfind_empty. cbn [negb probe].
    destruct (checked g); reflexivity.
  Qed.

  Theorem anode_spec : forall rem, NOK rem.
  Proof.
    induction rem as [rem IHrem] using (well_founded_induction lt_wf).
    intros g st real alpha beta Hst Hlo Hhi Hs Ht.
    destruct (poll_ok st Hst) as [Hpst _].
    destruct rem as [|[|n]].
    - rewrite (anode_0 _ _ _ _ _ Hst).
      destruct (aq_spec QFUEL g real alpha beta Hs Ht) as [r [Er Sp]]. fold AQ in Er.
      rewrite Er. exists r, (poll st). split; [reflexivity|]. split; [exact Hpst|exact Sp].
    - rewrite (anode_1 _ _ _ _ _ Hst).
      destruct (ad1_spec g real alpha beta Hs Ht) as [r [Er Sp]]. fold AD1 in Er.
      rewrite Er. exists r, (poll st). split; [reflexivity|]. split; [exact Hpst|exact Sp].
    - rewrite (anode_SS _ _ _ _ _ _ Hst).
      destruct (checked g) as [|m ms] eqn:E.
      + rewrite (nref_leaf _ _ _ E). cbn [fst].
        eexists; eexists; split; [reflexivity|]. split; [exact Hpst|apply SpecR_refl].
      + set (sorted := sort_moves _ (m :: ms)).
        assert (Hperm : Permutation sorted (m :: ms)) by apply sort_moves_perm.
        destruct (nloop_spec (S n) g real beta (Z.of_nat (S (S n))) (IHrem (S n) ltac:(lia)) Hhi
                    sorted 0 (mkL alpha None SCORE_MIN (poll st))) as [l' [E' [Hst' [Hge Hr]]]];
          cbn [l_st l_alpha l_bscore]; try assumption.
        * intros Hc. unfold PVS_FULL_WINDOW_LAST_INDEX in Hc. lia.
        * intros m1 Hin. assert (Hin' : In m1 (checked g)).
          { rewrite E. eapply Permutation_in; eassumption. }
          destruct (ntree_child n g real m1 Ht Hin') as [Hv Ht1].
          split; [eapply nref_snd; eassumption|]. split; assumption.
        * rewrite E'. eexists; eexists; split; [reflexivity|].
          split; [apply with_tbl_ok; exact Hst'|].
          cbn [l_alpha] in Hr, Hge.
          unfold nchildren in Hr.
          rewrite (maxl_perm _ _ (Permutation_map _ Hperm)) in Hr.
          fold (nchildren (S n) g real (m :: ms)) in Hr.
          rewrite <- (nref_fst n g real m ms E alpha) in Hr.
          unfold SpecR. lia.
  Qed.
  (* ---- the root ---- *)
  Lemma score_max_min : SCORE_MAX = - SCORE_MIN - 1.
  Proof. reflexivity. Qed.

  Definition rchildren (rem' : nat) (g : G) (ms : list Move) : list Z :=
    map (fun m => - fst (NR QFUEL rem' (play g m) 1)) ms.

  Lemma rstep_spec : forall rem' g m index r,
    OKst (r_st r) -> SCORE_MIN + 1 <= r_bscore r <= SCORE_MAX ->
    snd (NR QFUEL rem' (play g m) 1) = false ->
    ntree rem' (play g m) 1 = true ->
    - fst (NR QFUEL rem' (play g m) 1) <= SCORE_MAX ->
    exists r', rstep G play (AN rem') g m index r = Done r' /\ OKst (r_st r') /\
               r_bscore r' = Z.max (r_bscore r) (- fst (NR QFUEL rem' (play g m) 1)).
  Proof.
    intros rem' g m index r Hst Hbs Hs Ht Hv.
    pose proof score_max_min as Hmm.
    unfold rstep. cbv zeta.
    set (vc := fst (NR QFUEL rem' (play g m) 1)) in *.
    destruct (Z.leb_spec index ROOT_FULL_WINDOW_LAST_INDEX) as [Hi|Hi].
    - destruct (anode_spec rem' (play g m) (r_st r) 1 (SCORE_MIN + 1) (- r_bscore r) Hst ltac:(lia) ltac:(lia) Hs Ht)
        as [s [st1 [E [Hst1 Sp]]]].
      rewrite E. fold vc in Sp. unfold SpecR in Sp.
      destruct (Z.ltb_spec (r_bscore r) (- s)); eexists; (split; [reflexivity|]);
        cbn [r_st r_bscore]; (split; [exact Hst1|]); lia.
    - destruct (anode_spec rem' (play g m) (r_st r) 1 (- r_bscore r - 1) (- r_bscore r) Hst ltac:(lia) ltac:(lia) Hs Ht)
        as [s [st1 [E [Hst1 Sp]]]].
      rewrite E. fold vc in Sp. unfold SpecR in Sp.
      destruct (Z.ltb_spec (r_bscore r) (- s)) as [Hlt|Hge].
      + destruct (anode_spec rem' (play g m) st1 1 (SCORE_MIN + 1) (- - s) Hst1 ltac:(lia) ltac:(lia) Hs Ht)
          as [s2 [st2 [E2 [Hst2 Sp2]]]].
        rewrite E2. fold vc in Sp2. unfold SpecR in Sp2.
        eexists; split; [reflexivity|]. cbn [r_st r_bscore]. split; [exact Hst2|]. lia.
      + eexists; split; [reflexivity|]. cbn [r_st r_bscore]. split; [exact Hst1|]. lia.
  Qed.

  Lemma rloop_spec : forall rem' g ms index r,
    OKst (r_st r) -> SCORE_MIN + 1 <= r_bscore r <= SCORE_MAX ->
    (forall m, In m ms ->
       snd (NR QFUEL rem' (play g m) 1) = false /\
       ntree rem' (play g m) 1 = true /\
       - fst (NR QFUEL rem' (play g m) 1) <= SCORE_MAX) ->
    exists r', rloop G play (AN rem') g ms index r = Done r' /\ OKst (r_st r') /\
               r_bscore r' = maxl (rchildren rem' g ms) (r_bscore r).
  Proof.
    intros rem' g. induction ms as [|m rest IH]; intros index r Hst Hbs Hch.
    - cbn [rloop]. eexists; split; [reflexivity|]. split; [exact Hst|reflexivity].
    - cbn [rloop]. unfold rchildren in *. cbn [map]. rewrite maxl_cons.
      destruct (Hch m (or_introl eq_refl)) as [Hs [Ht Hv]].
      destruct (rstep_spec rem' g m index r Hst Hbs Hs Ht Hv) as [r1 [E1 [Hst1 Hb1]]].
      rewrite E1.
      destruct (IH (index + 1) r1 Hst1 ltac:(lia)) as [r' [E' [Hst' Hr]]].
      { intros; apply Hch; right; assumption. }
      exists r'. split; [exact E'|]. split; [exact Hst'|]. rewrite Hr, Hb1. reflexivity.
  Qed.

  (* the tree condition at the root *)
  Definition roottree (depth : nat) (g : G) (moves : list Move) : bool :=
    forallb (fun m => ntree (pred depth) (play g m) 1) moves.

  Definition aroot_body (g : G) (st : sstate) (depth : nat) : outcome (option Move * Z * bool) * sstate :=
    let moves := checked g in
    let st := with_killers st (repeat None (Z.to_nat KILLER_SLOTS)) in
    let moves := arep_filter G gmoves g moves in
    let e := tfind (s_tbl st) (ghash g) in
    match root_entry G ghash st g depth with
    | Some en => (Done (e_pv en, e_score en, false), st)
    | None =>
        let pv_move := match e with Some en => e_pv en | None => None end in
        let sorted := sort_moves (fun m => move_score m pv_move None (s_hist st)) moves in
        let rem' := pred depth in
        let res := rloop G play (AN rem') g sorted 0 (mkR None (SCORE_MIN + 1) st) in
        match res with
        | Done r =>
            let ne := mkEntry (r_bscore r) (r_best r) (Z.of_nat depth) Exact in
            let st' := r_st r in
            (Done (r_best r, r_bscore r, false),
                 match r_best r with
                 | Some _ => with_tbl st' (store_root (s_tbl st') (ghash g) ne)
                 | None => st'
                 end)
        | Aborted sa => (Aborted sa, sa)
        | OutOfFuel => (OutOfFuel, st)
        end
    end.

  Lemma aroot_unfold : forall g st depth, (forall m, checked g <> [m]) ->
    AR g st depth = aroot_body g st depth.
  Proof.
    intros g st depth H. unfold AR, aroot, aroot_body. cbv zeta.
    destruct (checked g) as [|m [|m2 ms]] eqn:E; try reflexivity.
    exfalso. apply (H m). reflexivity.
  Qed.

  Theorem aroot_exact : forall g st depth,
    let moves := arep_filter G gmoves g (checked g) in
    OKst st ->
    (forall m, checked g <> [m]) ->
    root_entry G ghash st g depth = None ->
    snd (RR QFUEL depth g moves) = false ->
    roottree depth g moves = true ->
    fst (RR QFUEL depth g moves) <= SCORE_MAX ->
    exists bm st', AR g st depth = (Done (bm, fst (RR QFUEL depth g moves), false), st') /\ OKst st'.
  Proof.
    intros g st depth moves Hst Hne Hre Hs Ht Hv.
    rewrite (aroot_unfold g st depth Hne). unfold aroot_body. cbv zeta.
    set (st0 := with_killers st (repeat None (Z.to_nat KILLER_SLOTS))).
    change (root_entry G ghash st0 g depth) with (root_entry G ghash st g depth). rewrite Hre.
    fold moves.
    set (sorted := sort_moves _ moves).
    assert (Hperm : Permutation sorted moves) by apply sort_moves_perm.
    assert (Hfst : forall l, Permutation l moves ->
               fst (RR QFUEL depth g moves) = maxl (rchildren (pred depth) g l) (SCORE_MIN + 1)).
    { intros l Hl. unfold RR, rootref, rchildren. cbn [fst]. rewrite map_map.
      symmetry. apply maxl_perm. apply Permutation_map. exact Hl. }
    destruct (rloop_spec (pred depth) g sorted 0 (mkR None (SCORE_MIN + 1) st0)) as [r' [E' [Hst' Hr]]];
      cbn [r_st r_bscore].
    - apply with_killers_ok. exact Hst.
    - unfold SCORE_MIN, SCORE_MAX. lia.
    - intros m Hin. assert (Hin' : In m moves) by (eapply Permutation_in; eassumption).
      split; [|split].
      + unfold RR, rootref in Hs. cbn [snd] in Hs.
        apply (existsb_snd_false _ (fun m1 => nref G Move unchecked checked play standpat is_tactical safe hasking SCORE_MIN
                 MATE_OFFSET_NODE MATE_OFFSET_DEPTH1 MATE_OFFSET_QUIESCENCE QFUEL (pred depth) (play g m1) 1) moves); assumption.
      + unfold roottree in Ht. rewrite forallb_forall in Ht. apply Ht. exact Hin'.
      + apply in_split in Hin'. destruct Hin' as [l1 [l2 El]].
        assert (Hp2 : Permutation (m :: l1 ++ l2) moves) by (rewrite El; apply Permutation_middle).
        rewrite (Hfst _ Hp2) in Hv.
        unfold rchildren in Hv. cbn [map] in Hv. rewrite maxl_cons in Hv.
        pose proof (maxl_ge (map (fun m0 => - fst (NR QFUEL (pred depth) (play g m0) 1)) (l1 ++ l2))
                      (Z.max (SCORE_MIN + 1) (- fst (NR QFUEL (pred depth) (play g m) 1)))).
        lia.
    - rewrite E'. eexists; eexists; split.
      + cbn [r_bscore] in Hr. rewrite (Hfst sorted Hperm). rewrite <- Hr. reflexivity.
      + destruct (r_best r'); [apply with_tbl_ok; exact Hst' | exact Hst'].
  Qed.
End ABProofs.

(* ------------------------------------------------------------------------------------------ *)
(* 4. The chess instance (Model/Search.v against Model/RefSearch.v)                              *)
(* ------------------------------------------------------------------------------------------ *)

Lemma side_safe_has_king : forall g, side_safe g = true -> side_has_king g = true.
Proof.
  intros g H. unfold side_safe in H. cbv zeta in H. apply andb_true_iff in H.
  unfold side_has_king. apply H.
Qed.

(* the tree conditions, for chess *)
Definition chess_qsep := qsep game pseudo_moves push standpat.
Definition chess_d1sep := d1sep game pseudo_moves push standpat.
Definition chess_ntree := ntree game pseudo_moves checked_moves push standpat side_safe side_has_king.
Definition chess_roottree := roottree game pseudo_moves checked_moves push standpat side_safe side_has_king.
Definition chess_d1ref := d1ref game Move pseudo_moves push standpat is_tactical side_safe side_has_king
                                SCORE_MIN MATE_OFFSET_DEPTH1 MATE_OFFSET_QUIESCENCE.
(* no table hit at the root *)
Definition chess_root_entry := root_entry game g_hash.

Theorem quiescence_bound_consistent : forall fuel g real alpha beta,
  snd (chess_qref fuel g real) = false ->
  chess_qsep fuel g real = true ->
  exists r, quiescence fuel g alpha beta real = Some r /\
            SpecR alpha beta (fst (chess_qref fuel g real)) r.
Proof.
  intros fuel g real alpha beta Hs Hq. rewrite quiescence_is_aq.
  exact (aq_spec game pseudo_moves push standpat side_safe side_has_king side_safe_has_king
           fuel g real alpha beta Hs Hq).
Qed.
Print Assumptions quiescence_bound_consistent.

Theorem depth1_bound_consistent : forall g real alpha beta,
  snd (chess_d1ref QFUEL g real) = false ->
  chess_d1sep g real = true ->
  exists r, depth1 g alpha beta real = Some r /\
            SpecR alpha beta (fst (chess_d1ref QFUEL g real)) r.
Proof.
  intros g real alpha beta Hs Hq. rewrite depth1_is_ad1.
  exact (ad1_spec game pseudo_moves push standpat side_safe side_has_king side_safe_has_king
           g real alpha beta Hs Hq).
Qed.
Print Assumptions depth1_bound_consistent.

(* the full PVS node: null-window probes and re-searches included, for every search state that
   is table-less and never stopped (so: for every killer / history content, i.e. every ordering) *)
Theorem node_bound_consistent : forall rem g st real alpha beta,
  OKst st -> SCORE_MIN <= alpha -> beta <= - SCORE_MIN ->
  snd (chess_nref QFUEL rem g real) = false ->
  chess_ntree rem g real = true ->
  exists r st', node rem g st real alpha beta = (Done r, st') /\ OKst st' /\
                SpecR alpha beta (fst (chess_nref QFUEL rem g real)) r.
Proof.
  intros rem g st real alpha beta Hst Hlo Hhi Hs Ht. rewrite node_is_anode.
  exact (anode_spec game pseudo_moves checked_moves push standpat side_safe side_has_king g_hash
           side_safe_has_king rem g st real alpha beta Hst Hlo Hhi Hs Ht).
Qed.
Print Assumptions node_bound_consistent.

Corollary node_exact_in_window : forall rem g st real alpha beta,
  OKst st -> SCORE_MIN <= alpha -> beta <= - SCORE_MIN ->
  snd (chess_nref QFUEL rem g real) = false ->
  chess_ntree rem g real = true ->
  alpha < fst (chess_nref QFUEL rem g real) < beta ->
  exists st', node rem g st real alpha beta = (Done (fst (chess_nref QFUEL rem g real)), st') /\ OKst st'.
Proof.
  intros rem g st real alpha beta Hst Hlo Hhi Hs Ht Hw.
  destruct (node_bound_consistent rem g st real alpha beta Hst Hlo Hhi Hs Ht) as [r [st' [E [Hst' Sp]]]].
  exists st'. rewrite <- (SpecR_exact _ _ _ _ Sp Hw). split; assumption.
Qed.

Theorem root_exact : forall g st depth,
  OKst st ->
  (forall m, checked_moves g <> [m]) ->
  chess_root_entry st g depth = None ->
  snd (chess_rootref QFUEL depth g (root_moves g)) = false ->
  chess_roottree depth g (root_moves g) = true ->
  fst (chess_rootref QFUEL depth g (root_moves g)) <= SCORE_MAX ->
  exists bm st', root g st depth = (Done (bm, fst (chess_rootref QFUEL depth g (root_moves g)), false), st')
                 /\ OKst st'.
Proof.
  intros g st depth Hst Hne Hre Hs Ht Hv. rewrite root_is_aroot.
  exact (aroot_exact game pseudo_moves checked_moves push standpat side_safe side_has_king g_hash g_moves
           side_safe_has_king g st depth Hst Hne Hre Hs Ht Hv).
Qed.
Print Assumptions root_exact.

(* the state the driver starts from satisfies the state condition, and an empty table never hits *)
Lemma fresh_state_ok : forall t, OKst (fresh_state t (-1) true).
Proof. intros t. unfold OKst, fresh_state. cbn. repeat split; lia. Qed.

Lemma root_entry_empty : forall g depth, chess_root_entry (fresh_state tempty (-1) true) g depth = None.
Proof.
  intros g depth. unfold chess_root_entry, root_entry, fresh_state. cbn [s_tbl].
  rewrite tfind_empty. reflexivity.
Qed.

Corollary root_exact_fresh : forall g depth,
  (forall m, checked_moves g <> [m]) ->
  snd (chess_rootref QFUEL depth g (root_moves g)) = false ->
  chess_roottree depth g (root_moves g) = true ->
  fst (chess_rootref QFUEL depth g (root_moves g)) <= SCORE_MAX ->
  exists bm st', root g (fresh_state tempty (-1) true) depth
                 = (Done (bm, fst (chess_rootref QFUEL depth g (root_moves g)), false), st').
Proof.
  intros g depth Hne Hs Ht Hv.
  destruct (root_exact g (fresh_state tempty (-1) true) depth (fresh_state_ok _) Hne
              (root_entry_empty g depth) Hs Ht Hv) as [bm [st' [E _]]].
  exists bm, st'. exact E.
Qed.
Print Assumptions root_exact_fresh.
