(* C02 for the moves the generator produces: the clauses of [Extra] (Proofs/PushApply.v) hold for
   every generated move, so abs (push g m) = Rules.apply (abs g) (abs_move m) for the moves of
   pseudo_moves / checked_moves / get_moves, with no premise about the move besides membership.
   Uses the membership-inversion lemmas of Proofs/GenOk.v. *)
From Coq Require Import Lia.
From Chess Require Import Model.Text Spec.Rules Proofs.Grid Proofs.Inv Proofs.Abs Proofs.GenOk
  Proofs.PushApply.
Open Scope Z_scope.

(* a generated promotion advances the pawn by exactly one row *)
Lemma gen_promotion_step g o k s e cap :
  In (Promotion o k s e cap) (pseudo_moves_all g) -> Z.abs (fst e - fst s) = 1.
Proof.
  intros Hin. apply pseudo_all_inv in Hin. destruct Hin as (p & self & Hsrc & Hin).
  assert (Hstep : forall m, step_shape g self p m -> m = Promotion o k s e cap -> False).
  { intros m (np & cap' & -> & _) E. discriminate. }
  pose proof (pawn_geom (po self)) as (G1 & G2 & _).
  unfold piece_moves in Hin. destruct (pk self) eqn:Ek.
  - exfalso. eapply Hstep; [|reflexivity]. apply (slider_moves_shape _ _ _ _ _ queen_dir_nz Hin).
  - exfalso. eapply Hstep; [|reflexivity]. apply (slider_moves_shape _ _ _ _ _ rook_dir_nz Hin).
  - exfalso. eapply Hstep; [|reflexivity]. apply (slider_moves_shape _ _ _ _ _ bishop_dir_nz Hin).
  - exfalso. eapply Hstep; [|reflexivity]. now apply knight_moves_shape.
  - apply pawn_moves_inv in Hin. destruct Hin as [H|[H|[H|H]]].
    + destruct H as (E & _). discriminate.
    + destruct H as (np & Ea & _ & [(_ & k' & _ & E) | (_ & E)]); [|discriminate].
      inversion E; subst. apply add_some in Ea. destruct Ea as [-> _]. cbn [fst snd]. lia.
    + destruct H as (d & np & c & Hd & Ea & _ & _ & [(_ & k' & _ & E) | (_ & E)]); [|discriminate].
      inversion E; subst. apply add_some in Ea. destruct Ea as [-> _].
      apply side_delta in Hd. destruct Hd as [Hd _]. cbn [fst snd]. lia.
    + destruct H as (E & _). discriminate.
  - unfold king_moves in Hin. apply in_app_or in Hin. destruct Hin as [Hin|Hin].
    + exfalso. eapply Hstep; [|reflexivity]. now apply king_steps_shape.
    + apply castling_moves_inv in Hin. cbv zeta in Hin.
      destruct Hin as [(E & _) | (E & _)]; discriminate.
Qed.

Theorem extra_all : forall g m, In m (pseudo_moves_all g) -> Extra g m.
Proof.
  intros g m Hin. destruct m as [pc s e cap|o k s e cap|o|o|o sc ec]; cbn [Extra]; try exact I.
  - split.
    + intros Hk. apply (gen_king_step g pc s e cap Hin Hk).
    + intros Hk ->. symmetry. apply (gen_pawn_push_file g pc s e Hin Hk).
  - apply (gen_promotion_step g o k s e cap Hin).
Qed.
Print Assumptions extra_all.

Theorem push_is_apply_pseudo : forall g m,
  RepInv g -> king_exists g White = true -> king_exists g Black = true ->
  In m (pseudo_moves g) ->
  abs (push g m) = Rules.apply (abs g) (abs_move m).
Proof.
  intros g m HR KW KB Hin. apply push_is_apply; try assumption.
  - now apply gen_ok_pseudo.
  - now apply extra_all, pseudo_in_all.
Qed.
Print Assumptions push_is_apply_pseudo.

Theorem push_is_apply_checked : forall g m,
  RepInv g -> king_exists g White = true -> king_exists g Black = true ->
  In m (checked_moves g) ->
  abs (push g m) = Rules.apply (abs g) (abs_move m).
Proof. intros g m HR KW KB Hin. apply push_is_apply_pseudo; try assumption. now apply checked_in_pseudo. Qed.
Print Assumptions push_is_apply_checked.

Theorem push_is_apply_get_moves : forall g v m,
  RepInv g -> king_exists g White = true -> king_exists g Black = true ->
  In m (get_moves g v) ->
  abs (push g m) = Rules.apply (abs g) (abs_move m).
Proof.
  intros g v m HR KW KB. unfold get_moves.
  destruct v; [now apply push_is_apply_checked | now apply push_is_apply_pseudo].
Qed.
Print Assumptions push_is_apply_get_moves.

(* sequences of generated moves: the invariant and the two kings are required of every game on
   the way (their preservation by push is the subject of Proofs/PushPop.v / the search invariant) *)
Inductive generated_line : game -> list Move -> Prop :=
| generated_nil g : generated_line g []
| generated_cons g m ms :
    RepInv g -> king_exists g White = true -> king_exists g Black = true ->
    In m (pseudo_moves g) -> generated_line (push g m) ms -> generated_line g (m :: ms).

Lemma generated_playable g ms : generated_line g ms -> playable g ms.
Proof.
  intros H. induction H as [g | g m ms HR KW KB Hin Hl IH]; constructor; try assumption.
  - now apply gen_ok_pseudo.
  - now apply extra_all, pseudo_in_all.
Qed.

Theorem push_sequence_generated g ms :
  generated_line g ms ->
  abs (fold_left push ms g) = fold_left Rules.apply (map abs_move ms) (abs g).
Proof. intros H. now apply push_sequence, generated_playable. Qed.
Print Assumptions push_sequence_generated.
