(* C10, mate in one, stated in the terms of the independent rules (Spec/Rules.v): a checked move of
   the model is a mating move ([mates], Proofs/MateOne.v) iff the rules call the position after it
   checkmate, and the driver's theorem C10_mate_in_one_reachable restated: if some rules-legal move
   of [abs g] leads to a rules checkmate, the announced move is rules-legal and leads to a rules
   checkmate.

   Side condition: [Fits] (the move buffer of MOVE_BUFFER_CAP moves does not truncate) at g and at the
   games after one checked move, i.e. [FitsTree 2 g] of Proofs/PerftProofs.v; it is what the
   completeness half of C01 needs ("no checked move" implies "no legal move"). *)
From Coq Require Import Lia.
From Chess Require Import Model.Text Model.Search Spec.Rules
  Proofs.Grid Proofs.Inv Proofs.Abs Proofs.GenOk Proofs.PushPop Proofs.PushPop2 Proofs.Reach
  Proofs.PushApply Proofs.PushApplyGen Proofs.LegalMoves Proofs.PerftProofs
  Proofs.SearchInv1 Proofs.SearchInv2 Proofs.ScoreRange1 Proofs.ScoreRange2 Proofs.MateOne.
Open Scope Z_scope.

(* the model's in-check test is the rules' [in_check] of the side to move *)
Lemma in_check_model_rules g :
  LegalInv g -> in_check_model g = in_check (abs g) (p_turn (abs g)).
Proof.
  intros ((HR & HK) & KP & _). cbn [abs p_turn]. fold (abs g).
  rewrite (in_check_targeted g (g_player g) HR (kingsinv_king g _ HK KP)).
  unfold in_check_model. rewrite KP. cbn [andb]. apply Bool.negb_involutive.
Qed.

(* a game without checked moves and in check, in the rules' words *)
Lemma mated_iff_checkmate g :
  LegalInv g -> Fits g ->
  (checked_moves g = [] /\ in_check_model g = true <-> checkmate (abs g) = true).
Proof.
  intros HL HF. unfold checkmate. rewrite <- (in_check_model_rules g HL).
  pose proof (C01_no_moves_iff g HL HF) as Hno. split.
  - intros [Hd Hc]. rewrite Hc, (proj1 Hno Hd). reflexivity.
  - intros H. apply Bool.andb_true_iff in H. destruct H as [Hc Hl]. split; [|exact Hc].
    apply Hno. destruct (legal_moves (abs g)); [reflexivity | discriminate].
Qed.

Theorem mates_iff_rules_checkmate g m :
  legal_reachable g -> In m (checked_moves g) -> Fits (push g m) ->
  (mates g m <-> checkmate (Rules.apply (abs g) (abs_move m)) = true).
Proof.
  intros Hr Hin HF. pose proof (legal_reachable_legalinv g Hr) as HL.
  destruct (LegalInv_kings g HL) as [KW KB].
  rewrite <- (push_is_apply_checked g m (LegalInv_repinv g HL) KW KB Hin).
  pose proof (mated_iff_checkmate (push g m) (legalinv_push g m HL Hin) HF) as H.
  unfold mates. split.
  - intros (_ & Hd & Hc). apply H. now split.
  - intros Hc. destruct (proj2 H Hc) as [Hd Hk]. repeat split; assumption.
Qed.

(* the form asked for: [mates] = a checked move followed by a rules checkmate *)
Corollary mates_iff_checked_and_checkmate g m :
  legal_reachable g -> (forall x, In x (checked_moves g) -> Fits (push g x)) ->
  (mates g m <-> In m (checked_moves g) /\ checkmate (Rules.apply (abs g) (abs_move m)) = true).
Proof.
  intros Hr HF. split.
  - intros Hm. pose proof (proj1 Hm) as Hin. split; [exact Hin|].
    now apply (mates_iff_rules_checkmate g m Hr Hin (HF m Hin)).
  - intros [Hin Hc]. now apply (mates_iff_rules_checkmate g m Hr Hin (HF m Hin)).
Qed.

(* and a mating move is a legal move of the rules *)
Lemma mates_rules_legal g m : legal_reachable g -> mates g m -> legal (abs g) (abs_move m) = true.
Proof. intros Hr Hm. apply checked_sound; [now apply legal_reachable_legalinv | exact (proj1 Hm)]. Qed.

(* a rules-legal move leading to a rules checkmate is (the abstraction of) a mating move of the model *)
Lemma rules_mate_gives_mates g sm :
  legal_reachable g -> FitsTree 2 g ->
  legal (abs g) sm = true -> checkmate (Rules.apply (abs g) sm) = true ->
  exists m, mates g m /\ abs_move m = sm.
Proof.
  intros Hr [HF HT] Hl Hc. pose proof (legal_reachable_legalinv g Hr) as HL.
  destruct (checked_complete g sm HL HF Hl) as (m & Hin & <-).
  exists m. split; [|reflexivity].
  apply (mates_iff_rules_checkmate g m Hr Hin); [exact (proj1 (HT m Hin)) | exact Hc].
Qed.

(* C10, mate in one, in the rules' terms *)
Theorem C10_mate_in_one_rules g limit stop_at :
  legal_reachable g -> Bounded g -> FitsTree 2 g ->
  (exists sm, legal (abs g) sm = true /\ checkmate (Rules.apply (abs g) sm) = true) ->
  LimitOK limit -> NoCollision g -> stop_at < 0 ->
  exists m', d_move (driver g tempty limit stop_at false) = Some m' /\
             legal (abs g) (abs_move m') = true /\
             checkmate (Rules.apply (abs g) (abs_move m')) = true.
Proof.
  intros Hr Hb HF (sm & Hl & Hc) HL Hnc Hs.
  destruct (rules_mate_gives_mates g sm Hr HF Hl Hc) as (m & Hm & _).
  destruct (C10_mate_in_one_reachable g limit stop_at Hr Hb (ex_intro _ m Hm) HL Hnc Hs) as (m' & E & Hm').
  exists m'. split; [exact E|]. split; [now apply mates_rules_legal|].
  apply (mates_iff_rules_checkmate g m' Hr (proj1 Hm')); [|exact Hm'].
  exact (proj1 (proj2 HF m' (proj1 Hm'))).
Qed.

(* with the rules' own [forced_mate_in 1] as the premise and [keeps_mate 0] as the conclusion *)
Corollary C10_mate_in_one_forced g limit stop_at :
  legal_reachable g -> Bounded g -> FitsTree 2 g -> forced_mate_in 1 (abs g) = true ->
  LimitOK limit -> NoCollision g -> stop_at < 0 ->
  exists m', d_move (driver g tempty limit stop_at false) = Some m' /\
             In (abs_move m') (legal_moves (abs g)) /\ keeps_mate 0 (abs g) (abs_move m') = true.
Proof.
  intros Hr Hb HF Hf HL Hnc Hs. cbn [forced_mate_in] in Hf.
  apply existsb_exists in Hf. destruct Hf as (sm & Hin & Hc). cbv zeta in Hc.
  assert (Hcm : checkmate (Rules.apply (abs g) sm) = true).
  { apply Bool.orb_true_iff in Hc. destruct Hc as [Hc|Hc]; [exact Hc|].
    apply Bool.andb_true_iff in Hc. destruct Hc as [Hne Hall].
    destruct (legal_moves (Rules.apply (abs g) sm)) as [|r l] eqn:El; [discriminate|].
    cbn [forallb forced_mate_in] in Hall. discriminate. }
  destruct (C10_mate_in_one_rules g limit stop_at Hr Hb HF) as (m' & E & Hl' & Hc'); try assumption.
  { exists sm. split; [now apply legal_moves_legal | exact Hcm]. }
  exists m'. split; [exact E|]. split.
  - pose proof (C10_mate_in_one_reachable g limit stop_at Hr Hb) as Hmodel.
    destruct (rules_mate_gives_mates g sm Hr HF (legal_moves_legal _ _ Hin) Hcm) as (m0 & Hm0 & _).
    destruct (Hmodel (ex_intro _ m0 Hm0) HL Hnc Hs) as (m2 & E2 & Hm2).
    rewrite E in E2. injection E2 as <-.
    apply (Permutation.Permutation_in (abs_move m')
             (C01_checked_exact_moves g (legal_reachable_legalinv g Hr) (proj1 HF))).
    apply in_map. exact (proj1 Hm2).
  - unfold keeps_mate. cbv zeta. rewrite Hc'. reflexivity.
Qed.

(* non-vacuity: the back-rank mate of Proofs/MateOne.v *)
Example back_rank_r_rules :
  FitsTree 2 BACK_RANK_R /\
  legal (abs BACK_RANK_R) (abs_move Ra8) = true /\
  checkmate (Rules.apply (abs BACK_RANK_R) (abs_move Ra8)) = true.
Proof. split; [apply fits_tree_b_sound | split]; vm_compute; reflexivity. Qed.

From Coq Require Import String.
Open Scope string_scope.
Example back_rank_r_legal_reachable : legal_reachable BACK_RANK_R.
Proof.
  apply (lr_import (txt "6k1/5ppp/8/8/8/8/8/R3K3 w Q - 0 1")); vm_compute; reflexivity.
Qed.

Print Assumptions mates_iff_rules_checkmate.
Print Assumptions mates_iff_checked_and_checkmate.
Print Assumptions C10_mate_in_one_rules.
Print Assumptions C10_mate_in_one_forced.

(* the theorem on the instance: a rules-legal move to a rules checkmate is announced *)
Example back_rank_r_rules_mates limit :
  LimitOK limit ->
  exists m', d_move (driver BACK_RANK_R tempty limit (-1) false) = Some m' /\
             legal (abs BACK_RANK_R) (abs_move m') = true /\
             checkmate (Rules.apply (abs BACK_RANK_R) (abs_move m')) = true.
Proof.
  intros HL. destruct back_rank_r_rules as (HF & Hl & Hc).
  destruct back_rank_r_hyps as (_ & _ & H3 & _).
  apply C10_mate_in_one_rules; try assumption.
  - exact back_rank_r_legal_reachable.
  - exact (proj2 back_rank_r_good).
  - exists (abs_move Ra8). now split.
  - now apply no_collision_b_ok.
  - lia.
Qed.

Print Assumptions back_rank_r_rules.
Print Assumptions back_rank_r_rules_mates.
