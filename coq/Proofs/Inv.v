(* The representation invariant of the concrete game record and the basic facts about
   set_position. Definitions shared by all proofs about push / pop / import. *)
From Coq Require Import Lia.
From Chess Require Import Model.Text Proofs.Grid.
Open Scope Z_scope.

(* ---- i16 wrap-around --------------------------------------------------------------------------- *)

Definition in_i16 (z : Z) : Prop := -32768 <= z <= 32767.

Lemma wrap16_range z : in_i16 (wrap16 z).
Proof.
  unfold wrap16, in_i16.
  destruct ((-32768 <=? z) && (z <=? 32767)) eqn:E.
  - apply andb_true_iff in E. destruct E as [E1 E2]. apply Z.leb_le in E1, E2. lia.
  - pose proof (Z.mod_pos_bound (z + 32768) 65536 ltac:(lia)). lia.
Qed.

Lemma wrap16_mod z : wrap16 z mod 65536 = z mod 65536.
Proof.
  unfold wrap16. destruct ((-32768 <=? z) && (z <=? 32767)); [reflexivity|].
  rewrite Zminus_mod_idemp_l. f_equal. lia.
Qed.

Lemma wrap16_id z : in_i16 z -> wrap16 z = z.
Proof.
  unfold in_i16, wrap16. intros [H1 H2].
  replace ((-32768 <=? z) && (z <=? 32767)) with true; [reflexivity|].
  symmetry. apply andb_true_iff. split; apply Z.leb_le; lia.
Qed.

Lemma cong16_eq a b : in_i16 a -> in_i16 b -> a mod 65536 = b mod 65536 -> a = b.
Proof.
  unfold in_i16. intros Ha Hb H.
  assert ((a - b) mod 65536 = 0) as H0.
  { rewrite Zminus_mod, H, Z.sub_diag. reflexivity. }
  apply Z.mod_divide in H0; [|lia]. destruct H0 as [k Hk]. lia.
Qed.

(* xor identities: compare bit by bit *)
Ltac xor_solve :=
  apply N.bits_inj; intros ?n; rewrite ?N.lxor_spec, ?N.bits_0;
  repeat match goal with |- context [N.testbit ?x ?n] => destruct (N.testbit x n) end; reflexivity.

(* ---- sums and xors over the 64 squares ----------------------------------------------------------- *)

Definition xors (l : list N) : N := fold_left N.lxor l 0%N.
Definition xor_all (f : pos -> N) : N := xors (map f squares64).
Definition sum_all (f : pos -> Z) : Z := fold_right Z.add 0 (map f squares64).

Lemma xors_acc l a : fold_left N.lxor l a = N.lxor a (xors l).
Proof.
  unfold xors. revert a. induction l as [|x t IH]; intros a; cbn [fold_left].
  - now rewrite N.lxor_0_r.
  - rewrite IH. rewrite (IH (N.lxor 0 x)). rewrite N.lxor_0_l. now rewrite N.lxor_assoc.
Qed.

Lemma xors_cons x l : xors (x :: l) = N.lxor x (xors l).
Proof. unfold xors at 1. cbn [fold_left]. rewrite N.lxor_0_l. apply xors_acc. Qed.

Lemma xors_app l1 l2 : xors (l1 ++ l2) = N.lxor (xors l1) (xors l2).
Proof.
  induction l1 as [|x t IH]; cbn [app].
  - unfold xors at 2. cbn. now rewrite N.lxor_0_l.
  - rewrite !xors_cons, IH. now rewrite N.lxor_assoc.
Qed.

Lemma xor_all_update (f f' : pos -> N) p :
  valid p -> (forall q, q <> p -> f' q = f q) ->
  xor_all f' = N.lxor (N.lxor (xor_all f) (f p)) (f' p).
Proof.
  intros Hv Hext. unfold xor_all.
  destruct (in_split_nodup p squares64 (proj2 (squares64_valid p) Hv) squares64_nodup)
    as (l1 & l2 & -> & Hn1 & Hn2).
  rewrite !map_app. cbn [map]. rewrite !xors_app, !xors_cons.
  rewrite (map_ext_except f' f l1 p Hn1 Hext), (map_ext_except f' f l2 p Hn2 Hext).
  set (a := xors (map f l1)). set (b := xors (map f l2)).
  generalize (f p) (f' p). intros x y. xor_solve.
Qed.

Lemma sum_app l1 l2 : fold_right Z.add 0 (l1 ++ l2) = fold_right Z.add 0 l1 + fold_right Z.add 0 l2.
Proof. induction l1 as [|x t IH]; cbn [app fold_right]; [lia | rewrite IH; lia]. Qed.

Lemma sum_all_update (f f' : pos -> Z) p :
  valid p -> (forall q, q <> p -> f' q = f q) ->
  sum_all f' = sum_all f - f p + f' p.
Proof.
  intros Hv Hext. unfold sum_all.
  destruct (in_split_nodup p squares64 (proj2 (squares64_valid p) Hv) squares64_nodup)
    as (l1 & l2 & -> & Hn1 & Hn2).
  rewrite !map_app. cbn [map]. rewrite !sum_app. cbn [fold_right].
  rewrite (map_ext_except f' f l1 p Hn1 Hext), (map_ext_except f' f l2 p Hn2 Hext). lia.
Qed.

Lemma xor_all_ext f f' : (forall p, valid p -> f p = f' p) -> xor_all f = xor_all f'.
Proof.
  intros H. unfold xor_all. f_equal. apply map_ext_in. intros p Hp. apply H. now apply squares64_valid.
Qed.

Lemma sum_all_ext f f' : (forall p, valid p -> f p = f' p) -> sum_all f = sum_all f'.
Proof.
  intros H. unfold sum_all. f_equal. apply map_ext_in. intros p Hp. apply H. now apply squares64_valid.
Qed.

(* ---- the invariant ----------------------------------------------------------------------------------- *)

Definition cell_score (kend : bool) (o : option piece) (p : pos) : Z :=
  match o with Some pc => piece_score kend pc p | None => 0 end.

Definition side_key (c : color) : N := match c with Black => KEY_BLACK_TO_MOVE | White => 0%N end.

Definition board_hash (b : board) : N := xor_all (fun p => key_place p (bget b p)).
Definition board_sum (kend : bool) (b : board) : Z := sum_all (fun p => cell_score kend (bget b p) p).

Definition state_ok (s : gstate) : Prop := 0 <= st_ep s <= 8.

(* the caches agree with the board; the running totals agree with the caches *)
Record CacheInv (g : game) : Prop := mkCacheInv {
  ci_board : wf_grid (g_board g);
  ci_ps_wf : wf_grid (g_pscores g);
  ci_ph_wf : wf_grid (g_phashes g);
  ci_ph : forall p, valid p -> grid_get (g_phashes g) p 0%N = key_place p (bget (g_board g) p);
  ci_ps : forall p, valid p -> grid_get (g_pscores g) p 0 = cell_score (g_kend g) (bget (g_board g) p) p;
  ci_hash : g_hash g = N.lxor (N.lxor (board_hash (g_board g)) (side_key (g_player g)))
                              (key_state (state_byte (gstate_of g)));
  ci_score_rng : in_i16 (g_score g);
  ci_score : g_score g mod 65536 = board_sum (g_kend g) (g_board g) mod 65536
}.

Definition is_king_of (o : option piece) (c : color) : Prop := o = Some (mkPiece King c).

(* kings, castling rights and the en passant file are consistent with the board *)
Record RuleInv (g : game) : Prop := mkRuleInv {
  ri_states : g_states g <> [];
  ri_state_ok : state_ok (gstate_of g);
  ri_wking : valid (g_wking g);
  ri_bking : valid (g_bking g);
  (* a king on the board is the one the cache points at (so at most one king per colour) *)
  ri_kings : forall p c, valid p -> bget (g_board g) p = Some (mkPiece King c) -> king_pos g c = p;
  (* a castling right of a side whose king is on the board: king and rook on their home squares *)
  ri_castle : forall c, king_exists g c = true ->
      ((match c with White => st_wk | Black => st_bk end) (gstate_of g) = true ->
         bget (g_board g) (home_row c, 4) = Some (mkPiece King c)
         /\ bget (g_board g) (home_row c, 7) = Some (mkPiece Rook c))
      /\ ((match c with White => st_wq | Black => st_bq end) (gstate_of g) = true ->
         bget (g_board g) (home_row c, 4) = Some (mkPiece King c)
         /\ bget (g_board g) (home_row c, 0) = Some (mkPiece Rook c));
  (* a recorded en passant file: the pawn that just advanced two squares stands beside the
     capturer's row, the square it passed over is empty *)
  ri_ep : st_ep (gstate_of g) < 8 ->
      bget (g_board g) (fst (ep_rows (g_player g)), st_ep (gstate_of g))
        = Some (mkPiece Pawn (other (g_player g)))
      /\ bget (g_board g) (snd (ep_rows (g_player g)), st_ep (gstate_of g)) = None
}.

Definition RepInv (g : game) : Prop := CacheInv g /\ RuleInv g.

(* ---- set_position ------------------------------------------------------------------------------------ *)

Lemma bget_bset_same b p v : wf_grid b -> valid p -> bget (bset b p v) p = v.
Proof. intros. unfold bget, bset. now apply grid_get_set_same. Qed.

Lemma bget_bset_other b p q v : p <> q -> bget (bset b p v) q = bget b q.
Proof. intros. unfold bget, bset. now apply grid_get_set_other. Qed.

Lemma board_hash_set b p v :
  wf_grid b -> valid p ->
  board_hash (bset b p v) = N.lxor (N.lxor (board_hash b) (key_place p (bget b p))) (key_place p v).
Proof.
  intros Hwf Hv. unfold board_hash.
  rewrite (xor_all_update (fun q => key_place q (bget b q)) (fun q => key_place q (bget (bset b p v) q)) p Hv).
  - now rewrite bget_bset_same.
  - intros q Hq. rewrite bget_bset_other by congruence. reflexivity.
Qed.

Lemma board_sum_set kend b p v :
  wf_grid b -> valid p ->
  board_sum kend (bset b p v) = board_sum kend b - cell_score kend (bget b p) p + cell_score kend v p.
Proof.
  intros Hwf Hv. unfold board_sum.
  rewrite (sum_all_update (fun q => cell_score kend (bget b q) q)
                          (fun q => cell_score kend (bget (bset b p v) q) q) p Hv).
  - now rewrite bget_bset_same.
  - intros q Hq. rewrite bget_bset_other by congruence. reflexivity.
Qed.

(* the fields set_position leaves alone *)
Lemma set_position_fields g p v :
  g_player (set_position g p v) = g_player g /\ g_moves (set_position g p v) = g_moves g
  /\ g_endgame (set_position g p v) = g_endgame g /\ g_kend (set_position g p v) = g_kend g
  /\ g_wking (set_position g p v) = g_wking g /\ g_bking (set_position g p v) = g_bking g
  /\ g_states (set_position g p v) = g_states g
  /\ g_board (set_position g p v) = bset (g_board g) p v.
Proof. unfold set_position. cbn. repeat split. Qed.

Lemma set_position_board g p v : g_board (set_position g p v) = bset (g_board g) p v.
Proof. reflexivity. Qed.

Lemma lxor_cancel3 a b c : N.lxor (N.lxor (N.lxor a b) c) b = N.lxor a c.
Proof.
  xor_solve.
Qed.

Lemma set_position_hash g p v :
  g_hash (set_position g p v) = N.lxor (N.lxor (g_hash g) (grid_get (g_phashes g) p 0%N)) (key_place p v).
Proof. reflexivity. Qed.
Lemma set_position_score g p v :
  g_score (set_position g p v) = wrap16 (wrap16 (g_score g - grid_get (g_pscores g) p 0) + cell_score (g_kend g) v p).
Proof. destruct v; reflexivity. Qed.
Lemma set_position_ps g p v :
  g_pscores (set_position g p v) = grid_set (g_pscores g) p (cell_score (g_kend g) v p).
Proof. destruct v; reflexivity. Qed.
Lemma set_position_ph g p v :
  g_phashes (set_position g p v) = grid_set (g_phashes g) p (key_place p v).
Proof. reflexivity. Qed.
Lemma set_position_kend g p v : g_kend (set_position g p v) = g_kend g.
Proof. reflexivity. Qed.
Lemma set_position_player g p v : g_player (set_position g p v) = g_player g.
Proof. reflexivity. Qed.
Lemma set_position_states g p v : g_states (set_position g p v) = g_states g.
Proof. reflexivity. Qed.
Lemma set_position_gstate g p v : gstate_of (set_position g p v) = gstate_of g.
Proof. reflexivity. Qed.
Lemma set_position_kings g p v c : king_pos (set_position g p v) c = king_pos g c.
Proof. destruct c; reflexivity. Qed.

Lemma set_position_cache g p v : CacheInv g -> valid p -> CacheInv (set_position g p v).
Proof.
  intros [Hb Hps Hph Hphv Hpsv Hh Hr Hs] Hv.
  constructor;
    rewrite ?set_position_board, ?set_position_hash, ?set_position_score, ?set_position_ps,
      ?set_position_ph, ?set_position_kend, ?set_position_player, ?set_position_gstate.
  - now apply wf_grid_set.
  - now apply wf_grid_set.
  - now apply wf_grid_set.
  - intros q Hq. destruct (pos_eqb p q) eqn:E.
    + apply pos_eqb_eq in E. subst q. rewrite grid_get_set_same by assumption.
      now rewrite bget_bset_same.
    + assert (p <> q) by (intros ->; rewrite pos_eqb_refl in E; discriminate).
      rewrite grid_get_set_other by assumption.
      rewrite bget_bset_other by assumption. now apply Hphv.
  - intros q Hq. destruct (pos_eqb p q) eqn:E.
    + apply pos_eqb_eq in E. subst q. rewrite grid_get_set_same by assumption.
      rewrite bget_bset_same by assumption. reflexivity.
    + assert (p <> q) by (intros ->; rewrite pos_eqb_refl in E; discriminate).
      rewrite grid_get_set_other by assumption.
      rewrite bget_bset_other by assumption. now apply Hpsv.
  - rewrite board_hash_set by assumption.
    rewrite Hphv by assumption. rewrite Hh.
    set (B := board_hash (g_board g)). set (S := side_key (g_player g)).
    set (K := key_state (state_byte (gstate_of g))).
    set (o := key_place p (bget (g_board g) p)). set (n := key_place p v).
    clearbody B S K o n. xor_solve.
  - apply wrap16_range.
  - rewrite board_sum_set by assumption.
    rewrite Hpsv by assumption. rewrite wrap16_mod.
    rewrite <- Zplus_mod_idemp_l, wrap16_mod, Zplus_mod_idemp_l.
    set (n := cell_score (g_kend g) v p).
    set (o := cell_score (g_kend g) (bget (g_board g) p) p).
    rewrite <- Zplus_mod_idemp_l, <- Zminus_mod_idemp_l, Hs, Zminus_mod_idemp_l, Zplus_mod_idemp_l.
    reflexivity.
Qed.

(* ---- what every generated move looks like --------------------------------------------------------------
   [gen_ok g m]: the facts about a move value relative to the game that generation guarantees and
   that push / pop / the text functions rely on. Proofs/GenOk.v shows that every move of
   [pseudo_moves_all g] satisfies it under [RepInv g]. *)

Definition promo_kind (k : kind) : Prop := k = Queen \/ k = Rook \/ k = Bishop \/ k = Knight.

Definition gen_ok (g : game) (m : Move) : Prop :=
  let b := g_board g in
  match m with
  | Normal pc s e cap =>
      valid s /\ valid e /\ s <> e /\ bget b s = Some pc /\ bget b e = cap
      /\ po pc = g_player g /\ (forall c, cap = Some c -> po c <> g_player g)
  | Promotion o k s e cap =>
      o = g_player g /\ promo_kind k /\ valid s /\ valid e /\ s <> e
      /\ fst e = PAWN_LAST_ROW o
      /\ bget b s = Some (mkPiece Pawn o) /\ bget b e = cap
      /\ (forall c, cap = Some c -> po c <> o)
  | EnPassant o sc ec =>
      o = g_player g /\ 0 <= sc < 8 /\ 0 <= ec < 8 /\ Z.abs (ec - sc) = 1
      /\ st_ep (gstate_of g) = ec
      /\ bget b (fst (ep_rows o), sc) = Some (mkPiece Pawn o)
      /\ bget b (fst (ep_rows o), ec) = Some (mkPiece Pawn (other o))
      /\ bget b (snd (ep_rows o), ec) = None
  | CastlingShort o =>
      o = g_player g /\ king_pos g o = (home_row o, 4)
      /\ bget b (home_row o, 4) = Some (mkPiece King o) /\ bget b (home_row o, 7) = Some (mkPiece Rook o)
      /\ bget b (home_row o, 5) = None /\ bget b (home_row o, 6) = None
  | CastlingLong o =>
      o = g_player g /\ king_pos g o = (home_row o, 4)
      /\ bget b (home_row o, 4) = Some (mkPiece King o) /\ bget b (home_row o, 0) = Some (mkPiece Rook o)
      /\ bget b (home_row o, 1) = None /\ bget b (home_row o, 2) = None /\ bget b (home_row o, 3) = None
  end.
