(* The property-level theorems, part 2: the search (C06, C07, C08, C10, C18) instantiated with the chess invariant
   Good := RepInv /\ KingsInv and with the fuel bound of Proofs/BoundsQ.v. *)
From Coq Require Import Lia.
From Chess Require Import Model.Text Model.Search.
From Chess Require Import Proofs.Grid Proofs.Inv Proofs.Abs Proofs.GenOk Proofs.PushPop Proofs.PushPop2 Proofs.Reach
  Proofs.SearchInv1 Proofs.SearchInv2 Proofs.Bounds Proofs.BoundsQ Proofs.BoundsInst Proofs.TopCore.
Open Scope Z_scope.

Lemma good_search_good g : Good g <-> SearchGood g.
Proof. unfold Good, SearchGood. tauto. Qed.

Lemma good_push_checked g m : Good g -> In m (checked_moves g) -> Good (push g m).
Proof. intros Hg Hin. apply good_push; [exact Hg | exact (checked_in_pseudo g m Hin)]. Qed.

Lemma good_quiescence_total g a b r : Good g -> quiescence QFUEL g a b r <> None.
Proof.
  intros Hg. destruct (C15_quiescence_total g a b r (proj1 (good_search_good g) Hg)) as [z Hz].
  - pose proof (mu_bound g). pose proof qfuel_covers_all_boards. lia.
  - congruence.
Qed.

Lemma good_depth1_total g a b r : Good g -> depth1 g a b r <> None.
Proof.
  intros Hg. destruct (C15_depth1_total g a b r (proj1 (good_search_good g) Hg)) as [z Hz].
  - pose proof (mu_bound g). pose proof qfuel_covers_all_boards. lia.
  - congruence.
Qed.


(* ---- C06 / C07 / C08 / C18: the search, instantiated with the chess invariant -------------------------------- *)

Definition SoundTable (t : table) : Prop := TableSound Good t.

Theorem top_driver_move g t limit stop_at tableless m :
  Good g -> SoundTable t -> d_move (driver g t limit stop_at tableless) = Some m ->
  In m (checked_moves g) \/ collision_witness Good g m.
Proof. exact (driver_move_sound_sharp Good good_push_checked g t limit stop_at tableless m). Qed.

Theorem top_driver_table g t limit stop_at tableless :
  Good g -> SoundTable t -> SoundTable (s_tbl (d_st (driver g t limit stop_at tableless))).
Proof. exact (driver_table_sound Good good_push_checked g t limit stop_at tableless). Qed.

Theorem top_driver_lines g t limit stop_at tableless :
  Good g -> SoundTable t -> Forall (LineOK Good g) (d_lines (driver g t limit stop_at tableless)).
Proof. exact (driver_lines_sound Good good_push_checked g t limit stop_at tableless). Qed.

Theorem top_empty_table_sound : SoundTable tempty.
Proof. intros h e Hf. rewrite tfind_tempty in Hf. discriminate. Qed.

Theorem top_no_poll_after_stop g t limit stop_at tableless :
  Good g -> s_after (d_st (driver g t limit stop_at tableless)) = 0.
Proof. exact (driver_no_poll_after_stop Good good_push_checked g t limit stop_at tableless). Qed.

Theorem top_polls_bounded g t limit N tableless :
  Good g -> 0 <= N -> s_polls (d_st (driver g t limit N tableless)) <= N + 1.
Proof. exact (driver_polls_bounded Good good_push_checked g t limit N tableless). Qed.

Theorem top_driver_fuel g t limit stop_at tableless :
  Good g -> d_fuel_ok (driver g t limit stop_at tableless) = true.
Proof.
  exact (driver_fuel_ok Good good_push_checked good_quiescence_total good_depth1_total g t limit stop_at tableless).
Qed.

Theorem top_iterations_complete g t limit tableless it :
  Good g -> In it (driver_iterations g t limit (-1) tableless) ->
  exists b s o, it_end it = IDone b s o.
Proof.
  exact (driver_all_iterations_complete Good good_push_checked good_quiescence_total good_depth1_total
           g t limit tableless it).
Qed.

(* ---- C10: a dead root is reported as such ---------------------------------------------------------------------- *)

Theorem top_dead_root g t limit stop_at tableless :
  Good g -> SoundTable t -> checked_moves g = [] ->
  d_move (driver g t limit stop_at tableless) = None
  \/ exists m, d_move (driver g t limit stop_at tableless) = Some m /\ collision_witness Good g m.
Proof.
  intros Hg Ht He. destruct (d_move (driver g t limit stop_at tableless)) as [m|] eqn:E; [right | left; reflexivity].
  exists m. split; [reflexivity|].
  destruct (top_driver_move g t limit stop_at tableless m Hg Ht E) as [Hin | Hc]; [|exact Hc].
  rewrite He in Hin. destruct Hin.
Qed.

