(* C09, second part: a separation condition that real chess trees can satisfy.

   Proofs/AlphaBeta.v proves exactness under [qsep] (at a king-less leaf the stand-pat is not
   above the king-capture score MIN + 3000 + real).  In chess a king-less side stands around
   -9 500 while the king-capture score is about -29 765, so [qsep] fails on every tree that
   contains a king capture.  Here the leaf rule of the engine at such a leaf R is described by
   an INTERVAL: the engine answers beta when beta <= max alpha (standpat R), else
   K = MIN + 3000 + real, and both answers are consistent with any value in
   [K, max (standpat R) K].  Intervals are propagated through the tree by negamax
   ([qiv], [d1iv], [niv], [rootiv]; the reference value of Spec/Negamax.v always lies inside,
   lemma [niv_encl]).  Every search function is shown consistent with the interval of its node
   ([ISpec]), for the full PVS logic, and the root is exact whenever the root interval is a
   point:  lo = hi  means that no choice of values for the king-capture leaves inside their
   intervals changes the root value - the decidable, window- and order-independent form of
   "king-capture scores are separated from the scores that matter". *)
From Coq Require Import Lia Permutation FSets.FMapPositive Wf_nat.
From Chess Require Import Model.Search Spec.Negamax Model.RefSearch Proofs.AlphaBeta.

Open Scope Z_scope.
Strategy opaque [QFUEL].

Definition ISpec (alpha beta lo hi r : Z) : Prop := Z.min beta lo <= r <= Z.max alpha hi.

Lemma ISpec_point : forall alpha beta v r, ISpec alpha beta v v r <-> SpecR alpha beta v r.
Proof. unfold ISpec, SpecR. tauto. Qed.

(* maximum of a non-empty list (0 on the empty list, never used) *)
Definition maxne (l : list Z) : Z := match l with [] => 0 | x :: t => maxl t x end.

Lemma maxl_maxne : forall x l a, maxl (x :: l) a = Z.max a (maxne (x :: l)).
Proof. intros. apply maxl_base. Qed.

Lemma maxl_map_le : forall (A : Type) (f h : A -> Z) l a b,
  (forall x, In x l -> f x <= h x) -> a <= b -> maxl (map f l) a <= maxl (map h l) b.
Proof.
  intros A f h. induction l as [|x l IH]; intros a b Hfh Hab.
  - exact Hab.
  - cbn [map]. rewrite !maxl_cons. apply IH.
    + intros y Hy. apply Hfh. right. exact Hy.
    + specialize (Hfh x (or_introl eq_refl)). lia.
Qed.

Lemma maxne_map_le : forall (A : Type) (f h : A -> Z) l,
  (forall x, In x l -> f x <= h x) -> maxne (map f l) <= maxne (map h l).
Proof.
  intros A f h [|x l] Hfh.
  - cbn. lia.
  - cbn [map maxne]. apply maxl_map_le.
    + intros y Hy. apply Hfh. right. exact Hy.
    + apply Hfh. left. reflexivity.
Qed.

Lemma maxl_attained : forall l d, maxl l d = d \/ In (maxl l d) l.
Proof.
  induction l as [|x l IH]; intros d.
  - left. reflexivity.
  - rewrite maxl_cons. destruct (IH (Z.max d x)) as [E|Hin].
    + rewrite E. destruct (Z.max_spec d x) as [[_ ->]|[_ ->]]; [right; left; reflexivity | left; reflexivity].
    + right. right. exact Hin.
Qed.

Lemma maxl_in_le : forall l d x, In x l -> x <= maxl l d.
Proof.
  induction l as [|y l IH]; intros d x Hin; [destruct Hin|].
  rewrite maxl_cons. destruct Hin as [->|Hin].
  - pose proof (maxl_ge l (Z.max d x)). lia.
  - apply IH. exact Hin.
Qed.

Section IV.
  Variable G : Type.
  Variable unchecked checked : G -> list Move.
  Variable play : G -> Move -> G.
  Variable standpat : G -> Z.
  Variable safe hasking : G -> bool.
  Variable ghash : G -> N.
  Variable gmoves : G -> list Move.
  Hypothesis safe_hasking : forall g, safe g = true -> hasking g = true.

  Let QR := qref G Move unchecked play standpat is_tactical safe hasking SCORE_MIN MATE_OFFSET_QUIESCENCE.
  Let D1R := d1ref G Move unchecked play standpat is_tactical safe hasking SCORE_MIN
                   MATE_OFFSET_DEPTH1 MATE_OFFSET_QUIESCENCE.
  Let NR := nref G Move unchecked checked play standpat is_tactical safe hasking SCORE_MIN
                 MATE_OFFSET_NODE MATE_OFFSET_DEPTH1 MATE_OFFSET_QUIESCENCE.
  Let RR := rootref G Move unchecked checked play standpat is_tactical safe hasking SCORE_MIN
                 MATE_OFFSET_NODE MATE_OFFSET_DEPTH1 MATE_OFFSET_QUIESCENCE.
  Let AQ := aq G unchecked play standpat safe.
  Let AD1 := ad1 G unchecked play standpat safe.
  Let AN := anode G unchecked checked play standpat safe ghash.
  Let AR := aroot G unchecked checked play standpat safe ghash gmoves.

  (* ---- interval negamax ---- *)
  Definition Kq (real : Z) : Z := SCORE_MIN + MATE_OFFSET_QUIESCENCE + real.

  Fixpoint qiv (fuel : nat) (g : G) (real : Z) : Z * Z :=
    match fuel with
    | O => (0, 0)
    | S f =>
        match unchecked g with
        | [] => (Kq real, Z.max (standpat g) (Kq real))
        | ms =>
            let tac := filter is_tactical ms in
            (maxl (map (fun m => - snd (qiv f (play g m) (Z.min 255 (real + 1)))) tac) (standpat g),
             maxl (map (fun m => - fst (qiv f (play g m) (Z.min 255 (real + 1)))) tac) (standpat g))
        end
    end.

  Definition d1iv (g : G) (real : Z) : Z * Z :=
    match unchecked g with
    | [] => (anms G safe g MATE_OFFSET_DEPTH1 real, anms G safe g MATE_OFFSET_DEPTH1 real)
    | ms => (maxne (map (fun m => - snd (qiv QFUEL (play g m) (real + 1))) ms),
             maxne (map (fun m => - fst (qiv QFUEL (play g m) (real + 1))) ms))
    end.

  Fixpoint niv (rem : nat) (g : G) (real : Z) : Z * Z :=
    match rem with
    | O => qiv QFUEL g real
    | S O => d1iv g real
    | S (S _ as rem') =>
        match checked g with
        | [] => (anms G safe g MATE_OFFSET_NODE real, anms G safe g MATE_OFFSET_NODE real)
        | ms => (maxne (map (fun m => - snd (niv rem' (play g m) (real + 1))) ms),
                 maxne (map (fun m => - fst (niv rem' (play g m) (real + 1))) ms))
        end
    end.

  Definition rootiv (depth : nat) (g : G) (moves : list Move) : Z * Z :=
    (maxl (map (fun m => - snd (niv (pred depth) (play g m) 1)) moves) (SCORE_MIN + 1),
     maxl (map (fun m => - fst (niv (pred depth) (play g m) 1)) moves) (SCORE_MIN + 1)).

  (* ---- the reference value lies in the interval ---- *)
  Lemma qiv_encl : forall f g real, snd (QR f g real) = false ->
    fst (qiv f g real) <= fst (QR f g real) <= snd (qiv f g real).
  Proof.
    induction f as [|f IH]; intros g real Hs.
    - unfold QR in Hs. cbn in Hs. discriminate.
    - destruct (unchecked g) as [|m0 ms] eqn:E.
      + unfold QR in *. cbn [qref qiv] in *. rewrite E in *. cbn [fst snd] in *.
        assert (Hsafe : safe g = false).
        { destruct (safe g) eqn:S1; [|reflexivity]. apply safe_hasking in S1. congruence. }
        rewrite Hsafe. unfold Kq. lia.
      + assert (Hne : unchecked g <> []) by congruence.
        unfold QR at 1 2. rewrite (qref_fst_nonleaf G unchecked play standpat safe hasking f g real Hne).
        cbn [qiv]. rewrite E. cbn [fst snd]. rewrite <- E. unfold qchildren.
        assert (Hc : forall m, In m (filter is_tactical (unchecked g)) ->
                  fst (qiv f (play g m) (Z.min 255 (real + 1)))
                  <= fst (QR f (play g m) (Z.min 255 (real + 1)))
                  <= snd (qiv f (play g m) (Z.min 255 (real + 1)))).
        { intros m Hin. apply IH.
          apply (qref_snd_nonleaf G unchecked play standpat safe hasking f g real m Hne Hs Hin). }
        split; (apply maxl_map_le; [intros m Hin; specialize (Hc m Hin); fold QR; lia | lia]).
  Qed.

  Lemma d1iv_encl : forall g real, snd (D1R QFUEL g real) = false ->
    fst (d1iv g real) <= fst (D1R QFUEL g real) <= snd (d1iv g real).
  Proof.
    intros g real Hs. unfold d1iv.
    destruct (unchecked g) as [|m ms] eqn:E.
    - unfold D1R. rewrite (d1ref_leaf G unchecked play standpat safe hasking _ _ _ E). cbn [fst snd]. lia.
    - assert (Hc : forall m1, In m1 (m :: ms) ->
                fst (qiv QFUEL (play g m1) (real + 1)) <= fst (QR QFUEL (play g m1) (real + 1))
                <= snd (qiv QFUEL (play g m1) (real + 1))).
      { intros m1 Hin. apply qiv_encl. rewrite <- E in Hin.
        apply (d1ref_snd G unchecked play standpat safe hasking QFUEL g real m1 Hs Hin). }
      assert (Ef : fst (D1R QFUEL g real) = maxne (map (fun m1 => - fst (QR QFUEL (play g m1) (real + 1))) (m :: ms))).
      { unfold D1R, d1ref. rewrite E. cbn [fst map hd tl maxne]. rewrite map_map. reflexivity. }
      rewrite Ef. cbn [fst snd].
      split; (apply maxne_map_le; intros m1 Hin; specialize (Hc m1 Hin); lia).
  Qed.

  Lemma nref_fst_ne : forall n g real m ms, checked g = m :: ms ->
    fst (NR QFUEL (S (S n)) g real) = maxne (map (fun m1 => - fst (NR QFUEL (S n) (play g m1) (real + 1))) (m :: ms)).
  Proof.
    intros n g real m ms E. unfold NR. cbn [nref]. rewrite E. cbn [fst map hd tl maxne].
    rewrite map_map. reflexivity.
  Qed.

  Lemma niv_SS : forall n g real,
    niv (S (S n)) g real =
    match checked g with
    | [] => (anms G safe g MATE_OFFSET_NODE real, anms G safe g MATE_OFFSET_NODE real)
    | ms => (maxne (map (fun m => - snd (niv (S n) (play g m) (real + 1))) ms),
             maxne (map (fun m => - fst (niv (S n) (play g m) (real + 1))) ms))
    end.
  Proof. reflexivity. Qed.

  Lemma niv_encl : forall rem g real, snd (NR QFUEL rem g real) = false ->
    fst (niv rem g real) <= fst (NR QFUEL rem g real) <= snd (niv rem g real).
  Proof.
    induction rem as [rem IH] using (well_founded_induction lt_wf). intros g real Hs.
    destruct rem as [|[|n]].
    - apply qiv_encl. exact Hs.
    - apply d1iv_encl. exact Hs.
    - rewrite niv_SS. destruct (checked g) as [|m ms] eqn:E.
      + unfold NR. rewrite (nref_leaf G unchecked checked play standpat safe hasking _ _ _ E). cbn [fst snd]. lia.
      + rewrite (nref_fst_ne n g real m ms E). cbn [fst snd].
        assert (Hc : forall m1, In m1 (m :: ms) ->
                  fst (niv (S n) (play g m1) (real + 1)) <= fst (NR QFUEL (S n) (play g m1) (real + 1))
                  <= snd (niv (S n) (play g m1) (real + 1))).
        { intros m1 Hin. apply IH; [lia|]. rewrite <- E in Hin.
          apply (nref_snd G unchecked checked play standpat safe hasking n g real m1 Hs Hin). }
        split; (apply maxne_map_le; intros m1 Hin; specialize (Hc m1 Hin); lia).
  Qed.

  Lemma rootiv_encl : forall depth g moves, snd (RR QFUEL depth g moves) = false ->
    fst (rootiv depth g moves) <= fst (RR QFUEL depth g moves) <= snd (rootiv depth g moves).
  Proof.
    intros depth g moves Hs. unfold RR, rootref, rootiv in *. cbn [fst snd] in *. rewrite map_map.
    assert (Hc : forall m, In m moves ->
              fst (niv (pred depth) (play g m) 1) <= fst (NR QFUEL (pred depth) (play g m) 1)
              <= snd (niv (pred depth) (play g m) 1)).
    { intros m Hin. apply niv_encl.
      apply (existsb_snd_false _ (fun m1 => nref G Move unchecked checked play standpat is_tactical safe hasking SCORE_MIN
                 MATE_OFFSET_NODE MATE_OFFSET_DEPTH1 MATE_OFFSET_QUIESCENCE QFUEL (pred depth) (play g m1) 1) moves); assumption. }
    split; (apply maxl_map_le; [intros m Hin; specialize (Hc m Hin); fold NR; lia | lia]).
  Qed.

  (* ---- quiescence ---- *)
  Definition QOKiv (f : nat) : Prop :=
    forall g real alpha beta,
      snd (QR f g real) = false ->
      exists r, AQ f g alpha beta real = Some r /\
                ISpec alpha beta (fst (qiv f g real)) (snd (qiv f g real)) r.

  Definition qTL f g real ms := map (fun m => - snd (qiv f (play g m) (Z.min 255 (real + 1)))) (filter is_tactical ms).
  Definition qTH f g real ms := map (fun m => - fst (qiv f (play g m) (Z.min 255 (real + 1)))) (filter is_tactical ms).

  Lemma qloop_iv : forall f g beta real, QOKiv f ->
    forall ms a, a < beta ->
      (forall m, In m (filter is_tactical ms) -> snd (QR f (play g m) (Z.min 255 (real + 1))) = false) ->
      exists r, qloop G play (AQ f) g beta real ms a = Some r /\
                Z.min beta (maxl (qTL f g real ms) a) <= r <= Z.min beta (maxl (qTH f g real ms) a).
  Proof.
    intros f g beta real IH. induction ms as [|m rest IHms]; intros a Hab Hch.
    - cbn [qloop]. unfold qTL, qTH. cbn [filter map]. rewrite !maxl_nil.
      eexists; split; [reflexivity|]. lia.
    - cbn [qloop]. unfold qTL, qTH in *. cbn [filter] in *.
      destruct (is_tactical m) eqn:Et; cbn [negb].
      + cbn [map]. rewrite !maxl_cons.
        pose proof (Hch m (or_introl eq_refl)) as Hs.
        destruct (IH (play g m) (Z.min 255 (real + 1)) (- beta) (- a) Hs) as [s [Es Sp]].
        rewrite Es. cbv zeta. unfold ISpec in Sp.
        set (lo := fst (qiv f (play g m) (Z.min 255 (real + 1)))) in *.
        set (hi := snd (qiv f (play g m) (Z.min 255 (real + 1)))) in *.
        set (TL := map (fun m0 => - snd (qiv f (play g m0) (Z.min 255 (real + 1)))) (filter is_tactical rest)) in *.
        set (TH := map (fun m0 => - fst (qiv f (play g m0) (Z.min 255 (real + 1)))) (filter is_tactical rest)) in *.
        assert (Ea' : (if a <? - s then - s else a) = Z.max a (- s)) by (destruct (Z.ltb_spec a (- s)); lia).
        rewrite Ea'.
        destruct (Z.leb_spec beta (Z.max a (- s))) as [Hb|Hb].
        * eexists; split; [reflexivity|].
          pose proof (maxl_ge TH (Z.max a (- lo))). lia.
        * destruct (IHms (Z.max a (- s)) Hb) as [r [Er Hr]]; [intros; apply Hch; right; assumption|].
          exists r. split; [exact Er|].
          pose proof (maxl_mono TL (Z.max a (- hi)) (Z.max a (- s)) ltac:(lia)).
          pose proof (maxl_mono TH (Z.max a (- s)) (Z.max a (- lo)) ltac:(lia)).
          lia.
      + apply IHms; assumption.
  Qed.

  Lemma qiv_nonleaf : forall f g real, unchecked g <> [] ->
    qiv (S f) g real = (maxl (qTL f g real (unchecked g)) (standpat g),
                        maxl (qTH f g real (unchecked g)) (standpat g)).
  Proof.
    intros f g real Hne. cbn [qiv]. destruct (unchecked g) as [|m ms] eqn:E; [congruence|]. reflexivity.
  Qed.

  Theorem aq_iv : forall f, QOKiv f.
  Proof.
    induction f as [|f IH]; intros g real alpha beta Hs.
    - unfold QR in Hs. cbn in Hs. discriminate.
    - unfold AQ. cbn [aq]. fold AQ.
      destruct (unchecked g) as [|m0 ms] eqn:E.
      + unfold QR in *. cbn [qref qiv] in *. rewrite E in *. cbn [fst snd] in *.
        assert (Hsafe : safe g = false).
        { destruct (safe g) eqn:S1; [|reflexivity]. apply safe_hasking in S1. congruence. }
        unfold anms. rewrite Hsafe. unfold Kq.
        destruct (Z.leb_spec beta (Z.max alpha (standpat g))); eexists; (split; [reflexivity|]); unfold ISpec; lia.
      + assert (Hne : unchecked g <> []) by congruence.
        rewrite (qiv_nonleaf f g real Hne). cbn [fst snd].
        pose proof (maxl_ge (qTH f g real (unchecked g)) (standpat g)) as Hge.
        destruct (Z.leb_spec beta (Z.max alpha (standpat g))).
        * eexists; split; [reflexivity|]. unfold ISpec. lia.
        * rewrite <- E.
          destruct (qloop_iv f g beta real IH (unchecked g) (Z.max alpha (standpat g)) ltac:(lia)) as [r [Er Hr]].
          { intros m Hin. apply (qref_snd_nonleaf G unchecked play standpat safe hasking f g real m Hne Hs Hin). }
          exists r. split; [exact Er|]. rewrite !maxl_max in Hr. unfold ISpec. lia.
  Qed.

  (* ---- depth 1 ---- *)
  Definition d1TL g real ms := map (fun m => - snd (qiv QFUEL (play g m) (real + 1))) ms.
  Definition d1TH g real ms := map (fun m => - fst (qiv QFUEL (play g m) (real + 1))) ms.

  Lemma ad1_loop_iv : forall g beta real ms a,
    (forall m, In m ms -> snd (QR QFUEL (play g m) (real + 1)) = false) ->
    exists r, ad1_loop G unchecked play standpat safe g ms a beta real = Some r /\
              a <= r /\ Z.min beta (maxl (d1TL g real ms) a) <= r <= maxl (d1TH g real ms) a.
  Proof.
    intros g beta real. induction ms as [|m rest IH]; intros a Hch.
    - cbn [ad1_loop]. unfold d1TL, d1TH. cbn [map]. rewrite !maxl_nil.
      eexists; split; [reflexivity|]. lia.
    - cbn [ad1_loop]. unfold d1TL, d1TH in *. cbn [map]. rewrite !maxl_cons.
      pose proof (Hch m (or_introl eq_refl)) as Hs.
      destruct (aq_iv QFUEL (play g m) (real + 1) (- beta) (- a) Hs) as [s [Es Sp]].
      fold AQ. rewrite Es. cbv zeta. unfold ISpec in Sp.
      set (lo := fst (qiv QFUEL (play g m) (real + 1))) in *.
      set (hi := snd (qiv QFUEL (play g m) (real + 1))) in *.
      set (TL := map (fun m0 => - snd (qiv QFUEL (play g m0) (real + 1))) rest) in *.
      set (TH := map (fun m0 => - fst (qiv QFUEL (play g m0) (real + 1))) rest) in *.
      assert (Ea' : (if a <? - s then - s else a) = Z.max a (- s)) by (destruct (Z.ltb_spec a (- s)); lia).
      rewrite Ea'.
      destruct (Z.leb_spec beta (Z.max a (- s))) as [Hb|Hb].
      + eexists; split; [reflexivity|].
        pose proof (maxl_ge TH (Z.max a (- lo))). lia.
      + destruct (IH (Z.max a (- s))) as [r [Er Hr]]; [intros; apply Hch; right; assumption|].
        exists r. split; [exact Er|].
        pose proof (maxl_mono TL (Z.max a (- hi)) (Z.max a (- s)) ltac:(lia)).
        pose proof (maxl_mono TH (Z.max a (- s)) (Z.max a (- lo)) ltac:(lia)).
        lia.
  Qed.

  Theorem ad1_iv : forall g real alpha beta,
    snd (D1R QFUEL g real) = false ->
    exists r, AD1 g alpha beta real = Some r /\
              ISpec alpha beta (fst (d1iv g real)) (snd (d1iv g real)) r.
  Proof.
    intros g real alpha beta Hs. unfold AD1, ad1, d1iv.
    destruct (unchecked g) as [|m ms] eqn:E.
    - cbn [fst snd]. eexists; split; [reflexivity|]. unfold ISpec. lia.
    - destruct (ad1_loop_iv g beta real (m :: ms) alpha) as [r [Er Hr]].
      + intros m1 Hin. rewrite <- E in Hin.
        apply (d1ref_snd G unchecked play standpat safe hasking QFUEL g real m1 Hs Hin).
      + exists r. split; [exact Er|]. cbn [fst snd].
        unfold d1TL, d1TH in Hr. cbn [map] in Hr. rewrite !maxl_maxne in Hr.
        cbn [map]. unfold ISpec. lia.
  Qed.

  (* ---- interior nodes ---- *)
  Fixpoint nivok (rem : nat) (g : G) (real : Z) : bool :=
    match rem with
    | S (S _ as rem') =>
        forallb (fun m => (snd (niv rem' (play g m) (real + 1)) <=? - SCORE_MIN)
                          && nivok rem' (play g m) (real + 1)) (checked g)
    | _ => true
    end.

  Lemma nivok_child : forall n g real m, nivok (S (S n)) g real = true -> In m (checked g) ->
    snd (niv (S n) (play g m) (real + 1)) <= - SCORE_MIN /\ nivok (S n) (play g m) (real + 1) = true.
  Proof.
    intros n g real m Ht Hin. cbn [nivok] in Ht. rewrite forallb_forall in Ht.
    specialize (Ht m Hin). apply andb_true_iff in Ht. destruct Ht as [H1 H2].
    apply Z.leb_le in H1. split; assumption.
  Qed.

  Definition NOKiv (rem : nat) : Prop :=
    forall g st real alpha beta,
      OKst st -> SCORE_MIN <= alpha -> beta <= - SCORE_MIN ->
      snd (NR QFUEL rem g real) = false -> nivok rem g real = true ->
      exists r st', AN rem g st real alpha beta = (Done r, st') /\ OKst st' /\
                    ISpec alpha beta (fst (niv rem g real)) (snd (niv rem g real)) r.

  Lemma nstep_iv : forall rem' g real beta m index l, NOKiv rem' ->
    OKst (l_st l) -> l_bscore l <= l_alpha l -> SCORE_MIN <= l_alpha l -> beta <= - SCORE_MIN ->
    (PVS_FULL_WINDOW_LAST_INDEX < index -> l_alpha l < beta) ->
    snd (NR QFUEL rem' (play g m) (real + 1)) = false ->
    nivok rem' (play g m) (real + 1) = true ->
    snd (niv rem' (play g m) (real + 1)) <= - SCORE_MIN ->
    exists l', nstep G play (AN rem') g real beta m index l = Done l' /\ OKst (l_st l') /\
       l_bscore l' <= l_alpha l' /\
       Z.max (l_alpha l) (Z.min beta (- snd (niv rem' (play g m) (real + 1)))) <= l_alpha l'
         <= Z.max (l_alpha l) (- fst (niv rem' (play g m) (real + 1))).
  Proof.
    intros rem' g real beta m index l IH Hst Hbs Hlo Hhi Hidx Hs Ht Hv.
    unfold nstep. cbv zeta.
    set (lo := fst (niv rem' (play g m) (real + 1))) in *.
    set (hi := snd (niv rem' (play g m) (real + 1))) in *.
    destruct (Z.leb_spec index PVS_FULL_WINDOW_LAST_INDEX) as [Hi|Hi].
    - destruct (IH (play g m) (l_st l) (real + 1) (- beta) (- l_alpha l) Hst ltac:(lia) ltac:(lia) Hs Ht)
        as [s [st1 [E [Hst1 Sp]]]].
      rewrite E. fold lo hi in Sp. unfold ISpec in Sp.
      destruct (Z.ltb_spec (l_bscore l) (- s)); eexists; (split; [reflexivity|]);
        cbn [l_st l_alpha l_bscore]; (split; [exact Hst1|]); lia.
    - specialize (Hidx Hi).
      destruct (IH (play g m) (l_st l) (real + 1) (- l_alpha l - 1) (- l_alpha l) Hst ltac:(lia) ltac:(lia) Hs Ht)
        as [s [st1 [E [Hst1 Sp]]]].
      rewrite E. fold lo hi in Sp. unfold ISpec in Sp.
      destruct (Z.ltb_spec (l_bscore l) (- s)) as [Hlt|Hge].
      + destruct (IH (play g m) st1 (real + 1) (- beta) (- - s) Hst1 ltac:(lia) ltac:(lia) Hs Ht)
          as [s2 [st2 [E2 [Hst2 Sp2]]]].
        rewrite E2. fold lo hi in Sp2. unfold ISpec in Sp2.
        eexists; split; [reflexivity|]. cbn [l_st l_alpha l_bscore]. split; [exact Hst2|]. lia.
      + eexists; split; [reflexivity|]. cbn [l_st l_alpha l_bscore]. split; [exact Hst1|]. lia.
  Qed.

  Definition nTL rem' g real ms := map (fun m => - snd (niv rem' (play g m) (real + 1))) ms.
  Definition nTH rem' g real ms := map (fun m => - fst (niv rem' (play g m) (real + 1))) ms.

  Lemma nloop_iv : forall rem' g real beta remaining, NOKiv rem' -> beta <= - SCORE_MIN ->
    forall ms index l,
    OKst (l_st l) -> l_bscore l <= l_alpha l -> SCORE_MIN <= l_alpha l ->
    (PVS_FULL_WINDOW_LAST_INDEX < index -> l_alpha l < beta) ->
    (forall m, In m ms ->
       snd (NR QFUEL rem' (play g m) (real + 1)) = false /\
       nivok rem' (play g m) (real + 1) = true /\
       snd (niv rem' (play g m) (real + 1)) <= - SCORE_MIN) ->
    exists l', nloop G play (AN rem') g real beta remaining ms index l = Done l' /\ OKst (l_st l') /\
       l_alpha l <= l_alpha l' /\
       Z.min beta (maxl (nTL rem' g real ms) (l_alpha l)) <= l_alpha l'
         <= maxl (nTH rem' g real ms) (l_alpha l).
  Proof.
    intros rem' g real beta remaining IH Hhi. induction ms as [|m rest IHms]; intros index l Hst Hbs Hlo Hidx Hch.
    - cbn [nloop]. unfold nTL, nTH. cbn [map]. rewrite !maxl_nil.
      eexists; split; [reflexivity|]. split; [exact Hst|]. lia.
    - cbn [nloop]. unfold nTL, nTH in *. cbn [map]. rewrite !maxl_cons.
      destruct (Hch m (or_introl eq_refl)) as [Hs [Ht Hv]].
      destruct (nstep_iv rem' g real beta m index l IH Hst Hbs Hlo Hhi Hidx Hs Ht Hv)
        as [l1 [E1 [Hst1 [Hbs1 Hb1]]]].
      rewrite E1.
      set (lo := fst (niv rem' (play g m) (real + 1))) in *.
      set (hi := snd (niv rem' (play g m) (real + 1))) in *.
      set (TL := map (fun m0 => - snd (niv rem' (play g m0) (real + 1))) rest) in *.
      set (TH := map (fun m0 => - fst (niv rem' (play g m0) (real + 1))) rest) in *.
      destruct (Z.leb_spec beta (l_alpha l1)) as [Hb|Hb].
      + eexists; split; [reflexivity|]. rewrite acut_alpha. split; [apply acut_ok; exact Hst1|].
        pose proof (maxl_ge TH (Z.max (l_alpha l) (- lo))). lia.
      + destruct (IHms (index + 1) l1 Hst1 Hbs1 ltac:(lia) ltac:(intros; lia)) as [l' [E' [Hst' Hr]]].
        { intros; apply Hch; right; assumption. }
        exists l'. split; [exact E'|]. split; [exact Hst'|].
        pose proof (maxl_mono TL (Z.max (l_alpha l) (- hi)) (l_alpha l1) ltac:(lia)).
        pose proof (maxl_mono TH (l_alpha l1) (Z.max (l_alpha l) (- lo)) ltac:(lia)).
        lia.
  Qed.

  Theorem anode_iv : forall rem, NOKiv rem.
  Proof.
    induction rem as [rem IHrem] using (well_founded_induction lt_wf).
    intros g st real alpha beta Hst Hlo Hhi Hs Ht.
    destruct (poll_ok st Hst) as [Hpst _].
    destruct rem as [|[|n]].
    - unfold AN. rewrite (anode_0 G unchecked checked play standpat safe ghash _ _ _ _ _ Hst).
      destruct (aq_iv QFUEL g real alpha beta Hs) as [r [Er Sp]]. unfold AQ in Er.
      rewrite Er. exists r, (poll st). split; [reflexivity|]. split; [exact Hpst|exact Sp].
    - unfold AN. rewrite (anode_1 G unchecked checked play standpat safe ghash _ _ _ _ _ Hst).
      destruct (ad1_iv g real alpha beta Hs) as [r [Er Sp]]. unfold AD1 in Er.
      rewrite Er. exists r, (poll st). split; [reflexivity|]. split; [exact Hpst|exact Sp].
    - unfold AN. rewrite (anode_SS G unchecked checked play standpat safe ghash _ _ _ _ _ _ Hst). fold AN.
      rewrite niv_SS.
      destruct (checked g) as [|m ms] eqn:E.
      + cbn [fst snd]. eexists; eexists; split; [reflexivity|]. split; [exact Hpst|]. unfold ISpec. lia.
      + set (sorted := sort_moves _ (m :: ms)).
        assert (Hperm : Permutation sorted (m :: ms)) by apply sort_moves_perm.
        destruct (nloop_iv (S n) g real beta (Z.of_nat (S (S n))) (IHrem (S n) ltac:(lia)) Hhi
                    sorted 0 (mkL alpha None SCORE_MIN (poll st))) as [l' [E' [Hst' [Hge Hr]]]];
          cbn [l_st l_alpha l_bscore]; try assumption.
        * intros Hc. unfold PVS_FULL_WINDOW_LAST_INDEX in Hc. lia.
        * intros m1 Hin. assert (Hin' : In m1 (checked g)).
          { rewrite E. eapply Permutation_in; eassumption. }
          destruct (nivok_child n g real m1 Ht Hin') as [Hv Ht1].
          split; [apply (nref_snd G unchecked checked play standpat safe hasking n g real m1 Hs Hin')|].
          split; assumption.
        * rewrite E'. eexists; eexists; split; [reflexivity|].
          split; [apply with_tbl_ok; exact Hst'|].
          cbn [l_alpha] in Hr, Hge. unfold nTL, nTH in Hr.
          rewrite (maxl_perm _ _ (Permutation_map _ Hperm)) in Hr.
          rewrite (maxl_perm (map (fun m0 => - fst (niv (S n) (play g m0) (real + 1))) sorted) _
                     (Permutation_map _ Hperm)) in Hr.
          cbn [map] in Hr. rewrite !maxl_maxne in Hr.
          cbn [fst snd map]. unfold ISpec. lia.
  Qed.

  (* ---- the root ---- *)
  Lemma rstep_iv : forall rem' g m index r V,
    V <= SCORE_MAX ->
    OKst (r_st r) -> SCORE_MIN + 1 <= r_bscore r <= V ->
    snd (NR QFUEL rem' (play g m) 1) = false ->
    nivok rem' (play g m) 1 = true ->
    SCORE_MIN + 1 <= - snd (niv rem' (play g m) 1) ->
    - fst (niv rem' (play g m) 1) <= V ->
    exists r', rstep G play (AN rem') g m index r = Done r' /\ OKst (r_st r') /\
               SCORE_MIN + 1 <= r_bscore r' <= V /\
               (r_bscore r = V -> r_bscore r' = V) /\
               (- snd (niv rem' (play g m) 1) = V -> r_bscore r' = V).
  Proof.
    intros rem' g m index r V HV Hst Hbs Hs Ht Htl Hth.
    pose proof score_max_min as Hmm.
    unfold rstep. cbv zeta.
    set (lo := fst (niv rem' (play g m) 1)) in *.
    set (hi := snd (niv rem' (play g m) 1)) in *.
    destruct (Z.leb_spec index ROOT_FULL_WINDOW_LAST_INDEX) as [Hi|Hi].
    - destruct (anode_iv rem' (play g m) (r_st r) 1 (SCORE_MIN + 1) (- r_bscore r) Hst ltac:(lia) ltac:(lia) Hs Ht)
        as [s [st1 [E [Hst1 Sp]]]].
      rewrite E. fold lo hi in Sp. unfold ISpec in Sp.
      destruct (Z.ltb_spec (r_bscore r) (- s)); eexists; (split; [reflexivity|]);
        cbn [r_st r_bscore]; (split; [exact Hst1|]); lia.
    - destruct (anode_iv rem' (play g m) (r_st r) 1 (- r_bscore r - 1) (- r_bscore r) Hst ltac:(lia) ltac:(lia) Hs Ht)
        as [s [st1 [E [Hst1 Sp]]]].
      rewrite E. fold lo hi in Sp. unfold ISpec in Sp.
      destruct (Z.ltb_spec (r_bscore r) (- s)) as [Hlt|Hge].
      + destruct (anode_iv rem' (play g m) st1 1 (SCORE_MIN + 1) (- - s) Hst1 ltac:(lia) ltac:(lia) Hs Ht)
          as [s2 [st2 [E2 [Hst2 Sp2]]]].
        rewrite E2. fold lo hi in Sp2. unfold ISpec in Sp2.
        eexists; split; [reflexivity|]. cbn [r_st r_bscore]. split; [exact Hst2|]. lia.
      + eexists; split; [reflexivity|]. cbn [r_st r_bscore]. split; [exact Hst1|]. lia.
  Qed.

  Lemma rloop_iv : forall rem' g V, V <= SCORE_MAX ->
    forall ms index r,
    OKst (r_st r) -> SCORE_MIN + 1 <= r_bscore r <= V ->
    (forall m, In m ms ->
       snd (NR QFUEL rem' (play g m) 1) = false /\
       nivok rem' (play g m) 1 = true /\
       SCORE_MIN + 1 <= - snd (niv rem' (play g m) 1) /\
       - fst (niv rem' (play g m) 1) <= V) ->
    exists r', rloop G play (AN rem') g ms index r = Done r' /\ OKst (r_st r') /\
               SCORE_MIN + 1 <= r_bscore r' <= V /\
               (r_bscore r = V -> r_bscore r' = V) /\
               (forall m, In m ms -> - snd (niv rem' (play g m) 1) = V -> r_bscore r' = V).
  Proof.
    intros rem' g V HV. induction ms as [|m rest IH]; intros index r Hst Hbs Hch.
    - cbn [rloop]. eexists; split; [reflexivity|]. split; [exact Hst|]. split; [exact Hbs|].
      split; [tauto|]. intros m [].
    - cbn [rloop].
      destruct (Hch m (or_introl eq_refl)) as [Hs [Ht [Htl Hth]]].
      destruct (rstep_iv rem' g m index r V HV Hst Hbs Hs Ht Htl Hth) as [r1 [E1 [Hst1 [Hb1 [Hk1 Hm1]]]]].
      rewrite E1.
      destruct (IH (index + 1) r1 Hst1 Hb1) as [r' [E' [Hst' [Hb' [Hk' Hm']]]]].
      { intros; apply Hch; right; assumption. }
      exists r'. split; [exact E'|]. split; [exact Hst'|]. split; [exact Hb'|].
      split; [intros; apply Hk'; apply Hk1; assumption|].
      intros m1 [<-|Hin] Hv.
      + apply Hk'. apply Hm1. exact Hv.
      + apply (Hm' m1 Hin Hv).
  Qed.

  (* the range condition at the root (true for i16 scores) *)
  Definition rootok (depth : nat) (g : G) (moves : list Move) : bool :=
    forallb (fun m => nivok (pred depth) (play g m) 1
                      && (snd (niv (pred depth) (play g m) 1) <=? SCORE_MAX)) moves.

  Theorem aroot_iv_exact : forall g st depth,
    let moves := arep_filter G gmoves g (checked g) in
    OKst st ->
    (forall m, checked g <> [m]) ->
    root_entry G ghash st g depth = None ->
    snd (RR QFUEL depth g moves) = false ->
    rootok depth g moves = true ->
    fst (rootiv depth g moves) = snd (rootiv depth g moves) ->
    snd (rootiv depth g moves) <= SCORE_MAX ->
    exists bm st', AR g st depth = (Done (bm, fst (RR QFUEL depth g moves), false), st') /\ OKst st'.
  Proof.
    intros g st depth moves Hst Hne Hre Hs Hok Hpt HV.
    pose proof (rootiv_encl depth g moves Hs) as Hencl.
    set (V := snd (rootiv depth g moves)) in *.
    assert (HRV : fst (RR QFUEL depth g moves) = V) by lia.
    unfold AR. rewrite (aroot_unfold G unchecked checked play standpat safe ghash gmoves g st depth Hne).
    unfold aroot_body. cbv zeta.
    set (st0 := with_killers st (repeat None (Z.to_nat KILLER_SLOTS))).
    change (root_entry G ghash st0 g depth) with (root_entry G ghash st g depth). rewrite Hre.
    fold moves. fold AN.
    set (sorted := sort_moves _ moves).
    assert (Hperm : Permutation sorted moves) by apply sort_moves_perm.
    assert (HVlo : V = maxl (map (fun m => - snd (niv (pred depth) (play g m) 1)) sorted) (SCORE_MIN + 1)).
    { rewrite <- Hpt. unfold rootiv. cbn [fst]. apply maxl_perm. apply Permutation_map.
      apply Permutation_sym. exact Hperm. }
    assert (HVhi : V = maxl (map (fun m => - fst (niv (pred depth) (play g m) 1)) moves) (SCORE_MIN + 1)).
    { reflexivity. }
    destruct (rloop_iv (pred depth) g V HV sorted 0 (mkR None (SCORE_MIN + 1) st0))
      as [r' [E' [Hst' [Hb' [Hk' Hm']]]]]; cbn [r_st r_bscore].
    - apply with_killers_ok. exact Hst.
    - split; [lia|]. rewrite HVhi. apply maxl_ge.
    - intros m Hin. assert (Hin' : In m moves) by (eapply Permutation_in; eassumption).
      unfold rootok in Hok. rewrite forallb_forall in Hok. specialize (Hok m Hin').
      apply andb_true_iff in Hok. destruct Hok as [Hok1 Hok2]. apply Z.leb_le in Hok2.
      split; [|split; [exact Hok1|split]].
      + unfold RR, rootref in Hs. cbn [snd] in Hs.
        apply (existsb_snd_false _ (fun m1 => nref G Move unchecked checked play standpat is_tactical safe hasking SCORE_MIN
                 MATE_OFFSET_NODE MATE_OFFSET_DEPTH1 MATE_OFFSET_QUIESCENCE QFUEL (pred depth) (play g m1) 1) moves); assumption.
      + pose proof score_max_min. lia.
      + rewrite HVhi. apply maxl_in_le.
        apply (in_map (fun m0 => - fst (niv (pred depth) (play g m0) 1))). exact Hin'.
    - rewrite E'. eexists; eexists; split.
      + rewrite HRV.
        assert (Ebs : r_bscore r' = V).
        { cbn [r_bscore] in Hk'.
          destruct (maxl_attained (map (fun m => - snd (niv (pred depth) (play g m) 1)) sorted) (SCORE_MIN + 1))
            as [Eq|Hin].
          - apply Hk'. rewrite HVlo. symmetry. exact Eq.
          - rewrite <- HVlo in Hin. apply in_map_iff in Hin. destruct Hin as [m [Em Hin]].
            apply (Hm' m Hin Em). }
        rewrite Ebs. reflexivity.
      + destruct (r_best r'); [apply with_tbl_ok; exact Hst' | exact Hst'].
  Qed.
End IV.

(* ------------------------------------------------------------------------------------------ *)
(* The chess instance                                                                            *)
(* ------------------------------------------------------------------------------------------ *)
Definition chess_qiv := qiv game pseudo_moves push standpat.
Definition chess_niv := niv game pseudo_moves checked_moves push standpat side_safe.
Definition chess_rootiv := rootiv game pseudo_moves checked_moves push standpat side_safe.
Definition chess_nivok := nivok game pseudo_moves checked_moves push standpat side_safe.
Definition chess_rootok := rootok game pseudo_moves checked_moves push standpat side_safe.

(* the reference value is inside the interval *)
Theorem chess_niv_encl : forall rem g real,
  snd (chess_nref QFUEL rem g real) = false ->
  fst (chess_niv rem g real) <= fst (chess_nref QFUEL rem g real) <= snd (chess_niv rem g real).
Proof.
  intros rem g real Hs.
  exact (niv_encl game pseudo_moves checked_moves push standpat side_safe side_has_king
           side_safe_has_king rem g real Hs).
Qed.

Theorem quiescence_interval_consistent : forall fuel g real alpha beta,
  snd (chess_qref fuel g real) = false ->
  exists r, quiescence fuel g alpha beta real = Some r /\
            ISpec alpha beta (fst (chess_qiv fuel g real)) (snd (chess_qiv fuel g real)) r.
Proof.
  intros fuel g real alpha beta Hs. rewrite quiescence_is_aq.
  exact (aq_iv game pseudo_moves push standpat side_safe side_has_king side_safe_has_king
           fuel g real alpha beta Hs).
Qed.
Print Assumptions quiescence_interval_consistent.

Theorem node_interval_consistent : forall rem g st real alpha beta,
  OKst st -> SCORE_MIN <= alpha -> beta <= - SCORE_MIN ->
  snd (chess_nref QFUEL rem g real) = false ->
  chess_nivok rem g real = true ->
  exists r st', node rem g st real alpha beta = (Done r, st') /\ OKst st' /\
                ISpec alpha beta (fst (chess_niv rem g real)) (snd (chess_niv rem g real)) r.
Proof.
  intros rem g st real alpha beta Hst Hlo Hhi Hs Ht. rewrite node_is_anode.
  exact (anode_iv game pseudo_moves checked_moves push standpat side_safe side_has_king g_hash
           side_safe_has_king rem g st real alpha beta Hst Hlo Hhi Hs Ht).
Qed.
Print Assumptions node_interval_consistent.

(* the node value is exact when its interval is a point *)
Corollary node_bound_consistent_iv : forall rem g st real alpha beta,
  OKst st -> SCORE_MIN <= alpha -> beta <= - SCORE_MIN ->
  snd (chess_nref QFUEL rem g real) = false ->
  chess_nivok rem g real = true ->
  fst (chess_niv rem g real) = snd (chess_niv rem g real) ->
  exists r st', node rem g st real alpha beta = (Done r, st') /\ OKst st' /\
                SpecR alpha beta (fst (chess_nref QFUEL rem g real)) r.
Proof.
  intros rem g st real alpha beta Hst Hlo Hhi Hs Ht Hpt.
  destruct (node_interval_consistent rem g st real alpha beta Hst Hlo Hhi Hs Ht) as [r [st' [E [Hst' Sp]]]].
  exists r, st'. split; [exact E|]. split; [exact Hst'|].
  pose proof (chess_niv_encl rem g real Hs). unfold ISpec in Sp. unfold SpecR. lia.
Qed.

Theorem root_exact_iv : forall g st depth,
  OKst st ->
  (forall m, checked_moves g <> [m]) ->
  chess_root_entry st g depth = None ->
  snd (chess_rootref QFUEL depth g (root_moves g)) = false ->
  chess_rootok depth g (root_moves g) = true ->
  fst (chess_rootiv depth g (root_moves g)) = snd (chess_rootiv depth g (root_moves g)) ->
  snd (chess_rootiv depth g (root_moves g)) <= SCORE_MAX ->
  exists bm st', root g st depth = (Done (bm, fst (chess_rootref QFUEL depth g (root_moves g)), false), st')
                 /\ OKst st'.
Proof.
  intros g st depth Hst Hne Hre Hs Hok Hpt Hv. rewrite root_is_aroot.
  exact (aroot_iv_exact game pseudo_moves checked_moves push standpat side_safe side_has_king g_hash g_moves
           side_safe_has_king g st depth Hst Hne Hre Hs Hok Hpt Hv).
Qed.
Print Assumptions root_exact_iv.

Corollary root_exact_iv_fresh : forall g depth,
  (forall m, checked_moves g <> [m]) ->
  snd (chess_rootref QFUEL depth g (root_moves g)) = false ->
  chess_rootok depth g (root_moves g) = true ->
  fst (chess_rootiv depth g (root_moves g)) = snd (chess_rootiv depth g (root_moves g)) ->
  snd (chess_rootiv depth g (root_moves g)) <= SCORE_MAX ->
  exists bm st', root g (fresh_state tempty (-1) true) depth
                 = (Done (bm, fst (chess_rootref QFUEL depth g (root_moves g)), false), st').
Proof.
  intros g depth Hne Hs Hok Hpt Hv.
  destruct (root_exact_iv g (fresh_state tempty (-1) true) depth (fresh_state_ok _) Hne
              (root_entry_empty g depth) Hs Hok Hpt Hv) as [bm [st' [E _]]].
  exists bm, st'. exact E.
Qed.
Print Assumptions root_exact_iv_fresh.

(* ------------------------------------------------------------------------------------------ *)
(* Two small trees: the condition is not vacuous, and it is sharp                                *)
(* ------------------------------------------------------------------------------------------ *)
From Chess Require Import Proofs.AlphaBeta2.

Module MateWithAlternative.
  (* the tree of AlphaBeta2.Depth1Mate, but the depth-1 node 1 has a second generated move
     leading to the quiet node 7 (stand-pat 30): the "mated" line no longer decides *)
  Definition checked := Depth1Mate.checked.
  Definition unchecked (g : nat) : list Move :=
    match g with
    | 1%nat => [mA; mB] | 2%nat => [mA] | 3%nat => [mT] | 5%nat => [mA] | 7%nat => [mA] | _ => []
    end.
  Definition play (g : nat) (m : Move) : nat :=
    match g with
    | 0%nat => if move_eqb m mA then 1%nat else 2%nat
    | 1%nat => if move_eqb m mA then 3%nat else 7%nat
    | 3%nat => 4%nat
    | 2%nat => 5%nat
    | _ => 6%nat
    end.
  Definition standpat (g : nat) : Z :=
    match g with 3%nat => -500 | 4%nat => -9500 | 7%nat => 30 | _ => 0 end.
  Definition hasking := Depth1Mate.hasking.
  Definition safe := Depth1Mate.safe.
  Definition ghash := Depth1Mate.ghash.
  Definition gmoves := Depth1Mate.gmoves.

  Definition ref :=
    rootref nat Move unchecked checked play standpat is_tactical safe hasking SCORE_MIN
            MATE_OFFSET_NODE MATE_OFFSET_DEPTH1 MATE_OFFSET_QUIESCENCE QFUEL 2 0%nat (checked 0%nat).
  Definition engine :=
    match aroot nat unchecked checked play standpat safe ghash gmoves 0%nat (fresh_state tempty (-1) true) 2 with
    | (Done (_, score, _), _) => Some score
    | _ => None
    end.

  (* the old condition fails (there is a king-less leaf with stand-pat above K), the interval
     condition holds, and the scores agree *)
  Example alternative_tree :
    roottree nat unchecked checked play standpat safe hasking 2 0%nat (checked 0%nat) = false /\
    rootiv nat unchecked checked play standpat safe 2 0%nat (checked 0%nat) = (30, 30) /\
    rootok nat unchecked checked play standpat safe 2 0%nat (checked 0%nat) = true /\
    ref = (30, false) /\ engine = Some 30.
  Proof. vm_compute. repeat split; reflexivity. Qed.
End MateWithAlternative.

(* on the tree where engine and reference differ the interval is [9500, 29765]: the reference
   value is its lower end, the engine's score its upper end *)
Example depth1_mate_interval :
  rootiv nat Depth1Mate.unchecked Depth1Mate.checked Depth1Mate.play Depth1Mate.standpat Depth1Mate.safe
         2 0%nat (Depth1Mate.checked 0%nat) = (9500, 29765).
Proof. vm_compute. reflexivity. Qed.

(* ------------------------------------------------------------------------------------------ *)
(* Two chess positions (model functions evaluated by vm_compute)                                 *)
(* ------------------------------------------------------------------------------------------ *)
From Coq Require Import String Ascii.
From Chess Require Import Model.Fen.

Fixpoint fen_text (s : string) : list N :=
  match s with EmptyString => nil | String c r => N_of_ascii c :: fen_text r end.

Definition engine_score (p : result game) (depth : nat) : option Z :=
  match p with
  | Ok g => match root g (fresh_state tempty (-1) true) depth with
            | (Done (_, s, _), _) => Some s
            | _ => None
            end
  | _ => None
  end.

(* (reference value, blocked flag, interval, range condition, separation condition of AlphaBeta.v) *)
Definition reference_data (p : result game) (depth : nat) :=
  match p with
  | Ok g => Some (chess_rootref QFUEL depth g (root_moves g),
                  chess_rootiv depth g (root_moves g),
                  chess_rootok depth g (root_moves g),
                  chess_roottree depth g (root_moves g))
  | _ => None
  end.

(* White mates in one (Qg7 or Qf8).  At depth 2 the mated side is a depth-1 node: all its moves
   are answered by a king capture in quiescence.  The table-less engine scores 32768-3000-3,
   the reference of Spec/Negamax.v scores the king-less stand-pat; no blocked node is flagged.
   So C09 in the form "engine = rootref on trees without blocked node" is false in chess; the
   root interval is [20920, 29765], not a point, so [root_exact_iv] does not apply (as it must). *)
Example chess_mate_in_one_differs :
  let p := import (fen_text "7k/5Q2/6K1/8/8/8/8/8 w - - 0 1") in
  engine_score p 2 = Some 29765 /\
  reference_data p 2 = Some (20920, false, (20920, 29765), true, false).
Proof. vm_compute. split; reflexivity. Qed.

(* Rooks facing each other: the depth-2 tree contains king captures (pinned-rook and king moves
   generated at the depth-1 nodes), so the separation condition of AlphaBeta.v fails, but the
   root interval is a point and all hypotheses of [root_exact_iv_fresh] hold; the scores agree. *)
Example chess_interval_condition_holds :
  let p := import (fen_text "4k3/4r3/8/8/8/8/4R3/4K3 w - - 0 1") in
  engine_score p 2 = Some (-30) /\
  reference_data p 2 = Some (-30, false, (-30, -30), true, false).
Proof. vm_compute. split; reflexivity. Qed.
