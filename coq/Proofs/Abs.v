(* The abstraction from the concrete game record to the rule-level position, and small concrete
   facts computed by vm_compute that the property files pin. *)
From Coq Require Import String Ascii.
From Chess Require Import Model.Text Spec.Rules Spec.FenSpec Spec.HashSpec Spec.EvalSpec Spec.Notation.
Open Scope string_scope.
Open Scope Z_scope.

Definition abs_rights (s : gstate) : rights := mkRights (st_wk s) (st_wq s) (st_bk s) (st_bq s).
Definition abs_ep (s : gstate) : option Z := if st_ep s <? 8 then Some (st_ep s) else None.

Definition abs (g : game) : position :=
  mkPosition (g_board g) (g_player g) (abs_rights (gstate_of g)) (abs_ep (gstate_of g)).

Definition abs_move (m : Move) : smove :=
  match m with
  | Normal _ s e _ => mkSMove s e None
  | Promotion _ k s e _ => mkSMove s e (Some k)
  | CastlingShort o => mkSMove (home_row o, 4) (home_row o, 6) None
  | CastlingLong o => mkSMove (home_row o, 4) (home_row o, 2) None
  | EnPassant o sc ec => mkSMove (fst (ep_rows o), sc) (snd (ep_rows o), ec) None
  end.

Definition txt (s : string) : list N :=
  map (fun a => N.of_nat (Ascii.nat_of_ascii a)) (String.list_ascii_of_string s).

Definition START_FEN : list N := txt "rnbqkbnr/pppppppp/8/8/8/8/PPPPPPPP/RNBQKBNR w KQkq - 0 1".
Definition KIWIPETE_FEN : list N := txt "r3k2r/p1ppqpb1/bn2pnp1/3PN3/1p2P3/2N2Q1p/PPPBBPPP/R3K2R w KQkq - 0 1".

Definition imported (s : list N) : game :=
  match import s with Ok g => g | _ => mkGame 0 White [] false 0%N [] [] [] false (0, 0) (0, 0) [] end.

Definition START : game := imported START_FEN.
Definition KIWIPETE : game := imported KIWIPETE_FEN.

Fixpoint text_leb (a b : list N) : bool :=
  match a, b with
  | [], _ => true
  | _ :: _, [] => false
  | x :: a', y :: b' => if (x <? y)%N then true else if (y <? x)%N then false else text_leb a' b'
  end.

Fixpoint sorted_insert (x : list N) (l : list (list N)) : list (list N) :=
  match l with
  | [] => [x]
  | y :: t => if text_leb x y then x :: l else y :: sorted_insert x t
  end.

Definition sort_texts (l : list (list N)) : list (list N) := fold_right sorted_insert [] l.

(* the statement of C01 on one game, as a boolean: checked list = legal moves, as sorted texts *)
Definition checked_is_legal (g : game) : bool :=
  let a := sort_texts (map uci (checked_moves g)) in
  let b := sort_texts (map move_text (legal_moves (abs g))) in
  Nat.eqb (length a) (length b) && forallb (fun p => text_eqb (fst p) (snd p)) (combine a b).
