(* Proofs/SchedProofs.v - invariants of the thread model Model/Sched.v, for every reachable
   state (every command sequence, every interleaving). *)
From Coq Require Import List Arith Bool Lia.
From Chess Require Import Model.Sched.
Import ListNotations.

Definition reachable (s : state) : Prop := exists ls, run ls = Some s.

(* ------------------------------------------------------------------ *)
(* slots                                                               *)
(* ------------------------------------------------------------------ *)

Lemma upd_length : forall i f l, length (upd i f l) = length l.
Proof.
  intros i f l; revert i; induction l as [|g t IH]; intros [|k]; simpl; auto.
Qed.

Lemma getg_upd_eq : forall i f l, i < length l -> getg (upd i f l) i = f (getg l i).
Proof.
  unfold getg; intros i f l; revert i; induction l as [|g t IH]; intros [|k] Hi; simpl in *;
    try lia; auto.
  apply IH; lia.
Qed.

Lemma getg_upd_neq : forall i j f l, j <> i -> getg (upd i f l) j = getg l j.
Proof.
  unfold getg; intros i j f l; revert i j; induction l as [|g t IH]; intros [|k] [|j] Hne; simpl;
    auto; try congruence.
Qed.

Lemma getg_overflow : forall l j, length l <= j -> getg l j = gfresh.
Proof. unfold getg; intros; apply nth_overflow; auto. Qed.

Lemma getg_app_fresh : forall l j, getg (l ++ [gfresh]) j = getg l j.
Proof.
  unfold getg; intros l j. destruct (lt_dec j (length l)) as [Hlt|Hge].
  - rewrite app_nth1; auto.
  - rewrite app_nth2 by lia. rewrite (nth_overflow l) by lia.
    destruct (j - length l) as [|[|k]]; reflexivity.
Qed.

Lemma sst_in_range : forall l i, sst (getg l i) <> SNone -> i < length l.
Proof.
  intros l i H. destruct (lt_dec i (length l)); auto.
  rewrite getg_overflow in H by lia. simpl in H; congruence.
Qed.

Lemma tst_in_range : forall l i, tst (getg l i) <> TNone -> i < length l.
Proof.
  intros l i H. destruct (lt_dec i (length l)); auto.
  rewrite getg_overflow in H by lia. simpl in H; congruence.
Qed.

Lemma getg_nth_error : forall l i g, nth_error l i = Some g -> getg l i = g /\ i < length l.
Proof.
  intros l i g H. split.
  - unfold getg. apply nth_error_nth; auto.
  - apply nth_error_Some; congruence.
Qed.

(* ------------------------------------------------------------------ *)
(* counting                                                            *)
(* ------------------------------------------------------------------ *)

Definition b2n (b : bool) : nat := if b then 1 else 0.

Definition is_bm (e : event) : bool := match e with EBestmove _ => true | _ => false end.
Definition is_bm_of (i : nat) (e : event) : bool :=
  match e with EBestmove j => Nat.eqb j i | _ => false end.

(* number of `bestmove` lines of go i / of all go's in an output *)
Definition cnt (i : nat) (o : list event) : nat := length (filter (is_bm_of i) o).
Definition nbm (o : list event) : nat := length (filter is_bm o).

Fixpoint countg (p : gorec -> bool) (l : list gorec) : nat :=
  match l with [] => 0 | g :: t => b2n (p g) + countg p t end.

Definition printed (x : sstate) : bool :=
  match x with SPrinted | SDone => true | _ => false end.
Definition accepted (x : sstate) : bool :=
  match x with SNone => false | _ => true end.
Definition pr (g : gorec) : bool := printed (sst g).
Definition acc (g : gorec) : bool := accepted (sst g).

Lemma countg_upd : forall p f l i, i < length l ->
  countg p (upd i f l) + b2n (p (getg l i)) = countg p l + b2n (p (f (getg l i))).
Proof.
  unfold getg; intros p f l; induction l as [|g t IH]; intros [|k] Hi; simpl in *; try lia.
  specialize (IH k ltac:(lia)). lia.
Qed.

Lemma countg_app : forall p l1 l2, countg p (l1 ++ l2) = countg p l1 + countg p l2.
Proof. intros p l1 l2; induction l1; simpl; lia. Qed.

Lemma countg_le : forall p q l, (forall g, p g = true -> q g = true) -> countg p l <= countg q l.
Proof.
  intros p q l H; induction l as [|g t IH]; simpl; auto.
  destruct (p g) eqn:Hp; [rewrite (H g Hp)|]; simpl; [|destruct (q g); simpl]; lia.
Qed.

Lemma cnt_cons_bm : forall i j o, cnt j (EBestmove i :: o) = b2n (Nat.eqb i j) + cnt j o.
Proof. intros; unfold cnt; simpl. destruct (Nat.eqb i j); reflexivity. Qed.

Lemma cnt_cons_other : forall e j o, is_bm e = false -> cnt j (e :: o) = cnt j o.
Proof. intros e j o H; unfold cnt; simpl. destruct e; simpl in *; try discriminate; reflexivity. Qed.

Lemma nbm_cons_other : forall e o, is_bm e = false -> nbm (e :: o) = nbm o.
Proof. intros e o H; unfold nbm; simpl. rewrite H; reflexivity. Qed.

Lemma cnt_In : forall i o, In (EBestmove i) o -> 1 <= cnt i o.
Proof.
  intros i o; induction o as [|e t IH]; simpl; intros H; [tauto|].
  destruct H as [->|H].
  - rewrite cnt_cons_bm, Nat.eqb_refl; simpl; lia.
  - specialize (IH H). unfold cnt in *; simpl. destruct (is_bm_of i e); simpl; lia.
Qed.

(* ------------------------------------------------------------------ *)
(* the invariant                                                       *)
(* ------------------------------------------------------------------ *)

Definition alive (x : sstate) : bool := match x with SNone | SDone => false | _ => true end.
Definition holds (x : sstate) : bool :=
  match x with SSearching | SFinished | SCleared | SDropped | SPrinted => true | _ => false end.
Definition needs_game (x : sstate) : bool :=
  match x with SWaitLock | SSearching | SFinished | SCleared => true | _ => false end.
Definition running (x : sstate) : bool :=
  match x with SWaitLock | SSearching | SFinished => true | _ => false end.

(* the stdin thread holds the mutex *)
Definition locked (p : pcT) : bool :=
  match p with
  | PNgClear | PNgUnlock | PPosSet _ | PPosUnlock | PGoCheck _ | PGoRaise _ | PGoInfo | PGoTimer
  | PGoSpawn | PGoUnlock | PShowPrint | PShowUnlock => true
  | _ => false
  end.
(* the stdin thread has joined (or never had) a search thread: no handle *)
Definition nohandle (p : pcT) : bool :=
  match p with
  | PNgLock | PNgClear | PNgUnlock | PPosLock _ | PPosSet _ | PPosUnlock
  | PGoNew _ | PGoLock _ | PGoCheck _ | PGoErr | PGoRaise _ | PGoInfo | PGoTimer | PGoSpawn
  | PShowLock | PShowPrint | PShowUnlock | PWaitStore => true
  | _ => false
  end.
Definition fresh (p : pcT) : bool :=
  match p with PGoLock _ | PGoCheck _ | PGoRaise _ => true | _ => false end.
Definition raised (p : pcT) : bool :=
  match p with PGoInfo | PGoTimer | PGoSpawn => true | _ => false end.
Definition pretimer (p : pcT) : bool :=
  match p with PGoInfo | PGoTimer => true | _ => false end.
Definition gamepc (p : pcT) : bool :=
  match p with PGoRaise _ | PGoInfo | PGoTimer | PGoSpawn => true | _ => false end.

(* slots other than the current one: thread absent or finished, flag down *)
Definition oldok (g : gorec) : Prop := (sst g = SNone \/ sst g = SDone) /\ flag g = false.
(* timer fired or `stop` handled: flag down *)
Definition downok (g : gorec) : Prop := (tst g = TFired \/ stopped g = true) -> flag g = false.

Definition slotok (c : nat) (o : list event) (j : nat) (g : gorec) : Prop :=
  (j <> c -> oldok g) /\ downok g /\ cnt j o = b2n (pr g) /\ sst g <> SPanicked.

Definition SlotInv (gs : list gorec) (c : nat) (o : list event) : Prop :=
  c < length gs /\ (forall j, slotok c o j (getg gs j)) /\ nbm o = countg pr gs.

(* control part: stdin thread, mutex, game, handle and the current slot g *)
Definition CtlInv (p : pcT) (m : owner) (gm : bool) (h : option nat) (c : nat) (g : gorec) : Prop :=
  match h with None => True | Some k => k = c /\ sst g <> SNone end /\
  (alive (sst g) = true -> h = Some c) /\
  (holds (sst g) = true -> m = MSearch c) /\
  match m with MSearch j => j = c /\ holds (sst g) = true | _ => True end /\
  (m = MMain -> locked p = true) /\
  (locked p = true -> m = MMain) /\
  (needs_game (sst g) = true -> gm = true) /\
  (flag g = true -> running (sst g) = true \/ raised p = true) /\
  (nohandle p = true -> h = None) /\
  (fresh p = true -> g = gfresh) /\
  (raised p = true -> sst g = SNone) /\
  (gamepc p = true -> gm = true) /\
  (pretimer p = true -> tst g = TNone).

Definition Inv (s : state) : Prop :=
  panicked s = false /\ poisoned s = false /\
  SlotInv (gos s) (cur s) (out s) /\
  CtlInv (pc s) (mutex s) (game s) (handle s) (cur s) (getg (gos s) (cur s)).

Lemma Inv_init : Inv init.
Proof.
  unfold Inv, init; simpl. repeat split; try discriminate; auto.
  - destruct j as [|[|j]]; simpl; auto.
  - destruct j as [|[|j]]; simpl; auto.
  - unfold downok. destruct j as [|[|j]]; simpl; auto.
  - destruct j as [|[|j]]; simpl; auto.
  - destruct j as [|[|j]]; simpl; congruence.
Qed.

(* ------------------------------------------------------------------ *)
(* preservation of the slot part                                       *)
(* ------------------------------------------------------------------ *)

Lemma SlotInv_emit : forall gs c o e, is_bm e = false -> SlotInv gs c o -> SlotInv gs c (e :: o).
Proof.
  intros gs c o e He (Hc & Hs & Hn). split; [auto|split].
  - intros j. destruct (Hs j) as (H1 & H2 & H3 & H4). unfold slotok.
    rewrite cnt_cons_other by auto. auto.
  - rewrite nbm_cons_other by auto. auto.
Qed.

Lemma SlotInv_upd : forall gs c o i f,
  SlotInv gs c o -> i < length gs ->
  pr (f (getg gs i)) = pr (getg gs i) ->
  (i <> c -> oldok (f (getg gs i))) ->
  downok (f (getg gs i)) ->
  sst (f (getg gs i)) <> SPanicked ->
  SlotInv (upd i f gs) c o.
Proof.
  intros gs c o i f (Hc & Hs & Hn) Hi Hpr Hold Hdown Hnp. split; [|split].
  - rewrite upd_length; auto.
  - intros j. destruct (Nat.eq_dec j i) as [->|Hne].
    + rewrite getg_upd_eq by auto. destruct (Hs i) as (H1 & H2 & H3 & H4).
      unfold slotok. rewrite Hpr. auto.
    + rewrite getg_upd_neq by auto. auto.
  - pose proof (countg_upd pr f gs i Hi) as E. rewrite Hpr in E. lia.
Qed.

Lemma SlotInv_print : forall gs c o i f,
  SlotInv gs c o -> i < length gs ->
  pr (getg gs i) = false -> pr (f (getg gs i)) = true ->
  (i <> c -> oldok (f (getg gs i))) ->
  downok (f (getg gs i)) ->
  sst (f (getg gs i)) <> SPanicked ->
  SlotInv (upd i f gs) c (EBestmove i :: o).
Proof.
  intros gs c o i f (Hc & Hs & Hn) Hi Hp0 Hp1 Hold Hdown Hnp. split; [|split].
  - rewrite upd_length; auto.
  - intros j. destruct (Nat.eq_dec j i) as [->|Hne].
    + rewrite getg_upd_eq by auto. destruct (Hs i) as (H1 & H2 & H3 & H4).
      unfold slotok. rewrite cnt_cons_bm, Nat.eqb_refl, H3, Hp0, Hp1. auto.
    + rewrite getg_upd_neq by auto. destruct (Hs j) as (H1 & H2 & H3 & H4).
      unfold slotok. rewrite cnt_cons_bm.
      replace (Nat.eqb i j) with false by (symmetry; apply Nat.eqb_neq; auto). auto.
  - pose proof (countg_upd pr f gs i Hi) as E. rewrite Hp0, Hp1 in E.
    unfold nbm in *; simpl in *. lia.
Qed.

Lemma SlotInv_new : forall gs c o,
  SlotInv gs c o -> oldok (getg gs c) -> SlotInv (gs ++ [gfresh]) (length gs) o.
Proof.
  intros gs c o (Hc & Hs & Hn) Hold. split; [|split].
  - rewrite app_length; simpl; lia.
  - intros j. rewrite getg_app_fresh. destruct (Hs j) as (H1 & H2 & H3 & H4).
    unfold slotok; split; [|auto].
    intros Hj. destruct (Nat.eq_dec j c) as [->|Hne]; auto.
  - rewrite countg_app; simpl. change (pr gfresh) with false. simpl. lia.
Qed.

(* ------------------------------------------------------------------ *)
(* preservation                                                        *)
(* ------------------------------------------------------------------ *)

Ltac break_in H :=
  repeat match type of H with
  | context [match ?x with _ => _ end] => destruct x eqn:?; try discriminate H
  end.

Ltac unfold_step H :=
  unfold main_lock, main_join, main_unlock, main_dies, upd_slot, curflag,
    set_pc, set_cur, set_gos, set_mutex, set_poisoned, set_game, set_handle, emit,
    set_panicked, set_exited in H; simpl in H.

Ltac fin :=
  match goal with
  | |- true = false /\ _ => exfalso
  | |- _ => split; [reflexivity | split; [reflexivity | split]]
  end.

Ltac slot_part :=
  match goal with
  | Hs : SlotInv ?gs ?c ?o, Hc : ?c < length ?gs |- SlotInv _ _ _ =>
      first [ exact Hs
            | apply SlotInv_emit; [reflexivity | exact Hs]
            | apply SlotInv_new with (c := c); [exact Hs|]
            | apply SlotInv_upd; [exact Hs | exact Hc | ..] ]
  | |- _ => idtac
  end.

Ltac unf :=
  unfold CtlInv, slotok, oldok, downok, gfresh, g_flag, g_sst, g_tst, g_stop, g_fire, pr, not in *;
  simpl in *.

Ltac splits := repeat match goal with |- _ /\ _ => split end.

Ltac expose c gs :=
  let g := fresh "g" in let Hg := fresh "Hg" in
  remember (getg gs c) as g eqn:Hg in *;
  let fl := fresh "fl" in let ss := fresh "ss" in let ts := fresh "ts" in let st := fresh "st" in
  destruct g as [fl ss ts st]; simpl in *.

Ltac simp_hyps :=
  repeat match goal with
  | H : _ /\ _ |- _ => destruct H
  | H : True |- _ => clear H
  | H : False |- _ => destruct H
  | H : _ \/ _ |- _ => destruct H
  | H : ?x = ?x |- _ => clear H
  | H : ?x = ?y |- _ => discriminate H
  | H : ?x = ?y |- _ => first [is_var x; subst x | is_var y; subst y]
  | H : Some _ = Some _ |- _ => injection H as H
  | H : MSearch _ = MSearch _ |- _ => injection H as H
  | H : mkGo _ _ _ _ = mkGo _ _ _ _ |- _ => injection H as ? ? ? ?
  | H : ?x = ?x -> _ |- _ => specialize (H eq_refl)
  | H : ?A, H' : ?A -> _ |- _ => specialize (H' H)
  | H : ?x = ?y -> _ |- _ => let N := fresh in assert (N : x <> y) by discriminate; clear H N
  end.

Ltac crunch :=
  simp_hyps;
  try solve [congruence | auto | split; congruence];
  match goal with
  | H : context [match ?x with _ => _ end] |- _ => is_var x; destruct x; simpl in *; crunch
  | |- context [match ?x with _ => _ end] => is_var x; destruct x; simpl in *; crunch
  | H : ?x = _ -> _ |- _ => is_var x; destruct x; simpl in *; crunch
  | x : sstate |- _ => destruct x; simpl in *; crunch
  | x : pcT |- _ => destruct x; simpl in *; crunch
  | _ => idtac
  end.

Lemma inv_main : forall s s', Inv s -> main_step s = Some s' -> Inv s'.
Proof.
  intros [p c gs m po gm h o pa ex] s' (Hpa & Hpo & Hslot & Hctl) Hstep; simpl in *.
  subst pa po.
  assert (Hc : c < length gs) by (destruct Hslot; auto).
  assert (Hsc : slotok c o c (getg gs c)) by (destruct Hslot as (_ & Hs & _); apply Hs).
  unfold main_step in Hstep; simpl in Hstep.
  destruct p; unfold_step Hstep; break_in Hstep; inversion Hstep; subst s'; clear Hstep;
    unfold Inv; simpl.
  all: try rewrite getg_upd_eq by assumption.
  all: try rewrite getg_app_fresh.
  all: try rewrite (getg_overflow gs (length gs)) by lia.
  all: fin; slot_part.
  all: try (match goal with H : CtlInv _ _ _ (Some ?n) _ _ |- _ =>
              assert (n = c) by (destruct H as ((?&_)&_); assumption); subst n end).
  all: unf.
  all: destruct Hctl as (K1 & K2 & K3 & K4 & K5 & K6 & K7 & K8 & K9 & K10 & K11 & K12 & K13).
  all: destruct Hsc as (S1 & S2 & S3 & S4).
  all: splits; try assumption; try (intros; discriminate).
  all: expose c gs.
  all: intros; crunch.
Qed.

Lemma inv_input : forall s cm s', Inv s -> input_step s cm = Some s' -> Inv s'.
Proof.
  intros [p c gs m po gm h o pa ex] cm s' (Hpa & Hpo & Hslot & Hctl) Hstep; simpl in *.
  unfold input_step in Hstep; simpl in Hstep.
  destruct p; try discriminate Hstep. inversion Hstep; subst s'; clear Hstep.
  unfold Inv, set_pc; simpl. splits; auto.
  unf. destruct Hctl as (K1 & K2 & K3 & K4 & K5 & K6 & K7 & K8 & K9 & K10 & K11 & K12 & K13).
  destruct cm; simpl; splits; try assumption; try (intros; discriminate).
  all: intros; crunch.
Qed.

Lemma inv_search : forall s i s', Inv s -> search_step s i = Some s' -> Inv s'.
Proof.
  intros [p c gs m po gm h o pa ex] i s' (Hpa & Hpo & Hslot & Hctl) Hstep; simpl in *.
  subst pa po.
  assert (Hc : c < length gs) by (destruct Hslot; auto).
  assert (Hsi : slotok c o i (getg gs i)) by (destruct Hslot as (_ & Hs & _); apply Hs).
  unfold search_step in Hstep; simpl in Hstep.
  assert (Hic : i = c).
  { destruct (Nat.eq_dec i c) as [|Hne]; auto. exfalso.
    destruct Hsi as (H1 & _). destruct (H1 Hne) as ([E|E] & _); rewrite E in Hstep; discriminate. }
  subst i.
  unfold_step Hstep; break_in Hstep; inversion Hstep; subst s'; clear Hstep; unfold Inv; simpl.
  all: try rewrite getg_upd_eq by assumption.
  all: fin.
  all: match goal with
       | Hs : SlotInv ?gs ?c ?o |- SlotInv _ _ (EBestmove _ :: _) =>
           apply SlotInv_print; [exact Hs | exact Hc | ..]
       | |- _ => slot_part
       end.
  all: unf.
  all: destruct Hctl as (K1 & K2 & K3 & K4 & K5 & K6 & K7 & K8 & K9 & K10 & K11 & K12 & K13).
  all: destruct Hsi as (S1 & S2 & S3 & S4).
  all: splits; try assumption; try (intros; discriminate).
  all: expose c gs.
  all: intros; crunch.
Qed.

Lemma inv_timer : forall s i s', Inv s -> timer_step s i = Some s' -> Inv s'.
Proof.
  intros [p c gs m po gm h o pa ex] i s' (Hpa & Hpo & Hslot & Hctl) Hstep; simpl in *.
  subst pa po.
  assert (Hc : c < length gs) by (destruct Hslot; auto).
  assert (Hsi : slotok c o i (getg gs i)) by (destruct Hslot as (_ & Hs & _); apply Hs).
  unfold timer_step in Hstep; simpl in Hstep.
  destruct (tst (getg gs i)) eqn:Hti; try discriminate Hstep.
  inversion Hstep; subst s'; clear Hstep.
  assert (Hi : i < length gs) by (apply tst_in_range; congruence).
  unfold Inv, upd_slot, set_gos; simpl. fin.
  - apply SlotInv_upd; [exact Hslot | exact Hi | ..]; unf;
      destruct Hsi as (S1 & S2 & S3 & S4); auto.
    intros Hne. destruct (S1 Hne). auto.
  - destruct (Nat.eq_dec i c) as [->|Hne].
    + rewrite getg_upd_eq by assumption. unf.
      destruct Hctl as (K1 & K2 & K3 & K4 & K5 & K6 & K7 & K8 & K9 & K10 & K11 & K12 & K13).
      splits; try assumption; try (intros; discriminate).
      * intros E. specialize (K10 E). rewrite K10 in Hti. discriminate.
      * intros E. specialize (K13 E). congruence.
    + rewrite getg_upd_neq by auto. exact Hctl.
Qed.

Theorem Inv_step : forall s l s', Inv s -> step s l = Some s' -> Inv s'.
Proof.
  intros s l s' HI Hstep. unfold step in Hstep.
  destruct (exited s); [discriminate|].
  destruct l.
  - eapply inv_input; eauto.
  - eapply inv_main; eauto.
  - eapply inv_search; eauto.
  - eapply inv_timer; eauto.
Qed.

Lemma Inv_run_from : forall ls s s', Inv s -> run_from s ls = Some s' -> Inv s'.
Proof.
  induction ls as [|l t IH]; simpl; intros s s' HI H.
  - inversion H; subst; auto.
  - destruct (step s l) as [s1|] eqn:E; [|discriminate].
    eapply IH; [eapply Inv_step; eauto | eauto].
Qed.

Theorem Inv_reachable : forall s, reachable s -> Inv s.
Proof. intros s [ls H]. eapply Inv_run_from; [apply Inv_init | exact H]. Qed.

(* ------------------------------------------------------------------ *)
(* 1. one bestmove per go                                              *)
(* ------------------------------------------------------------------ *)

Definition event_eq_dec : forall a b : event, {a = b} + {a <> b}.
Proof. decide equality; apply Nat.eq_dec. Defined.

Lemma cnt_count_occ : forall i o, cnt i o = count_occ event_eq_dec o (EBestmove i).
Proof.
  intros i o; induction o as [|e t IH]; simpl; auto.
  unfold cnt in *; simpl. destruct (event_eq_dec e (EBestmove i)) as [->|Hne].
  - simpl. rewrite Nat.eqb_refl. simpl. auto.
  - destruct e; simpl; auto.
    destruct (Nat.eqb i0 i) eqn:E; auto. apply Nat.eqb_eq in E. congruence.
Qed.

(* number of accepted go commands = slots whose search thread was spawned *)
Definition accepted_gos (s : state) : nat := countg acc (gos s).

Theorem bestmove_count_exact : forall s i, reachable s ->
  cnt i (out s) = b2n (printed (sst (getg (gos s) i))).
Proof.
  intros s i Hr. destruct (Inv_reachable s Hr) as (_ & _ & (_ & Hs & _) & _).
  destruct (Hs i) as (_ & _ & H & _). exact H.
Qed.

Theorem one_bestmove : forall s, reachable s ->
  (forall i, count_occ event_eq_dec (out s) (EBestmove i) <= 1) /\
  (forall i g, nth_error (gos s) i = Some g -> sst g = SDone ->
               count_occ event_eq_dec (out s) (EBestmove i) = 1) /\
  (forall i, In (EBestmove i) (out s) ->
             exists g, nth_error (gos s) i = Some g /\ (sst g = SPrinted \/ sst g = SDone)) /\
  nbm (out s) <= accepted_gos s.
Proof.
  intros s Hr. pose proof (bestmove_count_exact s) as Hcnt.
  destruct (Inv_reachable s Hr) as (_ & _ & (_ & _ & Hn) & _).
  split; [|split; [|split]].
  - intros i. rewrite <- cnt_count_occ, Hcnt by auto.
    destruct (printed _); simpl; lia.
  - intros i g Hi Hd. apply getg_nth_error in Hi. destruct Hi as [Hi _].
    rewrite <- cnt_count_occ, Hcnt, Hi, Hd by auto. reflexivity.
  - intros i Hin. apply cnt_In in Hin. rewrite Hcnt in Hin by auto.
    destruct (nth_error (gos s) i) as [g|] eqn:E.
    + exists g. split; auto. apply getg_nth_error in E. destruct E as [E _]. rewrite E in Hin.
      destruct (sst g); simpl in Hin; try lia; auto.
    + apply nth_error_None in E. rewrite getg_overflow in Hin by lia. simpl in Hin. lia.
  - rewrite Hn. apply countg_le. intros g. unfold pr, acc. destruct (sst g); simpl; auto.
Qed.
Print Assumptions one_bestmove.

(* ------------------------------------------------------------------ *)
(* 2. flag down after timer or stop                                    *)
(* ------------------------------------------------------------------ *)

Theorem flag_down_after_timer_or_stop : forall s i g, reachable s ->
  nth_error (gos s) i = Some g ->
  tst g = TFired \/ stopped g = true -> flag g = false.
Proof.
  intros s i g Hr Hi Hd. destruct (Inv_reachable s Hr) as (_ & _ & (_ & Hs & _) & _).
  apply getg_nth_error in Hi. destruct Hi as [Hi _].
  destruct (Hs i) as (_ & H & _). rewrite Hi in H. apply H; auto.
Qed.
Print Assumptions flag_down_after_timer_or_stop.

(* ------------------------------------------------------------------ *)
(* 4. no panic                                                         *)
(* ------------------------------------------------------------------ *)

Theorem no_panic : forall s, reachable s ->
  panicked s = false /\ poisoned s = false /\
  (forall i g, nth_error (gos s) i = Some g -> sst g <> SPanicked).
Proof.
  intros s Hr. destruct (Inv_reachable s Hr) as (Hp & Hq & (_ & Hs & _) & _).
  split; [auto|split; [auto|]].
  intros i g Hi. apply getg_nth_error in Hi. destruct Hi as [Hi _].
  destruct (Hs i) as (_ & _ & _ & H). rewrite Hi in H. exact H.
Qed.
Print Assumptions no_panic.

(* ---- reachability is closed under steps ---- *)

Lemma run_from_app : forall l1 l2 s,
  run_from s (l1 ++ l2) = match run_from s l1 with Some s1 => run_from s1 l2 | None => None end.
Proof.
  induction l1 as [|l t IH]; simpl; intros l2 s; auto.
  destruct (step s l); auto.
Qed.

Lemma reachable_init : reachable init.
Proof. exists []. reflexivity. Qed.

Lemma reachable_step : forall s l s', reachable s -> step s l = Some s' -> reachable s'.
Proof.
  intros s l s' [ls H] Hs. exists (ls ++ [l]). unfold run in *.
  rewrite run_from_app, H. simpl. rewrite Hs. reflexivity.
Qed.

Lemma reachable_run_from : forall ls s s', reachable s -> run_from s ls = Some s' -> reachable s'.
Proof.
  induction ls as [|l t IH]; simpl; intros s s' Hr H.
  - inversion H; subst; auto.
  - destruct (step s l) as [s1|] eqn:E; [|discriminate].
    eapply IH; [eapply reachable_step; eauto | eauto].
Qed.

(* ---- what one step can do to one slot ---- *)

Lemma getg_upd_cases : forall i j f l,
  getg (upd i f l) j = getg l j \/
  (j = i /\ i < length l /\ getg (upd i f l) j = f (getg l j)).
Proof.
  intros i j f l. destruct (Nat.eq_dec j i) as [->|Hne].
  - destruct (lt_dec i (length l)).
    + right. split; [auto|split; [auto|]]. apply getg_upd_eq; auto.
    + left. rewrite !getg_overflow; auto; try rewrite upd_length; lia.
  - left. apply getg_upd_neq; auto.
Qed.

(* monotone facts of a slot, and the only way a flag goes up *)
Definition slot_mono (g g' : gorec) : Prop :=
  (tst g = TFired -> tst g' = TFired) /\
  (stopped g = true -> stopped g' = true) /\
  (tst g <> TNone -> tst g' = tst g \/ tst g' = TFired) /\
  (sst g = SDone -> sst g' = SDone).

Definition raise_step (s : state) (l : label) (i : nat) : Prop :=
  l = LMain /\ i = cur s /\ getg (gos s) i = gfresh /\ exists t, pc s = PGoRaise t.

Ltac upd_cases :=
  match goal with
  | |- context [getg (upd ?k ?f ?l) ?j] =>
      let E := fresh "E" in let Hlt := fresh "Hlt" in
      destruct (getg_upd_cases k j f l) as [E|(-> & Hlt & E)]; rewrite E; clear E
  | |- context [getg (?l ++ [gfresh]) ?j] => rewrite (getg_app_fresh l j)
  | |- _ => idtac
  end.

Lemma step_slot : forall s l s' i, Inv s -> step s l = Some s' ->
  slot_mono (getg (gos s) i) (getg (gos s') i) /\
  (flag (getg (gos s) i) = false -> flag (getg (gos s') i) = true -> raise_step s l i).
Proof.
  intros [p c gs m po gm h o pa ex] l s' i (Hpa & Hpo & Hslot & Hctl) Hstep; simpl in *.
  subst pa po. unfold step in Hstep; simpl in Hstep. destruct ex; [discriminate|].
  unfold raise_step, slot_mono; simpl.
  destruct l as [cm| |k|k].
  - unfold input_step in Hstep; simpl in Hstep. destruct p; try discriminate Hstep.
    inversion Hstep; subst s'; simpl. splits; auto; intros; congruence.
  - unfold main_step in Hstep; simpl in Hstep.
    destruct p; unfold_step Hstep; break_in Hstep; inversion Hstep; subst s'; clear Hstep; simpl.
    all: upd_cases.
    all: unf.
    all: destruct Hctl as (K1 & K2 & K3 & K4 & K5 & K6 & K7 & K8 & K9 & K10 & K11 & K12 & K13).
    all: try (splits; auto; intros; congruence).
    all: expose c gs; splits; intros; crunch; eauto.
  - unfold search_step in Hstep; simpl in Hstep.
    unfold_step Hstep; break_in Hstep; inversion Hstep; subst s'; clear Hstep; simpl.
    all: upd_cases.
    all: unf.
    all: try (splits; auto; intros; congruence).
    all: expose k gs; splits; intros; crunch.
  - unfold timer_step in Hstep; simpl in Hstep.
    unfold_step Hstep; break_in Hstep; inversion Hstep; subst s'; clear Hstep; simpl.
    all: upd_cases.
    all: unf.
    all: try (splits; auto; intros; congruence).
    all: expose k gs; splits; intros; crunch.
Qed.

(* "timer i has fired or a stop was processed for go i" *)
Definition down_cond (s : state) (i : nat) : Prop :=
  tst (getg (gos s) i) = TFired \/ stopped (getg (gos s) i) = true.

Lemma down_cond_step : forall s l s' i, reachable s -> step s l = Some s' ->
  down_cond s i -> down_cond s' i.
Proof.
  intros s l s' i Hr Hs Hd. destruct (step_slot s l s' i (Inv_reachable s Hr) Hs) as ((M1 & M2 & _) & _).
  destruct Hd; [left|right]; auto.
Qed.

Lemma down_cond_flag : forall s i, reachable s -> down_cond s i -> flag (getg (gos s) i) = false.
Proof.
  intros s i Hr Hd. destruct (Inv_reachable s Hr) as (_ & _ & (_ & Hs & _) & _).
  destruct (Hs i) as (_ & H & _). apply H; auto.
Qed.

(* once the timer of go i has fired or a stop was processed for go i, flag i is false in
   every later state of every continuation *)
Theorem flag_down_forever : forall ls s s' i, reachable s -> down_cond s i ->
  run_from s ls = Some s' -> down_cond s' i /\ flag (getg (gos s') i) = false.
Proof.
  induction ls as [|l t IH]; simpl; intros s s' i Hr Hd H.
  - inversion H; subst. split; auto. apply down_cond_flag; auto.
  - destruct (step s l) as [s1|] eqn:E; [|discriminate].
    eapply IH; [eapply reachable_step; eauto | eapply down_cond_step; eauto | eauto].
Qed.
Print Assumptions flag_down_forever.

(* the only step that raises a flag is the `store(true)` of command_go, on the fresh
   flag of that go: no search thread, no timer thread and no stop exist for it yet (F6a) *)
Theorem flag_raised_only_before_timer : forall s l s' i, reachable s -> step s l = Some s' ->
  flag (getg (gos s) i) = false -> flag (getg (gos s') i) = true ->
  l = LMain /\ i = cur s /\ (exists t, pc s = PGoRaise t) /\
  tst (getg (gos s) i) = TNone /\ sst (getg (gos s) i) = SNone /\
  stopped (getg (gos s) i) = false.
Proof.
  intros s l s' i Hr Hs H0 H1.
  destruct (step_slot s l s' i (Inv_reachable s Hr) Hs) as (_ & H).
  destruct (H H0 H1) as (A & B & C & D). rewrite C. simpl. splits; auto.
Qed.
Print Assumptions flag_raised_only_before_timer.

(* a timer thread, once spawned, is never replaced: sleeping -> fired *)
Theorem timer_spawned_once : forall s l s' i, reachable s -> step s l = Some s' ->
  tst (getg (gos s) i) <> TNone ->
  tst (getg (gos s') i) = tst (getg (gos s) i) \/ tst (getg (gos s') i) = TFired.
Proof.
  intros s l s' i Hr Hs H.
  destruct (step_slot s l s' i (Inv_reachable s Hr) Hs) as ((_ & _ & M & _) & _). auto.
Qed.

(* ------------------------------------------------------------------ *)
(* 3. commands after bestmove are honoured                             *)
(* ------------------------------------------------------------------ *)

Ltac get_inv s Hr :=
  let Hpa := fresh "Hpa" in let Hpo := fresh "Hpo" in
  let Hslot := fresh "Hslot" in let Hctl := fresh "Hctl" in
  destruct (Inv_reachable s Hr) as (Hpa & Hpo & Hslot & Hctl).

Theorem after_bestmove_honoured : forall s, reachable s ->
  In (EBestmove (cur s)) (out s) -> curflag s = false.
Proof.
  intros s Hr Hin. apply cnt_In in Hin. rewrite bestmove_count_exact in Hin by auto.
  get_inv s Hr. unfold curflag.
  destruct s as [p c gs m po gm h o pa ex]; simpl in *. unf.
  destruct Hctl as (K1 & K2 & K3 & K4 & K5 & K6 & K7 & K8 & K9 & K10 & K11 & K12 & K13).
  destruct (flag (getg gs c)); auto. exfalso.
  destruct (K8 eq_refl) as [E|E].
  - destruct (sst (getg gs c)); simpl in *; try discriminate; lia.
  - rewrite (K11 E) in Hin. simpl in Hin. lia.
Qed.
Print Assumptions after_bestmove_honoured.

(* the busy check of a following position / go / show / ucinewgame then takes the
   "not busy" branch: no EErrorBusy (F6b) *)
Theorem not_refused_after_bestmove : forall s, reachable s -> exited s = false ->
  In (EBestmove (cur s)) (out s) ->
  (forall ok, pc s = PPosLoad ok -> step s LMain = Some (set_pc s (PPosJoin ok))) /\
  (forall t, pc s = PGoLoad t -> step s LMain = Some (set_pc s (PGoJoin t))) /\
  (pc s = PShowLoad -> step s LMain = Some (set_pc s PShowJoin)) /\
  (pc s = PNgLoad -> step s LMain = Some (set_pc s PNgJoin)).
Proof.
  intros s Hr Hex Hin. pose proof (after_bestmove_honoured s Hr Hin) as Hf.
  unfold step, main_step. rewrite Hex.
  splits; intros; match goal with H : pc s = _ |- _ => rewrite H end; rewrite Hf; reflexivity.
Qed.

(* the output only grows, and `cur` only moves when a go allocates its flag *)
Lemma step_out_cur : forall s l s', step s l = Some s' ->
  (out s' = out s \/ exists e, out s' = e :: out s) /\
  (cur s' = cur s \/ (l = LMain /\ exists t, pc s = PGoNew t)).
Proof.
  intros [p c gs m po gm h o pa ex] l s' Hstep. unfold step in Hstep; simpl in *.
  destruct ex; [discriminate|].
  destruct l as [cm| |k|k].
  - unfold input_step in Hstep; simpl in Hstep. destruct p; try discriminate Hstep.
    inversion Hstep; subst s'; simpl. auto.
  - unfold main_step in Hstep; simpl in Hstep.
    destruct p; unfold_step Hstep; break_in Hstep; inversion Hstep; subst s'; clear Hstep; simpl;
      eauto 6.
  - unfold search_step in Hstep; simpl in Hstep.
    unfold_step Hstep; break_in Hstep; inversion Hstep; subst s'; clear Hstep; simpl; eauto.
  - unfold timer_step in Hstep; simpl in Hstep.
    unfold_step Hstep; break_in Hstep; inversion Hstep; subst s'; clear Hstep; simpl; eauto.
Qed.

(* so "bestmove of the latest go is out" stays true until the next go creates its flag *)
Theorem bestmove_of_cur_stable : forall s l s', step s l = Some s' ->
  In (EBestmove (cur s)) (out s) ->
  In (EBestmove (cur s')) (out s') \/ (l = LMain /\ exists t, pc s = PGoNew t).
Proof.
  intros s l s' Hs Hin. destruct (step_out_cur s l s' Hs) as ([Eo|[e Eo]] & [Ec|Ec]); auto;
    left; rewrite Ec, Eo; simpl; auto.
Qed.

(* F6c: at most one search thread is alive, it belongs to the current slot, and whenever
   the stdin thread is at `data.lock()` or inside the critical section of ucinewgame /
   position / show / command_go (before its own spawn) every search thread has ended;
   a search thread that still needs the game finds it present *)
Definition in_data (p : pcT) : bool :=
  match p with
  | PNgLock | PNgClear | PNgUnlock | PPosLock _ | PPosSet _ | PPosUnlock
  | PGoLock _ | PGoCheck _ | PGoRaise _ | PGoInfo | PGoTimer | PGoSpawn
  | PShowLock | PShowPrint | PShowUnlock => true
  | _ => false
  end.

Theorem one_search_thread : forall s i, reachable s -> i <> cur s ->
  sst (getg (gos s) i) = SNone \/ sst (getg (gos s) i) = SDone.
Proof.
  intros s i Hr Hne. get_inv s Hr. destruct Hslot as (_ & Hs & _).
  destruct (Hs i) as (H & _). destruct (H Hne); auto.
Qed.

Theorem lock_taken_after_join : forall s i, reachable s -> in_data (pc s) = true ->
  sst (getg (gos s) i) = SNone \/ sst (getg (gos s) i) = SDone.
Proof.
  intros s i Hr Hp. destruct (Nat.eq_dec i (cur s)) as [->|Hne]; [|apply one_search_thread; auto].
  get_inv s Hr. destruct s as [p c gs m po gm h o pa ex]; simpl in *. unf.
  destruct Hctl as (K1 & K2 & K3 & K4 & K5 & K6 & K7 & K8 & K9 & K10 & K11 & K12 & K13).
  assert (Hn : nohandle p = true) by (destruct p; simpl in *; congruence).
  specialize (K9 Hn). subst h.
  destruct (sst (getg gs c)); simpl in *; auto; specialize (K2 eq_refl); discriminate.
Qed.

Theorem game_kept_for_search : forall s i, reachable s ->
  needs_game (sst (getg (gos s) i)) = true -> game s = true.
Proof.
  intros s i Hr Hn. destruct (Nat.eq_dec i (cur s)) as [->|Hne].
  - get_inv s Hr. destruct Hctl as (_ & _ & _ & _ & _ & _ & K7 & _). auto.
  - destruct (one_search_thread s i Hr Hne) as [E|E]; rewrite E in Hn; discriminate.
Qed.
Print Assumptions not_refused_after_bestmove.
Print Assumptions lock_taken_after_join.
Print Assumptions game_kept_for_search.

(* ------------------------------------------------------------------ *)
(* 5. no deadlock                                                      *)
(* ------------------------------------------------------------------ *)

Lemma all_cmds_complete : forall c, In c all_cmds.
Proof. destruct c as [| | |[]|[]| | | |]; simpl; auto 12. Qed.

Lemma step_not_exited : forall s l, step s l <> None -> exited s = false.
Proof. intros s l H. unfold step in H. destruct (exited s); congruence. Qed.

Lemma enabled_iff : forall s l, In l (enabled s) <-> step s l <> None.
Proof.
  intros s l. unfold enabled. rewrite filter_In. split.
  - intros [_ H]. destruct (step s l); simpl in H; congruence.
  - intros H. split; [|destruct (step s l); simpl; congruence].
    pose proof (step_not_exited s l H) as Hex. unfold step in H. rewrite Hex in H.
    unfold candidates. destruct l as [c| |i|i].
    + apply in_or_app. left. apply in_map. apply all_cmds_complete.
    + apply in_or_app. right. simpl. auto.
    + apply in_or_app. right. simpl. right. apply in_or_app. left. apply in_map.
      apply in_seq. split; [lia|]. simpl. apply sst_in_range.
      unfold search_step in H. intros E. rewrite E in H. congruence.
    + apply in_or_app. right. simpl. right. apply in_or_app. right. apply in_map.
      apply in_seq. split; [lia|]. simpl. apply tst_in_range.
      unfold timer_step in H. intros E. rewrite E in H. congruence.
Qed.

Definition joinpc (p : pcT) : bool :=
  match p with
  | PNgJoin | PPosJoin _ | PGoJoin _ | PShowJoin | PStopJoin | PWaitJoin => true
  | _ => false
  end.
Definition lockpc (p : pcT) : bool :=
  match p with
  | PNgLock | PPosLock _ | PGoLock _ | PShowLock => true
  | _ => false
  end.

Ltac prog :=
  simp_hyps;
  try match goal with H : mkGo _ _ _ _ = getg _ _ |- _ => rewrite <- H end;
  simpl;
  first [ solve [left; congruence]
        | solve [right; splits; simpl; congruence]
        | match goal with
          | |- context [match ?x with _ => _ end] => is_var x; destruct x; simpl in *; prog
          end
        | solve [exfalso; crunch] ].

(* a busy stdin thread can step, unless it sits in a join on the current search thread,
   and then that thread can step *)
Lemma main_progress : forall s, reachable s -> exited s = false -> pc s <> PIdle ->
  step s LMain <> None \/
  (joinpc (pc s) = true /\ handle s = Some (cur s) /\ step s (LSearch (cur s)) <> None).
Proof.
  intros s Hr Hex Hp. get_inv s Hr.
  destruct s as [p c gs m po gm h o pa ex]; simpl in *. subst pa po ex.
  unfold step; simpl. unfold main_step, search_step; simpl.
  unf. destruct Hctl as (K1 & K2 & K3 & K4 & K5 & K6 & K7 & K8 & K9 & K10 & K11 & K12 & K13).
  clear Hslot.
  destruct p; try congruence;
    unfold main_lock, main_join, main_unlock, main_dies, upd_slot, curflag; simpl;
    try solve [left; congruence].
  all: expose c gs.
  all: prog.
Qed.

Theorem no_deadlock : forall s, reachable s -> exited s = false -> enabled s <> [].
Proof.
  intros s Hr Hex.
  assert (H : exists l, In l (enabled s)).
  { destruct (pc s) eqn:Hp.
    1: { exists (LInput CUci). apply enabled_iff. unfold step, input_step. rewrite Hex, Hp. congruence. }
    all: destruct (main_progress s Hr Hex) as [H|(_ & _ & H)]; try congruence;
      [exists LMain | exists (LSearch (cur s))]; apply enabled_iff; exact H. }
  destruct H as [l H]. intros E. rewrite E in H. destruct H.
Qed.
Print Assumptions no_deadlock.

(* the stdin thread never waits at a lock: when it reaches `data.lock()` the mutex is free *)
Theorem main_never_blocked_on_lock : forall s, reachable s -> exited s = false ->
  lockpc (pc s) = true -> step s LMain <> None.
Proof.
  intros s Hr Hex Hl.
  destruct (main_progress s Hr Hex) as [H|(Hj & _)]; auto.
  - destruct (pc s); simpl in Hl; congruence.
  - destruct (pc s); simpl in *; congruence.
Qed.

(* if the stdin thread is blocked it is in a join on the current search thread, and that
   thread can step *)
Theorem blocked_main_waits_for_runnable : forall s, reachable s -> exited s = false ->
  pc s <> PIdle -> step s LMain = None ->
  joinpc (pc s) = true /\ handle s = Some (cur s) /\ step s (LSearch (cur s)) <> None.
Proof.
  intros s Hr Hex Hp Hb. destruct (main_progress s Hr Hex Hp) as [H|H]; auto. congruence.
Qed.
Print Assumptions blocked_main_waits_for_runnable.

(* and the awaited thread reaches its end by its own steps alone (at most 6), after which
   the join completes: a blocked stdin thread needs no step of any other thread *)
Definition rank (x : sstate) : nat :=
  match x with
  | SWaitLock => 6 | SSearching => 5 | SFinished => 4 | SCleared => 3 | SDropped => 2
  | SPrinted => 1 | _ => 0
  end.

Lemma search_step_rank : forall s s', step s (LSearch (cur s)) = Some s' ->
  cur s < length (gos s) -> panicked s = false -> poisoned s = false ->
  (sst (getg (gos s) (cur s)) = SWaitLock -> game s = true) ->
  S (rank (sst (getg (gos s') (cur s')))) = rank (sst (getg (gos s) (cur s))) /\
  pc s' = pc s /\ handle s' = handle s /\ cur s' = cur s /\ exited s' = false.
Proof.
  intros [p c gs m po gm h o pa ex] s' Hstep Hc Hpa Hpo Hg; simpl in *. subst pa po.
  unfold step in Hstep; simpl in Hstep. destruct ex; [discriminate|].
  unfold search_step in Hstep; simpl in Hstep.
  destruct (sst (getg gs c)) eqn:Es; unfold_step Hstep; break_in Hstep;
    try (specialize (Hg eq_refl); discriminate);
    inversion Hstep; subst s'; clear Hstep; simpl;
    rewrite getg_upd_eq by assumption; simpl; auto.
Qed.

Theorem join_completes : forall s, reachable s -> exited s = false -> pc s <> PIdle ->
  exists n s', n <= 6 /\ run_from s (repeat (LSearch (cur s)) n) = Some s' /\
               pc s' = pc s /\ step s' LMain <> None.
Proof.
  intros s Hr Hex Hp.
  remember (rank (sst (getg (gos s) (cur s)))) as k eqn:Hk.
  assert (Hk6 : k <= 6) by (subst k; destruct (sst _); simpl; lia).
  cut (exists n s', n <= k /\ run_from s (repeat (LSearch (cur s)) n) = Some s' /\
                    pc s' = pc s /\ step s' LMain <> None).
  { intros (n & s' & Hn & H). exists n, s'. split; [lia|auto]. }
  clear Hk6. revert s Hr Hex Hp Hk. induction k as [|k IH]; intros s Hr Hex Hp Hk.
  - destruct (main_progress s Hr Hex Hp) as [H|(_ & _ & H)].
    + exists 0, s. simpl. auto.
    + exfalso. unfold step in H. rewrite Hex in H. unfold search_step in H.
      destruct (sst (getg (gos s) (cur s))); simpl in Hk; congruence.
  - destruct (main_progress s Hr Hex Hp) as [H|(_ & _ & H)].
    + exists 0, s. simpl. split; [lia|auto].
    + destruct (step s (LSearch (cur s))) as [s1|] eqn:E; [|congruence].
      get_inv s Hr.
      assert (Hg : sst (getg (gos s) (cur s)) = SWaitLock -> game s = true).
      { intros Ew. destruct Hctl as (_ & _ & _ & _ & _ & _ & K7 & _). apply K7. rewrite Ew. auto. }
      destruct (search_step_rank s s1 E (proj1 Hslot) Hpa Hpo Hg) as (R1 & R2 & R3 & R4 & R5).
      destruct (IH s1) as (n & s' & Hn & Hrun & Hpc & Hm).
      * eapply reachable_step; eauto.
      * auto.
      * congruence.
      * lia.
      * exists (S n), s'. split; [lia|]. simpl. rewrite E. rewrite R4 in Hrun.
        split; [auto|split; [congruence|auto]].
Qed.
Print Assumptions join_completes.

(* isready: answered by two steps of the stdin thread, in any state in which it is idle,
   without touching the mutex or any flag *)
Theorem isready_answered : forall s, pc s = PIdle -> exited s = false ->
  exists s1 s2, step s (LInput CIsReady) = Some s1 /\ step s1 LMain = Some s2 /\
    out s2 = EReadyOk :: out s /\ pc s2 = PIdle /\ mutex s2 = mutex s /\ mutex s1 = mutex s /\
    gos s2 = gos s /\ game s2 = game s.
Proof.
  intros [p c gs m po gm h o pa ex] Hp Hex; simpl in *. subst p ex.
  eexists. eexists. unfold step; simpl. split; [reflexivity|]. simpl. split; [reflexivity|].
  simpl. auto 10.
Qed.

(* the pending isready cannot be disabled or delayed by the other threads: they do not
   touch the stdin thread's program counter *)
Lemma other_threads_keep_pc : forall s l s', step s l = Some s' ->
  (forall c, l <> LInput c) -> l <> LMain -> pc s' = pc s /\ exited s' = false.
Proof.
  intros [p c gs m po gm h o pa ex] l s' Hstep Hi Hm. unfold step in Hstep; simpl in *.
  destruct ex; [discriminate|].
  destruct l as [cm| |k|k]; try congruence.
  - unfold search_step in Hstep; simpl in Hstep.
    unfold_step Hstep; break_in Hstep; inversion Hstep; subst s'; clear Hstep; simpl; auto.
  - unfold timer_step in Hstep; simpl in Hstep.
    unfold_step Hstep; break_in Hstep; inversion Hstep; subst s'; clear Hstep; simpl; auto.
Qed.

Theorem isready_pending_answered : forall s, pc s = PIsReady -> exited s = false ->
  exists s2, step s LMain = Some s2 /\ out s2 = EReadyOk :: out s /\ pc s2 = PIdle /\
             mutex s2 = mutex s.
Proof.
  intros [p c gs m po gm h o pa ex] Hp Hex; simpl in *. subst p ex.
  eexists. unfold step; simpl. split; [reflexivity|]. simpl. auto.
Qed.

(* ------------------------------------------------------------------ *)
(* 6. quit                                                             *)
(* ------------------------------------------------------------------ *)

Theorem quit_exits : forall s, pc s = PIdle -> exited s = false ->
  exists s1 s2, step s (LInput CQuit) = Some s1 /\ step s1 LMain = Some s2 /\ exited s2 = true.
Proof.
  intros [p c gs m po gm h o pa ex] Hp Hex; simpl in *. subst p ex.
  eexists. eexists. unfold step; simpl. split; [reflexivity|]. simpl. split; reflexivity.
Qed.

(* whatever the other threads do after `quit` was read, the stdin thread's next step exits *)
Theorem quit_pending_exits : forall s, pc s = PQuit -> exited s = false ->
  exists s2, step s LMain = Some s2 /\ exited s2 = true.
Proof.
  intros [p c gs m po gm h o pa ex] Hp Hex; simpl in *. subst p ex.
  eexists. unfold step; simpl. split; reflexivity.
Qed.

Theorem exited_is_final : forall s l, exited s = true -> step s l = None.
Proof. intros s l H. unfold step. rewrite H. reflexivity. Qed.
Print Assumptions quit_exits.

(* ------------------------------------------------------------------ *)
(* example schedules (checked by computation)                          *)
(* ------------------------------------------------------------------ *)

Definition M (n : nat) : list label := repeat LMain n.
Definition Sr (i n : nat) : list label := repeat (LSearch i) n.

(* what the examples look at: pc, stdout in chronological order, panicked, game,
   flags, search threads, mutex, handle *)
Definition obs (o : option state) :=
  match o with
  | Some s => Some (pc s, rev (out s), panicked s, game s, map flag (gos s), map sst (gos s),
                    mutex s, handle s)
  | None => None
  end.
Definition blocked (o : option state) (l : label) : bool :=
  match o with Some s => negb (is_some (step s l)) | None => false end.

(* `position startpos`: input, load, (no handle), lock, set, unlock *)
Definition sched_pos : list label := LInput (CPosition true) :: M 5.

(* (a) go timed; the timer fires before the search thread has taken the lock; ucinewgame.
   This is the F6c schedule.  The flag is already down, so ucinewgame takes the
   "not running" branch - and now waits in the join for the pending thread ... *)
Definition sched_timer_newgame_1 : list label :=
  sched_pos ++ LInput (CGo true) :: M 10 ++ [LTimer 1; LInput CNewGame; LMain].

Example ex_timer_newgame_waits :
  obs (run sched_timer_newgame_1) =
    Some (PNgJoin, [EInfoTime], false, true, [false; false], [SNone; SWaitLock], MFree, Some 1)
  /\ blocked (run sched_timer_newgame_1) LMain = true.
Proof. vm_compute. split; reflexivity. Qed.

(* ... the search thread runs (lock, search ends at once on the cleared flag, clear, drop,
   bestmove, unlock), then ucinewgame goes on: no panic *)
Example ex_timer_newgame_no_panic :
  obs (run (sched_timer_newgame_1 ++ Sr 1 6 ++ M 4)) =
    Some (PIdle, [EInfoTime; EBestmove 1], false, false, [false; false], [SNone; SDone],
          MFree, None).
Proof. vm_compute. reflexivity. Qed.

(* (b) bestmove printed (search thread still holds the mutex), `position` arrives: the busy
   check passes (no EErrorBusy, the F6b repair), the join waits for the thread's last
   step, then position is carried out *)
Definition sched_bestmove_position_1 : list label :=
  sched_pos ++ LInput (CGo false) :: M 8 ++ Sr 1 5 ++ [LInput (CPosition true); LMain].

Example ex_bestmove_then_position_not_refused :
  obs (run sched_bestmove_position_1) =
    Some (PPosJoin true, [EBestmove 1], false, false, [false; false], [SNone; SPrinted],
          MSearch 1, Some 1)
  /\ blocked (run sched_bestmove_position_1) LMain = true.
Proof. vm_compute. split; reflexivity. Qed.

Example ex_bestmove_then_position_accepted :
  obs (run (sched_bestmove_position_1 ++ Sr 1 1 ++ M 4)) =
    Some (PIdle, [EBestmove 1], false, true, [false; false], [SNone; SDone], MFree, None).
Proof. vm_compute. reflexivity. Qed.

(* (c) go / stop / go: the search is stopped and answers; a go without a new position is
   refused with "no game" (every search thread drops the game) and uses up slot 2; after a
   position, a timed go (slot 3) answers; its timer fires afterwards and only touches its
   own flag *)
Definition sched_go_stop_go : list label :=
  sched_pos ++ LInput (CGo false) :: M 8 ++ Sr 1 1 ++ [LInput CStop; LMain] ++ Sr 1 5 ++ [LMain]
  ++ LInput (CGo false) :: M 6
  ++ sched_pos ++ LInput (CGo true) :: M 10 ++ Sr 3 6 ++ [LTimer 3].

Example ex_go_stop_go :
  obs (run sched_go_stop_go) =
    Some (PIdle, [EBestmove 1; EErrorNoGame; EInfoTime; EBestmove 3], false, false,
          [false; false; false; false], [SNone; SDone; SNone; SDone], MFree, Some 3).
Proof. vm_compute. reflexivity. Qed.

(* (d) wait: blocked in the join until the search thread has ended, then clears the flag *)
Definition sched_wait_1 : list label := sched_pos ++ LInput (CGo false) :: M 8 ++ [LInput CWait].

Example ex_wait_blocks : blocked (run sched_wait_1) LMain = true.
Proof. vm_compute. reflexivity. Qed.

Example ex_wait :
  obs (run (sched_wait_1 ++ Sr 1 6 ++ M 2)) =
    Some (PIdle, [EBestmove 1], false, false, [false; false], [SNone; SDone], MFree, None).
Proof. vm_compute. reflexivity. Qed.

(* (e) isready is answered while the search thread holds the mutex; a second go is refused *)
Definition sched_isready_busy : list label :=
  sched_pos ++ LInput (CGo false) :: M 8 ++ Sr 1 1
  ++ [LInput CIsReady; LMain; LInput (CGo false); LMain; LMain].

Example ex_isready_during_search :
  obs (run sched_isready_busy) =
    Some (PIdle, [EReadyOk; EErrorBusy], false, true, [false; true], [SNone; SSearching],
          MSearch 1, Some 1)
  /\ option_map enabled (run sched_isready_busy) =
     Some (map LInput all_cmds ++ [LSearch 1]).
Proof. vm_compute. split; reflexivity. Qed.

Print Assumptions Inv_reachable.
Print Assumptions main_never_blocked_on_lock.
Print Assumptions isready_answered.
Print Assumptions quit_pending_exits.
Print Assumptions bestmove_of_cur_stable.
