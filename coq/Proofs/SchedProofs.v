(* Proofs/SchedProofs.v - invariants of the thread model Model/Sched.v, for every reachable
   state (every command sequence, every interleaving). *)
From Coq Require Import List Arith Bool Lia.
From Chess Require Import Model.Sched.
Import ListNotations.

Definition reachable (s : state) : Prop := exists ls, run ls = Some s.

(* ------------------------------------------------------------------ *)
(* slots                                                               *)
(* ------------------------------------------------------------------ *)

Lemma upd_length : forall i f l, length (upd i f l) = length l.
Proof.
  intros i f l; revert i; induction l as [|g t IH]; intros [|k]; simpl; auto.
Qed.

Lemma getg_upd_eq : forall i f l, i < length l -> getg (upd i f l) i = f (getg l i).
Proof.
  unfold getg; intros i f l; revert i; induction l as [|g t IH]; intros [|k] Hi; simpl in *;
    try lia; auto.
  apply IH; lia.
Qed.

Lemma getg_upd_neq : forall i j f l, j <> i -> getg (upd i f l) j = getg l j.
Proof.
  unfold getg; intros i j f l; revert i j; induction l as [|g t IH]; intros [|k] [|j] Hne; simpl;
    auto; try congruence.
Qed.

Lemma getg_overflow : forall l j, length l <= j -> getg l j = gfresh.
Proof. unfold getg; intros; apply nth_overflow; auto. Qed.

Lemma getg_app_fresh : forall l j, getg (l ++ [gfresh]) j = getg l j.
Proof.
  unfold getg; intros l j. destruct (lt_dec j (length l)) as [Hlt|Hge].
  - rewrite app_nth1; auto.
  - rewrite app_nth2 by lia. rewrite (nth_overflow l) by lia.
    destruct (j - length l) as [|[|k]]; reflexivity.
Qed.

Lemma sst_in_range : forall l i, sst (getg l i) <> SNone -> i < length l.
Proof.
  intros l i H. destruct (lt_dec i (length l)); auto.
  rewrite getg_overflow in H by lia. simpl in H; congruence.
Qed.

Lemma tst_in_range : forall l i, tst (getg l i) <> TNone -> i < length l.
Proof.
  intros l i H. destruct (lt_dec i (length l)); auto.
  rewrite getg_overflow in H by lia. simpl in H; congruence.
Qed.

Lemma getg_nth_error : forall l i g, nth_error l i = Some g -> getg l i = g /\ i < length l.
Proof.
  intros l i g H. split.
  - unfold getg. apply nth_error_nth; auto.
  - apply nth_error_Some; congruence.
Qed.

(* ------------------------------------------------------------------ *)
(* counting                                                            *)
(* ------------------------------------------------------------------ *)

Definition b2n (b : bool) : nat := if b then 1 else 0.

Definition is_bm (e : event) : bool := match e with EBestmove _ => true | _ => false end.
Definition is_bm_of (i : nat) (e : event) : bool :=
  match e with EBestmove j => Nat.eqb j i | _ => false end.

(* number of `bestmove` lines of go i / of all go's in an output *)
Definition cnt (i : nat) (o : list event) : nat := length (filter (is_bm_of i) o).
Definition nbm (o : list event) : nat := length (filter is_bm o).

Fixpoint countg (p : gorec -> bool) (l : list gorec) : nat :=
  match l with [] => 0 | g :: t => b2n (p g) + countg p t end.

Definition printed (x : sstate) : bool :=
  match x with SPrinted | SDone => true | _ => false end.
Definition accepted (x : sstate) : bool :=
  match x with SNone => false | _ => true end.
Definition pr (g : gorec) : bool := printed (sst g).
Definition acc (g : gorec) : bool := accepted (sst g).

Lemma countg_upd : forall p f l i, i < length l ->
  countg p (upd i f l) + b2n (p (getg l i)) = countg p l + b2n (p (f (getg l i))).
Proof.
  unfold getg; intros p f l; induction l as [|g t IH]; intros [|k] Hi; simpl in *; try lia.
  specialize (IH k ltac:(lia)). lia.
Qed.

Lemma countg_app : forall p l1 l2, countg p (l1 ++ l2) = countg p l1 + countg p l2.
Proof. intros p l1 l2; induction l1; simpl; lia. Qed.

Lemma countg_le : forall p q l, (forall g, p g = true -> q g = true) -> countg p l <= countg q l.
Proof.
  intros p q l H; induction l as [|g t IH]; simpl; auto.
  destruct (p g) eqn:Hp; [rewrite (H g Hp)|]; simpl; [|destruct (q g); simpl]; lia.
Qed.

Lemma cnt_cons_bm : forall i j o, cnt j (EBestmove i :: o) = b2n (Nat.eqb i j) + cnt j o.
Proof. intros; unfold cnt; simpl. destruct (Nat.eqb i j); reflexivity. Qed.

Lemma cnt_cons_other : forall e j o, is_bm e = false -> cnt j (e :: o) = cnt j o.
Proof. intros e j o H; unfold cnt; simpl. destruct e; simpl in *; try discriminate; reflexivity. Qed.

Lemma nbm_cons_other : forall e o, is_bm e = false -> nbm (e :: o) = nbm o.
Proof. intros e o H; unfold nbm; simpl. rewrite H; reflexivity. Qed.

Lemma cnt_In : forall i o, In (EBestmove i) o -> 1 <= cnt i o.
Proof.
  intros i o; induction o as [|e t IH]; simpl; intros H; [tauto|].
  destruct H as [->|H].
  - rewrite cnt_cons_bm, Nat.eqb_refl; simpl; lia.
  - specialize (IH H). unfold cnt in *; simpl. destruct (is_bm_of i e); simpl; lia.
Qed.

(* ------------------------------------------------------------------ *)
(* the invariant                                                       *)
(* ------------------------------------------------------------------ *)

Definition alive (x : sstate) : bool := match x with SNone | SDone => false | _ => true end.
Definition holds (x : sstate) : bool :=
  match x with SSearching | SFinished | SCleared | SDropped | SPrinted => true | _ => false end.
Definition needs_game (x : sstate) : bool :=
  match x with SWaitLock | SSearching | SFinished | SCleared => true | _ => false end.
Definition running (x : sstate) : bool :=
  match x with SWaitLock | SSearching | SFinished => true | _ => false end.

(* the stdin thread holds the mutex *)
Definition locked (p : pcT) : bool :=
  match p with
  | PNgClear | PNgUnlock | PPosSet _ | PPosUnlock | PGoCheck _ | PGoRaise _ | PGoInfo | PGoTimer
  | PGoSpawn | PGoUnlock | PShowPrint | PShowUnlock => true
  | _ => false
  end.
(* the stdin thread has joined (or never had) a search thread: no handle *)
Definition nohandle (p : pcT) : bool :=
  match p with
  | PNgLock | PNgClear | PNgUnlock | PPosLock _ | PPosSet _ | PPosUnlock
  | PGoNew _ | PGoLock _ | PGoCheck _ | PGoErr | PGoRaise _ | PGoInfo | PGoTimer | PGoSpawn
  | PShowLock | PShowPrint | PShowUnlock | PWaitStore => true
  | _ => false
  end.
Definition fresh (p : pcT) : bool :=
  match p with PGoLock _ | PGoCheck _ | PGoRaise _ => true | _ => false end.
Definition raised (p : pcT) : bool :=
  match p with PGoInfo | PGoTimer | PGoSpawn => true | _ => false end.
Definition pretimer (p : pcT) : bool :=
  match p with PGoInfo | PGoTimer => true | _ => false end.
Definition gamepc (p : pcT) : bool :=
  match p with PGoRaise _ | PGoInfo | PGoTimer | PGoSpawn => true | _ => false end.

(* slots other than the current one: thread absent or finished, flag down *)
Definition oldok (g : gorec) : Prop := (sst g = SNone \/ sst g = SDone) /\ flag g = false.
(* timer fired or `stop` handled: flag down *)
Definition downok (g : gorec) : Prop := (tst g = TFired \/ stopped g = true) -> flag g = false.

Definition slotok (c : nat) (o : list event) (j : nat) (g : gorec) : Prop :=
  (j <> c -> oldok g) /\ downok g /\ cnt j o = b2n (pr g) /\ sst g <> SPanicked.

Definition SlotInv (gs : list gorec) (c : nat) (o : list event) : Prop :=
  c < length gs /\ (forall j, slotok c o j (getg gs j)) /\ nbm o = countg pr gs.

(* control part: stdin thread, mutex, game, handle and the current slot g *)
Definition CtlInv (p : pcT) (m : owner) (gm : bool) (h : option nat) (c : nat) (g : gorec) : Prop :=
  match h with None => True | Some k => k = c /\ sst g <> SNone end /\
  (alive (sst g) = true -> h = Some c) /\
  (holds (sst g) = true -> m = MSearch c) /\
  match m with MSearch j => j = c /\ holds (sst g) = true | _ => True end /\
  (m = MMain -> locked p = true) /\
  (locked p = true -> m = MMain) /\
  (needs_game (sst g) = true -> gm = true) /\
  (flag g = true -> running (sst g) = true \/ raised p = true) /\
  (nohandle p = true -> h = None) /\
  (fresh p = true -> g = gfresh) /\
  (raised p = true -> sst g = SNone) /\
  (gamepc p = true -> gm = true) /\
  (pretimer p = true -> tst g = TNone).

Definition Inv (s : state) : Prop :=
  panicked s = false /\ poisoned s = false /\
  SlotInv (gos s) (cur s) (out s) /\
  CtlInv (pc s) (mutex s) (game s) (handle s) (cur s) (getg (gos s) (cur s)).

Lemma Inv_init : Inv init.
Proof.
  unfold Inv, init; simpl. repeat split; try discriminate; auto.
  - destruct j as [|[|j]]; simpl; auto.
  - destruct j as [|[|j]]; simpl; auto.
  - unfold downok. destruct j as [|[|j]]; simpl; auto.
  - destruct j as [|[|j]]; simpl; auto.
  - destruct j as [|[|j]]; simpl; congruence.
Qed.

(* ------------------------------------------------------------------ *)
(* preservation of the slot part                                       *)
(* ------------------------------------------------------------------ *)

Lemma SlotInv_emit : forall gs c o e, is_bm e = false -> SlotInv gs c o -> SlotInv gs c (e :: o).
Proof.
  intros gs c o e He (Hc & Hs & Hn). split; [auto|split].
  - intros j. destruct (Hs j) as (H1 & H2 & H3 & H4). unfold slotok.
    rewrite cnt_cons_other by auto. auto.
  - rewrite nbm_cons_other by auto. auto.
Qed.

Lemma SlotInv_upd : forall gs c o i f,
  SlotInv gs c o -> i < length gs ->
  pr (f (getg gs i)) = pr (getg gs i) ->
  (i <> c -> oldok (f (getg gs i))) ->
  downok (f (getg gs i)) ->
  sst (f (getg gs i)) <> SPanicked ->
  SlotInv (upd i f gs) c o.
Proof.
  intros gs c o i f (Hc & Hs & Hn) Hi Hpr Hold Hdown Hnp. split; [|split].
  - rewrite upd_length; auto.
  - intros j. destruct (Nat.eq_dec j i) as [->|Hne].
    + rewrite getg_upd_eq by auto. destruct (Hs i) as (H1 & H2 & H3 & H4).
      unfold slotok. rewrite Hpr. auto.
    + rewrite getg_upd_neq by auto. auto.
  - pose proof (countg_upd pr f gs i Hi) as E. rewrite Hpr in E. lia.
Qed.

Lemma SlotInv_print : forall gs c o i f,
  SlotInv gs c o -> i < length gs ->
  pr (getg gs i) = false -> pr (f (getg gs i)) = true ->
  (i <> c -> oldok (f (getg gs i))) ->
  downok (f (getg gs i)) ->
  sst (f (getg gs i)) <> SPanicked ->
  SlotInv (upd i f gs) c (EBestmove i :: o).
Proof.
  intros gs c o i f (Hc & Hs & Hn) Hi Hp0 Hp1 Hold Hdown Hnp. split; [|split].
  - rewrite upd_length; auto.
  - intros j. destruct (Nat.eq_dec j i) as [->|Hne].
    + rewrite getg_upd_eq by auto. destruct (Hs i) as (H1 & H2 & H3 & H4).
      unfold slotok. rewrite cnt_cons_bm, Nat.eqb_refl, H3, Hp0, Hp1. auto.
    + rewrite getg_upd_neq by auto. destruct (Hs j) as (H1 & H2 & H3 & H4).
      unfold slotok. rewrite cnt_cons_bm.
      replace (Nat.eqb i j) with false by (symmetry; apply Nat.eqb_neq; auto). auto.
  - pose proof (countg_upd pr f gs i Hi) as E. rewrite Hp0, Hp1 in E.
    unfold nbm in *; simpl in *. lia.
Qed.

Lemma SlotInv_new : forall gs c o,
  SlotInv gs c o -> oldok (getg gs c) -> SlotInv (gs ++ [gfresh]) (length gs) o.
Proof.
  intros gs c o (Hc & Hs & Hn) Hold. split; [|split].
  - rewrite app_length; simpl; lia.
  - intros j. rewrite getg_app_fresh. destruct (Hs j) as (H1 & H2 & H3 & H4).
    unfold slotok; split; [|auto].
    intros Hj. destruct (Nat.eq_dec j c) as [->|Hne]; auto.
  - rewrite countg_app; simpl. change (pr gfresh) with false. simpl. lia.
Qed.

(* ------------------------------------------------------------------ *)
(* preservation                                                        *)
(* ------------------------------------------------------------------ *)

Ltac break_in H :=
  repeat match type of H with
  | context [match ?x with _ => _ end] => destruct x eqn:?; try discriminate H
  end.

Ltac unfold_step H :=
  unfold main_lock, main_join, main_unlock, main_dies, upd_slot, curflag,
    set_pc, set_cur, set_gos, set_mutex, set_poisoned, set_game, set_handle, emit,
    set_panicked, set_exited in H; simpl in H.

Ltac fin :=
  match goal with
  | |- true = false /\ _ => exfalso
  | |- _ => split; [reflexivity | split; [reflexivity | split]]
  end.

Ltac slot_part :=
  match goal with
  | Hs : SlotInv ?gs ?c ?o, Hc : ?c < length ?gs |- SlotInv _ _ _ =>
      first [ exact Hs
            | apply SlotInv_emit; [reflexivity | exact Hs]
            | apply SlotInv_new with (c := c); [exact Hs|]
            | apply SlotInv_upd; [exact Hs | exact Hc | ..] ]
  | |- _ => idtac
  end.

Ltac unf :=
  unfold CtlInv, slotok, oldok, downok, gfresh, g_flag, g_sst, g_tst, g_stop, g_fire, pr, not in *;
  simpl in *.

Ltac splits := repeat match goal with |- _ /\ _ => split end.

Ltac expose c gs :=
  let g := fresh "g" in let Hg := fresh "Hg" in
  remember (getg gs c) as g eqn:Hg in *;
  let fl := fresh "fl" in let ss := fresh "ss" in let ts := fresh "ts" in let st := fresh "st" in
  destruct g as [fl ss ts st]; simpl in *.

Ltac simp_hyps :=
  repeat match goal with
  | H : _ /\ _ |- _ => destruct H
  | H : True |- _ => clear H
  | H : False |- _ => destruct H
  | H : _ \/ _ |- _ => destruct H
  | H : ?x = ?x |- _ => clear H
  | H : ?x = ?y |- _ => discriminate H
  | H : ?x = ?y |- _ => first [is_var x; subst x | is_var y; subst y]
  | H : Some _ = Some _ |- _ => injection H as H
  | H : MSearch _ = MSearch _ |- _ => injection H as H
  | H : mkGo _ _ _ _ = mkGo _ _ _ _ |- _ => injection H as ? ? ? ?
  | H : ?x = ?x -> _ |- _ => specialize (H eq_refl)
  | H : ?A, H' : ?A -> _ |- _ => specialize (H' H)
  | H : ?x = ?y -> _ |- _ => let N := fresh in assert (N : x <> y) by discriminate; clear H N
  end.

Ltac crunch :=
  simp_hyps;
  try solve [congruence | auto | split; congruence];
  match goal with
  | H : context [match ?x with _ => _ end] |- _ => is_var x; destruct x; simpl in *; crunch
  | |- context [match ?x with _ => _ end] => is_var x; destruct x; simpl in *; crunch
  | H : ?x = _ -> _ |- _ => is_var x; destruct x; simpl in *; crunch
  | x : sstate |- _ => destruct x; simpl in *; crunch
  | x : pcT |- _ => destruct x; simpl in *; crunch
  | _ => idtac
  end.

Lemma inv_main : forall s s', Inv s -> main_step s = Some s' -> Inv s'.
Proof.
  intros [p c gs m po gm h o pa ex] s' (Hpa & Hpo & Hslot & Hctl) Hstep; simpl in *.
  subst pa po.
  assert (Hc : c < length gs) by (destruct Hslot; auto).
  assert (Hsc : slotok c o c (getg gs c)) by (destruct Hslot as (_ & Hs & _); apply Hs).
  unfold main_step in Hstep; simpl in Hstep.
  destruct p; unfold_step Hstep; break_in Hstep; inversion Hstep; subst s'; clear Hstep;
    unfold Inv; simpl.
  all: try rewrite getg_upd_eq by assumption.
  all: try rewrite getg_app_fresh.
  all: try rewrite (getg_overflow gs (length gs)) by lia.
  all: fin; slot_part.
  all: try (match goal with H : CtlInv _ _ _ (Some ?n) _ _ |- _ =>
              assert (n = c) by (destruct H as ((?&_)&_); assumption); subst n end).
  all: unf.
  all: destruct Hctl as (K1 & K2 & K3 & K4 & K5 & K6 & K7 & K8 & K9 & K10 & K11 & K12 & K13).
  all: destruct Hsc as (S1 & S2 & S3 & S4).
  all: splits; try assumption; try (intros; discriminate).
  all: expose c gs.
  all: intros; crunch.
Qed.

Lemma inv_input : forall s cm s', Inv s -> input_step s cm = Some s' -> Inv s'.
Proof.
  intros [p c gs m po gm h o pa ex] cm s' (Hpa & Hpo & Hslot & Hctl) Hstep; simpl in *.
  unfold input_step in Hstep; simpl in Hstep.
  destruct p; try discriminate Hstep. inversion Hstep; subst s'; clear Hstep.
  unfold Inv, set_pc; simpl. splits; auto.
  unf. destruct Hctl as (K1 & K2 & K3 & K4 & K5 & K6 & K7 & K8 & K9 & K10 & K11 & K12 & K13).
  destruct cm; simpl; splits; try assumption; try (intros; discriminate).
  all: intros; crunch.
Qed.

Lemma inv_search : forall s i s', Inv s -> search_step s i = Some s' -> Inv s'.
Proof.
  intros [p c gs m po gm h o pa ex] i s' (Hpa & Hpo & Hslot & Hctl) Hstep; simpl in *.
  subst pa po.
  assert (Hc : c < length gs) by (destruct Hslot; auto).
  assert (Hsi : slotok c o i (getg gs i)) by (destruct Hslot as (_ & Hs & _); apply Hs).
  unfold search_step in Hstep; simpl in Hstep.
  assert (Hic : i = c).
  { destruct (Nat.eq_dec i c) as [|Hne]; auto. exfalso.
    destruct Hsi as (H1 & _). destruct (H1 Hne) as ([E|E] & _); rewrite E in Hstep; discriminate. }
  subst i.
  unfold_step Hstep; break_in Hstep; inversion Hstep; subst s'; clear Hstep; unfold Inv; simpl.
  all: try rewrite getg_upd_eq by assumption.
  all: fin.
  all: match goal with
       | Hs : SlotInv ?gs ?c ?o |- SlotInv _ _ (EBestmove _ :: _) =>
           apply SlotInv_print; [exact Hs | exact Hc | ..]
       | |- _ => slot_part
       end.
  all: unf.
  all: destruct Hctl as (K1 & K2 & K3 & K4 & K5 & K6 & K7 & K8 & K9 & K10 & K11 & K12 & K13).
  all: destruct Hsi as (S1 & S2 & S3 & S4).
  all: splits; try assumption; try (intros; discriminate).
  all: expose c gs.
  all: intros; crunch.
Qed.

Lemma inv_timer : forall s i s', Inv s -> timer_step s i = Some s' -> Inv s'.
Proof.
  intros [p c gs m po gm h o pa ex] i s' (Hpa & Hpo & Hslot & Hctl) Hstep; simpl in *.
  subst pa po.
  assert (Hc : c < length gs) by (destruct Hslot; auto).
  assert (Hsi : slotok c o i (getg gs i)) by (destruct Hslot as (_ & Hs & _); apply Hs).
  unfold timer_step in Hstep; simpl in Hstep.
  destruct (tst (getg gs i)) eqn:Hti; try discriminate Hstep.
  inversion Hstep; subst s'; clear Hstep.
  assert (Hi : i < length gs) by (apply tst_in_range; congruence).
  unfold Inv, upd_slot, set_gos; simpl. fin.
  - apply SlotInv_upd; [exact Hslot | exact Hi | ..]; unf;
      destruct Hsi as (S1 & S2 & S3 & S4); auto.
    intros Hne. destruct (S1 Hne). auto.
  - destruct (Nat.eq_dec i c) as [->|Hne].
    + rewrite getg_upd_eq by assumption. unf.
      destruct Hctl as (K1 & K2 & K3 & K4 & K5 & K6 & K7 & K8 & K9 & K10 & K11 & K12 & K13).
      splits; try assumption; try (intros; discriminate).
      * intros E. specialize (K10 E). rewrite K10 in Hti. discriminate.
      * intros E. specialize (K13 E). congruence.
    + rewrite getg_upd_neq by auto. exact Hctl.
Qed.

Theorem Inv_step : forall s l s', Inv s -> step s l = Some s' -> Inv s'.
Proof.
  intros s l s' HI Hstep. unfold step in Hstep.
  destruct (exited s); [discriminate|].
  destruct l.
  - eapply inv_input; eauto.
  - eapply inv_main; eauto.
  - eapply inv_search; eauto.
  - eapply inv_timer; eauto.
Qed.

Lemma Inv_run_from : forall ls s s', Inv s -> run_from s ls = Some s' -> Inv s'.
Proof.
  induction ls as [|l t IH]; simpl; intros s s' HI H.
  - inversion H; subst; auto.
  - destruct (step s l) as [s1|] eqn:E; [|discriminate].
    eapply IH; [eapply Inv_step; eauto | eauto].
Qed.

Theorem Inv_reachable : forall s, reachable s -> Inv s.
Proof. intros s [ls H]. eapply Inv_run_from; [apply Inv_init | exact H]. Qed.

(* ------------------------------------------------------------------ *)
(* 1. one bestmove per go                                              *)
(* ------------------------------------------------------------------ *)

Definition event_eq_dec : forall a b : event, {a = b} + {a <> b}.
Proof. decide equality; apply Nat.eq_dec. Defined.

Lemma cnt_count_occ : forall i o, cnt i o = count_occ event_eq_dec o (EBestmove i).
Proof.
  intros i o; induction o as [|e t IH]; simpl; auto.
  unfold cnt in *; simpl. destruct (event_eq_dec e (EBestmove i)) as [->|Hne].
  - simpl. rewrite Nat.eqb_refl. simpl. auto.
  - destruct e; simpl; auto.
    destruct (Nat.eqb i0 i) eqn:E; auto. apply Nat.eqb_eq in E. congruence.
Qed.

(* number of accepted go commands = slots whose search thread was spawned *)
Definition accepted_gos (s : state) : nat := countg acc (gos s).

Theorem bestmove_count_exact : forall s i, reachable s ->
  cnt i (out s) = b2n (printed (sst (getg (gos s) i))).
Proof.
  intros s i Hr. destruct (Inv_reachable s Hr) as (_ & _ & (_ & Hs & _) & _).
  destruct (Hs i) as (_ & _ & H & _). exact H.
Qed.

Theorem one_bestmove : forall s, reachable s ->
  (forall i, count_occ event_eq_dec (out s) (EBestmove i) <= 1) /\
  (forall i g, nth_error (gos s) i = Some g -> sst g = SDone ->
               count_occ event_eq_dec (out s) (EBestmove i) = 1) /\
  (forall i, In (EBestmove i) (out s) ->
             exists g, nth_error (gos s) i = Some g /\ (sst g = SPrinted \/ sst g = SDone)) /\
  nbm (out s) <= accepted_gos s.
Proof.
  intros s Hr. pose proof (bestmove_count_exact s) as Hcnt.
  destruct (Inv_reachable s Hr) as (_ & _ & (_ & _ & Hn) & _).
  split; [|split; [|split]].
  - intros i. rewrite <- cnt_count_occ, Hcnt by auto.
    destruct (printed _); simpl; lia.
  - intros i g Hi Hd. apply getg_nth_error in Hi. destruct Hi as [Hi _].
    rewrite <- cnt_count_occ, Hcnt, Hi, Hd by auto. reflexivity.
  - intros i Hin. apply cnt_In in Hin. rewrite Hcnt in Hin by auto.
    destruct (nth_error (gos s) i) as [g|] eqn:E.
    + exists g. split; auto. apply getg_nth_error in E. destruct E as [E _]. rewrite E in Hin.
      destruct (sst g); simpl in Hin; try lia; auto.
    + apply nth_error_None in E. rewrite getg_overflow in Hin by lia. simpl in Hin. lia.
  - rewrite Hn. apply countg_le. intros g. unfold pr, acc. destruct (sst g); simpl; auto.
Qed.
Print Assumptions one_bestmove.

(* ------------------------------------------------------------------ *)
(* 2. flag down after timer or stop                                    *)
(* ------------------------------------------------------------------ *)

Theorem flag_down_after_timer_or_stop : forall s i g, reachable s ->
  nth_error (gos s) i = Some g ->
  tst g = TFired \/ stopped g = true -> flag g = false.
Proof.
  intros s i g Hr Hi Hd. destruct (Inv_reachable s Hr) as (_ & _ & (_ & Hs & _) & _).
  apply getg_nth_error in Hi. destruct Hi as [Hi _].
  destruct (Hs i) as (_ & H & _). rewrite Hi in H. apply H; auto.
Qed.
Print Assumptions flag_down_after_timer_or_stop.

(* ------------------------------------------------------------------ *)
(* 4. no panic                                                         *)
(* ------------------------------------------------------------------ *)

Theorem no_panic : forall s, reachable s ->
  panicked s = false /\ poisoned s = false /\
  (forall i g, nth_error (gos s) i = Some g -> sst g <> SPanicked).
Proof.
  intros s Hr. destruct (Inv_reachable s Hr) as (Hp & Hq & (_ & Hs & _) & _).
  split; [auto|split; [auto|]].
  intros i g Hi. apply getg_nth_error in Hi. destruct Hi as [Hi _].
  destruct (Hs i) as (_ & _ & _ & H). rewrite Hi in H. exact H.
Qed.
Print Assumptions no_panic.
