(* push keeps the representation invariant; update_phase and push_history keep it; nested
   take-back as a search performs it returns the game it started from. *)
From Coq Require Import Lia.
From Chess Require Import Model.MoveGen Proofs.Grid Proofs.Inv Proofs.GenOk Proofs.PushPop.
Open Scope Z_scope.

(* ---- castling rights, uniformly in the colour and the side -------------------------------------- *)

Definition rside (ks : bool) (c : color) (st : gstate) : bool :=
  match c, ks with
  | White, true => st_wk st | White, false => st_wq st
  | Black, true => st_bk st | Black, false => st_bq st
  end.
Definition rcol (ks : bool) : Z := if ks then 7 else 0.

Lemma rcol_range ks : 0 <= rcol ks < 8.
Proof. destruct ks; cbn; lia. Qed.

Lemma rcol_neq4 ks : rcol ks <> 4.
Proof. destruct ks; cbn; lia. Qed.

Lemma ri_castle_gen g c ks :
  RuleInv g -> king_exists g c = true -> rside ks c (gstate_of g) = true ->
  bget (g_board g) (home_row c, 4) = Some (mkPiece King c)
  /\ bget (g_board g) (home_row c, rcol ks) = Some (mkPiece Rook c).
Proof.
  intros R K H. destruct (ri_castle _ R c K) as [Hk Hq]. destruct c, ks; cbn [rside rcol] in *; auto.
Qed.

Lemma RuleInv_intro g :
  g_states g <> [] -> state_ok (gstate_of g) -> (forall c, valid (king_pos g c)) ->
  (forall p c, valid p -> bget (g_board g) p = Some (mkPiece King c) -> king_pos g c = p) ->
  (forall c ks, king_exists g c = true -> rside ks c (gstate_of g) = true ->
     bget (g_board g) (home_row c, 4) = Some (mkPiece King c)
     /\ bget (g_board g) (home_row c, rcol ks) = Some (mkPiece Rook c)) ->
  (st_ep (gstate_of g) < 8 ->
     bget (g_board g) (fst (ep_rows (g_player g)), st_ep (gstate_of g))
       = Some (mkPiece Pawn (other (g_player g)))
     /\ bget (g_board g) (snd (ep_rows (g_player g)), st_ep (gstate_of g)) = None) ->
  RuleInv g.
Proof.
  intros H1 H2 H3 H4 H5 H6. constructor; try assumption.
  - apply (H3 White).
  - apply (H3 Black).
  - intros c K. split; intros Hr.
    + apply (H5 c true K). destruct c; exact Hr.
    + apply (H5 c false K). destruct c; exact Hr.
Qed.

Lemma rside_set_ep ks c st v : rside ks c (set_ep st v) = rside ks c st.
Proof. destruct c, ks; reflexivity. Qed.

Lemma rside_clear ks c st c' :
  rside ks c (clear_rights st c') = true -> c <> c' /\ rside ks c st = true.
Proof. destruct c, c', ks; cbn; intros H; try discriminate; split; congruence. Qed.

Lemma rside_revoke ks c st cap e :
  rside ks c (revoke_captured st cap e) = true ->
  rside ks c st = true /\ ~ (cap = Some (mkPiece Rook c) /\ e = (home_row c, rcol ks)).
Proof.
  unfold revoke_captured, is_rook_of.
  destruct cap as [[k co]|]; [destruct k, co|]; cbn [pk po kind_eqb color_eqb andb];
    pos_cases; destruct c, ks; cbn [rside set_wq set_wk set_bq set_bk st_wk st_wq st_bk st_bq home_row rcol];
    intros H; try discriminate; (split; [exact H | intros [E1' E2']; congruence]).
Qed.

Lemma ep_revoke st cap e : st_ep (revoke_captured st cap e) = st_ep st.
Proof.
  unfold revoke_captured. destruct (is_rook_of cap White), (is_rook_of cap Black); pos_cases; reflexivity.
Qed.

Lemma rside_normal_st1 ks c g pc s :
  rside ks c (normal_st1 g pc s) = true ->
  rside ks c (gstate_of g) = true /\ ~ (pk pc = King /\ c = g_player g)
  /\ ~ (pk pc = Rook /\ s = (home_row c, rcol ks)).
Proof.
  unfold normal_st1. destruct (kind_eqb (pk pc) King) eqn:EK.
  - intros H. apply rside_clear in H. rewrite rside_set_ep in H. destruct H as [H1 H2].
    apply kind_eqb_eq in EK. repeat split; try assumption; intros [A B]; congruence.
  - assert (pk pc <> King) as NK by (intros E; rewrite E in EK; discriminate).
    destruct (kind_eqb (pk pc) Rook) eqn:ER.
    + unfold rook_from. pos_cases; destruct c, ks;
        cbn [rside set_ep set_wq set_wk set_bq set_bk st_wk st_wq st_bk st_bq home_row rcol];
        intros H; try discriminate;
        (split; [exact H | split; [intros [A B]; congruence | intros [A B]; congruence]]).
    + assert (pk pc <> Rook) as NR by (intros E; rewrite E in ER; discriminate).
      rewrite rside_set_ep. intros H. repeat split; try assumption; intros [A B]; congruence.
Qed.

Lemma ep_normal_st1 g pc s : st_ep (normal_st1 g pc s) = 8.
Proof.
  unfold normal_st1, rook_from.
  destruct (kind_eqb (pk pc) King); [destruct (g_player g); reflexivity|].
  destruct (kind_eqb (pk pc) Rook); [|reflexivity]. pos_cases; reflexivity.
Qed.

Lemma rside_ep_step ks c G st pc s e : rside ks c (ep_step G st pc s e) = rside ks c st.
Proof.
  unfold ep_step. destruct (kind_eqb (pk pc) Pawn && (Z.abs (fst e - fst s) =? 2)); [|reflexivity].
  cbv zeta. match goal with |- context [if ?x || ?y then _ else _] => destruct (x || y) end;
    [apply rside_set_ep | reflexivity].
Qed.

Lemma ep_ep_step G st pc s e :
  st_ep (ep_step G st pc s e) = st_ep st
  \/ (pk pc = Pawn /\ Z.abs (fst e - fst s) = 2 /\ st_ep (ep_step G st pc s e) = snd s).
Proof.
  unfold ep_step. destruct (kind_eqb (pk pc) Pawn) eqn:EP; cbn [andb]; [|now left].
  destruct (Z.abs (fst e - fst s) =? 2) eqn:EA; [|now left].
  cbv zeta. match goal with |- context [if ?x || ?y then _ else _] => destruct (x || y) end; [|now left].
  right. apply kind_eqb_eq in EP. apply Z.eqb_eq in EA. repeat split; assumption.
Qed.

(* what the new state of a push says *)
Lemma push_state_rside ks c g m :
  rside ks c (push_state g m) = true ->
  rside ks c (gstate_of g) = true
  /\ match m with
     | Normal pc s e cap =>
         ~ (pk pc = King /\ c = g_player g) /\ ~ (pk pc = Rook /\ s = (home_row c, rcol ks))
         /\ ~ (cap = Some (mkPiece Rook c) /\ e = (home_row c, rcol ks))
     | Promotion _ _ _ e cap => ~ (cap = Some (mkPiece Rook c) /\ e = (home_row c, rcol ks))
     | EnPassant _ _ _ => True
     | CastlingShort _ | CastlingLong _ => c <> g_player g
     end.
Proof.
  destruct m as [pc s e cap | o np s e cap | o | o | o sc ec]; cbn [push_state].
  - rewrite rside_ep_step. intros H. apply rside_revoke in H. destruct H as [H N3].
    apply rside_normal_st1 in H. destruct H as (H & N1 & N2). auto.
  - intros H. apply rside_revoke in H. now rewrite rside_set_ep in H.
  - intros H. apply rside_clear in H. rewrite rside_set_ep in H. tauto.
  - intros H. apply rside_clear in H. rewrite rside_set_ep in H. tauto.
  - rewrite rside_set_ep. auto.
Qed.

Lemma push_state_ep g m :
  st_ep (push_state g m) = 8
  \/ exists pc s e cap, m = Normal pc s e cap /\ pk pc = Pawn /\ Z.abs (fst e - fst s) = 2
                        /\ st_ep (push_state g m) = snd s.
Proof.
  destruct m as [pc s e cap | o np s e cap | o | o | o sc ec]; cbn [push_state].
  - destruct (ep_ep_step (normal_game g pc s e) (revoke_captured (normal_st1 g pc s) cap e) pc s e)
      as [H | (H1 & H2 & H3)].
    + left. now rewrite H, ep_revoke, ep_normal_st1.
    + right. exists pc, s, e, cap. auto.
  - left. now rewrite ep_revoke.
  - left. destruct (g_player g); reflexivity.
  - left. destruct (g_player g); reflexivity.
  - now left.
Qed.

(* ---- kings after a push ------------------------------------------------------------------------- *)

Definition is_kingb (o : option piece) : bool :=
  match o with Some pc => kind_eqb (pk pc) King | None => false end.

Lemma king_exists_eq g c : king_exists g c = is_kingb (bget (g_board g) (king_pos g c)).
Proof. reflexivity. Qed.

Lemma is_kingb_true o : is_kingb o = true -> exists pc, o = Some pc /\ pk pc = King.
Proof.
  destruct o as [pc|]; cbn [is_kingb]; [|discriminate]. intros H. apply kind_eqb_eq in H. eauto.
Qed.

Lemma pg_kings g m c :
  king_pos (push_game g m) c
  = match m with
    | Normal pc s e _ => if kind_eqb (pk pc) King && color_eqb (g_player g) c then e else king_pos g c
    | CastlingShort o => if color_eqb (g_player g) c then (home_row o, 6) else king_pos g c
    | CastlingLong o => if color_eqb (g_player g) c then (home_row o, 2) else king_pos g c
    | _ => king_pos g c
    end.
Proof.
  destruct m as [pc s e cap | o np s e cap | o | o | o sc ec]; cbn [push_game];
    unfold normal_game, promo_game, ep_game, castle_game.
  - destruct (kind_eqb (pk pc) King); cbn [andb]; rewrite ?skp_kings, !set_position_kings; reflexivity.
  - now rewrite !set_position_kings.
  - now rewrite skp_kings, !set_position_kings.
  - now rewrite skp_kings, !set_position_kings.
  - now rewrite !set_position_kings.
Qed.

Lemma color_eqb_false a b : a <> b -> color_eqb a b = false.
Proof. destruct a, b; intros H; try reflexivity; congruence. Qed.

Lemma color_other_cases c p : c = p \/ c = other p.
Proof. destruct c, p; auto. Qed.

Lemma king_of_piece pc c : pk pc = King -> po pc = c -> pc = mkPiece King c.
Proof. destruct pc; cbn; congruence. Qed.

Lemma push_kings_clause g m :
  RepInv g -> gen_ok g m ->
  forall p c, valid p -> bget (push_board (g_board g) m) p = Some (mkPiece King c) ->
              king_pos (push_game g m) c = p.
Proof.
  intros [C R] G p c Vp H. pose proof (ci_board _ C) as Hwf. rewrite pg_kings.
  pose proof (ri_kings _ R) as RK.
  destruct m as [pc s e cap | o np s e cap | o | o | o sc ec]; cbn [gen_ok push_board] in *.
  - destruct G as (Vs & Ve & Hse & Hs & He & Hpo & _).
    rewrite !bget_bset in H by (try wf_tac; assumption).
    destruct (pos_eqb e p) eqn:E1; [apply pos_eqb_eq in E1 | apply pos_eqb_neq in E1].
    + inversion H; subst. cbn [pk po kind_eqb andb] in *. rewrite <- Hpo, color_eqb_refl. reflexivity.
    + destruct (pos_eqb s p) eqn:E2; [discriminate | apply pos_eqb_neq in E2].
      pose proof (RK p c Vp H) as Hk.
      destruct (kind_eqb (pk pc) King) eqn:EK; cbn [andb]; [|exact Hk].
      apply kind_eqb_eq in EK.
      destruct (color_eqb (g_player g) c) eqn:EC; [|exact Hk].
      apply color_eqb_eq in EC. exfalso. apply E2.
      rewrite <- Hk, <- EC. symmetry. apply RK; [assumption|].
      rewrite Hs. f_equal. now apply king_of_piece.
  - destruct G as (_ & Hpk & Vs & Ve & Hse & _ & Hs & He & _).
    rewrite !bget_bset in H by (try wf_tac; assumption).
    destruct (pos_eqb e p); [inversion H; subst; destruct Hpk as [X|[X|[X|X]]]; discriminate|].
    destruct (pos_eqb s p); [discriminate|]. now apply RK.
  - destruct G as (Ho & Hk & H4 & H7 & H5 & H6). subst o.
    rewrite !bget_bset in H by (try wf_tac; apply home_row_valid; lia).
    revert H. pos_cases; intros H; try discriminate.
    + inversion H; subst. now rewrite color_eqb_refl.
    + pose proof (RK p c Vp H) as Hkp.
      destruct (color_eqb (g_player g) c) eqn:EC; [|exact Hkp].
      apply color_eqb_eq in EC. subst c. congruence.
  - destruct G as (Ho & Hk & H4 & H0 & H1 & H2 & H3). subst o.
    rewrite !bget_bset in H by (try wf_tac; apply home_row_valid; lia).
    revert H. pos_cases; intros H; try discriminate.
    + inversion H; subst. now rewrite color_eqb_refl.
    + pose proof (RK p c Vp H) as Hkp.
      destruct (color_eqb (g_player g) c) eqn:EC; [|exact Hkp].
      apply color_eqb_eq in EC. subst c. congruence.
  - destruct G as (_ & Vs & Ve & Habs & _ & Hs & He & Hn).
    rewrite !bget_bset in H by (try wf_tac; apply ep_rows_valid; assumption).
    revert H. pos_cases; intros H; try discriminate. now apply RK.
Qed.

(* a castling king must not land on the cached king square of the other side (which then holds
   no king: a stale cache after that king was captured) *)
Definition castle_ok (g : game) (m : Move) : Prop :=
  match m with
  | CastlingShort o => king_pos g (other o) <> (home_row o, 6)
  | CastlingLong o => king_pos g (other o) <> (home_row o, 2)
  | _ => True
  end.

Lemma push_castle_clause g m c ks :
  RepInv g -> gen_ok g m -> gen_ok_x g m -> castle_ok g m ->
  is_kingb (bget (push_board (g_board g) m) (king_pos (push_game g m) c)) = true ->
  rside ks c (push_state g m) = true ->
  bget (push_board (g_board g) m) (home_row c, 4) = Some (mkPiece King c)
  /\ bget (push_board (g_board g) m) (home_row c, rcol ks) = Some (mkPiece Rook c).
Proof.
  intros [C R] G X CO KE RS. pose proof (ci_board _ C) as Hwf.
  pose proof (ri_kings _ R) as RK.
  apply push_state_rside in RS. destruct RS as [R0 RM]. rewrite pg_kings in KE.
  pose proof (home_row_valid c 4 ltac:(lia)) as V4.
  pose proof (home_row_valid c (rcol ks) (rcol_range ks)) as Vr.
  assert (Hneq : (home_row c, 4) <> (home_row c, rcol ks)).
  { intros E. inversion E as [E']. symmetry in E'. now apply rcol_neq4 in E'. }
  set (k := king_pos g c) in *.
  destruct m as [pc s e cap | o np s e cap | o | o | o sc ec]; cbn [gen_ok gen_ok_x castle_ok push_board] in *.
  - destruct G as (Vs & Ve & Hse & Hs & He & Hpo & Hcap). destruct X as [X1 _].
    destruct RM as (N1 & N2 & N3).
    assert (kind_eqb (pk pc) King && color_eqb (g_player g) c = false) as EKC.
    { destruct (kind_eqb (pk pc) King) eqn:EK; [|reflexivity].
      destruct (color_eqb (g_player g) c) eqn:EC; [|reflexivity].
      exfalso. apply N1. apply kind_eqb_eq in EK. apply color_eqb_eq in EC. auto. }
    rewrite EKC in KE. rewrite !bget_bset in KE by (try wf_tac; assumption).
    destruct (pos_eqb e k) eqn:E1; [apply pos_eqb_eq in E1 | apply pos_eqb_neq in E1].
    { exfalso. cbn [is_kingb] in KE. apply kind_eqb_eq in KE.
      destruct (color_other_cases c (g_player g)) as [Ec|Ec]; [apply N1; auto|].
      apply (X1 KE). rewrite E1. unfold k. now rewrite Ec. }
    destruct (pos_eqb s k) eqn:E2; [discriminate | apply pos_eqb_neq in E2].
    destruct (ri_castle_gen g c ks R KE R0) as [A B].
    split; rewrite !bget_bset by (try wf_tac; assumption).
    + destruct (pos_eqb e (home_row c, 4)) eqn:E3; [apply pos_eqb_eq in E3 | apply pos_eqb_neq in E3].
      { exfalso. apply E1. subst e. unfold k. symmetry. now apply RK. }
      destruct (pos_eqb s (home_row c, 4)) eqn:E4; [apply pos_eqb_eq in E4 | exact A].
      exfalso. apply N1. rewrite E4, A in Hs. inversion Hs; subst pc. cbn [pk po] in *. auto.
    + destruct (pos_eqb e (home_row c, rcol ks)) eqn:E3; [apply pos_eqb_eq in E3 | apply pos_eqb_neq in E3].
      { exfalso. apply N3. split; [|assumption]. rewrite <- He, E3. exact B. }
      destruct (pos_eqb s (home_row c, rcol ks)) eqn:E4; [apply pos_eqb_eq in E4 | exact B].
      exfalso. apply N2. rewrite E4, B in Hs. inversion Hs; subst pc. cbn [pk po] in *. auto.
  - destruct G as (Ho & Hpk & Vs & Ve & Hse & _ & Hs & He & Hcap).
    assert (NK : np <> King) by (destruct Hpk as [P|[P|[P|P]]]; rewrite P; discriminate).
    rewrite !bget_bset in KE by (try wf_tac; assumption).
    destruct (pos_eqb e k) eqn:E1; [apply pos_eqb_eq in E1 | apply pos_eqb_neq in E1].
    { exfalso. cbn [is_kingb pk] in KE. apply kind_eqb_eq in KE. contradiction. }
    destruct (pos_eqb s k) eqn:E2; [discriminate | apply pos_eqb_neq in E2].
    destruct (ri_castle_gen g c ks R KE R0) as [A B].
    split; rewrite !bget_bset by (try wf_tac; assumption).
    + destruct (pos_eqb e (home_row c, 4)) eqn:E3; [apply pos_eqb_eq in E3 | apply pos_eqb_neq in E3].
      { exfalso. apply E1. subst e. unfold k. symmetry. now apply RK. }
      destruct (pos_eqb s (home_row c, 4)) eqn:E4; [apply pos_eqb_eq in E4 | exact A].
      rewrite E4, A in Hs. discriminate.
    + destruct (pos_eqb e (home_row c, rcol ks)) eqn:E3; [apply pos_eqb_eq in E3 | apply pos_eqb_neq in E3].
      { exfalso. apply RM. split; [|assumption]. rewrite <- He, E3. exact B. }
      destruct (pos_eqb s (home_row c, rcol ks)) eqn:E4; [apply pos_eqb_eq in E4 | exact B].
      rewrite E4, B in Hs. discriminate.
  - destruct G as (Ho & Hk & H4 & H7 & H5 & H6). subst o.
    rewrite (color_eqb_false (g_player g) c) in KE by congruence.
    destruct (color_other_cases c (g_player g)) as [Ec|Ec]; [contradiction|].
    pose proof (home_row_other (g_player g)) as Hrow. rewrite <- Ec in Hrow.
    rewrite !bget_bset in KE by (try wf_tac; apply home_row_valid; lia).
    assert (KE' : is_kingb (bget (g_board g) k) = true).
    { revert KE. pos_cases; intros KE; try discriminate; try assumption.
      exfalso. apply CO. rewrite <- Ec. unfold k in *. congruence. }
    destruct (ri_castle_gen g c ks R KE' R0) as [A B].
    split; rewrite !bget_bset by (try wf_tac; apply home_row_valid; lia); pos_cases; congruence.
  - destruct G as (Ho & Hk & H4 & H0 & H1 & H2 & H3). subst o.
    rewrite (color_eqb_false (g_player g) c) in KE by congruence.
    destruct (color_other_cases c (g_player g)) as [Ec|Ec]; [contradiction|].
    pose proof (home_row_other (g_player g)) as Hrow. rewrite <- Ec in Hrow.
    rewrite !bget_bset in KE by (try wf_tac; apply home_row_valid; lia).
    assert (KE' : is_kingb (bget (g_board g) k) = true).
    { revert KE. pos_cases; intros KE; try discriminate; try assumption.
      exfalso. apply CO. rewrite <- Ec. unfold k in *. congruence. }
    destruct (ri_castle_gen g c ks R KE' R0) as [A B].
    split; rewrite !bget_bset by (try wf_tac; apply home_row_valid; lia); pos_cases; congruence.
  - destruct G as (_ & Vs & Ve & Habs & _ & Hs & He & Hn).
    rewrite !bget_bset in KE by (try wf_tac; apply ep_rows_valid; assumption).
    assert (KE' : is_kingb (bget (g_board g) k) = true).
    { revert KE. pos_cases; intros KE; try discriminate; assumption. }
    destruct (ri_castle_gen g c ks R KE' R0) as [A B].
    split; rewrite !bget_bset by (try wf_tac; apply ep_rows_valid; assumption); pos_cases; congruence.
Qed.

Lemma push_ep_clause g m :
  RepInv g -> gen_ok g m -> gen_ok_x g m ->
  st_ep (push_state g m) < 8 ->
  bget (push_board (g_board g) m) (fst (ep_rows (other (g_player g))), st_ep (push_state g m))
    = Some (mkPiece Pawn (other (other (g_player g))))
  /\ bget (push_board (g_board g) m) (snd (ep_rows (other (g_player g))), st_ep (push_state g m)) = None.
Proof.
  intros [C R] G X Hlt. pose proof (ci_board _ C) as Hwf.
  destruct (push_state_ep g m) as [H8 | (pc & s & e & cap & -> & Hpk & Habs & Hep)]; [lia|].
  rewrite Hep. cbn [gen_ok gen_ok_x push_board] in *.
  destruct G as (Vs & Ve & Hse & Hs & He & Hpo & Hcap). destruct X as [_ X2].
  destruct (X2 Hpk Habs) as (Xc & Xr & Xn).
  pose proof (ep_rows_neq (other (g_player g))) as Hrows.
  destruct e as [er ec]. cbn [fst snd] in *. subst er ec.
  split; rewrite !bget_bset by (try wf_tac; assumption).
  - rewrite pos_eqb_refl. rewrite other_other. f_equal. destruct pc as [k0 c0]; cbn [pk po] in *; congruence.
  - pos_cases; try reflexivity; try assumption. congruence.
Qed.

Lemma push_state_ok g m : state_ok (gstate_of g) -> move_valid m -> state_ok (push_state g m).
Proof.
  intros S V. unfold state_ok.
  destruct (push_state_ep g m) as [H8 | (pc & s & e & cap & -> & Hpk & Habs & Hep)]; [lia|].
  rewrite Hep. destruct V as [[Vs1 Vs2] _]. lia.
Qed.

Lemma push_kings_valid g m c : RuleInv g -> gen_ok g m -> valid (king_pos (push_game g m) c).
Proof.
  intros R G. rewrite pg_kings.
  assert (V : valid (king_pos g c)) by (destruct c; [apply (ri_wking _ R) | apply (ri_bking _ R)]).
  destruct m as [pc s e cap | o np s e cap | o | o | o sc ec]; cbn [gen_ok] in *; try assumption.
  - destruct (kind_eqb (pk pc) King && color_eqb (g_player g) c); [tauto | assumption].
  - destruct (color_eqb (g_player g) c); [apply home_row_valid; lia | assumption].
  - destruct (color_eqb (g_player g) c); [apply home_row_valid; lia | assumption].
Qed.

(* ---- push keeps the invariant ------------------------------------------------------------------- *)

Theorem push_ruleinv : forall g m,
  RepInv g -> gen_ok g m -> gen_ok_x g m -> castle_ok g m -> RuleInv (push g m).
Proof.
  intros g m HR G X CO. pose proof HR as [C R]. rewrite push_eq.
  apply RuleInv_intro; rewrite ?pf_states, ?pf_gstate, ?pf_board, ?pf_player, ?pg_board, ?pg_player.
  - discriminate.
  - apply push_state_ok; [apply (ri_state_ok _ R) | now apply (gen_ok_valid g)].
  - intros c. rewrite pf_kings. now apply push_kings_valid.
  - intros p c Vp H. rewrite pf_kings. now apply push_kings_clause.
  - intros c ks KE RS. rewrite pf_king_exists, king_exists_eq, pg_board in KE.
    now apply push_castle_clause.
  - now apply push_ep_clause.
Qed.
Print Assumptions push_ruleinv.

Theorem push_repinv_x : forall g m,
  RepInv g -> gen_ok g m -> gen_ok_x g m -> castle_ok g m -> RepInv (push g m).
Proof.
  intros g m HR G X CO. split.
  - apply push_cache; [apply HR | now apply (gen_ok_valid g)].
  - now apply push_ruleinv.
Qed.
Print Assumptions push_repinv_x.

(* ---- the invariant only looks at the board, the side, the state stack and the king squares ------ *)

Definition same_core (g g' : game) : Prop :=
  g_board g' = g_board g /\ g_player g' = g_player g /\ g_states g' = g_states g
  /\ (forall c, king_pos g' c = king_pos g c).

Lemma same_core_king_exists g g' c : same_core g g' -> king_exists g' c = king_exists g c.
Proof. intros (Hb & Hp & Hs & Hk). unfold king_exists, gget. now rewrite Hk, Hb. Qed.

Lemma RuleInv_core g g' : same_core g g' -> RuleInv g -> RuleInv g'.
Proof.
  intros HC R. pose proof (same_core_king_exists g g') as HK.
  destruct HC as (Hb & Hp & Hs & Hk).
  apply RuleInv_intro; unfold gstate_of; rewrite ?Hb, ?Hp, ?Hs; fold (gstate_of g).
  - apply (ri_states _ R).
  - apply (ri_state_ok _ R).
  - intros c. rewrite Hk. destruct c; [apply (ri_wking _ R) | apply (ri_bking _ R)].
  - intros p c. rewrite Hk. apply (ri_kings _ R).
  - intros c ks KE. rewrite HK in KE by (repeat split; assumption). now apply ri_castle_gen.
  - apply (ri_ep _ R).
Qed.

Lemma gen_ok_core g g' m : same_core g g' -> gen_ok g m -> gen_ok g' m.
Proof.
  intros (Hb & Hp & Hs & Hk). destruct m; cbn [gen_ok]; unfold gstate_of; rewrite ?Hb, ?Hp, ?Hs, ?Hk; auto.
Qed.

Lemma gen_ok_x_core g g' m : same_core g g' -> gen_ok_x g m -> gen_ok_x g' m.
Proof.
  intros (Hb & Hp & Hs & Hk). destruct m; cbn [gen_ok_x]; rewrite ?Hb, ?Hp, ?Hk; auto.
Qed.

Lemma castle_ok_core g g' m : same_core g g' -> castle_ok g m -> castle_ok g' m.
Proof. intros (Hb & Hp & Hs & Hk). destruct m; cbn [castle_ok]; rewrite ?Hk; auto. Qed.

(* ---- update_phase ------------------------------------------------------------------------------- *)

(* CacheInv with the per-square score left open: while the king table is being swapped the score
   cache of a king square is still the old one *)
Record CacheInvF (f : pos -> Z) (g : game) : Prop := mkCacheInvF {
  cf_board : wf_grid (g_board g);
  cf_ps_wf : wf_grid (g_pscores g);
  cf_ph_wf : wf_grid (g_phashes g);
  cf_ph : forall p, valid p -> grid_get (g_phashes g) p 0%N = key_place p (bget (g_board g) p);
  cf_ps : forall p, valid p -> grid_get (g_pscores g) p 0 = f p;
  cf_hash : g_hash g = N.lxor (N.lxor (board_hash (g_board g)) (side_key (g_player g)))
                              (key_state (state_byte (gstate_of g)));
  cf_score_rng : in_i16 (g_score g);
  cf_score : g_score g mod 65536 = sum_all f mod 65536
}.

Lemma CacheInvF_ext f f' g : (forall p, valid p -> f p = f' p) -> CacheInvF f g -> CacheInvF f' g.
Proof.
  intros E [H1 H2 H3 H4 H5 H6 H7 H8]. constructor; try assumption.
  - intros p Hp. rewrite <- E by assumption. now apply H5.
  - rewrite <- (sum_all_ext f f' E). exact H8.
Qed.

Lemma CacheInvF_to f g :
  CacheInvF f g -> (forall p, valid p -> f p = cell_score (g_kend g) (bget (g_board g) p) p) -> CacheInv g.
Proof.
  intros H E. apply (CacheInvF_ext _ _ _ E) in H. destruct H as [H1 H2 H3 H4 H5 H6 H7 H8].
  constructor; assumption.
Qed.

Lemma set_position_cacheF f g p v :
  CacheInvF f g -> valid p ->
  CacheInvF (fun q => if pos_eqb p q then cell_score (g_kend g) v p else f q) (set_position g p v).
Proof.
  intros [Hb Hps Hph Hphv Hpsv Hh Hr Hs] Hv.
  constructor;
    rewrite ?set_position_board, ?set_position_hash, ?set_position_score, ?set_position_ps,
      ?set_position_ph, ?set_position_kend, ?set_position_player, ?set_position_gstate.
  - now apply wf_grid_set.
  - now apply wf_grid_set.
  - now apply wf_grid_set.
  - intros q Hq. destruct (pos_eqb p q) eqn:E.
    + apply pos_eqb_eq in E. subst q. rewrite grid_get_set_same by assumption.
      now rewrite bget_bset_same.
    + apply pos_eqb_neq in E. rewrite grid_get_set_other by assumption.
      rewrite bget_bset_other by assumption. now apply Hphv.
  - intros q Hq. destruct (pos_eqb p q) eqn:E.
    + apply pos_eqb_eq in E. subst q. now rewrite grid_get_set_same by assumption.
    + apply pos_eqb_neq in E. rewrite grid_get_set_other by assumption. now apply Hpsv.
  - rewrite board_hash_set by assumption.
    rewrite Hphv by assumption. rewrite Hh.
    set (B := board_hash (g_board g)). set (S := side_key (g_player g)).
    set (K := key_state (state_byte (gstate_of g))).
    set (o := key_place p (bget (g_board g) p)). set (n := key_place p v).
    clearbody B S K o n. xor_solve.
  - apply wrap16_range.
  - rewrite (sum_all_update f (fun q => if pos_eqb p q then cell_score (g_kend g) v p else f q) p Hv).
    2:{ intros q Hq. apply not_eq_sym in Hq. apply pos_eqb_neq in Hq. now rewrite Hq. }
    rewrite pos_eqb_refl. rewrite Hpsv by assumption. rewrite wrap16_mod.
    rewrite <- Zplus_mod_idemp_l, wrap16_mod, Zplus_mod_idemp_l.
    set (n := cell_score (g_kend g) v p). set (o := f p).
    rewrite <- Zplus_mod_idemp_l, <- Zminus_mod_idemp_l, Hs, Zminus_mod_idemp_l, Zplus_mod_idemp_l.
    reflexivity.
Qed.

Lemma cell_score_kend k1 k2 o p :
  (forall pc, o = Some pc -> pk pc <> King) -> cell_score k1 o p = cell_score k2 o p.
Proof. destruct o as [pc|]; cbn [cell_score]; [|reflexivity]. intros H. apply piece_score_kend. now apply H. Qed.

(* the game after the swap of the king table, before the kings are re-scored *)
Lemma with_phase_end_cacheF g :
  CacheInv g -> CacheInvF (fun p => cell_score (g_kend g) (bget (g_board g) p) p) (with_phase_end g).
Proof. intros [H1 H2 H3 H4 H5 H6 H7 H8]. constructor; assumption. Qed.

Definition rescore_kings (g : game) : game :=
  let g := with_phase_end g in
  let g := set_position g (king_pos g White) (gget g (king_pos g White)) in
  set_position g (king_pos g Black) (gget g (king_pos g Black)).

Lemma update_phase_eq g :
  update_phase g = if negb (g_endgame g) && is_endgame g then rescore_kings g else g.
Proof. reflexivity. Qed.

Lemma rescore_kings_board g : g_board (rescore_kings g) = g_board g.
Proof.
  unfold rescore_kings. cbv zeta. rewrite !set_position_board. unfold gget.
  rewrite set_position_board. rewrite !set_position_kings.
  change (g_board (with_phase_end g)) with (g_board g).
  now rewrite !bset_bget_id.
Qed.

Lemma rescore_kings_core g : same_core g (rescore_kings g).
Proof.
  split; [apply rescore_kings_board|]. unfold rescore_kings. cbv zeta.
  split; [reflexivity|]. split; [reflexivity|]. intros c. now rewrite !set_position_kings.
Qed.

Lemma rescore_kings_cache g : RepInv g -> CacheInv (rescore_kings g).
Proof.
  intros [C R]. pose proof (rescore_kings_board g) as HB. revert HB.
  unfold rescore_kings. cbv zeta.
  set (g1 := with_phase_end g).
  set (g2 := set_position g1 (king_pos g1 White) (gget g1 (king_pos g1 White))).
  intros HB.
  assert (V1 : valid (king_pos g1 White)) by apply (ri_wking _ R).
  assert (V2 : valid (king_pos g2 Black)) by apply (ri_bking _ R).
  pose proof (with_phase_end_cacheF g C) as F1. fold g1 in F1.
  pose proof (set_position_cacheF _ g1 _ (gget g1 (king_pos g1 White)) F1 V1) as F2. fold g2 in F2.
  pose proof (set_position_cacheF _ g2 _ (gget g2 (king_pos g2 Black)) F2 V2) as F3.
  apply (CacheInvF_to _ _ F3). intros p Vp. rewrite HB.
  change (g_kend (set_position g2 (king_pos g2 Black) (gget g2 (king_pos g2 Black)))) with true.
  change (g_kend g2) with true. change (g_kend g1) with true.
  assert (B2 : g_board g2 = g_board g).
  { unfold g2. rewrite set_position_board. unfold gget. change (g_board g1) with (g_board g).
    apply bset_bget_id. }
  change (king_pos g2 Black) with (g_bking g). change (king_pos g1 White) with (g_wking g).
  unfold gget. rewrite B2. change (g_board g1) with (g_board g).
  destruct (pos_eqb (g_bking g) p) eqn:E1; [apply pos_eqb_eq in E1; now subst p|].
  destruct (pos_eqb (g_wking g) p) eqn:E2; [apply pos_eqb_eq in E2; now subst p|].
  apply pos_eqb_neq in E1, E2.
  apply cell_score_kend. intros pc Hpc Hk.
  pose proof (ri_kings _ R p (po pc) Vp) as HK.
  rewrite Hpc in HK. specialize (HK ltac:(f_equal; now apply king_of_piece)).
  destruct (po pc); cbn [king_pos] in HK; congruence.
Qed.

Theorem update_phase_repinv : forall g, RepInv g -> RepInv (update_phase g).
Proof.
  intros g HR. rewrite update_phase_eq.
  destruct (negb (g_endgame g) && is_endgame g); [|exact HR]. split.
  - now apply rescore_kings_cache.
  - apply (RuleInv_core g); [apply rescore_kings_core | apply HR].
Qed.
Print Assumptions update_phase_repinv.

Lemma update_phase_core g : same_core g (update_phase g).
Proof.
  rewrite update_phase_eq. destruct (negb (g_endgame g) && is_endgame g); [apply rescore_kings_core|].
  repeat split; reflexivity.
Qed.

Lemma with_moves_repinv g l : RepInv g -> RepInv (with_moves g l).
Proof.
  intros [C R]. split.
  - destruct C as [H1 H2 H3 H4 H5 H6 H7 H8]. constructor; assumption.
  - apply (RuleInv_core g); [repeat split; reflexivity | exact R].
Qed.

Lemma push_history_core g m : same_core g (update_phase (with_moves g (m :: g_moves g))).
Proof.
  destruct (update_phase_core (with_moves g (m :: g_moves g))) as (Hb & Hp & Hs & Hk).
  repeat split; assumption.
Qed.

Theorem push_history_repinv_x : forall g m,
  RepInv g -> gen_ok g m -> gen_ok_x g m -> castle_ok g m -> RepInv (push_history g m).
Proof.
  intros g m HR G X CO. unfold push_history.
  pose proof (push_history_core g m) as HC.
  apply push_repinv_x.
  - apply update_phase_repinv, with_moves_repinv, HR.
  - now apply (gen_ok_core g).
  - now apply (gen_ok_x_core g).
  - now apply (castle_ok_core g).
Qed.
Print Assumptions push_history_repinv_x.

(* ---- the kings of both sides along a search ----------------------------------------------------- *)

(* a king cache that points at a king points at the king of its own colour, and the side that is
   not to move has its king (true after import, kept by every generated move) *)
Definition KingsInv (g : game) : Prop :=
  (forall c, king_exists g c = true -> bget (g_board g) (king_pos g c) = Some (mkPiece King c))
  /\ king_exists g (other (g_player g)) = true.

Lemma castle_ok_kings g m : KingsInv g -> gen_ok g m -> castle_ok g m.
Proof.
  intros [_ K] G. destruct m as [pc s e cap | o np s e cap | o | o | o sc ec]; cbn [castle_ok gen_ok] in *;
    try exact I.
  - destruct G as (Ho & _ & _ & _ & _ & H6). subst o. intros E.
    rewrite king_exists_eq, E, H6 in K. discriminate.
  - destruct G as (Ho & _ & _ & _ & _ & H2 & _). subst o. intros E.
    rewrite king_exists_eq, E, H2 in K. discriminate.
Qed.

Lemma push_own_king_mover g m :
  RepInv g -> gen_ok g m ->
  bget (g_board g) (king_pos g (g_player g)) = Some (mkPiece King (g_player g)) ->
  bget (push_board (g_board g) m) (king_pos (push_game g m) (g_player g))
  = Some (mkPiece King (g_player g)).
Proof.
  intros [C R] G K. pose proof (ci_board _ C) as Hwf. rewrite pg_kings.
  set (P := g_player g) in *. set (k := king_pos g P) in *.
  destruct m as [pc s e cap | o np s e cap | o | o | o sc ec]; cbn [gen_ok push_board] in *; fold P in G.
  - destruct G as (Vs & Ve & Hse & Hs & He & Hpo & Hcap). rewrite color_eqb_refl, andb_true_r.
    destruct (kind_eqb (pk pc) King) eqn:EK.
    + apply kind_eqb_eq in EK. rewrite bget_bset_same by (try wf_tac; assumption).
      f_equal. now apply king_of_piece.
    + rewrite !bget_bset by (try wf_tac; assumption). pos_cases.
      * exfalso. apply (Hcap (mkPiece King P)); [congruence | reflexivity].
      * exfalso. assert (pc = mkPiece King P) by congruence. subst pc. discriminate.
      * exact K.
  - destruct G as (Ho & Hpk & Vs & Ve & Hse & _ & Hs & He & Hcap). subst o.
    rewrite !bget_bset by (try wf_tac; assumption). pos_cases.
    + exfalso. apply (Hcap (mkPiece King P)); [congruence | reflexivity].
    + congruence.
    + exact K.
  - destruct G as (Ho & _). subst o. rewrite color_eqb_refl.
    now rewrite bget_bset_same by (try wf_tac; apply home_row_valid; lia).
  - destruct G as (Ho & _). subst o. rewrite color_eqb_refl.
    now rewrite bget_bset_same by (try wf_tac; apply home_row_valid; lia).
  - destruct G as (Ho & Vs & Ve & Habs & _ & Hs & He & Hn). subst o.
    rewrite !bget_bset by (try wf_tac; apply ep_rows_valid; assumption).
    pose proof (other_neq P). pos_cases; congruence.
Qed.

Lemma push_own_king_opp g m :
  RepInv g -> gen_ok g m -> gen_ok_x g m ->
  let O := other (g_player g) in
  bget (g_board g) (king_pos g O) = Some (mkPiece King O) ->
  is_kingb (bget (push_board (g_board g) m) (king_pos (push_game g m) O)) = true ->
  bget (push_board (g_board g) m) (king_pos (push_game g m) O) = Some (mkPiece King O).
Proof.
  intros [C R] G X O K. pose proof (ci_board _ C) as Hwf. rewrite pg_kings.
  assert (EC : color_eqb (g_player g) O = false) by (apply color_eqb_false, not_eq_sym, other_neq).
  assert (HOP : O <> g_player g) by apply other_neq.
  set (k := king_pos g O) in *.
  destruct m as [pc s e cap | o np s e cap | o | o | o sc ec]; cbn [gen_ok gen_ok_x push_board] in *.
  - destruct G as (Vs & Ve & Hse & Hs & He & Hpo & Hcap). destruct X as [X1 _].
    rewrite EC, andb_false_r. rewrite !bget_bset by (try wf_tac; assumption). pos_cases; intros KE.
    + exfalso. cbn [is_kingb] in KE. apply kind_eqb_eq in KE. now apply (X1 KE).
    + discriminate.
    + exact K.
  - destruct G as (Ho & Hpk & Vs & Ve & Hse & _ & Hs & He & Hcap).
    rewrite !bget_bset by (try wf_tac; assumption). pos_cases; intros KE.
    + exfalso. cbn [is_kingb pk] in KE. apply kind_eqb_eq in KE.
      destruct Hpk as [P|[P|[P|P]]]; congruence.
    + discriminate.
    + exact K.
  - destruct G as (Ho & Hk & H4 & H7 & H5 & H6). subst o. rewrite EC.
    rewrite !bget_bset by (try wf_tac; apply home_row_valid; lia). pos_cases; intros KE; congruence.
  - destruct G as (Ho & Hk & H4 & H0 & H1 & H2 & H3). subst o. rewrite EC.
    rewrite !bget_bset by (try wf_tac; apply home_row_valid; lia). pos_cases; intros KE; congruence.
  - destruct G as (Ho & Vs & Ve & Habs & _ & Hs & He & Hn).
    rewrite !bget_bset by (try wf_tac; apply ep_rows_valid; assumption).
    pos_cases; intros KE; try discriminate. exact K.
Qed.

Lemma push_king_exists g m c :
  king_exists (push g m) c = is_kingb (bget (push_board (g_board g) m) (king_pos (push_game g m) c)).
Proof. rewrite push_eq, pf_king_exists, king_exists_eq, pg_board. reflexivity. Qed.

Theorem push_kingsinv : forall g m,
  RepInv g -> KingsInv g -> gen_ok g m -> gen_ok_x g m -> king_exists g (g_player g) = true ->
  KingsInv (push g m).
Proof.
  intros g m HR [K1 K2] G X KP.
  pose proof (push_own_king_mover g m HR G (K1 _ KP)) as HM.
  pose proof (push_own_king_opp g m HR G X (K1 _ K2)) as HO.
  assert (HB : g_board (push g m) = push_board (g_board g) m) by apply push_board_eq.
  assert (HK : forall c, king_pos (push g m) c = king_pos (push_game g m) c).
  { intros c. now rewrite push_eq, pf_kings. }
  assert (HP : g_player (push g m) = other (g_player g)).
  { now rewrite push_eq, pf_player, pg_player. }
  split.
  - intros c KE. rewrite push_king_exists in KE. rewrite HB, HK.
    destruct (color_other_cases c (g_player g)) as [-> | ->]; [exact HM | now apply HO].
  - rewrite HP, other_other, push_king_exists, HM. reflexivity.
Qed.
Print Assumptions push_kingsinv.

(* push with the invariants a search carries: nothing but facts about generated moves is asked *)
Theorem push_repinv : forall g m,
  RepInv g -> KingsInv g -> gen_ok g m -> gen_ok_x g m -> RepInv (push g m).
Proof.
  intros g m HR K G X. apply push_repinv_x; try assumption. now apply castle_ok_kings.
Qed.
Print Assumptions push_repinv.

Theorem push_history_repinv : forall g m,
  RepInv g -> KingsInv g -> gen_ok g m -> gen_ok_x g m -> RepInv (push_history g m).
Proof.
  intros g m HR K G X. apply push_history_repinv_x; try assumption. now apply castle_ok_kings.
Qed.
Print Assumptions push_history_repinv.

Lemma KingsInv_core g g' : same_core g g' -> KingsInv g -> KingsInv g'.
Proof.
  intros HC [K1 K2]. pose proof (same_core_king_exists g g') as HK.
  destruct HC as (Hb & Hp & Hs & Hk). split.
  - intros c KE. rewrite HK in KE by (repeat split; assumption). rewrite Hb, Hk. now apply K1.
  - rewrite HK by (repeat split; assumption). now rewrite Hp.
Qed.

Theorem push_history_kingsinv : forall g m,
  RepInv g -> KingsInv g -> gen_ok g m -> gen_ok_x g m -> king_exists g (g_player g) = true ->
  KingsInv (push_history g m).
Proof.
  intros g m HR K G X KP. unfold push_history.
  pose proof (push_history_core g m) as HC.
  apply push_kingsinv.
  - apply update_phase_repinv, with_moves_repinv, HR.
  - now apply (KingsInv_core g).
  - now apply (gen_ok_core g).
  - now apply (gen_ok_x_core g).
  - rewrite (same_core_king_exists g _ _ HC). destruct HC as (_ & -> & _). exact KP.
Qed.
Print Assumptions push_history_kingsinv.

Lemma KingsInv_intro g :
  bget (g_board g) (king_pos g White) = Some (mkPiece King White) ->
  bget (g_board g) (king_pos g Black) = Some (mkPiece King Black) -> KingsInv g.
Proof.
  intros HW HB. split.
  - intros c _. destruct c; assumption.
  - rewrite king_exists_eq. destruct (g_player g); cbn [other]; [rewrite HB | rewrite HW]; reflexivity.
Qed.

Lemma update_phase_kingsinv g : KingsInv g -> KingsInv (update_phase g).
Proof. apply KingsInv_core, update_phase_core. Qed.

(* ---- nested take-back as a search performs it --------------------------------------------------- *)

Section Explore.
  Hypothesis Hgen : forall g m, RepInv g -> In m (pseudo_moves g) -> gen_ok g m.

  Fixpoint explore (d : nat) (g : game) : game :=
    match d with
    | O => g
    | S d' => fold_left (fun acc m => pop (explore d' (push acc m)) m) (pseudo_moves g) g
    end.

  Theorem explore_id_kings : forall d g, RepInv g -> KingsInv g -> explore d g = g.
  Proof.
    induction d as [|d IH]; intros g HR K; cbn [explore]; [reflexivity|].
    assert (H : forall l, (forall m, In m l -> In m (pseudo_moves g)) ->
                          fold_left (fun acc m => pop (explore d (push acc m)) m) l g = g).
    { induction l as [|m l IHl]; intros Hl; cbn [fold_left]; [reflexivity|].
      assert (Hm : In m (pseudo_moves g)) by (apply Hl; now left).
      pose proof (Hgen g m HR Hm) as G.
      pose proof (gen_ok_x_pseudo g m HR Hm) as X.
      pose proof (pseudo_king g m Hm) as KP.
      assert (HR' : RepInv (push g m)) by (apply push_repinv; assumption).
      assert (K' : KingsInv (push g m)) by (apply push_kingsinv; assumption).
      rewrite (IH _ HR' K').
      rewrite pop_push by assumption.
      apply IHl. intros m' Hm'. apply Hl. now right. }
    apply H. auto.
  Qed.

  (* one level deep no invariant about the kings is needed *)
  Theorem explore_id_1 : forall g, RepInv g -> explore 1 g = g.
  Proof.
    intros g HR. cbn [explore].
    assert (H : forall l, (forall m, In m l -> In m (pseudo_moves g)) ->
                          fold_left (fun acc m => pop (push acc m) m) l g = g).
    { induction l as [|m l IHl]; intros Hl; cbn [fold_left]; [reflexivity|].
      rewrite pop_push by first [assumption | apply Hgen; [assumption | apply Hl; now left]].
      apply IHl. intros m' Hm'. apply Hl. now right. }
    apply H. auto.
  Qed.
End Explore.
Print Assumptions explore_id_kings.
Print Assumptions explore_id_1.

(* with the generation theorem of Proofs/GenOk.v the premise about generated moves is discharged *)
Theorem explore_id : forall d g, RepInv g -> KingsInv g -> explore d g = g.
Proof. apply explore_id_kings. exact gen_ok_pseudo. Qed.
Print Assumptions explore_id.

(* ---- an executable check of the invariant (sound; used for the concrete counterexamples) -------- *)

Definition forall_sq (f : pos -> bool) : bool := forallb f squares64.

Lemma forall_sq_spec f : forall_sq f = true -> forall p, valid p -> f p = true.
Proof.
  unfold forall_sq. intros H p Vp. rewrite forallb_forall in H. apply H. now apply squares64_valid.
Qed.

Definition wf_gridb {A} (g : grid A) : bool :=
  Nat.eqb (length g) 8 && forallb (fun r => Nat.eqb (length r) 8) g.

Lemma wf_gridb_spec {A} (g : grid A) : wf_gridb g = true -> wf_grid g.
Proof.
  unfold wf_gridb, wf_grid. intros H. apply andb_true_iff in H. destruct H as [H1 H2].
  apply Nat.eqb_eq in H1. split; [assumption|]. apply Forall_forall. intros r Hr.
  rewrite forallb_forall in H2. apply Nat.eqb_eq. now apply H2.
Qed.

Definition cache_b (g : game) : bool :=
  wf_gridb (g_board g) && wf_gridb (g_pscores g) && wf_gridb (g_phashes g)
  && forall_sq (fun p => N.eqb (grid_get (g_phashes g) p 0%N) (key_place p (bget (g_board g) p)))
  && forall_sq (fun p => Z.eqb (grid_get (g_pscores g) p 0)
                               (cell_score (g_kend g) (bget (g_board g) p) p))
  && N.eqb (g_hash g) (N.lxor (N.lxor (board_hash (g_board g)) (side_key (g_player g)))
                              (key_state (state_byte (gstate_of g))))
  && (-32768 <=? g_score g) && (g_score g <=? 32767)
  && Z.eqb (g_score g mod 65536) (board_sum (g_kend g) (g_board g) mod 65536).

Lemma cache_b_sound g : cache_b g = true -> CacheInv g.
Proof.
  unfold cache_b. rewrite !andb_true_iff.
  intros [[[[[[[[H1 H2] H3] H4] H5] H6] H7] H8] H9].
  constructor.
  - now apply wf_gridb_spec.
  - now apply wf_gridb_spec.
  - now apply wf_gridb_spec.
  - intros p Vp. apply N.eqb_eq. now apply (forall_sq_spec _ H4).
  - intros p Vp. apply Z.eqb_eq. now apply (forall_sq_spec _ H5).
  - now apply N.eqb_eq.
  - apply Z.leb_le in H7, H8. split; assumption.
  - now apply Z.eqb_eq.
Qed.

Definition validb (p : pos) : bool := (0 <=? fst p) && (fst p <? 8) && (0 <=? snd p) && (snd p <? 8).

Lemma validb_spec p : validb p = true -> valid p.
Proof. unfold validb, valid. rewrite !andb_true_iff. intros [[[A B] C] D]. lia. Qed.

Definition is_piece (o : option piece) (k : kind) (c : color) : bool := opiece_eqb o (Some (mkPiece k c)).

Lemma is_piece_spec o k c : is_piece o k c = true <-> o = Some (mkPiece k c).
Proof. apply opiece_eqb_eq. Qed.

Definition rule_b (g : game) : bool :=
  let b := g_board g in
  let st := gstate_of g in
  match g_states g with [] => false | _ => true end
  && (0 <=? st_ep st) && (st_ep st <=? 8)
  && validb (g_wking g) && validb (g_bking g)
  && forall_sq (fun p => forallb (fun c => implb (is_piece (bget b p) King c) (pos_eqb (king_pos g c) p))
                                 all_colors)
  && forallb (fun c => forallb (fun ks =>
        implb (king_exists g c && rside ks c st)
              (is_piece (bget b (home_row c, 4)) King c && is_piece (bget b (home_row c, rcol ks)) Rook c))
        [true; false]) all_colors
  && implb (st_ep st <? 8)
           (is_piece (bget b (fst (ep_rows (g_player g)), st_ep st)) Pawn (other (g_player g))
            && match bget b (snd (ep_rows (g_player g)), st_ep st) with None => true | Some _ => false end).

Lemma rule_b_sound g : rule_b g = true -> RuleInv g.
Proof.
  unfold rule_b. cbv zeta. rewrite !andb_true_iff.
  intros [[[[[[[H1 H2] H3] H4] H5] H6] H7] H8].
  apply RuleInv_intro.
  - destruct (g_states g); [discriminate | discriminate].
  - apply Z.leb_le in H2, H3. split; assumption.
  - intros c. destruct c; now apply validb_spec.
  - intros p c Vp Hp. pose proof (forall_sq_spec _ H6 p Vp) as H. cbv beta in H.
    rewrite forallb_forall in H. specialize (H c ltac:(destruct c; cbn; auto)).
    apply (proj2 (is_piece_spec _ _ _)) in Hp. rewrite Hp in H. cbn [implb] in H.
    now apply pos_eqb_eq.
  - intros c ks KE RS. rewrite forallb_forall in H7. specialize (H7 c ltac:(destruct c; cbn; auto)).
    cbv beta in H7. rewrite forallb_forall in H7. specialize (H7 ks ltac:(destruct ks; cbn; auto)).
    cbv beta in H7. rewrite KE, RS in H7. cbn [andb implb] in H7. apply andb_true_iff in H7.
    destruct H7 as [A B]. split; now apply is_piece_spec.
  - intros Hlt. apply Z.ltb_lt in Hlt. rewrite Hlt in H8. cbn [implb] in H8.
    apply andb_true_iff in H8. destruct H8 as [A B]. split; [now apply is_piece_spec|].
    destruct (bget (g_board g) (snd (ep_rows (g_player g)), st_ep (gstate_of g))); [discriminate | reflexivity].
Qed.

Definition repinv_b (g : game) : bool := cache_b g && rule_b g.

Theorem repinv_b_sound : forall g, repinv_b g = true -> RepInv g.
Proof.
  intros g H. apply andb_true_iff in H. destruct H as [H1 H2].
  split; [now apply cache_b_sound | now apply rule_b_sound].
Qed.
Print Assumptions repinv_b_sound.

(* a game with the given pieces, built as the importer would: every placement through set_position *)
Definition empty_game (player : color) (wk bk : pos) (st : gstate) : game :=
  let b : board := grid_make None in
  mkGame 0 player [] false
         (N.lxor (N.lxor (board_hash b) (side_key player)) (key_state (state_byte st)))
         b (grid_make 0) (grid_make KEY_EMPTY_PLACE) false wk bk [st].

Definition place_all (g : game) (l : list (pos * piece)) : game :=
  fold_left (fun g x => set_position g (fst x) (Some (snd x))) l g.

(* (A) king takes king: RepInv g and gen_ok g m hold, RepInv (push g m) does not.
   White Ke7, Black Ke8 Rh8 with the right k; White to move. *)
Definition gA : game :=
  place_all (empty_game White (6, 4) (7, 4) (mkState 8 false false true false))
            [((6, 4), mkPiece King White); ((7, 4), mkPiece King Black); ((7, 7), mkPiece Rook Black)].
Definition mA : Move := Normal (mkPiece King White) (6, 4) (7, 4) (Some (mkPiece King Black)).

Lemma gA_repinv : RepInv gA.
Proof. apply repinv_b_sound. vm_compute. reflexivity. Qed.

Lemma valid_intro r c : (0 <=? r) && (r <? 8) && (0 <=? c) && (c <? 8) = true -> valid (r, c).
Proof. intros H. apply (validb_spec (r, c)). exact H. Qed.

Lemma mA_gen_ok : gen_ok gA mA.
Proof.
  cbn [gen_ok mA]. repeat split; try (apply valid_intro; reflexivity); try (cbn; lia).
  - discriminate.
  - intros c E. inversion E; subst. discriminate.
Qed.

Theorem push_repinv_needs_gen_ok_x : RepInv gA /\ gen_ok gA mA /\ ~ RepInv (push gA mA).
Proof.
  split; [exact gA_repinv|]. split; [exact mA_gen_ok|].
  intros [_ R]. assert (K : king_exists (push gA mA) Black = true) by (vm_compute; reflexivity).
  destruct (ri_castle _ R Black K) as [H _].
  assert (Hr : st_bk (gstate_of (push gA mA)) = true) by (vm_compute; reflexivity).
  destruct (H Hr) as [A _]. vm_compute in A. discriminate.
Qed.
Print Assumptions push_repinv_needs_gen_ok_x.

(* (B) castling onto the stale king cache of a king-less opponent: RepInv g, gen_ok g m and
   gen_ok_x g m hold, RepInv (push g m) does not. White Ke1 Rh1 with the right K; Black has a rook
   on a8, no king, its king cache still points at g1 and its right k is still recorded. *)
Definition gB : game :=
  place_all (empty_game White (0, 4) (0, 6) (mkState 8 true false true false))
            [((0, 4), mkPiece King White); ((0, 7), mkPiece Rook White); ((7, 0), mkPiece Rook Black)].
Definition mB : Move := CastlingShort White.

Lemma gB_repinv : RepInv gB.
Proof. apply repinv_b_sound. vm_compute. reflexivity. Qed.

Lemma mB_gen_ok : gen_ok gB mB /\ gen_ok_x gB mB.
Proof. split; [|exact I]. cbn [gen_ok mB]. repeat split. Qed.

Theorem push_repinv_needs_kingsinv :
  RepInv gB /\ gen_ok gB mB /\ gen_ok_x gB mB /\ ~ RepInv (push gB mB).
Proof.
  split; [exact gB_repinv|]. destruct mB_gen_ok as [G X]. split; [exact G|]. split; [exact X|].
  intros [_ R]. assert (K : king_exists (push gB mB) Black = true) by (vm_compute; reflexivity).
  destruct (ri_castle _ R Black K) as [H _].
  assert (Hr : st_bk (gstate_of (push gB mB)) = true) by (vm_compute; reflexivity).
  destruct (H Hr) as [A _]. vm_compute in A. discriminate.
Qed.
Print Assumptions push_repinv_needs_kingsinv.

(* (C) a pawn move over two rows that is not a double step (nothing generates it): gen_ok holds,
   the en passant clause of the new state fails. White Ke1 Pa2, Black Ke8 Pc4; the move a2-b4. *)
Definition gC : game :=
  place_all (empty_game White (0, 4) (7, 4) (mkState 8 false false false false))
            [((0, 4), mkPiece King White); ((7, 4), mkPiece King Black);
             ((1, 0), mkPiece Pawn White); ((3, 2), mkPiece Pawn Black)].
Definition mC : Move := Normal (mkPiece Pawn White) (1, 0) (3, 1) None.

Lemma gC_repinv : RepInv gC.
Proof. apply repinv_b_sound. vm_compute. reflexivity. Qed.

Lemma mC_gen_ok : gen_ok gC mC.
Proof.
  cbn [gen_ok mC]. repeat split; try (apply valid_intro; reflexivity); try (cbn; lia).
  - discriminate.
  - intros c E. discriminate.
Qed.

Theorem push_repinv_needs_double_step : RepInv gC /\ gen_ok gC mC /\ ~ RepInv (push gC mC).
Proof.
  split; [exact gC_repinv|]. split; [exact mC_gen_ok|].
  intros [_ R]. pose proof (ri_ep _ R) as H.
  assert (E : st_ep (gstate_of (push gC mC)) = 0) by (vm_compute; reflexivity).
  rewrite E in H. destruct (H ltac:(lia)) as [A _]. vm_compute in A. discriminate.
Qed.
Print Assumptions push_repinv_needs_double_step.
