(* Text properties of moves: the UCI text of a generated move is the standard one, reading it
   back in the same position gives the same move value, the `position ... moves` filter accepts
   exactly the texts of legal moves, the move record entries and the board display. *)
From Coq Require Import Lia.
From Chess Require Import Model.Text Spec.Rules Spec.Notation Proofs.Grid Proofs.Inv Proofs.Abs.
Open Scope list_scope.
Open Scope Z_scope.

(* ---- the two facts about generated Normal moves that gen_ok does not record ------------------------
   Both hold for every generated move (king steps come from GEN_KING_DELTAS, a pawn reaches an empty
   square only by advancing on its file); they are explicit premises of the theorems below. *)

Definition normal_king_step (m : Move) : Prop :=
  forall pc s e cap, m = Normal pc s e cap -> pk pc = King -> Z.abs (snd e - snd s) <= 1.

Definition normal_pawn_push_file (m : Move) : Prop :=
  forall pc s e, m = Normal pc s e None -> pk pc = Pawn -> snd s = snd e.

Definition text_extra (m : Move) : Prop := normal_king_step m /\ normal_pawn_push_file m.

(* ---- small facts -------------------------------------------------------------------------------------- *)

Lemma text_eqb_eq (a b : text) : text_eqb a b = true <-> a = b.
Proof.
  unfold text_eqb. revert b. induction a as [|x t IH]; intros [|y u]; cbn [length combine forallb Nat.eqb andb fst snd];
    try (split; [discriminate | discriminate]); [split; reflexivity|].
  specialize (IH u). rewrite andb_true_iff in IH.
  split.
  - intros H. apply andb_true_iff in H. destruct H as [Hl H]. apply andb_true_iff in H. destruct H as [Hx Hf].
    apply N.eqb_eq in Hx. subst y. f_equal. apply IH. split; assumption.
  - intros H. inversion H; subst. destruct IH as [_ IH]. specialize (IH eq_refl). destruct IH as [Hl Hf].
    rewrite Hl, Hf, N.eqb_refl. reflexivity.
Qed.

Lemma text_eqb_refl (a : text) : text_eqb a a = true.
Proof. now apply text_eqb_eq. Qed.

Lemma move_eqb_eq (a b : Move) : move_eqb a b = true <-> a = b.
Proof.
  destruct a, b; cbn [move_eqb]; try (split; [discriminate | discriminate]);
    rewrite ?andb_true_iff, ?piece_eqb_eq, ?pos_eqb_eq, ?opiece_eqb_eq, ?color_eqb_eq, ?kind_eqb_eq, ?Z.eqb_eq;
    (split; [intros H; repeat match goal with H : _ /\ _ |- _ => destruct H end; subst; reflexivity
            | intros H; inversion H; subst; repeat split]).
Qed.

Lemma move_eqb_refl (a : Move) : move_eqb a a = true.
Proof. now apply move_eqb_eq. Qed.

Lemma utf8_char_small c : (c < 128)%N -> utf8_char c = [c].
Proof. intros H. unfold utf8_char. apply N.ltb_lt in H. rewrite H. reflexivity. Qed.

Lemma utf8_ascii (s : text) : Forall (fun c => (c < 128)%N) s -> utf8 s = s.
Proof.
  unfold utf8. induction 1 as [|c t Hc Ht IH]; cbn [flat_map]; [reflexivity|].
  rewrite IH, utf8_char_small by assumption. reflexivity.
Qed.

Lemma idx8 (c : Z) : 0 <= c < 8 -> c = 0 \/ c = 1 \/ c = 2 \/ c = 3 \/ c = 4 \/ c = 5 \/ c = 6 \/ c = 7.
Proof. lia. Qed.

Ltac cases8 c H :=
  let E := fresh "E" in
  destruct (idx8 c H) as [E|[E|[E|[E|[E|[E|[E|E]]]]]]]; rewrite E in *; clear E.

Lemma byte_minus_file c : 0 <= c < 8 -> byte_minus (file_char c) 97 = c.
Proof. intros H. cases8 c H; vm_compute; reflexivity. Qed.

Lemma byte_minus_rank r : 0 <= r < 8 -> byte_minus (rank_char r) 49 = r.
Proof. intros H. cases8 r H; vm_compute; reflexivity. Qed.

Lemma file_char_small c : 0 <= c < 8 -> (file_char c < 128)%N.
Proof. unfold file_char. lia. Qed.

Lemma rank_char_small r : 0 <= r < 8 -> (rank_char r < 128)%N.
Proof. unfold rank_char. lia. Qed.

Lemma file_char_letter c : file_char c = file_letter c.
Proof. reflexivity. Qed.
Lemma rank_char_digit r : rank_char r = rank_digit r.
Proof. reflexivity. Qed.

Lemma pos_new_valid r c : valid (r, c) -> pos_new r c = Some (r, c).
Proof.
  unfold valid, pos_new, in_range. cbn [fst snd]. intros [Hr Hc].
  replace (0 <=? r) with true by (symmetry; apply Z.leb_le; lia).
  replace (r <? 8) with true by (symmetry; apply Z.ltb_lt; lia).
  replace (0 <=? c) with true by (symmetry; apply Z.leb_le; lia).
  replace (c <? 8) with true by (symmetry; apply Z.ltb_lt; lia).
  reflexivity.
Qed.

(* comparing one character of a square text with a constant *)
Lemma file_char_eqb c k : 0 <= c -> 0 <= k -> N.eqb (file_char c) (97 + Z.to_N k) = (c =? k).
Proof.
  intros Hc Hk. unfold file_char. destruct (N.eqb_spec (97 + Z.to_N c) (97 + Z.to_N k)), (Z.eqb_spec c k);
    try reflexivity; lia.
Qed.
Lemma rank_char_eqb r k : 0 <= r -> 0 <= k -> N.eqb (rank_char r) (49 + Z.to_N k) = (r =? k).
Proof.
  intros Hc Hk. unfold rank_char. destruct (N.eqb_spec (49 + Z.to_N r) (49 + Z.to_N k)), (Z.eqb_spec r k);
    try reflexivity; lia.
Qed.

(* the text of two squares equals a four-letter constant iff the squares are the named ones *)
Lemma squares_text_eqb s e (fr fc tr tc : Z) :
  valid s -> valid e -> 0 <= fr -> 0 <= fc -> 0 <= tr -> 0 <= tc ->
  text_eqb (square_text s ++ square_text e)
           [(97 + Z.to_N fc)%N; (49 + Z.to_N fr)%N; (97 + Z.to_N tc)%N; (49 + Z.to_N tr)%N]
  = pos_eqb s (fr, fc) && pos_eqb e (tr, tc).
Proof.
  intros [Hs1 Hs2] [He1 He2] H1 H2 H3 H4. unfold text_eqb, square_text, pos_eqb.
  cbn [app length combine forallb Nat.eqb fst snd andb].
  rewrite !file_char_eqb, !rank_char_eqb by lia.
  destruct (snd s =? fc), (fst s =? fr), (snd e =? tc), (fst e =? tr); reflexivity.
Qed.

(* ---- 1. the UCI text is the standard one ------------------------------------------------------------- *)

(* the letter table, pinned through a finite check (a wrong letter in the source breaks this) *)
Lemma uci_promo_letters :
  forallb (fun k => match kind_assoc k UCI_PROMO_LETTER, move_text (mkSMove (0, 0) (0, 0) (Some k)) with
                    | Some c, [_; _; _; _; c'] => N.eqb c c'
                    | _, _ => false
                    end) [Queen; Rook; Bishop; Knight] = true.
Proof. vm_compute. reflexivity. Qed.

Theorem uci_is_standard g m : gen_ok g m -> uci m = move_text (abs_move m).
Proof.
  intros H. destruct m as [pc s e cap | o k s e cap | o | o | o sc ec]; cbn [uci abs_move].
  - unfold move_text, square_text. cbn [m_from m_to m_promo app]. reflexivity.
  - destruct H as (_ & Hk & _). unfold move_text, square_text. cbn [m_from m_to m_promo app].
    destruct Hk as [-> | [-> | [-> | ->]]]; reflexivity.
  - destruct o; reflexivity.
  - destruct o; reflexivity.
  - destruct o; reflexivity.
Qed.
Print Assumptions uci_is_standard.

(* ---- 2. reading the text back ------------------------------------------------------------------------ *)

(* the part of from_uci after the four castling tests *)
Definition parse_tail (s : text) (g : game) : option Move :=
  match utf8 s with
  | b0 :: b1 :: b2 :: b3 :: _ =>
      let sc := byte_minus b0 97 in
      let sr := byte_minus b1 49 in
      let ec := byte_minus b2 97 in
      let er := byte_minus b3 49 in
      match pos_new sr sc with
      | None => None
      | Some s0 =>
          match pos_new er ec with
          | None => None
          | Some e0 =>
              match nth_error s 4 with
              | Some letter =>
                  match assoc N.eqb letter FROM_UCI_PROMO_LETTER with
                  | Some k => Some (Promotion (g_player g) k s0 e0 (gget g e0))
                  | None => None
                  end
              | None =>
                  match gget g s0 with
                  | Some pc =>
                      let '(r1, r2) := ep_rows (g_player g) in
                      if kind_eqb (pk pc) Pawn && is_none (gget g e0)
                         && (Z.abs (snd s0 - snd e0) =? 1)
                         && (fst s0 =? r1) && (fst e0 =? r2)
                      then Some (EnPassant (g_player g) (snd s0) (snd e0))
                      else Some (Normal pc s0 e0 (gget g e0))
                  | None => None
                  end
              end
          end
      end
  | _ => None
  end.

Lemma from_uci_unfold s g :
  from_uci s g =
  if text_eqb s [101; 49; 103; 49]%N && pos_eqb (king_pos g White) (0, 4) then Some (CastlingShort White)
  else if text_eqb s [101; 56; 103; 56]%N && pos_eqb (king_pos g Black) (7, 4) then Some (CastlingShort Black)
  else if text_eqb s [101; 49; 99; 49]%N && pos_eqb (king_pos g White) (0, 4) then Some (CastlingLong White)
  else if text_eqb s [101; 56; 99; 56]%N && pos_eqb (king_pos g Black) (7, 4) then Some (CastlingLong Black)
  else parse_tail s g.
Proof. reflexivity. Qed.

(* what the tail does with the text of two valid squares followed by ASCII characters *)
Definition tail_result (s0 e0 : pos) (fifth : option N) (g : game) : option Move :=
  match fifth with
  | Some letter =>
      match assoc N.eqb letter FROM_UCI_PROMO_LETTER with
      | Some k => Some (Promotion (g_player g) k s0 e0 (gget g e0))
      | None => None
      end
  | None =>
      match gget g s0 with
      | Some pc =>
          if kind_eqb (pk pc) Pawn && is_none (gget g e0)
             && (Z.abs (snd s0 - snd e0) =? 1)
             && (fst s0 =? fst (ep_rows (g_player g))) && (fst e0 =? snd (ep_rows (g_player g)))
          then Some (EnPassant (g_player g) (snd s0) (snd e0))
          else Some (Normal pc s0 e0 (gget g e0))
      | None => None
      end
  end.

Lemma parse_tail_squares s e rest g :
  valid s -> valid e -> Forall (fun c => (c < 128)%N) rest ->
  parse_tail (square_text s ++ square_text e ++ rest) g = tail_result s e (hd_error rest) g.
Proof.
  intros Hs He Hr. unfold parse_tail.
  rewrite utf8_ascii.
  2:{ destruct Hs as [Hs1 Hs2], He as [He1 He2]. unfold square_text. cbn [app].
      repeat constructor; auto using file_char_small, rank_char_small. }
  unfold square_text. cbn [app].
  destruct Hs as [Hs1 Hs2], He as [He1 He2].
  rewrite !byte_minus_file, !byte_minus_rank by assumption.
  rewrite !pos_new_valid by (split; assumption).
  replace (fst s, snd s) with s by (destruct s; reflexivity).
  replace (fst e, snd e) with e by (destruct e; reflexivity).
  cbn [nth_error]. unfold tail_result.
  destruct rest as [|c rest']; cbn [nth_error hd_error]; [|reflexivity].
  destruct (gget g s) as [pc|]; [|reflexivity].
  destruct (ep_rows (g_player g)) as [r1 r2]. reflexivity.
Qed.

(* the four castling tests on the text of two valid squares (nothing after them) *)
Lemma from_uci_two_squares s e g :
  valid s -> valid e ->
  from_uci (square_text s ++ square_text e) g =
  if pos_eqb s (0, 4) && pos_eqb e (0, 6) && pos_eqb (king_pos g White) (0, 4) then Some (CastlingShort White)
  else if pos_eqb s (7, 4) && pos_eqb e (7, 6) && pos_eqb (king_pos g Black) (7, 4) then Some (CastlingShort Black)
  else if pos_eqb s (0, 4) && pos_eqb e (0, 2) && pos_eqb (king_pos g White) (0, 4) then Some (CastlingLong White)
  else if pos_eqb s (7, 4) && pos_eqb e (7, 2) && pos_eqb (king_pos g Black) (7, 4) then Some (CastlingLong Black)
  else tail_result s e None g.
Proof.
  intros Hs He. rewrite from_uci_unfold.
  assert (text_eqb (square_text s ++ square_text e) [101; 49; 103; 49]%N = pos_eqb s (0, 4) && pos_eqb e (0, 6)) as ->
    by (exact (squares_text_eqb s e 0 4 0 6 Hs He ltac:(lia) ltac:(lia) ltac:(lia) ltac:(lia))).
  assert (text_eqb (square_text s ++ square_text e) [101; 56; 103; 56]%N = pos_eqb s (7, 4) && pos_eqb e (7, 6)) as ->
    by (exact (squares_text_eqb s e 7 4 7 6 Hs He ltac:(lia) ltac:(lia) ltac:(lia) ltac:(lia))).
  assert (text_eqb (square_text s ++ square_text e) [101; 49; 99; 49]%N = pos_eqb s (0, 4) && pos_eqb e (0, 2)) as ->
    by (exact (squares_text_eqb s e 0 4 0 2 Hs He ltac:(lia) ltac:(lia) ltac:(lia) ltac:(lia))).
  assert (text_eqb (square_text s ++ square_text e) [101; 56; 99; 56]%N = pos_eqb s (7, 4) && pos_eqb e (7, 2)) as ->
    by (exact (squares_text_eqb s e 7 4 7 2 Hs He ltac:(lia) ltac:(lia) ltac:(lia) ltac:(lia))).
  replace (square_text s ++ square_text e) with (square_text s ++ square_text e ++ []) by now rewrite app_nil_r.
  rewrite parse_tail_squares by (auto; constructor). reflexivity.
Qed.

(* a generated Normal move never has the text of a castling move of a king standing on its home square *)
Lemma normal_not_castle g pc s e cap c col :
  king_exists g c = true -> gen_ok g (Normal pc s e cap) -> normal_king_step (Normal pc s e cap) ->
  Z.abs (col - 4) = 2 ->
  pos_eqb s (home_row c, 4) && pos_eqb e (home_row c, col) && pos_eqb (king_pos g c) (home_row c, 4) = false.
Proof.
  intros Hk Hg Hstep Hcol.
  destruct (pos_eqb s (home_row c, 4)) eqn:E1; [|reflexivity].
  destruct (pos_eqb e (home_row c, col)) eqn:E2; [|reflexivity].
  destruct (pos_eqb (king_pos g c) (home_row c, 4)) eqn:E3; [|reflexivity].
  exfalso. apply pos_eqb_eq in E1, E2, E3. subst s e.
  destruct Hg as (_ & _ & _ & Hb & _).
  unfold king_exists in Hk. rewrite E3 in Hk. unfold gget in Hk. rewrite Hb in Hk.
  apply kind_eqb_eq in Hk.
  specialize (Hstep pc _ _ cap eq_refl Hk). cbn [snd] in Hstep. lia.
Qed.

Lemma from_uci_promo_letters :
  forallb (fun k => match kind_assoc k UCI_PROMO_LETTER with
                    | Some c => (c <? 128)%N && match assoc N.eqb c FROM_UCI_PROMO_LETTER with
                                                | Some k' => kind_eqb k k'
                                                | None => false
                                                end
                    | None => false
                    end) [Queen; Rook; Bishop; Knight] = true.
Proof. vm_compute. reflexivity. Qed.

Lemma promo_letter_back k :
  promo_kind k -> exists c, kind_assoc k UCI_PROMO_LETTER = Some c /\ (c < 128)%N
                            /\ assoc N.eqb c FROM_UCI_PROMO_LETTER = Some k.
Proof.
  intros Hk. pose proof from_uci_promo_letters as H. rewrite forallb_forall in H.
  specialize (H k). cbv beta in H.
  assert (In k [Queen; Rook; Bishop; Knight]) as Hin by (cbn; destruct Hk as [-> | [-> | [-> | ->]]]; auto).
  specialize (H Hin). destruct (kind_assoc k UCI_PROMO_LETTER) as [c|]; [|discriminate].
  exists c. apply andb_true_iff in H. destruct H as [H1 H2]. apply N.ltb_lt in H1.
  destruct (assoc N.eqb c FROM_UCI_PROMO_LETTER) as [k'|]; [|discriminate].
  apply kind_eqb_eq in H2. subst k'. auto.
Qed.

Theorem from_uci_uci g m :
  king_exists g White = true -> king_exists g Black = true ->
  gen_ok g m -> normal_king_step m -> normal_pawn_push_file m ->
  from_uci (uci m) g = Some m.
Proof.
  intros HkW HkB Hg Hstep Hpush.
  destruct m as [pc s e cap | o k s e cap | o | o | o sc ec]; cbn [uci].
  - (* Normal *)
    pose proof Hg as (Hs & He & Hne & Hbs & Hbe & Hown & Hcap).
    rewrite from_uci_two_squares by assumption.
    pose proof (normal_not_castle g pc s e cap White 6 HkW Hg Hstep eq_refl) as N1.
    pose proof (normal_not_castle g pc s e cap Black 6 HkB Hg Hstep eq_refl) as N2.
    pose proof (normal_not_castle g pc s e cap White 2 HkW Hg Hstep eq_refl) as N3.
    pose proof (normal_not_castle g pc s e cap Black 2 HkB Hg Hstep eq_refl) as N4.
    cbn [home_row] in N1, N2, N3, N4. rewrite N1, N2, N3, N4.
    unfold tail_result, gget. rewrite Hbs, Hbe.
    assert (kind_eqb (pk pc) Pawn && is_none cap && (Z.abs (snd s - snd e) =? 1) = false) as ->.
    { destruct (kind_eqb (pk pc) Pawn) eqn:E1; [|reflexivity].
      destruct cap as [c|]; [reflexivity|]. cbn [is_none andb].
      apply kind_eqb_eq in E1. rewrite (Hpush pc s e eq_refl E1). rewrite Z.sub_diag. reflexivity. }
    reflexivity.
  - (* Promotion *)
    destruct Hg as (-> & Hk & Hs & He & Hne & Hrow & Hbs & Hbe & Hcap).
    destruct (promo_letter_back k Hk) as (c & Hc & Hsmall & Hback). rewrite Hc.
    rewrite from_uci_unfold.
    assert (forall t, text_eqb (square_text s ++ square_text e ++ [c]) t = true -> length t = 5%nat) as Hlen.
    { intros t Ht. apply text_eqb_eq in Ht. subst t. reflexivity. }
    repeat match goal with
           | |- context [text_eqb ?a ?b && _] =>
               replace (text_eqb a b) with false
                 by (symmetry; destruct (text_eqb a b) eqn:E; [apply Hlen in E; discriminate | reflexivity]);
               cbn [andb]
           end.
    rewrite parse_tail_squares by (auto; repeat constructor; assumption).
    cbn [hd_error tail_result]. rewrite Hback. unfold gget. rewrite Hbe. reflexivity.
  - (* CastlingShort *)
    destruct Hg as (Ho & Hking & _). rewrite from_uci_unfold. destruct o; cbn [home_row] in Hking.
    + rewrite Hking. reflexivity.
    + rewrite Hking. reflexivity.
  - (* CastlingLong *)
    destruct Hg as (Ho & Hking & _). rewrite from_uci_unfold. destruct o; cbn [home_row] in Hking.
    + rewrite Hking. reflexivity.
    + rewrite Hking. reflexivity.
  - (* EnPassant *)
    destruct Hg as (-> & Hsc & Hec & Habs & Hep & Hb1 & Hb2 & Hb3).
    assert (forall o, uci (EnPassant o sc ec)
                      = square_text (fst (ep_rows o), sc) ++ square_text (snd (ep_rows o), ec)) as Htext
      by (intros []; reflexivity).
    assert (valid (fst (ep_rows (g_player g)), sc)) as Hs by (destruct (g_player g); split; cbn; lia).
    assert (valid (snd (ep_rows (g_player g)), ec)) as He by (destruct (g_player g); split; cbn; lia).
    change (from_uci (uci (EnPassant (g_player g) sc ec)) g = Some (EnPassant (g_player g) sc ec)).
    rewrite Htext.
    rewrite from_uci_two_squares by assumption.
    replace (pos_eqb (fst (ep_rows (g_player g)), sc) (0, 4)) with false by (destruct (g_player g); reflexivity).
    replace (pos_eqb (fst (ep_rows (g_player g)), sc) (7, 4)) with false by (destruct (g_player g); reflexivity).
    cbn [andb]. unfold tail_result, gget. rewrite Hb1, Hb3. cbn [fst snd pk kind_eqb is_none andb].
    rewrite !Z.eqb_refl.
    replace (Z.abs (sc - ec) =? 1) with true by (symmetry; apply Z.eqb_eq; lia).
    reflexivity.
Qed.
Print Assumptions from_uci_uci.

(* ---- 3. different generated moves have different texts ------------------------------------------------ *)

Theorem uci_injective g m1 m2 :
  king_exists g White = true -> king_exists g Black = true ->
  gen_ok g m1 -> text_extra m1 -> gen_ok g m2 -> text_extra m2 ->
  uci m1 = uci m2 -> m1 = m2.
Proof.
  intros HW HB H1 [X1 Y1] H2 [X2 Y2] E.
  pose proof (from_uci_uci g m1 HW HB H1 X1 Y1) as R1.
  pose proof (from_uci_uci g m2 HW HB H2 X2 Y2) as R2.
  rewrite E in R1. congruence.
Qed.
Print Assumptions uci_injective.

(* ---- 4. the filter of `position ... moves` ------------------------------------------------------------ *)

(* what command_position does with one move string before push_history *)
Definition accept (g : game) (s : text) : option Move :=
  match from_uci s g with
  | Some m => if existsb (move_eqb m) (checked_moves g) then Some m else None
  | None => None
  end.

Lemma existsb_move_eqb m l : existsb (move_eqb m) l = true <-> In m l.
Proof.
  rewrite existsb_exists. split.
  - intros (x & Hin & E). apply move_eqb_eq in E. now subst.
  - intros H. exists m. split; [assumption | apply move_eqb_refl].
Qed.

(* an accepted string always names a move of the checked list (any string) *)
Theorem accept_sound g s m : accept g s = Some m -> In m (checked_moves g) /\ from_uci s g = Some m.
Proof.
  unfold accept. destruct (from_uci s g) as [m'|]; [|discriminate].
  destruct (existsb (move_eqb m') (checked_moves g)) eqn:E; [|discriminate].
  intros H. inversion H; subst. split; [now apply existsb_move_eqb | reflexivity].
Qed.

(* strings of move shape: two squares and an optional lower-case promotion letter *)
Lemma rest_match_cases (rest : list N) (a t : pos) :
  match rest with
  | [] => Some (mkSMove a t None)
  | [113%N] => Some (mkSMove a t (Some Queen))
  | [114%N] => Some (mkSMove a t (Some Rook))
  | [98%N] => Some (mkSMove a t (Some Bishop))
  | [110%N] => Some (mkSMove a t (Some Knight))
  | _ => None
  end <> None ->
  rest = [] \/ rest = [113%N] \/ rest = [114%N] \/ rest = [98%N] \/ rest = [110%N].
Proof.
  intros H. destruct rest as [|c l]; [now left|]. right.
  destruct c as [|p]; [exfalso; now apply H|].
  repeat (destruct p as [p|p|]; try (exfalso; apply H; reflexivity));
    (destruct l; [|exfalso; apply H; reflexivity]); auto.
Qed.

Lemma parse_move_shape s :
  parse_move s <> None ->
  exists a t rest, valid a /\ valid t /\ s = square_text a ++ square_text t ++ rest
    /\ (rest = [] \/ rest = [113%N] \/ rest = [114%N] \/ rest = [98%N] \/ rest = [110%N]).
Proof.
  unfold parse_move. destruct s as [|f1 [|r1 [|f2 [|r2 rest]]]]; try congruence.
  destruct ((97 <=? f1) && (f1 <=? 104) && (49 <=? r1) && (r1 <=? 56))%N eqn:E1; [|congruence].
  destruct ((97 <=? f2) && (f2 <=? 104) && (49 <=? r2) && (r2 <=? 56))%N eqn:E2; [|congruence].
  intros H. apply rest_match_cases in H.
  repeat (rewrite andb_true_iff in E1). repeat (rewrite andb_true_iff in E2).
  destruct E1 as [[[A1 A2] A3] A4], E2 as [[[B1 B2] B3] B4].
  apply N.leb_le in A1, A2, A3, A4, B1, B2, B3, B4.
  exists (Z.of_N (r1 - 49), Z.of_N (f1 - 97)), (Z.of_N (r2 - 49), Z.of_N (f2 - 97)), rest.
  split; [split; cbn [fst snd]; lia|]. split; [split; cbn [fst snd]; lia|].
  split; [|assumption].
  unfold square_text, file_char, rank_char. cbn [fst snd app].
  repeat f_equal; lia.
Qed.

Lemma from_uci_castle_text s g m :
  from_uci s g = Some m ->
  (exists o, (m = CastlingShort o \/ m = CastlingLong o) /\ uci m = s) \/ parse_tail s g = Some m.
Proof.
  rewrite from_uci_unfold.
  set (kw := pos_eqb (king_pos g White) (0, 4)). set (kb := pos_eqb (king_pos g Black) (7, 4)).
  destruct (text_eqb s [101; 49; 103; 49]%N) eqn:E1; destruct (text_eqb s [101; 56; 103; 56]%N) eqn:E2;
    destruct (text_eqb s [101; 49; 99; 49]%N) eqn:E3; destruct (text_eqb s [101; 56; 99; 56]%N) eqn:E4;
    destruct kw, kb; cbn [andb]; intros H; try (right; exact H);
    left; inversion H; subst m; eexists; (split; [eauto|]); cbn [uci]; symmetry; apply text_eqb_eq; assumption.
Qed.

(* a string of move shape that is read as a move is the text of that move *)
Theorem from_uci_shape g s m : parse_move s <> None -> from_uci s g = Some m -> uci m = s.
Proof.
  intros Hshape H. apply from_uci_castle_text in H. destruct H as [(o & _ & H) | H]; [assumption|].
  destruct (parse_move_shape s Hshape) as (a & t & rest & Ha & Ht & -> & Hrest).
  rewrite parse_tail_squares in H.
  2,3: assumption.
  2:{ destruct Hrest as [-> | [-> | [-> | [-> | ->]]]]; repeat constructor. }
  destruct Hrest as [-> | [-> | [-> | [-> | ->]]]]; cbn [hd_error tail_result] in H.
  - rewrite app_nil_r. destruct (gget g a) as [pc|]; [|discriminate].
    match type of H with (if ?c then _ else _) = _ => destruct c eqn:E end; inversion H; subst; cbn [uci].
    + repeat (rewrite andb_true_iff in E). destruct E as [[_ E1] E2].
      apply Z.eqb_eq in E1, E2. unfold square_text.
      destruct a as [ar ac], t as [tr tc]. cbn [fst snd] in *. subst ar tr.
      destruct (g_player g); reflexivity.
    + reflexivity.
  - vm_compute in H. inversion H; subst. reflexivity.
  - vm_compute in H. inversion H; subst. reflexivity.
  - vm_compute in H. inversion H; subst. reflexivity.
  - vm_compute in H. inversion H; subst. reflexivity.
Qed.
Print Assumptions from_uci_shape.

Theorem accepts_iff_legal g s m :
  king_exists g White = true -> king_exists g Black = true ->
  (forall m', In m' (checked_moves g) -> gen_ok g m' /\ text_extra m') ->
  parse_move s <> None ->
  (accept g s = Some m <-> In m (checked_moves g) /\ uci m = s).
Proof.
  intros HW HB Hgen Hshape. split.
  - intros H. apply accept_sound in H. destruct H as [Hin Hf]. split; [assumption|].
    now apply (from_uci_shape g).
  - intros [Hin <-]. destruct (Hgen m Hin) as [Hok [X Y]]. unfold accept.
    rewrite (from_uci_uci g m HW HB Hok X Y).
    replace (existsb (move_eqb m) (checked_moves g)) with true; [reflexivity|].
    symmetry. now apply existsb_move_eqb.
Qed.
Print Assumptions accepts_iff_legal.

(* the text of a legal move is always accepted (no shape condition needed in this direction) *)
Theorem accept_legal_text g m :
  king_exists g White = true -> king_exists g Black = true ->
  (forall m', In m' (checked_moves g) -> gen_ok g m' /\ text_extra m') ->
  In m (checked_moves g) -> accept g (uci m) = Some m.
Proof.
  intros HW HB Hgen Hin. destruct (Hgen m Hin) as [Hok [X Y]]. unfold accept.
  rewrite (from_uci_uci g m HW HB Hok X Y).
  replace (existsb (move_eqb m) (checked_moves g)) with true; [reflexivity|].
  symmetry. now apply existsb_move_eqb.
Qed.

(* a string of move shape that is not the text of a legal move is refused *)
Corollary rejects_iff_not_legal g s :
  king_exists g White = true -> king_exists g Black = true ->
  (forall m', In m' (checked_moves g) -> gen_ok g m' /\ text_extra m') ->
  parse_move s <> None ->
  (accept g s = None <-> ~ exists m, In m (checked_moves g) /\ uci m = s).
Proof.
  intros HW HB Hgen Hshape. split.
  - intros H (m & Hm). apply (accepts_iff_legal g s m HW HB Hgen Hshape) in Hm. congruence.
  - intros H. destruct (accept g s) as [m|] eqn:E; [|reflexivity].
    exfalso. apply H. exists m. now apply (accepts_iff_legal g s m HW HB Hgen Hshape).
Qed.

(* the text of a generated move has move shape, and the specification's reader gives the move back *)
Lemma sq_cond (r c : Z) :
  valid (r, c) ->
  ((97 <=? file_char c) && (file_char c <=? 104) && (49 <=? rank_char r) && (rank_char r <=? 56))%N = true.
Proof.
  intros [Hr Hc]. cbn [fst snd] in *. unfold file_char, rank_char.
  repeat (apply andb_true_iff; split); apply N.leb_le; lia.
Qed.
Lemma rank_back r : 0 <= r < 8 -> Z.of_N (rank_char r - 49) = r.
Proof. unfold rank_char. lia. Qed.
Lemma file_back c : 0 <= c < 8 -> Z.of_N (file_char c - 97) = c.
Proof. unfold file_char. lia. Qed.

Theorem parse_move_uci g m : gen_ok g m -> parse_move (uci m) = Some (abs_move m).
Proof.
  intros H. destruct m as [pc s e cap | o k s e cap | o | o | o sc ec].
  - destruct H as (Hs & He & _). destruct s as [sr sc], e as [er ec].
    cbn [uci square_text app fst snd abs_move]. unfold parse_move. cbv beta zeta.
    unfold square_text; cbn [app fst snd]. rewrite (sq_cond sr sc Hs), (sq_cond er ec He), !rank_back, !file_back by (apply Hs || apply He). reflexivity.
  - destruct H as (_ & Hk & Hs & He & _). destruct s as [sr sc], e as [er ec].
    cbn [uci square_text app fst snd abs_move]. unfold parse_move. cbv beta zeta.
    unfold square_text; cbn [app fst snd]. rewrite (sq_cond sr sc Hs), (sq_cond er ec He), !rank_back, !file_back by (apply Hs || apply He).
    destruct Hk as [-> | [-> | [-> | ->]]]; reflexivity.
  - destruct o; reflexivity.
  - destruct o; reflexivity.
  - destruct H as (_ & Hsc & Hec & _).
    assert (valid (fst (ep_rows o), sc)) as Hs by (destruct o; split; cbn; lia).
    assert (valid (snd (ep_rows o), ec)) as He by (destruct o; split; cbn; lia).
    assert (uci (EnPassant o sc ec) = [file_char sc; rank_char (fst (ep_rows o)); file_char ec; rank_char (snd (ep_rows o))])
      as -> by (destruct o; reflexivity).
    unfold parse_move. cbv beta zeta. rewrite (sq_cond _ sc Hs), (sq_cond _ ec He), !rank_back, !file_back by (apply Hs || apply He). reflexivity.
Qed.
Print Assumptions parse_move_uci.


(* ---- 5. the move record (pgn_notation) ---------------------------------------------------------------- *)

Lemma decimal_rank r : 0 <= r < 8 -> decimal (Z.to_N (r + 1)) = [rank_digit r].
Proof. intros H. cases8 r H; vm_compute; reflexivity. Qed.

(* the generated letter tables against the specification's letters (finite checks) *)
Lemma pgn_letter_upper k : PGN_LETTER k = upper_letter k.
Proof. destruct k; reflexivity. Qed.

Lemma pgn_promo_letter_upper k :
  promo_kind k -> match kind_assoc k PGN_PROMO_LETTER with Some c => [c] | None => [] end = upper_letter k.
Proof. intros [-> | [-> | [-> | ->]]]; reflexivity. Qed.

Lemma abs_at g p : at_ (p_board (abs g)) p = bget (g_board g) p.
Proof. reflexivity. Qed.
Lemma abs_turn g : p_turn (abs g) = g_player g.
Proof. reflexivity. Qed.
Lemma abs_board g : p_board (abs g) = g_board g.
Proof. reflexivity. Qed.

Lemma has_at b p k c pc : at_ b p = Some pc -> has b p k c = kind_eqb (pk pc) k && color_eqb (po pc) c.
Proof. unfold has. intros ->. reflexivity. Qed.

Lemma empty_at b p o : at_ b p = o -> empty b p = is_none o.
Proof. unfold empty. intros ->. destruct o; reflexivity. Qed.

Lemma is_castling_not_king p m pc :
  at_ (p_board p) (m_from m) = Some pc -> pk pc <> King -> is_castling p m = None.
Proof.
  intros Hat Hk. unfold is_castling. rewrite (has_at _ _ _ _ pc Hat).
  destruct (kind_eqb (pk pc) King) eqn:E; [apply kind_eqb_eq in E; contradiction | reflexivity].
Qed.

Lemma is_castling_step p m :
  Z.abs (snd (m_to m) - snd (m_from m)) <= 1 -> is_castling p m = None.
Proof.
  intros Hd. unfold is_castling.
  destruct (has (p_board p) (m_from m) King (p_turn p) && pos_eqb (m_from m) (back_rank (p_turn p), 4)) eqn:E;
    [|reflexivity].
  apply andb_true_iff in E. destruct E as [_ E]. apply pos_eqb_eq in E.
  destruct (pos_eqb (m_to m) (back_rank (p_turn p), 6)) eqn:E6.
  { apply pos_eqb_eq in E6. rewrite E, E6 in Hd. cbn [snd] in Hd. lia. }
  destruct (pos_eqb (m_to m) (back_rank (p_turn p), 2)) eqn:E2; [|reflexivity].
  apply pos_eqb_eq in E2. rewrite E, E2 in Hd. cbn [snd] in Hd. lia.
Qed.

Lemma is_some_not_none (o : option piece) : negb (is_none o) = is_some o.
Proof. destruct o; reflexivity. Qed.

Theorem pgn_is_record g m :
  gen_ok g m -> normal_king_step m -> normal_pawn_push_file m ->
  pgn_move m = record_entry (abs g) (abs_move m).
Proof.
  intros Hg Hstep Hpush.
  destruct m as [pc s e cap | o k s e cap | o | o | o sc ec]; cbn [pgn_move abs_move]; unfold record_entry;
    cbn [m_from m_to m_promo].
  - (* Normal *)
    destruct Hg as (Hs & He & Hne & Hbs & Hbe & Hown & Hcap).
    rewrite abs_at, Hbs.
    assert (is_castling (abs g) (mkSMove s e None) = None) as ->.
    { destruct (kind_eqb (pk pc) King) eqn:E.
      - apply kind_eqb_eq in E. apply is_castling_step. cbn [m_from m_to]. exact (Hstep pc s e cap eq_refl E).
      - apply (is_castling_not_king _ _ pc); [cbn [m_from]; now rewrite abs_at|].
        intros X. rewrite X in E. discriminate. }
    rewrite abs_board, (empty_at _ e cap Hbe), is_some_not_none.
    assert (is_en_passant (abs g) (mkSMove s e None) = false) as ->.
    { destruct (is_en_passant (abs g) (mkSMove s e None)) eqn:E; [exfalso|reflexivity].
      unfold is_en_passant in E. cbn [m_from m_to] in E. rewrite abs_board, abs_turn in E.
      repeat (rewrite andb_true_iff in E). destruct E as ((((((E1 & E2) & E3) & E4) & E5) & E6) & E7).
      rewrite (has_at _ _ _ _ pc Hbs) in E1. apply andb_true_iff in E1. destruct E1 as [E1 _].
      apply kind_eqb_eq in E1. rewrite (empty_at _ e cap Hbe) in E5. destruct cap; [discriminate|].
      rewrite (Hpush pc s e eq_refl E1), Z.sub_diag in E4. discriminate. }
    rewrite pgn_letter_upper, decimal_rank by apply He. reflexivity.
  - (* Promotion *)
    destruct Hg as (Ho & Hk & Hs & He & Hne & Hrow & Hbs & Hbe & Hcap).
    rewrite abs_at, Hbs.
    rewrite (is_castling_not_king (abs g) _ (mkPiece Pawn o));
      [| cbn [m_from]; rewrite abs_at; assumption | cbn [pk]; discriminate].
    rewrite abs_board, (empty_at _ e cap Hbe), is_some_not_none.
    assert (is_en_passant (abs g) (mkSMove s e (Some k)) = false) as ->.
    { unfold is_en_passant. cbn [m_from m_to]. rewrite abs_turn, <- Ho, Hrow.
      replace (PAWN_LAST_ROW o =? ep_from_rank o + pawn_dir o) with false by (destruct o; reflexivity).
      rewrite andb_false_r. reflexivity. }
    rewrite decimal_rank by apply He. rewrite (pgn_promo_letter_upper k Hk).
    destruct (is_some cap); reflexivity.
  - (* CastlingShort *)
    destruct Hg as (Ho & Hking & Hb4 & _).
    rewrite abs_at, Hb4. unfold is_castling. cbn [m_from m_to]. rewrite abs_board, abs_turn, <- Ho.
    rewrite (has_at _ _ _ _ _ Hb4). cbn [pk po kind_eqb]. rewrite color_eqb_refl.
    destruct o; reflexivity.
  - (* CastlingLong *)
    destruct Hg as (Ho & Hking & Hb4 & _).
    rewrite abs_at, Hb4. unfold is_castling. cbn [m_from m_to]. rewrite abs_board, abs_turn, <- Ho.
    rewrite (has_at _ _ _ _ _ Hb4). cbn [pk po kind_eqb]. rewrite color_eqb_refl.
    destruct o; reflexivity.
  - (* EnPassant *)
    destruct Hg as (Ho & Hsc & Hec & Habs & Hep & Hb1 & Hb2 & Hb3).
    rewrite abs_at, Hb1.
    rewrite (is_castling_not_king (abs g) _ (mkPiece Pawn o));
      [| cbn [m_from]; rewrite abs_at; assumption | cbn [pk]; discriminate].
    assert (is_en_passant (abs g) (mkSMove (fst (ep_rows o), sc) (snd (ep_rows o), ec) None) = true) as ->.
    { unfold is_en_passant. cbn [m_from m_to fst snd]. rewrite abs_board, abs_turn, <- Ho.
      rewrite (has_at _ _ _ _ _ Hb1), (has_at _ _ _ _ _ Hb2), (empty_at _ _ _ Hb3).
      cbn [pk po kind_eqb is_none andb]. rewrite !color_eqb_refl.
      replace (Z.abs (ec - sc) =? 1) with true by (symmetry; apply Z.eqb_eq; exact Habs).
      assert (p_ep (abs g) = Some ec) as ->.
      { unfold abs, abs_ep. cbn [p_ep]. rewrite Hep.
        replace (ec <? 8) with true by (symmetry; apply Z.ltb_lt; lia). reflexivity. }
      rewrite Z.eqb_refl. destruct o; reflexivity. }
    destruct o; reflexivity.
Qed.
Print Assumptions pgn_is_record.

(* the whole record: one numbered entry per move of the history, oldest first *)
Definition record_item (i : N) (m : Move) : text :=
  (if N.eqb (i mod 2) 0 then decimal (i / 2 + 1)%N ++ [46%N; 32%N] else []) ++ pgn_move m ++ [32%N].

Lemma pgn_aux_snoc l m i :
  pgn_aux (l ++ [m]) i = pgn_aux l i ++ record_item (i + N.of_nat (length l)) m.
Proof.
  revert i. induction l as [|x t IH]; intros i.
  - cbn [app pgn_aux length]. unfold record_item. rewrite N.add_0_r, ?app_nil_r.
    rewrite <- ?app_assoc. reflexivity.
  - cbn [app pgn_aux length]. rewrite IH.
    replace (i + 1 + N.of_nat (length t))%N with (i + N.of_nat (S (length t)))%N by lia.
    rewrite <- !app_assoc. reflexivity.
Qed.

(* adding a move to the history appends its entry (with the move number before White's moves) *)
Theorem get_pgn_snoc g g' m :
  g_moves g' = m :: g_moves g ->
  get_pgn g' = get_pgn g ++ record_item (N.of_nat (length (g_moves g))) m.
Proof.
  intros H. unfold get_pgn. rewrite H. cbn [rev]. rewrite pgn_aux_snoc, rev_length, N.add_0_l. reflexivity.
Qed.
Print Assumptions get_pgn_snoc.

(* ---- 6. the board display ------------------------------------------------------------------------------ *)

Definition line (t : text) : text := t ++ [10%N].

Definition cell (g : game) (i j : Z) : N :=
  match gget g (i, j) with Some pc => glyph pc | None => 32%N end.

Definition board_line (g : game) (i : Z) : text :=
  decimal (Z.to_N (i + 1)) ++ [32%N] ++ flat_map (fun j => [124%N; cell g i j]) cols8 ++ [124%N].

Definition HASH_LABEL : text := [72; 97; 115; 104; 58; 32]%N.     (* "Hash: " *)
Definition FEN_LABEL : text := [70; 101; 110; 58; 32]%N.          (* "Fen: " *)
Definition PGN_LABEL : text := [80; 71; 78; 58; 32]%N.            (* "PGN: " *)
Definition FILES_LINE : text := [32; 32; 32; 97; 32; 98; 32; 99; 32; 100; 32; 101; 32; 102; 32; 103; 32; 104]%N.

Theorem display_lines g :
  display g =
  [10%N] ++ line (HASH_LABEL ++ hex_upper (g_hash g)) ++ line (FEN_LABEL ++ fen g)
  ++ line (PGN_LABEL ++ get_pgn g) ++ [10%N]
  ++ flat_map (fun i => line (board_line g i)) rows_desc
  ++ [10%N] ++ line FILES_LINE.
Proof.
  unfold display.
  match goal with
  | |- context [flat_map ?f rows_desc] =>
      rewrite (flat_map_ext f (fun i => line (board_line g i)))
        by (intros i; unfold line, board_line, cell; rewrite <- !app_assoc; reflexivity)
  end.
  unfold line, HASH_LABEL, FEN_LABEL, PGN_LABEL, FILES_LINE. rewrite <- !app_assoc. reflexivity.
Qed.
Print Assumptions display_lines.

(* [l] is a complete line of [t]: preceded by the start of the text or a newline, followed by a newline *)
Definition is_line_of (t l : text) : Prop :=
  exists pre post, t = pre ++ l ++ [10%N] ++ post /\ (pre = [] \/ exists pre', pre = pre' ++ [10%N]).

Theorem display_hash_line g : is_line_of (display g) (HASH_LABEL ++ hex_upper (g_hash g)).
Proof.
  rewrite display_lines. unfold line. eexists [10%N], _. split.
  - rewrite <- !app_assoc. reflexivity.
  - right. exists []. reflexivity.
Qed.

Theorem display_fen_line g : is_line_of (display g) (FEN_LABEL ++ fen g).
Proof.
  rewrite display_lines. unfold line.
  exists (([10%N] ++ (HASH_LABEL ++ hex_upper (g_hash g))) ++ [10%N]). eexists. split.
  - rewrite <- !app_assoc. reflexivity.
  - right. eexists. reflexivity.
Qed.

Theorem display_record_line g : is_line_of (display g) (PGN_LABEL ++ get_pgn g).
Proof.
  rewrite display_lines. unfold line.
  exists (([10%N] ++ (HASH_LABEL ++ hex_upper (g_hash g)) ++ [10%N] ++ (FEN_LABEL ++ fen g)) ++ [10%N]). eexists. split.
  - rewrite <- !app_assoc. reflexivity.
  - right. eexists. reflexivity.
Qed.

Lemma flat_map_lines_end {A} (f : A -> text) (l : list A) (p : text) :
  exists q, (p ++ [10%N]) ++ flat_map (fun x => line (f x)) l = q ++ [10%N].
Proof.
  revert p. induction l as [|x l' IH]; intros p.
  - exists p. cbn [flat_map]. now rewrite app_nil_r.
  - cbn [flat_map]. destruct (IH (p ++ [10%N] ++ f x)) as (q & Hq). exists q. rewrite <- Hq.
    unfold line. rewrite <- !app_assoc. reflexivity.
Qed.

(* every rank, 8 down to 1, has its line in the diagram *)
Theorem display_rank_line g i : In i rows_desc -> is_line_of (display g) (board_line g i).
Proof.
  intros Hin. rewrite display_lines.
  destruct (in_split i rows_desc Hin) as (l1 & l2 & E). rewrite E, flat_map_app. cbn [flat_map].
  unfold line at 5.
  set (P := [10%N] ++ line (HASH_LABEL ++ hex_upper (g_hash g)) ++ line (FEN_LABEL ++ fen g) ++ (PGN_LABEL ++ get_pgn g) ++ [10%N]).
  destruct (flat_map_lines_end (board_line g) l1 P) as (q & Hq).
  exists ((P ++ [10%N]) ++ flat_map (fun x => line (board_line g x)) l1). eexists. split.
  - unfold P, line. rewrite <- !app_assoc. reflexivity.
  - right. exists q. exact Hq.
Qed.
Print Assumptions display_rank_line.

(* the line of rank i+1: its number, then for each file a bar and the glyph of the piece standing
   there (a blank for an empty square), then a closing bar *)
Theorem board_line_cells g i :
  0 <= i < 8 ->
  board_line g i =
  [rank_digit i; 32%N; 124%N; cell g i 0; 124%N; cell g i 1; 124%N; cell g i 2; 124%N; cell g i 3;
   124%N; cell g i 4; 124%N; cell g i 5; 124%N; cell g i 6; 124%N; cell g i 7; 124%N].
Proof. intros H. unfold board_line. rewrite decimal_rank by assumption. reflexivity. Qed.

(* the glyphs are the Unicode chess symbols U+2654 .. U+265F (white king, queen, rook, bishop,
   knight, pawn, then the black ones), regenerated from the source and checked here *)
Definition unicode_chess (pc : piece) : N :=
  (9812 + match pk pc with King => 0 | Queen => 1 | Rook => 2 | Bishop => 3 | Knight => 4 | Pawn => 5 end
   + match po pc with White => 0 | Black => 6 end)%N.

Theorem glyph_standard pc : glyph pc = unicode_chess pc.
Proof. destruct pc as [[] []]; reflexivity. Qed.

Theorem cell_spec g i j :
  cell g i j = match bget (g_board g) (i, j) with Some pc => unicode_chess pc | None => 32%N end.
Proof. unfold cell, gget. destruct (bget (g_board g) (i, j)); [apply glyph_standard | reflexivity]. Qed.

(* ---- the hexadecimal text of the hash -------------------------------------------------------------------- *)

Definition hex_digit_val (c : N) : N := (if c <? 58 then c - 48 else c - 55)%N.
Definition hex_val (s : text) : N := fold_left (fun a c => (16 * a + hex_digit_val c)%N) s 0%N.
Definition is_upper_hex (c : N) : bool := ((48 <=? c) && (c <=? 57) || (65 <=? c) && (c <=? 70))%N.

Lemma hex_aux_acc f : forall n acc, hex_aux f n acc = hex_aux f n [] ++ acc.
Proof.
  induction f as [|f IH]; intros n acc; cbn [hex_aux]; [reflexivity|].
  destruct (n <? 16)%N; [reflexivity|].
  rewrite (IH _ (_ :: acc)), (IH _ [_]). rewrite <- app_assoc. reflexivity.
Qed.

Lemma hex_aux_step f n :
  hex_aux (S f) n [] = if (n <? 16)%N then [hex_digit (n mod 16)] else hex_aux f (n / 16)%N [] ++ [hex_digit (n mod 16)].
Proof. cbn [hex_aux]. destruct (n <? 16)%N; [reflexivity | apply hex_aux_acc]. Qed.

Lemma hex_val_snoc l c : hex_val (l ++ [c]) = (16 * hex_val l + hex_digit_val c)%N.
Proof. unfold hex_val. rewrite fold_left_app. reflexivity. Qed.

Lemma hex_digit_ok d : (d < 16)%N ->
  hex_digit_val (hex_digit d) = d /\ is_upper_hex (hex_digit d) = true /\ (d <> 0%N -> hex_digit d <> 48%N).
Proof.
  intros H.
  assert (d = 0 \/ d = 1 \/ d = 2 \/ d = 3 \/ d = 4 \/ d = 5 \/ d = 6 \/ d = 7 \/ d = 8 \/ d = 9 \/ d = 10
          \/ d = 11 \/ d = 12 \/ d = 13 \/ d = 14 \/ d = 15)%N as D by lia.
  repeat (destruct D as [-> | D]; [repeat split; try reflexivity; intros; discriminate || congruence|]).
  subst d. repeat split; try reflexivity; intros; discriminate.
Qed.

Lemma hex_aux_correct f : forall n, (n < 16 ^ N.of_nat (S f))%N ->
  hex_val (hex_aux (S f) n []) = n
  /\ forallb is_upper_hex (hex_aux (S f) n []) = true
  /\ hex_aux (S f) n [] <> []
  /\ (n <> 0%N -> hd 0%N (hex_aux (S f) n []) <> 48%N).
Proof.
  induction f as [|f IH]; intros n Hn; rewrite hex_aux_step.
  - change (16 ^ N.of_nat 1)%N with 16%N in Hn.
    replace (n <? 16)%N with true by (symmetry; apply N.ltb_lt; exact Hn).
    rewrite N.mod_small by exact Hn. destruct (hex_digit_ok n Hn) as (H1 & H2 & H3).
    repeat split.
    + unfold hex_val. cbn [fold_left]. rewrite H1. lia.
    + cbn [forallb]. rewrite H2. reflexivity.
    + discriminate.
    + cbn [hd]. exact H3.
  - assert (n mod 16 < 16)%N as Hm by (apply N.mod_lt; discriminate).
    destruct (hex_digit_ok (n mod 16) Hm) as (H1 & H2 & H3).
    destruct (n <? 16)%N eqn:E.
    + apply N.ltb_lt in E. rewrite N.mod_small in * by exact E. repeat split.
      * unfold hex_val. cbn [fold_left]. rewrite H1. lia.
      * cbn [forallb]. rewrite H2. reflexivity.
      * discriminate.
      * cbn [hd]. exact H3.
    + apply N.ltb_ge in E.
      assert (n / 16 < 16 ^ N.of_nat (S f))%N as Hq.
      { apply N.div_lt_upper_bound; [discriminate|].
        rewrite (Nat2N.inj_succ (S f)), N.pow_succ_r' in Hn. exact Hn. }
      destruct (IH (n / 16)%N Hq) as (I1 & I2 & I3 & I4).
      repeat split.
      * rewrite hex_val_snoc, I1, H1. pose proof (N.div_mod' n 16). lia.
      * rewrite forallb_app, I2. cbn [forallb]. rewrite H2. reflexivity.
      * intros X. apply app_eq_nil in X. destruct X as [_ X]. discriminate.
      * intros _. destruct (hex_aux (S f) (n / 16) []) as [|c l] eqn:El; [contradiction|].
        cbn [app hd] in *. apply I4. intros Z0.
        assert (n < 16)%N; [|lia]. pose proof (N.div_mod' n 16). lia.
Qed.

(* the Hash line carries the upper-case hexadecimal text of the hash: digits 0-9 A-F, value equal
   to the hash, no leading zero (the single digit 0 for a zero hash) *)
Theorem hex_upper_correct n : (n < 2 ^ 64)%N ->
  hex_val (hex_upper n) = n
  /\ forallb is_upper_hex (hex_upper n) = true
  /\ hex_upper n <> []
  /\ (n <> 0%N -> hd 0%N (hex_upper n) <> 48%N).
Proof.
  intros H. unfold hex_upper. apply (hex_aux_correct 19).
  eapply N.lt_trans; [exact H|]. vm_compute. reflexivity.
Qed.
Print Assumptions hex_upper_correct.

Example hex_upper_zero : hex_upper 0 = [48%N].
Proof. reflexivity. Qed.

(* ---- examples ------------------------------------------------------------------------------------------ *)
From Coq Require Import String.

(* outside the move shape the reader is tolerant: an upper-case promotion letter and characters
   after a five-character move are accepted and the move is played (the strings are not the text
   of the move) *)
Definition PROMO_GAME : game := imported (txt "4k3/P7/8/8/8/8/8/4K3 w - - 0 1"%string).

Example accept_upper_case_letter :
  accept PROMO_GAME (txt "a7a8Q"%string) = Some (Promotion White Queen (6, 0) (7, 0) None)
  /\ uci (Promotion White Queen (6, 0) (7, 0) None) = txt "a7a8q"%string
  /\ parse_move (txt "a7a8Q"%string) = None.
Proof. vm_compute. repeat split; reflexivity. Qed.

Example accept_trailing_characters :
  accept PROMO_GAME (txt "a7a8rxyz"%string) = Some (Promotion White Rook (6, 0) (7, 0) None)
  /\ parse_move (txt "a7a8rxyz"%string) = None.
Proof. vm_compute. repeat split; reflexivity. Qed.

(* the display of a concrete game, line by line (Hash line: 16 hex digits here) *)
Example display_start_rank1 :
  board_line START 0 = [49; 32; 124; 9814; 124; 9816; 124; 9815; 124; 9813; 124; 9812; 124; 9815; 124; 9816;
                         124; 9814; 124]%N.
Proof. vm_compute. reflexivity. Qed.

(* a castling move, an en passant capture and a promotion: text, reading back, record entry *)
Definition EP_GAME : game := imported (txt "4k3/8/8/2Pp4/8/8/2P5/4K3 w - d6 0 1"%string).

Example ep_accept :
  accept EP_GAME (txt "c5d6"%string) = Some (EnPassant White 2 3)
  /\ accept EP_GAME (txt "c2d3"%string) = None
  /\ pgn_move (EnPassant White 2 3) = txt "cxd6"%string.
Proof. vm_compute. repeat split; reflexivity. Qed.

Example kiwipete_castling :
  accept KIWIPETE (txt "e1g1"%string) = Some (CastlingShort White)
  /\ accept KIWIPETE (txt "e1c1"%string) = Some (CastlingLong White)
  /\ pgn_move (CastlingShort White) = txt "O-O"%string
  /\ pgn_move (CastlingLong White) = txt "O-O-O"%string.
Proof. vm_compute. repeat split; reflexivity. Qed.

Example promo_record :
  pgn_move (Promotion White Bishop (6, 0) (7, 0) None) = txt "a8=B"%string
  /\ pgn_move (Promotion White Knight (6, 0) (7, 1) (Some (mkPiece Rook Black))) = txt "xb8=N"%string.
Proof. vm_compute. repeat split; reflexivity. Qed.

(* the two extra premises are needed: values that satisfy gen_ok but are never generated
   (a king "stepping" two files, a pawn moving diagonally onto an empty square) are read back
   as a castling move / an en passant capture *)
Definition KINGS_GAME : game := imported (txt "4k3/8/8/8/8/8/8/4K3 w - - 0 1"%string).

Example king_step_premise_needed :
  let m := Normal (mkPiece King White) (0, 4) (0, 6) None in
  gen_ok KINGS_GAME m /\ from_uci (uci m) KINGS_GAME = Some (CastlingShort White).
Proof.
  split.
  - unfold gen_ok. split; [split; cbn [fst snd]; lia|]. split; [split; cbn [fst snd]; lia|].
    split; [intros X; inversion X|]. split; [vm_compute; reflexivity|]. split; [vm_compute; reflexivity|].
    split; [vm_compute; reflexivity|]. intros c X. inversion X.
  - vm_compute. reflexivity.
Qed.

Example pawn_file_premise_needed :
  let m := Normal (mkPiece Pawn White) (4, 2) (5, 3) None in
  gen_ok EP_GAME m /\ from_uci (uci m) EP_GAME = Some (EnPassant White 2 3)
  /\ pgn_move m = txt "cd6"%string /\ record_entry (abs EP_GAME) (abs_move m) = txt "cxd6"%string.
Proof.
  split.
  - unfold gen_ok. split; [split; cbn [fst snd]; lia|]. split; [split; cbn [fst snd]; lia|].
    split; [intros X; inversion X|]. split; [vm_compute; reflexivity|]. split; [vm_compute; reflexivity|].
    split; [vm_compute; reflexivity|]. intros c X. inversion X.
  - vm_compute. repeat split; reflexivity.
Qed.
