(* The property-level theorems, part 1: position-level statements (C01-C04, C11, C12, C16, C20) composed with the
   reachability induction of Proofs/Reach.v. Nothing here depends on the search proofs. *)
From Coq Require Import Lia.
From Chess Require Import Model.Text Spec.Rules Spec.FenSpec Spec.HashSpec Spec.EvalSpec Spec.Notation.
From Chess Require Import Proofs.Grid Proofs.Inv Proofs.Abs Proofs.GenOk Proofs.PushPop Proofs.PushPop2 Proofs.HashEval
  Proofs.FenImport1 Proofs.FenImport2 Proofs.FenExport Proofs.Reach Proofs.PushApply Proofs.PushApplyGen
  Proofs.TextProofs Proofs.TextGen.
Open Scope Z_scope.

(* ---- small facts about Good ---------------------------------------------------------------- *)

Lemma good_repinv g : Good g -> RepInv g.
Proof. intros [H _]; exact H. Qed.

Lemma good_cache g : Good g -> CacheInv g /\ state_ok (gstate_of g).
Proof. intros [[Hc Hr] _]. split; [exact Hc | exact (ri_state_ok g Hr)]. Qed.

Lemma good_both_kings g :
  Good g -> king_exists g (g_player g) = true -> king_exists g White = true /\ king_exists g Black = true.
Proof.
  intros [_ [_ Ho]] Hp. destruct (g_player g); cbn [other] in Ho; split; assumption.
Qed.

(* ---- C03: take-back and purity of queries, for every reachable game --------------------------- *)

Theorem top_pop_push g m : search_reachable g -> In m (pseudo_moves g) -> pop (push g m) m = g.
Proof.
  intros Hr Hin. pose proof (good_repinv g (search_reachable_good g Hr)) as HR.
  apply pop_push; [exact HR | exact (gen_ok_pseudo g m HR Hin)].
Qed.

Theorem top_queries_pure g v : search_reachable g -> get_moves_st g v = (get_moves g v, g).
Proof.
  intros Hr. pose proof (good_repinv g (search_reachable_good g Hr)) as HR.
  apply get_moves_st_pure; [exact HR | intros m Hin; exact (gen_ok_pseudo g m HR Hin)].
Qed.

Theorem top_explore d g : search_reachable g -> explore d g = g.
Proof. intros Hr. destruct (search_reachable_good g Hr) as [HR HK]. exact (explore_id d g HR HK). Qed.

(* ---- C04 / C16: hash and score are functions of the position ------------------------------------ *)

Theorem top_hash g : search_reachable g -> g_hash g = H (abs g).
Proof. intros Hr. destruct (good_cache g (search_reachable_good g Hr)) as [Hc Hs]. exact (hash_is_H g Hc Hs). Qed.

Theorem top_hash_import s g : import s = Ok g -> parse s = Some (abs g) /\ g_hash g = H (abs g).
Proof.
  intros Hi. split; [exact (import_sound s g Hi)|].
  destruct (import_rule_easy s g Hi) as (_ & _ & _ & Hs & _).
  exact (hash_is_H g (import_cache s g Hi) Hs).
Qed.

Theorem top_transposition g1 g2 :
  search_reachable g1 -> search_reachable g2 -> abs g1 = abs g2 -> g_hash g1 = g_hash g2.
Proof. intros H1 H2 E. rewrite (top_hash g1 H1), (top_hash g2 H2), E. reflexivity. Qed.

Theorem top_score g : search_reachable g -> g_score g = wrap16 (eval (g_kend g) (g_board g)).
Proof. intros Hr. exact (score_is_eval g (proj1 (good_cache g (search_reachable_good g Hr)))). Qed.

Theorem top_score_import s g : import s = Ok g -> g_score g = wrap16 (eval (g_kend g) (g_board g)).
Proof. intros Hi. exact (score_is_eval g (import_cache s g Hi)). Qed.

(* ---- C02: a legal move produces the position the rules prescribe ------------------------------------ *)

Lemma same_core_abs g g' : same_core g g' -> abs g' = abs g.
Proof. intros (Hb & Hp & Hs & _). unfold abs, gstate_of. rewrite Hb, Hp, Hs. reflexivity. Qed.

Lemma same_core_king_exists g g' c : same_core g g' -> king_exists g' c = king_exists g c.
Proof. intros (Hb & _ & _ & Hk). unfold king_exists, gget. rewrite Hb, Hk. reflexivity. Qed.

Theorem top_push_apply g m :
  legal_reachable g -> In m (checked_moves g) ->
  abs (push g m) = apply (abs g) (abs_move m) /\ abs (push_history g m) = apply (abs g) (abs_move m).
Proof.
  intros Hr Hin. pose proof (legal_reachable_good g Hr) as Hg.
  pose proof (good_repinv g Hg) as HR.
  destruct (good_both_kings g Hg (checked_king g m Hin)) as [Hw Hb].
  split; [exact (push_is_apply_checked g m HR Hw Hb Hin)|].
  unfold push_history. set (g' := update_phase (with_moves g (m :: g_moves g))).
  pose proof (push_history_core g m) as Hc. fold g' in Hc.
  rewrite <- (same_core_abs g g' Hc).
  apply push_is_apply.
  - apply update_phase_repinv, with_moves_repinv, HR.
  - rewrite (same_core_king_exists g g' White Hc). exact Hw.
  - rewrite (same_core_king_exists g g' Black Hc). exact Hb.
  - apply (gen_ok_core g g' m Hc), (gen_ok_checked g m HR Hin).
  - exact (extra_all g m (checked_in_all g m Hin)).
Qed.

(* ---- C11 / C17: FEN export and import -------------------------------------------------------------------- *)

Lemma good_kings_present g : Good g -> king_exists g (g_player g) = true -> kings_present (g_board g).
Proof.
  intros Hg Hp. destruct (good_both_kings g Hg Hp) as [Hw Hb].
  destruct Hg as [[_ Hr] [Hk _]].
  apply (kings_present_game g Hr); [exact (Hk White Hw) | exact (Hk Black Hb)].
Qed.

Theorem top_fen_export g :
  search_reachable g ->
  fields14 (fen g) = render (abs g) /\ six_fields (fen g) = true.
Proof.
  intros Hr. destruct (search_reachable_good g Hr) as [[Hc _] _].
  split; [exact (fen_fields14_wf g (ci_board g Hc)) | exact (fen_six_fields_wf g (ci_board g Hc))].
Qed.

Theorem top_fen_roundtrip g :
  search_reachable g -> king_exists g (g_player g) = true ->
  exists g', import (fen g) = Ok g' /\ abs g' = abs g /\ g_hash g' = g_hash g.
Proof.
  intros Hr Hp. pose proof (search_reachable_good g Hr) as Hg.
  destruct (fen_reimport import_complete g (good_repinv g Hg) (good_kings_present g Hg Hp)) as (g' & Hi & Ha).
  exists g'. split; [exact Hi|]. split; [exact Ha|].
  destruct (top_hash_import _ _ Hi) as [_ Hh]. rewrite Hh, Ha. symmetry. exact (top_hash g Hr).
Qed.


(* ---- statements for games reached by legal play, without side conditions on the kings ------------------------------- *)
From Chess Require Import Proofs.LegalMoves.

Lemma legal_search_reachable g : legal_reachable g -> search_reachable g.
Proof. exact (sr_legal g). Qed.

Theorem top_fen_roundtrip_legal g :
  legal_reachable g -> exists g', import (fen g) = Ok g' /\ abs g' = abs g /\ g_hash g' = g_hash g.
Proof.
  intros Hr. apply top_fen_roundtrip; [exact (sr_legal g Hr)|].
  destruct (legal_reachable_legalinv g Hr) as (_ & Hk & _). exact Hk.
Qed.

Theorem top_text_roundtrip g m :
  legal_reachable g -> In m (checked_moves g) ->
  uci m = move_text (abs_move m) /\ from_uci (uci m) g = Some m.
Proof.
  intros Hr Hin. pose proof (good_repinv g (legal_reachable_good g Hr)) as HR.
  destruct (legal_reachable_kings g Hr) as [Hw Hb].
  split.
  - exact (generated_uci_is_standard g true m HR Hin).
  - exact (generated_from_uci_uci g true m HR Hw Hb Hin).
Qed.

Theorem top_accepts_iff_legal g s m :
  legal_reachable g -> parse_move s <> None ->
  (accept g s = Some m <-> In m (checked_moves g) /\ uci m = s).
Proof.
  intros Hr Hs. pose proof (good_repinv g (legal_reachable_good g Hr)) as HR.
  destruct (legal_reachable_kings g Hr) as [Hw Hb].
  exact (generated_accepts_iff_legal g s m HR Hw Hb Hs).
Qed.

Theorem top_record g m :
  legal_reachable g -> In m (checked_moves g) -> pgn_move m = record_entry (abs g) (abs_move m).
Proof.
  intros Hr Hin. exact (generated_pgn_is_record g true m (good_repinv g (legal_reachable_good g Hr)) Hin).
Qed.
