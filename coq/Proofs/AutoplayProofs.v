(* Self-play of unbounded length never searches a game that has reached the length guard (C15): the state stack then
   has the head-room computed in Proofs/BoundsQ.v (cap_suffices_autoplay). *)
From Coq Require Import Lia.
From Chess Require Import Model.Text Model.Search Model.Autoplay Proofs.Bounds.
Open Scope Z_scope.

Theorem autoplay_below_guard : forall fuel g t stops,
  Z.of_nat (glen g) < AUTOPLAY_LENGTH_GUARD ->
  Forall (fun g' => Z.of_nat (glen g') < AUTOPLAY_LENGTH_GUARD) (autoplay fuel g t stops).
Proof.
  induction fuel as [|f IH]; intros g t stops Hg; cbn [autoplay]; [constructor|].
  destruct (d_move (driver g t None (hd (-1) stops) false)) as [m|]; [|repeat constructor; exact Hg].
  destruct (AUTOPLAY_LENGTH_GUARD <=? Z.of_nat (glen (push_history g m))) eqn:E.
  - repeat constructor; exact Hg.
  - constructor; [exact Hg|]. apply IH. apply Z.leb_gt in E. exact E.
Qed.
Print Assumptions autoplay_below_guard.

(* the start position has one state, far below the guard *)
Example autoplay_guard_positive : 1 < AUTOPLAY_LENGTH_GUARD.
Proof. vm_compute. reflexivity. Qed.
