(* Soundness of the move generator (Model/MoveGen.v) with respect to the rules specification
   (Spec/Rules.v): every generated move is pseudo-legal under the rules, and a generated capture
   lands on a square that the engine's own attack test reports as attacked by the mover.

   Main theorems:
     gen_attacks       a generated capture / non-pawn move: the moving piece [attacks] the target
     capture_targets   board_targeted (g_board g) e (po c) = true for a generated capture of c on e
     gen_sound_all     RepInv g -> In m (pseudo_moves_all g) -> pseudo_legal (abs g) (abs_move m) = true
     gen_sound         the same with the (unused) premises KingsInv / king_exists, as asked
     gen_sound_pseudo, gen_sound_checked, gen_sound_get_moves
     king_capture_targeted / king_not_capturable   a generated king capture happens on the cached,
                       attacked king square of the side not to move

   Structure:
     1. small tools (squares, [attacks] per kind, the forward version of the ray geometry)
     2. finite facts about the GENERATED direction / delta lists (boolean sweeps, vm_compute)
     3. membership inversion of the generators, with the geometry the rules need
     4. [attacks] for the stepping / sliding generators; capture_targets
     5. pseudo-legality per move kind; gen_sound *)
From Coq Require Import Lia ZifyBool.
From Chess Require Import Model.MoveGen Spec.Rules Proofs.Grid Proofs.Inv Proofs.GenOk
  Proofs.AttackSpec Proofs.PushPop2 Proofs.Abs.
Open Scope Z_scope.
Open Scope bool_scope.

(* ---- 1. small tools ------------------------------------------------------------------------------ *)

Lemma on_board_valid p : on_board p = true <-> valid p.
Proof. unfold on_board, valid. lia. Qed.

Lemma at_gget g p : at_ (g_board g) p = gget g p.
Proof. reflexivity. Qed.

Lemma at_bget (b : board) p : at_ b p = bget b p.
Proof. reflexivity. Qed.

Lemma has_at (b : board) p k c : at_ b p = Some (mkPiece k c) -> has b p k c = true.
Proof. intros H. unfold has. rewrite H. cbn [pk po]. now rewrite kind_eqb_refl, color_eqb_refl. Qed.

Lemma empty_at (b : board) p : at_ b p = None -> empty b p = true.
Proof. intros H. unfold empty. now rewrite H. Qed.

Lemma color_neq_other a b : a <> b -> a = other b.
Proof. destruct a, b; cbn; congruence. Qed.

Definition neg (d : Z * Z) : Z * Z := (- fst d, - snd d).

Lemma is_dir_neg d : is_dir (neg d) = is_dir d.
Proof. unfold is_dir, neg. cbn [fst snd]. lia. Qed.

Lemma step_back p d n : step (step p n d) n (neg d) = p.
Proof. destruct p as [r c]. unfold step, neg. cbn [fst snd]. f_equal; lia. Qed.

Lemma step_back_j p d n j : step (step p n d) j (neg d) = step p (n - j) d.
Proof. unfold step, neg. cbn [fst snd]. f_equal; lia. Qed.

(* the path from the mover on p to the target p + n*d is clear when the squares p + j*d, 0 < j < n,
   are empty ([clear_path_step] of AttackSpec read from the other end) *)
Lemma clear_path_fwd b p d n :
  is_dir d = true -> 1 <= n -> valid p -> valid (step p n d) ->
  (forall j, 0 < j < n -> bget b (step p j d) = None) ->
  clear_path b p (step p n d) = true.
Proof.
  intros Hd Hn Hp Ht Hall.
  assert (H : clear_path b (step (step p n d) n (neg d)) (step p n d) = true).
  { apply clear_path_step.
    - now rewrite is_dir_neg.
    - exact Hn.
    - exact Ht.
    - now rewrite step_back.
    - intros j Hj. rewrite step_back_j. apply Hall. lia. }
  now rewrite step_back in H.
Qed.

(* the line conditions of [attacks] for a mover on p and the target p + n*d *)
Lemma step_geom_fwd p d n :
  is_dir d = true -> 1 <= n ->
  pos_eqb p (step p n d) = false
  /\ (fst d = 0 \/ snd d = 0 ->
      (fst (step p n d) - fst p =? 0) || (snd (step p n d) - snd p =? 0) = true)
  /\ (fst d <> 0 /\ snd d <> 0 ->
      (Z.abs (fst (step p n d) - fst p) =? Z.abs (snd (step p n d) - snd p)) = true).
Proof.
  intros Hd Hn. apply is_dir_cases in Hd. destruct d as [r c]. unfold pos_eqb, step. cbn [fst snd] in *.
  destruct Hd as ([-> | [-> | ->]] & [-> | [-> | ->]] & Hz); repeat split; lia.
Qed.

(* ---- 2. finite facts about the generated lists ------------------------------------------------------ *)

Lemma gen_rook_dirs_sweep : forallb rook_dir GEN_ROOK_DIRS = true.
Proof. vm_compute. reflexivity. Qed.
Lemma gen_bishop_dirs_sweep : forallb bishop_dir GEN_BISHOP_DIRS = true.
Proof. vm_compute. reflexivity. Qed.
Lemma gen_queen_dirs_sweep : forallb is_dir GEN_QUEEN_DIRS = true.
Proof. vm_compute. reflexivity. Qed.
Lemma gen_knight_deltas_sweep : forallb knight_geo GEN_KNIGHT_DELTAS = true.
Proof. vm_compute. reflexivity. Qed.
Lemma gen_king_deltas_sweep : forallb is_dir GEN_KING_DELTAS = true.
Proof. vm_compute. reflexivity. Qed.

Lemma gen_rook_dir d : In d GEN_ROOK_DIRS -> is_dir d = true /\ (fst d = 0 \/ snd d = 0).
Proof. intros H. apply rook_dir_iff. now apply (proj1 (forallb_forall _ _) gen_rook_dirs_sweep). Qed.
Lemma gen_bishop_dir d : In d GEN_BISHOP_DIRS -> is_dir d = true /\ fst d <> 0 /\ snd d <> 0.
Proof. intros H. apply bishop_dir_iff. now apply (proj1 (forallb_forall _ _) gen_bishop_dirs_sweep). Qed.
Lemma gen_queen_dir d : In d GEN_QUEEN_DIRS -> is_dir d = true.
Proof. intros H. now apply (proj1 (forallb_forall _ _) gen_queen_dirs_sweep). Qed.
Lemma gen_knight_delta d : In d GEN_KNIGHT_DELTAS -> knight_geo d = true.
Proof. intros H. now apply (proj1 (forallb_forall _ _) gen_knight_deltas_sweep). Qed.
Lemma gen_king_delta d : In d GEN_KING_DELTAS -> is_dir d = true.
Proof. intros H. now apply (proj1 (forallb_forall _ _) gen_king_deltas_sweep). Qed.

(* the pawn constants of the generator are those of the rules *)
Lemma pawn_consts c :
  PAWN_NORMAL_DELTA c = (pawn_dir c, 0) /\ PAWN_FIRST_ROW c = pawn_start c
  /\ PAWN_LAST_ROW c = promo_rank c /\ fst (ep_rows c) = ep_from_rank c
  /\ snd (ep_rows c) = ep_from_rank c + pawn_dir c /\ home_row c = back_rank c
  /\ snd (ep_rows c) <> promo_rank c.
Proof. destruct c; cbn; repeat split; lia. Qed.

(* ---- 3. membership inversion with geometry ---------------------------------------------------------- *)

(* a move of one ray walk: the target is p + k*d, everything before it on the ray is empty *)
Lemma ray_moves_path g self p d :
  forall fuel x m, 1 <= x ->
    (forall j, 1 <= j < x -> gget g (step p j d) = None) ->
    In m (ray_moves fuel g self p d x) ->
    exists k, x <= k /\ valid (step p k d) /\ m = Normal self p (step p k d) (gget g (step p k d))
              /\ forall j, 1 <= j < k -> gget g (step p j d) = None.
Proof.
  induction fuel as [|f IH]; intros x m Hx Hpre Hin; cbn [ray_moves] in Hin; [contradiction|].
  destruct (add_cases p (scale x d)) as [[E Hv] | [E Hv]]; rewrite E in Hin; [|contradiction].
  rewrite plus_scale in *.
  destruct (gget g (step p x d)) as [pc|] eqn:Eg.
  - destruct (negb (color_eqb (po pc) (g_player g))); [|contradiction].
    destruct Hin as [<-|[]]. exists x. split; [lia|]. split; [exact Hv|]. rewrite Eg. now split.
  - destruct Hin as [<-|Hin].
    + exists x. split; [lia|]. split; [exact Hv|]. rewrite Eg. now split.
    + destruct (IH (x + 1) m) as (k & Hk & Hvk & Em & Hall); [lia | | exact Hin |].
      * intros j Hj. destruct (Z.eq_dec j x) as [->|Hne]; [exact Eg | apply Hpre; lia].
      * exists k. split; [lia|]. split; [exact Hvk|]. split; [exact Em | exact Hall].
Qed.

Lemma slider_moves_path g self p dirs m :
  In m (slider_moves g self p dirs) ->
  exists d k, In d dirs /\ 1 <= k /\ valid (step p k d)
              /\ m = Normal self p (step p k d) (gget g (step p k d))
              /\ forall j, 0 < j < k -> gget g (step p j d) = None.
Proof.
  unfold slider_moves. intros Hin. apply in_flat_map in Hin. destruct Hin as (d & Hd & Hin).
  destruct (ray_moves_path g self p d 8 1 m) as (k & Hk & Hv & Em & Hall); [lia | intros; lia | exact Hin |].
  exists d, k. split; [exact Hd|]. split; [lia|]. split; [exact Hv|]. split; [exact Em|].
  intros j Hj. apply Hall. lia.
Qed.

Lemma knight_moves_delta g self p m :
  In m (knight_moves g self p) ->
  exists d, In d GEN_KNIGHT_DELTAS /\ valid (plus p d) /\ m = Normal self p (plus p d) (gget g (plus p d)).
Proof.
  unfold knight_moves. intros Hin. apply in_flat_map in Hin. destruct Hin as (d & Hd & Hin).
  destruct (add_cases p d) as [[E Hv] | [E Hv]]; rewrite E in Hin; [|contradiction].
  cbv zeta in Hin. destruct (own g (gget g (plus p d))); [contradiction|].
  destruct Hin as [<-|[]]. exists d. split; [exact Hd|]. split; [exact Hv | reflexivity].
Qed.

Lemma king_steps_delta' g self p m :
  In m (king_steps g self p) ->
  exists d, In d GEN_KING_DELTAS /\ valid (plus p d) /\ m = Normal self p (plus p d) (gget g (plus p d)).
Proof.
  unfold king_steps. cbv zeta. intros Hin. apply in_flat_map in Hin. destruct Hin as (d & Hd & Hin).
  destruct (add_cases p d) as [[E Hv] | [E Hv]]; rewrite E in Hin; [|contradiction].
  destruct (own g (gget g (plus p d))); [contradiction|].
  match type of Hin with In _ (if ?c then _ else _) => destruct c end; [contradiction|].
  destruct Hin as [<-|[]]. exists d. split; [exact Hd|]. split; [exact Hv | reflexivity].
Qed.

(* ---- 4. [attacks] for the generated moves ------------------------------------------------------------ *)

(* the geometry (with clear path for the long-range pieces) of a move from s to e of a piece of kind k *)
Lemma slider_attacks g self p m dirs :
  valid p -> gget g p = Some self ->
  (forall d, In d dirs -> is_dir d = true) ->
  (pk self = Rook -> forall d, In d dirs -> fst d = 0 \/ snd d = 0) ->
  (pk self = Bishop -> forall d, In d dirs -> fst d <> 0 /\ snd d <> 0) ->
  pk self = Rook \/ pk self = Bishop \/ pk self = Queen ->
  In m (slider_moves g self p dirs) ->
  exists e, valid e /\ m = Normal self p e (gget g e) /\ attacks (g_board g) p e = true.
Proof.
  intros Hp Hs Hdir HR HB Hk Hin.
  apply slider_moves_path in Hin. destruct Hin as (d & k & Hd & Hk1 & Hv & Em & Hall).
  exists (step p k d). split; [exact Hv|]. split; [exact Em|].
  pose proof (Hdir d Hd) as Hid.
  destruct (step_geom_fwd p d k Hid Hk1) as (G1 & G2 & G3).
  assert (Hcp : clear_path (g_board g) p (step p k d) = true).
  { apply clear_path_fwd; auto. }
  unfold attacks. rewrite at_gget, Hs, G1, Hcp. cbn [negb andb].
  destruct Hk as [Hk | [Hk | Hk]]; rewrite Hk, andb_true_r.
  - apply G2. now apply (HR Hk).
  - apply G3. now apply (HB Hk).
  - destruct (Z.eq_dec (fst d) 0) as [Hz | Hz]; [|destruct (Z.eq_dec (snd d) 0) as [Hz' | Hz']].
    + rewrite G2 by (now left). reflexivity.
    + rewrite G2 by (now right). reflexivity.
    + rewrite G3 by (now split). apply orb_true_r.
Qed.

Lemma knight_attacks g self p m :
  gget g p = Some self -> pk self = Knight -> In m (knight_moves g self p) ->
  exists e, valid e /\ m = Normal self p e (gget g e) /\ attacks (g_board g) p e = true.
Proof.
  intros Hs Hk Hin. apply knight_moves_delta in Hin. destruct Hin as (d & Hd & Hv & Em).
  exists (plus p d). split; [exact Hv|]. split; [exact Em|].
  apply gen_knight_delta in Hd. unfold attacks. rewrite at_gget, Hs, Hk.
  unfold knight_geo in Hd. unfold plus, pos_eqb. cbn [fst snd]. lia.
Qed.

Lemma king_attacks g self p m :
  gget g p = Some self -> pk self = King -> In m (king_steps g self p) ->
  exists e, valid e /\ m = Normal self p e (gget g e) /\ attacks (g_board g) p e = true.
Proof.
  intros Hs Hk Hin. apply king_steps_delta' in Hin. destruct Hin as (d & Hd & Hv & Em).
  exists (plus p d). split; [exact Hv|]. split; [exact Em|].
  apply gen_king_delta in Hd. unfold attacks. rewrite at_gget, Hs, Hk.
  unfold is_dir in Hd. unfold plus, pos_eqb. cbn [fst snd]. lia.
Qed.

(* the non-pawn, non-castling generators: a Normal move whose piece attacks the target *)
Lemma officer_attacks g self p m :
  src_ok g self p -> pk self <> Pawn ->
  In m (piece_moves g self p) ->
  (In m (castling_moves g) /\ pk self = King)
  \/ exists e, valid e /\ m = Normal self p e (gget g e) /\ attacks (g_board g) p e = true.
Proof.
  intros (Hv & Hs & Ho) Hnp Hin. unfold piece_moves in Hin. destruct (pk self) eqn:Ek.
  - right. apply (slider_attacks g self p m GEN_QUEEN_DIRS); auto.
    + apply gen_queen_dir.
    + intros E; congruence.
    + intros E; congruence.
  - right. apply (slider_attacks g self p m GEN_ROOK_DIRS); auto.
    + intros d Hd. now apply gen_rook_dir.
    + intros _ d Hd. now apply gen_rook_dir.
    + intros E; congruence.
  - right. apply (slider_attacks g self p m GEN_BISHOP_DIRS); auto.
    + intros d Hd. now apply gen_bishop_dir.
    + intros E; congruence.
    + intros _ d Hd. now apply gen_bishop_dir.
  - right. now apply knight_attacks.
  - congruence.
  - unfold king_moves in Hin. apply in_app_or in Hin. destruct Hin as [Hin|Hin].
    + right. now apply king_attacks.
    + left. now split.
Qed.

(* a capturing arrival of a pawn: the pawn attacks the target *)
Lemma pawn_capture_attacks g self p d np :
  gget g p = Some self -> pk self = Pawn ->
  In d (PAWN_SIDE_DELTAS (po self)) -> add p d = Some np ->
  valid np /\ attacks (g_board g) p np = true.
Proof.
  intros Hs Hk Hd Ea. apply GenOk.add_some in Ea. destruct Ea as [Enp Hv]. split; [exact Hv|].
  apply side_delta in Hd. destruct Hd as [Hd1 Hd2].
  destruct (pawn_consts (po self)) as (C1 & _). rewrite C1 in Hd1. cbn [fst] in Hd1.
  unfold attacks. rewrite at_gget, Hs, Hk. subst np. unfold pos_eqb. cbn [fst snd]. lia.
Qed.

(* what a generated move with a captured piece looks like *)
Definition captures_on (m : Move) (s e : pos) (c : piece) : Prop :=
  (exists pc, m = Normal pc s e (Some c)) \/ (exists o k, m = Promotion o k s e (Some c)).

Theorem gen_attacks : forall g m s e c,
  In m (pseudo_moves_all g) -> captures_on m s e c ->
  valid s /\ valid e /\ gget g e = Some c
  /\ (exists pc, gget g s = Some pc /\ po pc = g_player g)
  /\ attacks (g_board g) s e = true.
Proof.
  intros g m s e c Hin Hcap.
  apply pseudo_all_inv in Hin. destruct Hin as (p & self & Hsrc & Hin).
  pose proof Hsrc as (Hvp & Hs & Ho).
  destruct (kind_eqb (pk self) Pawn) eqn:Ek.
  - apply kind_eqb_eq in Ek. unfold piece_moves in Hin. rewrite Ek in Hin.
    apply pawn_moves_inv in Hin. destruct Hin as [H|[H|[H|H]]].
    + destruct H as (-> & _). destruct Hcap as [(pc & E) | (o & k & E)]; discriminate.
    + destruct H as (np & _ & _ & [(_ & k & _ & ->) | (_ & ->)]);
        destruct Hcap as [(pc & E) | (o & k' & E)]; discriminate.
    + destruct H as (d & np & pc & Hd & Ea & Hg & Hpc & Harr).
      destruct (pawn_capture_attacks g self p d np Hs Ek Hd Ea) as [Hvn Hatt].
      assert (E : s = p /\ e = np /\ c = pc).
      { destruct Harr as [(_ & k & _ & ->) | (_ & ->)];
          destruct Hcap as [(pc' & E) | (o & k' & E)]; inversion E; now subst. }
      destruct E as (-> & -> & ->). splits; try assumption. now exists self.
    + destruct H as (-> & _). destruct Hcap as [(pc & E) | (o & k & E)]; discriminate.
  - assert (Hnp : pk self <> Pawn) by (intros E; rewrite E in Ek; discriminate).
    destruct (officer_attacks g self p m Hsrc Hnp Hin) as [[Hc _] | (e' & Hve & Em & Hatt)].
    + apply castling_moves_inv in Hc. cbv zeta in Hc.
      destruct Hc as [(-> & _) | (-> & _)]; destruct Hcap as [(pc & E) | (o & k & E)]; discriminate.
    + subst m. destruct Hcap as [(pc & E) | (o & k & E)]; [|discriminate].
      inversion E; subst. splits; try assumption; eexists; split; eassumption.
Qed.
Print Assumptions gen_attacks.

(* the square of a captured piece is attacked by the mover, in the engine's own attack test *)
Theorem capture_targets_gen : forall g m s e c,
  RepInv g -> In m (pseudo_moves_all g) -> captures_on m s e c ->
  board_targeted (g_board g) e (po c) = true.
Proof.
  intros g m s e c HR Hin Hcap.
  pose proof (gen_ok_all g m HR Hin) as Hok.
  destruct (gen_attacks g m s e c Hin Hcap) as (Hvs & Hve & Hge & (pc & Hs & Ho) & Hatt).
  assert (Hc : po c <> g_player g).
  { destruct Hcap as [(pc' & ->) | (o & k & ->)]; cbn [gen_ok] in Hok.
    - destruct Hok as (_ & _ & _ & _ & _ & _ & H). now apply H.
    - destruct Hok as (-> & _ & _ & _ & _ & _ & _ & _ & H). now apply H. }
  rewrite (targeted_is_attacked_any _ _ _ Hve). apply attacked_iff.
  exists s, pc. splits; try assumption.
  rewrite Ho. revert Hc. destruct (po c), (g_player g); cbn; congruence.
Qed.
Print Assumptions capture_targets_gen.

Theorem capture_targets : forall g m,
  RepInv g -> In m (pseudo_moves_all g) ->
  forall s e c,
    (exists pc, m = Normal pc s e (Some c)) \/ (exists o k, m = Promotion o k s e (Some c)) ->
    board_targeted (g_board g) e (po c) = true.
Proof. intros g m HR Hin s e c Hcap. now apply (capture_targets_gen g m s e c). Qed.
Print Assumptions capture_targets.

Corollary capture_targets_normal : forall g pc s e c,
  RepInv g -> In (Normal pc s e (Some c)) (pseudo_moves_all g) ->
  board_targeted (g_board g) e (po c) = true.
Proof. intros g pc s e c HR Hin. apply (capture_targets g _ HR Hin s e c). left. now exists pc. Qed.

Corollary capture_targets_promotion : forall g o k s e c,
  RepInv g -> In (Promotion o k s e (Some c)) (pseudo_moves_all g) ->
  board_targeted (g_board g) e (po c) = true.
Proof. intros g o k s e c HR Hin. apply (capture_targets g _ HR Hin s e c). right. now exists o, k. Qed.

(* ---- 5. pseudo-legality ------------------------------------------------------------------------------ *)

(* the per-kind clause of [pseudo_legal], named so that it can be established separately *)
Definition piece_rule (p : position) (m : smove) (pc : piece) : bool :=
  let c := p_turn p in
  let b := p_board p in
  let a := m_from m in
  let t := m_to m in
  match pk pc with
  | Pawn =>
      let dr := fst t - fst a in
      let dc := snd t - snd a in
      (if fst t =? promo_rank c then promo_ok (m_promo m)
       else match m_promo m with None => true | Some _ => false end)
      && (   ((dc =? 0) && (dr =? pawn_dir c) && empty b t)
          || ((dc =? 0) && (dr =? 2 * pawn_dir c) && (fst a =? pawn_start c)
              && empty b (fst a + pawn_dir c, snd a) && empty b t)
          || ((Z.abs dc =? 1) && (dr =? pawn_dir c) && negb (empty b t))
          || is_en_passant p m)
  | King =>
      match m_promo m with Some _ => false | None =>
        attacks b a t
        || match is_castling p m with Some side => castling_ok p side | None => false end
      end
  | _ => match m_promo m with Some _ => false | None => attacks b a t end
  end.

Lemma pseudo_legal_unfold p m :
  pseudo_legal p m =
  on_board (m_from m) && on_board (m_to m) &&
  match at_ (p_board p) (m_from m) with
  | None => false
  | Some pc =>
      color_eqb (po pc) (p_turn p)
      && match color_at (p_board p) (m_to m) with
         | Some c' => negb (color_eqb c' (p_turn p))
         | None => true
         end
      && piece_rule p m pc
  end.
Proof. reflexivity. Qed.

Lemma pseudo_legal_intro g s e pr pc :
  valid s -> valid e -> gget g s = Some pc -> po pc = g_player g ->
  (forall c, gget g e = Some c -> po c <> g_player g) ->
  piece_rule (abs g) (mkSMove s e pr) pc = true ->
  pseudo_legal (abs g) (mkSMove s e pr) = true.
Proof.
  intros Hs He Hg Ho Hcap Hrule. rewrite pseudo_legal_unfold.
  change (m_from (mkSMove s e pr)) with s. change (m_to (mkSMove s e pr)) with e.
  change (p_board (abs g)) with (g_board g). change (p_turn (abs g)) with (g_player g).
  rewrite (proj2 (on_board_valid s) Hs), (proj2 (on_board_valid e) He), at_gget, Hg, Hrule, Ho,
    color_eqb_refl.
  unfold color_at. rewrite at_gget. destruct (gget g e) as [c|] eqn:Ee; [|reflexivity].
  specialize (Hcap c eq_refl). revert Hcap. destruct (po c), (g_player g); cbn; congruence.
Qed.

Lemma officer_rule p m pc :
  pk pc <> Pawn -> m_promo m = None -> attacks (p_board p) (m_from m) (m_to m) = true ->
  piece_rule p m pc = true.
Proof.
  intros Hk Hp Ha. unfold piece_rule. rewrite Hp, Ha. destruct (pk pc); try reflexivity. congruence.
Qed.

Lemma pawn_rule g s e pr pc :
  pk pc = Pawn ->
  ((fst e = promo_rank (g_player g) /\ exists k, pr = Some k /\ promo_kind k)
   \/ (fst e <> promo_rank (g_player g) /\ pr = None)) ->
  ((e = (fst s + pawn_dir (g_player g), snd s) /\ gget g e = None)
   \/ (e = (fst s + 2 * pawn_dir (g_player g), snd s) /\ fst s = pawn_start (g_player g)
       /\ gget g (fst s + pawn_dir (g_player g), snd s) = None /\ gget g e = None)
   \/ (fst e = fst s + pawn_dir (g_player g) /\ Z.abs (snd e - snd s) = 1 /\ gget g e <> None)) ->
  piece_rule (abs g) (mkSMove s e pr) pc = true.
Proof.
  intros Hk Hpromo Hmove. unfold piece_rule. rewrite Hk.
  cbn [abs p_turn p_board m_from m_to m_promo].
  apply andb_true_iff. split.
  - destruct Hpromo as [(E & k & -> & Hpk) | (E & ->)].
    + apply Z.eqb_eq in E. rewrite E. destruct Hpk as [-> | [-> | [-> | ->]]]; reflexivity.
    + apply Z.eqb_neq in E. rewrite E. reflexivity.
  - destruct Hmove as [(-> & He) | [(-> & Hrow & Hmid & He) | (Hr & Hc & He)]].
    + rewrite (empty_at _ _ He). cbn [fst snd].
      replace (snd s - snd s =? 0) with true by lia.
      replace (fst s + pawn_dir (g_player g) - fst s =? pawn_dir (g_player g)) with true by lia.
      reflexivity.
    + rewrite (empty_at _ _ He). cbn [fst snd]. rewrite (empty_at _ _ Hmid).
      replace (snd s - snd s =? 0) with true by lia.
      replace (fst s + 2 * pawn_dir (g_player g) - fst s =? 2 * pawn_dir (g_player g)) with true by lia.
      replace (fst s =? pawn_start (g_player g)) with true by lia.
      cbn [andb]. apply orb_true_iff. left. apply orb_true_iff. left. apply orb_true_r.
    + assert (Hne : empty (g_board g) e = false).
      { unfold empty. rewrite at_gget. destruct (gget g e); [reflexivity | contradiction]. }
      rewrite Hne.
      replace (Z.abs (snd e - snd s) =? 1) with true by lia.
      replace (fst e - fst s =? pawn_dir (g_player g)) with true by lia.
      cbn [andb negb]. apply orb_true_iff. left. apply orb_true_r.
Qed.

(* en passant *)
Lemma ep_sound g o sc ec :
  gen_ok g (EnPassant o sc ec) -> pseudo_legal (abs g) (abs_move (EnPassant o sc ec)) = true.
Proof.
  cbn [gen_ok abs_move]. intros (-> & Hsc & Hec & Habs & Hep & Hp1 & Hp2 & Hp3).
  destruct (pawn_consts (g_player g)) as (_ & _ & _ & C4 & C5 & _ & C7).
  assert (Hrow : 0 <= fst (ep_rows (g_player g)) < 8 /\ 0 <= snd (ep_rows (g_player g)) < 8)
    by (destruct (g_player g); cbn; lia).
  apply (pseudo_legal_intro g _ _ None (mkPiece Pawn (g_player g))).
  - split; cbn [fst snd]; lia.
  - split; cbn [fst snd]; lia.
  - exact Hp1.
  - reflexivity.
  - intros c E. unfold gget in E. rewrite Hp3 in E. discriminate.
  - assert (Hepm : is_en_passant (abs g)
                     (mkSMove (fst (ep_rows (g_player g)), sc) (snd (ep_rows (g_player g)), ec) None) = true).
    { unfold is_en_passant. cbn [abs p_turn p_board p_ep m_from m_to fst snd].
      rewrite (has_at _ _ _ _ Hp1), (empty_at _ _ Hp3), (has_at _ _ _ _ Hp2).
      unfold abs_ep. rewrite Hep. replace (ec <? 8) with true by lia.
      rewrite C4, C5, !Z.eqb_refl. replace (Z.abs (ec - sc) =? 1) with true by lia. reflexivity. }
    unfold piece_rule. cbn [pk]. rewrite Hepm.
    cbn [abs p_turn m_to m_promo fst snd].
    replace (snd (ep_rows (g_player g)) =? promo_rank (g_player g)) with false by lia.
    rewrite orb_true_r. reflexivity.
Qed.

Lemma arrive_promo g self p np cap m :
  pawn_arrive g self p np cap m ->
  exists pr, abs_move m = mkSMove p np pr
    /\ ((fst np = promo_rank (po self) /\ exists k, pr = Some k /\ promo_kind k)
        \/ (fst np <> promo_rank (po self) /\ pr = None)).
Proof.
  destruct (pawn_consts (po self)) as (_ & _ & C3 & _). rewrite <- C3.
  intros [(Hl & k & Hpk & ->) | (Hl & ->)]; cbn [abs_move].
  - exists (Some k). split; [reflexivity|]. left. split; [now symmetry|]. now exists k.
  - exists None. split; [reflexivity|]. right. split; [|reflexivity]. intros E. apply Hl. now symmetry.
Qed.

Lemma pawn_sound g self p m :
  RuleInv g -> src_ok g self p -> pk self = Pawn -> In m (pawn_moves g self p) ->
  pseudo_legal (abs g) (abs_move m) = true.
Proof.
  intros HR Hsrc Hk Hin. pose proof Hsrc as (Hvp & Hs & Ho).
  pose proof (pawn_moves_ok g self p m HR Hsrc Hk Hin) as Hok.
  apply pawn_moves_inv in Hin.
  unfold double_shape, single_shape, capture_shape, ep_shape in Hin.
  pose proof (pawn_geom (po self)) as (G1 & G2 & G3 & G4 & G5 & G6 & G7 & G8).
  destruct (pawn_consts (po self)) as (C1 & C2 & C3 & _).
  rewrite G3, C1, C2, C3 in *. cbn [fst snd] in *. rewrite Ho in *.
  destruct Hin as [H|[H|[H|H]]].
  - (* double push *)
    destruct H as (-> & Hrow & Hmid & Hend). cbn [abs_move].
    rewrite add_unsafe_eq in Hmid, Hend |- *.
    cbn [fst snd] in *. replace (snd p + 0) with (snd p) in * by lia.
    apply (pseudo_legal_intro g _ _ None self); try assumption.
    + destruct Hvp as [Hr Hc]. split; cbn [fst snd]; lia.
    + intros c E. rewrite Hend in E. discriminate.
    + apply pawn_rule; [exact Hk | |].
      * right. split; [cbn [fst snd]; lia | reflexivity].
      * right; left. now repeat split.
  - (* single push *)
    destruct H as (np & Ea & Hn & Harr). apply GenOk.add_some in Ea. destruct Ea as [Enp Hv].
    cbn [fst snd] in Enp. replace (snd p + 0) with (snd p) in Enp by lia.
    apply arrive_promo in Harr. destruct Harr as (pr & -> & Hpr). rewrite Ho in Hpr.
    apply (pseudo_legal_intro g _ _ pr self); try assumption.
    + intros c E. rewrite Hn in E. discriminate.
    + apply pawn_rule; [exact Hk | exact Hpr |]. left. now split.
  - (* captures *)
    destruct H as (d & np & pc & Hd & Ea & Hg & Hpc & Harr).
    apply GenOk.add_some in Ea. destruct Ea as [Enp Hv].
    apply side_delta in Hd. destruct Hd as [Hd1 Hd2]. rewrite C1 in Hd1. cbn [fst] in Hd1.
    apply arrive_promo in Harr. destruct Harr as (pr & -> & Hpr). rewrite Ho in Hpr.
    apply (pseudo_legal_intro g _ _ pr self); try assumption.
    + intros c E. rewrite Hg in E. inversion E; subst c. exact Hpc.
    + apply pawn_rule; [exact Hk | exact Hpr |]. right; right.
      rewrite Hg, Enp. cbn [fst snd]. split; [lia|]. split; [lia | discriminate].
  - (* en passant *)
    destruct H as (-> & _). now apply ep_sound.
Qed.

(* castling *)
Lemma right_of_k g c : right_of (abs_rights (gstate_of g)) c true = right_k g c.
Proof. destruct c; reflexivity. Qed.
Lemma right_of_q g c : right_of (abs_rights (gstate_of g)) c false = right_q g c.
Proof. destruct c; reflexivity. Qed.

Lemma valid_home_row c f : 0 <= f < 8 -> valid (home_row c, f).
Proof. intros H. destruct c; split; cbn [fst snd home_row]; lia. Qed.

Lemma castling_sound g m :
  RuleInv g -> king_exists g (g_player g) = true -> In m (castling_moves g) ->
  pseudo_legal (abs g) (abs_move m) = true.
Proof.
  intros HR Hke Hin.
  pose proof (castling_moves_ok g m HR Hke Hin) as Hok.
  apply castling_moves_inv in Hin. cbv zeta in Hin.
  destruct (pawn_consts (g_player g)) as (_ & _ & _ & _ & _ & C6 & _).
  destruct Hin as [(-> & Hr & _ & _ & T4 & T5 & T6) | (-> & Hr & _ & _ & _ & T4 & T2 & T3)];
    cbn [gen_ok abs_move] in *.
  - destruct Hok as (_ & _ & HK & HRk & H5 & H6).
    apply (pseudo_legal_intro g _ _ None (mkPiece King (g_player g))).
    + apply valid_home_row; lia.
    + apply valid_home_row; lia.
    + exact HK.
    + reflexivity.
    + intros x E. unfold gget in E. rewrite H6 in E. discriminate.
    + assert (Hic : is_castling (abs g) (mkSMove (home_row (g_player g), 4) (home_row (g_player g), 6) None)
                    = Some true).
      { unfold is_castling. cbn [abs p_turn p_board m_from m_to]. rewrite <- C6.
        rewrite (has_at _ _ _ _ HK), !pos_eqb_refl. reflexivity. }
      assert (Hco : castling_ok (abs g) true = true).
      { unfold castling_ok. cbn [abs p_turn p_board p_rights]. rewrite <- C6.
        rewrite (has_at _ _ _ _ HK), (has_at _ _ _ _ HRk), (empty_at _ _ H5), (empty_at _ _ H6).
        rewrite <- !is_targeted_is_attacked by (apply valid_home_row; lia).
        rewrite T4, T5, T6, right_of_k, Hr. reflexivity. }
      unfold piece_rule. cbn [pk m_promo]. rewrite Hic, Hco. apply orb_true_r.
  - destruct Hok as (_ & _ & HK & HRk & H1 & H2 & H3).
    apply (pseudo_legal_intro g _ _ None (mkPiece King (g_player g))).
    + apply valid_home_row; lia.
    + apply valid_home_row; lia.
    + exact HK.
    + reflexivity.
    + intros x E. unfold gget in E. rewrite H2 in E. discriminate.
    + assert (Hic : is_castling (abs g) (mkSMove (home_row (g_player g), 4) (home_row (g_player g), 2) None)
                    = Some false).
      { unfold is_castling. cbn [abs p_turn p_board m_from m_to]. rewrite <- C6.
        rewrite (has_at _ _ _ _ HK), !pos_eqb_refl. cbn [andb].
        replace (pos_eqb (home_row (g_player g), 2) (home_row (g_player g), 6)) with false; [reflexivity|].
        unfold pos_eqb. cbn [fst snd]. lia. }
      assert (Hco : castling_ok (abs g) false = true).
      { unfold castling_ok. cbn [abs p_turn p_board p_rights]. rewrite <- C6.
        rewrite (has_at _ _ _ _ HK), (has_at _ _ _ _ HRk), (empty_at _ _ H1), (empty_at _ _ H2),
          (empty_at _ _ H3).
        rewrite <- !is_targeted_is_attacked by (apply valid_home_row; lia).
        rewrite T4, T2, T3, right_of_q, Hr. reflexivity. }
      unfold piece_rule. cbn [pk m_promo]. rewrite Hic, Hco. apply orb_true_r.
Qed.

(* ---- the generator is sound ---------------------------------------------------------------------------- *)

Lemma piece_moves_sound g self p m :
  RuleInv g -> src_ok g self p -> In m (piece_moves g self p) ->
  pseudo_legal (abs g) (abs_move m) = true.
Proof.
  intros HR Hsrc Hin. pose proof Hsrc as (Hvp & Hs & Ho).
  destruct (kind_eqb (pk self) Pawn) eqn:Ek.
  - apply kind_eqb_eq in Ek. unfold piece_moves in Hin. rewrite Ek in Hin.
    now apply (pawn_sound g self p m).
  - assert (Hnp : pk self <> Pawn) by (intros E; rewrite E in Ek; discriminate).
    pose proof (piece_moves_ok g self p m HR Hsrc Hin) as Hok.
    destruct (officer_attacks g self p m Hsrc Hnp Hin) as [[Hc HK] | (e & Hve & -> & Hatt)].
    + destruct (king_src g self p HR Hsrc HK) as [_ Hke]. now apply castling_sound.
    + cbn [gen_ok abs_move] in *. destruct Hok as (_ & _ & _ & _ & _ & _ & Hcap).
      apply (pseudo_legal_intro g _ _ None self); try assumption.
      apply officer_rule; [exact Hnp | reflexivity | exact Hatt].
Qed.

(* every generated move is pseudo-legal under the rules; only the rule part of the invariant is used *)
Theorem gen_sound_rule : forall g m,
  RuleInv g -> In m (pseudo_moves_all g) -> pseudo_legal (abs g) (abs_move m) = true.
Proof.
  intros g m HR Hin. apply pseudo_all_inv in Hin. destruct Hin as (p & self & Hsrc & Hin).
  now apply (piece_moves_sound g self p m).
Qed.
Print Assumptions gen_sound_rule.

Theorem gen_sound_all : forall g m,
  RepInv g -> In m (pseudo_moves_all g) -> pseudo_legal (abs g) (abs_move m) = true.
Proof. intros g m [_ HR]. now apply gen_sound_rule. Qed.
Print Assumptions gen_sound_all.

(* the statement as asked; the premises on the kings turn out not to be needed *)
Theorem gen_sound : forall g m,
  RepInv g -> KingsInv g -> king_exists g (g_player g) = true ->
  In m (pseudo_moves_all g) -> pseudo_legal (abs g) (abs_move m) = true.
Proof. intros g m HR _ _. now apply gen_sound_all. Qed.
Print Assumptions gen_sound.

Theorem gen_sound_pseudo : forall g m,
  RepInv g -> In m (pseudo_moves g) -> pseudo_legal (abs g) (abs_move m) = true.
Proof. intros g m HR H. apply gen_sound_all; [assumption | now apply pseudo_in_all]. Qed.
Print Assumptions gen_sound_pseudo.

Theorem gen_sound_checked : forall g m,
  RepInv g -> In m (checked_moves g) -> pseudo_legal (abs g) (abs_move m) = true.
Proof. intros g m HR H. apply gen_sound_all; [assumption | now apply checked_in_all]. Qed.
Print Assumptions gen_sound_checked.

Theorem gen_sound_get_moves : forall g v m,
  RepInv g -> In m (get_moves g v) -> pseudo_legal (abs g) (abs_move m) = true.
Proof.
  intros g v m HR. unfold get_moves. destruct v; [now apply gen_sound_checked | now apply gen_sound_pseudo].
Qed.
Print Assumptions gen_sound_get_moves.

(* the capture theorems for the two public move lists *)
Corollary capture_targets_pseudo : forall g m s e c,
  RepInv g -> In m (pseudo_moves g) -> captures_on m s e c ->
  board_targeted (g_board g) e (po c) = true.
Proof. intros g m s e c HR H. apply capture_targets_gen; [assumption | now apply pseudo_in_all]. Qed.

Corollary capture_targets_checked : forall g m s e c,
  RepInv g -> In m (checked_moves g) -> captures_on m s e c ->
  board_targeted (g_board g) e (po c) = true.
Proof. intros g m s e c HR H. apply capture_targets_gen; [assumption | now apply checked_in_all]. Qed.
Print Assumptions capture_targets_checked.

(* the downstream form: a generated move that captures a king captures it on the cached king square
   of the side not to move, and that square is attacked in the engine's own test; so a side whose
   king square is not attacked cannot have its king captured *)
Theorem king_capture_targeted : forall g m s e c,
  RepInv g -> In m (pseudo_moves_all g) -> captures_on m s e c -> pk c = King ->
  po c = other (g_player g) /\ e = king_pos g (po c)
  /\ is_targeted g (king_pos g (po c)) (po c) = true.
Proof.
  intros g m s e c HR Hin Hcap Hk.
  pose proof (capture_targets_gen g m s e c HR Hin Hcap) as Ht.
  pose proof (gen_ok_all g m HR Hin) as Hok.
  destruct (gen_attacks g m s e c Hin Hcap) as (_ & Hve & Hge & _ & _).
  assert (Hc : po c <> g_player g).
  { destruct Hcap as [(pc' & ->) | (o & k & ->)]; cbn [gen_ok] in Hok.
    - destruct Hok as (_ & _ & _ & _ & _ & _ & H). now apply H.
    - destruct Hok as (-> & _ & _ & _ & _ & _ & _ & _ & H). now apply H. }
  destruct HR as [_ HR].
  assert (Hkp : king_pos g (po c) = e).
  { apply (ri_kings g HR e (po c) Hve). unfold gget in Hge. rewrite Hge.
    destruct c as [k o]. cbn [pk po] in *. now subst k. }
  split; [revert Hc; destruct (po c), (g_player g); cbn; congruence|].
  split; [now symmetry|]. unfold is_targeted. now rewrite Hkp.
Qed.
Print Assumptions king_capture_targeted.

Corollary king_not_capturable : forall g m s e c,
  RepInv g -> In m (pseudo_moves_all g) -> captures_on m s e c -> pk c = King ->
  is_targeted g (king_pos g (po c)) (po c) = false -> False.
Proof.
  intros g m s e c HR Hin Hcap Hk Hf.
  destruct (king_capture_targeted g m s e c HR Hin Hcap Hk) as (_ & _ & Ht). congruence.
Qed.

(* non-vacuity: the premises hold and the conclusion is checked by computation on two positions *)
Example gen_sound_start_kiwipete :
  forallb (fun m => pseudo_legal (abs START) (abs_move m)) (pseudo_moves_all START) = true
  /\ forallb (fun m => pseudo_legal (abs KIWIPETE) (abs_move m)) (pseudo_moves_all KIWIPETE) = true
  /\ length (pseudo_moves_all START) = 20%nat /\ length (pseudo_moves_all KIWIPETE) = 48%nat.
Proof. vm_compute. repeat split; reflexivity. Qed.
