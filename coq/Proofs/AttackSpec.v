(* The engine's attack test (Model/Attack.v, mirrors Game::is_targeted) equals the declarative
   attack relation of the rules specification (Spec/Rules.v), for ALL boards.

   Main theorem:  targeted_is_attacked
     forall b p c, wf_grid b -> valid p -> board_targeted b p c = attacked b p (other c)
   (the well-formedness premise is not even needed: targeted_is_attacked_any).

   Structure:
     1. squares, offsets, [add]
     2. [attacked] as an existential over valid squares
     3. the ray lemma: the fuelled walk with `break` finds exactly the first occupied square
     4. geometry: [strictly_between] on a unit-direction line, decomposition of an aligned pair
     5. finite facts about the GENERATED delta / direction lists (boolean sweeps, vm_compute)
     6. delta lemmas (king, knight, pawn), ray lemmas against [clear_path]
     7. assembly *)
From Coq Require Import Lia ZifyBool.
From Chess Require Import Model.Attack Spec.Rules Proofs.Grid.
Open Scope Z_scope.

Ltac splits := repeat match goal with |- _ /\ _ => split end.

(* ---- 1. squares, offsets ------------------------------------------------------------------- *)

(* target square + offset *)
Definition plus (p : pos) (d : Z * Z) : pos := (fst p + fst d, snd p + snd d).
(* n steps from p in direction d *)
Definition step (p : pos) (n : Z) (d : Z * Z) : pos := (fst p + n * fst d, snd p + n * snd d).
(* offset from the target p to the attacker a *)
Definition off (a p : pos) : Z * Z := (fst a - fst p, snd a - snd p).

Lemma plus_scale p x d : plus p (scale x d) = step p x d.
Proof. reflexivity. Qed.

Lemma off_plus p d : off (plus p d) p = d.
Proof. destruct d as [r c]. unfold off, plus. cbn [fst snd]. f_equal; lia. Qed.

Lemma plus_off a p : plus p (off a p) = a.
Proof. destruct a as [r c]. unfold off, plus. cbn [fst snd]. f_equal; lia. Qed.

Lemma step_1 p d : step p 1 d = plus p d.
Proof. unfold step, plus. f_equal; lia. Qed.

Lemma in_range_valid r c : in_range r c = true <-> valid (r, c).
Proof. unfold in_range, valid. cbn [fst snd]. lia. Qed.

Lemma add_cases p d :
  (add p d = Some (plus p d) /\ valid (plus p d)) \/ (add p d = None /\ ~ valid (plus p d)).
Proof.
  unfold add, plus. destruct (in_range (fst p + fst d) (snd p + snd d)) eqn:E.
  - left. split; [reflexivity|]. apply in_range_valid. exact E.
  - right. split; [reflexivity|]. intros H. apply in_range_valid in H. congruence.
Qed.

Lemma enemy_iff pc c : negb (color_eqb (po pc) c) = true <-> po pc = other c.
Proof. destruct (po pc), c; cbn; split; congruence. Qed.

(* ---- 2. [attacked] as an existential --------------------------------------------------------- *)

Lemma attacked_iff b t c :
  attacked b t c = true <->
  exists a pc, valid a /\ at_ b a = Some pc /\ po pc = c /\ attacks b a t = true.
Proof.
  unfold attacked. rewrite existsb_exists. split.
  - intros (a & Hin & H). apply squares64_valid in Hin. unfold color_at in H.
    destruct (at_ b a) as [pc|] eqn:E; [|discriminate].
    apply andb_true_iff in H. destruct H as [H1 H2]. apply color_eqb_eq in H1.
    exists a, pc. auto.
  - intros (a & pc & Hv & E & Hc & Ha). exists a. split; [apply squares64_valid; exact Hv|].
    unfold color_at. rewrite E, Hc, color_eqb_refl. exact Ha.
Qed.

Lemma clear_path_iff b a t :
  clear_path b a t = true <->
  forall q, valid q -> strictly_between a t q = true -> at_ b q = None.
Proof.
  unfold clear_path. rewrite forallb_forall. split.
  - intros H q Hv Hs. specialize (H q (proj2 (squares64_valid q) Hv)). rewrite Hs in H.
    cbn [negb orb] in H. unfold empty in H. destruct (at_ b q); [discriminate|reflexivity].
  - intros H q Hin. apply squares64_valid in Hin.
    destruct (strictly_between a t q) eqn:Hs; [|reflexivity].
    cbn [negb orb]. unfold empty. rewrite (H q Hin Hs). reflexivity.
Qed.

(* ---- 3. the ray lemma ------------------------------------------------------------------------ *)

(* a unit direction: one of the eight king steps *)
Definition is_dir (d : Z * Z) : bool :=
  (Z.abs (fst d) <=? 1) && (Z.abs (snd d) <=? 1) && negb ((fst d =? 0) && (snd d =? 0)).

Lemma is_dir_cases d : is_dir d = true ->
  (fst d = -1 \/ fst d = 0 \/ fst d = 1) /\ (snd d = -1 \/ snd d = 0 \/ snd d = 1)
  /\ (fst d <> 0 \/ snd d <> 0).
Proof. unfold is_dir. lia. Qed.

Lemma step_convex p d n j :
  is_dir d = true -> valid p -> valid (step p n d) -> 0 <= j <= n -> valid (step p j d).
Proof.
  intros Hd. apply is_dir_cases in Hd. destruct d as [r c]. unfold valid, step. cbn [fst snd] in *.
  intros Hp Hn Hj. destruct Hd as ([-> | [-> | ->]] & [-> | [-> | ->]] & _); lia.
Qed.

Lemma step_far p d n : is_dir d = true -> valid p -> 8 <= n -> ~ valid (step p n d).
Proof.
  intros Hd. apply is_dir_cases in Hd. destruct d as [r c]. unfold valid, step. cbn [fst snd] in *.
  intros Hp Hn. destruct Hd as ([-> | [-> | ->]] & [-> | [-> | ->]] & Hz); lia.
Qed.

Definition enemy_kind (c : color) (k1 k2 : kind) (pc : piece) : bool :=
  negb (color_eqb (po pc) c) && (kind_eqb (pk pc) k1 || kind_eqb (pk pc) k2).

(* the first occupied square on the ray from p (starting at multiple x) exists, is on the board
   and holds an enemy piece of kind k1 or k2 *)
Definition ray_hit (b : board) (p : pos) (c : color) (k1 k2 : kind) (d : Z * Z) (x : Z) : Prop :=
  exists n pc, x <= n /\ valid (step p n d) /\ bget b (step p n d) = Some pc
               /\ enemy_kind c k1 k2 pc = true
               /\ forall j, x <= j < n -> bget b (step p j d) = None.

Lemma ray_attack_iff b p c k1 k2 d :
  valid p -> is_dir d = true ->
  forall fuel x, 1 <= x -> 9 <= Z.of_nat fuel + x ->
  (ray_attack fuel b p c k1 k2 d x = true <-> ray_hit b p c k1 k2 d x).
Proof.
  intros Hp Hd. induction fuel as [|f IH]; intros x Hx Hf.
  - cbn [ray_attack]. split; [discriminate|]. intros (n & pc & Hn & Hv & _). exfalso.
    apply (step_far p d n); auto. lia.
  - cbn [ray_attack].
    destruct (add_cases p (scale x d)) as [[E Hv] | [E Hv]]; rewrite E; rewrite plus_scale in *.
    + destruct (bget b (step p x d)) as [pc|] eqn:Eb.
      * split.
        -- intros H. exists x, pc. split; [lia|]. split; [exact Hv|]. split; [exact Eb|].
           split; [exact H|]. intros j Hj; lia.
        -- intros (n & pc' & Hn & Hv' & Hb' & He & Hall).
           destruct (Z.eq_dec n x) as [->|Hne].
           ++ rewrite Eb in Hb'. inversion Hb'; subst. exact He.
           ++ rewrite Hall in Eb by lia. discriminate.
      * rewrite IH by lia. split.
        -- intros (n & pc & Hn & Hv' & Hb' & He & Hall). exists n, pc.
           split; [lia|]. split; [exact Hv'|]. split; [exact Hb'|]. split; [exact He|]. intros j Hj.
           destruct (Z.eq_dec j x) as [->|Hne]; [exact Eb | apply Hall; lia].
        -- intros (n & pc & Hn & Hv' & Hb' & He & Hall).
           assert (n <> x) by (intros ->; congruence).
           exists n, pc. split; [lia|]. split; [exact Hv'|]. split; [exact Hb'|]. split; [exact He|].
           intros j Hj. apply Hall. lia.
    + split; [discriminate|]. intros (n & pc & Hn & Hv' & _). exfalso. apply Hv.
      apply (step_convex p d n x); auto. lia.
Qed.

(* fuel 8 from the first multiple is enough: at most seven steps stay on the board *)
Lemma ray_attack_8 b p c k1 k2 d :
  valid p -> is_dir d = true ->
  (ray_attack 8 b p c k1 k2 d 1 = true <-> ray_hit b p c k1 k2 d 1).
Proof. intros Hp Hd. apply ray_attack_iff; auto; lia. Qed.

(* ---- 4. geometry ----------------------------------------------------------------------------- *)

Lemma sgn_spec z : (z < 0 /\ sgn z = -1) \/ (z = 0 /\ sgn z = 0) \/ (0 < z /\ sgn z = 1).
Proof.
  unfold sgn. destruct (z <? 0) eqn:E1; [lia|]. destruct (0 <? z) eqn:E2; lia.
Qed.

Lemma sgn_eqb_iff x y :
  (sgn x =? sgn y) = true <-> (x < 0 /\ y < 0) \/ (x = 0 /\ y = 0) \/ (0 < x /\ 0 < y).
Proof. pose proof (sgn_spec x). pose proof (sgn_spec y). lia. Qed.

(* the geometric core: the squares strictly between a = p + n*d and p are exactly p + j*d,
   0 < j < n.  Pure integer arithmetic, no board bounds needed. *)
Lemma strictly_between_step p d n q :
  is_dir d = true -> 1 <= n ->
  (strictly_between (step p n d) p q = true <-> exists j, 0 < j < n /\ q = step p j d).
Proof.
  intros Hd Hn. apply is_dir_cases in Hd.
  destruct d as [r c], p as [pr pc], q as [qr qc]. unfold strictly_between, step. cbn [fst snd] in *.
  rewrite !andb_true_iff, !sgn_eqb_iff. split.
  - intros H.
    exists (n - Z.max (Z.abs (qr - (pr + n * r))) (Z.abs (qc - (pc + n * c)))).
    destruct Hd as ([-> | [-> | ->]] & [-> | [-> | ->]] & Hz);
      (split; [lia | f_equal; lia]).
  - intros (j & Hj & E). inversion E; subst qr qc; clear E.
    destruct Hd as ([-> | [-> | ->]] & [-> | [-> | ->]] & Hz); try lia;
      repeat split; lia.
Qed.

(* an aligned pair a <> p decomposes as a = p + n*d with d the sign vector *)
Lemma line_decompose a p :
  a <> p ->
  fst p - fst a = 0 \/ snd p - snd a = 0 \/ Z.abs (fst p - fst a) = Z.abs (snd p - snd a) ->
  exists d n, is_dir d = true /\ 1 <= n /\ a = step p n d
              /\ (fst p - fst a = 0 \/ snd p - snd a = 0 -> fst d = 0 \/ snd d = 0)
              /\ (Z.abs (fst p - fst a) = Z.abs (snd p - snd a) -> fst d <> 0 /\ snd d <> 0).
Proof.
  destruct a as [ar ac], p as [pr pc]. cbn [fst snd]. intros Hne Hal.
  assert (Hne' : ar <> pr \/ ac <> pc) by (destruct (Z.eq_dec ar pr); [right; congruence | left; auto]).
  exists (sgn (ar - pr), sgn (ac - pc)), (Z.max (Z.abs (ar - pr)) (Z.abs (ac - pc))).
  unfold is_dir, step. cbn [fst snd].
  pose proof (sgn_spec (ar - pr)) as Hr. pose proof (sgn_spec (ac - pc)) as Hc.
  repeat split; try lia.
  f_equal; lia.
Qed.

(* the three line conditions of [attacks] for an attacker on p + n*d *)
Lemma step_geom p d n :
  is_dir d = true -> 1 <= n ->
  pos_eqb (step p n d) p = false
  /\ (fst d = 0 \/ snd d = 0 ->
      (fst p - fst (step p n d) =? 0) || (snd p - snd (step p n d) =? 0) = true)
  /\ (fst d <> 0 /\ snd d <> 0 ->
      (Z.abs (fst p - fst (step p n d)) =? Z.abs (snd p - snd (step p n d))) = true).
Proof.
  intros Hd Hn. apply is_dir_cases in Hd. destruct d as [r c]. unfold pos_eqb, step. cbn [fst snd] in *.
  destruct Hd as ([-> | [-> | ->]] & [-> | [-> | ->]] & Hz); repeat split; lia.
Qed.

(* ---- 5. finite facts about the generated lists ------------------------------------------------ *)

Definition offs : list Z := [-7; -6; -5; -4; -3; -2; -1; 0; 1; 2; 3; 4; 5; 6; 7].
(* all offsets between two squares of the board *)
Definition offgrid : list (Z * Z) := list_prod offs offs.

Lemma offs_in z : -7 <= z <= 7 -> In z offs.
Proof.
  intros H.
  assert (z = -7 \/ z = -6 \/ z = -5 \/ z = -4 \/ z = -3 \/ z = -2 \/ z = -1 \/ z = 0 \/ z = 1
          \/ z = 2 \/ z = 3 \/ z = 4 \/ z = 5 \/ z = 6 \/ z = 7) as Hd by lia.
  unfold offs. cbn [In]. intuition.
Qed.

Lemma offgrid_in o : -7 <= fst o <= 7 -> -7 <= snd o <= 7 -> In o offgrid.
Proof. destruct o as [r c]. cbn [fst snd]. intros Hr Hc. apply in_prod; apply offs_in; assumption. Qed.

Definition mem (o : Z * Z) (l : list (Z * Z)) : bool := existsb (pos_eqb o) l.

Lemma mem_In o l : mem o l = true <-> In o l.
Proof.
  unfold mem. rewrite existsb_exists. split.
  - intros (x & Hin & E). apply pos_eqb_eq in E. subst. exact Hin.
  - intros Hin. exists o. split; [exact Hin | apply pos_eqb_refl].
Qed.

(* "the list L is exactly the set of offsets (within -7..7 squared) satisfying G" *)
Definition list_is (G : Z * Z -> bool) (L : list (Z * Z)) : bool :=
  forallb G L && forallb (fun o => implb (G o) (mem o L)) offgrid.

Lemma list_is_spec G L :
  list_is G L = true ->
  (forall o, G o = true -> -7 <= fst o <= 7 /\ -7 <= snd o <= 7) ->
  forall o, In o L <-> G o = true.
Proof.
  unfold list_is. intros H Hb o. apply andb_true_iff in H. destruct H as [H1 H2].
  rewrite forallb_forall in H1, H2. split.
  - apply H1.
  - intros HG. destruct (Hb o HG) as [Hr Hc]. specialize (H2 o (offgrid_in o Hr Hc)).
    rewrite HG in H2. cbn [implb] in H2. apply mem_In. exact H2.
Qed.

(* the geometries, as functions of the offset o = attacker - target *)
Definition king_geo (o : Z * Z) : bool := is_dir o.
Definition knight_geo (o : Z * Z) : bool :=
  ((Z.abs (fst o) =? 1) && (Z.abs (snd o) =? 2)) || ((Z.abs (fst o) =? 2) && (Z.abs (snd o) =? 1)).
(* target belongs to [c], the attacking pawn to [other c]; the pawn moves towards the target *)
Definition pawn_geo (c : color) (o : Z * Z) : bool :=
  (- fst o =? pawn_dir (other c)) && (Z.abs (snd o) =? 1).
Definition rook_dir (o : Z * Z) : bool := is_dir o && ((fst o =? 0) || (snd o =? 0)).
Definition bishop_dir (o : Z * Z) : bool := is_dir o && negb (fst o =? 0) && negb (snd o =? 0).

Lemma kind1_is_king : TARGET_KIND_1 = King. Proof. reflexivity. Qed.
Lemma kind2_is_knight : TARGET_KIND_2 = Knight. Proof. reflexivity. Qed.
Lemma ray_kinds1 : TARGET_RAY_KINDS_1 = (Rook, Queen). Proof. reflexivity. Qed.
Lemma ray_kinds2 : TARGET_RAY_KINDS_2 = (Bishop, Queen). Proof. reflexivity. Qed.

Lemma deltas1_sweep : list_is king_geo TARGET_DELTAS_1 = true.
Proof. vm_compute. reflexivity. Qed.
Lemma deltas2_sweep : list_is knight_geo TARGET_DELTAS_2 = true.
Proof. vm_compute. reflexivity. Qed.
Lemma pawn_deltas_sweep :
  forallb (fun c => list_is (pawn_geo c) (TARGET_PAWN_DELTAS c)) all_colors = true.
Proof. vm_compute. reflexivity. Qed.
Lemma dirs1_sweep : list_is rook_dir TARGET_RAY_DIRS_1 = true.
Proof. vm_compute. reflexivity. Qed.
Lemma dirs2_sweep : list_is bishop_dir TARGET_RAY_DIRS_2 = true.
Proof. vm_compute. reflexivity. Qed.

(* TARGET_DELTAS_1 is exactly the set of the eight king steps *)
Lemma deltas1_spec o : In o TARGET_DELTAS_1 <-> king_geo o = true.
Proof. apply (list_is_spec _ _ deltas1_sweep). unfold king_geo, is_dir. intros; lia. Qed.

(* TARGET_DELTAS_2 is exactly the set of the eight knight jumps *)
Lemma deltas2_spec o : In o TARGET_DELTAS_2 <-> knight_geo o = true.
Proof. apply (list_is_spec _ _ deltas2_sweep). unfold knight_geo. intros; lia. Qed.

(* TARGET_PAWN_DELTAS c is exactly the set of offsets from which a pawn of the other colour
   attacks *)
Lemma pawn_deltas_spec c o : In o (TARGET_PAWN_DELTAS c) <-> pawn_geo c o = true.
Proof.
  assert (H : list_is (pawn_geo c) (TARGET_PAWN_DELTAS c) = true).
  { pose proof pawn_deltas_sweep as H. rewrite forallb_forall in H. apply H.
    destruct c; cbn; auto. }
  apply (list_is_spec _ _ H). unfold pawn_geo, pawn_dir. intros o'. destruct (other c); lia.
Qed.

(* TARGET_RAY_DIRS_1 is exactly the set of the four orthogonal unit directions *)
Lemma dirs1_spec o : In o TARGET_RAY_DIRS_1 <-> rook_dir o = true.
Proof. apply (list_is_spec _ _ dirs1_sweep). unfold rook_dir, is_dir. intros; lia. Qed.

(* TARGET_RAY_DIRS_2 is exactly the set of the four diagonal unit directions *)
Lemma dirs2_spec o : In o TARGET_RAY_DIRS_2 <-> bishop_dir o = true.
Proof. apply (list_is_spec _ _ dirs2_sweep). unfold bishop_dir, is_dir. intros; lia. Qed.

(* ---- 6. [attacks] per kind, delta and ray lemmas ----------------------------------------------- *)

Lemma attacks_King b a p pc :
  at_ b a = Some pc -> pk pc = King -> attacks b a p = king_geo (off a p).
Proof.
  intros E Hk. unfold attacks. rewrite E, Hk. unfold king_geo, is_dir, off, pos_eqb.
  cbn [fst snd]. lia.
Qed.

Lemma attacks_Knight b a p pc :
  at_ b a = Some pc -> pk pc = Knight -> attacks b a p = knight_geo (off a p).
Proof.
  intros E Hk. unfold attacks. rewrite E, Hk. unfold knight_geo, off, pos_eqb.
  cbn [fst snd]. lia.
Qed.

Lemma attacks_Pawn b a p pc c :
  at_ b a = Some pc -> pk pc = Pawn -> po pc = other c -> attacks b a p = pawn_geo c (off a p).
Proof.
  intros E Hk Hc. unfold attacks. rewrite E, Hk, Hc. unfold pawn_geo, off, pos_eqb, pawn_dir.
  cbn [fst snd]. destruct (other c); lia.
Qed.

Lemma delta_attack_iff b p c k L :
  delta_attack b p c k L = true <->
  exists d pc, In d L /\ valid (plus p d) /\ bget b (plus p d) = Some pc
               /\ po pc = other c /\ pk pc = k.
Proof.
  unfold delta_attack. rewrite existsb_exists. split.
  - intros (d & Hin & H). destruct (add_cases p d) as [[E Hv]|[E Hv]]; rewrite E in H; [|discriminate].
    destruct (bget b (plus p d)) as [pc|] eqn:Eb; [|discriminate].
    apply andb_true_iff in H. destruct H as [H1 H2]. apply enemy_iff in H1. apply kind_eqb_eq in H2.
    exists d, pc. auto.
  - intros (d & pc & Hin & Hv & Eb & Hc & Hk). exists d. split; [exact Hin|].
    destruct (add_cases p d) as [[E _]|[E Hn]]; [|contradiction]. rewrite E, Eb.
    apply andb_true_iff. split; [apply enemy_iff; exact Hc | apply kind_eqb_eq; exact Hk].
Qed.

(* a delta loop = "an enemy piece of that kind stands on a square with the geometry G" *)
Lemma delta_attack_geo b p c k L (G : Z * Z -> bool) :
  (forall o, In o L <-> G o = true) ->
  (delta_attack b p c k L = true <->
   exists a pc, valid a /\ at_ b a = Some pc /\ po pc = other c /\ pk pc = k
                /\ G (off a p) = true).
Proof.
  intros HL. rewrite delta_attack_iff. split.
  - intros (d & pc & Hin & Hv & Eb & Hc & Hk). exists (plus p d), pc.
    rewrite off_plus. splits; auto. apply HL. exact Hin.
  - intros (a & pc & Hv & Eb & Hc & Hk & HG). exists (off a p), pc.
    rewrite plus_off. splits; auto. apply HL. exact HG.
Qed.

Lemma clear_path_step b p d n :
  is_dir d = true -> 1 <= n -> valid p -> valid (step p n d) ->
  (clear_path b (step p n d) p = true <-> forall j, 0 < j < n -> bget b (step p j d) = None).
Proof.
  intros Hd Hn Hp Ha. rewrite clear_path_iff. split.
  - intros H j Hj. apply H.
    + apply (step_convex p d n j); auto. lia.
    + apply strictly_between_step; auto. exists j. auto.
  - intros H q Hq Hs. apply strictly_between_step in Hs; auto.
    destruct Hs as (j & Hj & ->). apply H. exact Hj.
Qed.

(* a ray loop = "an enemy piece of kind k1 or k2 stands on the ray with a clear path to p" *)
Lemma rays_attack_iff b p c k1 k2 L :
  valid p -> (forall d, In d L -> is_dir d = true) ->
  (rays_attack b p c (k1, k2) L = true <->
   exists d n pc, In d L /\ 1 <= n /\ valid (step p n d) /\ at_ b (step p n d) = Some pc
                  /\ po pc = other c /\ (pk pc = k1 \/ pk pc = k2)
                  /\ clear_path b (step p n d) p = true).
Proof.
  intros Hp HL. unfold rays_attack. cbn [fst snd]. rewrite existsb_exists. split.
  - intros (d & Hin & H). apply ray_attack_8 in H; auto.
    destruct H as (n & pc & Hn & Hv & Eb & He & Hall).
    unfold enemy_kind in He. apply andb_true_iff in He. destruct He as [He1 He2].
    apply enemy_iff in He1. apply orb_true_iff in He2. rewrite !kind_eqb_eq in He2.
    exists d, n, pc. splits; auto.
    apply clear_path_step; auto. intros j Hj. apply Hall. lia.
  - intros (d & n & pc & Hin & Hn & Hv & Eb & Hc & Hk & Hcp). exists d. split; [exact Hin|].
    apply ray_attack_8; auto. exists n, pc. splits; auto.
    + unfold enemy_kind. apply andb_true_iff. split; [apply enemy_iff; exact Hc|].
      apply orb_true_iff. rewrite !kind_eqb_eq. exact Hk.
    + intros j Hj. apply (proj1 (clear_path_step b p d n (HL d Hin) Hn Hp Hv) Hcp). lia.
Qed.

Lemma rook_dir_is_dir d : rook_dir d = true -> is_dir d = true.
Proof. unfold rook_dir. intros H. apply andb_true_iff in H. tauto. Qed.
Lemma bishop_dir_is_dir d : bishop_dir d = true -> is_dir d = true.
Proof. unfold bishop_dir. rewrite !andb_true_iff. tauto. Qed.

Lemma rook_dir_iff d : rook_dir d = true <-> is_dir d = true /\ (fst d = 0 \/ snd d = 0).
Proof. unfold rook_dir. lia. Qed.
Lemma bishop_dir_iff d : bishop_dir d = true <-> is_dir d = true /\ fst d <> 0 /\ snd d <> 0.
Proof. unfold bishop_dir. lia. Qed.

(* ---- 7. assembly ------------------------------------------------------------------------------ *)

Lemma board_targeted_iff b p c :
  board_targeted b p c = true <->
  delta_attack b p c King TARGET_DELTAS_1 = true
  \/ delta_attack b p c Knight TARGET_DELTAS_2 = true
  \/ delta_attack b p c Pawn (TARGET_PAWN_DELTAS c) = true
  \/ rays_attack b p c (Rook, Queen) TARGET_RAY_DIRS_1 = true
  \/ rays_attack b p c (Bishop, Queen) TARGET_RAY_DIRS_2 = true.
Proof.
  unfold board_targeted. rewrite kind1_is_king, kind2_is_knight, ray_kinds1, ray_kinds2.
  rewrite !orb_true_iff. tauto.
Qed.

Theorem targeted_is_attacked_any b p c :
  valid p -> board_targeted b p c = attacked b p (other c).
Proof.
  intros Hp. apply eq_iff_eq_true. rewrite board_targeted_iff, attacked_iff.
  rewrite (delta_attack_geo b p c King _ king_geo deltas1_spec).
  rewrite (delta_attack_geo b p c Knight _ knight_geo deltas2_spec).
  rewrite (delta_attack_geo b p c Pawn _ (pawn_geo c) (pawn_deltas_spec c)).
  rewrite (rays_attack_iff b p c Rook Queen _ Hp
             (fun d H => rook_dir_is_dir d (proj1 (dirs1_spec d) H))).
  rewrite (rays_attack_iff b p c Bishop Queen _ Hp
             (fun d H => bishop_dir_is_dir d (proj1 (dirs2_spec d) H))).
  split.
  - intros [H | [H | [H | [H | H]]]].
    + destruct H as (a & pc & Hv & E & Hc & Hk & HG). exists a, pc. splits; auto.
      rewrite (attacks_King b a p pc E Hk). exact HG.
    + destruct H as (a & pc & Hv & E & Hc & Hk & HG). exists a, pc. splits; auto.
      rewrite (attacks_Knight b a p pc E Hk). exact HG.
    + destruct H as (a & pc & Hv & E & Hc & Hk & HG). exists a, pc. splits; auto.
      rewrite (attacks_Pawn b a p pc c E Hk Hc). exact HG.
    + destruct H as (d & n & pc & Hin & Hn & Hv & E & Hc & Hk & Hcp).
      exists (step p n d), pc. splits; auto.
      apply dirs1_spec in Hin. apply rook_dir_iff in Hin. destruct Hin as [Hd Hz].
      destruct (step_geom p d n Hd Hn) as (G1 & G2 & _). specialize (G2 Hz).
      unfold attacks. rewrite E, G1, Hcp. cbn [negb andb].
      destruct Hk as [-> | ->]; rewrite G2; reflexivity.
    + destruct H as (d & n & pc & Hin & Hn & Hv & E & Hc & Hk & Hcp).
      exists (step p n d), pc. splits; auto.
      apply dirs2_spec in Hin. apply bishop_dir_iff in Hin. destruct Hin as [Hd Hz].
      destruct (step_geom p d n Hd Hn) as (G1 & _ & G3). specialize (G3 Hz).
      unfold attacks. rewrite E, G1, Hcp. cbn [negb andb].
      destruct Hk as [-> | ->]; rewrite G3, ?orb_true_r; reflexivity.
  - intros (a & pc & Hv & E & Hc & Ha).
    destruct (pk pc) eqn:Hk.
    + (* Queen *)
      unfold attacks in Ha. rewrite E, Hk in Ha.
      apply andb_true_iff in Ha. destruct Ha as [Hne Ha].
      apply andb_true_iff in Ha. destruct Ha as [Hal Hcp].
      apply negb_true_iff in Hne.
      assert (Hne' : a <> p) by (intros ->; rewrite pos_eqb_refl in Hne; discriminate).
      assert (Hal' : fst p - fst a = 0 \/ snd p - snd a = 0
                     \/ Z.abs (fst p - fst a) = Z.abs (snd p - snd a)) by lia.
      destruct (line_decompose a p Hne' Hal') as (d & n & Hd & Hn & -> & Ho & Hdg).
      destruct (Z.eq_dec (fst d) 0) as [Hz | Hz]; [|destruct (Z.eq_dec (snd d) 0) as [Hz' | Hz']].
      * right; right; right; left. exists d, n, pc. splits; auto.
        apply dirs1_spec. apply rook_dir_iff. auto.
      * right; right; right; left. exists d, n, pc. splits; auto.
        apply dirs1_spec. apply rook_dir_iff. auto.
      * right; right; right; right. exists d, n, pc. splits; auto.
        apply dirs2_spec. apply bishop_dir_iff. auto.
    + (* Rook *)
      unfold attacks in Ha. rewrite E, Hk in Ha.
      apply andb_true_iff in Ha. destruct Ha as [Hne Ha].
      apply andb_true_iff in Ha. destruct Ha as [Hal Hcp].
      apply negb_true_iff in Hne.
      assert (Hne' : a <> p) by (intros ->; rewrite pos_eqb_refl in Hne; discriminate).
      assert (Hal0 : fst p - fst a = 0 \/ snd p - snd a = 0) by lia.
      assert (Hal' : fst p - fst a = 0 \/ snd p - snd a = 0
                     \/ Z.abs (fst p - fst a) = Z.abs (snd p - snd a)) by tauto.
      destruct (line_decompose a p Hne' Hal') as (d & n & Hd & Hn & -> & Ho & Hdg).
      right; right; right; left. exists d, n, pc. splits; auto.
      apply dirs1_spec. apply rook_dir_iff. auto.
    + (* Bishop *)
      unfold attacks in Ha. rewrite E, Hk in Ha.
      apply andb_true_iff in Ha. destruct Ha as [Hne Ha].
      apply andb_true_iff in Ha. destruct Ha as [Hal Hcp].
      apply negb_true_iff in Hne.
      assert (Hne' : a <> p) by (intros ->; rewrite pos_eqb_refl in Hne; discriminate).
      assert (Hal0 : Z.abs (fst p - fst a) = Z.abs (snd p - snd a)) by lia.
      assert (Hal' : fst p - fst a = 0 \/ snd p - snd a = 0
                     \/ Z.abs (fst p - fst a) = Z.abs (snd p - snd a)) by tauto.
      destruct (line_decompose a p Hne' Hal') as (d & n & Hd & Hn & -> & Ho & Hdg).
      right; right; right; right. exists d, n, pc. splits; auto.
      apply dirs2_spec. apply bishop_dir_iff. auto.
    + (* Knight *)
      right; left. exists a, pc. splits; auto.
      rewrite <- (attacks_Knight b a p pc E Hk). exact Ha.
    + (* Pawn *)
      right; right; left. exists a, pc. splits; auto.
      rewrite <- (attacks_Pawn b a p pc c E Hk Hc). exact Ha.
    + (* King *)
      left. exists a, pc. splits; auto.
      rewrite <- (attacks_King b a p pc E Hk). exact Ha.
Qed.

(* The statement asked for (the well-formedness premise is not used). *)
Theorem targeted_is_attacked b p c :
  wf_grid b -> valid p -> board_targeted b p c = attacked b p (other c).
Proof. intros _. apply targeted_is_attacked_any. Qed.

Print Assumptions targeted_is_attacked.

Corollary is_targeted_is_attacked g p c :
  valid p -> is_targeted g p c = attacked (g_board g) p (other c).
Proof. apply targeted_is_attacked_any. Qed.

(* [valid p] cannot be dropped: for a target outside the board the walk stops at once, while the
   rules-level relation (which only inspects the 64 squares) still sees the rook's line.
   Irrelevant for the engine, whose Position values are always on the board. *)
Example targeted_needs_valid :
  let b := put (grid_make None) (0, 0) (Some (mkPiece Rook Black)) in
  board_targeted b (-2, 0) White = false /\ attacked b (-2, 0) (other White) = true.
Proof. vm_compute. split; reflexivity. Qed.
