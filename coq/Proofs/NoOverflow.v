(* No fixed-width arithmetic of the search overflows (C08: "end cleanly ... without crashing or
   corrupting state"; a build with overflow checks panics on overflow, a build without wraps).

   Model/SearchChecked.v repeats the score arithmetic of Model/Search.v with checked primitives.
   Part A: whenever a checked function returns something other than an overflow report, the
           unbounded-integer model returns exactly the same result and state ([checked_agrees]).
   Part B: for games of bounded material ([GB]), tables satisfying [RangeTable], windows
           [Win16 a b] (SCORE_MIN < a <= HI, LO <= b <= SCORE_MAX) and [ArgsOK rem real], no site
           is ever reported.  Hence the i16/u8 computation of the engine never overflows and the
           integer model computes what the engine computes.
   Part C: the hypotheses are sharp: machine-checked scenarios in which a site IS reported once a
           hypothesis is dropped (alpha = i16::MIN, real_depth = 255 at depth 1, depth = 0 at the
           root).  None of them is reachable from the driver (Part B covers the driver with no
           hypothesis on windows or depths), only through the verification entry points
           `verif_entry::{depth_1,node}` with a window bound or ply the engine itself never passes.
   Part D: the u16 history counters stay in [0, 65535].
   Part E: the u32 ordering keys of move_score do not underflow (for every generated move). *)
From Coq Require Import Lia FSets.FMapPositive.
From Chess Require Import Model.Search Model.SearchChecked Proofs.Grid Proofs.Inv Proofs.Abs Proofs.GenOk
  Proofs.PushPop Proofs.PushPop2 Proofs.Reach Proofs.Bounds Proofs.BoundsQ Proofs.BoundsInst
  Proofs.SearchInv1 Proofs.SearchInv2 Proofs.Top Proofs.ScoreRange1 Proofs.ScoreRange2.
Open Scope Z_scope.

(* ---- the primitives ------------------------------------------------------------------------------------ *)

Lemma checked_some fits z y : checked fits z = Some y -> y = z.
Proof. unfold checked. destruct (fits z); [intros H; now injection H | discriminate]. Qed.

Lemma neg16_some x y : neg16 x = Some y -> y = - x.
Proof. apply checked_some. Qed.
Lemma add16_some x y z : add16 x y = Some z -> z = x + y.
Proof. apply checked_some. Qed.
Lemma sub16_some x y z : sub16 x y = Some z -> z = x - y.
Proof. apply checked_some. Qed.
Lemma mul16_some x y z : mul16 x y = Some z -> z = x * y.
Proof. apply checked_some. Qed.
Lemma add8_some x y z : add8 x y = Some z -> z = x + y.
Proof. apply checked_some. Qed.
Lemma sub8_some x y z : sub8 x y = Some z -> z = x - y.
Proof. apply checked_some. Qed.

Lemma fits_i16_iff z : fits_i16 z = true <-> SCORE_MIN <= z <= SCORE_MAX.
Proof. unfold fits_i16. rewrite andb_true_iff, !Z.leb_le. tauto. Qed.

Lemma fits_u8_iff z : fits_u8 z = true <-> 0 <= z <= 255.
Proof. unfold fits_u8. rewrite andb_true_iff, !Z.leb_le. tauto. Qed.

Lemma fits_u32_iff z : fits_u32 z = true <-> 0 <= z <= 4294967295.
Proof. unfold fits_u32. rewrite andb_true_iff, !Z.leb_le. tauto. Qed.

Lemma checked_ok (fits : Z -> bool) z : fits z = true -> checked fits z = Some z.
Proof. unfold checked. now intros ->. Qed.

Lemma neg16_ok x : SCORE_MIN < x <= SCORE_MAX + 1 -> neg16 x = Some (- x).
Proof. intros H. apply checked_ok, fits_i16_iff. unfold SCORE_MIN, SCORE_MAX in *. lia. Qed.
Lemma add16_ok x y : SCORE_MIN <= x + y <= SCORE_MAX -> add16 x y = Some (x + y).
Proof. intros H. now apply checked_ok, fits_i16_iff. Qed.
Lemma sub16_ok x y : SCORE_MIN <= x - y <= SCORE_MAX -> sub16 x y = Some (x - y).
Proof. intros H. now apply checked_ok, fits_i16_iff. Qed.
Lemma mul16_ok x y : SCORE_MIN <= x * y <= SCORE_MAX -> mul16 x y = Some (x * y).
Proof. intros H. now apply checked_ok, fits_i16_iff. Qed.
Lemma add8_ok x y : 0 <= x + y <= 255 -> add8 x y = Some (x + y).
Proof. intros H. now apply checked_ok, fits_u8_iff. Qed.
Lemma sub8_ok x y : 0 <= x - y <= 255 -> sub8 x y = Some (x - y).
Proof. intros H. now apply checked_ok, fits_u8_iff. Qed.

(* the primitives are what the task describes: on an i16 argument negation fails exactly at i16::MIN *)
Lemma neg16_none_iff x : SCORE_MIN <= x <= SCORE_MAX -> (neg16 x = None <-> x = SCORE_MIN).
Proof.
  intros H. unfold neg16, checked. destruct (fits_i16 (- x)) eqn:E.
  - apply fits_i16_iff in E. split; [discriminate|]. unfold SCORE_MIN, SCORE_MAX in *. lia.
  - split; [intros _|reflexivity]. destruct (Z.eq_dec x SCORE_MIN) as [e|n]; [exact e|].
    assert (F : fits_i16 (- x) = true) by (apply fits_i16_iff; unfold SCORE_MIN, SCORE_MAX in *; lia).
    congruence.
Qed.

(* `remaining_depth - 1` in the node: the checked value is the structural predecessor used by nodeC *)
Lemma sub8_pred r : Z.of_nat (S (S r)) <= 255 -> sub8 (Z.of_nat (S (S r))) 1 = Some (Z.of_nat (S r)).
Proof. intros H. rewrite sub8_ok by lia. f_equal. lia. Qed.

(* ---- unfolding equations of the checked model ---------------------------------------------------------------- *)

Lemma qloopC_nil q g beta real alpha : qloopC q g beta real [] alpha = QDone alpha.
Proof. reflexivity. Qed.

Lemma qloopC_cons q g beta real m rest alpha :
  qloopC q g beta real (m :: rest) alpha =
    if negb (is_tactical m) then qloopC q g beta real rest alpha
    else
      match neg16 beta with
      | None => QOverflow 981
      | Some nb =>
        match neg16 alpha with
        | None => QOverflow 982
        | Some na =>
          match q (push g m) nb na (Z.min 255 (real + 1)) with
          | QDone s =>
              match neg16 s with
              | None => QOverflow 983
              | Some score =>
                  if beta <=? (if alpha <? score then score else alpha) then QDone beta
                  else qloopC q g beta real rest (if alpha <? score then score else alpha)
              end
          | QFuel => QFuel
          | QOverflow k => QOverflow k
          end
        end
      end.
Proof. reflexivity. Qed.

Lemma quiescenceC_0 g alpha beta real : quiescenceC 0 g alpha beta real = QFuel.
Proof. reflexivity. Qed.

Lemma quiescenceC_S f g alpha beta real :
  quiescenceC (S f) g alpha beta real =
    match mul16 (g_score g) (color_sign (g_player g)) with
    | None => QOverflow 691
    | Some current =>
        if beta <=? Z.max alpha current then QDone beta
        else match pseudo_moves g with
             | [] => no_move_scoreC 881 g MATE_OFFSET_QUIESCENCE real
             | _ :: _ => qloopC (quiescenceC f) g beta real (pseudo_moves g) (Z.max alpha current)
             end
    end.
Proof. cbn [quiescenceC]. destruct (mul16 _ _); [|reflexivity]. destruct (pseudo_moves g); reflexivity. Qed.

Lemma node_loopC_nil rec g real beta remaining index l :
  node_loopC rec g real beta remaining [] index l = CDone l.
Proof. reflexivity. Qed.

Lemma node_loopC_cons rec g real beta remaining m rest index l :
  node_loopC rec g real beta remaining (m :: rest) index l =
  match node_stepC rec g remaining real beta m index l with
  | CDone l' =>
      if beta <=? l_alpha l' then CDone (node_cutoffC real remaining l' m)
      else node_loopC rec g real beta remaining rest (index + 1) l'
  | CAborted sa => CAborted sa
  | COutOfFuel => COutOfFuel
  | COverflow k => COverflow k
  end.
Proof. reflexivity. Qed.

Definition node_deepC (r : nat) (g : game) (st : sstate) (real alpha beta : Z) : coutcome Z * sstate :=
  match checked_moves g with
  | [] => (liftC (no_move_scoreC 2161 g MATE_OFFSET_NODE real), st)
  | _ =>
      node_finishC g st real (Z.of_nat (S (S r))) alpha beta
        (node_loopC (nodeC (S r)) g real beta (Z.of_nat (S (S r))) (node_sorted g st real) 0
                    (mkL alpha None SCORE_MIN st))
  end.

(* the checked recount of a table entry agrees with the model's, and does not overflow on a table in range *)
Lemma entry_from_tableC_inl real o e :
  entry_from_tableC real o = inl e -> e = option_map (entry_from_table real) o.
Proof.
  unfold entry_from_tableC, entry_from_table, score_from_table. destruct o as [en|]; cbn [option_map].
  - destruct (SCORE_MAX - TABLE_MATE_MARGIN <? e_score en).
    + unfold sub16, checked. destruct (fits_i16 _); intros E; [injection E as <-; reflexivity | discriminate].
    + destruct (e_score en <? SCORE_MIN + TABLE_MATE_MARGIN).
      * unfold add16, checked. destruct (fits_i16 _); intros E; [injection E as <-; reflexivity | discriminate].
      * intros E. injection E as <-. reflexivity.
  - intros E. injection E as <-. reflexivity.
Qed.

Lemma entry_from_tableC_ok real o :
  (forall en, o = Some en -> ScoreRange2.InR (e_score en)) -> 0 <= real <= 255 ->
  entry_from_tableC real o = inl (option_map (entry_from_table real) o).
Proof.
  intros H Hr. destruct (entry_from_tableC real o) as [e|k] eqn:E.
  - f_equal. now apply entry_from_tableC_inl.
  - exfalso. unfold entry_from_tableC in E. destruct o as [en|]; [|discriminate].
    specialize (H en eq_refl). unfold TABLE_MATE_MARGIN in E.
    unfold ScoreRange2.InR, ScoreRange2.HI, ScoreRange2.LO, SCORE_MIN, SCORE_MAX, MATE_OFFSET_NODE in *.
    destruct (32767 - 1000 <? e_score en) eqn:E1.
    + apply Z.ltb_lt in E1. unfold sub16, checked, fits_i16, SCORE_MIN, SCORE_MAX in E.
      assert (F : ((-32768 <=? e_score en - real) && (e_score en - real <=? 32767)) = true)
        by (apply andb_true_iff; split; apply Z.leb_le; lia).
      rewrite F in E. discriminate.
    + destruct (e_score en <? -32768 + 1000) eqn:E2; [|discriminate].
      apply Z.ltb_lt in E2. unfold add16, checked, fits_i16, SCORE_MIN, SCORE_MAX in E.
      assert (F : ((-32768 <=? e_score en + real) && (e_score en + real <=? 32767)) = true)
        by (apply andb_true_iff; split; apply Z.leb_le; lia).
      rewrite F in E. discriminate.
Qed.

Definition node_bodyC (rem : nat) (g : game) (st : sstate) (real alpha beta : Z) : coutcome Z * sstate :=
  match entry_from_tableC real (tfind (s_tbl st) (g_hash g)) with
  | inr k => (COverflow k, st)
  | inl e =>
  match probe e (Z.of_nat rem) alpha beta with
  | Some s => (CDone s, st)
  | None =>
      match rem with
      | O => (liftC (quiescenceC QFUEL g alpha beta real), st)
      | S O => (liftC (depth1C g alpha beta real), st)
      | S (S r) =>
          match checked_moves g with
          | [] => (liftC (no_move_scoreC 2161 g MATE_OFFSET_NODE real), st)
          | moves =>
              node_finishC g st real (Z.of_nat (S (S r))) alpha beta
                (node_loopC (nodeC (S r)) g real beta (Z.of_nat (S (S r)))
                   (sort_moves (fun m => move_score m (entry_pv e) (znth (s_killers st) real None) (s_hist st)) moves) 0
                   (mkL alpha None SCORE_MIN st))
          end
      end
  end
  end.

Lemma nodeC_unfold rem g st real alpha beta :
  nodeC rem g st real alpha beta =
  if negb (s_running (poll st)) then (CAborted (poll st), poll st)
  else node_bodyC rem g (poll st) real alpha beta.
Proof.
  destruct rem as [|[|r]]; reflexivity.
Qed.

(* on an entry that was recounted without overflow the body is the one of the model's node *)
Lemma node_bodyC_inl rem g st real alpha beta :
  entry_from_tableC real (tfind (s_tbl st) (g_hash g)) = inl (node_entry g st real) ->
  node_bodyC rem g st real alpha beta =
  match probe (node_entry g st real) (Z.of_nat rem) alpha beta with
  | Some s => (CDone s, st)
  | None =>
      match rem with
      | O => (liftC (quiescenceC QFUEL g alpha beta real), st)
      | S O => (liftC (depth1C g alpha beta real), st)
      | S (S r) => node_deepC r g st real alpha beta
      end
  end.
Proof.
  intros E. unfold node_bodyC. rewrite E. destruct (probe _ _ _ _); [reflexivity|].
  destruct rem as [|[|r]]; try reflexivity.
  unfold node_deepC, node_sorted, node_sorted_of. destruct (checked_moves g); reflexivity.
Qed.

Lemma root_loopC_nil g depth index r : root_loopC g depth [] index r = CDone r.
Proof. reflexivity. Qed.

Lemma root_loopC_cons g depth m rest index r :
  root_loopC g depth (m :: rest) index r =
  match root_stepC g depth m index r with
  | CDone r' => root_loopC g depth rest (index + 1) r'
  | CAborted sa => CAborted sa
  | COutOfFuel => COutOfFuel
  | COverflow k => COverflow k
  end.
Proof. reflexivity. Qed.

Definition root_mainC (g : game) (st : sstate) (depth : nat) : coutcome (option Move * Z * bool) * sstate :=
  let st0 := root_clear st in
  match root_hit (tfind (s_tbl st0) (g_hash g)) depth with
  | Some en => (CDone (e_pv en, e_score en, false), st0)
  | None =>
      root_finishC g st0 depth
        (root_loopC g (Z.of_nat depth) (root_sorted g st0) 0 (mkR None (SCORE_MIN + 1) st0))
  end.

Lemma rootC_unfold g st depth :
  rootC g st depth =
  match checked_moves g with
  | [m] => (CDone (Some m, 0, true), st)
  | _ => root_mainC g st depth
  end.
Proof. reflexivity. Qed.

(* ================================================================================================================ *)
(* Part A: the checked model agrees with Model/Search.v                                                                *)
(* ================================================================================================================ *)

Definition simQ (c : qoutcome) (o : option Z) : Prop :=
  match c with
  | QDone s => o = Some s
  | QFuel => o = None
  | QOverflow _ => True
  end.

Definition simO {A : Type} (c : coutcome A) (o : outcome A) : Prop :=
  match c with
  | CDone a => o = Done a
  | CAborted sa => o = Aborted sa
  | COutOfFuel => o = OutOfFuel
  | COverflow _ => True
  end.

Definition simP {A : Type} (c : coutcome A * sstate) (o : outcome A * sstate) : Prop :=
  match c with
  | (CDone a, st) => o = (Done a, st)
  | (CAborted sa, st) => o = (Aborted sa, st)
  | (COutOfFuel, st) => o = (OutOfFuel, st)
  | (COverflow _, _) => True
  end.

(* destruct the next checked primitive of the goal; the failing branch is an overflow report *)
Ltac prim1 lem x :=
  let E := fresh "E" in let v := fresh "v" in
  destruct x as [v|] eqn:E; [apply lem in E; subst v; cbv beta iota | exact I].

Ltac prim :=
  match goal with
  | |- context [match neg16 ?x with _ => _ end] => prim1 neg16_some (neg16 x)
  | |- context [match add16 ?x ?y with _ => _ end] => prim1 add16_some (add16 x y)
  | |- context [match sub16 ?x ?y with _ => _ end] => prim1 sub16_some (sub16 x y)
  | |- context [match mul16 ?x ?y with _ => _ end] => prim1 mul16_some (mul16 x y)
  | |- context [match add8 ?x ?y with _ => _ end] => prim1 add8_some (add8 x y)
  | |- context [match sub8 ?x ?y with _ => _ end] => prim1 sub8_some (sub8 x y)
  end.

Lemma no_move_score_agrees site g off real :
  simQ (no_move_scoreC site g off real) (Some (no_move_score g off real)).
Proof.
  unfold no_move_scoreC, no_move_score.
  destruct (king_exists g (g_player g) && _); [reflexivity|].
  repeat prim. reflexivity.
Qed.

Lemma qloop_agrees qC q g beta real :
  (forall g' a b r, simQ (qC g' a b r) (q g' a b r)) ->
  forall ms alpha, simQ (qloopC qC g beta real ms alpha) (qloop q g beta real ms alpha).
Proof.
  intros Hq. induction ms as [|m rest IH]; intros alpha.
  - reflexivity.
  - rewrite qloopC_cons, qloop_cons. destruct (negb (is_tactical m)); [apply IH|].
    repeat prim.
    pose proof (Hq (push g m) (- beta) (- alpha) (Z.min 255 (real + 1))) as H.
    destruct (qC (push g m) (- beta) (- alpha) (Z.min 255 (real + 1))) as [s| |k]; cbn [simQ] in H.
    + rewrite H. prim.
      destruct (beta <=? (if alpha <? - s then - s else alpha)); [reflexivity | apply IH].
    + rewrite H. reflexivity.
    + exact I.
Qed.

Theorem quiescence_agrees : forall fuel g a b real,
  simQ (quiescenceC fuel g a b real) (quiescence fuel g a b real).
Proof.
  induction fuel as [|f IH]; intros g a b real; [reflexivity|].
  rewrite quiescenceC_S, quiescence_S. cbv zeta. prim.
  destruct (b <=? Z.max a (g_score g * color_sign (g_player g))); [reflexivity|].
  destruct (pseudo_moves g) as [|m0 ms0] eqn:Epm.
  - apply no_move_score_agrees.
  - rewrite <- Epm. apply qloop_agrees. exact IH.
Qed.

Lemma depth1_loop_agrees g beta real : forall ms alpha,
  simQ (depth1_loopC g ms alpha beta real) (depth1_loop g ms alpha beta real).
Proof.
  induction ms as [|m rest IH]; intros alpha; cbn [depth1_loopC depth1_loop]; [reflexivity|].
  repeat prim.
  pose proof (quiescence_agrees QFUEL (push g m) (- beta) (- alpha) (real + 1)) as H.
  destruct (quiescenceC QFUEL (push g m) (- beta) (- alpha) (real + 1)) as [s| |k]; cbn [simQ] in H.
  - rewrite H. prim. cbv zeta.
    destruct (beta <=? (if alpha <? - s then - s else alpha)); [reflexivity | apply IH].
  - rewrite H. reflexivity.
  - exact I.
Qed.

Theorem depth1_agrees g a b real : simQ (depth1C g a b real) (depth1 g a b real).
Proof.
  unfold depth1C, depth1. destruct (pseudo_moves g) as [|m0 ms0].
  - apply no_move_score_agrees.
  - apply depth1_loop_agrees.
Qed.

Lemma simQ_lift c o st : simQ c o -> simP (liftC c, st) (lift o, st).
Proof. destruct c; cbn [simQ liftC simP]; intros H; [subst; reflexivity | subst; reflexivity | exact I]. Qed.

Section NodeSim.
  Variable recC : nrecC.
  Variable rec : nrec.
  Hypothesis Hrec : forall g st r a b, simP (recC g st r a b) (rec g st r a b).

  Lemma node_step_agrees g remaining real beta m index l :
    simO (node_stepC recC g remaining real beta m index l) (node_step rec g real beta m index l).
  Proof.
    unfold node_stepC, node_step. cbv zeta.
    destruct (index <=? PVS_FULL_WINDOW_LAST_INDEX).
    - repeat prim.
      pose proof (Hrec (push g m) (l_st l) (real + 1) (- beta) (- l_alpha l)) as H.
      destruct (recC (push g m) (l_st l) (real + 1) (- beta) (- l_alpha l)) as [[s|sa| |k] st1];
        cbn [simP] in H; try rewrite H; try reflexivity.
      prim. destruct (l_bscore l <? - s); reflexivity.
    - repeat prim.
      pose proof (Hrec (push g m) (l_st l) (real + 1) (- l_alpha l - 1) (- l_alpha l)) as H.
      destruct (recC (push g m) (l_st l) (real + 1) (- l_alpha l - 1) (- l_alpha l)) as [[s|sa| |k] st1];
        cbn [simP] in H; try rewrite H; try reflexivity.
      prim. destruct (l_bscore l <? - s); [|reflexivity].
      repeat prim.
      pose proof (Hrec (push g m) st1 (real + 1) (- beta) (- - s)) as H2.
      destruct (recC (push g m) st1 (real + 1) (- beta) (- - s)) as [[s2|sa2| |k2] st2];
        cbn [simP] in H2; try rewrite H2; try reflexivity.
      prim. reflexivity.
  Qed.

  Lemma node_loop_agrees g real beta remaining : forall ms index l,
    simO (node_loopC recC g real beta remaining ms index l) (node_loop rec g real beta remaining ms index l).
  Proof.
    induction ms as [|m rest IH]; intros index l; [reflexivity|].
    rewrite node_loopC_cons, node_loop_cons.
    pose proof (node_step_agrees g remaining real beta m index l) as H.
    destruct (node_stepC recC g remaining real beta m index l) as [l'|sa| |k]; cbn [simO] in H;
      try rewrite H; try reflexivity.
    destruct (beta <=? l_alpha l'); [reflexivity | apply IH].
  Qed.
End NodeSim.

Lemma node_finish_agrees g st real remaining alpha beta c o :
  simO c o -> simP (node_finishC g st real remaining alpha beta c) (node_finish g st real remaining alpha beta o).
Proof.
  destruct c as [l|sa| |k]; cbn [simO]; intros H; try subst o; try reflexivity; try exact I.
Qed.

Theorem node_agrees : forall rem g st real a b,
  simP (nodeC rem g st real a b) (node rem g st real a b).
Proof.
  induction rem as [|rem IH]; intros g st real a b; rewrite nodeC_unfold, node_unfold;
    (destruct (negb (s_running (poll st))); [reflexivity|]);
    (destruct (entry_from_tableC real (tfind (s_tbl (poll st)) (g_hash g))) as [e|k] eqn:Ee;
     [|unfold node_bodyC; rewrite Ee; exact I]);
    (apply entry_from_tableC_inl in Ee as Ee'; fold (node_entry g (poll st) real) in Ee'; subst e);
    rewrite (node_bodyC_inl _ _ _ _ _ _ Ee); unfold node_body;
    (destruct (probe _ _ a b); [reflexivity|]).
  - apply simQ_lift, quiescence_agrees.
  - destruct rem as [|r].
    + apply simQ_lift, depth1_agrees.
    + rewrite node_deep_eq. unfold node_deepC. destruct (checked_moves g).
      * apply (simQ_lift _ (Some _)), no_move_score_agrees.
      * apply node_finish_agrees, node_loop_agrees. exact IH.
Qed.

Lemma root_step_agrees g depth m index r :
  simO (root_stepC g (Z.of_nat depth) m index r) (root_step g (pred depth) m index r).
Proof.
  unfold root_stepC, root_step. cbv zeta.
  assert (Ep : Z.to_nat (Z.of_nat depth - 1) = pred depth) by lia.
  destruct (index <=? ROOT_FULL_WINDOW_LAST_INDEX).
  - repeat prim. rewrite ?Ep.
    pose proof (node_agrees (pred depth) (push g m) (r_st r) 1 (SCORE_MIN + 1) (- r_bscore r)) as H.
    destruct (nodeC (pred depth) (push g m) (r_st r) 1 (SCORE_MIN + 1) (- r_bscore r)) as [[s|sa| |k] st1];
      cbn [simP] in H; try rewrite H; try reflexivity.
    prim. destruct (r_bscore r <? - s); reflexivity.
  - repeat prim. rewrite ?Ep.
    pose proof (node_agrees (pred depth) (push g m) (r_st r) 1 (- r_bscore r - 1) (- r_bscore r)) as H.
    destruct (nodeC (pred depth) (push g m) (r_st r) 1 (- r_bscore r - 1) (- r_bscore r)) as [[s|sa| |k] st1];
      cbn [simP] in H; try rewrite H; try reflexivity.
    prim. destruct (r_bscore r <? - s); [|reflexivity].
    repeat prim. rewrite ?Ep.
    pose proof (node_agrees (pred depth) (push g m) st1 1 (SCORE_MIN + 1) (- - s)) as H2.
    destruct (nodeC (pred depth) (push g m) st1 1 (SCORE_MIN + 1) (- - s)) as [[s2|sa2| |k2] st2];
      cbn [simP] in H2; try rewrite H2; try reflexivity.
    prim. reflexivity.
Qed.

Lemma root_loop_agrees g depth : forall ms index r,
  simO (root_loopC g (Z.of_nat depth) ms index r) (root_loop g (pred depth) ms index r).
Proof.
  induction ms as [|m rest IH]; intros index r; [reflexivity|].
  rewrite root_loopC_cons, root_loop_cons.
  pose proof (root_step_agrees g depth m index r) as H.
  destruct (root_stepC g (Z.of_nat depth) m index r) as [r'|sa| |k]; cbn [simO] in H;
    try rewrite H; try reflexivity.
  apply IH.
Qed.

Lemma root_finish_agrees g st depth c o :
  simO c o -> simP (root_finishC g st depth c) (root_finish g st depth o).
Proof.
  destruct c as [r|sa| |k]; cbn [simO]; intros H; try subst o; try reflexivity; try exact I.
Qed.

Theorem root_agrees g st depth : simP (rootC g st depth) (root g st depth).
Proof.
  rewrite rootC_unfold, root_unfold.
  assert (Hmain : simP (root_mainC g st depth) (root_main g st depth)).
  { unfold root_mainC, root_main. cbv zeta.
    destruct (root_hit _ depth); [reflexivity|].
    apply root_finish_agrees, root_loop_agrees. }
  destruct (checked_moves g) as [|m [|m' t]]; [exact Hmain | reflexivity | exact Hmain].
Qed.

Lemma exit_constants :
  sub16 SCORE_MAX EXIT_BAND_HIGH = Some (SCORE_MAX - EXIT_BAND_HIGH) /\
  add16 SCORE_MIN EXIT_BAND_LOW = Some (SCORE_MIN + EXIT_BAND_LOW).
Proof. split; reflexivity. Qed.

Lemma driver_loop_agrees g md : forall n st depth found lines,
  snd (driver_loopC n g st depth md found lines) = None ->
  fst (driver_loopC n g st depth md found lines) = driver_loop n g st depth md found lines.
Proof.
  induction n as [|n IH]; intros st depth found lines; cbn [driver_loopC driver_loop]; [reflexivity|].
  destruct (255 <? depth); [reflexivity|].
  pose proof (root_agrees g st (Z.to_nat depth)) as H.
  destruct (rootC g st (Z.to_nat depth)) as [[[[best score] only]|sa| |k] st1]; cbn [simP] in H;
    try rewrite H; try reflexivity; [|cbn [snd]; discriminate].
  destruct exit_constants as [-> ->].
  match goal with |- context [if ?c then _ else _] => destruct c end; [reflexivity | apply IH].
Qed.

Theorem driver_agrees g t limit stop_at tableless :
  snd (driverC g t limit stop_at tableless) = None ->
  fst (driverC g t limit stop_at tableless) = driver g t limit stop_at tableless.
Proof. apply driver_loop_agrees. Qed.

(* the simulation, in one statement: a result of the checked model that is not an overflow report is
   the result (value AND state) of Model/Search.v *)
Theorem checked_agrees :
  (forall fuel g a b real s, quiescenceC fuel g a b real = QDone s -> quiescence fuel g a b real = Some s) /\
  (forall g a b real s, depth1C g a b real = QDone s -> depth1 g a b real = Some s) /\
  (forall rem g st real a b s st',
     nodeC rem g st real a b = (CDone s, st') -> node rem g st real a b = (Done s, st')) /\
  (forall rem g st real a b sa st',
     nodeC rem g st real a b = (CAborted sa, st') -> node rem g st real a b = (Aborted sa, st')) /\
  (forall g st depth x st',
     rootC g st depth = (CDone x, st') -> root g st depth = (Done x, st')) /\
  (forall g st depth sa st',
     rootC g st depth = (CAborted sa, st') -> root g st depth = (Aborted sa, st')) /\
  (forall g t limit stop_at tableless,
     snd (driverC g t limit stop_at tableless) = None ->
     fst (driverC g t limit stop_at tableless) = driver g t limit stop_at tableless).
Proof.
  repeat split.
  - intros fuel g a b real s E. pose proof (quiescence_agrees fuel g a b real) as H. now rewrite E in H.
  - intros g a b real s E. pose proof (depth1_agrees g a b real) as H. now rewrite E in H.
  - intros rem g st real a b s st' E. pose proof (node_agrees rem g st real a b) as H. now rewrite E in H.
  - intros rem g st real a b sa st' E. pose proof (node_agrees rem g st real a b) as H. now rewrite E in H.
  - intros g st depth x st' E. pose proof (root_agrees g st depth) as H. now rewrite E in H.
  - intros g st depth sa st' E. pose proof (root_agrees g st depth) as H. now rewrite E in H.
  - apply driver_agrees.
Qed.


(* ================================================================================================================ *)
(* Part B: no site is ever reported                                                                                    *)
(* ================================================================================================================ *)

Definition noQ (c : qoutcome) : Prop := match c with QOverflow _ => False | _ => True end.
Definition noC {A : Type} (c : coutcome A) : Prop := match c with COverflow _ => False | _ => True end.

(* windows the engine opens: sane (ScoreRange2.Win), representable, and alpha above i16::MIN *)
Definition Win16 (a b : Z) : Prop := SCORE_MIN < a <= HI /\ LO <= b <= SCORE_MAX.

Ltac rng16 :=
  unfold Win16, InR, Win, HI, LO, SCORE_MIN, SCORE_MAX, MATE_OFFSET_NODE, MATE_OFFSET_DEPTH1,
    MATE_OFFSET_QUIESCENCE, BOUND in *; lia.

Lemma Win16_Win a b : Win16 a b -> Win a b.
Proof. intros H. rng16. Qed.

Lemma no_move_scoreC_ok site g off real :
  MATE_OFFSET_NODE <= off <= MATE_OFFSET_QUIESCENCE -> 0 <= real <= 255 ->
  no_move_scoreC site g off real = QDone (no_move_score g off real).
Proof.
  intros Ho Hr. unfold no_move_scoreC, no_move_score.
  destruct (king_exists g (g_player g) && _); [reflexivity|].
  rewrite add16_ok by rng16. rewrite add16_ok by rng16. reflexivity.
Qed.

(* ---- quiescence ------------------------------------------------------------------------------------------------ *)

Lemma qloopC_ok (qC : game -> Z -> Z -> Z -> qoutcome) (q : game -> Z -> Z -> Z -> option Z) g b real :
  LO <= b <= SCORE_MAX -> 0 <= real <= 255 ->
  (forall g' a' b' r, simQ (qC g' a' b' r) (q g' a' b' r)) ->
  (forall m a' b' r s, In m (pseudo_moves g) -> Win a' b' -> 0 <= r <= 256 ->
                       q (push g m) a' b' r = Some s -> InR s) ->
  (forall m a' b' r, In m (pseudo_moves g) -> a' <= HI -> LO <= b' <= SCORE_MAX -> 0 <= r <= 255 ->
                     noQ (qC (push g m) a' b' r)) ->
  forall ms alpha, incl ms (pseudo_moves g) -> InR alpha -> noQ (qloopC qC g b real ms alpha).
Proof.
  intros Hb Hr Hsim Hrange Hno. induction ms as [|m rest IH]; intros alpha Hincl Ha; [exact I|].
  rewrite qloopC_cons.
  assert (Hrest : incl rest (pseudo_moves g)) by (intros x Hx; apply Hincl; now right).
  assert (Hm : In m (pseudo_moves g)) by (apply Hincl; now left).
  destruct (negb (is_tactical m)); [now apply IH|].
  rewrite (neg16_ok b) by rng16. rewrite (neg16_ok alpha) by rng16.
  pose proof (Hno m (- b) (- alpha) (Z.min 255 (real + 1)) Hm ltac:(rng16) ltac:(rng16) ltac:(lia)) as Hn.
  pose proof (Hsim (push g m) (- b) (- alpha) (Z.min 255 (real + 1))) as Hs.
  destruct (qC (push g m) (- b) (- alpha) (Z.min 255 (real + 1))) as [s| |k]; cbn [simQ noQ] in *;
    [|exact I|exact Hn].
  assert (H1 : InR s).
  { apply (Hrange m (- b) (- alpha) (Z.min 255 (real + 1)) s Hm); [rng16 | lia | exact Hs]. }
  rewrite (neg16_ok s) by rng16.
  destruct (b <=? (if alpha <? - s then - s else alpha)); [exact I|].
  apply IH; [exact Hrest|]. destruct (alpha <? - s); rng16.
Qed.

Theorem no_overflow_quiescence : forall fuel g a b real,
  GB g -> a <= HI -> LO <= b <= SCORE_MAX -> 0 <= real <= 255 ->
  noQ (quiescenceC fuel g a b real).
Proof.
  induction fuel as [|f IH]; intros g a b real Hg Ha Hb Hr; [exact I|].
  rewrite quiescenceC_S.
  pose proof (GB_standpat g Hg) as Hsp.
  rewrite mul16_ok by rng16.
  set (cur := g_score g * color_sign (g_player g)) in *.
  destruct (b <=? Z.max a cur); [exact I|].
  destruct (pseudo_moves g) as [|m0 ms0] eqn:Epm.
  - rewrite no_move_scoreC_ok by (unfold MATE_OFFSET_NODE, MATE_OFFSET_QUIESCENCE; lia). exact I.
  - rewrite <- Epm.
    apply (qloopC_ok (quiescenceC f) (quiescence f) g b real Hb Hr).
    + apply quiescence_agrees.
    + intros m a' b' r s Hin Hw Hr' E. apply (quiescence_range f (push g m) a' b' r s); try assumption.
      now apply GB_push_pseudo.
    + intros m a' b' r Hin Ha' Hb' Hr'. apply IH; try assumption. now apply GB_push_pseudo.
    + apply incl_refl.
    + rng16.
Qed.

(* ---- depth 1 ------------------------------------------------------------------------------------------------------ *)

Lemma depth1_loopC_ok g b real :
  GB g -> LO <= b <= SCORE_MAX -> 0 <= real <= 254 ->
  forall ms a, incl ms (pseudo_moves g) -> SCORE_MIN < a <= HI -> noQ (depth1_loopC g ms a b real).
Proof.
  intros Hg Hb Hr. induction ms as [|m rest IH]; intros a Hincl Ha; cbn [depth1_loopC]; [exact I|].
  assert (Hrest : incl rest (pseudo_moves g)) by (intros x Hx; apply Hincl; now right).
  assert (Hg1 : GB (push g m)) by (apply GB_push_pseudo; [exact Hg | apply Hincl; now left]).
  rewrite (neg16_ok b) by rng16. rewrite (neg16_ok a) by rng16. rewrite add8_ok by lia.
  pose proof (no_overflow_quiescence QFUEL (push g m) (- b) (- a) (real + 1) Hg1
                ltac:(rng16) ltac:(rng16) ltac:(lia)) as Hn.
  pose proof (quiescence_agrees QFUEL (push g m) (- b) (- a) (real + 1)) as Hs.
  destruct (quiescenceC QFUEL (push g m) (- b) (- a) (real + 1)) as [s| |k]; cbn [simQ noQ] in *;
    [|exact I|exact Hn].
  assert (H1 : InR s).
  { apply (quiescence_range QFUEL (push g m) (- b) (- a) (real + 1) s Hg1); [rng16 | lia | exact Hs]. }
  rewrite (neg16_ok s) by rng16. cbv zeta.
  destruct (b <=? (if a <? - s then - s else a)); [exact I|].
  apply IH; [exact Hrest|]. destruct (a <? - s); rng16.
Qed.

Theorem no_overflow_depth1 g a b real :
  GB g -> Win16 a b -> 0 <= real <= 254 -> noQ (depth1C g a b real).
Proof.
  intros Hg [Ha Hb] Hr. unfold depth1C. destruct (pseudo_moves g) as [|m0 ms0] eqn:Epm.
  - rewrite no_move_scoreC_ok by (unfold MATE_OFFSET_NODE, MATE_OFFSET_DEPTH1, MATE_OFFSET_QUIESCENCE; lia).
    exact I.
  - rewrite <- Epm. apply depth1_loopC_ok; try assumption. apply incl_refl.
Qed.

(* ---- the node ------------------------------------------------------------------------------------------------------ *)

(* what a call of the checked node function delivers *)
Definition child_res (r : coutcome Z * sstate) : Prop :=
  match r with
  | (CDone s, st1) => InR s /\ RT st1
  | (COverflow _, _) => False
  | _ => True
  end.

Lemma noC_liftC c : noQ c -> noC (liftC c).
Proof. destruct c; exact (fun H => H). Qed.

Lemma noC_node_finish g st real remaining alpha beta c :
  noC c -> noC (fst (node_finishC g st real remaining alpha beta c)).
Proof. destruct c; exact (fun H => H). Qed.

Lemma noC_root_finish g st depth c : noC c -> noC (fst (root_finishC g st depth c)).
Proof. destruct c; exact (fun H => H). Qed.

Section NodeLoopC.
  Variable recC : nrecC.
  Variable rec : nrec.
  Variable g : game.
  Variables real beta remaining : Z.
  Hypothesis Hbeta : LO <= beta <= SCORE_MAX.
  Hypothesis Hreal : 0 <= real <= 254.
  Hypothesis Hrem : 1 <= remaining <= 255.
  Hypothesis Hsim : forall g' st r a b, simP (recC g' st r a b) (rec g' st r a b).
  Hypothesis rec_ok : forall m st a b,
    In m (checked_moves g) -> RT st -> Win a b -> node_res (rec (push g m) st (real + 1) a b).
  Hypothesis recC_ok : forall m st a b,
    In m (checked_moves g) -> RT st -> Win16 a b -> noC (fst (recC (push g m) st (real + 1) a b)).

  Lemma child_ok m st a b :
    In m (checked_moves g) -> RT st -> Win16 a b -> child_res (recC (push g m) st (real + 1) a b).
  Proof.
    intros Hm HT Hw.
    pose proof (recC_ok m st a b Hm HT Hw) as Hn.
    pose proof (Hsim (push g m) st (real + 1) a b) as Hs.
    pose proof (rec_ok m st a b Hm HT (Win16_Win a b Hw)) as Hr.
    destruct (recC (push g m) st (real + 1) a b) as [[s|sa| |k] st1]; cbn [simP fst noC child_res] in *;
      try exact I; [|exact Hn].
    rewrite Hs in Hr. exact Hr.
  Qed.

  Lemma node_stepC_ok m index l :
    In m (checked_moves g) -> (index = 0 /\ LPre l /\ SCORE_MIN < l_alpha l) \/ LPost l ->
    noC (node_stepC recC g remaining real beta m index l).
  Proof.
    intros Hm H. unfold node_stepC. cbv zeta.
    assert (Hfull : RT (l_st l) -> SCORE_MIN < l_alpha l <= HI ->
              noC (match sub8 remaining 1 with
                   | Some _ =>
                     match add8 real 1 with
                     | Some r1 =>
                       match neg16 beta with
                       | Some nb =>
                         match neg16 (l_alpha l) with
                         | Some na =>
                           match recC (push g m) (l_st l) r1 nb na with
                           | (CDone s, st1) =>
                               match neg16 s with
                               | Some score =>
                                   let '(bm, bs) := if l_bscore l <? score then (Some m, score)
                                                    else (l_best l, l_bscore l) in
                                   CDone (mkL (Z.max (l_alpha l) score) bm bs st1)
                               | None => COverflow 2301
                               end
                           | (CAborted sa, _) => CAborted sa
                           | (COutOfFuel, _) => COutOfFuel
                           | (COverflow k, _) => COverflow k
                           end
                         | None => COverflow 2371
                         end
                       | None => COverflow 2361
                       end
                     | None => COverflow 2351
                     end
                   | None => COverflow 2341
                   end)).
    { intros HT Ha.
      rewrite sub8_ok by lia. rewrite add8_ok by lia.
      rewrite (neg16_ok beta) by rng16. rewrite (neg16_ok (l_alpha l)) by rng16.
      pose proof (child_ok m (l_st l) (- beta) (- l_alpha l) Hm HT ltac:(rng16)) as Hc.
      destruct (recC (push g m) (l_st l) (real + 1) (- beta) (- l_alpha l)) as [[s|sa| |k] st1];
        cbn [child_res] in Hc; try exact I; [|exact Hc].
      destruct Hc as [Hr HT1]. rewrite (neg16_ok s) by rng16.
      destruct (l_bscore l <? - s); exact I. }
    destruct H as [(-> & (HT & Ha & Hs) & Hlo) | (HT & Ha & Hs & Hbm)].
    - change (0 <=? PVS_FULL_WINDOW_LAST_INDEX) with true. cbv iota. apply Hfull; [exact HT | lia].
    - destruct (index <=? PVS_FULL_WINDOW_LAST_INDEX); [apply Hfull; [exact HT | rng16]|].
      rewrite sub8_ok by lia. rewrite add8_ok by lia.
      rewrite (neg16_ok (l_alpha l)) by rng16. rewrite sub16_ok by rng16.
      pose proof (child_ok m (l_st l) (- l_alpha l - 1) (- l_alpha l) Hm HT ltac:(rng16)) as Hc.
      destruct (recC (push g m) (l_st l) (real + 1) (- l_alpha l - 1) (- l_alpha l)) as [[s|sa| |k] st1];
        cbn [child_res] in Hc; try exact I; [|exact Hc].
      destruct Hc as [Hr HT1]. rewrite (neg16_ok s) by rng16.
      destruct (l_bscore l <? - s); [|exact I].
      rewrite (neg16_ok beta) by rng16. rewrite (neg16_ok (- s)) by rng16.
      pose proof (child_ok m st1 (- beta) (- - s) Hm HT1 ltac:(rng16)) as Hc2.
      destruct (recC (push g m) st1 (real + 1) (- beta) (- - s)) as [[s2|sa2| |k2] st2];
        cbn [child_res] in Hc2; try exact I; [|exact Hc2].
      destruct Hc2 as [Hr2 HT2]. rewrite (neg16_ok s2) by rng16. exact I.
  Qed.

  Lemma node_loopC_ok : forall ms index l,
    incl ms (checked_moves g) ->
    (index = 0 /\ LPre l /\ SCORE_MIN < l_alpha l) \/ LPost l ->
    noC (node_loopC recC g real beta remaining ms index l).
  Proof.
    induction ms as [|m rest IH]; intros index l Hincl H; [exact I|].
    rewrite node_loopC_cons.
    assert (Hm : In m (checked_moves g)) by (apply Hincl; now left).
    pose proof (node_stepC_ok m index l Hm H) as Hn.
    pose proof (node_step_agrees recC rec Hsim g remaining real beta m index l) as Hs.
    assert (Hstep : lres (node_step rec g real beta m index l)).
    { apply (node_step_range rec g real beta (proj1 Hbeta) rec_ok m index l Hm).
      destruct H as [(H1 & H2 & _)|H]; [left; now split | now right]. }
    destruct (node_stepC recC g remaining real beta m index l) as [l'|sa| |k]; cbn [simO noC] in *;
      try exact I; [|exact Hn].
    rewrite Hs in Hstep. cbn [lres] in Hstep.
    destruct (beta <=? l_alpha l'); [exact I|].
    apply IH; [intros x Hx; apply Hincl; now right | now right].
  Qed.
End NodeLoopC.

Theorem no_overflow_node : forall rem g st real a b,
  ArgsOK rem real -> GB g -> RT st -> Win16 a b -> noC (fst (nodeC rem g st real a b)).
Proof.
  induction rem as [|rem IH]; intros g st real a b HA Hg HT Hw; rewrite nodeC_unfold;
    pose proof (RT_poll st HT) as HTp;
    (destruct (s_running (poll st)); cbn [negb]; [|exact I]);
    pose proof (ArgsOK_range _ _ HA) as HAr;
    (assert (Ee : entry_from_tableC real (tfind (s_tbl (poll st)) (g_hash g)) = inl (node_entry g (poll st) real))
       by (apply entry_from_tableC_ok; [intros en Hf; exact (proj1 (HTp _ _ Hf)) | lia]));
    rewrite (node_bodyC_inl _ _ _ _ _ _ Ee);
    (destruct (probe (node_entry g (poll st) real) _ a b) as [sp|]; [exact I|]);
    destruct HA as [HA1 HA2]; destruct Hw as [Ha Hb]; cbn [fst].
  - apply noC_liftC. apply no_overflow_quiescence; try assumption; lia.
  - destruct rem as [|r].
    + apply noC_liftC. apply no_overflow_depth1; [assumption | split; assumption | lia].
    + unfold node_deepC. destruct (checked_moves g) as [|m0 ms0] eqn:Ecm.
      * cbn [fst]. rewrite no_move_scoreC_ok by (unfold MATE_OFFSET_NODE, MATE_OFFSET_QUIESCENCE; lia). exact I.
      * apply noC_node_finish.
        apply (node_loopC_ok (nodeC (S r)) (node (S r)) g real b (Z.of_nat (S (S r)))); try lia.
        -- apply node_agrees.
        -- intros m st' a' b' Hm HT' Hw'. apply node_range; try assumption.
           ++ split; lia.
           ++ now apply GB_push_checked.
        -- intros m st' a' b' Hm HT' Hw'. apply IH; try assumption.
           ++ split; lia.
           ++ now apply GB_push_checked.
        -- intros x Hx. unfold node_sorted, node_sorted_of in Hx. apply sort_moves_in in Hx. exact Hx.
        -- left. split; [reflexivity|]. split; [|cbn [l_alpha]; lia].
           unfold LPre. cbn [l_st l_alpha l_bscore]. split; [exact HTp|]. split; [lia | reflexivity].
Qed.

(* a completed call: in range, table invariant kept, never an overflow *)
Lemma node_child_ok rem g st real a b :
  ArgsOK rem real -> GB g -> RT st -> Win16 a b -> child_res (nodeC rem g st real a b).
Proof.
  intros HA Hg HT Hw.
  pose proof (no_overflow_node rem g st real a b HA Hg HT Hw) as Hn.
  pose proof (node_agrees rem g st real a b) as Hs.
  pose proof (node_range rem g st real a b HA Hg HT (Win16_Win a b Hw)) as Hr.
  destruct (nodeC rem g st real a b) as [[s|sa| |k] st1]; cbn [simP fst noC child_res] in *;
    try exact I; [|exact Hn].
  rewrite Hs in Hr. exact Hr.
Qed.

(* ---- the root ---------------------------------------------------------------------------------------------------------- *)

Lemma root_stepC_ok g depth m index r :
  GB g -> 1 <= Z.of_nat depth <= 255 -> In m (checked_moves g) -> (index = 0 /\ RPre r) \/ RPost r ->
  noC (root_stepC g (Z.of_nat depth) m index r).
Proof.
  intros Hg Hd Hm H. unfold root_stepC. cbv zeta.
  pose proof (GB_push_checked g m Hg Hm) as Hg1.
  assert (HA : ArgsOK (Z.to_nat (Z.of_nat depth - 1)) 1) by (split; lia).
  assert (Hfull : RT (r_st r) -> SCORE_MIN < r_bscore r <= HI ->
            noC (match sub8 (Z.of_nat depth) 1 with
                 | Some d1 =>
                   match add16 SCORE_MIN 1 with
                   | Some lo =>
                     match neg16 (r_bscore r) with
                     | Some nb =>
                       match nodeC (Z.to_nat d1) (push g m) (r_st r) 1 lo nb with
                       | (CDone s, st1) =>
                           match neg16 s with
                           | Some score =>
                               if r_bscore r <? score then CDone (mkR (Some m) score st1)
                               else CDone (mkR (r_best r) (r_bscore r) st1)
                           | None => COverflow 3731
                           end
                       | (CAborted sa, _) => CAborted sa
                       | (COutOfFuel, _) => COutOfFuel
                       | (COverflow k, _) => COverflow k
                       end
                     | None => COverflow 3801
                     end
                   | None => COverflow 3791
                   end
                 | None => COverflow 3771
                 end)).
  { intros HT Hs.
    rewrite sub8_ok by lia. rewrite add16_ok by rng16. rewrite (neg16_ok (r_bscore r)) by rng16.
    pose proof (node_child_ok _ (push g m) (r_st r) 1 (SCORE_MIN + 1) (- r_bscore r) HA Hg1 HT ltac:(rng16)) as Hc.
    destruct (nodeC _ (push g m) (r_st r) 1 (SCORE_MIN + 1) (- r_bscore r)) as [[s|sa| |k] st1];
      cbn [child_res] in Hc; try exact I; [|exact Hc].
    destruct Hc as [Hr HT1]. rewrite (neg16_ok s) by rng16.
    destruct (r_bscore r <? - s); exact I. }
  destruct H as [[-> (HT & Hs)] | (HT & Hs & Hbm)].
  - change (0 <=? ROOT_FULL_WINDOW_LAST_INDEX) with true. cbv iota. apply Hfull; [exact HT | rewrite Hs; rng16].
  - destruct (index <=? ROOT_FULL_WINDOW_LAST_INDEX); [apply Hfull; [exact HT | rng16]|].
    rewrite sub8_ok by lia. rewrite (neg16_ok (r_bscore r)) by rng16. rewrite sub16_ok by rng16.
    pose proof (node_child_ok _ (push g m) (r_st r) 1 (- r_bscore r - 1) (- r_bscore r) HA Hg1 HT ltac:(rng16)) as Hc.
    destruct (nodeC _ (push g m) (r_st r) 1 (- r_bscore r - 1) (- r_bscore r)) as [[s|sa| |k] st1];
      cbn [child_res] in Hc; try exact I; [|exact Hc].
    destruct Hc as [Hr HT1]. rewrite (neg16_ok s) by rng16.
    destruct (r_bscore r <? - s); [|exact I].
    rewrite add16_ok by rng16. rewrite (neg16_ok (- s)) by rng16.
    pose proof (node_child_ok _ (push g m) st1 1 (SCORE_MIN + 1) (- - s) HA Hg1 HT1 ltac:(rng16)) as Hc2.
    destruct (nodeC _ (push g m) st1 1 (SCORE_MIN + 1) (- - s)) as [[s2|sa2| |k2] st2];
      cbn [child_res] in Hc2; try exact I; [|exact Hc2].
    destruct Hc2 as [Hr2 HT2]. rewrite (neg16_ok s2) by rng16. exact I.
Qed.

Lemma root_loopC_ok g depth :
  GB g -> 1 <= Z.of_nat depth <= 255 ->
  forall ms index r, incl ms (checked_moves g) -> (index = 0 /\ RPre r) \/ RPost r ->
    noC (root_loopC g (Z.of_nat depth) ms index r).
Proof.
  intros Hg Hd. induction ms as [|m rest IH]; intros index r Hincl H; [exact I|].
  rewrite root_loopC_cons.
  assert (Hm : In m (checked_moves g)) by (apply Hincl; now left).
  pose proof (root_stepC_ok g depth m index r Hg Hd Hm H) as Hn.
  pose proof (root_step_agrees g depth m index r) as Hs.
  pose proof (root_step_range g (pred depth) m index r Hg (ArgsOK_root_nat depth (proj2 Hd)) Hm H) as Hstep.
  destruct (root_stepC g (Z.of_nat depth) m index r) as [r'|sa| |k]; cbn [simO noC] in *;
    try exact I; [|exact Hn].
  rewrite Hs in Hstep. cbn [rres] in Hstep.
  apply IH; [intros x Hx; apply Hincl; now right | now right].
Qed.

Theorem no_overflow_root g st depth :
  1 <= Z.of_nat depth <= 255 -> GB g -> RT st -> noC (fst (rootC g st depth)).
Proof.
  intros Hd Hg HT. rewrite rootC_unfold.
  assert (Hmain : noC (fst (root_mainC g st depth))).
  { unfold root_mainC. cbv zeta.
    destruct (root_hit (tfind (s_tbl (root_clear st)) (g_hash g)) depth); [exact I|].
    apply noC_root_finish. apply root_loopC_ok; try assumption.
    - apply root_sorted_incl'.
    - left. split; [reflexivity|]. split; [exact HT | reflexivity]. }
  destruct (checked_moves g) as [|m [|m' t]]; [exact Hmain | exact I | exact Hmain].
Qed.

(* the root at any depth (0 included) when the table holds an exact entry of at least that depth: no
   child is searched, `depth - 1` is not evaluated *)
Lemma no_overflow_root_hit g st depth :
  root_hit (tfind (s_tbl st) (g_hash g)) depth <> None -> noC (fst (rootC g st depth)).
Proof.
  intros Hh. rewrite rootC_unfold.
  assert (Hmain : noC (fst (root_mainC g st depth))).
  { unfold root_mainC. cbv zeta. change (s_tbl (root_clear st)) with (s_tbl st).
    destruct (root_hit (tfind (s_tbl st) (g_hash g)) depth); [exact I | congruence]. }
  destruct (checked_moves g) as [|m [|m' t]]; [exact Hmain | exact I | exact Hmain].
Qed.

(* ---- the driver ---------------------------------------------------------------------------------------------------------- *)

Lemma driver_loopC_ok g :
  GB g ->
  forall n st depth md found lines,
    RT st -> 0 <= depth ->
    (depth = 0 -> root_hit (tfind (s_tbl st) (g_hash g)) 0 <> None) ->
    snd (driver_loopC n g st depth md found lines) = None.
Proof.
  intros Hg. induction n as [|n IH]; intros st depth md found lines HT Hd H0; cbn [driver_loopC]; [reflexivity|].
  destruct (255 <? depth) eqn:Ed; [reflexivity|]. apply Z.ltb_ge in Ed.
  assert (Hn : noC (fst (rootC g st (Z.to_nat depth)))).
  { destruct (Z.eq_dec depth 0) as [->|Hne].
    - apply no_overflow_root_hit. exact (H0 eq_refl).
    - apply no_overflow_root; try assumption. lia. }
  pose proof (root_agrees g st (Z.to_nat depth)) as Hs.
  pose proof (root_range g st (Z.to_nat depth) ltac:(lia) Hg HT) as HR.
  destruct (rootC g st (Z.to_nat depth)) as [[[[best score] only]|sa| |k] st1]; cbn [simP fst noC] in *;
    try reflexivity; [|destruct Hn].
  rewrite Hs in HR. cbn [root_res] in HR. destruct HR as [HT1 _].
  destruct exit_constants as [-> ->].
  match goal with |- context [if ?c then _ else _] => destruct c end; [reflexivity|].
  apply IH; [exact HT1 | lia | intros; lia].
Qed.

Theorem no_overflow_driver g t limit stop_at tableless :
  GB g -> RangeTable t -> snd (driverC g t limit stop_at tableless) = None.
Proof.
  intros Hg Ht. unfold driverC. apply driver_loopC_ok; try assumption.
  - apply RangeTable_starting_depth. exact Ht.
  - (* a starting depth of 0 can only come from a cached exact entry of depth 0: the root returns it *)
    unfold starting_depth, fresh_state. cbn [s_tbl]. intros E.
    destruct (tfind t (g_hash g)) as [en|]; [|discriminate].
    unfold root_hit. destruct (e_flag en); try discriminate. rewrite E. discriminate.
Qed.

(* hence: the checked (i16/u8) computation and the integer model are the same function on these inputs *)
Corollary driver_checked_equals g t limit stop_at tableless :
  GB g -> RangeTable t ->
  driverC g t limit stop_at tableless = (driver g t limit stop_at tableless, None).
Proof.
  intros Hg Ht. pose proof (no_overflow_driver g t limit stop_at tableless Hg Ht) as H.
  pose proof (driver_agrees g t limit stop_at tableless H) as H2.
  destruct (driverC g t limit stop_at tableless) as [d o]. cbn [fst snd] in *. now subst.
Qed.

(* over the session closure of ScoreRange2 (tables produced from the empty table by searches of games of
   bounded material) *)
Corollary session_no_overflow g t limit stop_at tableless :
  session_table t -> GB g -> driverC g t limit stop_at tableless = (driver g t limit stop_at tableless, None).
Proof. intros Ht Hg. apply driver_checked_equals; [exact Hg | now apply session_table_range]. Qed.

(* an executable instance of [driver_checked_equals]: two iterations from the initial position *)
Example start_depth2_no_overflow : snd (driverC START tempty (Some 2) (-1) false) = None.
Proof. vm_compute. reflexivity. Qed.

(* the same for the three inner functions *)
Corollary quiescence_checked_equals fuel g a b real s :
  GB g -> a <= HI -> LO <= b <= SCORE_MAX -> 0 <= real <= 255 ->
  quiescence fuel g a b real = Some s -> quiescenceC fuel g a b real = QDone s.
Proof.
  intros Hg Ha Hb Hr E.
  pose proof (no_overflow_quiescence fuel g a b real Hg Ha Hb Hr) as Hn.
  pose proof (quiescence_agrees fuel g a b real) as Hs.
  destruct (quiescenceC fuel g a b real); cbn [simQ noQ] in *; [congruence | congruence | destruct Hn].
Qed.

Corollary depth1_checked_equals g a b real s :
  GB g -> Win16 a b -> 0 <= real <= 254 ->
  depth1 g a b real = Some s -> depth1C g a b real = QDone s.
Proof.
  intros Hg Hw Hr E.
  pose proof (no_overflow_depth1 g a b real Hg Hw Hr) as Hn.
  pose proof (depth1_agrees g a b real) as Hs.
  destruct (depth1C g a b real); cbn [simQ noQ] in *; [congruence | congruence | destruct Hn].
Qed.

Corollary node_checked_equals rem g st real a b s st' :
  ArgsOK rem real -> GB g -> RT st -> Win16 a b ->
  node rem g st real a b = (Done s, st') -> nodeC rem g st real a b = (CDone s, st').
Proof.
  intros HA Hg HT Hw E.
  pose proof (no_overflow_node rem g st real a b HA Hg HT Hw) as Hn.
  pose proof (node_agrees rem g st real a b) as Hs.
  destruct (nodeC rem g st real a b) as [[x|sa| |k] st1]; cbn [simP fst noC] in *;
    [congruence | congruence | congruence | destruct Hn].
Qed.

(* ================================================================================================================ *)
(* Part C: the hypotheses are sharp                                                                                    *)
(* ================================================================================================================ *)

(* Each scenario drops one hypothesis of Part B and exhibits the site that is then reported, on the
   initial position.  None is reachable from the driver ([no_overflow_driver] has no hypothesis on
   windows, plies or depths): the root passes Score::MIN + 1, never Score::MIN, and iteration depths
   1..255 give real_depth + remaining_depth <= 255.  They ARE reachable through the verification entry
   points `search::verif_entry::{depth_1, node}`, which accept any i16 window and any u8 ply: a build with
   overflow checks panics there, a build without continues with a wrapped value. *)

Example start_GB : GB START.
Proof. split; [exact (legal_reachable_good START start_reachable) | exact start_bounded]. Qed.

Definition ST0 : sstate := fresh_state tempty (-1) false.

(* alpha = i16::MIN: `-alpha` is not representable *)
Example alpha_min_depth1 : depth1C START SCORE_MIN SCORE_MAX 1 = QOverflow 1402.
Proof. vm_compute. reflexivity. Qed.

Example alpha_min_node : fst (nodeC 2 START ST0 1 SCORE_MIN SCORE_MAX) = COverflow 2371.
Proof. vm_compute. reflexivity. Qed.

(* beta = i16::MIN: `-beta` is not representable (quiescence itself returns beta at once: alpha >= beta) *)
Example beta_min_depth1 : depth1C START (SCORE_MIN + 1) SCORE_MIN 1 = QOverflow 1401.
Proof. vm_compute. reflexivity. Qed.

Example beta_min_quiescence : quiescenceC QFUEL START (SCORE_MIN + 1) SCORE_MIN 1 = QDone SCORE_MIN.
Proof. vm_compute. reflexivity. Qed.

(* real_depth = 255 at depth 1 / in the node: `real_depth + 1` does not fit a u8.  [ArgsOK] excludes it:
   depth1 is entered with remaining depth 1, so real_depth <= 254 *)
Example real_255_depth1 : depth1C START (SCORE_MIN + 1) SCORE_MAX 255 = QOverflow 1403.
Proof. vm_compute. reflexivity. Qed.

Example real_255_node : fst (nodeC 2 START ST0 255 (SCORE_MIN + 1) SCORE_MAX) = COverflow 2351.
Proof. vm_compute. reflexivity. Qed.

(* the root at depth 0 without a cached entry: `depth - 1` underflows.  The driver starts at depth 0 only
   when the table holds an exact entry of depth 0 for the root, and then the root returns that entry
   ([no_overflow_root_hit]); no search stores an entry of depth 0 *)
Example depth_0_root : fst (rootC START ST0 0) = COverflow 3771.
Proof. vm_compute. reflexivity. Qed.

(* the same arguments on the integer model give a plain value: the wrap would go unnoticed *)
Example alpha_min_depth1_unchecked : depth1 START SCORE_MIN SCORE_MAX 1 <> None.
Proof. vm_compute. discriminate. Qed.

(* ================================================================================================================ *)
(* Part D: the u16 history counters                                                                                    *)
(* ================================================================================================================ *)

Lemma f_trunc_sat_range f mx : 0 <= mx -> 0 <= f_trunc_sat f mx <= mx.
Proof.
  intros Hm. unfold f_trunc_sat. destruct f as [s|s| |s m e]; try destruct s; try lia.
  assert (Hv : 0 <= (if 0 <=? e then Z.pos m * 2 ^ e else Z.pos m / 2 ^ (- e))).
  { destruct (0 <=? e) eqn:Ee.
    - apply Z.mul_nonneg_nonneg; [lia | apply Z.pow_nonneg; lia].
    - apply Z.leb_gt in Ee. apply Z.div_pos; [lia | apply Z.pow_pos_nonneg; lia]. }
  cbv zeta. lia.
Qed.

(* `real_bonus as u16`: whatever the float is (negative, huge, NaN), the cast lands in the u16 range *)
Lemma history_bonus_range remaining h : 0 <= history_bonus remaining h <= 65535.
Proof. unfold history_bonus. cbv zeta. apply f_trunc_sat_range. lia. Qed.

(* every counter, read the way the code reads it *)
Definition HistOK (hist : list Z) : Prop := forall i, 0 <= znth hist i 0 <= 65535.

Lemma znth_zupd_cases {A} (l : list A) i j v d :
  znth (zupd l i v) j d = v \/ znth (zupd l i v) j d = znth l j d.
Proof.
  revert i j. induction l as [|x t IH]; intros i j; cbn [zupd]; [now right|].
  destruct (i =? 0); cbn [znth]; destruct (j =? 0); try (now right); try (now left). apply IH.
Qed.

Theorem hist_range hist m remaining : HistOK hist -> HistOK (history_update hist m remaining).
Proof.
  intros H. unfold history_update. destruct (index_history m) as [i|]; [|exact H].
  cbv zeta. intros j.
  destruct (znth_zupd_cases hist i j (Z.min 65535 (znth hist i 0 + history_bonus remaining (znth hist i 0))) 0)
    as [-> | ->]; [|apply H].
  pose proof (H i). pose proof (history_bonus_range remaining (znth hist i 0)). lia.
Qed.

Lemma znth_repeat_0 n i : znth (repeat 0 n) i 0 = 0.
Proof.
  revert i. induction n as [|n IH]; intros i; cbn [repeat znth]; [reflexivity|].
  destruct (i =? 0); [reflexivity | apply IH].
Qed.

Lemma HistOK_fresh t stop_at tableless : HistOK (s_hist (fresh_state t stop_at tableless)).
Proof. unfold fresh_state. cbn [s_hist]. intros i. rewrite znth_repeat_0. lia. Qed.

Definition HS (st : sstate) : Prop := HistOK (s_hist st).

Lemma HS_poll st : HS st -> if s_running (poll st) then HS (poll st) else HS (poll st).
Proof. intros H. destruct (s_running (poll st)); exact H. Qed.

Lemma HS_hist (rem : nat) (real : Z) st m :
  True -> HS st -> HS (with_hist st (history_update (s_hist st) m (Z.of_nat rem))).
Proof. intros _ H. unfold HS. cbn [with_hist s_hist]. now apply hist_range. Qed.

(* along the whole search: the node, the root, the driver *)
Theorem node_hist_range rem g st real a b :
  HS st -> HS (snd (node rem g st real a b)).
Proof.
  intros H.
  assert (HP : node_post HS HS (node rem g st real a b)).
  { apply (node_inv (fun _ => True) (fun _ _ _ _ => I) (fun _ _ => True) HS HS); try exact I; try exact H.
    - intros; exact I.
    - apply HS_poll.
    - intros rem0 real0 st0 m _ H0. exact H0.
    - apply HS_hist.
    - intros rem0 real0 g0 st0 sc ob fl _ _ H0 _. exact H0. }
  destruct (node rem g st real a b) as [[s|sa|] st']; cbn [node_post snd] in *.
  - exact HP.
  - destruct HP as [-> HP]. exact HP.
  - exact HP.
Qed.

Theorem driver_hist_range g t limit stop_at tableless :
  HistOK (s_hist (d_st (driver g t limit stop_at tableless))).
Proof.
  unfold driver.
  assert (H : forall n st depth found lines, HS st ->
            (HS (d_st (driver_loop n g st depth limit found lines)) \/
             HS (d_st (driver_loop n g st depth limit found lines))) /\ True).
  { intros n st depth found lines HP.
    apply (driver_loop_inv (fun _ => True) (fun _ _ _ _ => I) (fun _ _ => True) HS HS) with (M := fun _ => True);
      try exact I; try exact HP.
    - intros; exact I.
    - apply HS_poll.
    - intros rem0 real0 st0 m _ H0. exact H0.
    - apply HS_hist.
    - intros rem0 real0 g0 st0 sc ob fl _ _ H0 _. exact H0.
    - intros st0 H0. exact H0.
    - intros depth0 g0 st0 sc ob _ _ H0 _. exact H0.
    - intros; exact I.
    - intros; exact I.
    - intros; exact I. }
  specialize (H 256%nat (fresh_state t stop_at tableless) (starting_depth t g) None []
                (HistOK_fresh t stop_at tableless)).
  revert H. generalize (driver_loop 256 g (fresh_state t stop_at tableless) (starting_depth t g) limit None []).
  intros r [[H|H] _]; exact H.
Qed.

(* ================================================================================================================ *)
(* Part E: the u32 ordering keys                                                                                       *)
(* ================================================================================================================ *)

(* the finite part: every pair of kinds for captures, every promotion kind *)
Definition all_kinds : list kind := [Pawn; Knight; Bishop; Rook; Queen; King].

Lemma all_kinds_complete k : In k all_kinds.
Proof. destruct k; cbn; tauto. Qed.

Definition capture_sweep : bool :=
  forallb (fun a => forallb (fun b =>
    match add32 ORDER_CAPTURE_BASE (material_value a) with
    | Some x => match sub32 x (material_value b) with
                | Some y => y =? ORDER_CAPTURE_BASE + material_value a - material_value b
                | None => false
                end
    | None => false
    end) all_kinds) all_kinds.

Lemma capture_sweep_ok : capture_sweep = true.
Proof. vm_compute. reflexivity. Qed.

Definition promotion_sweep : bool :=
  forallb (fun k =>
    match sub32 9 (material_value k) with
    | Some x => match add32 x 2 with
                | Some y => y =? ORDER_PROMOTION_BASE - material_value k
                | None => false
                end
    | None => false
    end) [Pawn; Knight; Bishop; Rook; Queen].

Lemma promotion_sweep_ok : promotion_sweep = true.
Proof. vm_compute. reflexivity. Qed.

(* `9 - material_value` underflows for a king (material value 100): the statement "for every piece kind"
   is false.  No generated promotion has a king as its new piece ([gen_ok]: promo_kind). *)
Example promotion_to_king_underflows :
  move_scoreC (Promotion White King (6, 0) (7, 0) None) None None [] = (None, 501).
Proof. vm_compute. reflexivity. Qed.

Theorem move_score_no_underflow m pv killer hist :
  HistOK hist ->
  (forall o k s e cap, m = Promotion o k s e cap -> k <> King) ->
  fst (move_scoreC m pv killer hist) = Some (move_score m pv killer hist).
Proof.
  intros Hh Hk. unfold move_scoreC, move_score.
  destruct (omove_is pv m); [reflexivity|]. destruct (omove_is killer m); [reflexivity|].
  destruct m as [pc s e [cap|] | o k s e cap | o | o | o sc ec]; try reflexivity.
  - pose proof capture_sweep_ok as H. unfold capture_sweep in H.
    rewrite forallb_forall in H. specialize (H (pk pc) (all_kinds_complete _)).
    rewrite forallb_forall in H. specialize (H (pk cap) (all_kinds_complete _)).
    destruct (add32 ORDER_CAPTURE_BASE (material_value (pk pc))) as [x|]; [|discriminate].
    cbn [fst]. destruct (sub32 x (material_value (pk cap))) as [y|]; [|discriminate].
    apply Z.eqb_eq in H. now subst.
  - cbn [fst]. unfold sub32. apply checked_ok, fits_u32_iff.
    destruct (index_history _) as [i|]; [pose proof (Hh i)|]; unfold ORDER_QUIET_BASE; lia.
  - assert (Hin : In k [Pawn; Knight; Bishop; Rook; Queen]).
    { specialize (Hk o k s e cap eq_refl). destruct k; cbn; tauto. }
    pose proof promotion_sweep_ok as H. unfold promotion_sweep in H.
    rewrite forallb_forall in H. specialize (H k Hin).
    destruct (sub32 9 (material_value k)) as [x|]; [|discriminate].
    cbn [fst]. destruct (add32 x 2) as [y|]; [|discriminate].
    apply Z.eqb_eq in H. now subst.
Qed.

(* for the moves the search orders: the checked moves of a game satisfying the representation invariant *)
Corollary move_score_no_underflow_generated g m pv killer hist :
  RepInv g -> In m (checked_moves g) -> HistOK hist ->
  fst (move_scoreC m pv killer hist) = Some (move_score m pv killer hist).
Proof.
  intros HR Hin Hh. apply move_score_no_underflow; [exact Hh|].
  intros o k s e cap ->. pose proof (gen_ok_checked g _ HR Hin) as Hok. cbn [gen_ok] in Hok.
  destruct Hok as (_ & [->|[->|[->| ->]]] & _); discriminate.
Qed.

Print Assumptions checked_agrees.
Print Assumptions no_overflow_quiescence.
Print Assumptions no_overflow_depth1.
Print Assumptions no_overflow_node.
Print Assumptions no_overflow_root.
Print Assumptions no_overflow_root_hit.
Print Assumptions no_overflow_driver.
Print Assumptions driver_checked_equals.
Print Assumptions session_no_overflow.
Print Assumptions node_checked_equals.
Print Assumptions alpha_min_depth1.
Print Assumptions alpha_min_node.
Print Assumptions real_255_depth1.
Print Assumptions depth_0_root.
Print Assumptions hist_range.
Print Assumptions node_hist_range.
Print Assumptions driver_hist_range.
Print Assumptions promotion_to_king_underflows.
Print Assumptions move_score_no_underflow.
Print Assumptions move_score_no_underflow_generated.
