(* The FEN writer of the engine model (Model/Fen.v, [fen]) against the independent renderer and
   grammar of Spec/FenSpec.v ([render], [parse], [fields14], [six_fields]).

   Main results
     fen_fields      the six white-space separated fields of the exported text
     fen_fields14    the first four fields are the canonical text of the abstract position
     fen_six_fields  fields five and six are numbers
     parse_render    the grammar reads back what the renderer wrote
     fen_parse       the grammar reads the exported text as the abstract position
     fen_reimport    (Section, relative to the completeness statement of the reader) round trip *)
From Coq Require Import Lia.
From Chess Require Import Model.Text Spec.Rules Spec.FenSpec Proofs.Grid Proofs.Inv Proofs.Abs.
Open Scope Z_scope.

(* ---- small list facts ---------------------------------------------------------------------------- *)

Lemma forallb_weaken {A} (P Q : A -> bool) l :
  (forall x, P x = true -> Q x = true) -> forallb P l = true -> forallb Q l = true.
Proof.
  intros HPQ H. apply forallb_forall. intros x Hx. apply HPQ.
  rewrite forallb_forall in H. now apply H.
Qed.

Lemma repeat_snoc {A} (a : A) n l : repeat a (S n) ++ l = repeat a n ++ a :: l.
Proof.
  induction n as [|n IH]; [reflexivity|].
  change (repeat a (S (S n)) ++ l) with (a :: (repeat a (S n) ++ l)).
  rewrite IH. reflexivity.
Qed.

(* ---- decimal ------------------------------------------------------------------------------------- *)

Definition is_dig (c : N) : bool := ((48 <=? c) && (c <=? 57))%N.

Lemma dec_digits_S f n acc :
  dec_digits (S f) n acc =
  if (n <? 10)%N then (48 + n mod 10)%N :: acc else dec_digits f (n / 10)%N ((48 + n mod 10)%N :: acc).
Proof. reflexivity. Qed.

Lemma decimal_small n : (n < 10)%N -> decimal n = [(48 + n)%N].
Proof.
  intros H. unfold decimal. rewrite dec_digits_S.
  replace (n <? 10)%N with true by (symmetry; apply N.ltb_lt; exact H).
  rewrite N.mod_small by exact H. reflexivity.
Qed.

Lemma is_dig_mod n : is_dig (48 + n mod 10)%N = true.
Proof.
  unfold is_dig. pose proof (N.mod_upper_bound n 10 ltac:(lia)) as Hm.
  set (m := (n mod 10)%N) in *. clearbody m.
  apply andb_true_iff. split; apply N.leb_le; lia.
Qed.

(* for every fuel: the digits property is preserved, nothing is ever removed *)
Lemma dec_digits_digits fuel : forall n acc,
  forallb is_dig acc = true -> forallb is_dig (dec_digits fuel n acc) = true.
Proof.
  induction fuel as [|f IH]; intros n acc Ha; [exact Ha|].
  rewrite dec_digits_S.
  assert (Ha' : forallb is_dig ((48 + n mod 10)%N :: acc) = true).
  { cbn [forallb]. rewrite Ha, is_dig_mod. reflexivity. }
  destruct (n <? 10)%N; [exact Ha' | apply IH; exact Ha'].
Qed.

Lemma dec_digits_nonempty fuel : forall n acc, acc <> [] -> dec_digits fuel n acc <> [].
Proof.
  induction fuel as [|f IH]; intros n acc Ha; [exact Ha|].
  rewrite dec_digits_S. destruct (n <? 10)%N; [discriminate | apply IH; discriminate].
Qed.

Lemma decimal_digits n : forallb is_dig (decimal n) = true.
Proof. unfold decimal. apply dec_digits_digits. reflexivity. Qed.

Lemma decimal_nonempty n : decimal n <> [].
Proof.
  unfold decimal. rewrite dec_digits_S.
  destruct (n <? 10)%N; [discriminate | apply dec_digits_nonempty; discriminate].
Qed.

Lemma decimal_is_number n : is_number (decimal n) = true.
Proof.
  unfold is_number. pose proof (decimal_nonempty n) as Hn. pose proof (decimal_digits n) as Hd.
  destruct (decimal n) as [|c t]; [contradiction | exact Hd].
Qed.

(* ---- letters -------------------------------------------------------------------------------------- *)

Lemma char_of_piece_letter pc : char_of_piece pc = piece_letter pc.
Proof. destruct pc as [[] []]; reflexivity. Qed.

Lemma letter_piece_letter pc : letter_piece (piece_letter pc) = Some pc.
Proof. destruct pc as [[] []]; reflexivity. Qed.

(* ---- one rank: fen_row = render_rank ------------------------------------------------------------ *)

Lemma gget_row g row c : gget g (row, c) = znth (znth (g_board g) row []) c None.
Proof. reflexivity. Qed.

Lemma fen_row_suffix g row : forall l pre e,
  znth (g_board g) row [] = pre ++ l ->
  (e + N.of_nat (length l) < 10)%N ->
  fen_row g row (map Z.of_nat (seq (length pre) (length l))) e = render_rank l e.
Proof.
  induction l as [|x t IH]; intros pre e HR Hb; cbn [length] in Hb.
  - cbn [length seq map fen_row render_rank].
    destruct (0 <? e)%N; [|reflexivity]. apply decimal_small. lia.
  - cbn [length seq map fen_row].
    assert (Hx : gget g (row, Z.of_nat (length pre)) = x).
    { rewrite gget_row, HR. rewrite znth_nth by lia. rewrite Nat2Z.id. apply nth_middle. }
    rewrite Hx.
    assert (HR' : znth (g_board g) row [] = (pre ++ [x]) ++ t) by (rewrite <- app_assoc; exact HR).
    assert (Hlen : length (pre ++ [x]) = S (length pre)) by (rewrite app_length; cbn [length]; lia).
    pose proof (IH (pre ++ [x])) as IH'. rewrite Hlen in IH'.
    destruct x as [pc|]; cbn [render_rank].
    + rewrite (IH' 0%N HR') by lia. rewrite char_of_piece_letter.
      destruct (0 <? e)%N eqn:E; [rewrite decimal_small by lia|]; reflexivity.
    + apply IH'; [exact HR' | lia].
Qed.

Lemma fen_row_eq g row :
  wf_grid (g_board g) -> 0 <= row < 8 ->
  fen_row g row cols8 0%N = render_rank (znth (g_board g) row []) 0%N.
Proof.
  intros Hwf Hr. pose proof (wf_row _ row Hwf Hr) as Hlen.
  pose proof (fen_row_suffix g row (znth (g_board g) row []) [] 0%N eq_refl) as H.
  rewrite Hlen in H. apply H. lia.
Qed.

(* ---- the placement field -------------------------------------------------------------------------- *)

Definition placement_text (b : grid (option piece)) : stext :=
  join 47%N (map (fun row => render_rank row 0%N) (rev b)).

Definition side_text (c : color) : stext := [match c with White => 119%N | Black => 98%N end].

Lemma render_fields p :
  render p = join 32%N [placement_text (p_board p); side_text (p_turn p);
                        render_castling (p_rights p); render_ep (p_ep p) (p_turn p)].
Proof. reflexivity. Qed.

Lemma fen_placement_eq g : wf_grid (g_board g) -> fen_placement g = placement_text (g_board g).
Proof.
  intros Hwf.
  assert (Hrows : forall row, 0 <= row < 8 ->
            fen_row g row cols8 0%N = render_rank (znth (g_board g) row []) 0%N)
    by (intros; now apply fen_row_eq).
  unfold fen_placement, rows_desc. cbn [flat_map].
  rewrite !Hrows by lia.
  destruct Hwf as [Hl _]. unfold placement_text.
  destruct (g_board g) as [|r0 [|r1 [|r2 [|r3 [|r4 [|r5 [|r6 [|r7 [|r8 rest]]]]]]]]]; try discriminate Hl.
  change (rev [r0; r1; r2; r3; r4; r5; r6; r7]) with [r7; r6; r5; r4; r3; r2; r1; r0].
  cbn [map join].
  repeat match goal with
         | |- context [znth ?l ?i []] =>
             let v := eval cbv in (znth l i []) in change (znth l i []) with v
         end.
  repeat match goal with
         | |- context [0 <? ?i] => let v := eval cbv in (0 <? i) in change (0 <? i) with v
         end.
  rewrite <- !app_assoc. rewrite !app_nil_r. reflexivity.
Qed.

Lemma fen_castling_eq st : fen_castling st = render_castling (abs_rights st).
Proof. reflexivity. Qed.

Lemma fen_ep_eq g : fen_ep g = render_ep (abs_ep (gstate_of g)) (g_player g).
Proof. unfold fen_ep, abs_ep. destruct (st_ep (gstate_of g) <? 8); reflexivity. Qed.

(* ---- splitting a joined text ---------------------------------------------------------------------- *)

Lemma join_cons sep x t :
  join sep (x :: t) = x ++ match t with [] => [] | _ => sep :: join sep t end.
Proof. destruct t; cbn [join]; [now rewrite app_nil_r | reflexivity]. Qed.

Lemma split_on_run sep ke f :
  forallb (fun c => negb (sep c)) f = true ->
  forall rest cur, split_on sep ke (f ++ rest) cur = split_on sep ke rest (rev f ++ cur).
Proof.
  induction f as [|c t IH]; intros H rest cur; [reflexivity|].
  cbn [forallb] in H. apply andb_true_iff in H. destruct H as [Hc Ht].
  apply negb_true_iff in Hc.
  cbn [app split_on rev]. rewrite Hc. rewrite IH by exact Ht. rewrite <- app_assoc. reflexivity.
Qed.

Definition no_ws (f : stext) : bool := forallb (fun c => negb (white_space c)) f.

(* texts without white space, none empty, joined by single spaces: [fields] gives them back *)
Lemma fields_join l :
  Forall (fun f => f <> [] /\ no_ws f = true) l -> fields (join 32%N l) = l.
Proof.
  unfold fields. intros H. induction H as [|x t [Hne Hws] Ht IH]; [reflexivity|].
  rewrite join_cons. rewrite (split_on_run white_space false x Hws). rewrite app_nil_r.
  assert (Hrev : rev x <> []).
  { intros E. apply Hne. rewrite <- (rev_involutive x), E. reflexivity. }
  destruct t as [|y t'].
  - cbn [split_on]. destruct (rev x) eqn:E; [contradiction|]. rewrite <- E, rev_involutive. reflexivity.
  - cbn [split_on]. change (white_space 32) with true. cbv iota.
    rewrite IH. destruct (rev x) eqn:E; [contradiction|]. rewrite <- E, rev_involutive. reflexivity.
Qed.

(* ranks without '/', at least one: [ranks] gives them back *)
Lemma ranks_join l :
  l <> [] -> Forall (fun f => forallb (fun c => negb (N.eqb 47 c)) f = true) l ->
  ranks (join 47%N l) = l.
Proof.
  unfold ranks. intros Hl H. induction H as [|x t Hx Ht IH]; [contradiction|].
  rewrite join_cons. rewrite (split_on_run (N.eqb 47) true x Hx). rewrite app_nil_r.
  destruct t as [|y t'].
  - cbn [split_on]. rewrite rev_involutive. reflexivity.
  - cbn [split_on]. change (N.eqb 47 47) with true. cbv iota.
    rewrite IH by discriminate. rewrite rev_involutive. reflexivity.
Qed.

Lemma forallb_join (P : N -> bool) sep l :
  P sep = true -> Forall (fun f => forallb P f = true) l -> forallb P (join sep l) = true.
Proof.
  intros Hs H. induction H as [|x t Hx Ht IH]; [reflexivity|].
  rewrite join_cons, forallb_app, Hx. destruct t; [reflexivity|].
  cbn [forallb andb]. rewrite Hs. exact IH.
Qed.

(* ---- the characters of the fields ---------------------------------------------------------------- *)

Definition vis (c : N) : bool := (33 <=? c)%N.

Lemma vis_not_ws c : vis c = true -> negb (white_space c) = true.
Proof.
  unfold vis, white_space. intros H. apply N.leb_le in H.
  destruct (N.eqb_spec c 32); [lia|]. destruct (N.eqb_spec c 9); [lia|].
  destruct (N.eqb_spec c 10); [lia|]. destruct (N.eqb_spec c 12); [lia|].
  destruct (N.eqb_spec c 13); [lia|]. reflexivity.
Qed.

Lemma vis_no_ws f : forallb vis f = true -> no_ws f = true.
Proof. apply forallb_weaken. exact vis_not_ws. Qed.

Lemma render_rank_chars l : forall run, forallb (fun c => 48 <=? c)%N (render_rank l run) = true.
Proof.
  induction l as [|[pc|] t IH]; intros run; cbn [render_rank].
  - destruct (0 <? run)%N; cbn [forallb]; [|reflexivity].
    rewrite andb_true_r. apply N.leb_le. lia.
  - rewrite forallb_app. cbn [forallb]. rewrite IH, andb_true_r.
    apply andb_true_iff. split.
    + destruct (0 <? run)%N; cbn [forallb]; [|reflexivity].
      rewrite andb_true_r. apply N.leb_le. lia.
    + destruct pc as [[] []]; reflexivity.
  - apply IH.
Qed.

Lemma render_rank_nonempty l : length l = 8%nat -> render_rank l 0%N <> [].
Proof.
  assert (G : forall l run, (0 < run + N.of_nat (length l))%N -> render_rank l run <> []).
  { induction l0 as [|[pc|] t IH]; intros run H; cbn [length] in H; cbn [render_rank].
    - replace (0 <? run)%N with true by (symmetry; apply N.ltb_lt; lia). discriminate.
    - intros E. apply app_eq_nil in E. destruct E as [_ E]. discriminate E.
    - apply IH. lia. }
  intros H. apply G. rewrite H. lia.
Qed.

Definition good_field (f : stext) : Prop := f <> [] /\ forallb vis f = true.

Lemma placement_good b : wf_grid b -> good_field (placement_text b).
Proof.
  intros [Hl Hr]. unfold placement_text. split.
  - assert (Hlen : length (map (fun row => render_rank row 0%N) (rev b)) = 8%nat)
      by (rewrite map_length, rev_length; exact Hl).
    destruct (map (fun row => render_rank row 0%N) (rev b)) as [|x [|y t]]; try discriminate Hlen.
    rewrite join_cons. intros E. apply app_eq_nil in E. destruct E as [_ E]. discriminate E.
  - apply forallb_join; [reflexivity|].
    apply Forall_forall. intros f Hf. apply in_map_iff in Hf. destruct Hf as (row & <- & _).
    apply (forallb_weaken (fun c => 48 <=? c)%N); [|apply render_rank_chars].
    intros c Hc. unfold vis. apply N.leb_le in Hc. apply N.leb_le. lia.
Qed.

Lemma side_good c : good_field (side_text c).
Proof. destruct c; split; [discriminate | reflexivity | discriminate | reflexivity]. Qed.

Lemma castling_good r : good_field (render_castling r).
Proof. destruct r as [[] [] [] []]; split; first [discriminate | reflexivity]. Qed.

Lemma ep_good e c : good_field (render_ep e c).
Proof.
  destruct e as [f|]; [|split; [discriminate | reflexivity]].
  split; [discriminate|]. cbn [render_ep forallb]. rewrite andb_true_r.
  apply andb_true_iff. split; [unfold vis; apply N.leb_le; lia | destruct c; reflexivity].
Qed.

Lemma decimal_good n : good_field (decimal n).
Proof.
  split; [apply decimal_nonempty|].
  apply (forallb_weaken is_dig); [|apply decimal_digits].
  intros c Hc. unfold is_dig in Hc. apply andb_true_iff in Hc. destruct Hc as [Hc _].
  apply N.leb_le in Hc. unfold vis. apply N.leb_le. lia.
Qed.

Lemma good_fields_split l : Forall good_field l -> fields (join 32%N l) = l.
Proof.
  intros H. apply fields_join. eapply Forall_impl; [|exact H].
  intros f [Hne Hv]. split; [exact Hne | now apply vis_no_ws].
Qed.

(* ---- the exported text ----------------------------------------------------------------------------- *)

Definition fullmove (g : game) : N := (N.of_nat (length (g_moves g)) / 2 + 1)%N.

Lemma fen_as_join g :
  fen g = join 32%N [fen_placement g; side_text (g_player g); fen_castling (gstate_of g); fen_ep g;
                     [48%N]; decimal (fullmove g)].
Proof. reflexivity. Qed.

Theorem fen_fields g :
  wf_grid (g_board g) ->
  fields (fen g) = [placement_text (g_board g); side_text (g_player g);
                    render_castling (abs_rights (gstate_of g));
                    render_ep (abs_ep (gstate_of g)) (g_player g);
                    [48%N]; decimal (fullmove g)].
Proof.
  intros Hwf. rewrite fen_as_join, fen_placement_eq, fen_castling_eq, fen_ep_eq by exact Hwf.
  apply good_fields_split.
  repeat (apply Forall_cons || apply Forall_nil).
  - now apply placement_good.
  - apply side_good.
  - apply castling_good.
  - apply ep_good.
  - split; [discriminate | reflexivity].
  - apply decimal_good.
Qed.

(* the first four fields of the exported text are the canonical text of the abstract position
   (the bound on the en passant file is not needed for this direction) *)
Theorem fen_fields14_wf g : wf_grid (g_board g) -> fields14 (fen g) = render (abs g).
Proof. intros Hwf. unfold fields14. rewrite fen_fields by exact Hwf. reflexivity. Qed.

Theorem fen_fields14 g :
  wf_grid (g_board g) -> state_ok (gstate_of g) -> fields14 (fen g) = render (abs g).
Proof. intros Hwf _. now apply fen_fields14_wf. Qed.

Theorem fen_six_fields_wf g : wf_grid (g_board g) -> six_fields (fen g) = true.
Proof.
  intros Hwf. unfold six_fields. rewrite fen_fields by exact Hwf.
  rewrite decimal_is_number. reflexivity.
Qed.

Theorem fen_six_fields g :
  wf_grid (g_board g) -> state_ok (gstate_of g) -> six_fields (fen g) = true.
Proof. intros Hwf _. now apply fen_six_fields_wf. Qed.

Print Assumptions fen_fields.
Print Assumptions fen_fields14.
Print Assumptions fen_six_fields.

(* ---- the grammar reads back the renderer ----------------------------------------------------------- *)

Lemma parse_rank_digit d t rest :
  (1 <= d <= 8)%N -> parse_rank t = Some rest ->
  parse_rank ((48 + d)%N :: t) = Some (repeat None (N.to_nat d) ++ rest).
Proof.
  intros Hd Ht. cbn [parse_rank]. rewrite Ht.
  replace ((49 <=? 48 + d) && (48 + d <=? 56))%N with true
    by (symmetry; apply andb_true_iff; split; apply N.leb_le; lia).
  replace (48 + d - 48)%N with d by lia. reflexivity.
Qed.

Lemma parse_rank_letter pc t rest :
  parse_rank t = Some rest -> parse_rank (piece_letter pc :: t) = Some (Some pc :: rest).
Proof. intros Ht. cbn [parse_rank]. rewrite Ht. destruct pc as [[] []]; reflexivity. Qed.

Lemma parse_render_rank l : forall run,
  (run + N.of_nat (length l) <= 8)%N ->
  parse_rank (render_rank l run) = Some (repeat None (N.to_nat run) ++ l).
Proof.
  induction l as [|[pc|] t IH]; intros run Hb; cbn [length] in Hb; cbn [render_rank].
  - destruct (0 <? run)%N eqn:E.
    + apply N.ltb_lt in E. apply parse_rank_digit; [lia | reflexivity].
    + apply N.ltb_ge in E. assert (run = 0%N) by lia. subst run. reflexivity.
  - assert (Ht : parse_rank (render_rank t 0%N) = Some t) by (rewrite IH by lia; reflexivity).
    destruct (0 <? run)%N eqn:E.
    + apply N.ltb_lt in E. cbn [app]. apply parse_rank_digit; [lia|].
      apply parse_rank_letter. exact Ht.
    + apply N.ltb_ge in E. assert (run = 0%N) by lia. subst run.
      change (repeat None (N.to_nat 0) ++ Some pc :: t) with (Some pc :: t). cbn [app].
      apply parse_rank_letter. exact Ht.
  - rewrite IH by lia. replace (N.to_nat (run + 1)) with (S (N.to_nat run)) by lia.
    rewrite repeat_snoc. reflexivity.
Qed.

Lemma parse_rank8_render row : length row = 8%nat -> parse_rank8 (render_rank row 0%N) = Some row.
Proof.
  intros H. unfold parse_rank8. rewrite parse_render_rank by (rewrite H; lia).
  change (repeat None (N.to_nat 0) ++ row) with row. rewrite H. reflexivity.
Qed.

Lemma all_some_ranks rows :
  Forall (fun r : list (option piece) => length r = 8%nat) rows ->
  all_some (map parse_rank8 (map (fun row => render_rank row 0%N) rows)) = Some rows.
Proof.
  intros H. induction H as [|r t Hr Ht IH]; [reflexivity|].
  cbn [map all_some]. rewrite parse_rank8_render by exact Hr. rewrite IH. reflexivity.
Qed.

Lemma parse_placement_render b : wf_grid b -> parse_placement (placement_text b) = Some b.
Proof.
  intros [Hl Hr]. unfold parse_placement, placement_text.
  assert (Hrev : Forall (fun r : list (option piece) => length r = 8%nat) (rev b))
    by (apply Forall_rev; exact Hr).
  rewrite ranks_join.
  - rewrite map_length, rev_length, Hl. cbn [Nat.eqb].
    rewrite all_some_ranks by exact Hrev. rewrite rev_involutive. reflexivity.
  - intros E. apply (f_equal (@length _)) in E. rewrite map_length, rev_length, Hl in E. discriminate E.
  - apply Forall_forall. intros f Hf. apply in_map_iff in Hf. destruct Hf as (row & <- & _).
    apply (forallb_weaken (fun c => 48 <=? c)%N); [|apply render_rank_chars].
    intros c Hc. apply N.leb_le in Hc. destruct (N.eqb_spec 47 c); [lia | reflexivity].
Qed.

Lemma parse_side_render c : parse_side (side_text c) = Some c.
Proof. destruct c; reflexivity. Qed.

Lemma parse_castling_render r : parse_castling (render_castling r) = Some r.
Proof. destruct r as [[] [] [] []]; reflexivity. Qed.

Definition ep_ok (e : option Z) : Prop := match e with None => True | Some f => 0 <= f < 8 end.

(* the two-character case of parse_ep, whatever the first character is *)
Lemma parse_ep_two x y c :
  parse_ep [x; y] c =
  if ((97 <=? x) && (x <=? 104))%N && N.eqb y (match c with White => 54 | Black => 51 end)%N
  then Some (Some (Z.of_N (x - 97))) else None.
Proof.
  unfold parse_ep. destruct x as [|q]; [reflexivity|].
  do 7 (try (destruct q as [q|q|]; try reflexivity)).
Qed.

Lemma parse_ep_render e c : ep_ok e -> parse_ep (render_ep e c) c = Some e.
Proof.
  destruct e as [f|]; [|reflexivity]. cbn [ep_ok]. intros Hf.
  cbn [render_ep]. rewrite parse_ep_two.
  replace ((97 <=? 97 + Z.to_N f) && (97 + Z.to_N f <=? 104))%N with true
    by (symmetry; apply andb_true_iff; split; apply N.leb_le; lia).
  rewrite N.eqb_refl. cbn [andb]. do 2 f_equal. lia.
Qed.

Definition kings_present (b : grid (option piece)) : Prop :=
  existsb (fun q => has b q King White) squares = true
  /\ existsb (fun q => has b q King Black) squares = true.

Definition counters_ok (cs : list stext) : bool :=
  match cs with
  | [] => true
  | [h] => is_number h
  | [h; f] => is_number h && is_number f
  | _ => false
  end.

(* a text whose first four fields are the rendered fields of p, followed by at most two numbers *)
Lemma parse_of_fields s p cs :
  fields s = placement_text (p_board p) :: side_text (p_turn p) :: render_castling (p_rights p)
             :: render_ep (p_ep p) (p_turn p) :: cs ->
  counters_ok cs = true ->
  wf_grid (p_board p) -> ep_ok (p_ep p) -> kings_present (p_board p) ->
  parse s = Some p.
Proof.
  intros Hf Hc Hwf Hep [Hwk Hbk]. unfold parse. rewrite Hf.
  rewrite parse_placement_render by exact Hwf.
  rewrite parse_side_render, parse_castling_render.
  rewrite parse_ep_render by exact Hep.
  unfold counters_ok in Hc. rewrite Hc, Hwk, Hbk. destruct p; reflexivity.
Qed.

Lemma render_split p :
  wf_grid (p_board p) ->
  fields (render p) = [placement_text (p_board p); side_text (p_turn p);
                       render_castling (p_rights p); render_ep (p_ep p) (p_turn p)].
Proof.
  intros Hwf. rewrite render_fields. apply good_fields_split.
  repeat (apply Forall_cons || apply Forall_nil).
  - now apply placement_good.
  - apply side_good.
  - apply castling_good.
  - apply ep_good.
Qed.

Theorem parse_render p :
  wf_grid (p_board p) -> ep_ok (p_ep p) -> kings_present (p_board p) ->
  parse (render p) = Some p.
Proof.
  intros Hwf Hep Hk. apply (parse_of_fields (render p) p []); try assumption; [|reflexivity].
  now apply render_split.
Qed.

Print Assumptions parse_render.

(* ---- the exported text denotes the abstract position ------------------------------------------------ *)

Lemma abs_ep_ok st : state_ok st -> ep_ok (abs_ep st).
Proof.
  unfold state_ok, abs_ep, ep_ok. intros H. destruct (st_ep st <? 8) eqn:E; [|exact I].
  apply Z.ltb_lt in E. lia.
Qed.

Theorem fen_parse_wf g :
  wf_grid (g_board g) -> state_ok (gstate_of g) -> kings_present (g_board g) ->
  parse (fen g) = Some (abs g).
Proof.
  intros Hwf Hst Hk.
  apply (parse_of_fields (fen g) (abs g) [[48%N]; decimal (fullmove g)]).
  - rewrite fen_fields by exact Hwf. reflexivity.
  - cbn [counters_ok]. rewrite decimal_is_number. reflexivity.
  - exact Hwf.
  - apply abs_ep_ok. exact Hst.
  - exact Hk.
Qed.

Theorem fen_parse g : RepInv g -> kings_present (g_board g) -> parse (fen g) = Some (abs g).
Proof.
  intros [Hc Hr] Hk. apply fen_parse_wf; [apply (ci_board g Hc) | apply (ri_state_ok g Hr) | exact Hk].
Qed.

(* a convenient way to establish [kings_present] *)
Lemma kings_present_intro b qw qb :
  valid qw -> at_ b qw = Some (mkPiece King White) ->
  valid qb -> at_ b qb = Some (mkPiece King Black) -> kings_present b.
Proof.
  intros Hvw Hw Hvb Hb. split; apply existsb_exists.
  - exists qw. split; [apply (proj2 (squares64_valid qw) Hvw) | unfold has; rewrite Hw; reflexivity].
  - exists qb. split; [apply (proj2 (squares64_valid qb) Hvb) | unfold has; rewrite Hb; reflexivity].
Qed.

Lemma kings_present_game g :
  RuleInv g ->
  bget (g_board g) (g_wking g) = Some (mkPiece King White) ->
  bget (g_board g) (g_bking g) = Some (mkPiece King Black) -> kings_present (g_board g).
Proof.
  intros Hr Hw Hb.
  apply (kings_present_intro _ (g_wking g) (g_bking g));
    [apply (ri_wking g Hr) | exact Hw | apply (ri_bking g Hr) | exact Hb].
Qed.

Print Assumptions fen_parse.

(* the statements are not vacuous: the two pinned positions *)
Example start_kings : kings_present (g_board START).
Proof. split; vm_compute; reflexivity. Qed.
Example start_fen : fen START = START_FEN.
Proof. vm_compute. reflexivity. Qed.
Example kiwipete_parse : parse (fen KIWIPETE) = Some (abs KIWIPETE).
Proof. vm_compute. reflexivity. Qed.

(* ---- export then import ----------------------------------------------------------------------------- *)

Section RoundTrip.
  (* the completeness statement of the reader (proved in the file about import); assumed inside this
     section only, so that this file does not depend on that proof *)
  Hypothesis import_complete :
    forall s p, parse s = Some p -> exists g', import s = Ok g' /\ abs g' = p.

  Theorem fen_reimport g :
    RepInv g -> kings_present (g_board g) ->
    exists g', import (fen g) = Ok g' /\ abs g' = abs g.
  Proof. intros Hinv Hk. apply import_complete. now apply fen_parse. Qed.
End RoundTrip.

Print Assumptions fen_reimport.
