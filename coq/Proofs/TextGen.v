(* The text theorems of Proofs/TextProofs.v for the moves the engine generates: the premises
   [gen_ok], [normal_king_step], [normal_pawn_push_file] are discharged with Proofs/GenOk.v. *)
From Chess Require Import Model.Text Spec.Rules Spec.Notation Proofs.Grid Proofs.Inv Proofs.Abs
  Proofs.GenOk Proofs.TextProofs.
Open Scope list_scope.
Open Scope Z_scope.

Lemma generated_text_extra g m : In m (pseudo_moves_all g) -> text_extra m.
Proof.
  intros Hin. split.
  - intros pc s e cap -> Hk. apply (gen_king_step g pc s e cap Hin Hk).
  - intros pc s e -> Hk. apply (gen_pawn_push_file g pc s e Hin Hk).
Qed.

Lemma checked_text_facts g m : RepInv g -> In m (checked_moves g) -> gen_ok g m /\ text_extra m.
Proof.
  intros HR Hin. split; [now apply gen_ok_checked|].
  apply (generated_text_extra g). now apply checked_in_all.
Qed.

Lemma pseudo_text_facts g m : RepInv g -> In m (pseudo_moves g) -> gen_ok g m /\ text_extra m.
Proof.
  intros HR Hin. split; [now apply gen_ok_pseudo|].
  apply (generated_text_extra g). now apply pseudo_in_all.
Qed.

Theorem generated_uci_is_standard g v m :
  RepInv g -> In m (get_moves g v) -> uci m = move_text (abs_move m).
Proof. intros HR Hin. apply (uci_is_standard g). now apply (gen_ok_get_moves g v). Qed.
Print Assumptions generated_uci_is_standard.

Theorem generated_from_uci_uci g v m :
  RepInv g -> king_exists g White = true -> king_exists g Black = true ->
  In m (get_moves g v) -> from_uci (uci m) g = Some m.
Proof.
  intros HR HW HB Hin.
  assert (gen_ok g m /\ text_extra m) as [Hok [X Y]].
  { destruct v; cbn [get_moves] in Hin; [now apply checked_text_facts | now apply pseudo_text_facts]. }
  now apply from_uci_uci.
Qed.
Print Assumptions generated_from_uci_uci.

Theorem generated_uci_injective g v m1 m2 :
  RepInv g -> king_exists g White = true -> king_exists g Black = true ->
  In m1 (get_moves g v) -> In m2 (get_moves g v) -> uci m1 = uci m2 -> m1 = m2.
Proof.
  intros HR HW HB H1 H2 E.
  pose proof (generated_from_uci_uci g v m1 HR HW HB H1) as R1.
  pose proof (generated_from_uci_uci g v m2 HR HW HB H2) as R2.
  rewrite E in R1. congruence.
Qed.
Print Assumptions generated_uci_injective.

(* `position ... moves`: a string of move shape is accepted exactly when it is the text of a
   legal move, and then that move is the one played *)
Theorem generated_accepts_iff_legal g s m :
  RepInv g -> king_exists g White = true -> king_exists g Black = true ->
  parse_move s <> None ->
  (accept g s = Some m <-> In m (checked_moves g) /\ uci m = s).
Proof.
  intros HR HW HB Hs. apply accepts_iff_legal; try assumption.
  intros m' Hin. now apply checked_text_facts.
Qed.
Print Assumptions generated_accepts_iff_legal.

Theorem generated_rejects_iff_not_legal g s :
  RepInv g -> king_exists g White = true -> king_exists g Black = true ->
  parse_move s <> None ->
  (accept g s = None <-> ~ exists m, In m (checked_moves g) /\ uci m = s).
Proof.
  intros HR HW HB Hs. apply rejects_iff_not_legal; try assumption.
  intros m' Hin. now apply checked_text_facts.
Qed.
Print Assumptions generated_rejects_iff_not_legal.

Theorem generated_pgn_is_record g v m :
  RepInv g -> In m (get_moves g v) -> pgn_move m = record_entry (abs g) (abs_move m).
Proof.
  intros HR Hin.
  assert (gen_ok g m /\ text_extra m) as [Hok [X Y]].
  { destruct v; cbn [get_moves] in Hin; [now apply checked_text_facts | now apply pseudo_text_facts]. }
  now apply pgn_is_record.
Qed.
Print Assumptions generated_pgn_is_record.
