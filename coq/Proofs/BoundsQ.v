(* C15, part B: the potential function of quiescence. Every tactical generated move strictly
   lowers  mu = (occupied squares) + (pawns);  mu <= 128 on every board; hence quiescence with
   fuel > mu never runs out of fuel, its nesting depth is at most mu, and the state stack met
   during a search stays below the capacity. *)
From Coq Require Import Lia.
From Chess Require Import Model.Search Proofs.Grid Proofs.Inv Proofs.Bounds.
Open Scope Z_scope.

(* ---- the potential ---------------------------------------------------------------------------------- *)

(* a pawn counts twice (once as a man, once as a pawn), every other piece once *)
Definition weight (o : option piece) : Z :=
  match o with
  | None => 0
  | Some pc => if kind_eqb (pk pc) Pawn then 2 else 1
  end.

Definition muZ (b : board) : Z := sum_all (fun p => weight (bget b p)).
Definition mu (g : game) : nat := Z.to_nat (muZ (g_board g)).

Lemma weight_range o : 0 <= weight o <= 2.
Proof. destruct o as [pc|]; cbn [weight]; [destruct (kind_eqb _ _)|]; lia. Qed.

Lemma weight_some pc : 1 <= weight (Some pc).
Proof. cbn [weight]. destruct (kind_eqb _ _); lia. Qed.

Lemma sum_list_range (f : pos -> Z) lo hi l :
  (forall p, lo <= f p <= hi) ->
  lo * Z.of_nat (length l) <= fold_right Z.add 0 (map f l) <= hi * Z.of_nat (length l).
Proof.
  intros H. induction l as [|x t IH]; cbn [map fold_right length]; [lia|].
  specialize (H x). rewrite Nat2Z.inj_succ. lia.
Qed.

Lemma muZ_range b : 0 <= muZ b <= 128.
Proof.
  unfold muZ, sum_all.
  pose proof (sum_list_range (fun p => weight (bget b p)) 0 2 squares64 (fun p => weight_range _)) as H.
  rewrite squares64_length in H. lia.
Qed.

Theorem mu_bound g : (mu g <= 128)%nat.
Proof. unfold mu. pose proof (muZ_range (g_board g)). lia. Qed.

Lemma muZ_set b p v :
  wf_grid b -> valid p -> muZ (bset b p v) = muZ b - weight (bget b p) + weight v.
Proof.
  intros Hwf Hv. unfold muZ.
  rewrite (sum_all_update (fun q => weight (bget b q)) (fun q => weight (bget (bset b p v) q)) p Hv).
  - now rewrite bget_bset_same.
  - intros q Hq. rewrite bget_bset_other by congruence. reflexivity.
Qed.

Lemma wf_bset (b : board) p v : wf_grid b -> wf_grid (bset b p v).
Proof. apply wf_grid_set. Qed.

(* ---- the board after push --------------------------------------------------------------------------- *)

Lemma push_finish_board g st : g_board (push_finish g st) = g_board g.
Proof. reflexivity. Qed.

Lemma push_board_normal g pc s e cap :
  g_board (push g (Normal pc s e cap)) = bset (bset (g_board g) s None) e (Some pc).
Proof.
  unfold push.
  destruct (kind_eqb (pk pc) King); [|destruct (kind_eqb (pk pc) Rook)];
    rewrite push_finish_board, ?set_king_pos_board, !set_position_board; reflexivity.
Qed.

Lemma push_board_promotion g o k s e cap :
  g_board (push g (Promotion o k s e cap)) = bset (bset (g_board g) s None) e (Some (mkPiece k o)).
Proof. unfold push. rewrite push_finish_board, !set_position_board. reflexivity. Qed.

Lemma push_board_ep g o sc ec :
  g_board (push g (EnPassant o sc ec)) =
    bset (bset (bset (g_board g) (fst (ep_rows o), ec) None) (fst (ep_rows o), sc) None)
         (snd (ep_rows o), ec) (Some (mkPiece Pawn o)).
Proof.
  unfold push. destruct (ep_rows o) as [r1 r2]. cbn [fst snd].
  rewrite push_finish_board, !set_position_board. reflexivity.
Qed.

Lemma push_board_short g o :
  g_board (push g (CastlingShort o)) =
    bset (bset (bset (bset (g_board g) (home_row o, 7) None) (home_row o, 4) None)
               (home_row o, 5) (Some (mkPiece Rook o))) (home_row o, 6) (Some (mkPiece King o)).
Proof. unfold push. rewrite push_finish_board, set_king_pos_board, !set_position_board. reflexivity. Qed.

Lemma push_board_long g o :
  g_board (push g (CastlingLong o)) =
    bset (bset (bset (bset (g_board g) (home_row o, 0) None) (home_row o, 4) None)
               (home_row o, 3) (Some (mkPiece Rook o))) (home_row o, 2) (Some (mkPiece King o)).
Proof. unfold push. rewrite push_finish_board, set_king_pos_board, !set_position_board. reflexivity. Qed.

(* ---- how much a generated move lowers the potential -------------------------------------------------- *)

Definition drop (m : Move) : Z :=
  match m with
  | Normal _ _ _ cap => weight cap
  | Promotion _ _ _ _ cap => 1 + weight cap
  | EnPassant _ _ _ => 2
  | CastlingShort _ | CastlingLong _ => 0
  end.

Lemma drop_nonneg m : 0 <= drop m.
Proof. destruct m as [? ? ? cap|? ? ? ? cap| | |]; cbn [drop]; try pose proof (weight_range cap); lia. Qed.

Lemma drop_tactical m : is_tactical m = true -> 1 <= drop m.
Proof.
  destruct m as [pc s e [c|]|? ? ? ? cap| | |]; cbn [is_tactical drop]; intros H;
    try (exfalso; discriminate H); try lia.
  - apply weight_some.
  - pose proof (weight_range cap); lia.
Qed.

Lemma pair_neq_snd (r a b : Z) : a <> b -> (r, a) <> (r, b).
Proof. congruence. Qed.

Lemma promo_weight k o : promo_kind k -> weight (Some (mkPiece k o)) = 1.
Proof. intros [->|[->|[->| ->]]]; reflexivity. Qed.

Theorem muZ_push g m :
  wf_grid (g_board g) -> gen_ok g m -> muZ (g_board (push g m)) = muZ (g_board g) - drop m.
Proof.
  intros Hwf Hok. set (b := g_board g) in *.
  destruct m as [pc s e cap | o k s e cap | o | o | o sc ec]; cbn [gen_ok drop] in *.
  - destruct Hok as (Hs & He & Hne & Hbs & Hbe & _). fold b in Hbs, Hbe.
    rewrite push_board_normal. fold b.
    rewrite muZ_set by (try apply wf_bset; assumption).
    rewrite muZ_set by assumption.
    rewrite bget_bset_other by assumption. rewrite Hbs, Hbe. cbn [weight]. lia.
  - destruct Hok as (_ & Hk & Hs & He & Hne & _ & Hbs & Hbe & _). fold b in Hbs, Hbe.
    rewrite push_board_promotion. fold b.
    rewrite muZ_set by (try apply wf_bset; assumption).
    rewrite muZ_set by assumption.
    rewrite bget_bset_other by assumption. rewrite Hbs, Hbe, (promo_weight k o Hk).
    cbn [weight pk kind_eqb]. lia.
  - destruct Hok as (_ & _ & Hk & Hr & H5 & H6). fold b in Hk, Hr, H5, H6.
    rewrite push_board_short. fold b.
    assert (V : forall c, 0 <= c < 8 -> valid (home_row o, c)) by (intros; now apply home_row_valid).
    rewrite muZ_set by (repeat apply wf_bset; try assumption; apply V; lia).
    rewrite muZ_set by (repeat apply wf_bset; try assumption; apply V; lia).
    rewrite muZ_set by (repeat apply wf_bset; try assumption; apply V; lia).
    rewrite muZ_set by (repeat apply wf_bset; try assumption; apply V; lia).
    rewrite !bget_bset_other by (apply pair_neq_snd; lia).
    rewrite Hk, Hr, H5, H6. cbn [weight pk kind_eqb]. lia.
  - destruct Hok as (_ & _ & Hk & Hr & H1 & H2 & H3). fold b in Hk, Hr, H1, H2, H3.
    rewrite push_board_long. fold b.
    assert (V : forall c, 0 <= c < 8 -> valid (home_row o, c)) by (intros; now apply home_row_valid).
    rewrite muZ_set by (repeat apply wf_bset; try assumption; apply V; lia).
    rewrite muZ_set by (repeat apply wf_bset; try assumption; apply V; lia).
    rewrite muZ_set by (repeat apply wf_bset; try assumption; apply V; lia).
    rewrite muZ_set by (repeat apply wf_bset; try assumption; apply V; lia).
    rewrite !bget_bset_other by (apply pair_neq_snd; lia).
    rewrite Hk, Hr, H2, H3. cbn [weight pk kind_eqb]. lia.
  - destruct Hok as (_ & Hsc & Hec & Habs & _ & Hown & Hen & Hemp). fold b in Hown, Hen, Hemp.
    rewrite push_board_ep. fold b.
    destruct (ep_rows_valid o sc Hsc) as [V1 _]. destruct (ep_rows_valid o ec Hec) as [V2 V3].
    assert (Hrows : fst (ep_rows o) <> snd (ep_rows o)) by (destruct o; cbn; lia).
    rewrite muZ_set by (repeat apply wf_bset; assumption).
    rewrite muZ_set by (repeat apply wf_bset; assumption).
    rewrite muZ_set by assumption.
    rewrite !bget_bset_other
      by (first [ apply pair_neq_snd; lia | intros E; apply Hrows; congruence ]).
    rewrite Hown, Hen, Hemp. cbn [weight pk kind_eqb]. lia.
Qed.

Theorem mu_push_le g m : RepInv g -> gen_ok g m -> (mu (push g m) <= mu g)%nat.
Proof.
  intros [Hc _] Hok. unfold mu. rewrite (muZ_push g m (ci_board g Hc) Hok).
  pose proof (drop_nonneg m). pose proof (muZ_range (g_board g)). lia.
Qed.

Theorem mu_push_lt g m :
  RepInv g -> gen_ok g m -> is_tactical m = true -> (mu (push g m) < mu g)%nat.
Proof.
  intros [Hc _] Hok Ht. unfold mu.
  pose proof (muZ_push g m (ci_board g Hc) Hok) as E.
  pose proof (drop_tactical m Ht). pose proof (muZ_range (g_board g)).
  pose proof (muZ_range (g_board (push g m))). lia.
Qed.

(* ---- quiescence: the move loop as a top-level function ------------------------------------------------ *)

Definition qloop (q : game -> Z -> Z -> Z -> option Z) (g : game) (beta real : Z)
  : list Move -> Z -> option Z :=
  fix loop (ms : list Move) (alpha : Z) : option Z :=
    match ms with
    | [] => Some alpha
    | m :: rest =>
        if negb (is_tactical m) then loop rest alpha
        else
          match q (push g m) (- beta) (- alpha) (Z.min 255 (real + 1)) with
          | None => None
          | Some s =>
              let score := - s in
              let alpha := if alpha <? score then score else alpha in
              if beta <=? alpha then Some beta else loop rest alpha
          end
    end.

Lemma qloop_nil q g beta real alpha : qloop q g beta real [] alpha = Some alpha.
Proof. reflexivity. Qed.

Lemma qloop_cons q g beta real m rest alpha :
  qloop q g beta real (m :: rest) alpha =
    if negb (is_tactical m) then qloop q g beta real rest alpha
    else
      match q (push g m) (- beta) (- alpha) (Z.min 255 (real + 1)) with
      | None => None
      | Some s =>
          if beta <=? (if alpha <? - s then - s else alpha) then Some beta
          else qloop q g beta real rest (if alpha <? - s then - s else alpha)
      end.
Proof. reflexivity. Qed.

Lemma quiescence_S f g alpha beta real :
  quiescence (S f) g alpha beta real =
    let alpha' := Z.max alpha (g_score g * color_sign (g_player g)) in
    if beta <=? alpha' then Some beta
    else match pseudo_moves g with
         | [] => Some (no_move_score g MATE_OFFSET_QUIESCENCE real)
         | _ :: _ => qloop (quiescence f) g beta real (pseudo_moves g) alpha'
         end.
Proof. reflexivity. Qed.

Lemma quiescence_0 g alpha beta real : quiescence 0 g alpha beta real = None.
Proof. reflexivity. Qed.

(* fuel monotonicity: a result obtained with some fuel is obtained with any larger fuel *)
Lemma qloop_mono (q q' : game -> Z -> Z -> Z -> option Z) g beta real :
  (forall g' a b r z, q g' a b r = Some z -> q' g' a b r = Some z) ->
  forall ms alpha z, qloop q g beta real ms alpha = Some z -> qloop q' g beta real ms alpha = Some z.
Proof.
  intros Hq. induction ms as [|m rest IH]; intros alpha z; [tauto|]. rewrite !qloop_cons.
  destruct (negb (is_tactical m)); [apply IH|].
  destruct (q (push g m) (- beta) (- alpha) (Z.min 255 (real + 1))) as [s|] eqn:E; [|discriminate].
  rewrite (Hq _ _ _ _ _ E).
  destruct (beta <=? (if alpha <? - s then - s else alpha)); [tauto | apply IH].
Qed.

Theorem quiescence_fuel_mono f f' g alpha beta real z :
  (f <= f')%nat -> quiescence f g alpha beta real = Some z -> quiescence f' g alpha beta real = Some z.
Proof.
  revert f' g alpha beta real z. induction f as [|f IH]; intros f' g alpha beta real z Hle H.
  - rewrite quiescence_0 in H. discriminate.
  - destruct f' as [|f']; [lia|]. rewrite quiescence_S in *. cbv zeta in *.
    destruct (beta <=? Z.max alpha (g_score g * color_sign (g_player g))); [assumption|].
    destruct (pseudo_moves g) as [|m0 ms0]; [assumption|].
    revert H. apply qloop_mono. intros g' a b r z'. apply IH. lia.
Qed.

(* ---- termination within the fuel ---------------------------------------------------------------------- *)

Section Quiescence.

(* The invariant carried along the search. [RepInv] alone is NOT preserved by push for every
   generated move (Proofs/PushPop2.v has the counterexamples and the repair: together with
   KingsInv it is), so the invariant is kept abstract as [Good]; Proofs/BoundsInst.v instantiates it
   with  RepInv g /\ KingsInv g  and discharges the three hypotheses from Proofs/GenOk.v and
   Proofs/PushPop2.v. *)
Variable Good : game -> Prop.
Hypothesis Good_rep : forall g, Good g -> RepInv g.
Hypothesis Hgen : forall g m, RepInv g -> In m (pseudo_moves g) -> gen_ok g m.
Hypothesis Hpush : forall g m, Good g -> In m (pseudo_moves g) -> Good (push g m).

Lemma qloop_total (q : game -> Z -> Z -> Z -> option Z) g beta real :
  (forall m a b r, In m (pseudo_moves g) -> is_tactical m = true -> exists z, q (push g m) a b r = Some z) ->
  forall ms alpha, incl ms (pseudo_moves g) -> exists z, qloop q g beta real ms alpha = Some z.
Proof.
  intros Hq. induction ms as [|m rest IH]; intros alpha Hincl; [rewrite qloop_nil; eauto|]. rewrite qloop_cons.
  assert (Hrest : incl rest (pseudo_moves g)) by (intros x Hx; apply Hincl; now right).
  destruct (is_tactical m) eqn:Ht; cbn [negb]; [|now apply IH].
  destruct (Hq m (- beta) (- alpha) (Z.min 255 (real + 1)) (Hincl m (or_introl eq_refl)) Ht) as [s ->].
  destruct (beta <=? (if alpha <? - s then - s else alpha)); [eauto | now apply IH].
Qed.

(* facts about one generated move under the invariant *)
Lemma good_step g m :
  Good g -> In m (pseudo_moves g) ->
  Good (push g m) /\ (mu (push g m) <= mu g)%nat
  /\ (is_tactical m = true -> (mu (push g m) < mu g)%nat).
Proof.
  intros Hg Hin. pose proof (Good_rep g Hg) as Hinv. pose proof (Hgen g m Hinv Hin) as Hok.
  split; [now apply Hpush|]. split; [now apply mu_push_le | now apply mu_push_lt].
Qed.

(* the main statement: fuel above the potential is never exhausted, on every board *)
Theorem quiescence_fuel fuel g alpha beta real :
  Good g -> (mu g < fuel)%nat -> exists z, quiescence fuel g alpha beta real = Some z.
Proof.
  revert g alpha beta real. induction fuel as [|f IH]; intros g alpha beta real Hg Hmu; [lia|].
  rewrite quiescence_S. cbv zeta.
  destruct (beta <=? Z.max alpha (g_score g * color_sign (g_player g))); [eauto|].
  destruct (pseudo_moves g) as [|m0 ms0] eqn:Epm; [eauto|]. rewrite <- Epm.
  apply qloop_total; [| apply incl_refl].
  intros m a b r Hin Ht. destruct (good_step g m Hg Hin) as (Hg' & _ & Hlt).
  apply IH; [assumption|]. specialize (Hlt Ht). lia.
Qed.

(* the nesting depth is at most mu g: more fuel than mu g + 1 is never looked at *)
Theorem quiescence_depth fuel g alpha beta real :
  Good g -> (mu g < fuel)%nat ->
  quiescence fuel g alpha beta real = quiescence (S (mu g)) g alpha beta real.
Proof.
  intros Hg Hmu.
  destruct (quiescence_fuel (S (mu g)) g alpha beta real Hg ltac:(lia)) as [z Hz].
  rewrite Hz. apply (quiescence_fuel_mono (S (mu g))); [lia | assumption].
Qed.

(* with the fuel of the model: total whenever the potential is below QFUEL *)
Corollary quiescence_total g alpha beta real :
  Good g -> (mu g < QFUEL)%nat -> exists z, quiescence QFUEL g alpha beta real = Some z.
Proof. apply quiescence_fuel. Qed.

(* and on every board as soon as QFUEL is raised above the maximum of the potential (see
   qfuel_covers_all_boards below) *)
Corollary quiescence_total_all g alpha beta real :
  (128 < QFUEL)%nat -> Good g -> exists z, quiescence QFUEL g alpha beta real = Some z.
Proof. intros HQ Hg. apply quiescence_fuel; [assumption|]. pose proof (mu_bound g). lia. Qed.

(* the form asked for: a bound for each pushed game is enough *)
Corollary depth1_total_pushes g alpha beta real :
  Good g -> (forall m, In m (pseudo_moves g) -> (mu (push g m) < QFUEL)%nat) ->
  exists z, depth1 g alpha beta real = Some z.
Proof.
  intros Hg Hmu.
  assert (forall ms a, incl ms (pseudo_moves g) -> exists z, depth1_loop g ms a beta real = Some z) as H.
  { induction ms as [|m rest IH]; intros a Hincl; cbn [depth1_loop]; [eauto|].
    assert (Hin : In m (pseudo_moves g)) by (apply Hincl; now left).
    assert (Hrest : incl rest (pseudo_moves g)) by (intros x Hx; apply Hincl; now right).
    destruct (quiescence_total (push g m) (- beta) (- a) (real + 1)) as [s ->].
    - now apply (good_step g m).
    - now apply Hmu.
    - cbv zeta. destruct (beta <=? (if a <? - s then - s else a)); [eauto | now apply IH]. }
  unfold depth1. destruct (pseudo_moves g) as [|m0 ms0] eqn:E; [eauto|].
  rewrite <- E in *. apply H, incl_refl.
Qed.

(* generated moves never raise the potential, so a bound for the node itself suffices *)
Corollary depth1_total g alpha beta real :
  Good g -> (mu g < QFUEL)%nat -> exists z, depth1 g alpha beta real = Some z.
Proof.
  intros Hg Hmu. apply depth1_total_pushes; [assumption|].
  intros m Hin. destruct (good_step g m Hg Hin) as (_ & Hle & _). lia.
Qed.

(* ---- the games met during a search and the length of their state stacks ------------------------------ *)

(* one generated move / one tactical generated move *)
Definition gstep (g g' : game) : Prop := exists m, In m (pseudo_moves g) /\ g' = push g m.
Definition tstep (g g' : game) : Prop :=
  exists m, In m (pseudo_moves g) /\ is_tactical m = true /\ g' = push g m.

(* the games quiescence recurses into *)
Inductive qreach : game -> game -> Prop :=
| qreach_refl g : qreach g g
| qreach_step g g1 g2 : tstep g g1 -> qreach g1 g2 -> qreach g g2.

(* at most n generated moves (root, node, depth1: one push per ply of depth; the legality filter
   of checked_moves: one more), then quiescence *)
Inductive sreach : nat -> game -> game -> Prop :=
| sreach_q n g g' : qreach g g' -> sreach n g g'
| sreach_step n g g1 g' : gstep g g1 -> sreach n g1 g' -> sreach (S n) g g'.

Theorem qreach_bound g g' :
  Good g -> qreach g g' -> Good g' /\ (glen g' + mu g' <= glen g + mu g)%nat.
Proof.
  intros Hg H. induction H as [g | g g1 g2 (m & Hin & Ht & ->) _ IH]; [split; [assumption | lia]|].
  destruct (good_step g m Hg Hin) as (Hg' & _ & Hlt). specialize (Hlt Ht).
  destruct (IH Hg') as [Hg2 Hle]. split; [assumption|]. rewrite glen_push in Hle. lia.
Qed.

(* inside quiescence the stack holds at most glen g + mu g states: the chain of nested calls has
   at most mu g links *)
Corollary qreach_glen g g' : Good g -> qreach g g' -> (glen g' <= glen g + mu g)%nat.
Proof. intros Hg H. destruct (qreach_bound g g' Hg H). lia. Qed.

Theorem sreach_bound n g g' :
  Good g -> sreach n g g' -> Good g' /\ (glen g' + mu g' <= glen g + n + mu g)%nat.
Proof.
  intros Hg H. induction H as [n g g' Hq | n g g1 g' (m & Hin & ->) _ IH].
  - destruct (qreach_bound g g' Hg Hq). split; [assumption | lia].
  - destruct (good_step g m Hg Hin) as (Hg' & Hle' & _).
    destruct (IH Hg') as [Hg2 Hle]. split; [assumption|]. rewrite glen_push in Hle. lia.
Qed.

(* C15_stack: from a game accepted by the length guard, a search of iteration depth <= 255 (at
   most 256 pushes before quiescence, counting generously) never fills the state stack: every
   game met has fewer than STATE_STACK_CAP states, so the unchecked push is in range *)
Theorem C15_stack g g' n :
  Good g -> Z.of_nat (glen g) <= GAME_LENGTH_GUARD -> (n <= 256)%nat ->
  sreach n g g' -> Z.of_nat (glen g') + 1 <= STATE_STACK_CAP.
Proof.
  intros Hg Hlen Hn H. destruct (sreach_bound n g g' Hg H) as [_ Hle].
  pose proof (mu_bound g). pose proof cap_suffices.
  unfold GAME_LENGTH_GUARD, STATE_STACK_CAP in *. lia.
Qed.

End Quiescence.

(* the PV walk after an iteration: at most depth <= 255 pushes of table moves from the root game *)
Theorem C15_stack_pv g g' n :
  Z.of_nat (glen g) <= GAME_LENGTH_GUARD -> (n <= 255)%nat ->
  walk_reach n g g' -> Z.of_nat (glen g') + 1 <= STATE_STACK_CAP.
Proof.
  intros Hlen Hn H. pose proof (walk_reach_glen n g g' H).
  unfold GAME_LENGTH_GUARD, STATE_STACK_CAP in *. lia.
Qed.

(* mu can be as large as 128, so a fuel above 128 covers every board; the model's QFUEL is *)
Example qfuel_covers_all_boards : (128 < QFUEL)%nat.
Proof. vm_compute. repeat constructor. Qed.

Print Assumptions mu_bound.
Print Assumptions muZ_push.
Print Assumptions mu_push_lt.
Print Assumptions mu_push_le.
Print Assumptions quiescence_fuel_mono.
Print Assumptions quiescence_fuel.
Print Assumptions quiescence_depth.
Print Assumptions quiescence_total.
Print Assumptions quiescence_total_all.
Print Assumptions depth1_total.
Print Assumptions depth1_total_pushes.
Print Assumptions qreach_bound.
Print Assumptions sreach_bound.
Print Assumptions C15_stack.
Print Assumptions C15_stack_pv.
