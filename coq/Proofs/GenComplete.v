(* Completeness of the engine model's move generator with respect to the FIDE rules
   specification (Spec/Rules.v):

     gen_complete : every pseudo-legal move of the rules (as a from / to / promotion triple) is
       the [abs_move] image of a generated move, except the king steps that end within distance
       one of the cached square of the other king, which the engine omits on purpose
       ([king_steps] of Model/MoveGen.v);
     king_next_to_king_illegal : those omitted moves are never legal (the other king attacks
       the destination), as long as the destination is not the other king's own square
       (equivalently: the side not to move is not in check); the exception is real, see
       [king_capture_counterexample];
     gen_complete_legal : hence every legal move is generated;
     gen_complete_pseudo : the same for the truncated buffer [pseudo_moves] while at most
       MOVE_BUFFER_CAP moves are generated.

   Completeness needs no invariant at all: the generator tests a subset of the conditions of
   the rules (castling: no look at king or rook; en passant: no look at the board). The
   invariants are needed only for the illegality of the omitted king steps.
   The converse direction (generated => pseudo-legal) is in another file. *)
From Coq Require Import Lia ZifyBool String.
From Chess Require Import Model.MoveGen Spec.Rules Proofs.Grid Proofs.Inv Proofs.GenOk
  Proofs.AttackSpec Proofs.PushPop2 Proofs.Abs Proofs.FenImport1.
Open Scope Z_scope.

(* ---- small tools ------------------------------------------------------------------------------ *)

Lemma on_board_valid p : on_board p = true <-> valid p.
Proof. unfold on_board, valid. lia. Qed.

Lemma add_to p d t :
  valid t -> fst t = fst p + fst d -> snd t = snd p + snd d -> add p d = Some t.
Proof.
  intros Hv E1 E2. unfold add. rewrite <- E1, <- E2.
  destruct t as [r c]. cbn [fst snd].
  rewrite (proj2 (AttackSpec.in_range_valid r c) Hv). reflexivity.
Qed.

Lemma empty_gget g p : empty (g_board g) p = is_none (gget g p).
Proof. reflexivity. Qed.

Lemma back_rank_home c : back_rank c = home_row c.
Proof. destruct c; reflexivity. Qed.
Lemma pawn_start_first c : pawn_start c = PAWN_FIRST_ROW c.
Proof. destruct c; reflexivity. Qed.
Lemma promo_rank_last c : promo_rank c = PAWN_LAST_ROW c.
Proof. destruct c; reflexivity. Qed.
Lemma ep_from_rank_row c : ep_from_rank c = PAWN_EP_ROW c.
Proof. destruct c; reflexivity. Qed.
Lemma pawn_normal_delta c : PAWN_NORMAL_DELTA c = (pawn_dir c, 0).
Proof. destruct c; reflexivity. Qed.
Lemma pawn_first_delta c : PAWN_FIRST_DELTA c = (2 * pawn_dir c, 0).
Proof. destruct c; reflexivity. Qed.
Lemma ep_rows_dir c : ep_rows c = (ep_from_rank c, ep_from_rank c + pawn_dir c).
Proof. destruct c; reflexivity. Qed.

(* ---- the generated direction / delta lists are the full sets ---------------------------------- *)

Lemma gen_rook_sweep : list_is rook_dir GEN_ROOK_DIRS = true.
Proof. vm_compute. reflexivity. Qed.
Lemma gen_bishop_sweep : list_is bishop_dir GEN_BISHOP_DIRS = true.
Proof. vm_compute. reflexivity. Qed.
Lemma gen_queen_sweep : list_is king_geo GEN_QUEEN_DIRS = true.
Proof. vm_compute. reflexivity. Qed.
Lemma gen_king_sweep : list_is king_geo GEN_KING_DELTAS = true.
Proof. vm_compute. reflexivity. Qed.
Lemma gen_knight_sweep : list_is knight_geo GEN_KNIGHT_DELTAS = true.
Proof. vm_compute. reflexivity. Qed.

Lemma gen_rook_spec o : In o GEN_ROOK_DIRS <-> rook_dir o = true.
Proof. apply (list_is_spec _ _ gen_rook_sweep). unfold rook_dir, is_dir. intros; lia. Qed.
Lemma gen_bishop_spec o : In o GEN_BISHOP_DIRS <-> bishop_dir o = true.
Proof. apply (list_is_spec _ _ gen_bishop_sweep). unfold bishop_dir, is_dir. intros; lia. Qed.
Lemma gen_queen_spec o : In o GEN_QUEEN_DIRS <-> is_dir o = true.
Proof. apply (list_is_spec _ _ gen_queen_sweep). unfold king_geo, is_dir. intros; lia. Qed.
Lemma gen_king_spec o : In o GEN_KING_DELTAS <-> is_dir o = true.
Proof. apply (list_is_spec _ _ gen_king_sweep). unfold king_geo, is_dir. intros; lia. Qed.
Lemma gen_knight_spec o : In o GEN_KNIGHT_DELTAS <-> knight_geo o = true.
Proof. apply (list_is_spec _ _ gen_knight_sweep). unfold knight_geo. intros; lia. Qed.

Definition promo_all (l : list kind) : bool :=
  forallb (fun k => existsb (kind_eqb k) l) [Queen; Rook; Bishop; Knight].

Lemma promo_all_spec l k : promo_all l = true -> promo_kind k -> In k l.
Proof.
  unfold promo_all. intros H Hk. rewrite forallb_forall in H.
  assert (Hin : In k [Queen; Rook; Bishop; Knight]).
  { destruct Hk as [->|[->|[->| ->]]]; cbn; tauto. }
  specialize (H k Hin). apply existsb_exists in H. destruct H as (k' & Hk' & E).
  apply kind_eqb_eq in E. now subst.
Qed.

Lemma promo_push_all : promo_all PROMOTION_KINDS_PUSH = true.
Proof. vm_compute. reflexivity. Qed.
Lemma promo_capture_all : promo_all PROMOTION_KINDS_CAPTURE = true.
Proof. vm_compute. reflexivity. Qed.

Lemma side_delta_in c d : fst d = pawn_dir c -> Z.abs (snd d) = 1 -> In d (PAWN_SIDE_DELTAS c).
Proof.
  destruct d as [r f]. cbn [fst snd]. intros -> Hf.
  assert (f = 1 \/ f = -1) as [-> | ->] by lia; destruct c; cbn; tauto.
Qed.

(* ---- sliders ------------------------------------------------------------------------------------ *)

(* the ray walk reaches every square up to (and including) the first occupied one *)
Lemma ray_moves_complete g self p d :
  valid p -> is_dir d = true ->
  forall fuel x n, 1 <= x <= n -> 9 <= Z.of_nat fuel + x -> valid (step p n d) ->
    (forall j, x <= j < n -> gget g (step p j d) = None) ->
    own g (gget g (step p n d)) = false ->
    In (Normal self p (step p n d) (gget g (step p n d))) (ray_moves fuel g self p d x).
Proof.
  intros Hp Hd. induction fuel as [|f IH]; intros x n Hx Hf Hv Hempty Hown.
  - exfalso. apply (step_far p d n); auto. lia.
  - cbn [ray_moves].
    destruct (add_cases p (scale x d)) as [[E Hvx] | [E Hvx]]; rewrite E; rewrite plus_scale in *.
    + destruct (Z.eq_dec x n) as [->|Hne].
      * destruct (gget g (step p n d)) as [pc|] eqn:Eg.
        -- cbn [own] in Hown. rewrite Hown. cbn [negb]. left; reflexivity.
        -- left; reflexivity.
      * rewrite (Hempty x) by lia. right. apply IH; try lia; auto. intros j Hj. apply Hempty. lia.
    + exfalso. apply Hvx. apply (step_convex p d n x); auto. lia.
Qed.

(* [clear_path] read from the mover's square towards the target *)
Lemma clear_path_fwd b p d n :
  is_dir d = true -> 1 <= n -> valid p -> valid (step p n d) ->
  clear_path b p (step p n d) = true -> forall j, 0 < j < n -> bget b (step p j d) = None.
Proof.
  intros Hd Hn Hp Ht Hcp j Hj.
  set (d' := (- fst d, - snd d)).
  assert (Hd' : is_dir d' = true) by (unfold is_dir, d' in *; cbn [fst snd]; lia).
  assert (E1 : step (step p n d) n d' = p)
    by (destruct p; unfold step, d'; cbn [fst snd]; f_equal; lia).
  assert (E2 : step (step p n d) (n - j) d' = step p j d)
    by (unfold step, d'; cbn [fst snd]; f_equal; lia).
  rewrite <- E2.
  assert (Hv' : valid (step (step p n d) n d')) by (rewrite E1; exact Hp).
  apply (proj1 (clear_path_step b (step p n d) d' n Hd' Hn Ht Hv')); [|lia].
  rewrite E1. exact Hcp.
Qed.

Lemma aligned_complete g self p t dirs :
  valid p -> valid t -> t <> p ->
  (fst p - fst t = 0 \/ snd p - snd t = 0 \/ Z.abs (fst p - fst t) = Z.abs (snd p - snd t)) ->
  (forall d, is_dir d = true ->
      (fst p - fst t = 0 \/ snd p - snd t = 0 -> fst d = 0 \/ snd d = 0) ->
      (Z.abs (fst p - fst t) = Z.abs (snd p - snd t) -> fst d <> 0 /\ snd d <> 0) -> In d dirs) ->
  clear_path (g_board g) p t = true -> own g (gget g t) = false ->
  In (Normal self p t (gget g t)) (slider_moves g self p dirs).
Proof.
  intros Hp Ht Hne Hal Hdirs Hcp Hown.
  destruct (line_decompose t p Hne Hal) as (d & n & Hd & Hn & E & Ho & Hdg).
  unfold slider_moves. apply in_flat_map. exists d. split; [apply Hdirs; assumption|].
  rewrite E in *.
  apply ray_moves_complete; auto; try lia.
  intros j Hj. apply (clear_path_fwd (g_board g) p d n); auto. lia.
Qed.

(* ---- knight, king steps --------------------------------------------------------------------------- *)

Lemma knight_moves_complete g self p t :
  valid t -> knight_geo (off t p) = true -> own g (gget g t) = false ->
  In (Normal self p t (gget g t)) (knight_moves g self p).
Proof.
  intros Hv HG Hown. unfold knight_moves. apply in_flat_map. exists (off t p). split.
  - apply gen_knight_spec. exact HG.
  - destruct (add_cases p (off t p)) as [[E _]|[E Hn]]; rewrite plus_off in *.
    + rewrite E. cbv zeta. rewrite Hown. left. reflexivity.
    + contradiction.
Qed.

Lemma king_steps_complete g self p t :
  valid t -> is_dir (off t p) = true -> own g (gget g t) = false ->
  ~ (Z.abs (fst t - fst (king_pos g (other (g_player g)))) <= 1
     /\ Z.abs (snd t - snd (king_pos g (other (g_player g)))) <= 1) ->
  In (Normal self p t (gget g t)) (king_steps g self p).
Proof.
  intros Hv HG Hown Hfar. unfold king_steps. cbv zeta. apply in_flat_map. exists (off t p). split.
  - apply gen_king_spec. exact HG.
  - destruct (add_cases p (off t p)) as [[E _]|[E Hn]]; rewrite plus_off in *.
    + rewrite E, Hown.
      match goal with |- In _ (if ?c then _ else _) => destruct c eqn:En end.
      * exfalso. apply Hfar. lia.
      * left. reflexivity.
    + contradiction.
Qed.

(* ---- castling ---------------------------------------------------------------------------------------- *)

Lemma castling_short_complete g :
  right_k g (g_player g) = true ->
  gget g (home_row (g_player g), 5) = None -> gget g (home_row (g_player g), 6) = None ->
  is_targeted g (home_row (g_player g), 4) (g_player g) = false ->
  is_targeted g (home_row (g_player g), 5) (g_player g) = false ->
  is_targeted g (home_row (g_player g), 6) (g_player g) = false ->
  In (CastlingShort (g_player g)) (castling_moves g).
Proof.
  unfold castling_moves, right_k. cbv zeta. intros H1 H2 H3 H4 H5 H6.
  destruct (g_player g); cbv beta iota; apply in_or_app; left;
    rewrite H1, H2, H3, H4, H5, H6; left; reflexivity.
Qed.

Lemma castling_long_complete g :
  right_q g (g_player g) = true ->
  gget g (home_row (g_player g), 1) = None -> gget g (home_row (g_player g), 2) = None ->
  gget g (home_row (g_player g), 3) = None ->
  is_targeted g (home_row (g_player g), 4) (g_player g) = false ->
  is_targeted g (home_row (g_player g), 2) (g_player g) = false ->
  is_targeted g (home_row (g_player g), 3) (g_player g) = false ->
  In (CastlingLong (g_player g)) (castling_moves g).
Proof.
  unfold castling_moves, right_q. cbv zeta. intros H1 H2 H3 H4 H5 H6 H7.
  destruct (g_player g); cbv beta iota; apply in_or_app; right;
    rewrite H1, H2, H3, H4, H5, H6, H7; left; reflexivity.
Qed.

Lemma right_of_abs_k g c : right_of (abs_rights (gstate_of g)) c true = right_k g c.
Proof. destruct c; reflexivity. Qed.
Lemma right_of_abs_q g c : right_of (abs_rights (gstate_of g)) c false = right_q g c.
Proof. destruct c; reflexivity. Qed.

Lemma not_attacked_targeted g p :
  valid p -> negb (attacked (g_board g) p (other (g_player g))) = true ->
  is_targeted g p (g_player g) = false.
Proof.
  intros Hv H. rewrite (is_targeted_is_attacked g p (g_player g) Hv).
  now apply negb_true_iff in H.
Qed.

Lemma castling_complete g side :
  castling_ok (abs g) side = true ->
  In (if side then CastlingShort (g_player g) else CastlingLong (g_player g)) (castling_moves g).
Proof.
  unfold castling_ok. cbn [abs p_board p_turn p_rights]. rewrite back_rank_home.
  set (c := g_player g). set (r := home_row c).
  assert (Hv : forall f, 0 <= f < 8 -> valid (r, f)).
  { intros f Hf. unfold r. destruct c; split; cbn [fst snd home_row]; lia. }
  intros H.
  repeat (apply andb_true_iff in H; let H' := fresh "H" in destruct H as [H H']).
  destruct side.
  - rewrite right_of_abs_k in H. apply andb_true_iff in H3. destruct H3 as [E5 E6].
    rewrite empty_gget in E5, E6. apply is_none_true in E5, E6.
    apply castling_short_complete; auto; apply not_attacked_targeted; auto; apply Hv; lia.
  - rewrite right_of_abs_q in H. apply andb_true_iff in H3. destruct H3 as [E1 E3].
    apply andb_true_iff in E1. destruct E1 as [E1 E2].
    rewrite empty_gget in E1, E2, E3. apply is_none_true in E1, E2, E3.
    apply castling_long_complete; auto; apply not_attacked_targeted; auto; apply Hv; lia.
Qed.

(* ---- pawns --------------------------------------------------------------------------------------------- *)

(* arriving on [np]: the promotion kind asked for is among the generated ones *)
Lemma pawn_arrive_complete g self p np cap pr l :
  po self = g_player g ->
  (if fst np =? promo_rank (g_player g) then promo_ok pr
   else match pr with None => true | Some _ => false end) = true ->
  promo_all l = true ->
  exists m, In m (if PAWN_LAST_ROW (po self) =? fst np
                  then map (fun k => Promotion (g_player g) k p np cap) l
                  else [Normal self p np cap])
            /\ abs_move m = mkSMove p np pr.
Proof.
  intros Ho Hpr Hl. rewrite Ho, <- promo_rank_last, Z.eqb_sym.
  destruct (fst np =? promo_rank (g_player g)).
  - destruct pr as [k|]; [|discriminate].
    exists (Promotion (g_player g) k p np cap). split; [|reflexivity].
    apply in_map_iff. exists k. split; [reflexivity|].
    apply (promo_all_spec l k Hl). unfold promo_kind.
    destruct k; try discriminate; tauto.
  - destruct pr; [discriminate|]. exists (Normal self p np cap). split; [left|]; reflexivity.
Qed.

Lemma pawn_single_complete g self p t pr :
  po self = g_player g -> valid t ->
  snd t - snd p = 0 -> fst t - fst p = pawn_dir (g_player g) -> empty (g_board g) t = true ->
  (if fst t =? promo_rank (g_player g) then promo_ok pr
   else match pr with None => true | Some _ => false end) = true ->
  exists m, In m (pawn_single g self p) /\ abs_move m = mkSMove p t pr.
Proof.
  intros Ho Hv Hc Hr He Hpr. unfold pawn_single.
  rewrite (add_to p (PAWN_NORMAL_DELTA (po self)) t Hv)
    by (rewrite Ho, pawn_normal_delta; cbn [fst snd]; lia).
  rewrite empty_gget in He. rewrite He. apply is_none_true in He.
  apply pawn_arrive_complete; [assumption | assumption | exact promo_push_all].
Qed.

Lemma pawn_double_complete g self p t pr :
  po self = g_player g -> valid p ->
  snd t - snd p = 0 -> fst t - fst p = 2 * pawn_dir (g_player g) ->
  fst p = pawn_start (g_player g) ->
  empty (g_board g) (fst p + pawn_dir (g_player g), snd p) = true -> empty (g_board g) t = true ->
  (if fst t =? promo_rank (g_player g) then promo_ok pr
   else match pr with None => true | Some _ => false end) = true ->
  exists m, In m (pawn_double g self p) /\ abs_move m = mkSMove p t pr.
Proof.
  intros Ho Hv Hc Hr Hs He1 He2 Hpr. unfold pawn_double.
  rewrite !add_unsafe_eq, Ho, pawn_normal_delta, pawn_first_delta, <- pawn_start_first.
  cbn [fst snd].
  assert (Et : t = (fst p + 2 * pawn_dir (g_player g), snd p + 0))
    by (destruct t; cbn [fst snd] in *; f_equal; lia).
  replace (snd p + 0) with (snd p) in * by lia.
  rewrite empty_gget in He1, He2. rewrite <- Et, He1, He2.
  replace (fst p =? pawn_start (g_player g)) with true by lia.
  cbn [andb].
  replace (fst t =? promo_rank (g_player g)) with false in Hpr
    by (destruct (g_player g); cbn [pawn_start promo_rank pawn_dir] in *; lia).
  destruct pr; [discriminate|].
  exists (Normal self p t None). split; [left|]; reflexivity.
Qed.

Lemma pawn_captures_complete g self p t pr :
  po self = g_player g -> valid t ->
  Z.abs (snd t - snd p) = 1 -> fst t - fst p = pawn_dir (g_player g) ->
  empty (g_board g) t = false -> own g (gget g t) = false ->
  (if fst t =? promo_rank (g_player g) then promo_ok pr
   else match pr with None => true | Some _ => false end) = true ->
  exists m, In m (pawn_captures g self p) /\ abs_move m = mkSMove p t pr.
Proof.
  intros Ho Hv Hc Hr He Hown Hpr. unfold pawn_captures.
  assert (Hd : In (off t p) (PAWN_SIDE_DELTAS (po self))).
  { rewrite Ho. apply side_delta_in; unfold off; cbn [fst snd]; assumption. }
  assert (Ea : add p (off t p) = Some t)
    by (apply add_to; auto; unfold off; cbn [fst snd]; lia).
  rewrite empty_gget in He.
  destruct (gget g t) as [pc|] eqn:Eg; [|discriminate].
  cbn [own] in Hown.
  destruct (pawn_arrive_complete g self p t (Some pc) pr PROMOTION_KINDS_CAPTURE Ho Hpr
              promo_capture_all) as (m & Hin & Em).
  exists m. split; [|exact Em].
  apply in_flat_map. exists (off t p). split; [exact Hd|].
  rewrite Ea, Eg.
  replace (negb (color_eqb (po pc) (po self))) with true by (rewrite Ho, Hown; reflexivity).
  exact Hin.
Qed.

Lemma pawn_ep_complete g self p t :
  po self = g_player g ->
  fst p = ep_from_rank (g_player g) ->
  fst t = ep_from_rank (g_player g) + pawn_dir (g_player g) ->
  Z.abs (snd t - snd p) = 1 ->
  match abs_ep (gstate_of g) with Some f => f =? snd t | None => false end = true ->
  exists m, In m (pawn_ep g self p) /\ abs_move m = mkSMove p t None.
Proof.
  intros Ho Hp Ht Hc Hep. unfold pawn_ep. unfold abs_ep in Hep.
  destruct (st_ep (gstate_of g) <? 8) eqn:Elt; [|discriminate].
  apply Z.eqb_eq in Hep.
  rewrite Ho, <- ep_from_rank_row.
  replace (fst p =? ep_from_rank (g_player g)) with true by lia.
  replace (Z.abs (st_ep (gstate_of g) - snd p) =? 1) with true by lia.
  cbn [andb].
  exists (EnPassant (g_player g) (snd p) (st_ep (gstate_of g))). split; [left; reflexivity|].
  cbn [abs_move]. rewrite ep_rows_dir. cbn [fst snd].
  destruct p as [pr pc], t as [tr tc]. cbn [fst snd] in *. subst. reflexivity.
Qed.

(* ---- the theorem ------------------------------------------------------------------------------------------ *)

(* the moving piece is the king of the side to move and the destination is within distance one
   of the cached square of the other king *)
Definition king_next_to_king (g : game) (sm : smove) : Prop :=
  gget g (m_from sm) = Some (mkPiece King (g_player g))
  /\ Z.abs (fst (m_to sm) - fst (king_pos g (other (g_player g)))) <= 1
  /\ Z.abs (snd (m_to sm) - snd (king_pos g (other (g_player g)))) <= 1.

Lemma is_castling_some p m side :
  is_castling p m = Some side ->
  m_from m = (back_rank (p_turn p), 4)
  /\ m_to m = (back_rank (p_turn p), if side then 6 else 2).
Proof.
  unfold is_castling.
  destruct (has (p_board p) (m_from m) King (p_turn p) && pos_eqb (m_from m) (back_rank (p_turn p), 4))
    eqn:E; [|discriminate].
  apply andb_true_iff in E. destruct E as [_ E]. apply pos_eqb_eq in E.
  destruct (pos_eqb (m_to m) (back_rank (p_turn p), 6)) eqn:E6.
  - intros X. inversion X. apply pos_eqb_eq in E6. now split.
  - destruct (pos_eqb (m_to m) (back_rank (p_turn p), 2)) eqn:E2; [|discriminate].
    intros X. inversion X. apply pos_eqb_eq in E2. now split.
Qed.

(* no invariant is needed *)
Theorem gen_complete_noinv : forall g sm,
  pseudo_legal (abs g) sm = true -> ~ king_next_to_king g sm ->
  exists m, In m (pseudo_moves_all g) /\ abs_move m = sm.
Proof.
  intros g [a t pr] H Hk. unfold pseudo_legal in H. cbv zeta in H.
  cbn [abs p_board p_turn m_from m_to m_promo] in H.
  apply andb_true_iff in H. destruct H as [H Hpc]. apply andb_true_iff in H. destruct H as [Ha Ht].
  apply on_board_valid in Ha, Ht.
  change (at_ (g_board g) a) with (gget g a) in Hpc.
  destruct (gget g a) as [pc|] eqn:Ea; [|discriminate].
  apply andb_true_iff in Hpc. destruct Hpc as [Hpc Hkind].
  apply andb_true_iff in Hpc. destruct Hpc as [Hc Hown'].
  apply color_eqb_eq in Hc.
  assert (Hsrc : src_ok g pc a) by (repeat split; try assumption; apply Ha).
  assert (Hown : own g (gget g t) = false).
  { unfold color_at in Hown'. change (at_ (g_board g) t) with (gget g t) in Hown'.
    destruct (gget g t) as [pc'|]; [|reflexivity]. cbn [own]. now apply negb_true_iff. }
  assert (Hfin : forall m, In m (piece_moves g pc a) -> abs_move m = mkSMove a t pr ->
                           exists m, In m (pseudo_moves_all g) /\ abs_move m = mkSMove a t pr).
  { intros m Hin Em. exists m. split; [|exact Em]. exact (pseudo_all_intro g m a pc Hsrc Hin). }
  assert (Hatt : attacks (g_board g) a t =
                 negb (pos_eqb a t) &&
                 match pk pc with
                 | Knight => ((Z.abs (fst t - fst a) =? 1) && (Z.abs (snd t - snd a) =? 2))
                             || ((Z.abs (fst t - fst a) =? 2) && (Z.abs (snd t - snd a) =? 1))
                 | King => (Z.abs (fst t - fst a) <=? 1) && (Z.abs (snd t - snd a) <=? 1)
                 | Rook => ((fst t - fst a =? 0) || (snd t - snd a =? 0)) && clear_path (g_board g) a t
                 | Bishop => (Z.abs (fst t - fst a) =? Z.abs (snd t - snd a)) && clear_path (g_board g) a t
                 | Queen => ((fst t - fst a =? 0) || (snd t - snd a =? 0)
                             || (Z.abs (fst t - fst a) =? Z.abs (snd t - snd a)))
                            && clear_path (g_board g) a t
                 | Pawn => (fst t - fst a =? pawn_dir (po pc)) && (Z.abs (snd t - snd a) =? 1)
                 end).
  { unfold attacks. change (at_ (g_board g) a) with (gget g a). rewrite Ea. reflexivity. }
  assert (Hne : negb (pos_eqb a t) = true -> t <> a).
  { intros X E. subst. rewrite pos_eqb_refl in X. discriminate. }
  destruct (pk pc) eqn:Epk.
  - (* Queen *)
    destruct pr; [discriminate|]. rewrite Hatt in Hkind.
    apply andb_true_iff in Hkind. destruct Hkind as [Hn Hkind].
    apply andb_true_iff in Hkind. destruct Hkind as [Hal Hcp].
    apply (Hfin (Normal pc a t (gget g t))); [|reflexivity].
    unfold piece_moves. rewrite Epk.
    apply aligned_complete; auto; [lia|].
    intros d Hd _ _. now apply gen_queen_spec.
  - (* Rook *)
    destruct pr; [discriminate|]. rewrite Hatt in Hkind.
    apply andb_true_iff in Hkind. destruct Hkind as [Hn Hkind].
    apply andb_true_iff in Hkind. destruct Hkind as [Hal Hcp].
    apply (Hfin (Normal pc a t (gget g t))); [|reflexivity].
    unfold piece_moves. rewrite Epk.
    apply aligned_complete; auto; [lia|].
    intros d Hd Ho _. apply gen_rook_spec. apply rook_dir_iff. split; [exact Hd|]. apply Ho. lia.
  - (* Bishop *)
    destruct pr; [discriminate|]. rewrite Hatt in Hkind.
    apply andb_true_iff in Hkind. destruct Hkind as [Hn Hkind].
    apply andb_true_iff in Hkind. destruct Hkind as [Hal Hcp].
    apply (Hfin (Normal pc a t (gget g t))); [|reflexivity].
    unfold piece_moves. rewrite Epk.
    apply aligned_complete; auto; [lia|].
    intros d Hd _ Hdg. apply gen_bishop_spec. apply bishop_dir_iff. split; [exact Hd|]. apply Hdg. lia.
  - (* Knight *)
    destruct pr; [discriminate|]. rewrite Hatt in Hkind.
    apply andb_true_iff in Hkind. destruct Hkind as [Hn Hkind].
    apply (Hfin (Normal pc a t (gget g t))); [|reflexivity].
    unfold piece_moves. rewrite Epk.
    apply knight_moves_complete; auto.
  - (* Pawn *)
    apply andb_true_iff in Hkind. destruct Hkind as [Hpr Hkind].
    assert (Hsub : forall l, (exists m, In m l /\ abs_move m = mkSMove a t pr) ->
                             (forall m, In m l -> In m (pawn_moves g pc a)) ->
                             exists m, In m (pseudo_moves_all g) /\ abs_move m = mkSMove a t pr).
    { intros l (m & Hin & Em) Hl. apply (Hfin m); [|exact Em].
      unfold piece_moves. rewrite Epk. now apply Hl. }
    apply orb_true_iff in Hkind. destruct Hkind as [Hkind|Hep].
    + apply orb_true_iff in Hkind. destruct Hkind as [Hkind|Hcap].
      * apply orb_true_iff in Hkind. destruct Hkind as [Hs|Hd].
        -- (* single push *)
           apply (Hsub (pawn_single g pc a)).
           ++ apply pawn_single_complete; auto; lia.
           ++ intros m Hm. rewrite pawn_moves_split, !in_app_iff. tauto.
        -- (* double push *)
           apply (Hsub (pawn_double g pc a)).
           ++ apply pawn_double_complete; auto; lia.
           ++ intros m Hm. rewrite pawn_moves_split, !in_app_iff. tauto.
      * (* capture *)
        apply (Hsub (pawn_captures g pc a)).
        -- apply pawn_captures_complete; auto; lia.
        -- intros m Hm. rewrite pawn_moves_split, !in_app_iff. tauto.
    + (* en passant *)
      unfold is_en_passant in Hep. cbn [abs p_board p_turn p_ep m_from m_to] in Hep.
      repeat (apply andb_true_iff in Hep; let H' := fresh "E" in destruct Hep as [Hep H']).
      assert (Ept : fst t =? promo_rank (g_player g) = false)
        by (destruct (g_player g); cbn [ep_from_rank promo_rank pawn_dir] in *; lia).
      rewrite Ept in Hpr. destruct pr; [discriminate|].
      apply (Hsub (pawn_ep g pc a)).
      -- apply pawn_ep_complete; auto; lia.
      -- intros m Hm. rewrite pawn_moves_split, !in_app_iff. tauto.
  - (* King *)
    destruct pr; [discriminate|].
    apply orb_true_iff in Hkind. destruct Hkind as [Hstep|Hcas].
    + rewrite Hatt in Hstep. apply andb_true_iff in Hstep. destruct Hstep as [Hn Hstep].
      apply (Hfin (Normal pc a t (gget g t))); [|reflexivity].
      unfold piece_moves. rewrite Epk. unfold king_moves. apply in_or_app. left.
      apply king_steps_complete; auto.
      * unfold is_dir, off. cbn [fst snd]. unfold pos_eqb in Hn. lia.
      * intros Hnear. apply Hk. unfold king_next_to_king. cbn [m_from m_to].
        split; [|exact Hnear]. rewrite Ea. destruct pc as [k c]. cbn [pk po] in *. now subst.
    + destruct (is_castling (abs g) (mkSMove a t None)) as [side|] eqn:Eis; [|discriminate].
      apply is_castling_some in Eis. cbn [abs p_turn m_from m_to] in Eis. destruct Eis as [Ea' Et'].
      rewrite back_rank_home in Ea', Et'.
      apply castling_complete in Hcas.
      apply (Hfin (if side then CastlingShort (g_player g) else CastlingLong (g_player g))).
      * unfold piece_moves. rewrite Epk. unfold king_moves. apply in_or_app. right. exact Hcas.
      * destruct side; cbn [abs_move]; now rewrite Ea', Et'.
Qed.
Print Assumptions gen_complete_noinv.

Theorem gen_complete : forall g sm,
  RepInv g -> KingsInv g -> king_exists g (g_player g) = true ->
  pseudo_legal (abs g) sm = true -> ~ king_next_to_king g sm ->
  exists m, In m (pseudo_moves_all g) /\ abs_move m = sm.
Proof. intros g sm _ _ _. apply gen_complete_noinv. Qed.
Print Assumptions gen_complete.

(* ---- the omitted king steps are never legal ------------------------------------------------------------------ *)

Lemma find_unique {A} (f : A -> bool) l x :
  In x l -> f x = true -> (forall y, In y l -> f y = true -> y = x) -> find f l = Some x.
Proof.
  induction l as [|a l IH]; intros Hin Hfx Hu; [contradiction|]. cbn [find].
  destruct (f a) eqn:E.
  - f_equal. apply Hu; [left; reflexivity | exact E].
  - destruct Hin as [->|Hin]; [congruence|]. apply IH; auto.
    intros y Hy. apply Hu. right; exact Hy.
Qed.

Lemma has_iff_at b q k c : has b q k c = true <-> at_ b q = Some (mkPiece k c).
Proof.
  unfold has. destruct (at_ b q) as [[k' c']|]; cbn [pk po]; [|split; discriminate].
  rewrite andb_true_iff, kind_eqb_eq, color_eqb_eq. split.
  - intros [-> ->]. reflexivity.
  - intros H. inversion H. auto.
Qed.

(* the only king of a colour is the king square of the rules *)
Lemma king_square_at b c k :
  valid k -> at_ b k = Some (mkPiece King c) ->
  (forall q, valid q -> at_ b q = Some (mkPiece King c) -> q = k) ->
  king_square b c = Some k.
Proof.
  intros Hv Hk Hu. unfold king_square. apply find_unique.
  - apply (proj2 (squares64_valid k)). exact Hv.
  - now apply has_iff_at.
  - intros q Hq Hh. apply Hu; [now apply (proj1 (squares64_valid q)) | now apply has_iff_at].
Qed.

Lemma other_neq c : other c <> c.
Proof. destruct c; discriminate. Qed.

Lemma pseudo_legal_king g a t pr :
  gget g a = Some (mkPiece King (g_player g)) ->
  pseudo_legal (abs g) (mkSMove a t pr) = true ->
  valid a /\ valid t /\ pr = None /\ own g (gget g t) = false
  /\ (attacks (g_board g) a t = true
      \/ exists side, is_castling (abs g) (mkSMove a t None) = Some side
                      /\ castling_ok (abs g) side = true).
Proof.
  intros Ea H. unfold pseudo_legal in H. cbv zeta in H.
  cbn [abs p_board p_turn m_from m_to m_promo] in H.
  apply andb_true_iff in H. destruct H as [H Hpc]. apply andb_true_iff in H. destruct H as [Ha Ht].
  apply on_board_valid in Ha, Ht.
  change (at_ (g_board g) a) with (gget g a) in Hpc. rewrite Ea in Hpc. cbn [pk po] in Hpc.
  apply andb_true_iff in Hpc. destruct Hpc as [Hpc Hkind].
  apply andb_true_iff in Hpc. destruct Hpc as [_ Hown'].
  destruct pr; [discriminate|].
  repeat (split; [assumption || reflexivity|]). split.
  - unfold color_at in Hown'. change (at_ (g_board g) t) with (gget g t) in Hown'.
    destruct (gget g t) as [pc'|]; [|reflexivity]. cbn [own]. now apply negb_true_iff.
  - apply orb_true_iff in Hkind. destruct Hkind as [Hs|Hc]; [left; exact Hs|right].
    fold (abs g) in Hc.
    destruct (is_castling (abs g) (mkSMove a t None)) as [side|]; [|discriminate].
    exists side. split; [reflexivity | exact Hc].
Qed.

Lemma attacks_king b a t c :
  at_ b a = Some (mkPiece King c) ->
  attacks b a t = negb (pos_eqb a t)
                  && ((Z.abs (fst t - fst a) <=? 1) && (Z.abs (snd t - snd a) <=? 1)).
Proof. intros E. unfold attacks. rewrite E. reflexivity. Qed.

Section NextToKing.
  Context (g : game) (HR : RepInv g) (HK : KingsInv g).

  Let c := g_player g.
  Let b := g_board g.
  Let ek := king_pos g (other c).

  Lemma enemy_king_there : valid ek /\ at_ b ek = Some (mkPiece King (other c)).
  Proof.
    destruct HR as [_ HRu]. destruct HK as [K1 K2]. split.
    - unfold ek. destruct (other c); [apply (ri_wking g HRu) | apply (ri_bking g HRu)].
    - apply (K1 (other c) K2).
  Qed.

  (* a square next to the enemy king (and not its own square) is attacked by it *)
  Lemma next_to_king_attacked b' t :
    at_ b' ek = Some (mkPiece King (other c)) -> t <> ek ->
    Z.abs (fst t - fst ek) <= 1 -> Z.abs (snd t - snd ek) <= 1 ->
    attacked b' t (other c) = true.
  Proof.
    intros He Hne H1 H2. apply attacked_iff. exists ek, (mkPiece King (other c)).
    split; [apply enemy_king_there|]. split; [exact He|]. split; [reflexivity|].
    rewrite (attacks_king b' ek t (other c) He).
    destruct (pos_eqb ek t) eqn:E; [apply pos_eqb_eq in E; congruence|].
    cbn [negb andb]. lia.
  Qed.

  Lemma king_next_to_king_illegal_ne sm :
    king_next_to_king g sm -> m_to sm <> king_pos g (other (g_player g)) ->
    Rules.legal (abs g) sm = false.
  Proof.
    destruct sm as [a t pr]. unfold king_next_to_king. cbn [m_from m_to].
    intros (Ea & N1 & N2) Hne. fold c ek in N1, N2, Hne.
    unfold legal. destruct (pseudo_legal (abs g) (mkSMove a t pr)) eqn:Hps; [|reflexivity].
    cbn [andb]. apply negb_false_iff.
    destruct (pseudo_legal_king g a t pr Ea Hps) as (Hva & Hvt & -> & Hown & Hmove).
    fold b in Hmove.
    destruct enemy_king_there as [Hvek Hek].
    destruct HR as [HC HRu]. pose proof (ci_board g HC) as Hwf. fold b in Hwf.
    change (gget g a) with (at_ b a) in Ea.
    destruct Hmove as [Hstep | (side & Eis & Hcas)].
    - (* a king step: afterwards the king stands on t, next to the other king *)
      rewrite (attacks_king b a t c Ea) in Hstep.
      apply andb_true_iff in Hstep. destruct Hstep as [Hn Hstep].
      assert (Hat : t <> a) by (intros ->; rewrite pos_eqb_refl in Hn; discriminate).
      assert (Eis : is_castling (abs g) (mkSMove a t None) = None).
      { destruct (is_castling (abs g) (mkSMove a t None)) as [side|] eqn:E; [|reflexivity].
        apply is_castling_some in E. cbn [m_from m_to] in E. destruct E as [-> ->].
        cbn [fst snd] in Hstep. destruct side; lia. }
      assert (Eep : is_en_passant (abs g) (mkSMove a t None) = false).
      { unfold is_en_passant, has. cbn [abs p_board p_turn m_from m_to].
        fold b. rewrite Ea. reflexivity. }
      assert (Eb : p_board (Rules.apply (abs g) (mkSMove a t None))
                   = put (put b a None) t (Some (mkPiece King c))).
      { unfold Rules.apply. cbn [p_board]. rewrite Eis, Eep.
        cbn [abs p_board m_from m_to m_promo]. fold b. rewrite Ea. reflexivity. }
      set (b' := put (put b a None) t (Some (mkPiece King c))) in *.
      assert (Ht' : at_ b' t = Some (mkPiece King c)).
      { unfold b', at_, put. apply grid_get_set_same; [apply wf_grid_set; exact Hwf | exact Hvt]. }
      assert (Hoth : forall q, q <> t -> q <> a -> at_ b' q = at_ b q).
      { intros q Q1 Q2. unfold b', at_, put.
        rewrite grid_get_set_other by congruence. apply grid_get_set_other. congruence. }
      assert (Ha' : at_ b' a = None).
      { unfold b', at_, put. rewrite grid_get_set_other by congruence.
        apply grid_get_set_same; assumption. }
      unfold in_check. rewrite Eb. cbn [abs p_turn]. fold c.
      rewrite (king_square_at b' c t Hvt Ht').
      + apply next_to_king_attacked; try assumption.
        rewrite Hoth; [exact Hek | congruence |].
        intros E. rewrite E, Ea in Hek. inversion Hek as [X]. symmetry in X. now apply other_neq in X.
      + intros q Hq Hkq. destruct (pos_eqb q t) eqn:E1; [now apply pos_eqb_eq in E1|].
        assert (Q1 : q <> t) by (intros ->; rewrite pos_eqb_refl in E1; discriminate).
        destruct (pos_eqb q a) eqn:E2.
        * apply pos_eqb_eq in E2. subst q. rewrite Ha' in Hkq. discriminate.
        * assert (Q2 : q <> a) by (intros ->; rewrite pos_eqb_refl in E2; discriminate).
          rewrite (Hoth q Q1 Q2) in Hkq. exfalso. apply Q2.
          rewrite <- (ri_kings g HRu q c Hq Hkq). apply (ri_kings g HRu a c Hva Ea).
    - (* castling onto a square next to the other king: not even pseudo-legal *)
      exfalso. apply is_castling_some in Eis. cbn [abs p_turn m_from m_to] in Eis.
      destruct Eis as [_ Et]. fold c in Et.
      assert (Hatt : attacked b t (other c) = true) by (now apply next_to_king_attacked).
      unfold castling_ok in Hcas. cbn [abs p_board p_turn] in Hcas. fold b c in Hcas.
      apply andb_true_iff in Hcas. destruct Hcas as [_ Hcas].
      rewrite <- Et, Hatt in Hcas. discriminate.
  Qed.

  (* a pseudo-legal king move onto the other king's square means that the side not to move is
     in check *)
  Lemma king_capture_gives_check sm :
    king_next_to_king g sm -> pseudo_legal (abs g) sm = true ->
    m_to sm = king_pos g (other (g_player g)) ->
    in_check (abs g) (other (g_player g)) = true.
  Proof.
    destruct sm as [a t pr]. unfold king_next_to_king. cbn [m_from m_to].
    intros (Ea & _ & _) Hps Et. fold c ek in Et. subst t.
    destruct (pseudo_legal_king g a ek pr Ea Hps) as (Hva & Hvt & -> & Hown & Hmove).
    fold b in Hmove.
    destruct enemy_king_there as [Hvek Hek].
    destruct HR as [HC HRu].
    change (gget g a) with (at_ b a) in Ea.
    destruct Hmove as [Hstep | (side & Eis & Hcas)].
    - unfold in_check. cbn [abs p_board]. fold b c.
      rewrite (king_square_at b (other c) ek Hvek Hek).
      + apply attacked_iff. exists a, (mkPiece King c). split; [exact Hva|]. split; [exact Ea|].
        split; [destruct c; reflexivity | exact Hstep].
      + intros q Hq Hkq. symmetry. apply (ri_kings g HRu q (other c) Hq Hkq).
    - exfalso. apply is_castling_some in Eis. cbn [abs p_turn m_from m_to] in Eis.
      destruct Eis as [_ Et]. fold c in Et.
      unfold castling_ok in Hcas. cbn [abs p_board p_turn] in Hcas. fold b c in Hcas.
      repeat (apply andb_true_iff in Hcas; let H' := fresh "H" in destruct Hcas as [Hcas H']).
      assert (He : empty b ek = true).
      { rewrite Et. destruct side; [|apply andb_true_iff in H2; destruct H2 as [H2 _]];
          apply andb_true_iff in H2; apply H2. }
      unfold empty in He. rewrite Hek in He. discriminate.
  Qed.

  Theorem king_next_to_king_illegal : forall sm,
    in_check (abs g) (other (g_player g)) = false ->
    king_next_to_king g sm -> Rules.legal (abs g) sm = false.
  Proof.
    intros sm Hnc Hk.
    destruct (pseudo_legal (abs g) sm) eqn:Hps; [|unfold legal; now rewrite Hps].
    apply king_next_to_king_illegal_ne; [exact Hk|].
    intros Et. rewrite (king_capture_gives_check sm Hk Hps Et) in Hnc. discriminate.
  Qed.

  (* every legal move is generated *)
  Theorem gen_complete_legal : forall sm,
    in_check (abs g) (other (g_player g)) = false ->
    Rules.legal (abs g) sm = true ->
    exists m, In m (pseudo_moves_all g) /\ abs_move m = sm.
  Proof.
    intros sm Hnc Hl. apply gen_complete_noinv.
    - unfold legal in Hl. apply andb_true_iff in Hl. apply Hl.
    - intros Hk. rewrite (king_next_to_king_illegal sm Hnc Hk) in Hl. discriminate.
  Qed.
End NextToKing.

Print Assumptions king_next_to_king_illegal_ne.
Print Assumptions king_next_to_king_illegal.
Print Assumptions gen_complete_legal.

(* ---- the hypothesis on the other king's square cannot be dropped ------------------------------------------- *)

(* Kings side by side with the side to move able to take the other king (not reachable by legal
   play: the side not to move is in check). The invariants hold, the king capture is legal for
   the rules as written and is a "king next to king" move, and the generator produces nothing. *)
Definition KK_FEN : list N := txt "8/8/8/8/8/8/8/Kk6 w - - 0 1"%string.
Definition KK : game := imported KK_FEN.

Lemma KK_import : Model.Fen.import KK_FEN = Ok KK.
Proof. vm_compute. reflexivity. Qed.

Lemma KK_kings_unique :
  forallb (fun p => forallb (fun c => implb (opiece_eqb (bget (g_board KK) p) (Some (mkPiece King c)))
                                            (pos_eqb (king_pos KK c) p)) all_colors) squares64 = true.
Proof. vm_compute. reflexivity. Qed.

Lemma KK_repinv : RepInv KK.
Proof.
  split; [exact (FenImport1.import_cache _ _ KK_import)|].
  destruct (FenImport1.import_rule_easy _ _ KK_import) as (H1 & _ & _ & H2 & H3 & H4 & H5 & H6).
  constructor; try assumption.
  - intros p c Hp Hk. pose proof KK_kings_unique as H. rewrite forallb_forall in H.
    specialize (H p (proj2 (squares64_valid p) Hp)). rewrite forallb_forall in H.
    assert (Hc : In c all_colors) by (destruct c; cbn; tauto).
    specialize (H c Hc). rewrite Hk in H.
    replace (opiece_eqb (Some (mkPiece King c)) (Some (mkPiece King c))) with true in H
      by (symmetry; now apply opiece_eqb_eq).
    cbn [implb] in H. now apply pos_eqb_eq in H.
  - intros c _. split; intros H; destruct c; vm_compute in H; discriminate.
  - intros H. vm_compute in H. discriminate.
Qed.

Lemma KK_kingsinv : KingsInv KK.
Proof.
  destruct (FenImport1.import_rule_easy _ _ KK_import) as (_ & _ & _ & _ & _ & _ & H5 & H6).
  now apply KingsInv_intro.
Qed.

Example king_capture_counterexample :
  RepInv KK /\ KingsInv KK /\ king_exists KK (g_player KK) = true
  /\ king_next_to_king KK (mkSMove (0, 0) (0, 1) None)
  /\ Rules.legal (abs KK) (mkSMove (0, 0) (0, 1) None) = true
  /\ pseudo_moves_all KK = [].
Proof.
  split; [exact KK_repinv|]. split; [exact KK_kingsinv|].
  split; [vm_compute; reflexivity|]. split.
  - unfold king_next_to_king. cbn [m_from m_to]. split; [vm_compute; reflexivity|].
    split; vm_compute; discriminate.
  - split; vm_compute; reflexivity.
Qed.
Print Assumptions king_capture_counterexample.

(* ---- the truncated buffer ------------------------------------------------------------------------------------ *)

Lemma pseudo_moves_firstn g :
  king_exists g (g_player g) = true -> pseudo_moves g = firstn 256 (pseudo_moves_all g).
Proof. intros H. unfold pseudo_moves. rewrite H. reflexivity. Qed.

Lemma pseudo_moves_all_fit g :
  king_exists g (g_player g) = true ->
  (length (pseudo_moves_all g) <= Z.to_nat MOVE_BUFFER_CAP)%nat ->
  pseudo_moves g = pseudo_moves_all g.
Proof. intros H Hl. unfold pseudo_moves. rewrite H. now apply firstn_all2. Qed.

Theorem gen_complete_pseudo : forall g sm,
  RepInv g -> KingsInv g -> king_exists g (g_player g) = true ->
  (length (pseudo_moves_all g) <= Z.to_nat MOVE_BUFFER_CAP)%nat ->
  pseudo_legal (abs g) sm = true -> ~ king_next_to_king g sm ->
  exists m, In m (pseudo_moves g) /\ abs_move m = sm.
Proof.
  intros g sm _ _ Hke Hlen Hps Hk. rewrite (pseudo_moves_all_fit g Hke Hlen).
  now apply gen_complete_noinv.
Qed.
Print Assumptions gen_complete_pseudo.

Theorem gen_complete_legal_pseudo : forall g sm,
  RepInv g -> KingsInv g -> king_exists g (g_player g) = true ->
  (length (pseudo_moves_all g) <= Z.to_nat MOVE_BUFFER_CAP)%nat ->
  in_check (abs g) (other (g_player g)) = false ->
  Rules.legal (abs g) sm = true ->
  exists m, In m (pseudo_moves g) /\ abs_move m = sm.
Proof.
  intros g sm HR HK Hke Hlen Hnc Hl. rewrite (pseudo_moves_all_fit g Hke Hlen).
  now apply gen_complete_legal.
Qed.
Print Assumptions gen_complete_legal_pseudo.

(* ---- the statements on the move lists of the rules --------------------------------------------------------- *)

Lemma sane_other_not_in_check p : sane p = true -> in_check p (other (p_turn p)) = false.
Proof.
  unfold sane. cbv zeta. intros H.
  repeat (apply andb_true_iff in H; let H' := fresh "H" in destruct H as [H H']).
  match goal with X : negb (in_check _ _) = true |- _ => now apply negb_true_iff in X end.
Qed.

(* every legal move of the rules is the image of a generated move *)
Corollary legal_moves_generated : forall g,
  RepInv g -> KingsInv g -> in_check (abs g) (other (g_player g)) = false ->
  incl (legal_moves (abs g)) (map abs_move (pseudo_moves_all g)).
Proof.
  intros g HR HK Hnc sm Hin. unfold legal_moves in Hin. apply filter_In in Hin. destruct Hin as [_ Hl].
  destruct (gen_complete_legal g HR HK sm Hnc Hl) as (m & Hm & <-). now apply in_map.
Qed.
Print Assumptions legal_moves_generated.

Corollary legal_moves_generated_sane : forall g,
  RepInv g -> KingsInv g -> sane (abs g) = true ->
  incl (legal_moves (abs g)) (map abs_move (pseudo_moves_all g)).
Proof.
  intros g HR HK Hs. apply legal_moves_generated; auto.
  exact (sane_other_not_in_check (abs g) Hs).
Qed.

(* every pseudo-legal move of the rules except the omitted king steps *)
Corollary pseudo_legal_moves_generated : forall g sm,
  In sm (pseudo_legal_moves (abs g)) -> ~ king_next_to_king g sm ->
  In sm (map abs_move (pseudo_moves_all g)).
Proof.
  intros g sm Hin Hk. unfold pseudo_legal_moves in Hin. apply filter_In in Hin. destruct Hin as [_ Hl].
  destruct (gen_complete_noinv g sm Hl Hk) as (m & Hm & <-). now apply in_map.
Qed.
Print Assumptions pseudo_legal_moves_generated.
