(* Both parts of the property-level theorems (kept so that existing imports of Proofs.Top keep working). *)
From Chess Require Export Proofs.TopCore Proofs.TopSearch.
